/-
Separators, part 4: bracketed operands again, now with separators next to the brackets.
  * `bracket_open`: prefix operators, the opening bracket, and trivia / separators after it (inside `( )` whitespace,
    directly after `{` dropped);
  * `bracket_result`: the operand that a closed bracket is, from the state after the closing bracket;
  * `opd_bracket`: `prefix* ( fill* E gfill* )` / `prefix* { fill* E trivia* }`.
-/
import Garnish.Lemmas.ParserB18

namespace Garnish.Spec
open Garnish Garnish.Gen Garnish.Model.Parser

theorem inGroup_ctx (d : Definition) (k : Nat) (cur : RTree) (l : Last) (ws ps : Bool) :
    ({ ctx := some (d, k), cur := cur, last := l, ws := ws, prevSep := ps } : Frame).inGroup = (d == .group) := by
  cases d <;> rfl

theorem FillPrev.comp_close {st : PState} (h : FillPrev st) (sc : SecDef) (hc : sc = .endGrouping ∨ sc = .endSideEffect)
    (c : Bool) : checkComposition st.previousSecondDef sc c = true := by
  rcases h with h | h | h | h <;> rw [h] <;> rcases hc with rfl | rfl <;> cases c <;> rfl

/-- the whitespace of a frame, on the reference side (no claim about the `ws` flag) -/
theorem ref_skip_gfillK (inG : Bool) (ws : List PToken) (f : Frame) (stack : List Frame) (pos : Nat) (rest : List PToken)
    (hig : f.inGroup = inG) (hws : ∀ w ∈ ws, isGFill inG w = true) :
    ∃ b, refLoop Table.gen f stack pos (ws ++ rest) = refLoop Table.gen { f with ws := b } stack (pos + ws.length) rest := by
  cases inG with
  | true =>
    apply ref_skip_fillK ws f stack pos rest _ (Or.inl hig)
    intro w hw
    have := hws w hw
    unfold isGFill at this; unfold isFillTok
    simpa using this
  | false =>
    apply ref_skipK ws f stack pos rest
    intro w hw
    have := hws w hw
    unfold isGFill at this
    simpa using this

/-- **prefix operators, an opening bracket, trivia / separators** -/
theorem bracket_open (st1 : PState) (ug : Option Nat) (pre : List PToken) (o : PToken) (wsA tail rest : List PToken)
    (hO : OpenB st1 ug) (hprios : AllPrio st1.nodes) (hpre : ∀ p ∈ pre, isPrefixTok p = true) (ho : isOpenTok o = true)
    (hwA : ∀ w ∈ wsA, isFillTok w = true) (htail : tail ≠ []) :
    ∃ sO', loop st1 (pre ++ (o :: (wsA ++ tail)) ++ rest) = loop sO' (tail ++ rest) ∧
      OpenB sO' (some (pushP st1 pre).nodes.size) ∧
      FrameStart sO' (some (pushP st1 pre).nodes.size) (some (pushP st1 pre).nodes.size) ((pushP st1 pre).nodes.size + 1) ∧
      AllPrio sO'.nodes ∧ CGOK sO' ∧
      KindOK sO' (some (pushP st1 pre).nodes.size) ((getDefinition o.type).1 == .group) ∧
      sO'.nodes = (pushP st1 pre).nodes.push ⟨(getDefinition o.type).1, .startGrouping, (pushP st1 pre).nextParent, none,
        some ((pushP st1 pre).nodes.size + 1), o⟩ ∧
      sO'.groupStack = st1.groupStack.push ((pushP st1 pre).nodes.size, false) ∧ StartPrev sO' := by
  obtain ⟨hsO, hdO⟩ := open_def_facts ho
  have hbrO : isBracketDef (getDefinition o.type).1 = true := by rcases hdO with h | h <;> rw [h] <;> rfl
  have hfO := bracket_facts hbrO
  have hO1 := pushP_openB pre st1 ug hO hpre
  obtain ⟨hgs1, hcg1⟩ := pushP_fields pre st1
  have hOO := hO1.stepO o ho
  have hgO : (stepO (pushP st1 pre) o).nodes[(pushP st1 pre).nodes.size]? =
      some ⟨(getDefinition o.type).1, .startGrouping, (pushP st1 pre).nextParent, none,
        some ((pushP st1 pre).nodes.size + 1), o⟩ := by simp [stepO]
  have hsO1 : (stepO (pushP st1 pre) o).nodes.size = (pushP st1 pre).nodes.size + 1 := by simp [stepO]
  have hkO : KindOK (stepO (pushP st1 pre) o) (some (pushP st1 pre).nodes.size) ((getDefinition o.type).1 == .group) :=
    ⟨_, hgO, rfl⟩
  have htopO : SkipTop (stepO (pushP st1 pre) o) (some (pushP st1 pre).nodes.size) ((getDefinition o.type).1 == .group) := by
    refine ⟨_, by rw [hsO1, Nat.add_sub_cancel]; exact hgO, hfO.2.2.2.2.1, Or.inl ⟨by rw [hsO1]; rfl, ?_⟩⟩
    rcases hdO with h | h
    · left; rw [h]; rfl
    · right; exact h
  obtain ⟨sO', hloopA, hOO', hnO', hnpO', _, hgsO', hcgO', hfpO'⟩ :=
    skip_runB (some (pushP st1 pre).nodes.size) ((getDefinition o.type).1 == .group) wsA (stepO (pushP st1 pre) o)
      (tail ++ rest) hOO hkO (by omega) htopO (Or.inl rfl) hwA
  refine ⟨sO', ?_, hOO', ?_, ?_, ?_, ?_, by rw [hnO']; rfl, by rw [hgsO']; simp [stepO, hgs1], ?_⟩
  · have e1 : pre ++ (o :: (wsA ++ tail)) ++ rest = pre ++ ((o :: (wsA ++ tail)) ++ rest) := by simp
    rw [e1, prefix_runB pre st1 ug _ hO hpre (by simp)]
    simp only [List.cons_append, loop]
    have he' : (wsA ++ tail ++ rest).isEmpty = false := by cases wsA <;> cases tail <;> simp_all
    rw [he', step_openB (pushP st1 pre) ug o ho hO1]
    simp only [Outcome.bind]
    rw [List.append_assoc, hloopA]
  · exact .bracket _ _ 20 (by rw [hnO']; exact hsO1) (by rw [hnpO']; rfl) (by rw [hnO']; exact hgO) hfO.2.1 hfO.1 rfl
  · rw [hnO']
    intro i nd hi
    simp only [stepO, Array.getElem?_push] at hi
    split at hi
    · injection hi with hi; subst hi; exact ⟨20, hfO.1⟩
    · exact pushP_allPrio pre st1 hprios hpre i nd hi
  · unfold CGOK
    rw [hcgO', hgsO']
    simp [stepO]
  · obtain ⟨G, hG, hd⟩ := hkO
    exact ⟨G, by rw [hnO']; exact hG, hd⟩
  · rcases hfpO' with h | h | h | h
    · exact Or.inr (Or.inl h)
    · exact Or.inr (Or.inr (Or.inr (Or.inr (Or.inr h))))
    · exact Or.inr (Or.inr (Or.inr (Or.inl h)))
    · exact Or.inr (Or.inr (Or.inr (Or.inr (Or.inl h))))

/-- the reference parser on prefix operators, an opening bracket, trivia / separators -/
theorem ref_bracket_open (pre : List PToken) (o : PToken) (wsA tail : List PToken) (pos : Nat)
    (hpre : ∀ p ∈ pre, isPrefixTok p = true) (ho : isOpenTok o = true) (hwA : ∀ w ∈ wsA, isFillTok w = true)
    (f : Frame) (stack : List Frame) (hf : OpenLast f.last) :
    ∃ l b2 bA, OpenLast l ∧ refLoop Table.gen f stack pos (pre ++ (o :: (wsA ++ tail))) =
      refLoop Table.gen
        { ctx := some ((getDefinition o.type).1, pos + pre.length), cur := .nil, last := .start, ws := bA,
          prevSep := (getDefinition o.type).1 == .nestedExpression }
        ({ f with cur := plugLeaves f.cur (leavesP pre pos), last := l, ws := false, prevSep := b2 } :: stack)
        (pos + pre.length + 1 + wsA.length) tail := by
  obtain ⟨_, hdO⟩ := open_def_facts ho
  obtain ⟨b, b2, l, hl, h⟩ := ref_prefix_runK pre f stack pos (o :: (wsA ++ tail)) hpre hf
  let fO : Frame :=
    { ctx := some ((getDefinition o.type).1, pos + pre.length), cur := RTree.nil, last := Last.start, ws := false,
      prevSep := (getDefinition o.type).1 == .nestedExpression }
  have hfO : fO.inGroup = true ∨ fO.prevSep = true := by
    rcases hdO with hd | hd
    · left; show Frame.inGroup _ = true; rw [inGroup_ctx, hd]; rfl
    · right; show ((getDefinition o.type).1 == Definition.nestedExpression) = true; rw [hd]; rfl
  obtain ⟨bA, hbA⟩ := ref_skip_fillK wsA fO
    ({ f with cur := plugLeaves f.cur (leavesP pre pos), last := l, ws := false, prevSep := b2 } :: stack)
    (pos + pre.length + 1) tail hwA hfO
  refine ⟨l, b2, bA, hl, ?_⟩
  rw [h]
  conv => lhs; unfold refLoop
  rw [ref_open_stepK _ stack _ o _ ho hl]
  simp only [Outcome.bind]
  rw [hbA]

/-- **the operand that a closed bracket is**: `st2` is the state after the closing bracket, `stE` the state that held the
    tree `E` of the content -/
theorem bracket_result (st1 : PState) (ug : Option Nat) (pre : List PToken) (o : PToken) (hO : OpenB st1 ug)
    (hpre : ∀ p ∈ pre, isPrefixTok p = true) (ho : isOpenTok o = true)
    (arrE : Array ParseNode) (E : Tree) (re : Nat)
    (hnE : NInv arrE (some (pushP st1 pre).nodes.size) (some (pushP st1 pre).nodes.size)
      ((pushP st1 pre).nodes.size + 1) E re)
    (hagree : ∀ j, j < (pushP st1 pre).nodes.size → arrE[j]? = (pushP st1 pre).nodes[j]?)
    (G' : ParseNode) (hG' : arrE[(pushP st1 pre).nodes.size]? = some G') (hGr' : G'.right = some re)
    (hGd' : G'.definition = (getDefinition o.type).1) (hGp' : G'.parent = (pushP st1 pre).nextParent)
    (hGl' : G'.left = none) (hGt' : G'.lexToken = o) (hGs' : G'.secondaryDefinition = .startGrouping)
    (st2 : PState) (hn2 : ∀ j, j < arrE.size → st2.nodes[j]? = arrE[j]?) (hsz2 : arrE.size ≤ st2.nodes.size)
    (hprios2 : AllPrio st2.nodes) (hnnl2 : st2.nextLastLeft = none) (hgs2 : st2.groupStack = st1.groupStack)
    (hcg2 : st2.currentGroup = st1.currentGroup) (hll2 : st2.lastLeft = some (pushP st1 pre).nodes.size)
    (hprev2 : st2.previousSecondDef = .endGrouping) (pos : Nat) (tail : List PToken)
    (hnum : NumberedFrom pos (pre ++ (o :: tail))) :
    OpdRes st1 st2 (chainR st1.nodes.size (pre.map (·.col)) (.node .nil (pushP st1 pre).nodes.size o.col E))
        (pushP st1 pre).nodes.size ∧
      PlugFn (dfOf st2.nodes) (aboveDef st1)
        (chainR st1.nodes.size (pre.map (·.col)) (.node .nil (pushP st1 pre).nodes.size o.col E))
        (fun R => plug (plugLeaves R (leavesP pre pos))
          (.group (getDefinition o.type).1 (pos + pre.length) (toRG (dfOf arrE) E))) := by
  obtain ⟨hsO, hdO⟩ := open_def_facts ho
  have hbrO : isBracketDef (getDefinition o.type).1 = true := by rcases hdO with h | h <;> rw [h] <;> rfl
  have hsz1 := pushP_size pre st1
  have hnumO := numbered_append pre _ pos hnum
  have hocol : o.col = pos + pre.length := hnumO.1
  have hsE : (pushP st1 pre).nodes.size + 1 < arrE.size := hnE.pos
  let X : Tree := .node .nil (pushP st1 pre).nodes.size o.col E
  have hXtree : IsTreeAt arrE (pushP st1 pre).nextParent (some (pushP st1 pre).nodes.size) X := by
    refine isTreeAt_node G' hG' hGp' (by rw [hGl']; exact .nil _) ?_ (by simp [tokPos, hGt'])
    rw [hGr']
    exact hnE.tree
  have htree := chainR_isTreeAt pre st1 arrE X hagree hXtree
  have hpdef : ∀ (i : Nat) (h : i < pre.length),
      dfOf arrE (st1.nodes.size + i) = (getDefinition (pre[i]).type).1 := by
    intro i h
    simp only [dfOf, hagree _ (show st1.nodes.size + i < (pushP st1 pre).nodes.size by omega), pushP_def pre st1 i h,
      Option.getD_some]
  have hgdef : dfOf arrE (pushP st1 pre).nodes.size = (getDefinition o.type).1 := by simp [dfOf, hG', hGd']
  have hleaves := leavesP_facts pre pos hpre
  have hcols : (leavesP pre pos).map (·.2) = pre.map (·.col) := leavesP_cols pre pos _ hnum
  have hin : SortedIn st1.nodes.size arrE.size (chainR st1.nodes.size (pre.map (·.col)) X).inorder := by
    rw [chainR_inorder, List.length_map]
    simp only [X, Tree.inorder, List.nil_append]
    rw [hsz1]
    exact (sortedIn_range' st1.nodes.size pre.length (st1.nodes.size + pre.length) (by omega)).append_cons
      (by have := hnE.inord; rw [hsz1] at this; exact this) (by omega) (by omega)
  have hag2 : ∀ j ∈ (chainR st1.nodes.size (pre.map (·.col)) X).inorder, st2.nodes[j]? = arrE[j]? :=
    fun j hj => hn2 j (hin.2 j hj).2
  have hdf2 : ∀ j ∈ (chainR st1.nodes.size (pre.map (·.col)) X).inorder, dfOf arrE j = dfOf st2.nodes j := by
    intro j hj; simp only [dfOf, hag2 j hj]
  have hspE : SpineG (dfOf arrE) (pushP st1 pre).nodes.size (chainR st1.nodes.size (pre.map (·.col)) X) := by
    apply spineG_chainR _ _ _ _ _ (by intro i hi; rw [List.length_map] at hi; rw [hpdef i hi]
                                      have hi' : i < (leavesP pre pos).length := by rw [leavesP_length]; exact hi
                                      have := hleaves _ (List.getElem_mem hi')
                                      rw [leavesP_get] at this
                                      exact this.2.2)
      (by rw [List.length_map, hsz1]; omega)
    simp only [X, SpineG, if_true, hgdef]
    exact hbrO
  have hG2 : st2.nodes[(pushP st1 pre).nodes.size]? = some G' := by rw [hn2 _ (by omega)]; exact hG'
  constructor
  · refine ⟨?_, by omega, htree.frame hag2, hin.mono (Nat.le_refl _) hsz2, hnnl2, hgs2, hcg2, ?_, hspE.congr hdf2, hprios2,
      Or.inr (Or.inr hprev2), ⟨_, G', hll2, hG2, Or.inr (by rw [hGd']; exact hbrO)⟩⟩
    · intro j hj
      rw [hn2 j (by omega), hagree j (by omega), pushP_below pre st1 j hj]
    · exact .closed _ G' (by omega) hll2 hG2 (by rw [hGd']; exact hbrO) (onSpine_chainR _ _ _ X (Or.inl rfl))
        (by rw [hGs']; rfl)
  · have hPE : PlugFn (dfOf arrE) (aboveDef st1) (chainR st1.nodes.size (pre.map (·.col)) X)
        (fun R => plug (plugLeaves R (leavesP pre pos))
          (.group (getDefinition o.type).1 (pos + pre.length) (toRG (dfOf arrE) E))) := by
      apply plugFn_of _ _ _ _ _ (fun p hp => ⟨(hleaves p hp).1, (hleaves p hp).2.1⟩)
      · rw [adjY_group, ← hcols, toRG_chainR (dfOf arrE) (leavesP pre pos) st1.nodes.size X
          (by intro i h
              rw [leavesP_get pre pos i h]
              exact hpdef i (by rw [leavesP_length] at h; exact h))
          (fun p hp => (hleaves p hp).2.2)]
        congr 1
        simp only [X, toRG, hgdef, hbrO, if_true, hocol]
      · intro _; exact adjY_group _ _ _ _ _
    have hcongr := toRG_congr _ _ _ hdf2
    exact ⟨hPE.node, fun l k => by rw [hPE.fresh, hcongr], fun h => by rw [hPE.nil h, hcongr]⟩

/-- the bracket node after the content has been processed -/
theorem bracket_node {sO' stE : PState} {g : Nat} {E : Tree} {re cbE : Nat} {G : ParseNode}
    (hinvE : UInv stE (some g) (some g) (g + 1) E re cbE) (hgO : sO'.nodes[g]? = some G)
    (ho2E : ∀ j, j < g + 1 → (stE.nodes[j]?).map (setRight none) = (sO'.nodes[j]?).map (setRight none)) :
    ∃ G', stE.nodes[g]? = some G' ∧ G'.right = some re ∧ G'.definition = G.definition ∧ G'.parent = G.parent ∧
      G'.left = G.left ∧ G'.lexToken = G.lexToken ∧ G'.secondaryDefinition = G.secondaryDefinition := by
  cases hfr : hinvE.n.frame with
  | bracket g re' G' pg hG' _ _ hGr =>
    refine ⟨G', hG', hGr, ?_⟩
    have := ho2E g (by omega)
    rw [hG', hgO] at this
    simp only [Option.map_some, Option.some.injEq] at this
    obtain ⟨e1, e2, e3, e4, e5⟩ := setRight_none_eq this
    exact ⟨e1, e2, e3, e4, e5⟩

/-- `prefix* ( fill* E gfill* )` / `prefix* { fill* E trivia* }` is a complete operand -/
theorem opd_bracket {k : Nat} {inner : List PToken} {ls : Bool} (pre : List PToken) (o c : PToken) (wsA wsB : List PToken)
    (hin : ExprOK k ((getDefinition o.type).1 == .group) inner ls)
    (hpre : ∀ p ∈ pre, isPrefixTok p = true) (ho : isOpenTok o = true)
    (hc : isCloseFor (getDefinition o.type).1 c) (hwA : ∀ w ∈ wsA, isFillTok w = true)
    (hwB : ∀ w ∈ wsB, isGFill ((getDefinition o.type).1 == .group) w = true) (hne : inner ≠ []) :
    OpdOK k (pre ++ (o :: (wsA ++ (inner ++ (wsB ++ [c]))))) := by
  intro st1 ug hO hprios hcg pos hnum rest
  have hsz1 := pushP_size pre st1
  obtain ⟨hgs1, hcg1⟩ := pushP_fields pre st1
  have hnumO := numbered_append pre _ pos hnum
  have hnumA := numbered_append wsA _ _ hnumO.2
  have hnumI := numbered_prefix inner _ _ hnumA
  obtain ⟨sO', hloopO, hOO', hfs, hpriosO, hcgO, hkO, hnO', hgsO', hspO⟩ :=
    bracket_open st1 ug pre o wsA (inner ++ (wsB ++ [c])) rest hO hprios hpre ho hwA (by simp [hne])
  have hgO : sO'.nodes[(pushP st1 pre).nodes.size]? = some ⟨(getDefinition o.type).1, .startGrouping,
      (pushP st1 pre).nextParent, none, some ((pushP st1 pre).nodes.size + 1), o⟩ := by rw [hnO']; simp
  -- the inner expression
  obtain ⟨stE, E, re, cbE, hloopE, hinvE, hgsE, hcgE, ho1E, ho2E, hrdE, hcntE, hrefE⟩ :=
    hin sO' _ _ _ hOO' hfs hpriosO hcgO hkO hspO _ hnumI ((wsB ++ [c]) ++ rest)
  have hkE : KindOK stE (some (pushP st1 pre).nodes.size) ((getDefinition o.type).1 == .group) :=
    hkO.transfer (base := (pushP st1 pre).nodes.size + 1) (fun g hg => by injection hg with hg; omega) ho2E
  obtain ⟨stE', hloopB, hinvE', hnE', hgsE', hcgE', _, _, _, _, _⟩ :=
    fill_runU ((getDefinition o.type).1 == .group) wsB stE ([c] ++ rest) hinvE.toF hkE hwB
  obtain ⟨G', hG', hGr', hGd', hGp', hGl', hGt', hGs'⟩ := bracket_node hinvE hgO ho2E
  have hback : stE'.groupStack.back? = some ((pushP st1 pre).nodes.size, false) := by
    rw [hgsE', hgsE, hgsO']
    simp
  have hclose := step_closeF hinvE' G' (by rw [hnE']; exact hG') false hback c
    (by rw [hGd']; exact isCloseFor_closes hc) rest.isEmpty
  have hagree : ∀ j, j < (pushP st1 pre).nodes.size → stE.nodes[j]? = (pushP st1 pre).nodes[j]? := by
    intro j hj
    rw [ho1E j (by omega), hnO', Array.getElem?_push, if_neg (by omega)]
  have hpop : stE'.groupStack.pop = st1.groupStack := by
    rw [hgsE', hgsE, hgsO']; simp
  obtain ⟨hres, hP⟩ := bracket_result st1 ug pre o hO hpre ho stE.nodes E re hinvE.n hagree G' hG' hGr' hGd' hGp' hGl' hGt'
    hGs' (stepC stE' (pushP st1 pre).nodes.size false c) (fun j _ => by show stE'.nodes[j]? = _; rw [hnE'])
    (by show _ ≤ stE'.nodes.size; rw [hnE']; exact Nat.le_refl _) (by show AllPrio stE'.nodes; rw [hnE']; exact hinvE.n.prios)
    hinvE'.inv.nnl hpop
    (by show (if stE'.groupStack.pop.isEmpty then none else some (stE'.groupStack.pop.size - 1)) = _
        rw [hpop]; exact hcg.symm)
    rfl (isCloseFor_secdef hc) pos _ hnum
  have hcnt : (chainR st1.nodes.size (pre.map (·.col)) (.node .nil (pushP st1 pre).nodes.size o.col E)).inorder.length +
      st1.nodes.size + k = (stepC stE' (pushP st1 pre).nodes.size false c).nodes.size := by
    show _ = stE'.nodes.size
    rw [hnE', chainR_inorder, List.length_map]
    simp only [Tree.inorder, List.nil_append, List.length_append, List.length_range', List.length_cons]
    omega
  refine ⟨stepC stE' (pushP st1 pre).nodes.size false c, _, _, _, ?_, hres, hP, hcnt, ?_⟩
  · have e3 : inner ++ (wsB ++ [c]) ++ rest = inner ++ ((wsB ++ [c]) ++ rest) := by simp
    have e4 : (wsB ++ [c]) ++ rest = wsB ++ ([c] ++ rest) := by simp
    rw [hloopO, e3, hloopE, e4, hloopB]
    simp only [List.cons_append, List.nil_append, loop, hclose, Outcome.bind]
  · intro f stack restR hf
    have e1 : pre ++ (o :: (wsA ++ (inner ++ (wsB ++ [c])))) ++ restR =
        pre ++ (o :: (wsA ++ (inner ++ (wsB ++ ([c] ++ restR))))) := by simp
    obtain ⟨l, b2, bA, hl, h⟩ := ref_bracket_open pre o wsA (inner ++ (wsB ++ ([c] ++ restR))) pos hpre ho hwA f stack hf
    rw [e1, h, hrefE _ _ (wsB ++ ([c] ++ restR)) rfl rfl (inGroup_ctx _ _ _ _ _ _)]
    let fE : Frame :=
      { ctx := some ((getDefinition o.type).1, pos + pre.length), cur := toRG (dfOf stE.nodes) E,
        last := (if ls then Last.suffix else Last.operand), ws := false, prevSep := false }
    obtain ⟨bB, hbB⟩ := ref_skip_gfillK ((getDefinition o.type).1 == .group) wsB fE
      ({ f with cur := plugLeaves f.cur (leavesP pre pos), last := l, ws := false, prevSep := b2 } :: stack)
      (pos + pre.length + 1 + wsA.length + inner.length) ([c] ++ restR) (inGroup_ctx _ _ _ _ _ _) hwB
    rw [hbB]
    conv => lhs; unfold refLoop
    simp only [List.cons_append, List.nil_append]
    rw [ref_close_stepK _ _ stack _ c restR (getDefinition o.type).1 (pos + pre.length) rfl hc (by cases ls <;> simp [fE])]
    simp only [Outcome.bind]
    have hlen : pos + pre.length + 1 + wsA.length + inner.length + wsB.length + 1 =
        pos + (pre ++ (o :: (wsA ++ (inner ++ (wsB ++ [c]))))).length := by
      simp only [List.length_append, List.length_cons, List.length_nil]; omega
    rw [hlen]

end Garnish.Spec
