/-
Brackets, part 6: the state invariant `UInv` after an operand or a suffix operator inside a frame (top level or an open
bracket) — `last_left` is the last node (a value / suffix operator) or a closed bracket `cb` — and the effect of a binary
operator (`op_effectU`) and of a suffix operator (`suffix_effectU`) on such a state.
-/
import Garnish.Lemmas.ParserB5

namespace Garnish.Spec
open Garnish Garnish.Gen Garnish.Model.Parser

def isBracketDef (d : Definition) : Bool := d == .group || d == .nestedExpression

theorem bracket_facts {d : Definition} (h : isBracketDef d = true) :
    priority d = some 20 ∧ d.isGroupLike = true ∧ (d == Definition.sideEffect) = false ∧ d.isValueLike = false ∧
      d.isOptional = false ∧ (d == Definition.subexpression) = false := by
  revert h; cases d <;> decide

theorem binop_prio20 (tt : TokenType)
    (h : ((getDefinition tt).2 == SecDef.binaryLeftToRight || (getDefinition tt).2 == SecDef.binaryRightToLeft) = true) :
    ∃ q, priority (getDefinition tt).1 = some q ∧ 20 < q ∧ isBracketDef (getDefinition tt).1 = false := by
  revert h
  cases tt <;> simp only [getDefinition] <;> decide

theorem bin3_prio20 (tt : TokenType)
    (h : ((getDefinition tt).2 == SecDef.binaryLeftToRight || (getDefinition tt).2 == SecDef.binaryRightToLeft ||
      (getDefinition tt).2 == SecDef.optionalBinaryLeftToRight) = true) :
    ∃ q, priority (getDefinition tt).1 = some q ∧ 20 < q ∧ isBracketDef (getDefinition tt).1 = false := by
  revert h
  cases tt <;> simp only [getDefinition] <;> decide

theorem bin3_secdef {o : PToken} (ho : isBin3Tok o = true) :
    (getDefinition o.type).2 = .binaryLeftToRight ∨ (getDefinition o.type).2 = .binaryRightToLeft ∨
      (getDefinition o.type).2 = .optionalBinaryLeftToRight := by
  unfold isBin3Tok at ho; simpa [Bool.or_eq_true, beq_iff_eq, or_assoc] using ho

theorem suffix_prio20 (tt : TokenType) (h : (getDefinition tt).2 = SecDef.unarySuffix) :
    ∃ q, priority (getDefinition tt).1 = some q ∧ 20 < q ∧ isBracketDef (getDefinition tt).1 = false := by
  revert h
  cases tt <;> simp only [getDefinition] <;> decide

theorem stops_twenty {q : Nat} (rtl : Bool) (h : 20 < q) : stops q rtl 20 = false := by
  simp only [stops, Bool.or_eq_false_iff, decide_eq_false_iff_not, Bool.and_eq_false_iff, beq_eq_false_iff_ne]
  exact ⟨by omega, Or.inl (by omega)⟩

/-! ### brackets on the right spine -/

/-- on the right spine only `cb` (where the spine ends as far as walks are concerned) is a bracket -/
def SpineG (df : Nat → Definition) (cb : Nat) : Tree → Prop
  | .nil => True
  | .node _ i _ r => if i = cb then isBracketDef (df i) = true else isBracketDef (df i) = false ∧ SpineG df cb r

theorem SpineG.congr {df df' : Nat → Definition} {cb : Nat} : ∀ {t : Tree}, (∀ i ∈ t.inorder, df i = df' i) →
    SpineG df cb t → SpineG df' cb t
  | .nil, _, _ => trivial
  | .node l i k r, h, hs => by
    have hi := h i (by simp [Tree.inorder])
    simp only [SpineG] at hs ⊢
    split
    · rename_i hc; rw [if_pos hc] at hs; rw [← hi]; exact hs
    · rename_i hc; rw [if_neg hc] at hs
      exact ⟨by rw [← hi]; exact hs.1, SpineG.congr (fun j hj => h j (by simp [Tree.inorder, hj])) hs.2⟩

theorem spineG_newOp {df : Nat → Definition} {cb n ko : Nat} {s sub : Tree} (hn : n ≠ cb)
    (hdn : isBracketDef (df n) = false) (hsub : SpineG df cb sub) : SpineG df cb (newOpS s n ko sub) := by
  simp only [newOpS, SpineG, if_neg hn]; exact ⟨hdn, hsub⟩

theorem spineG_absorbC {df : Nat → Definition} {cb0 cb : Nat} {pr : Nat → Nat} {q : Nat} {rtl : Bool} {n ko : Nat}
    {sub : Tree} (hn : n ≠ cb) (hdn : isBracketDef (df n) = false) (hsub : SpineG df cb sub) :
    ∀ (t t' : Tree), cb ∉ t.inorder → SpineG df cb0 t → absorbC cb0 pr q rtl n ko sub t = some t' → SpineG df cb t'
  | .nil, _, _, _, h => by simp [absorbC] at h
  | .node l i k r, t', hcb, hs, h => by
    have hi : i ≠ cb := fun e => hcb (by simp [Tree.inorder, e])
    have hcbr : cb ∉ r.inorder := fun hm => hcb (by simp [Tree.inorder, hm])
    simp only [absorbC] at h
    split at h
    · cases h
    · rename_i hc
      simp only [SpineG, if_neg hc] at hs
      cases hr : absorbC cb0 pr q rtl n ko sub r with
      | some r' =>
        simp only [hr, Option.some.injEq] at h; subst h
        simp only [SpineG, if_neg hi]
        exact ⟨hs.1, spineG_absorbC hn hdn hsub r r' hcbr hs.2 hr⟩
      | none =>
        simp only [hr] at h
        split at h
        · simp only [Option.some.injEq] at h; subst h
          simp only [SpineG, if_neg hi]
          exact ⟨hs.1, spineG_newOp hn hdn hsub⟩
        · cases h

theorem spineG_insertC {df : Nat → Definition} {cb0 cb : Nat} {pr : Nat → Nat} {q : Nat} {rtl : Bool} {n ko : Nat}
    {sub t : Tree} (hn : n ≠ cb) (hdn : isBracketDef (df n) = false) (hsub : SpineG df cb sub) (hcb : cb ∉ t.inorder)
    (hs : SpineG df cb0 t) : SpineG df cb (insertC cb0 pr q rtl n ko sub t) := by
  unfold insertC
  cases h : absorbC cb0 pr q rtl n ko sub t with
  | some t' => exact spineG_absorbC hn hdn hsub t t' hcb hs h
  | none => exact spineG_newOp hn hdn hsub

theorem onSpine_absorbC {cb0 cb : Nat} {pr : Nat → Nat} {q : Nat} {rtl : Bool} {n ko : Nat} {sub : Tree}
    (hsub : OnSpine cb sub) :
    ∀ (t t' : Tree), absorbC cb0 pr q rtl n ko sub t = some t' → OnSpine cb t'
  | .nil, _, h => by simp [absorbC] at h
  | .node l i k r, t', h => by
    simp only [absorbC] at h
    split at h
    · cases h
    · cases hr : absorbC cb0 pr q rtl n ko sub r with
      | some r' =>
        simp only [hr, Option.some.injEq] at h; subst h
        exact Or.inr (onSpine_absorbC hsub r r' hr)
      | none =>
        simp only [hr] at h
        split at h
        · simp only [Option.some.injEq] at h; subst h
          exact Or.inr (Or.inr hsub)
        · cases h

theorem onSpine_insertC {cb0 cb : Nat} {pr : Nat → Nat} {q : Nat} {rtl : Bool} {n ko : Nat} {sub t : Tree}
    (hsub : OnSpine cb sub) : OnSpine cb (insertC cb0 pr q rtl n ko sub t) := by
  unfold insertC
  cases h : absorbC cb0 pr q rtl n ko sub t with
  | some t' => exact onSpine_absorbC hsub t t' h
  | none => exact Or.inr hsub

/-! ### the invariant -/

/-- what `last_left` points to after an operand or a suffix operator; `cb` = the closed bracket, or `nodes.size` if the
    last node is a value or a suffix operator -/
inductive Bot (st : PState) (E : Tree) : Nat → Prop
  | plain : st.lastLeft = some (st.nodes.size - 1) →
      (∃ nd, st.nodes[st.nodes.size - 1]? = some nd ∧ nd.right = none ∧ nd.definition.isGroupLike = false) →
      E.inorder.getLast? = some (st.nodes.size - 1) →
      (∀ nd, st.nodes[st.nodes.size - 1]? = some nd → (nd.secondaryDefinition == SecDef.subexpression) = false) →
      Bot st E st.nodes.size
  | closed (cb : Nat) (G : ParseNode) : cb < st.nodes.size → st.lastLeft = some cb → st.nodes[cb]? = some G →
      isBracketDef G.definition = true → OnSpine cb E →
      (G.secondaryDefinition == SecDef.subexpression) = false → Bot st E cb

/-- **frame-local invariant** after an operand or a suffix operator (closed under trivia tokens) -/
structure UInv (st : PState) (ug p : Option Nat) (base : Nat) (E : Tree) (re cb : Nat) : Prop where
  n : NInv st.nodes ug p base E re
  nnl : st.nextLastLeft = none
  hug : underGroupOf st = .ok ug
  bot : Bot st E cb
  spine : SpineG (dfOf st.nodes) cb E
  prev : st.previousSecondDef = .value ∨ st.previousSecondDef = .identifier ∨ st.previousSecondDef = .unarySuffix ∨
    st.previousSecondDef = .endGrouping ∨ st.previousSecondDef = .whitespace ∨ st.previousSecondDef = .annotation

theorem getLast?_append_cons' {α : Type} (l1 l2 : List α) (n : α) : (l1 ++ n :: l2).getLast? = (n :: l2).getLast? := by
  rw [List.getLast?_append]
  rw [List.getLast?_eq_some_getLast (List.cons_ne_nil n l2)]
  rfl

theorem Bot.noop_data {st : PState} {E : Tree} {cb : Nat} (h : Bot st E cb) :
    ∃ i nd, st.lastLeft = some i ∧ st.nodes[i]? = some nd ∧ (nd.definition == Definition.sideEffect) = false := by
  cases h with
  | plain hl hb _ _ =>
    obtain ⟨nd, h1, _, h3⟩ := hb
    exact ⟨_, nd, hl, h1, not_sideEffect_of_not_groupLike h3⟩
  | closed cb G _ hl hG hbr _ _ => exact ⟨_, G, hl, hG, (bracket_facts hbr).2.2.1⟩

theorem UInv.adjust {st : PState} {ug p : Option Nat} {base : Nat} {E : Tree} {re cb : Nat}
    (h : UInv st ug p base E re cb) : adjustLastLeft st ug = .ok st := by
  obtain ⟨i, nd, h1, h2, h3⟩ := h.bot.noop_data
  exact adjust_noop st ug (Or.inr ⟨i, nd, h1, h2, Or.inl h3⟩)

theorem UInv.cb_not_mem {st : PState} {ug p : Option Nat} {base : Nat} {E : Tree} {re cb : Nat}
    (h : UInv st ug p base E re cb) : st.nodes.size ∉ E.inorder := fun hm => by
  have := (h.n.mem _ hm).2; omega

theorem UInv.comp_binop {st : PState} {ug p : Option Nat} {base : Nat} {E : Tree} {re cb : Nat}
    (h : UInv st ug p base E re cb) (so : SecDef)
    (ho : so = .binaryLeftToRight ∨ so = .binaryRightToLeft ∨ so = .optionalBinaryLeftToRight) :
    checkComposition st.previousSecondDef so st.checkForList = true := by
  generalize st.checkForList = c
  rcases h.prev with h | h | h | h | h | h <;> rw [h] <;> rcases ho with rfl | rfl | rfl <;> cases c <;> rfl

theorem UInv.comp_suffix {st : PState} {ug p : Option Nat} {base : Nat} {E : Tree} {re cb : Nat}
    (h : UInv st ug p base E re cb) : checkComposition st.previousSecondDef .unarySuffix st.checkForList = true := by
  generalize st.checkForList = c
  rcases h.prev with h | h | h | h | h | h <;> rw [h] <;> cases c <;> rfl

/-- `parse_token` for a new operator of priority > 20 on a state that satisfies `UInv` -/
theorem core_effectU {st : PState} {ug p : Option Nat} {base : Nat} {E : Tree} {re cb : Nat}
    (hinv : UInv st ug p base E re cb) (d : Definition) (q : Nat) (rtl : Bool) (right : Option Nat)
    (hq : priority d = some q) (hq20 : 20 < q) :
    ∃ (nodes' : Array ParseNode) (info : Info),
      parseToken st.nodes.size d st.lastLeft right st.nodes ug rtl = .ok (nodes', info) ∧
      info.right = right ∧
      (∀ j, j < st.nodes.size → (nodes'[j]?).map (·.definition) = (st.nodes[j]?).map (·.definition)) ∧
      (∀ j, j < base → (nodes'[j]?).map (setRight none) = (st.nodes[j]?).map (setRight none)) ∧
      (∀ j, j + 1 < base → nodes'[j]? = st.nodes[j]?) ∧
      (∀ (arr : Array ParseNode) (sub : Tree) (ko : Nat) {rlink : Option Nat},
        (∀ j, j < st.nodes.size → arr[j]? = nodes'[j]?) →
        (∃ on, arr[st.nodes.size]? = some on ∧ on.parent = info.parent ∧ on.left = info.left ∧ on.right = rlink ∧
          tokPos on = ko) →
        IsTreeAt arr (some st.nodes.size) rlink sub →
        ∃ re', FrameTree arr p re' (insertC cb (prioAt st.nodes) q rtl st.nodes.size ko sub E)) ∧
      ((cb = st.nodes.size → stops q rtl (prioAt st.nodes (st.nodes.size - 1)) = false) → (∀ g, p = some g → info.parent.isSome = true) ∧ ∀ P, info.parent = some P →
        ∃ l, info.left = some l ∧ l < st.nodes.size ∧ P < st.nodes.size ∧ l ≠ P ∧
          ∀ j, (if j = P then (nodes'[j]?).map (setRight (some l))
                else if j = l then (nodes'[j]?).map (setParent (some P)) else nodes'[j]?) = st.nodes[j]?) := by
  have hnm := hinv.cb_not_mem
  cases hb : hinv.bot with
  | plain hl _ hlastE _ =>
    obtain ⟨nodes', info, h1, h2, h3, h4, h5, h6, h7⟩ := core_effectB hinv.n hlastE d q rtl right hq
    refine ⟨nodes', info, by rw [hl]; exact h1, h2, h3, h4, h5, ?_, fun hs => h7 (hs rfl)⟩
    intro arr sub ko rlink ha hon hsub
    obtain ⟨re', hre'⟩ := h6 arr sub ko ha hon hsub
    exact ⟨re', by rw [insertC_eq_insertS _ _ _ _ _ _ _ _ hnm]; exact hre'⟩
  | closed cb G _ hl hG hbr hsp _ =>
    have hns : stops q rtl (prioAt st.nodes cb) = false := by
      have : prioAt st.nodes cb = 20 := by simp [prioAt, hG, (bracket_facts hbr).1]
      rw [this]; exact stops_twenty rtl hq20
    obtain ⟨nodes', info, h1, h2, h3, h4, h5, h6, h7⟩ := core_effectC hinv.n cb hsp d q rtl right hq hns
    exact ⟨nodes', info, by rw [hl]; exact h1, h2, h3, h4, h5, h6, fun _ => h7⟩

/-- **a binary-operator token** on a state that satisfies `UInv` -/
theorem op_effectU {st : PState} {ug p : Option Nat} {base : Nat} {E : Tree} {re cb : Nat} {o : PToken}
    (hinv : UInv st ug p base E re cb) (ho : isBin3Tok o = true) :
    ∃ (q : Nat) (nodes' : Array ParseNode) (info : Info) (st1 : PState),
      priority (getDefinition o.type).1 = some q ∧ step st o false = .ok st1 ∧
      st1.nodes = nodes'.push ⟨(getDefinition o.type).1, (getDefinition o.type).2, info.parent, info.left,
        some (st.nodes.size + 1), o⟩ ∧
      nodes'.size = st.nodes.size ∧ OpenB st1 ug ∧ st1.groupStack = st.groupStack ∧ st1.currentGroup = st.currentGroup ∧
      (∀ j, j < st.nodes.size → (nodes'[j]?).map (·.definition) = (st.nodes[j]?).map (·.definition)) ∧
      (∀ j, j < base → (nodes'[j]?).map (setRight none) = (st.nodes[j]?).map (setRight none)) ∧
      (∀ j, j + 1 < base → nodes'[j]? = st.nodes[j]?) ∧
      (∀ (arr : Array ParseNode) (sub : Tree) (ko : Nat) {rlink : Option Nat},
        (∀ j, j < st.nodes.size → arr[j]? = nodes'[j]?) →
        (∃ on, arr[st.nodes.size]? = some on ∧ on.parent = info.parent ∧ on.left = info.left ∧
          on.right = rlink ∧ tokPos on = ko) →
        IsTreeAt arr (some st.nodes.size) rlink sub →
        ∃ re', FrameTree arr p re'
          (insertC cb (prioAt st.nodes) q ((getDefinition o.type).2 == .binaryRightToLeft) st.nodes.size ko sub E)) := by
  have ho' := ho
  unfold isBin3Tok at ho'
  obtain ⟨q, hq, hq20, _⟩ := bin3_prio20 o.type ho'
  obtain ⟨f1, f2, f3, f4⟩ := bin3_def_facts o.type ho'
  have hso := bin3_secdef ho
  obtain ⟨nodes', info, hpt, hir, hdefs, hout1, hout2, htreeK, _⟩ := core_effectU hinv (getDefinition o.type).1 q
    ((getDefinition o.type).2 == .binaryRightToLeft) (some (st.nodes.size + 1)) hq hq20
  obtain ⟨st1, h1⟩ := step_bin3_okG st o ho hinv.hug hinv.adjust (hinv.comp_binop _ hso) ⟨nodes', info, hpt⟩
  obtain ⟨nodes1, info1, hpt1, hn1, hl1, hc1, hnl1, hgs1, hcg1, hp1⟩ :=
    step_bin3_specG st st1 o ho hinv.nnl hinv.hug hinv.adjust h1
  have hnp1 := step_bin3_nextParentG st st1 o ho hinv.nnl hinv.hug hinv.adjust h1
  rw [hpt] at hpt1
  injection hpt1 with hpt1; injection hpt1 with e1 e2; subst e1; subst e2
  have hsz' : nodes'.size = st.nodes.size := (parseToken_size_def hpt).1
  rw [hir] at hn1
  refine ⟨q, nodes', info, st1, hq, h1, hn1, hsz', ?_, hgs1, hcg1, hdefs, hout1, hout2, htreeK⟩
  have hs1 : st1.nodes.size = st.nodes.size + 1 := by rw [hn1]; simp [hsz']
  have hon1 : st1.nodes[st.nodes.size]? = some ⟨(getDefinition o.type).1, (getDefinition o.type).2, info.parent,
      info.left, some (st.nodes.size + 1), o⟩ := by
    rw [hn1, Array.getElem?_push, if_pos hsz'.symm]
  have hug1 : underGroupOf st1 = .ok ug := by
    have := hinv.hug; simp only [underGroupOf, hgs1, hcg1] at this ⊢; exact this
  refine ⟨hc1, hnl1, hug1, by rw [hnp1, hl1], ?_, Or.inr ?_, ?_⟩
  · exact adjust_noop st1 ug (Or.inr ⟨_, _, hl1, hon1, Or.inl (not_sideEffect_of_not_groupLike f4)⟩)
  · refine ⟨⟨(getDefinition o.type).1, (getDefinition o.type).2, info.parent, info.left, some (st.nodes.size + 1), o⟩,
      q, by omega, by rw [hl1, hs1]; rfl, ?_, hq, by rw [hs1], f3, Or.inl ⟨by omega, f4⟩⟩
    rw [hs1, Nat.add_sub_cancel]; exact hon1
  · rw [hp1]
    rcases hso with h | h | h <;> rw [h] <;> simp

/-- **a suffix-operator token** on a state that satisfies `UInv`: the new state satisfies `UInv` for `insertC .. nil E` -/
theorem suffix_effectU {st : PState} {ug p : Option Nat} {base : Nat} {E : Tree} {re cb : Nat}
    (hinv : UInv st ug p base E re cb) (s : PToken) (il : Bool) (hs : isSuffixTok s = true) :
    ∃ (q : Nat) (st1 : PState) (re' : Nat), priority (getDefinition s.type).1 = some q ∧ step st s il = .ok st1 ∧
      UInv st1 ug p base (insertC cb (prioAt st.nodes) q false st.nodes.size s.col .nil E) re' st1.nodes.size ∧
      st1.nodes.size = st.nodes.size + 1 ∧ st1.groupStack = st.groupStack ∧ st1.currentGroup = st.currentGroup ∧
      (∀ j, j < st.nodes.size → (st1.nodes[j]?).map (·.definition) = (st.nodes[j]?).map (·.definition)) ∧
      (∀ j, j < base → (st1.nodes[j]?).map (setRight none) = (st.nodes[j]?).map (setRight none)) ∧
      (∀ j, j + 1 < base → st1.nodes[j]? = st.nodes[j]?) ∧
      dfOf st1.nodes st.nodes.size = (getDefinition s.type).1 := by
  have hsd : (getDefinition s.type).2 = .unarySuffix := by unfold isSuffixTok at hs; simpa using hs
  obtain ⟨q, hq, hq20, hnb⟩ := suffix_prio20 s.type hsd
  obtain ⟨_, _, _, _, _, _, f3, f4⟩ := suffix_def_facts s.type hsd
  obtain ⟨nodes', info, hpt, hir, hdefs, hout1, hout2, htreeK, _⟩ :=
    core_effectU hinv (getDefinition s.type).1 q false none hq hq20
  obtain ⟨st1, h1⟩ := step_suffix_okG st s il hs hinv.hug hinv.adjust hinv.comp_suffix ⟨nodes', info, hpt⟩
  obtain ⟨nodes1, info1, hpt1, hn1, hl1, hc1, hnl1, hgs1, hcg1, hp1⟩ :=
    step_suffix_specG st st1 s il hs hinv.nnl hinv.hug hinv.adjust h1
  rw [hpt] at hpt1
  injection hpt1 with hpt1; injection hpt1 with e1 e2; subst e1; subst e2
  have hsz' : nodes'.size = st.nodes.size := (parseToken_size_def hpt).1
  rw [hir] at hn1
  have hs1 : st1.nodes.size = st.nodes.size + 1 := by rw [hn1]; simp [hsz']
  have hon : st1.nodes[st.nodes.size]? =
      some ⟨(getDefinition s.type).1, .unarySuffix, info.parent, info.left, none, s⟩ := by
    rw [hn1, Array.getElem?_push, if_pos hsz'.symm]
  have hlt : ∀ j, j < st.nodes.size → st1.nodes[j]? = nodes'[j]? := by
    intro j hj; rw [hn1, Array.getElem?_push, if_neg (by omega)]
  obtain ⟨re', htree', hfr'⟩ := htreeK st1.nodes .nil s.col hlt ⟨_, hon, rfl, rfl, rfl, rfl⟩ (.nil _)
  have hdefs1 : ∀ j, j < st.nodes.size → (st1.nodes[j]?).map (·.definition) = (st.nodes[j]?).map (·.definition) := by
    intro j hj; rw [hlt j hj]; exact hdefs j hj
  have hbase := hinv.n.pos
  have hdn : dfOf st1.nodes st.nodes.size = (getDefinition s.type).1 := by simp [dfOf, hon]
  refine ⟨q, st1, re', hq, h1, ?_, hs1, hgs1, hcg1, hdefs1,
    fun j hj => by rw [hlt j (by omega)]; exact hout1 j hj, fun j hj => by rw [hlt j (by omega)]; exact hout2 j hj, hdn⟩
  have hug1 : underGroupOf st1 = .ok ug := by
    have := hinv.hug; simp only [underGroupOf, hgs1, hcg1] at this ⊢; exact this
  have hprios1 : AllPrio st1.nodes := by
    intro i nd hi
    by_cases c1 : i < st.nodes.size
    · have := hdefs1 i c1
      rw [hi] at this
      cases hsi : st.nodes[i]? with
      | none => rw [hsi] at this; cases this
      | some nd0 =>
        rw [hsi] at this
        simp only [Option.map_some, Option.some.injEq] at this
        rw [this]; exact hinv.n.prios i nd0 hsi
    · by_cases c2 : i = st.nodes.size
      · subst c2; rw [hon] at hi; injection hi with hi; subst hi; exact ⟨q, hq⟩
      · have : st1.nodes[i]? = none := by apply Array.getElem?_eq_none; omega
        rw [this] at hi; cases hi
  have hframe1 : FrameOK st1.nodes ug p base re' := by
    cases hinv.n.frame with
    | top re => exact .top re'
    | bracket g re G pg hG hgl hpg hGr =>
      obtain ⟨G', hG', hGr', hgl', pg', hpg'⟩ := hfr' g rfl
      exact .bracket g re' G' pg' hG' hgl' hpg' hGr'
  have hin1 : (insertC cb (prioAt st.nodes) q false st.nodes.size s.col .nil E).inorder = E.inorder ++ [st.nodes.size] := by
    rw [insertC_inorder]; rfl
  refine ⟨⟨htree', ?_, ?_, by omega, hframe1, hprios1⟩, hnl1, hug1, ?_, ?_, Or.inr (Or.inr (Or.inl hp1))⟩
  · rw [hin1, hs1]
    exact hinv.n.inord.append_cons (l2 := []) ⟨List.Pairwise.nil, fun j hj => by cases hj⟩ (by omega) (by omega)
  · rw [hin1]; exact List.mem_append_left _ hinv.n.first
  · refine .plain (by rw [hl1, hs1]; rfl) ⟨_, by rw [hs1, Nat.add_sub_cancel]; exact hon, rfl, f4⟩ ?_ ?_
    · rw [hin1, hs1, Nat.add_sub_cancel]; simp
    · intro nd hnd
      rw [hs1, Nat.add_sub_cancel, hon] at hnd
      injection hnd with hnd; rw [← hnd]; rfl
  · have hcong : ∀ i ∈ E.inorder, dfOf st.nodes i = dfOf st1.nodes i := by
      intro i hi
      have := hdefs1 i (hinv.n.mem i hi).2
      simp only [dfOf, this]
    apply spineG_insertC (by omega) (by rw [hdn]; exact hnb)
      (show SpineG (dfOf st1.nodes) st1.nodes.size Tree.nil from trivial)
    · intro hm; have := (hinv.n.mem _ hm).2; omega
    · exact hinv.spine.congr hcong

end Garnish.Spec
