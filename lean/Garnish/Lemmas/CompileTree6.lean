/-
The tie between the two builder models (6): what the handlers of the operator nodes compute, visit by visit.
-/
import Garnish.Lemmas.CompileTree5
namespace Garnish.Abs.Tree
open Garnish Garnish.Gen Garnish.Spec Garnish.Abs Garnish.Model.Parser Garnish.Model.Literals Garnish.Model.Build

variable {F : Type} {pf : List Char → Option F}

section
variable {crj i : Nat} {pn : ParseNode} {data : BState F} {nodes : Nodes} {RS S : Array Nat} {b : BuildNode}

theorem prefix_first {op : Instruction} {r : Nat} (hop : prefixOp pn.definition = some op) (hr : pn.right = some r)
    (hb : nodes[i]? = some (some b)) (hs : b.state = .uninitialized) (hlt : r < nodes.size) :
    handleParseNode pf ⟨data, nodes, RS, S⟩ crj i pn =
      .ok ⟨data, putNode (putNode nodes i (visited b)) r (BuildNode.new r b.containingExpressionJump), RS,
        (S.push b.parseNodeIndex).push r⟩ := by
  have key : ∀ ins, handleUnaryPrefix ins ⟨data, nodes, RS, S⟩ i pn =
      .ok ⟨data, putNode (putNode nodes i (visited b)) r (BuildNode.new r b.containingExpressionJump), RS,
        (S.push b.parseNodeIndex).push r⟩ := by
    intro ins
    simp only [handleUnaryPrefix, getNode, hb, Outcome.bind, hs, hr]
    rw [setNodeIdx_ok (by simpa using hlt)]
    rfl
  unfold handleParseNode
  cases hdef : pn.definition <;> simp only [hdef, prefixOp] at hop <;> first | cases hop | skip
  all_goals exact key _

theorem prefix_second {op : Instruction} (hop : prefixOp pn.definition = some op)
    (hb : nodes[i]? = some (some b)) (hs : b.state = .initialized) :
    handleParseNode pf ⟨data, nodes, RS, S⟩ crj i pn = .ok ⟨pushInstr data op none (some b.parseNodeIndex), nodes, RS, S⟩ := by
  unfold handleParseNode
  cases hdef : pn.definition <;> simp only [hdef, prefixOp] at hop <;> first | cases hop | skip
  all_goals first
    | (subst hop; simp only [handleUnaryPrefix, getNode, hb, Outcome.bind, hs])
    | simp only [handleUnaryPrefix, getNode, hb, Outcome.bind, hs]

theorem suffix_first {op : Instruction} {l : Nat} (hop : suffixOp pn.definition = some op) (hl : pn.left = some l)
    (hb : nodes[i]? = some (some b)) (hs : b.state = .uninitialized) (hlt : l < nodes.size) :
    handleParseNode pf ⟨data, nodes, RS, S⟩ crj i pn =
      .ok ⟨data, putNode (putNode nodes i (visited b)) l (BuildNode.new l b.containingExpressionJump), RS,
        (S.push b.parseNodeIndex).push l⟩ := by
  have key : ∀ ins, handleUnarySuffix ins ⟨data, nodes, RS, S⟩ i pn =
      .ok ⟨data, putNode (putNode nodes i (visited b)) l (BuildNode.new l b.containingExpressionJump), RS,
        (S.push b.parseNodeIndex).push l⟩ := by
    intro ins
    simp only [handleUnarySuffix, getNode, hb, Outcome.bind, hs, hl]
    rw [setNodeIdx_ok (by simpa using hlt)]
    rfl
  unfold handleParseNode
  cases hdef : pn.definition <;> simp only [hdef, suffixOp] at hop <;> first | cases hop | skip
  all_goals exact key _

theorem suffix_second {op : Instruction} (hop : suffixOp pn.definition = some op)
    (hb : nodes[i]? = some (some b)) (hs : b.state = .initialized) :
    handleParseNode pf ⟨data, nodes, RS, S⟩ crj i pn = .ok ⟨pushInstr data op none (some b.parseNodeIndex), nodes, RS, S⟩ := by
  unfold handleParseNode
  cases hdef : pn.definition <;> simp only [hdef, suffixOp] at hop <;> first | cases hop | skip
  all_goals first
    | (subst hop; simp only [handleUnarySuffix, getNode, hb, Outcome.bind, hs])
    | simp only [handleUnarySuffix, getNode, hb, Outcome.bind, hs]

/-- `handle_binary_operation_with_push`, first visit -/
theorem binaryWP_first {ins : Instruction} {lr : Bool} {l r : Nat} (hl : pn.left = some l) (hr : pn.right = some r)
    (hb : nodes[i]? = some (some b)) (hs : b.state = .uninitialized) (hllt : l < nodes.size) (hrlt : r < nodes.size) :
    handleBinaryOperationWithPush ins lr ⟨data, nodes, RS, S⟩ i pn =
      .ok ⟨data, putNode (putNode (putNode nodes i (visited b)) r (BuildNode.new r b.containingExpressionJump)) l
          (BuildNode.new l b.containingExpressionJump), RS,
        ((S.push b.parseNodeIndex).push (if lr then l else r)).push (if lr then r else l)⟩ := by
  simp only [handleBinaryOperationWithPush, getNode, hb, Outcome.bind, hs, hl, hr]
  rw [setNodeIdx_ok (by simpa using hrlt)]
  simp only []
  rw [setNodeIdx_ok (by simpa using hllt)]
  cases lr <;> rfl

theorem binaryWP_second {ins : Instruction} {lr : Bool} (hb : nodes[i]? = some (some b)) (hs : b.state = .initialized) :
    handleBinaryOperationWithPush ins lr ⟨data, nodes, RS, S⟩ i pn =
      .ok ⟨pushInstr data ins none (some b.parseNodeIndex), nodes, RS, S⟩ := by
  simp only [handleBinaryOperationWithPush, getNode, hb, Outcome.bind, hs]

theorem binOp_handler {op : Instruction} (hop : binOp pn.definition = some op) (ctx : Ctx F) :
    handleParseNode pf ctx crj i pn = handleBinaryOperationWithPush op false ctx i pn := by
  unfold handleParseNode
  cases hdef : pn.definition <;> simp only [hdef, binOp] at hop <;> first | cases hop | skip
  all_goals first | (subst hop; rfl) | rfl

end

end Garnish.Abs.Tree
