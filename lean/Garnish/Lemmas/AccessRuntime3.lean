import Garnish.Lemmas.AccessRuntime2
namespace Garnish.Access.Runtime
open Garnish Garnish.Access
open Garnish.Gen (Ty)

theorem simpleIface_ok {d : Simple.SData} (wf : Simple.WF d) : (simpleIface d).OK where
  typeOf a := safe_bind (Simple.get_safe d a) (fun _ _ => safe_ok _)
  getPair a := safe_bind (Simple.get_safe d a) (fun c _ => by split <;> first | exact safe_ok _ | exact safe_err _)
  getRange a := safe_bind (Simple.get_safe d a) (fun c _ => by split <;> first | exact safe_ok _ | exact safe_err _)
  getSlice a := safe_bind (Simple.get_safe d a) (fun c _ => by split <;> first | exact safe_ok _ | exact safe_err _)
  getConcat a := safe_bind (Simple.get_safe d a) (fun c _ => by split <;> first | exact safe_ok _ | exact safe_err _)
  getNumber a := safe_bind (Simple.get_safe d a) (fun c _ => by split <;> first | exact safe_ok _ | exact safe_err _)
  numberInRange a v hv := by
    simp only [simpleIface, Simple.get] at hv
    split at hv
    · rename_i c hc
      simp only [bind_ok] at hv
      split at hv
      · cases hv; exact wf.int hc
      · cases hv
      · cases hv
    · cases hv
  getSymbol a := safe_bind (Simple.get_safe d a) (fun c _ => by split <;> first | exact safe_ok _ | exact safe_err _)
  listLen a := safe_bind (Simple.get_safe d a) (fun c _ => by cases c <;> simp [Simple.asList, safe_ok, safe_err])
  listItem a ix := Simple.getListItem_safe d a ix
  charLen a := safe_bind (Simple.get_safe d a) (fun c _ => by cases c <;> simp [Simple.asChars, safe_ok, safe_err])
  charItem a ix := Simple.getCharListItem_safe d a ix
  byteLen a := safe_bind (Simple.get_safe d a) (fun c _ => by cases c <;> simp [Simple.asBytes, safe_ok, safe_err])
  byteItem a ix := Simple.getByteListItem_safe d a ix
  symLen a := safe_bind (Simple.get_safe d a) (fun c _ => by cases c <;> simp [Simple.asSyms, safe_ok, safe_err])
  symItem a ix := safe_bind (Simple.getSymbolListItem_safe d a ix) (fun _ _ => safe_ok _)

/-- the length `get_list_len` reports for a Basic list is the one its header announces, and is below the cursor -/
theorem basic_listLen {h : Heap} (wf : h.WF) {intOf : Nat → Option Int} {r len : Nat}
    (hl : (basicIface h intOf).listLen r = .ok len) : r < h.cursor ∧ ∃ k, h.cell r = some (.list len k) ∧ r + len + k < h.cursor := by
  simp only [basicIface, getListLen] at hl
  rcases getData_cases wf r with ⟨_, h1⟩ | ⟨hi, c, hc, h1⟩
  · rw [h1] at hl; cases hl
  · rw [h1] at hl; simp only [bind_ok] at hl
    rcases asList_cases c with ⟨n, k, rfl, ha⟩ | he
    · rw [ha] at hl; simp only [bind_ok, Outcome.ok.injEq] at hl; subst hl
      have := wf.cellOK hi hc
      simp only [cellOK, Bool.and_eq_true, decide_eq_true_eq] at this
      exact ⟨hi, k, hc, this.1⟩
    · rw [he] at hl; cases hl

/-- a data block of fewer than `2^31` cells: `size_to_number` is exact on every index -/
theorem basic_listsTotal {h : Heap} (wf : h.WF) (intOf : Nat → Option Int) (hsmall : h.cursor ≤ 2147483647) :
    (basicIface h intOf).ListsTotal := by
  intro r len i hl hi
  obtain ⟨hr, k, hc, hb⟩ := basic_listLen wf hl
  obtain ⟨items, _, hlen, hget⟩ := (getListItem_spec wf r (.int (sizeToNumber i))).2 len k hr hc
  show getListItem h r (.int (sizeToNumber i)) ≠ .ok none
  rw [hget, sizeToNumber_small (by omega)]
  have h1 : (Num.int (i : Int)).ltZero = false := by simp [Num.ltZero]
  have h2 : usizeFrom (Num.int (i : Int)) = i := by simp [usizeFrom]
  have h3 : ¬ i ≥ len := by omega
  simp only [h1, h2, h3, if_false, Bool.false_eq_true]
  rw [List.getElem?_eq_getElem (by omega)]
  intro hh; cases hh

theorem basic_listLen_le {h : Heap} (wf : h.WF) (intOf : Nat → Option Int) :
    ∀ r len, (basicIface h intOf).listLen r = .ok len → len ≤ h.cursor := by
  intro r len hl
  obtain ⟨_, k, _, hb⟩ := basic_listLen wf hl
  omega

theorem simple_listLen {d : Simple.SData} {r len : Nat} (hl : (simpleIface d).listLen r = .ok len) :
    ∃ items, d[r]? = some (.list items) ∧ items.length = len := by
  simp only [simpleIface, Simple.getListLen, Simple.get] at hl
  split at hl
  · rename_i c hc
    simp only [bind_ok] at hl
    cases c <;> simp [Simple.asList] at hl
    exact ⟨_, hc, hl⟩
  · cases hl

theorem simple_listsTotal {d : Simple.SData} (hs : Simple.ShortLists d) : (simpleIface d).ListsTotal := by
  intro r len i hl hi
  obtain ⟨items, hc, hlen⟩ := simple_listLen hl
  have hm : Simple.SCell.list items ∈ d.toList := by
    rw [← Array.getElem?_toList] at hc; exact List.mem_of_getElem? hc
  have hshort := hs _ hm
  simp only [Simple.shortCell, decide_eq_true_eq] at hshort
  show Simple.getListItem d r (.int (sizeToNumber i)) ≠ .ok none
  simp only [Simple.getListItem, Simple.get, hc, bind_ok, Simple.asList]
  rw [sizeToNumber_small (by omega)]
  have : Simple.asUsize (i : Int) = i := by unfold Simple.asUsize; omega
  rw [this, List.getElem?_eq_getElem (by omega)]
  intro hh; cases hh

/-! ### functional facts: the runtime's guards keep the data object's own range checks from firing -/

/-- `index_list` on a Basic list: `Ok` for every `i32` index — no item outside `0 .. len-1`, the item's address inside;
the data object's `Err(InvalidListItemIndex)` is never reached -/
theorem indexList_basic {h : Heap} (wf : h.WF) (intOf : Nat → Option Int) {list n k : Nat} (hl : list < h.cursor)
    (hc : h.cell list = some (.list n k)) (ix : Int) :
    ∃ items, collectItems (h.cellsAt (list + 1) n) = .ok items ∧
      indexList (basicIface h intOf) list ix =
        .ok (if ix < 0 ∨ ix ≥ sizeToNumber n then .none else match items[ix.toNat]? with | some a => .addr a | none => .unit) := by
  obtain ⟨items, hit, hlen, hget⟩ := (getListItem_spec wf list (.int ix)).2 n k hl hc
  refine ⟨items, hit, ?_⟩
  unfold indexList
  by_cases hneg : ix < 0
  · simp [hneg]
  · simp only [hneg, if_false, false_or]
    have hll : (basicIface h intOf).listLen list = .ok n := by
      simp only [basicIface, getListLen, getData_lt wf hl hc, bind_ok, asList]
    rw [hll]; simp only [bind_ok]
    by_cases hge : ix ≥ sizeToNumber n
    · simp [hge]
    · simp only [hge, if_false]
      show (getListItem h list (.int ix)).bind _ = _
      rw [hget]
      have hle := sizeToNumber_le n
      have h1 : (Num.int ix).ltZero = false := by simp [Num.ltZero]; omega
      have h2 : usizeFrom (Num.int ix) = ix.toNat := by simp [usizeFrom]; omega
      have h3 : ¬ ix.toNat ≥ n := by omega
      simp only [h1, h2, h3, if_false, Bool.false_eq_true, bind_ok]
      rw [List.getElem?_eq_getElem (by omega)]

end Garnish.Access.Runtime
