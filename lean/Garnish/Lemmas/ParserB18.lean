/-
Implicit space lists, part 4: an expression that ends with an operand, trivia with at least one whitespace token, and
another operand: `expr_list` (the List node is inserted like a binary operator of priority 220 whose token is the last
trivia token).
-/
import Garnish.Lemmas.ParserB17

namespace Garnish.Spec
open Garnish Garnish.Gen Garnish.Model.Parser

theorem numbered_getLast (k : Nat) (l : List PToken) (hne : l ≠ []) (h : NumberedFrom k l) :
    (l.getLast hne).col = k + l.length - 1 := by
  have e : l = l.dropLast ++ [l.getLast hne] := (List.dropLast_concat_getLast hne).symm
  have h' : NumberedFrom k (l.dropLast ++ [l.getLast hne]) := by rw [← e]; exact h
  have := (numbered_append l.dropLast [l.getLast hne] k h').1
  rw [this, List.length_dropLast]
  have := List.length_pos_iff.mpr hne
  omega

/-- the whitespace of a frame never ends in a token other than trivia / separators -/
theorem gfill_secdef {inG : Bool} {w : PToken} (hw : isGFill inG w = true) :
    (getDefinition w.type).2 = .whitespace ∨ (getDefinition w.type).2 = .annotation ∨
      (getDefinition w.type).2 = .subexpression := by
  unfold isGFill at hw
  by_cases htr : isTriviaTok w = true
  · rcases trivia_secdef htr with h | h
    · exact Or.inl h
    · exact Or.inr (Or.inl h)
  · have hsp : inG = true ∧ isSepTok w = true := by simpa [htr] using hw
    have := hsp.2; unfold isSepTok at this
    exact Or.inr (Or.inr (by simpa using this))

/-- an expression, whitespace (inside a group: or separators), and one more operand: an implicit list -/
theorem expr_list {c1 c2 : Nat} {inG : Bool} {e x ws : List PToken} (he : ExprOK c1 inG e false) (hx : ListOpdOK c2 x)
    (hws : ∀ w ∈ ws, isGFill inG w = true) (hwsp : ∃ w ∈ ws, setsList w = true) :
    ExprOK (c1 + c2) inG (e ++ (ws ++ x)) false := by
  intro st0 ug p base hO hfs hprios hcg hk hsp pos hnum rest
  have hwne : ws ≠ [] := by obtain ⟨w, hw, _⟩ := hwsp; exact List.ne_nil_of_mem hw
  obtain ⟨hbase, _⟩ := hfs.base_eq
  -- positions
  have hnume := numbered_prefix e _ pos hnum
  have hnum1 := numbered_append e _ pos hnum
  have hnumw := numbered_prefix ws _ _ hnum1
  have hnumx := numbered_append ws x _ hnum1
  -- the expression so far
  obtain ⟨stE, E, re, cb, hloopE, hinvE, hgsE, hcgE, ho1E, ho2E, hrdE, hcntE, hrefE⟩ :=
    he st0 ug p base hO hfs hprios hcg hk hsp pos hnume ((ws ++ x) ++ rest)
  have hkE : KindOK stE ug inG := by
    apply hk.transfer (base := base) _ ho2E
    intro g hg
    cases hfs with
    | top _ _ => cases hg
    | bracket g' G pg h1 _ _ _ _ _ => injection hg with hg; omega
  -- whitespace: the list flag gets set
  obtain ⟨stE', hloopW, hinvE', hnE', hgsE', hcgE', hllE', hnnlE', hlt', hprev', hcflE'⟩ :=
    fill_runU inG ws stE (x ++ rest) hinvE.toF hkE hws
  have hcfl' : stE'.checkForList = true := hcflE' (hrdE rfl) (Or.inr hwsp)
  have hlast : ws.getLast? = some (ws.getLast hwne) := List.getLast?_eq_some_getLast hwne
  rw [hlast] at hlt' hprev'
  simp only [Option.getD_some, Option.map_some] at hlt' hprev'
  have hprevT : stE'.previousSecondDef = .whitespace ∨ stE'.previousSecondDef = .annotation ∨
      stE'.previousSecondDef = .subexpression := by
    rw [hprev']; exact gfill_secdef (hws _ (List.getLast_mem hwne))
  have hltcol : stE'.lastToken.col = pos + e.length + ws.length - 1 := by
    rw [hlt']; exact numbered_getLast _ ws hwne hnumw
  have hwpos := List.length_pos_iff.mpr hwne
  -- the List operator
  obtain ⟨nodes', info, hpt, hir, hsz', hOL, hpriosL, haboveL, hsL, hK⟩ := list_openU hinvE'.inv
  have hcgL : CGOK (listState stE' nodes' info) := by
    unfold CGOK at hcg ⊢
    show stE'.currentGroup = if stE'.groupStack.isEmpty then none else some (stE'.groupStack.size - 1)
    rw [hcgE', hgsE', hcgE, hgsE]; exact hcg
  -- the operand
  obtain ⟨st2, sub, cb', P, hloopX, hres, hP, hcntX, hrefX⟩ :=
    hx stE' ug nodes' info hinvE'.hug hinvE'.adjust' (hnnlE'.trans hinvE.nnl) hcfl' hprevT hpt hir hOL hpriosL hcgL haboveL _
      hnumx rest
  obtain ⟨re', hinv2, hdefs2, ho12, ho22, hdn⟩ := hK st2 sub cb' hres
  have hnE'' : (normP stE').nodes = stE.nodes := hnE'
  rw [hnE''] at hinv2 hdefs2 ho12 ho22 hdn
  have hLs : (listState stE' nodes' info).nodes.size = stE.nodes.size + 1 := by
    have : (listState stE' nodes' info).nodes.size = nodes'.size + 1 := by simp [listState]
    rw [this, hsz', hnE'']
  have hcnt : (insertC cb (prioAt stE.nodes) 220 false stE.nodes.size (normP stE').lastToken.col sub E).inorder.length + base +
      (c1 + c2) = st2.nodes.size := by
    rw [insertC_inorder]
    simp only [List.length_append, List.length_cons]
    omega
  refine ⟨st2, _, re', cb', ?_, hinv2, ?_, ?_, fun j hj => by rw [ho22 j hj, ho1E j hj],
    fun j hj => by rw [ho12 j hj, ho2E j hj], fun _ => hres.ready, hcnt, ?_⟩
  · have e1 : e ++ (ws ++ x) ++ rest = e ++ ((ws ++ x) ++ rest) := by simp
    have e2 : (ws ++ x) ++ rest = ws ++ (x ++ rest) := by simp
    rw [e1, hloopE, e2, hloopW, hloopX]
  · rw [hres.gs]; show stE'.groupStack = _; rw [hgsE', hgsE]
  · rw [hres.cg]; show stE'.currentGroup = _; rw [hcgE', hcgE]
  · intro f stack restR hc hl hig
    have e1 : e ++ (ws ++ x) ++ restR = e ++ (ws ++ (x ++ restR)) := by simp
    rw [e1, hrefE f stack _ hc hl hig]
    let fE : Frame :=
      { f with cur := toRG (dfOf stE.nodes) E, last := (if false then Last.suffix else Last.operand), ws := false,
               prevSep := false }
    have hig' : fE.inGroup = inG := hig
    rw [ref_fill_ws inG ws fE stack (pos + e.length) (x ++ restR) hig' hws (Or.inr hwsp)]
    rw [hrefX _ stack restR rfl rfl]
    have hcong : ∀ i ∈ E.inorder, dfOf stE.nodes i = dfOf st2.nodes i := by
      intro i hi
      have := hdefs2 i (hinvE.n.mem i hi).2
      simp only [dfOf, this]
    have hlt'' : (normP stE').lastToken.col = pos + e.length + ws.length - 1 := hltcol
    have hcur : P (attach Table.gen 220 false .list (pos + e.length + ws.length - 1) (toRG (dfOf stE.nodes) E)) =
        toRG (dfOf st2.nodes) (insertC cb (prioAt stE.nodes) 220 false stE.nodes.size (normP stE').lastToken.col sub E) := by
      rw [toRG_congr _ _ E hcong, hlt'']
      have := insertC_toRG (dfOf st2.nodes) (prioAt stE.nodes) 220 false stE.nodes.size
        (pos + e.length + ws.length - 1) sub cb P (by rw [hdn]; exact hP) (by rw [hdn]; rfl) E
        (by intro i hi
            rw [← hcong i hi]
            exact prio_dfOf hinvE.n.prios (hinvE.n.mem i hi).2)
        (hinvE.spine.congr hcong)
      rw [hdn] at this
      exact this
    simp only
    rw [hcur]
    have hlen : pos + e.length + ws.length + x.length = pos + (e ++ (ws ++ x)).length := by
      simp only [List.length_append]; omega
    rw [hlen]
    rfl

end Garnish.Spec
