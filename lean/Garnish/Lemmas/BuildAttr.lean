/-
C04, builder half — part 1: the attribution invariant.

Every handler visit of a node either re-schedules the node (pushes it back on `stack`) or emits an instruction whose
metadata names it.  Invariant at the loop heads (`AInv`): a node that has a build node is on `stack`, on `root_stack`,
or has an instruction attributed to it (`Emitted`), unless its definition never emits (`emits d = false`: Group,
ElseJump, and List / CommaList, which emit only when they are not forwarded to an enclosing list of the same kind).
No validation fact is used: the invariant holds for every node vector.
-/
import Garnish.Lemmas.BuildTotalBase
namespace Garnish.Lemmas.BuildAttr
open Garnish Garnish.Gen Garnish.Model.Parser Garnish.Model.Literals Garnish.Model.Build Garnish.Lemmas.Build
open Garnish.Lemmas.BuildTotal (assign assign_get assign_size getElem?_putNode size_putNode)

/-- definitions whose handler attributes at least one instruction to the node whenever it handles it to the end -/
def emits (d : Definition) : Bool := !(d == .group || d == .elseJump || d == .list || d == .commaList)

/-- an instruction appended by this build (metadata index `≥ m0`) names node `x` — required only if `x` emits -/
def Emitted (tree : Array ParseNode) (m0 : Nat) (M : Array (Option Nat)) (x : Nat) : Prop :=
  ∀ pn, tree[x]? = some pn → emits pn.definition = true → ∃ k, m0 ≤ k ∧ M[k]? = some (some x)

theorem emitted_mono {tree : Array ParseNode} {m0 : Nat} {M M' : Array (Option Nat)} {x : Nat} {l : List (Option Nat)}
    (hM : M'.toList = M.toList ++ l) (h : Emitted tree m0 M x) : Emitted tree m0 M' x := by
  intro pn hpn he
  obtain ⟨k, hk, hm⟩ := h pn hpn he
  refine ⟨k, hk, ?_⟩
  have h1 : M.toList[k]? = some (some x) := by simpa using hm
  have h2 : M'.toList[k]? = some (some x) := by
    rw [hM]
    have hlt : k < M.toList.length := by
      rcases Nat.lt_or_ge k M.toList.length with h | h
      · exact h
      · rw [List.getElem?_eq_none h] at h1; cases h1
    rw [List.getElem?_append_left hlt]; exact h1
  simpa using h2

theorem emitted_of_mem {tree : Array ParseNode} {m0 : Nat} {M M' : Array (Option Nat)} {x : Nat} {l : List (Option Nat)}
    (hm0 : m0 ≤ M.size) (hM : M'.toList = M.toList ++ l) (h : some x ∈ l) : Emitted tree m0 M' x := by
  intro pn _ _
  obtain ⟨i, hi⟩ := List.mem_iff_getElem?.1 h
  refine ⟨M.size + i, by omega, ?_⟩
  have : M'.toList[M.size + i]? = some (some x) := by
    rw [hM, show M.size = M.toList.length by simp, List.getElem?_append_right (by omega)]
    simpa using hi
  simpa using this

variable {F : Type}

/-- the invariant; `skip = some ni` while the node `ni` that was just popped is being handled -/
structure AInv (tree : Array ParseNode) (m0 : Nat) (skip : Option Nat) (ctx : Ctx F) : Prop where
  size : ctx.nodes.size = tree.size
  msize : m0 ≤ ctx.data.metadata.size
  pni : ∀ (x : Nat) (bn : BuildNode), ctx.nodes[x]? = some (some bn) → bn.parseNodeIndex = x
  cpOk : ∀ (x : Nat) (bn : BuildNode) (cp : Nat), ctx.nodes[x]? = some (some bn) → bn.conditionalParent = some cp →
    ∃ b, ctx.nodes[cp]? = some (some b)
  done : ∀ (x : Nat) (bn : BuildNode), ctx.nodes[x]? = some (some bn) → some x ≠ skip →
    x ∈ ctx.stack.toList ∨ x ∈ ctx.rootStack.toList ∨ Emitted tree m0 ctx.data.metadata x

theorem assign_some : ∀ (asg : List (Nat × BuildNode)) (nodes : Nodes) (x : Nat) (b0 : BuildNode),
    nodes[x]? = some (some b0) → ∃ b, (assign nodes asg)[x]? = some (some b) := by
  intro asg
  induction asg with
  | nil => intro nodes x b0 h; exact ⟨b0, h⟩
  | cons p rest ih =>
    intro nodes x b0 h
    obtain ⟨i, b⟩ := p
    simp only [assign, List.foldl_cons] at ih ⊢
    have hx : x < nodes.size := by
      rcases Nat.lt_or_ge x nodes.size with h1 | h1
      · exact h1
      · rw [Array.getElem?_eq_none h1] at h; cases h
    rcases Classical.em (i = x) with hix | hix
    · subst hix
      exact ih (putNode nodes i b) i b (by rw [getElem?_putNode, if_pos rfl, if_pos hx])
    · exact ih (putNode nodes i b) x b0 (by rw [getElem?_putNode, if_neg hix]; exact h)

/-- one handler call: the nodes `asg` are assigned, the work lists only grow, the metadata grows by `l` -/
theorem attr_step {tree : Array ParseNode} {m0 ni : Nat} {ctx ctx' : Ctx F} (h : AInv tree m0 (some ni) ctx)
    (asg : List (Nat × BuildNode)) (l : List (Option Nat))
    (hN : ctx'.nodes = assign ctx.nodes asg)
    (hS : ∀ x, x ∈ ctx.stack.toList → x ∈ ctx'.stack.toList)
    (hR : ∀ x, x ∈ ctx.rootStack.toList → x ∈ ctx'.rootStack.toList)
    (hM : ctx'.data.metadata.toList = ctx.data.metadata.toList ++ l)
    (hasgp : ∀ q, q ∈ asg → q.2.parseNodeIndex = q.1)
    (hasgc : ∀ q, q ∈ asg → ∀ cp, q.2.conditionalParent = some cp → ∃ b0, ctx.nodes[cp]? = some (some b0))
    (hasgd : ∀ q, q ∈ asg → q.1 = ni ∨ q.1 ∈ ctx'.stack.toList ∨ q.1 ∈ ctx'.rootStack.toList ∨
      ∃ b0, ctx.nodes[q.1]? = some (some b0))
    (hni : ∀ pn, tree[ni]? = some pn → ni ∈ ctx'.stack.toList ∨ ni ∈ ctx'.rootStack.toList ∨ some ni ∈ l ∨
      emits pn.definition = false) :
    AInv tree m0 none ctx' := by
  have hnidone : ni ∈ ctx'.stack.toList ∨ ni ∈ ctx'.rootStack.toList ∨ Emitted tree m0 ctx'.data.metadata ni := by
    rcases Classical.em (ni ∈ ctx'.stack.toList) with h1 | h1
    · exact Or.inl h1
    · rcases Classical.em (ni ∈ ctx'.rootStack.toList) with h2 | h2
      · exact Or.inr (Or.inl h2)
      · refine Or.inr (Or.inr ?_)
        intro pn hpn he
        rcases hni pn hpn with h3 | h3 | h3 | h3
        · exact absurd h3 h1
        · exact absurd h3 h2
        · exact emitted_of_mem h.msize hM h3 pn hpn he
        · rw [h3] at he; cases he
  refine ⟨by rw [hN, assign_size]; exact h.size, ?_, ?_, ?_, ?_⟩
  · have := congrArg List.length hM
    simp only [Array.length_toList, List.length_append] at this
    have := h.msize
    omega
  · intro x bn hx
    rw [hN] at hx
    rcases assign_get asg ctx.nodes x _ hx with ⟨b, hb, hv⟩ | ⟨hold, _⟩
    · cases hv; exact hasgp _ hb
    · exact h.pni x bn hold
  · intro x bn cp hx hcp
    rw [hN] at hx
    have hold : ∃ b0, ctx.nodes[cp]? = some (some b0) := by
      rcases assign_get asg ctx.nodes x _ hx with ⟨b, hb, hv⟩ | ⟨hold, _⟩
      · cases hv; exact hasgc _ hb cp hcp
      · exact h.cpOk x bn cp hold hcp
    obtain ⟨b0, hb0⟩ := hold
    rw [hN]; exact assign_some asg ctx.nodes cp b0 hb0
  · intro x bn hx _
    rw [hN] at hx
    rcases Classical.em (x = ni) with hxn | hxn
    · subst hxn; exact hnidone
    · rcases assign_get asg ctx.nodes x _ hx with ⟨b, hb, hv⟩ | ⟨hold, _⟩
      · rcases hasgd _ hb with h1 | h1 | h1 | ⟨b0, h1⟩
        · exact absurd h1 hxn
        · exact Or.inl h1
        · exact Or.inr (Or.inl h1)
        · rcases h.done x b0 h1 (by intro he; cases he; exact hxn rfl) with h2 | h2 | h2
          · exact Or.inl (hS x h2)
          · exact Or.inr (Or.inl (hR x h2))
          · exact Or.inr (Or.inr (emitted_mono hM h2))
      · rcases h.done x bn hold (by intro he; cases he; exact hxn rfl) with h1 | h1 | h1
        · exact Or.inl (hS x h1)
        · exact Or.inr (Or.inl (hR x h1))
        · exact Or.inr (Or.inr (emitted_mono hM h1))

end Garnish.Lemmas.BuildAttr
