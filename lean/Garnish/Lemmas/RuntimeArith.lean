/-
Refinement lemmas for arithmetic.rs / bitwise.rs: the defer idiom obeys the defer protocol; `perform_op` and
`perform_unary_op` against their value-level descriptions for an arbitrary number operation.
-/
import Garnish.Lemmas.RuntimeBase
import Garnish.Model.Runtime.Refines
import Garnish.Model.Runtime.Arithmetic
set_option linter.unusedSimpArgs false
set_option linter.unusedVariables false
namespace Garnish.Lemmas.Runtime
open Garnish Gen Garnish.Abs Garnish.Model.Equality Garnish.Model.Runtime

variable {F σ : Type} {S : RStore F σ}

/-- the idiom `if !defer_op(..)? { push_unit()? }` followed by `Ok(next)` obeys the defer protocol -/
theorem deferOrUnit_spec {α} (L : StoreLaws S) (s0 : σ) (op : Instruction) (lt rt : Ty × Nat) (next : α) :
    DeferProtocol S s0 ((deferOrUnit S op lt rt >>= fun _ => pure next) s0) next op lt rt := by
  unfold DeferProtocol
  cases h : S.deferOp op lt rt s0 with
  | ok p =>
    obtain ⟨b, s1⟩ := p
    cases b with
    | true =>
      simp only []
      rw [deferOrUnit, bind_apply, bind_ok h]; rfl
    | false =>
      simp only []
      obtain ⟨a, s2, h2, d2, e2⟩ := pushUnit_spec L s1
      refine ⟨a, s2, ?_, d2, e2⟩
      rw [deferOrUnit, bind_apply, bind_ok h]
      simp only [Bool.not_false, if_true]
      rw [h2]; rfl
  | err e => simp only []; rw [deferOrUnit, bind_apply, bind_err h]
  | panic p => simp only []; rw [deferOrUnit, bind_apply, bind_apply, h]
  | fuelOut => simp only []; rw [deferOrUnit, bind_apply, bind_apply, h]


theorem typeOf_number {v : Val F} (h : v.typeOf = .number) : ∃ n, v = .num n := by
  cases v <;> simp [Val.typeOf] at h
  exact ⟨_, rfl⟩

/-- value-level description of `perform_op` for an arbitrary number operation `op` -/
def binNumOut (opName : Instruction) (op : Number F → Number F → Option (Number F)) (vl vr : Val F) : OpOut F :=
  match vl, vr with
  | .num a, .num b => .val (numResult (op a b))
  | vl, vr => .defer opName vl vr

theorem performOp_spec (L : StoreLaws S) (opName : Instruction) (op : Number F → Number F → Option (Number F))
    {s : σ} {r l : Nat} {vr vl : Val F} {rest : List Nat}
    (hregs : S.regs s = r :: l :: rest) (hl : Decodes (S.view s) l vl) (hr : Decodes (S.view s) r vr) :
    RefinesOut S s (performOp S opName op s) none rest l r
      (binNumOut opName op vl vr) := by
  obtain ⟨s0, h0, e0⟩ := nextTwoRawRef_cons L hregs
  have hl0 := e0.dec hl
  have hr0 := e0.dec hr
  rw [performOp, bind_ok h0]
  simp only []
  rw [bind_ok (getDataType_of hl0), bind_ok (getDataType_of hr0)]
  by_cases hn : vl.typeOf = .number ∧ vr.typeOf = .number
  · obtain ⟨a, rfl⟩ := typeOf_number hn.1
    obtain ⟨b, rfl⟩ := typeOf_number hn.2
    simp only [Val.typeOf]
    rw [bind_ok (getNumber_of hl0), bind_ok (getNumber_of hr0)]
    simp only [binNumOut]
    cases hop : op a b with
    | some n =>
      obtain ⟨x, s2, h2, d2, e2⟩ := pushNumber_spec L n s0
      rw [e0.regs, e0.vals] at e2
      exact ⟨x, s2, by simp only []; rw [bind_ok h2]; rfl, d2, e0.trans e2⟩
    | none =>
      obtain ⟨x, s2, h2, d2, e2⟩ := pushUnit_spec L s0
      rw [e0.regs, e0.vals] at e2
      exact ⟨x, s2, by simp only []; rw [bind_ok h2]; rfl, d2, e0.trans e2⟩
  · have hd : binNumOut opName op vl vr = .defer opName vl vr := by
      unfold binNumOut
      split
      · exact absurd ⟨rfl, rfl⟩ hn
      · rfl
    rw [hd]
    refine ⟨s0, e0, ?_⟩
    generalize vl.typeOf = tl at hn ⊢
    generalize vr.typeOf = tr at hn ⊢
    cases tl
    case number =>
      cases tr
      case number => exact absurd ⟨rfl, rfl⟩ hn
      all_goals exact deferOrUnit_spec L s0 opName _ _ none
    all_goals exact deferOrUnit_spec L s0 opName _ _ none


/-- value-level description of `perform_unary_op` for an arbitrary number operation `op` -/
def unNumOut (opName : Instruction) (op : Number F → Option (Number F)) (v : Val F) : OpOut F :=
  match v with
  | .num a => .val (numResult (op a))
  | v => .defer opName v .unit

theorem performUnaryOp_spec (L : StoreLaws S) (opName : Instruction) (op : Number F → Option (Number F))
    {s : σ} {a : Nat} {v : Val F} {rest : List Nat}
    (hregs : S.regs s = a :: rest) (h : Decodes (S.view s) a v) :
    RefinesOut S s (performUnaryOp S opName op s) none rest a 0 (unNumOut opName op v) := by
  obtain ⟨s0, h0, e0⟩ := nextRef_cons L hregs
  have h' := e0.dec h
  rw [performUnaryOp, bind_ok h0, bind_ok (getDataType_of h')]
  by_cases hn : v.typeOf = .number
  · obtain ⟨n, rfl⟩ := typeOf_number hn
    simp only [Val.typeOf]
    rw [bind_ok (getNumber_of h')]
    simp only [unNumOut]
    cases hop : op n with
    | some m =>
      obtain ⟨x, s2, h2, d2, e2⟩ := pushNumber_spec L m s0
      rw [e0.regs, e0.vals] at e2
      exact ⟨x, s2, by simp only []; rw [bind_ok h2]; rfl, d2, e0.trans e2⟩
    | none =>
      obtain ⟨x, s2, h2, d2, e2⟩ := pushUnit_spec L s0
      rw [e0.regs, e0.vals] at e2
      exact ⟨x, s2, by simp only []; rw [bind_ok h2]; rfl, d2, e0.trans e2⟩
  · have hd : unNumOut opName op v = .defer opName v .unit := by
      unfold unNumOut
      split
      · exact absurd rfl hn
      · rfl
    rw [hd]
    refine ⟨s0, e0, ?_⟩
    generalize v.typeOf = t at hn ⊢
    cases t
    case number => exact absurd rfl hn
    all_goals exact deferOrUnit_spec L s0 opName _ _ none

variable (fo : FloatOps F)

theorem arithBinary_eq (op : Instruction) (nop : NumOp) (vl vr : Val F) :
    arithBinary fo op nop vl vr = binNumOut op (Number.apply fo nop) vl vr := by
  cases vl <;> cases vr <;> rfl

theorem arithUnary_eq (op : Instruction) (nop : NumOp) (v : Val F) :
    arithUnary fo op nop v = unNumOut op (fun a => Number.apply fo nop a a) v := by
  cases v <;> rfl

end Garnish.Lemmas.Runtime
