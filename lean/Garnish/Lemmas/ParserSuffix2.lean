/-
Suffix operators, part 2: the step of a suffix-operator token (`step_suffix_ok`, `step_suffix_spec`), its effect on a
state that satisfies `SInv` (`suffix_effect`), and the effect of a binary operator on such a state (`op_effectS`).
-/
import Garnish.Lemmas.ParserSuffix

namespace Garnish.Spec
open Garnish Garnish.Gen Garnish.Model.Parser

def isSuffixTok (t : PToken) : Bool := (getDefinition t.type).2 == .unarySuffix

theorem suffix_def_facts (tt : TokenType) (h : (getDefinition tt).2 = SecDef.unarySuffix) :
    ∃ q, priority (getDefinition tt).1 = some q ∧ 10 < q ∧ ((getDefinition tt).1 != Definition.drop) = true ∧
      (getDefinition tt).1 ≠ Definition.identifier ∧ (getDefinition tt).1 ≠ Definition.list ∧
      (getDefinition tt).1.isValueLike = false ∧ (getDefinition tt).1.isGroupLike = false := by
  revert h
  cases tt <;> simp only [getDefinition] <;> decide

/-- a suffix-operator step succeeds as soon as its `parse_token` does -/
theorem step_suffix_ok (st : PState) (s : PToken) (il : Bool) (hs : isSuffixTok s = true) (hcg : st.currentGroup = none)
    (hadj : adjustLastLeft st none = .ok st)
    (hcomp : checkComposition st.previousSecondDef .unarySuffix st.checkForList = true)
    (hpt : ∃ nodes' info, parseToken st.nodes.size (getDefinition s.type).1 st.lastLeft none st.nodes none false =
        .ok (nodes', info)) :
    ∃ st1, step st s il = .ok st1 := by
  obtain ⟨nodes', info, hpt⟩ := hpt
  have hsd : (getDefinition s.type).2 = .unarySuffix := by unfold isSuffixTok at hs; simpa using hs
  unfold step
  have hu : underGroupOf st = .ok none := by simp [underGroupOf, hcg]
  simp only [hu, hadj, Outcome.bind]
  generalize getDefinition s.type = ds at hsd hpt ⊢
  obtain ⟨d, sd⟩ := ds
  simp only at hsd hpt ⊢
  subst hsd
  simp only [hcomp, Bool.not_true, Bool.false_eq_true, if_false, dispatch, parseTokenLeftToRight, parseTokenSt, hpt]
  exact ⟨_, rfl⟩

/-- the fields of the state after a successful step on a suffix-operator token -/
theorem step_suffix_spec (st st1 : PState) (s : PToken) (il : Bool) (hs : isSuffixTok s = true)
    (hnl : st.nextLastLeft = none) (hcg : st.currentGroup = none) (hadj : adjustLastLeft st none = .ok st)
    (h : step st s il = .ok st1) :
    ∃ nodes' info,
      parseToken st.nodes.size (getDefinition s.type).1 st.lastLeft none st.nodes none false = .ok (nodes', info) ∧
      st1.nodes = nodes'.push ⟨(getDefinition s.type).1, .unarySuffix, info.parent, info.left, info.right, s⟩ ∧
      st1.lastLeft = some st.nodes.size ∧ st1.checkForList = false ∧ st1.nextLastLeft = none ∧
      st1.groupStack = st.groupStack ∧ st1.currentGroup = none ∧ st1.previousSecondDef = .unarySuffix := by
  have hsd : (getDefinition s.type).2 = .unarySuffix := by unfold isSuffixTok at hs; simpa using hs
  obtain ⟨_, _, _, f1, f2, _, _, _⟩ := suffix_def_facts s.type hsd
  unfold step at h
  have hu : underGroupOf st = .ok none := by simp [underGroupOf, hcg]
  simp only [hu, hadj, Outcome.bind] at h
  generalize getDefinition s.type = ds at h hsd f1 f2 ⊢
  obtain ⟨d, sd⟩ := ds
  simp only at h hsd f1 f2 ⊢
  subst hsd
  split at h
  · cases h
  · simp only [dispatch, parseTokenLeftToRight, parseTokenSt] at h
    obtain ⟨⟨stp, info⟩, hd, h⟩ := bind_ok h
    obtain ⟨⟨nodes', info'⟩, hpt, hd⟩ := bind_ok hd
    injection hd with hd; injection hd with e1 e2; subst e1; subst e2
    obtain ⟨hsz, hdef⟩ := parseToken_size_def hpt
    simp only [pushNode, hdef, f1, if_true, hnl] at h
    injection h with h; subst h
    refine ⟨nodes', info', by simpa using hpt, ?_, ?_, rfl, rfl, rfl, hcg, rfl⟩
    · have hmatch : (match d with
          | Definition.identifier =>
            match info'.parent.bind fun p => nodes'[p]? with
            | none => d
            | some p => if (p.definition == Definition.access) = true then Definition.property else d
          | d => d) = d := by
        cases d <;> first | rfl | exact absurd rfl f2
      simp [hmatch]
    · dsimp only
      rw [if_neg]
      simp [Array.size_push]

theorem composition_S_binop (sp so : SecDef) (hp : sp = .value ∨ sp = .identifier ∨ sp = .unarySuffix)
    (ho : so = .binaryLeftToRight ∨ so = .binaryRightToLeft) : checkComposition sp so false = true := by
  rcases hp with rfl | rfl | rfl <;> rcases ho with rfl | rfl <;> rfl

theorem composition_S_suffix (sp : SecDef) (hp : sp = .value ∨ sp = .identifier ∨ sp = .unarySuffix) :
    checkComposition sp .unarySuffix false = true := by
  rcases hp with rfl | rfl | rfl <;> rfl

/-- **a suffix-operator token** on a state that represents `T`: the new state represents `insertS .. nil T` -/
theorem suffix_effect {st : PState} {T : Tree} {rt : Nat} (hinv : SInv st T rt) (s : PToken) (il : Bool)
    (hs : isSuffixTok s = true) :
    ∃ (q : Nat) (st1 : PState) (rt' : Nat), priority (getDefinition s.type).1 = some q ∧ step st s il = .ok st1 ∧
      SInv st1 (insertS (prioAt st.nodes) q false st.nodes.size s.col .nil T) rt' ∧
      st1.nodes.size = st.nodes.size + 1 ∧
      (∀ j, j < st.nodes.size → (st1.nodes[j]?).map (·.definition) = (st.nodes[j]?).map (·.definition)) ∧
      dfOf st1.nodes st.nodes.size = (getDefinition s.type).1 := by
  have hsd : (getDefinition s.type).2 = .unarySuffix := by unfold isSuffixTok at hs; simpa using hs
  obtain ⟨q, hq, hq10, _, _, _, f3, f4⟩ := suffix_def_facts s.type hsd
  obtain ⟨nodes', info, hpt, hir, hdefs, htreeK⟩ := core_effect hinv (getDefinition s.type).1 q false none hq hq10
  obtain ⟨st1, h1⟩ := step_suffix_ok st s il hs hinv.cg hinv.adjust
    (by rw [hinv.cfl]; exact composition_S_suffix _ hinv.prev) ⟨nodes', info, by rw [hinv.lastLeft]; exact hpt⟩
  obtain ⟨nodes1, info1, hpt1, hn1, hl1, hc1, hnl1, hgs1, hcg1, hp1⟩ :=
    step_suffix_spec st st1 s il hs hinv.nnl hinv.cg hinv.adjust h1
  rw [hinv.lastLeft, hpt] at hpt1
  injection hpt1 with hpt1; injection hpt1 with e1 e2; subst e1; subst e2
  have hsz' : nodes'.size = st.nodes.size := (parseToken_size_def hpt).1
  rw [hir] at hn1
  have hs1 : st1.nodes.size = st.nodes.size + 1 := by rw [hn1]; simp [hsz']
  have hon : st1.nodes[st.nodes.size]? =
      some ⟨(getDefinition s.type).1, .unarySuffix, info.parent, info.left, none, s⟩ := by
    rw [hn1, Array.getElem?_push, if_pos hsz'.symm]
  have hlt : ∀ j, j < st.nodes.size → st1.nodes[j]? = nodes'[j]? := by
    intro j hj; rw [hn1, Array.getElem?_push, if_neg (by omega)]
  obtain ⟨rt', htree'⟩ := htreeK st1.nodes .nil s.col hlt ⟨_, hon, rfl, rfl, rfl, rfl⟩ (.nil _)
  have hdefs1 : ∀ j, j < st.nodes.size → (st1.nodes[j]?).map (·.definition) = (st.nodes[j]?).map (·.definition) := by
    intro j hj; rw [hlt j hj]; exact hdefs j hj
  refine ⟨q, st1, rt', hq, h1, ?_, hs1, hdefs1, by simp [dfOf, hon]⟩
  refine ⟨htree', ?_, by omega, by rw [hl1, hs1]; rfl, hc1, hnl1, by rw [hgs1, hinv.gs], hcg1, ?_, ?_, Or.inr (Or.inr hp1)⟩
  · rw [insertS_inorder, hinv.inord, hs1, List.range_succ]; simp [Tree.inorder]
  · intro i nd hi
    by_cases c1 : i < st.nodes.size
    · have := hdefs1 i c1
      rw [hi] at this
      cases hsi : st.nodes[i]? with
      | none => rw [hsi] at this; cases this
      | some nd0 =>
        rw [hsi] at this
        simp only [Option.map_some, Option.some.injEq] at this
        rw [this]; exact hinv.prios i nd0 hsi
    · by_cases c2 : i = st.nodes.size
      · subst c2; rw [hon] at hi; injection hi with hi; subst hi; exact ⟨q, hq⟩
      · have : st1.nodes[i]? = none := by apply Array.getElem?_eq_none; omega
        rw [this] at hi; cases hi
  · exact ⟨_, by rw [hs1]; exact hon, rfl, f4⟩

/-- **a binary-operator token** on a state that satisfies `SInv` (the analogue of `op_effect`) -/
theorem op_effectS {st : PState} {T : Tree} {rt : Nat} {o : PToken} (hinv : SInv st T rt) (ho : isBinopTok o = true) :
    ∃ (q : Nat) (nodes' : Array ParseNode) (info : Info) (st1 : PState),
      priority (getDefinition o.type).1 = some q ∧ 10 < q ∧ step st o false = .ok st1 ∧
      st1.nodes = nodes'.push ⟨(getDefinition o.type).1, (getDefinition o.type).2, info.parent, info.left,
        some (st.nodes.size + 1), o⟩ ∧
      nodes'.size = st.nodes.size ∧ OpenInv st1 ∧ st1.lastLeft = some st.nodes.size ∧
      (∀ j, j < st.nodes.size → (nodes'[j]?).map (·.definition) = (st.nodes[j]?).map (·.definition)) ∧
      (∀ (arr : Array ParseNode) (sub : Tree) (ko : Nat), (∀ j, j < st.nodes.size → arr[j]? = nodes'[j]?) →
        (∃ on, arr[st.nodes.size]? = some on ∧ on.parent = info.parent ∧ on.left = info.left ∧
          on.right = some (st.nodes.size + 1) ∧ tokPos on = ko) →
        IsTreeAt arr (some st.nodes.size) (some (st.nodes.size + 1)) sub →
        ∃ rt', IsTreeAt arr none (some rt')
          (insertS (prioAt st.nodes) q ((getDefinition o.type).2 == .binaryRightToLeft) st.nodes.size ko sub T)) := by
  have ho' := ho
  unfold isBinopTok at ho'
  obtain ⟨q, hq, hq10⟩ := binop_prio o.type ho'
  obtain ⟨f1, f2, f3, f4⟩ := binop_def_facts o.type ho'
  have hso := binop_secdef ho
  obtain ⟨nodes', info, hpt, hir, hdefs, htreeK⟩ := core_effect hinv (getDefinition o.type).1 q
    ((getDefinition o.type).2 == .binaryRightToLeft) (some (st.nodes.size + 1)) hq hq10
  obtain ⟨st1, h1⟩ := step_binop_ok st o ho hinv.cg hinv.adjust
    (by rw [hinv.cfl]; exact composition_S_binop _ _ hinv.prev hso) ⟨nodes', info, by rw [hinv.lastLeft]; exact hpt⟩
  obtain ⟨nodes1, info1, hpt1, hn1, hl1, hc1, hnl1, hgs1, hcg1, hp1⟩ :=
    step_binop_spec st st1 o ho hinv.nnl hinv.cg hinv.adjust h1
  have hnp1 := step_binop_nextParent st st1 o ho hinv.nnl hinv.cg hinv.adjust h1
  rw [hinv.lastLeft, hpt] at hpt1
  injection hpt1 with hpt1; injection hpt1 with e1 e2; subst e1; subst e2
  have hsz' : nodes'.size = st.nodes.size := (parseToken_size_def hpt).1
  rw [hir] at hn1
  refine ⟨q, nodes', info, st1, hq, hq10, h1, hn1, hsz', ?_, hl1, hdefs, htreeK⟩
  have hs1 : st1.nodes.size = st.nodes.size + 1 := by rw [hn1]; simp [hsz']
  refine ⟨hc1, hnl1, by rw [hgs1, hinv.gs], hcg1, by rw [hnp1, hl1], Or.inr ?_, ?_⟩
  · refine ⟨⟨(getDefinition o.type).1, (getDefinition o.type).2, info.parent, info.left, some (st.nodes.size + 1), o⟩,
      q, by omega, by rw [hl1, hs1]; rfl, ?_, hq, hq10, by rw [hs1], f3, f4⟩
    rw [hs1, hn1, Nat.add_sub_cancel, Array.getElem?_push, if_pos hsz'.symm]
  · rw [hp1]
    rcases hso with h | h <;> rw [h] <;> simp

end Garnish.Spec
