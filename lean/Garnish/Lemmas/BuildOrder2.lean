/-
C04, builder half — sibling order, part 2: one handler call keeps the order invariant (`step_ord`).
-/
import Garnish.Lemmas.BuildOrder
namespace Garnish.Lemmas.BuildOrder
open Garnish Garnish.Gen Garnish.Model.Parser Garnish.Model.Literals Garnish.Model.Build Garnish.Lemmas.Build
open Garnish.Lemmas.BuildTotal

variable {F : Type} {root : Nat} {tree : Array ParseNode} {G : Nat → Prop} {m0 : Nat}

theorem get_append {M M' : Array (Option Nat)} {l : List (Option Nat)} (hM : M'.toList = M.toList ++ l) {k : Nat} {v : Option Nat}
    (h : M'[k]? = some v) : (k < M.size ∧ M[k]? = some v) ∨ (M.size ≤ k ∧ v ∈ l) := by
  have h1 : M'.toList[k]? = some v := by simpa using h
  rw [hM] at h1
  rcases Nat.lt_or_ge k M.size with hk | hk
  · rw [List.getElem?_append_left (by simpa using hk)] at h1
    exact Or.inl ⟨hk, by simpa using h1⟩
  · rw [List.getElem?_append_right (by simpa using hk)] at h1
    exact Or.inr ⟨hk, List.mem_of_getElem? h1⟩

theorem attr_append {M M' : Array (Option Nat)} {l : List (Option Nat)} (hM : M'.toList = M.toList ++ l) {x : Nat}
    (h : Attr m0 M' x) : Attr m0 M x ∨ some x ∈ l := by
  obtain ⟨k, hk, hm⟩ := h
  rcases get_append hM hm with ⟨_, h1⟩ | ⟨_, h1⟩
  · exact Or.inl ⟨k, hk, h1⟩
  · exact Or.inr h1

/-- phases a node can be moved out of by the visit of another node -/
def Moving (ph : Nat → Phase) (x : Nat) : Prop := ph x = .p0 ∨ ∃ o, ph x = .pc o

theorem nm1 {ph : Nat → Phase} {x : Nat} (h : ph x = .p1) : ¬ Moving ph x := by
  intro hm; rcases hm with hm | ⟨o, hm⟩ <;> rw [h] at hm <;> cases hm
theorem nm2 {ph : Nat → Phase} {x : Nat} (h : ph x = .p2) : ¬ Moving ph x := by
  intro hm; rcases hm with hm | ⟨o, hm⟩ <;> rw [h] at hm <;> cases hm
theorem nm3 {ph : Nat → Phase} {x : Nat} (h : ph x = .p3) : ¬ Moving ph x := by
  intro hm; rcases hm with hm | ⟨o, hm⟩ <;> rw [h] at hm <;> cases hm
theorem nmr {ph : Nat → Phase} {x : Nat} (h : ph x = .pr) : ¬ Moving ph x := by
  intro hm; rcases hm with hm | ⟨o, hm⟩ <;> rw [h] at hm <;> cases hm
theorem nm23 {ph : Nat → Phase} {x : Nat} (h : ph x = .p2 ∨ ph x = .p3) : ¬ Moving ph x := by
  rcases h with h | h
  · exact nm2 h
  · exact nm3 h
theorem nm123 {ph : Nat → Phase} {x : Nat} (h : ph x = .p1 ∨ ph x = .p2 ∨ ph x = .p3) : ¬ Moving ph x := by
  rcases h with h | h | h
  · exact nm1 h
  · exact nm2 h
  · exact nm3 h

/-- the general step: the visited node `ni` (on top of the work list) moves to `vni`, the children `cs` are pushed
(phase p1), the children `rs` leave p0 for a phase outside {p1, p2, p3}, the metadata grows by `l`, which names at most `ni` -/
theorem step_ord_gen (V : Validated root tree G) {ph ph' : Nat → Phase} {ctx ctx' : Ctx F} (hinv : Inv root tree G ph ctx)
    {ni : Nat} (hG : G ni) (hph : ph ni = .p1 ∨ ph ni = .p2) {pn : ParseNode} (hpn : tree[ni]? = some pn)
    {M M' : Array (Option Nat)} (ho : OInv root tree G m0 ph (ctx.stack.toList ++ [ni]) ctx.nodes M)
    (vni : Phase) (hv : vni = .p2 ∨ vni = .p3) (hv2 : vni = .p2 → ph ni = .p1)
    (cs rs suf : List Nat) (l : List (Option Nat))
    (hni' : ph' ni = vni) (hcs' : ∀ c, c ∈ cs → ph' c = .p1)
    (hrsN : ∀ c, c ∈ rs → ph' c ≠ .p1 ∧ ph' c ≠ .p2 ∧ ph' c ≠ .p3)
    (hother : ∀ x, x ≠ ni → x ∉ cs ++ rs → ph' x = ph x)
    (hS : ctx'.stack.toList = ctx.stack.toList ++ suf)
    (hM : M'.toList = M.toList ++ l) (hl : ∀ m, m ∈ l → m = none ∨ m = some ni)
    (hsufni : vni = .p2 → ni ∈ suf) (hsufcs : ∀ c, c ∈ cs → c ∈ suf)
    (hnodup' : ctx'.stack.toList.Nodup)
    (hfreshcs : ∀ c, c ∈ cs → ph c = .p0 ∧ c ≠ ni ∧ IsChild tree ni c)
    (hfreshrs : ∀ c, c ∈ rs → Moving ph c ∧ c ≠ ni)
    (huninit : ∀ (x : Nat) (bn : BuildNode), ctx'.nodes[x]? = some (some bn) → (ph' x = .p1 ∨ ph' x = .pr) → x ≠ ni →
      (x ∈ cs ++ rs → bn.state = .uninitialized) ∧
      (x ∉ cs ++ rs → ∃ bn0, ctx.nodes[x]? = some (some bn0) ∧ bn.state = bn0.state))
    (hB1 : isB pn.definition = true → rs = [])
    (hB2 : isB pn.definition = true → vni = .p2 →
      (∀ c, BChild tree ni c → c ∈ cs ∧ Above suf c ni) ∧ (∀ a b, Ordered tree ni a b → Above suf a b) ∧
      (∀ m, m ∈ l → m = none))
    (hB3 : isB pn.definition = true → vni = .p3 → ph ni = .p2 ∧ cs = []) :
    OInv root tree G m0 ph' ctx'.stack.toList ctx'.nodes M' := by
  -- a node whose old phase is not p0 and which is not `ni` keeps its phase
  have hsame : ∀ x, ¬ Moving ph x → x ≠ ni → ph' x = ph x := by
    intro x hx hxn
    refine hother x hxn (fun hm => hx ?_)
    rcases List.mem_append.1 hm with h | h
    · exact Or.inl (hfreshcs x h).1
    · exact (hfreshrs x h).1
  -- case analysis on a node
  have hcases : ∀ x, x = ni ∨ (x ∈ cs ∧ ph x = .p0) ∨ (x ∈ rs ∧ Moving ph x) ∨ (x ≠ ni ∧ x ∉ cs ++ rs) := by
    intro x
    rcases Classical.em (x = ni) with h | h
    · exact Or.inl h
    · rcases Classical.em (x ∈ cs) with h1 | h1
      · exact Or.inr (Or.inl ⟨h1, (hfreshcs x h1).1⟩)
      · rcases Classical.em (x ∈ rs) with h2 | h2
        · exact Or.inr (Or.inr (Or.inl ⟨h2, (hfreshrs x h2).1⟩))
        · exact Or.inr (Or.inr (Or.inr ⟨h, fun hm => by rcases List.mem_append.1 hm with h3 | h3 <;> contradiction⟩))
  have hni0 : ph ni ≠ .p0 := by rcases hph with h | h <;> rw [h] <;> intro h' <;> cases h'
  have hni3 : ph ni ≠ .p3 := by rcases hph with h | h <;> rw [h] <;> intro h' <;> cases h'
  have hvni12 : ∀ {P : Prop}, vni = .p1 → P := by
    intro P h; rcases hv with h' | h' <;> rw [h'] at h <;> cases h
  -- the node's own definition, seen from `BChild ni _` / `Ordered ni _ _`
  have hBni : ∀ c, BChild tree ni c → isB pn.definition = true := by
    intro c ⟨pn', h1, h2, _⟩
    rw [hpn] at h1; cases h1; exact h2
  have hOni : ∀ a b, Ordered tree ni a b → isB pn.definition = true := fun a b h => hBni a h.left
  -- positions
  have hnotop : ∀ u, ¬ Above (ctx.stack.toList ++ [ni]) u ni := fun u => above_top_false ho.nodup
  have hlift : ∀ u v, Above (ctx.stack.toList ++ [ni]) u v → u ≠ ni → Above ctx'.stack.toList u v := by
    intro u v h hu
    rw [hS]; exact above_append_left (above_init h hu)
  have hliftni : ∀ v, Above (ctx.stack.toList ++ [ni]) ni v → ni ∈ suf → Above ctx'.stack.toList ni v := by
    intro v h hs
    have hv' := (above_mem h).2
    have hvn : v ≠ ni := fun e => above_irrefl ho.nodup (e ▸ h)
    have : v ∈ ctx.stack.toList := by
      rcases List.mem_append.1 hv' with h1 | h1
      · exact h1
      · simp only [List.mem_singleton] at h1; exact absurd h1 hvn
    rw [hS]; exact above_append_mem this hs
  -- the parent of a pushed child is `ni`
  have hparent : ∀ y c, G y → BChild tree y c → c ∈ cs → y = ni :=
    fun y c hy hc hm => parent_unique V hy hG hc.isChild (hfreshcs c hm).2.2
  refine ⟨hnodup', ?_, ?_, ?_, ?_, ?_, ?_, ?_, ?_, ?_, ?_⟩
  · -- onStack
    intro x hx
    rcases hcases x with h | ⟨h, _⟩ | ⟨h, _⟩ | ⟨h1, h2⟩
    · subst h
      rw [hni'] at hx
      rcases hx with h | h
      · exact hvni12 h
      · rw [hS]; exact List.mem_append_right _ (hsufni h)
    · rw [hS]; exact List.mem_append_right _ (hsufcs x h)
    · rcases hx with h' | h'
      · exact absurd h' (hrsN x h).1
      · exact absurd h' (hrsN x h).2.1
    · rw [hother x h1 h2] at hx
      have := ho.onStack x hx
      rw [hS]
      rcases List.mem_append.1 this with h3 | h3
      · exact List.mem_append_left _ h3
      · simp only [List.mem_singleton] at h3; exact absurd h3 h1
  · -- attrVisited
    intro x hx
    rcases attr_append hM hx with h | h
    · have hp := ho.attrVisited x h
      have hx0 : ¬ Moving ph x := nm23 hp
      rcases Classical.em (x = ni) with hxn | hxn
      · subst hxn; rw [hni']; exact hv
      · rw [hsame x hx0 hxn]; exact hp
    · rcases hl _ h with h' | h'
      · cases h'
      · cases h'; rw [hni']; exact hv
  · -- attrB
    intro y pn' hy hb hattr
    rcases attr_append hM hattr with h | h
    · have hp := ho.attrB y pn' hy hb h
      have hy0 : ¬ Moving ph y := nm3 hp
      have hyn : y ≠ ni := fun e => hni3 (e ▸ hp)
      rw [hsame y hy0 hyn]; exact hp
    · rcases hl _ h with h' | h'
      · cases h'
      · cases h'
        rw [hpn] at hy; cases hy
        rw [hni']
        rcases hv with h2 | h3
        · have := (hB2 hb h2).2.2 _ h; cases this
        · exact h3
  · -- childSched
    intro y c hy hc hyp
    -- the old phase of c, when y was already visited before this step
    have hold : ∀ (hyp0 : ph y = .p2 ∨ ph y = .p3),
        ph' c = .p1 ∨ ph' c = .p2 ∨ ph' c = .p3 := by
      intro hyp0
      have hp := ho.childSched y c hy hc hyp0
      have hc0 : ¬ Moving ph c := nm123 hp
      rcases Classical.em (c = ni) with hcn | hcn
      · subst hcn; rw [hni']; rcases hv with h | h <;> simp [h]
      · rw [hsame c hc0 hcn]; exact hp
    rcases hcases y with h | ⟨h, _⟩ | ⟨h, _⟩ | ⟨h1, h2⟩
    · subst h
      have hb := hBni c hc
      rcases hv with h2 | h3
      · exact Or.inl (hcs' c ((hB2 hb h2).1 c hc).1)
      · exact hold (Or.inl (hB3 hb h3).1)
    · rw [hcs' y h] at hyp; rcases hyp with h' | h' <;> cases h'
    · rcases hyp with h' | h'
      · exact absurd h' (hrsN y h).2.1
      · exact absurd h' (hrsN y h).2.2
    · rw [hother y h1 h2] at hyp; exact hold hyp
  · -- childAbove
    intro y c hy hc hcp
    rcases hcases c with h | ⟨h, _⟩ | ⟨h, _⟩ | ⟨h1, h2⟩
    · subst h
      rw [hni'] at hcp
      have hv2' : vni = .p2 := by
        rcases hcp with h | h
        · exact hvni12 h
        · exact h
      have hp1 := hv2 hv2'
      obtain ⟨hy2, hab⟩ := ho.childAbove y c hy hc (Or.inl hp1)
      have hyn : y ≠ c := fun e => above_irrefl ho.nodup (e ▸ hab)
      have hy0 : ¬ Moving ph y := nm2 hy2
      exact ⟨by rw [hsame y hy0 hyn]; exact hy2, hliftni y hab (hsufni hv2')⟩
    · have hyn := hparent y c hy hc h
      subst hyn
      have hb := hBni c hc
      have hv2' : vni = .p2 := by
        rcases hv with h2 | h3
        · exact h2
        · have := (hB3 hb h3).2; rw [this] at h; cases h
      refine ⟨by rw [hni']; exact hv2', ?_⟩
      rw [hS]; exact above_append_right ((hB2 hb hv2').1 c hc).2
    · rcases hcp with h' | h'
      · exact absurd h' (hrsN c h).1
      · exact absurd h' (hrsN c h).2.1
    · rw [hother c h1 h2] at hcp
      obtain ⟨hy2, hab⟩ := ho.childAbove y c hy hc hcp
      have hyn : y ≠ ni := fun e => hnotop c (e ▸ hab)
      have hy0 : ¬ Moving ph y := nm2 hy2
      exact ⟨by rw [hsame y hy0 hyn]; exact hy2, hlift c y hab h1⟩
  · -- parentDone
    intro y c hy hc hy3
    have hold : ph y = .p3 → ph' c = .p3 := by
      intro hp
      have hc3 := ho.parentDone y c hy hc hp
      have hcn : c ≠ ni := fun e => hni3 (e ▸ hc3)
      rw [hsame c (nm3 hc3) hcn]; exact hc3
    rcases hcases y with h | ⟨h, _⟩ | ⟨h, _⟩ | ⟨h1, h2⟩
    · subst h
      rw [hni'] at hy3
      have hb := hBni c hc
      have hp2 := (hB3 hb hy3).1
      have hcs := ho.childSched y c hy hc (Or.inl hp2)
      have hc3 : ph c = .p3 := by
        rcases hcs with h | h | h
        · exact absurd (ho.childAbove y c hy hc (Or.inl h)).2 (hnotop c)
        · exact absurd (ho.childAbove y c hy hc (Or.inr h)).2 (hnotop c)
        · exact h
      have hcn : c ≠ y := fun e => hni3 (e ▸ hc3)
      rw [hsame c (nm3 hc3) hcn]; exact hc3
    · rw [hcs' y h] at hy3; cases hy3
    · exact absurd hy3 (hrsN y h).2.2
    · rw [hother y h1 h2] at hy3; exact hold hy3
  · -- sibAbove
    intro y a b hy hord hap
    rcases hcases a with h | ⟨h, _⟩ | ⟨h, _⟩ | ⟨h1, h2⟩
    · subst h
      rw [hni'] at hap
      have hv2' : vni = .p2 := by
        rcases hap with h | h
        · exact hvni12 h
        · exact h
      obtain ⟨hb1, hab⟩ := ho.sibAbove y a b hy hord (Or.inl (hv2 hv2'))
      have hbn : b ≠ a := fun e => above_irrefl ho.nodup (e ▸ hab)
      exact ⟨by rw [hsame b (nm1 hb1) hbn]; exact hb1, hliftni b hab (hsufni hv2')⟩
    · have hyn := hparent y a hy hord.left h
      subst hyn
      have hb := hOni a b hord
      have hv2' : vni = .p2 := by
        rcases hv with h2 | h3
        · exact h2
        · have := (hB3 hb h3).2; rw [this] at h; cases h
      have hbcs := ((hB2 hb hv2').1 b hord.right).1
      refine ⟨hcs' b hbcs, ?_⟩
      rw [hS]; exact above_append_right ((hB2 hb hv2').2.1 a b hord)
    · rcases hap with h' | h'
      · exact absurd h' (hrsN a h).1
      · exact absurd h' (hrsN a h).2.1
    · rw [hother a h1 h2] at hap
      obtain ⟨hb1, hab⟩ := ho.sibAbove y a b hy hord hap
      have hbn : b ≠ ni := fun e => hnotop a (e ▸ hab)
      exact ⟨by rw [hsame b (nm1 hb1) hbn]; exact hb1, hlift a b hab h1⟩
  · -- sibDone
    intro y a b hy hord hbp
    have hfin : ph a = .p3 → ph' a = .p3 := by
      intro ha3
      have han : a ≠ ni := fun e => hni3 (e ▸ ha3)
      rw [hsame a (nm3 ha3) han]; exact ha3
    rcases hcases b with h | ⟨h, _⟩ | ⟨h, _⟩ | ⟨h1, h2⟩
    · subst h
      -- b is the visited node: its parent y has been visited, so a is scheduled; a is not on the work list above b
      have hbc := hord.right.isChild
      rcases hinv.fresh b hG hni0 with h1 | ⟨p, hp, hpc, hs, _⟩
      · exact absurd h1 (child_ne_root V hy hbc)
      · have := parent_unique V hp hy hpc hbc
        subst this
        have hasch := ho.childSched p a hy hord.left hs
        apply hfin
        rcases hasch with h | h | h
        · exact absurd (ho.sibAbove p a b hy hord (Or.inl h)).2 (hnotop a)
        · exact absurd (ho.sibAbove p a b hy hord (Or.inr h)).2 (hnotop a)
        · exact h
    · rw [hcs' b h] at hbp; rcases hbp with h' | h' <;> cases h'
    · rcases hbp with h' | h'
      · exact absurd h' (hrsN b h).2.1
      · exact absurd h' (hrsN b h).2.2
    · rw [hother b h1 h2] at hbp; exact hfin (ho.sibDone y a b hy hord hbp)
  · -- uninit
    intro x bn hx hxp
    rcases Classical.em (x = ni) with hxn | hxn
    · subst hxn
      rw [hni'] at hxp
      rcases hxp with h' | h'
      · exact hvni12 h'
      · rcases hv with h'' | h'' <;> rw [h''] at h' <;> cases h'
    · obtain ⟨h1, h2⟩ := huninit x bn hx hxp hxn
      rcases Classical.em (x ∈ cs ++ rs) with hm | hm
      · exact h1 hm
      · obtain ⟨bn0, hb0, hst⟩ := h2 hm
        rw [hst]
        rw [hother x hxn hm] at hxp
        exact ho.uninit x bn0 hb0 hxp
  · -- ord
    intro x z hp kx kz hkx hkz hmx hmz
    rcases get_append hM hmx with ⟨hx1, hx2⟩ | ⟨hx1, hx2⟩
    · rcases get_append hM hmz with ⟨hz1, hz2⟩ | ⟨hz1, _⟩
      · exact ho.ord x z hp kx kz hkx hkz hx2 hz2
      · omega
    · -- a new record for x: x is the visited node
      rcases hl _ hx2 with h | h
      · cases h
      · cases h
        obtain ⟨hna, hzn⟩ := prec_key V hinv ho hph hp
        rcases get_append hM hmz with ⟨_, hz2⟩ | ⟨_, hz2⟩
        · exact absurd ⟨kz, hkz, hz2⟩ hna
        · rcases hl _ hz2 with h | h
          · cases h
          · cases h; exact absurd rfl hzn

end Garnish.Lemmas.BuildOrder
