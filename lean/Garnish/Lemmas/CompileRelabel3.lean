/-
Relabelling of body ids (3): the reference evaluator. `evalF_relabel`: evaluation commutes with an injective
renaming `ρ` of the body ids — of the `nested` expressions, of the table of bodies, of the current body, of the
expression values in the input, in the results and in the host-call trace. The two hosts are related by `HostRel ρ`
(a host that treats expression values as opaque names is related to itself).
-/
import Garnish.Lemmas.CompileRelabel2
namespace Garnish.Spec
open Garnish Gen Garnish.Abs

variable {F : Type} (fo : FloatOps F) (ρ : Nat → Nat)

mutual
/-- rename the body ids in an expression -/
def rlE : Expr F → Expr F
  | .lit v => .lit (Val.rl ρ v)
  | .input => .input
  | .ident sym => .ident sym
  | .unary op x => .unary op (rlE x)
  | .binary op l r => .binary op (rlE l) (rlE r)
  | .pair l r => .pair (rlE l) (rlE r)
  | .applyTo l r => .applyTo (rlE l) (rlE r)
  | .list items => .list (rlEs items)
  | .cond b c t => .cond b (rlE c) (rlE t)
  | .chain arms none => .chain (rlArms arms) none
  | .chain arms (some e) => .chain (rlArms arms) (some (rlE e))
  | .and l r => .and (rlE l) (rlE r)
  | .or l r => .or (rlE l) (rlE r)
  | .seq l r => .seq (rlE l) (rlE r)
  | .sideAfter l r => .sideAfter (rlE l) (rlE r)
  | .nested id => .nested (ρ id)
  | .emptyNested => .emptyNested
  | .reapply x => .reapply (rlE x)
  | .prefixApply sy x => .prefixApply sy (rlE x)
  | .suffixApply x sy => .suffixApply (rlE x) sy
  | .infixApply a sy b => .infixApply (rlE a) sy (rlE b)
def rlEs : List (Expr F) → List (Expr F)
  | [] => []
  | x :: xs => rlE x :: rlEs xs
def rlArms : List (Bool × Expr F × Expr F) → List (Bool × Expr F × Expr F)
  | [] => []
  | (b, c, t) :: rest => (b, rlE c, rlE t) :: rlArms rest
end

def rlBodies : List (Nat × Expr F) → List (Nat × Expr F)
  | [] => []
  | (k, b) :: rest => (ρ k, rlE ρ b) :: rlBodies rest

def rlProgram (p : Program F) : Program F := { main := rlE ρ p.main, bodies := rlBodies ρ p.bodies }

def HostCall.rl : HostCall F → HostCall F
  | .defer op l r => .defer op (Val.rl ρ l) (Val.rl ρ r)
  | .resolve s => .resolve s
  | .apply n arg => .apply n (Val.rl ρ arg)

def St.rl (st : St F) : St F := { inp := Val.rl ρ st.inp, trace := st.trace.map (HostCall.rl ρ) }

def Res.rl : Res F → Res F
  | .val v => .val (Val.rl ρ v)
  | .restart v => .restart (Val.rl ρ v)

def Out.map {α β : Type} (f : α → β) : Out α → Out β
  | .ok a => .ok (f a)
  | .err e => .err e
  | .fuelOut => .fuelOut

@[simp] theorem Out.map_ok {α β : Type} (f : α → β) (a : α) : Out.map f (.ok a) = .ok (f a) := rfl
@[simp] theorem Out.map_err {α β : Type} (f : α → β) (e : ErrClass) : Out.map f (.err e : Out α) = .err e := rfl
@[simp] theorem Out.map_fuelOut {α β : Type} (f : α → β) : Out.map f (.fuelOut : Out α) = .fuelOut := rfl
@[simp] theorem Res.rl_val (v : Val F) : Res.rl ρ (.val v) = .val (Val.rl ρ v) := rfl
@[simp] theorem Res.rl_restart (v : Val F) : Res.rl ρ (.restart v) = .restart (Val.rl ρ v) := rfl
@[simp] theorem St.rl_inp (st : St F) : (St.rl ρ st).inp = Val.rl ρ st.inp := rfl
@[simp] theorem St.rl_trace (st : St F) : (St.rl ρ st).trace = st.trace.map (HostCall.rl ρ) := rfl

/-- the host of the renamed run answers the renamed question with the renamed answer -/
structure HostRel (h h' : Host F) : Prop where
  defer : ∀ op l r, h'.defer op (Val.rl ρ l) (Val.rl ρ r) = (h.defer op l r).map (Val.rl ρ)
  resolve : ∀ s, h'.resolve s = (h.resolve s).map (Val.rl ρ)
  apply : ∀ n a, h'.apply n (Val.rl ρ a) = (h.apply n a).map (Val.rl ρ)

/-- a host that declines everything is related to itself -/
theorem HostRel.declining : HostRel ρ (Host.declining (F := F)) Host.declining :=
  ⟨fun _ _ _ => rfl, fun _ => rfl, fun _ _ => rfl⟩

variable {ρ}

theorem lookupBody_rl (hρ : ∀ a b, ρ a = ρ b → a = b) : ∀ (bodies : List (Nat × Expr F)) (id : Nat),
    lookupBody (rlBodies ρ bodies) (ρ id) = (lookupBody bodies id).map (rlE ρ)
  | [], _ => rfl
  | (k, b) :: rest, id => by
    simp only [rlBodies, lookupBody]
    by_cases h : k = id
    · subst h; simp
    · have : ρ k ≠ ρ id := fun e => h (hρ _ _ e)
      rw [beq_eq_false_iff_ne.mpr this, beq_eq_false_iff_ne.mpr h]
      simpa using lookupBody_rl hρ rest id

variable {h h' : Host F}

theorem settle_rl (hh : HostRel ρ h h') (st : St F) (o : OpOut F) :
    settle h' (St.rl ρ st) (OpOut.rl ρ o) = Out.map (fun p => (Val.rl ρ p.1, St.rl ρ p.2)) (settle h st o) := by
  cases o with
  | val v => simp [settle]
  | defer op l r =>
    simp only [OpOut.rl_defer, settle, hh.defer]
    cases h.defer op l r <;> simp [St.rl, HostCall.rl, Val.rl]
  | err e => simp [settle]

theorem resolveVal_rl (hh : HostRel ρ h h') (st : St F) (sym : Nat) :
    resolveVal fo h' (St.rl ρ st) sym = Out.map (fun p => (Val.rl ρ p.1, St.rl ρ p.2)) (resolveVal fo h st sym) := by
  have hg := getAccess_rl fo ρ (.sym sym) st.inp
  simp only [Val.rl] at hg
  simp only [resolveVal, St.rl_inp, hg, hh.resolve]
  cases hga : getAccess fo (.sym sym) st.inp with
  | some v => simp
  | none => cases h.resolve sym <;> simp [St.rl, HostCall.rl, Val.rl]
  | unsupported => cases h.resolve sym <;> simp [St.rl, HostCall.rl, Val.rl]
  | err e => cases e <;> simp <;> cases h.resolve sym <;> simp [St.rl, HostCall.rl, Val.rl]

def rlSum : (List (Val F) ⊕ Val F) → (List (Val F) ⊕ Val F)
  | .inl vs => .inl (vs.map (Val.rl ρ))
  | .inr v => .inr (Val.rl ρ v)

theorem rlE_chain (arms : List (Bool × Expr F × Expr F)) (final : Option (Expr F)) :
    rlE ρ (.chain arms final) = .chain (rlArms ρ arms) (final.map (rlE ρ)) := by
  cases final <;> simp [rlE]

theorem St.rl_with (st : St F) (v : Val F) :
    ({ inp := Val.rl ρ v, trace := st.trace.map (HostCall.rl ρ) } : St F) = St.rl ρ { inp := v, trace := st.trace } := rfl

/-- the five statements, for one amount of fuel -/
def RelAll (h h' : Host F) (fuel : Nat) : Prop :=
  (∀ bodies cur e st, evalF fo h' (rlBodies ρ bodies) (ρ cur) fuel (rlE ρ e) (St.rl ρ st) =
      Out.map (fun p => (Res.rl ρ p.1, St.rl ρ p.2)) (evalF fo h bodies cur fuel e st)) ∧
  (∀ bodies cur items st acc, evalList fo h' (rlBodies ρ bodies) (ρ cur) fuel (rlEs ρ items) (St.rl ρ st) (acc.map (Val.rl ρ)) =
      Out.map (fun p => (rlSum (ρ := ρ) p.1, St.rl ρ p.2)) (evalList fo h bodies cur fuel items st acc)) ∧
  (∀ bodies cur arms final st, evalChain fo h' (rlBodies ρ bodies) (ρ cur) fuel (rlArms ρ arms) (final.map (rlE ρ)) (St.rl ρ st) =
      Out.map (fun p => (Res.rl ρ p.1, St.rl ρ p.2)) (evalChain fo h bodies cur fuel arms final st)) ∧
  (∀ bodies cur instr useRight f x st,
      applyVals fo h' (rlBodies ρ bodies) (ρ cur) fuel instr useRight (Val.rl ρ f) (Val.rl ρ x) (St.rl ρ st) =
      Out.map (fun p => (Res.rl ρ p.1, St.rl ρ p.2)) (applyVals fo h bodies cur fuel instr useRight f x st)) ∧
  (∀ bodies cur body st, evalBody fo h' (rlBodies ρ bodies) (ρ cur) fuel (rlE ρ body) (St.rl ρ st) =
      Out.map (fun p => (Val.rl ρ p.1, St.rl ρ p.2)) (evalBody fo h bodies cur fuel body st))

end Garnish.Spec
