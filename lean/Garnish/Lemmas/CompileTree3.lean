/-
The tie between the two builder models (3): the simulation statement `SimT` and the handlers, visit by visit.
-/
import Garnish.Lemmas.CompileTree2
import Garnish.Lemmas.CompileLayout
namespace Garnish.Abs.Tree
open Garnish Garnish.Gen Garnish.Spec Garnish.Abs Garnish.Model.Parser Garnish.Model.Literals Garnish.Model.Build

variable {F : Type}

/-- the data object of `build` holds what the state of the structured compiler holds -/
structure DataEq (data : BState F) (s : LState F) : Prop where
  instrs : data.instrs = s.instrs
  jumps : data.jumps = s.jumps
  consts : data.consts = s.consts

theorem DataEq.push {data : BState F} {s : LState F} (h : DataEq data s) (i : Instruction) (d m : Option Nat) :
    DataEq (pushInstr data i d m) (s.push i d) :=
  ⟨by simp [pushInstr, LState.push, h.instrs], h.jumps, h.consts⟩

theorem DataEq.pushConst {data : BState F} {s : LState F} (h : DataEq data s) (i : Instruction) (v : Val F) (m : Option Nat) :
    DataEq (pushInstr (addConst data v).1 i (some (addConst data v).2) m) (s.pushConst i v) :=
  ⟨by simp [pushInstr, addConst, LState.pushConst, h.instrs, h.consts], h.jumps, by simp [pushInstr, addConst, LState.pushConst, h.consts]⟩

theorem DataEq.pushJump {data : BState F} {s : LState F} (h : DataEq data s) (t : Nat) :
    DataEq (pushToJumpTable data t) (s.pushJump t) :=
  ⟨h.instrs, by simp [pushToJumpTable, LState.pushJump, h.jumps], h.consts⟩

/-- a root that `build` has put on its root stack: node index, the interval of its subtree, the root of `compile` -/
structure RRec (F : Type) where
  idx : Nat
  lo : Nat
  hi : Nat
  root : Root F

/-- the build node of a pending root -/
def bnOfRoot (r : Nat) (R : Root F) : BuildNode :=
  match R.kind with
  | .code _ => BuildNode.newWithJumpAndEnd r R.containing R.patch R.term
  | .ref _ => BuildNode.newWithJump r R.patch R.patch

variable (pf : List Char → Option F) (tree : Array ParseNode) (bodies : List (Nat × Expr F))

/-- the subtree of a pending root represents the root's expression -/
def RepRoot (q : RRec F) : Prop :=
  match q.root.kind with
  | .code t => Rep pf tree bodies q.lo q.hi q.idx t
  | .ref id => ∃ b, lookupBody bodies id = some b ∧ Rep pf tree bodies q.lo q.hi q.idx b ∧
      q.root.containing = q.root.patch ∧ q.root.term = [(.endExpression, none)]

/-- twice the number of nodes in the subtrees of the pending roots (what the work-list loop will still need for them) -/
def wsum (R : List (RRec F)) : Nat := (R.map (fun q => 2 * (q.hi - q.lo))).sum

@[simp] theorem wsum_nil : wsum ([] : List (RRec F)) = 0 := rfl
@[simp] theorem wsum_cons (q : RRec F) (R : List (RRec F)) : wsum (q :: R) = 2 * (q.hi - q.lo) + wsum R := by simp [wsum]
@[simp] theorem wsum_append (R1 R2 : List (RRec F)) : wsum (R1 ++ R2) = wsum R1 + wsum R2 := by simp [wsum]

/-- what is known before node `i` (scheduled by its parent with `mkNode`) is popped -/
structure Pre (nodes : Nodes) (lo hi i cur : Nat) (lp : Option (Nat × Definition)) (cp : Ex) (pbn : BuildNode) : Prop where
  size : nodes.size = tree.size
  node : nodes[i]? = some (some (mkNode i cur lp cp))
  par : ∀ par d, lp = some (par, d) → (par < lo ∨ hi ≤ par) ∧ nodes[par]? = some (some pbn) ∧ NotDef tree i d
  cond : (∃ c, cp.cond = some c) → NotCond tree i

/-- what is known after the nodes `In` (a subtree, or several) have been worked off -/
structure Done (In : Nat → Prop) (lp : Option (Nat × Definition)) (pbn : BuildNode) (n : Nat) (nodes nodes' : Nodes) (newR : List (RRec F)) : Prop where
  size : nodes'.size = nodes.size
  frame : ∀ x, ¬ In x → (∀ par d, lp = some (par, d) → x ≠ par) → nodes'[x]? = nodes[x]?
  parent : ∀ par d, lp = some (par, d) → nodes'[par]? = some (some { pbn with childCount := pbn.childCount + n })
  roots : ∀ q ∈ newR, (∀ x, q.lo ≤ x → x < q.hi → In x) ∧ q.lo ≤ q.idx ∧ q.idx < q.hi ∧
    nodes'[q.idx]? = some (some (bnOfRoot q.idx q.root)) ∧ RepRoot pf tree bodies q
  cover : ∀ x, In x → (∃ b, nodes'[x]? = some (some b)) ∨ ∃ q ∈ newR, q.lo ≤ x ∧ x < q.hi
  disj : newR.Pairwise (fun a b => a.hi ≤ b.lo ∨ b.hi ≤ a.lo)

/-- the indices of a subtree -/
def Ival (lo hi : Nat) : Nat → Prop := fun x => lo ≤ x ∧ x < hi

/-- **the simulation statement** for the subtree of node `i` representing `e` -/
def SimT (lo hi i : Nat) (e : Expr F) : Prop :=
  ∀ (crj root cur : Nat) (data : BState F) (nodes : Nodes) (RS S : Array Nat) (s : LState F)
    (lp : Option (Nat × Definition)) (cp : Ex) (pbn : BuildNode),
    Pre tree nodes lo hi i cur lp cp pbn → DataEq data s → cur < s.jumps.size →
    ∃ (k : Nat) (data' : BState F) (nodes' : Nodes) (RS' : Array Nat) (newR : List (RRec F)),
      Steps pf tree crj k ⟨data, nodes, RS, S.push i⟩ ⟨data', nodes', RS', S⟩ ∧ k + wsum newR ≤ 2 * (hi - lo) ∧
      DataEq data' (emit root cur e s) ∧
      RS'.toList = RS.toList ++ (newR.map (·.idx)).reverse ∧
      (emit root cur e s).pending = newR.map (·.root) ++ s.pending ∧
      Done pf tree bodies (Ival lo hi) lp pbn 1 nodes nodes' newR ∧
      ∃ b, nodes'[i]? = some (some b) ∧ b.rootEndInstruction = cp.ends

/-- the same for a subtree that is not an expression of its own (the `SideEffect` node with its body): `g root cur` is what it
appends to the layout state -/
def SimF (lo hi i : Nat) (g : Nat → Nat → LState F → LState F) : Prop :=
  ∀ (crj root cur : Nat) (data : BState F) (nodes : Nodes) (RS S : Array Nat) (s : LState F)
    (lp : Option (Nat × Definition)) (cp : Ex) (pbn : BuildNode),
    Pre tree nodes lo hi i cur lp cp pbn → DataEq data s → cur < s.jumps.size →
    ∃ (k : Nat) (data' : BState F) (nodes' : Nodes) (RS' : Array Nat) (newR : List (RRec F)),
      Steps pf tree crj k ⟨data, nodes, RS, S.push i⟩ ⟨data', nodes', RS', S⟩ ∧ k + wsum newR ≤ 2 * (hi - lo) ∧
      DataEq data' (g root cur s) ∧
      RS'.toList = RS.toList ++ (newR.map (·.idx)).reverse ∧
      (g root cur s).pending = newR.map (·.root) ++ s.pending ∧
      Done pf tree bodies (Ival lo hi) lp pbn 1 nodes nodes' newR ∧
      ∃ b, nodes'[i]? = some (some b) ∧ b.rootEndInstruction = cp.ends

variable {pf tree bodies}

theorem SimF.toT {lo hi i : Nat} {e : Expr F} (h : SimF pf tree bodies lo hi i (fun root cur s => emit root cur e s)) :
    SimT pf tree bodies lo hi i e := h

theorem setNodeIdx_ok {nodes : Nodes} {r : Nat} (h : r < nodes.size) (b : BuildNode) (site : String) :
    setNodeIdx nodes r b site = .ok (putNode nodes r b) := by
  simp [setNodeIdx, h, putNode, Array.setIfInBounds, h]

theorem get_putNode_same {nodes : Nodes} {i : Nat} (h : i < nodes.size) (b : BuildNode) : (putNode nodes i b)[i]? = some (some b) := by
  simp [putNode, Array.getElem?_setIfInBounds, h]

theorem get_putNode_ne {nodes : Nodes} {i x : Nat} (h : i ≠ x) (b : BuildNode) : (putNode nodes i b)[x]? = nodes[x]? := by
  simp [putNode, Array.getElem?_setIfInBounds, h]

@[simp] theorem size_putNode' (nodes : Nodes) (i : Nat) (b : BuildNode) : (putNode nodes i b).size = nodes.size := by
  simp [putNode]

theorem lt_of_get {α : Type} {a : Array α} {i : Nat} {x : α} (h : a[i]? = some x) : i < a.size := by
  rcases Nat.lt_or_ge i a.size with h1 | h1
  · exact h1
  · rw [Array.getElem?_eq_none h1] at h; cases h

theorem Done.cong {In In' : Nat → Prop} {lp : Option (Nat × Definition)} {pbn : BuildNode} {n : Nat} {A B : Nodes} {R : List (RRec F)}
    (h : Done pf tree bodies In lp pbn n A B R) (e : ∀ x, In x ↔ In' x) : Done pf tree bodies In' lp pbn n A B R :=
  ⟨h.size, fun x hx hp => h.frame x (fun hi => hx ((e x).1 hi)) hp, h.parent,
   fun q hq => ⟨fun x h1 h2 => (e x).1 ((h.roots q hq).1 x h1 h2), (h.roots q hq).2⟩,
   fun x hx => h.cover x ((e x).2 hx), h.disj⟩

/-- nothing to do -/
theorem Done.nil (p : BuildNode) (n : Nat) (A : Nodes) : Done pf tree bodies (fun _ => False) none p n A A [] :=
  ⟨rfl, fun _ _ _ => rfl, fun _ _ h => (by cases h), fun _ h => (by cases h), fun _ h => False.elim h, List.Pairwise.nil⟩

/-- roots of two disjoint groups of nodes have disjoint intervals -/
theorem roots_apart {In1 In2 : Nat → Prop} {a b : RRec F} (disj : ∀ x, In1 x → In2 x → False)
    (ha : ∀ x, a.lo ≤ x → x < a.hi → In2 x) (hb : ∀ x, b.lo ≤ x → x < b.hi → In1 x)
    (ha' : a.lo ≤ a.idx ∧ a.idx < a.hi) (hb' : b.lo ≤ b.idx ∧ b.idx < b.hi) : a.hi ≤ b.lo ∨ b.hi ≤ a.lo := by
  rcases Nat.lt_or_ge b.lo a.hi with h1 | h1
  · rcases Nat.lt_or_ge a.lo b.hi with h2 | h2
    · exfalso
      exact disj (max a.lo b.lo) (hb _ (by omega) (by omega)) (ha _ (by omega) (by omega))
    · exact .inr h2
  · exact .inl h1

/-- two groups of nodes worked off one after the other (neither counts for a list parent) -/
theorem Done.trans {In1 In2 : Nat → Prop} {p p2 : BuildNode} {n n2 n3 : Nat} {A B C : Nodes} {R1 R2 : List (RRec F)}
    (h1 : Done pf tree bodies In1 none p n A B R1) (h2 : Done pf tree bodies In2 none p2 n2 B C R2)
    (disj : ∀ x, In1 x → In2 x → False) : Done pf tree bodies (fun x => In1 x ∨ In2 x) none p n3 A C (R2 ++ R1) where
  size := by rw [h2.size, h1.size]
  frame x hx hp := by
    rw [h2.frame x (fun h => hx (.inr h)) hp, h1.frame x (fun h => hx (.inl h)) hp]
  parent _ _ h := by cases h
  roots q hq := by
    rcases List.mem_append.1 hq with hq | hq
    · obtain ⟨a, b, c, d, e⟩ := h2.roots q hq
      exact ⟨fun x h1 h2 => .inr (a x h1 h2), b, c, d, e⟩
    · obtain ⟨a, b, c, d, e⟩ := h1.roots q hq
      refine ⟨fun x h1 h2 => .inl (a x h1 h2), b, c, ?_, e⟩
      rw [h2.frame q.idx (fun h => disj _ (a _ b c) h) (fun _ _ h => by cases h)]
      exact d
  cover x hx := by
    rcases hx with hx | hx
    · rcases h1.cover x hx with ⟨b, hb⟩ | ⟨q, hq, h⟩
      · refine .inl ⟨b, ?_⟩
        rw [h2.frame x (fun h => disj _ hx h) (fun _ _ h => by cases h)]
        exact hb
      · exact .inr ⟨q, List.mem_append_right _ hq, h⟩
    · rcases h2.cover x hx with h | ⟨q, hq, h⟩
      · exact .inl h
      · exact .inr ⟨q, List.mem_append_left _ hq, h⟩
  disj := by
    rw [List.pairwise_append]
    refine ⟨h2.disj, h1.disj, fun a ha b hb => ?_⟩
    obtain ⟨a1, a2, a3, _⟩ := h2.roots a ha
    obtain ⟨b1, b2, b3, _⟩ := h1.roots b hb
    exact roots_apart disj a1 b1 ⟨a2, a3⟩ ⟨b2, b3⟩

/-- the node `i` itself around what its children did: `A` is the state after the first visit of `i` -/
theorem Done.wrap {Inner : Nat → Prop} {i : Nat} {lp : Option (Nat × Definition)} {p pbn : BuildNode} {m n : Nat} {N A C : Nodes}
    {R : List (RRec F)} (h : Done pf tree bodies Inner none p m A C R)
    (hsz : A.size = N.size)
    (hA : ∀ x, x ≠ i → ¬ Inner x → (∀ par d, lp = some (par, d) → x ≠ par) → A[x]? = N[x]?)
    (hAi : ∃ b, A[i]? = some (some b)) (hi : ¬ Inner i)
    (hpar : ∀ par d, lp = some (par, d) → ¬ Inner par ∧ A[par]? = some (some { pbn with childCount := pbn.childCount + n })) :
    Done pf tree bodies (fun x => x = i ∨ Inner x) lp pbn n N C R where
  size := by rw [h.size, hsz]
  frame x hx hp := by
    rw [h.frame x (fun hh => hx (.inr hh)) (fun _ _ hh => by cases hh)]
    exact hA x (fun e => hx (.inl e)) (fun hh => hx (.inr hh)) hp
  parent par d hl := by
    obtain ⟨h1, h2⟩ := hpar par d hl
    rw [h.frame par h1 (fun _ _ hh => by cases hh)]
    exact h2
  roots q hq := by
    obtain ⟨a, b, c, d, e⟩ := h.roots q hq
    exact ⟨fun x h1 h2 => .inr (a x h1 h2), b, c, d, e⟩
  cover x hx := by
    rcases hx with rfl | hx
    · obtain ⟨b, hb⟩ := hAi
      refine .inl ⟨b, ?_⟩
      rw [h.frame _ hi (fun _ _ hh => by cases hh)]
      exact hb
    · exact h.cover x hx
  disj := h.disj

/-- two groups of items of the same list worked off one after the other: both count for the list node `top` -/
theorem Done.transP {In1 In2 : Nat → Prop} {top : Nat} {d : Definition} {tb : BuildNode} {n1 n2 : Nat} {A B C : Nodes}
    {R1 R2 : List (RRec F)}
    (h1 : Done pf tree bodies In1 (some (top, d)) tb n1 A B R1)
    (h2 : Done pf tree bodies In2 (some (top, d)) { tb with childCount := tb.childCount + n1 } n2 B C R2)
    (disj : ∀ x, In1 x → In2 x → False) (ht : ¬ In1 top ∧ ¬ In2 top) :
    Done pf tree bodies (fun x => In1 x ∨ In2 x) (some (top, d)) tb (n1 + n2) A C (R2 ++ R1) where
  size := by rw [h2.size, h1.size]
  frame x hx hp := by
    rw [h2.frame x (fun h => hx (.inr h)) hp, h1.frame x (fun h => hx (.inl h)) hp]
  parent par d' h := by
    have := h2.parent par d' h
    simp only [Nat.add_assoc] at this
    exact this
  roots q hq := by
    rcases List.mem_append.1 hq with hq | hq
    · obtain ⟨a, b, c, d', e⟩ := h2.roots q hq
      exact ⟨fun x h1 h2 => .inr (a x h1 h2), b, c, d', e⟩
    · obtain ⟨a, b, c, d', e⟩ := h1.roots q hq
      refine ⟨fun x h1 h2 => .inl (a x h1 h2), b, c, ?_, e⟩
      rw [h2.frame q.idx (fun h => disj _ (a _ b c) h) (fun par d'' h => by
        cases h; exact fun e => ht.1 (e ▸ a _ b c))]
      exact d'
  cover x hx := by
    rcases hx with hx | hx
    · rcases h1.cover x hx with ⟨b, hb⟩ | ⟨q, hq, h⟩
      · refine .inl ⟨b, ?_⟩
        rw [h2.frame x (fun h => disj _ hx h) (fun par d'' h => by cases h; exact fun e => ht.1 (e ▸ hx))]
        exact hb
      · exact .inr ⟨q, List.mem_append_right _ hq, h⟩
    · rcases h2.cover x hx with h | ⟨q, hq, h⟩
      · exact .inl h
      · exact .inr ⟨q, List.mem_append_left _ hq, h⟩
  disj := by
    rw [List.pairwise_append]
    refine ⟨h2.disj, h1.disj, fun a ha b hb => ?_⟩
    obtain ⟨a1, a2, a3, _⟩ := h2.roots a ha
    obtain ⟨b1, b2, b3, _⟩ := h1.roots b hb
    exact roots_apart disj a1 b1 ⟨a2, a3⟩ ⟨b2, b3⟩

/-- an inner node `m` of a list spine around what its children did: it does not count itself -/
theorem Done.wrapP {Inner : Nat → Prop} {m top : Nat} {d : Definition} {tb : BuildNode} {n : Nat} {N A C : Nodes}
    {R : List (RRec F)} (h : Done pf tree bodies Inner (some (top, d)) tb n A C R)
    (hsz : A.size = N.size)
    (hA : ∀ x, x ≠ m → ¬ Inner x → A[x]? = N[x]?)
    (hAm : ∃ b, A[m]? = some (some b)) (hm : ¬ Inner m) (hmt : m ≠ top) :
    Done pf tree bodies (fun x => x = m ∨ Inner x) (some (top, d)) tb n N C R where
  size := by rw [h.size, hsz]
  frame x hx hp := by
    rw [h.frame x (fun hh => hx (.inr hh)) hp]
    exact hA x (fun e => hx (.inl e)) (fun hh => hx (.inr hh))
  parent := h.parent
  roots q hq := by
    obtain ⟨a, b, c, d', e⟩ := h.roots q hq
    exact ⟨fun x h1 h2 => .inr (a x h1 h2), b, c, d', e⟩
  cover x hx := by
    rcases hx with rfl | hx
    · obtain ⟨b, hb⟩ := hAm
      refine .inl ⟨b, ?_⟩
      rw [h.frame _ hm (fun par d' hh => by cases hh; exact hmt)]
      exact hb
    · exact h.cover x hx
  disj := h.disj

/-- the entry of a node after its first visit and `afterHandle` -/
def node1 (i cur : Nat) (lp : Option (Nat × Definition)) (cp : Ex) : BuildNode :=
  { mkNode i cur lp cp with state := .initialized, contributesToList := lp.isNone }

end Garnish.Abs.Tree
