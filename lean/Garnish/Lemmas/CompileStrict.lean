/-
The strict reference evaluator: `Spec.evalF` with one change — an else-chain WITHOUT a final arm in which no arm
matches is an error (`.err .state`) instead of yielding `$`. `build` emits nothing for the missing fall-through (no value
is pushed: DESIGN finding #6), so compiled code and `evalF` agree on such a chain exactly when some arm matches; the
strict evaluator makes "the evaluation never reaches a missing fall-through" a property of the outcome:

  strict_or     evalBodyS … = evalBody … ∨ evalBodyS … = .err .state            (Lemmas/CompileStrict2.lean)
  strict_eq     every chain has its final arm → evalBodyS … = evalBody …

The simulation (Lemmas/CompileRun*.lean) is proved for the strict evaluator; the text below is `Spec/Eval.lean`'s
mutual block with the names changed and the one line marked STRICT.
-/
import Garnish.Spec.Eval
namespace Garnish.Spec
open Garnish Gen Garnish.Abs

variable {F : Type} (fo : FloatOps F) (host : Host F)

mutual
/-- evaluate one expression -/
def evalFS (bodies : List (Nat × Expr F)) (cur : Nat) : Nat → Expr F → St F → Out (Res F × St F)
  | 0, _, _ => .fuelOut
  | fuel + 1, e, st =>
    match e with
    | .lit v => .ok (.val v, st)
    | .input => .ok (.val st.inp, st)
    | .ident sym => match resolveVal fo host st sym with
      | .ok (v, st') => .ok (.val v, st')
      | .err e => .err e
      | .fuelOut => .fuelOut
    | .unary op x =>
      match evalFS bodies cur fuel x st with
      | .ok (.val v, st1) =>
        if op == .emptyApply then applyValsS bodies cur fuel .emptyApply false v .unit st1
        else match unaryOp fo op v with
          | some o => match settle host st1 o with
            | .ok (r, st2) => .ok (.val r, st2)
            | .err e => .err e
            | .fuelOut => .fuelOut
          | none => .err .implementation
      | other => other
    | .binary op l r =>
      match evalFS bodies cur fuel l st with
      | .ok (.val vl, st1) =>
        match evalFS bodies cur fuel r st1 with
        | .ok (.val vr, st2) =>
          if op == .apply then applyValsS bodies cur fuel .apply true vl vr st2
          else match binaryOp fo op vl vr with
            | some o => match settle host st2 o with
              | .ok (v, st3) => .ok (.val v, st3)
              | .err e => .err e
              | .fuelOut => .fuelOut
            | none => .err .implementation
        | other => other
      | other => other
    | .pair l r =>
      match evalFS bodies cur fuel r st with
      | .ok (.val vr, st1) =>
        match evalFS bodies cur fuel l st1 with
        | .ok (.val vl, st2) => .ok (.val (.pair vl vr), st2)
        | other => other
      | other => other
    | .applyTo x f =>
      match evalFS bodies cur fuel f st with
      | .ok (.val vf, st1) =>
        match evalFS bodies cur fuel x st1 with
        | .ok (.val vx, st2) => applyValsS bodies cur fuel .apply true vf vx st2
        | other => other
      | other => other
    | .list items =>
      match evalListS bodies cur fuel items st [] with
      | .ok (.inl vs, st1) => .ok (.val (.list vs), st1)
      | .ok (.inr v, st1) => .ok (.restart v, st1)
      | .err e => .err e
      | .fuelOut => .fuelOut
    | .cond onTrue c t =>
      match evalFS bodies cur fuel c st with
      | .ok (.val vc, st1) =>
        if vc.truthy == onTrue then evalFS bodies cur fuel t st1
        else .ok (.val st1.inp, st1)         -- the test failed: the value is the current `$`
      | other => other
    | .chain arms final => evalChainS bodies cur fuel arms final st
    | .and l r =>
      match evalFS bodies cur fuel l st with
      | .ok (.val vl, st1) =>
        if vl.truthy then
          match evalFS bodies cur fuel r st1 with
          | .ok (.val vr, st2) => .ok (.val (Val.ofBool vr.truthy), st2)
          | other => other
        else .ok (.val .fls, st1)
      | other => other
    | .or l r =>
      match evalFS bodies cur fuel l st with
      | .ok (.val vl, st1) =>
        if vl.truthy then .ok (.val .tru, st1)
        else match evalFS bodies cur fuel r st1 with
          | .ok (.val vr, st2) => .ok (.val (Val.ofBool vr.truthy), st2)
          | other => other
      | other => other
    | .seq a b =>
      match evalFS bodies cur fuel a st with
      | .ok (.val va, st1) => evalFS bodies cur fuel b { st1 with inp := va }
      | other => other
    | .sideAfter x body =>
      match evalFS bodies cur fuel x st with
      | .ok (.val vx, st1) =>
        -- the block sees the current `$`; whatever it does to `$` and its value are discarded
        match evalFS bodies cur fuel body st1 with
        | .ok (.val _, st2) => .ok (.val vx, { st2 with inp := st1.inp })
        | other => other
      | other => other
    | .nested id => .ok (.val (.expr id), st)
    | .emptyNested => .ok (.val (.expr cur), st)
    | .reapply x =>
      match evalFS bodies cur fuel x st with
      | .ok (.val v, st1) => .ok (.restart v, st1)
      | other => other
    | .prefixApply sym x =>
      match resolveVal fo host st sym with
      | .ok (vf, st1) =>
        match evalFS bodies cur fuel x st1 with
        | .ok (.val vx, st2) => applyValsS bodies cur fuel .apply true vf vx st2
        | other => other
      | .err e => .err e
      | .fuelOut => .fuelOut
    | .suffixApply x sym =>
      match resolveVal fo host st sym with
      | .ok (vf, st1) =>
        match evalFS bodies cur fuel x st1 with
        | .ok (.val vx, st2) => applyValsS bodies cur fuel .apply true vf vx st2
        | other => other
      | .err e => .err e
      | .fuelOut => .fuelOut
    | .infixApply a sym b =>
      match resolveVal fo host st sym with
      | .ok (vf, st1) =>
        match evalFS bodies cur fuel a st1 with
        | .ok (.val va, st2) =>
          match evalFS bodies cur fuel b st2 with
          | .ok (.val vb, st3) => applyValsS bodies cur fuel .apply true vf (.list [va, vb]) st3
          | other => other
        | other => other
      | .err e => .err e
      | .fuelOut => .fuelOut

/-- list items left to right; a restart inside an item restarts the enclosing body -/
def evalListS (bodies : List (Nat × Expr F)) (cur : Nat) : Nat → List (Expr F) → St F → List (Val F) →
    Out ((List (Val F) ⊕ Val F) × St F)
  | 0, _, _, _ => .fuelOut
  | _ + 1, [], st, acc => .ok (.inl acc.reverse, st)
  | fuel + 1, x :: xs, st, acc =>
    match evalFS bodies cur fuel x st with
    | .ok (.val v, st1) => evalListS bodies cur fuel xs st1 (v :: acc)
    | .ok (.restart v, st1) => .ok (.inr v, st1)
    | .err e => .err e
    | .fuelOut => .fuelOut

/-- else-chain: conditions in order, at most one arm; no arm matches and there is no final expression: an error -/
def evalChainS (bodies : List (Nat × Expr F)) (cur : Nat) : Nat → List (Bool × Expr F × Expr F) → Option (Expr F) → St F →
    Out (Res F × St F)
  | 0, _, _, _ => .fuelOut
  | fuel + 1, [], final, st =>
    match final with
    | some e => evalFS bodies cur fuel e st
    | none => .err .state                 -- STRICT: the missing fall-through is reached
  | fuel + 1, (onTrue, c, t) :: rest, final, st =>
    match evalFS bodies cur fuel c st with
    | .ok (.val vc, st1) =>
      if vc.truthy == onTrue then evalFS bodies cur fuel t st1
      else evalChainS bodies cur fuel rest final st1
    | other => other

/-- apply `f` to `x`: an expression value runs its body in a new frame with `$ := x` -/
def applyValsS (bodies : List (Nat × Expr F)) (cur : Nat) : Nat → Instruction → Bool → Val F → Val F → St F →
    Out (Res F × St F)
  | 0, _, _, _, _, _ => .fuelOut
  | fuel + 1, instr, useRight, f, x, st =>
    match applyKind fo instr useRight f x with
    | .enter j input =>
      match lookupBody bodies j with
      | none => .err .state
      | some body =>
        match evalBodyS bodies j fuel body { st with inp := input } with
        | .ok (v, st1) => .ok (.val v, { st1 with inp := st.inp })
        | .err e => .err e
        | .fuelOut => .fuelOut
    | .external n arg =>
      let st' := { st with trace := HostCall.apply n arg :: st.trace }
      match host.apply n arg with
      | some v => .ok (.val v, st')
      | none => .ok (.val .unit, st')
    | .out o => match settle host st o with
      | .ok (v, st1) => .ok (.val v, st1)
      | .err e => .err e
      | .fuelOut => .fuelOut

/-- run a body to its value, restarting it on `^~` (no new frame, no growth) -/
def evalBodyS (bodies : List (Nat × Expr F)) (cur : Nat) : Nat → Expr F → St F → Out (Val F × St F)
  | 0, _, _ => .fuelOut
  | fuel + 1, body, st =>
    match evalFS bodies cur fuel body st with
    | .ok (.val v, st1) => .ok (v, st1)
    | .ok (.restart v, st1) => evalBodyS bodies cur fuel body { st1 with inp := v }
    | .err e => .err e
    | .fuelOut => .fuelOut
end

/-- whole program, strictly -/
def evalProgramS (fuel : Nat) (p : Program F) (input : Val F) : Out (Val F × St F) :=
  evalBodyS fo host p.bodies 0 fuel p.main { inp := input, trace := [] }

end Garnish.Spec
