/-
A coverage predicate that holds in every reachable state holds along every run (`runOKG_of_reach`); groups 0–1: the side
conditions are the depth conditions plus "no custom" (`machOKOn1_of`, `runOKOn1_of_balanced`).
-/
import Garnish.Lemmas.RuntimeOnBalanced
set_option linter.unusedSimpArgs false
set_option linter.unusedVariables false
namespace Garnish.Lemmas.Runtime.On
open Garnish Gen Garnish.Abs Garnish.Model.Equality Garnish.Model.Runtime Garnish.Lemmas.Runtime
open Garnish.Props.C06

variable {F : Type} {P : Prog F} {host : Host F} {fo : FloatOps F}

/-- a coverage predicate that holds in every reachable state holds along every run -/
theorem runOKG_of_reach (ok : MState F → Instruction → Option Nat → Prop) (entries : List Nat) (s0 : MState F)
    (hok : ∀ s, ReachK fo host P entries s0 s → ∀ i o, P.instrs[s.pc]? = some (i, o) → ok s i o)
    (hcalls : ∀ s s', ReachK fo host P entries s0 s → Abs.step fo host P s = .running s' →
      s'.frames.length = s.frames.length + 1 → s'.pc ∈ entries) :
    ∀ (n : Nat) (s : MState F), ReachK fo host P entries s0 s → RunOKG fo ok host P n s
  | 0, _, _ => trivial
  | n + 1, s, hr => ⟨fun i o hf => hok s hr i o hf,
      fun m' hst => runOKG_of_reach ok entries s0 hok hcalls n m' (.snoc hr hst (hcalls s m' hr hst))⟩

/-- no `custom` value on top level of the two stacks -/
def NoCustomTop (m : MState F) : Prop := (∀ v ∈ m.regs, v ≠ .custom) ∧ ∀ v ∈ m.vals, v ≠ .custom

/-- the instructions of coverage groups 0 and 1 (no call, no look-up, no comparison) -/
def inG1 : Instruction → Bool
  | .invalid | .put | .putValue | .pushValue | .updateValue | .jumpTo | .jumpIfTrue | .jumpIfFalse | .endExpression
  | .add | .subtract | .multiply | .divide | .integerDivide | .power | .remainder | .bitwiseAnd | .bitwiseOr
  | .bitwiseXor | .bitwiseShiftLeft | .bitwiseShiftRight | .xor | .opposite | .absoluteValue | .bitwiseNot | .not
  | .tis | .and | .or => true
  | _ => false

/-- groups 0–1: the side conditions are the depth conditions plus "no `custom` on the stacks / among the constants" -/
theorem machOKOn1_of {m : MState F} {i : Instruction} {o : Option Nat} (hin : inG1 i = true)
    (hconst : ∀ (k : Nat) (v : Val F), P.consts[k]? = some v → v ≠ Val.custom) (hnc : NoCustomTop m)
    (hdeep : MDeepN m (arityOf i o)) (hend : i = .endExpression → m.frames = [] → ∃ r, m.regs = [r]) :
    MachOKOn1 P m i o := by
  have top : ∀ r rs, m.regs = r :: rs → r ≠ .custom := fun r rs h => hnc.1 r (by rw [h]; exact List.mem_cons_self ..)
  have one : arityOf i o = 1 → ∀ r rs, m.regs = r :: rs → MDeep m rs := fun h1 r rs hr => (h1 ▸ hdeep).one hr
  cases i <;> first
    | (cases hin; done)
    | exact hdeep
    | trivial
    | (intro k v hk hc; exact hconst k v hc)
    | (intro v vs h; exact hnc.2 v (by rw [h]; exact List.mem_cons_self ..))
    | (intro r rs h; exact ⟨top r rs h, one rfl r rs h⟩)
    | (intro r rs h; exact one rfl r rs h)
    | (intro r rs h
       exact ⟨top r rs h, one rfl r rs h, fun hf => by
         obtain ⟨x, hx⟩ := hend rfl hf
         rw [hx] at h; cases h; rfl⟩)

/-- **static discharge of the run-level side conditions**, groups 0–1: for a program the depth analysis accepts
(`C06.absDepth`; every `balancedB` source program compiles to one, `C06_text_balanced`) that uses only the instructions
of groups 0–1 and has no `custom` constant, `RunOKG (MachOKOn1 P)` holds along every run from the entry whose states
have no `custom` value on top level of the two stacks -/
theorem runOKOn1_of_balanced {entry : Nat} {d : Array (Option Nat)} (h : absDepth P entry = some d)
    (hentry : entry < P.instrs.size) (vals : List (Val F)) (tr : List (HostCall F))
    (hinstr : ∀ (pc : Nat) (i : Instruction) (o : Option Nat), P.instrs[pc]? = some (i, o) → inG1 i = true)
    (hconst : ∀ (k : Nat) (v : Val F), P.consts[k]? = some v → v ≠ Val.custom)
    (hnc : ∀ s, ReachK fo host P (entry :: exprEntries P) ⟨entry, [], vals, [], tr⟩ s → NoCustomTop s)
    (hcalls : ∀ s s', ReachK fo host P (entry :: exprEntries P) ⟨entry, [], vals, [], tr⟩ s →
      Abs.step fo host P s = .running s' → s'.frames.length = s.frames.length + 1 → s'.pc ∈ entry :: exprEntries P)
    (n : Nat) : RunOKG fo (MachOKOn1 P) host P n ⟨entry, [], vals, [], tr⟩ :=
  runOKG_of_reach (MachOKOn1 P) (entry :: exprEntries P) _
    (fun s hr i o hf => by
      obtain ⟨hd, he⟩ := deep_of_balanced (fo := fo) (host := host) h hentry vals tr hr hf
      exact machOKOn1_of (hinstr _ i o hf) hconst (hnc s hr) hd he)
    hcalls n _ (.refl _)

end Garnish.Lemmas.Runtime.On
