/-
The in-order walk of the reference tree is exactly the significant tokens, in source order (generated table).
-/
import Garnish.Lemmas.RefParse

namespace Garnish.Spec
open Garnish Garnish.Gen Garnish.Model.Parser

/-! ### the in-order walk of the reference tree = the significant tokens, in source order (generated table) -/

theorem absorb_inorderSig (tbl : Table) (q : Nat) (rtl : Bool) (d : Definition) (k : Nat) :
    ∀ (t t' : RTree), absorb tbl q rtl d k t = some t' →
      t'.inorderSig = t.inorderSig ++ (if d == .list then [] else [k]) ∧ openSpine t' = true ∧ t'.isNil = false := by
  intro t
  induction t with
  | nil => intro t' h; simp [absorb] at h
  | group gd gk inner _ => intro t' h; simp [absorb] at h
  | node l a ka r _ ihr =>
    intro t' h
    simp only [absorb] at h
    cases hr : absorb tbl q rtl d k r with
    | some r' =>
      simp only [hr, Option.some.injEq] at h
      subst h
      obtain ⟨h1, h2, h3⟩ := ihr r' hr
      refine ⟨by simp [RTree.inorderSig, h1], ?_, rfl⟩
      simp [openSpine, h3, h2]
    | none =>
      simp only [hr] at h
      cases hp : tbl.prio a with
      | none => simp [hp] at h
      | some pa =>
        simp only [hp] at h
        split at h
        · simp only [Option.some.injEq] at h
          subst h
          exact ⟨by simp [RTree.inorderSig], by simp [openSpine, RTree.isNil], rfl⟩
        · simp at h

theorem attach_inorderSig (tbl : Table) (q : Nat) (rtl : Bool) (d : Definition) (k : Nat) (t : RTree) :
    (attach tbl q rtl d k t).inorderSig = t.inorderSig ++ (if d == .list then [] else [k]) ∧
      openSpine (attach tbl q rtl d k t) = true := by
  unfold attach
  cases h : absorb tbl q rtl d k t with
  | some t' => exact ⟨(absorb_inorderSig tbl q rtl d k t t' h).1, (absorb_inorderSig tbl q rtl d k t t' h).2.1⟩
  | none => exact ⟨by simp [RTree.inorderSig], by simp [openSpine, RTree.isNil]⟩

theorem asProperty_inorderSig (x : RTree) : (asProperty x).inorderSig = x.inorderSig := by
  unfold asProperty
  split <;> simp [RTree.inorderSig]

theorem plug_inorderSig : ∀ (t x : RTree), openSpine t = true → (plug t x).inorderSig = t.inorderSig ++ x.inorderSig := by
  intro t
  induction t with
  | nil => intro x _; simp [plug, RTree.inorderSig]
  | group gd gk inner _ => intro x h; simp [openSpine] at h
  | node l a ka r _ ihr =>
    intro x h
    simp only [plug]
    cases hr : r.isNil with
    | true =>
      have : r = .nil := by cases r <;> simp_all [RTree.isNil]
      subst this
      have hx : (if a == Definition.access then asProperty x else x).inorderSig = x.inorderSig := by
        split <;> simp [asProperty_inorderSig]
      simp only [if_true, RTree.inorderSig, hx]
      simp
    | false =>
      simp only [openSpine, hr] at h
      simp only [Bool.false_eq_true, if_false, RTree.inorderSig, ihr x h]
      simp

theorem plug_leaf_open : ∀ (t : RTree) (d : Definition) (k : Nat), openSpine t = true →
    openSpine (plug t (.node .nil d k .nil)) = true := by
  intro t
  induction t with
  | nil => intro d k _; simp [plug, openSpine, RTree.isNil]
  | group gd gk inner _ => intro d k h; simp [openSpine] at h
  | node l a ka r _ ihr =>
    intro d k h
    simp only [plug]
    cases hr : r.isNil with
    | true =>
      simp only [if_true]
      split
      · unfold asProperty; split <;> simp [openSpine, RTree.isNil]
      · simp [openSpine, RTree.isNil]
    | false =>
      simp only [openSpine, hr] at h
      simp only [Bool.false_eq_true, if_false, openSpine, ihr d k h]
      simp

/-- what the scan of `significant` does with a token, by the syntactic class the generated table gives it -/
theorem gen_class (tt : TokenType) :
    match (getDefinition tt).2 with
    | .whitespace | .annotation => isFiller tt = true
    | .value | .identifier | .unaryPrefix | .binaryLeftToRight | .binaryRightToLeft | .unarySuffix
    | .optionalBinaryLeftToRight =>
      isFiller tt = false ∧ isCloser tt = false ∧ openerOf tt = none ∧ isSeparator tt = false ∧
        ((getDefinition tt).1 == Definition.list) = false
    | .startGrouping =>
      isFiller tt = false ∧ isCloser tt = false ∧
        (((getDefinition tt).1 = .group ∧ openerOf tt = some .group) ∨
         ((getDefinition tt).1 = .nestedExpression ∧ openerOf tt = some .expr))
    | .endGrouping => isFiller tt = false ∧ isCloser tt = true
    | .subexpression =>
      isFiller tt = false ∧ isCloser tt = false ∧ openerOf tt = none ∧ isSeparator tt = true ∧
        ((getDefinition tt).1 == Definition.list) = false
    | _ => True := by
  cases tt <;> simp only [getDefinition] <;> decide

def bracketOfDef (d : Definition) : Bracket := if d == .group then .group else .expr

/-- the bracket stack of the scan that corresponds to the open frames -/
def brackets (ctx : Option (Definition × Nat)) : List Frame → List Bracket
  | [] => (ctx.map (fun c => bracketOfDef c.1)).toList
  | g :: rest => (ctx.map (fun c => bracketOfDef c.1)).toList ++ brackets g.ctx rest

/-- token positions collected so far, outermost bracket first -/
def pending (ctx : Option (Definition × Nat)) (cur : RTree) : List Frame → List Nat
  | [] => cur.inorderSig
  | g :: rest => pending g.ctx g.cur rest ++ (ctx.map (fun c => c.2)).toList ++ cur.inorderSig

def StackOK (ctx : Option (Definition × Nat)) : List Frame → Prop
  | [] => True
  | g :: rest => ctx.isSome = true ∧ openSpine g.cur = true ∧ StackOK g.ctx rest

def needOpen (f : Frame) : Prop := f.last = .operand ∨ f.last = .suffix ∨ openSpine f.cur = true

def red (p : PrevTok) : Bool := p == .sep || p == .openExpr

theorem pending_append (ctx : Option (Definition × Nat)) (cur cur' : RTree) (extra : List Nat) (stack : List Frame)
    (h : cur'.inorderSig = cur.inorderSig ++ extra) : pending ctx cur' stack = pending ctx cur stack ++ extra := by
  cases stack <;> simp [pending, h, List.append_assoc]

theorem beforeOperand_sig (f f1 : Frame) (pos : Nat) (h : beforeOperand Table.gen f pos = .ok f1) (hn : needOpen f) :
    f1.ctx = f.ctx ∧ f1.cur.inorderSig = f.cur.inorderSig ∧ openSpine f1.cur = true := by
  unfold beforeOperand at h
  cases hl : f.last <;> simp only [hl] at h
  case suffix => cases h
  case operand =>
    split at h
    · split at h
      · rename_i q hq
        injection h with h; subst h
        have := attach_inorderSig Table.gen q false .list (pos - 1) f.cur
        exact ⟨rfl, by simpa using this.1, this.2⟩
      · cases h
    · cases h
  all_goals
    injection h with h; subst h
    refine ⟨rfl, rfl, ?_⟩
    rcases hn with hn | hn | hn
    · rw [hl] at hn; cases hn
    · rw [hl] at hn; cases hn
    · exact hn

theorem head_brackets (ctx : Option (Definition × Nat)) (stack : List Frame) (h : StackOK ctx stack) (f : Frame)
    (hf : f.ctx = ctx) : ((brackets ctx stack).head? == some Bracket.group) = f.inGroup := by
  unfold Frame.inGroup
  rw [hf]
  cases ctx with
  | none =>
    cases stack with
    | nil => simp [brackets]
    | cons g rest => simp [StackOK] at h
  | some c =>
    obtain ⟨d, k⟩ := c
    cases stack <;> (simp only [brackets, Option.map, Option.toList, List.cons_append, List.nil_append, List.head?]; cases d <;> rfl)

theorem refStep_sig (f : Frame) (stack : List Frame) (pos : Nat) (t : PToken) (rest : List PToken) (f' : Frame)
    (stack' : List Frame) (prev : PrevTok)
    (h : refStep Table.gen f stack pos t rest = .ok (f', stack')) (hn : needOpen f) (hs : StackOK f.ctx stack)
    (hp : red prev = f.prevSep) :
    ∃ prev', needOpen f' ∧ StackOK f'.ctx stack' ∧ red prev' = f'.prevSep ∧
      pending f.ctx f.cur stack ++ significantScan (t :: rest) pos (brackets f.ctx stack) prev =
        pending f'.ctx f'.cur stack' ++ significantScan rest (pos + 1) (brackets f'.ctx stack') prev' := by
  unfold refStep at h
  have hc := gen_class t.type
  have hdef : Table.gen.define t.type = getDefinition t.type := rfl
  rw [hdef] at h
  generalize getDefinition t.type = ds at h hc
  obtain ⟨d, s⟩ := ds
  simp only at h hc
  cases s <;> simp only at h hc
  case none => cases h
  case annotation =>
    injection h with h; injection h with h1 h2; subst h1; subst h2
    exact ⟨prev, hn, hs, hp, by simp [significantScan, hc]⟩
  case whitespace =>
    injection h with h; injection h with h1 h2; subst h1; subst h2
    exact ⟨prev, hn, hs, hp, by simp [significantScan, hc]⟩
  case value =>
    obtain ⟨c1, c2, c3, c4, c5⟩ := hc
    split at h
    · cases h
    · obtain ⟨f1, hb, h⟩ := bind_eq_ok h
      injection h with h; injection h with h1 h2; subst h1; subst h2
      obtain ⟨e1, e2, e3⟩ := beforeOperand_sig f f1 pos hb hn
      refine ⟨.other, Or.inl rfl, by simpa [e1] using hs, rfl, ?_⟩
      have hsig : (plug f1.cur (RTree.node .nil d pos .nil)).inorderSig = f.cur.inorderSig ++ [pos] := by
        rw [plug_inorderSig _ _ e3, e2]; simp [RTree.inorderSig, c5]
      simp only [e1]
      rw [pending_append f.ctx f.cur _ [pos] stack hsig]
      simp [significantScan, c1, c2, c3, c4]
  case identifier =>
    obtain ⟨c1, c2, c3, c4, c5⟩ := hc
    split at h
    · cases h
    · obtain ⟨f1, hb, h⟩ := bind_eq_ok h
      injection h with h; injection h with h1 h2; subst h1; subst h2
      obtain ⟨e1, e2, e3⟩ := beforeOperand_sig f f1 pos hb hn
      refine ⟨.other, Or.inl rfl, by simpa [e1] using hs, rfl, ?_⟩
      have hsig : (plug f1.cur (RTree.node .nil d pos .nil)).inorderSig = f.cur.inorderSig ++ [pos] := by
        rw [plug_inorderSig _ _ e3, e2]; simp [RTree.inorderSig, c5]
      simp only [e1]
      rw [pending_append f.ctx f.cur _ [pos] stack hsig]
      simp [significantScan, c1, c2, c3, c4]
  case unaryPrefix =>
    obtain ⟨c1, c2, c3, c4, c5⟩ := hc
    obtain ⟨f1, hb, h⟩ := bind_eq_ok h
    injection h with h; injection h with h1 h2; subst h1; subst h2
    obtain ⟨e1, e2, e3⟩ := beforeOperand_sig f f1 pos hb hn
    refine ⟨.other, Or.inr (Or.inr (plug_leaf_open _ _ _ e3)), by simpa [e1] using hs, rfl, ?_⟩
    have hsig : (plug f1.cur (RTree.node .nil d pos .nil)).inorderSig = f.cur.inorderSig ++ [pos] := by
      rw [plug_inorderSig _ _ e3, e2]; simp [RTree.inorderSig, c5]
    simp only [e1]
    rw [pending_append f.ctx f.cur _ [pos] stack hsig]
    simp [significantScan, c1, c2, c3, c4]
  case startGrouping =>
    obtain ⟨c1, c2, c3⟩ := hc
    obtain ⟨f1, hb, h⟩ := bind_eq_ok h
    injection h with h; injection h with h1 h2; subst h1; subst h2
    obtain ⟨e1, e2, e3⟩ := beforeOperand_sig f f1 pos hb hn
    rcases c3 with ⟨hd, ho⟩ | ⟨hd, ho⟩
    · subst hd
      refine ⟨.other, Or.inr (Or.inr rfl), ⟨rfl, e3, by simpa [e1] using hs⟩, rfl, ?_⟩
      have this : pending f.ctx f1.cur stack = pending f.ctx f.cur stack :=
        (pending_append f.ctx f.cur f1.cur [] stack (by simp [e2])).trans (by simp)
      simp [significantScan, c1, c2, ho, pending, brackets, this, e1, bracketOfDef, RTree.inorderSig]
    · subst hd
      refine ⟨.openExpr, Or.inr (Or.inr rfl), ⟨rfl, e3, by simpa [e1] using hs⟩, rfl, ?_⟩
      have this : pending f.ctx f1.cur stack = pending f.ctx f.cur stack :=
        (pending_append f.ctx f.cur f1.cur [] stack (by simp [e2])).trans (by simp)
      simp [significantScan, c1, c2, ho, pending, brackets, this, e1, bracketOfDef, RTree.inorderSig]
  case endGrouping =>
    obtain ⟨c1, c2⟩ := hc
    split at h
    · rename_i gd gpos parent stack2 hctx
      split at h
      · cases h
      · split at h
        · cases h
        · injection h with h; injection h with h1 h2; subst h1; subst h2
          obtain ⟨_, hop, hrest⟩ := hs
          refine ⟨.other, Or.inl rfl, hrest, rfl, ?_⟩
          have hsig : (plug parent.cur (RTree.group gd gpos f.cur)).inorderSig
              = parent.cur.inorderSig ++ (gpos :: f.cur.inorderSig) := by
            rw [plug_inorderSig _ _ hop]; simp [RTree.inorderSig]
          simp only
          rw [pending_append parent.ctx parent.cur _ _ stack2 hsig, hctx]
          cases stack2 <;> simp [significantScan, c1, c2, pending, brackets, List.append_assoc]
    · cases h
  case startSideEffect => cases h
  case endSideEffect => cases h
  case subexpression =>
    obtain ⟨c1, c2, c3, c4, c5⟩ := hc
    have hhead := head_brackets f.ctx stack hs f rfl
    split at h
    · rename_i hg
      injection h with h; injection h with h1 h2; subst h1; subst h2
      refine ⟨prev, hn, hs, hp, ?_⟩
      simp [significantScan, c1, c2, c3, c4, hhead, hg]
    · rename_i hg
      split at h
      · rename_i hred
        injection h with h; injection h with h1 h2; subst h1; subst h2
        refine ⟨.sep, hn, hs, rfl, ?_⟩
        have hred' : (prev == PrevTok.sep || prev == PrevTok.openExpr ||
            (t.type == TokenType.subexpression && closerFollows rest)) = true := by
          have : red prev = (prev == PrevTok.sep || prev == PrevTok.openExpr) := rfl
          rw [← this, hp]; exact hred
        simp [significantScan, c1, c2, c3, c4, hhead, hg, hred']
      · rename_i hred
        split at h
        · cases h
        · split at h
          · cases h
          · rename_i q hq
            injection h with h; injection h with h1 h2; subst h1; subst h2
            have hat := attach_inorderSig Table.gen q false d pos f.cur
            refine ⟨.sep, Or.inr (Or.inr hat.2), hs, rfl, ?_⟩
            have hred' : (prev == PrevTok.sep || prev == PrevTok.openExpr ||
                (t.type == TokenType.subexpression && closerFollows rest)) = false := by
              have : red prev = (prev == PrevTok.sep || prev == PrevTok.openExpr) := rfl
              rw [← this, hp]; simpa using hred
            have hsig : (attach Table.gen q false d pos f.cur).inorderSig = f.cur.inorderSig ++ [pos] := by
              rw [hat.1]; simp [c5]
            simp only
            rw [pending_append f.ctx f.cur _ [pos] stack hsig]
            simp [significantScan, c1, c2, c3, c4, hhead, hg, hred']
  all_goals
    obtain ⟨c1, c2, c3, c4, c5⟩ := hc
    split at h
    · cases h
    · rename_i q hq
      split at h
      · cases h
      · injection h with h; injection h with h1 h2; subst h1; subst h2
        have hat := fun rtl => attach_inorderSig Table.gen q rtl d pos f.cur
        refine ⟨.other, Or.inr (Or.inr (hat _).2), hs, rfl, ?_⟩
        have hsig : ∀ rtl, (attach Table.gen q rtl d pos f.cur).inorderSig = f.cur.inorderSig ++ [pos] := by
          intro rtl; rw [(hat rtl).1]; simp [c5]
        simp only
        rw [pending_append f.ctx f.cur _ [pos] stack (hsig _)]
        simp [significantScan, c1, c2, c3, c4]

theorem refLoop_sig : ∀ (toks : List PToken) (f : Frame) (stack : List Frame) (pos : Nat) (t : RTree) (prev : PrevTok),
    needOpen f → StackOK f.ctx stack → red prev = f.prevSep → refLoop Table.gen f stack pos toks = .ok t →
      t.inorderSig = pending f.ctx f.cur stack ++ significantScan toks pos (brackets f.ctx stack) prev := by
  intro toks
  induction toks with
  | nil =>
    intro f stack pos t prev _ _ _ h
    unfold refLoop at h
    split at h
    · cases h
    · rename_i hst
      split at h
      · cases h
      · injection h with h; subst h
        have : stack = [] := by cases stack <;> simp_all
        subst this
        simp [pending, significantScan]
  | cons tk rest ih =>
    intro f stack pos t prev hn hs hp h
    unfold refLoop at h
    obtain ⟨⟨f', stack'⟩, hstep, h⟩ := bind_eq_ok h
    obtain ⟨prev', hn', hs', hp', heq⟩ := refStep_sig f stack pos tk rest f' stack' prev hstep hn hs hp
    rw [heq]
    exact ih f' stack' (pos + 1) t prev' hn' hs' hp' h

/-- **the in-order walk of the reference tree is exactly the significant tokens, in source order** -/
theorem refParse_inorder (toks : List PToken) (t : RTree) (h : refParse Table.gen toks = .ok t) :
    t.inorderSig = significant toks := by
  unfold refParse at h
  unfold significant
  simp only at h ⊢
  split at h
  · rename_i hge
    injection h with h; subst h
    simp [hge, RTree.inorderSig]
  · rename_i hge
    simp only [hge, if_false]
    have := refLoop_sig _ Frame.top [] _ t .start (Or.inr (Or.inr rfl)) trivial rfl h
    simpa [pending, brackets, Frame.top, RTree.inorderSig] using this

end Garnish.Spec
