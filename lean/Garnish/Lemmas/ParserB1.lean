/-
Brackets, part 1: the parent walk of `parse_token` inside an open bracket (`under_group = some g`: the walk stops at the
bracket node at the latest — `is_our_group`), and the node part `NInv` of the frame-local invariant (the tokens of the
innermost open bracket, or of the whole input, processed so far form the tree `E` hanging below `p`; the frames of the
outer brackets are only known to stay untouched).
-/
import Garnish.Lemmas.ParserStepsG3

namespace Garnish.Spec
open Garnish Garnish.Gen Garnish.Model.Parser

/-- a parent chain that ends below the bracket node `g` -/
def ChainTo (nodes : Array ParseNode) (g : Nat) : List Nat → Prop
  | [] => True
  | x :: rest =>
    (∃ n p, nodes[x]? = some n ∧ priority n.definition = some p ∧ n.parent = some (rest.head?.getD g)) ∧ x ≠ g ∧
      ChainTo nodes g rest

/-- inside the open bracket `g` the walk returns what `walkSpec` says on the chain below `g`, and stops at `g` otherwise -/
theorem walkLoop_chain_grp (nodes : Array ParseNode) (q : Nat) (rtl : Bool) (g : Nat) (G : ParseNode) (pg : Nat)
    (hG : nodes[g]? = some G) (hgl : G.definition.isGroupLike = true) (hpg : priority G.definition = some pg) :
    ∀ (c : List Nat) (fuel count : Nat) (tl : Option Nat), ChainTo nodes g c → count + c.length + 1 ≤ nodes.size →
      c.length + 1 ≤ fuel →
      walkLoop nodes q (some g) rtl fuel count tl (some (c.head?.getD g)) =
        .ok (match walkSpec nodes q rtl tl c with
             | (tl', some x) => (tl', some x)
             | (tl', none) => (tl', some g)) := by
  intro c
  induction c with
  | nil =>
    intro fuel count tl _ _ hfuel
    cases fuel with
    | zero => simp at hfuel
    | succ fuel =>
      unfold walkLoop
      simp [hG, hpg, hgl, walkSpec]
  | cons x rest ih =>
    intro fuel count tl hc hcount hfuel
    obtain ⟨⟨n, p, hn, hp, hpar⟩, hxg, hrest⟩ := hc
    cases fuel with
    | zero => simp at hfuel
    | succ fuel =>
      simp only [List.length_cons] at hcount hfuel
      unfold walkLoop
      have hne : (g == x) = false := by rw [beq_eq_false_iff_ne]; exact fun e => hxg e.symm
      simp only [List.head?_cons, Option.getD_some, hn, hp, walkSpec, prioAt, hne, Bool.and_false, Bool.or_false]
      split
      · rfl
      · have hle : ¬ (count + 1 > nodes.size) := by omega
        simp only [hle, if_false, hpar]
        exact ih fuel (count + 1) (some x) hrest (by omega) (by omega)

theorem chainTo_of_tree {nodes : Array ParseNode} (hp : AllPrio nodes) (g : Nat) {p link : Option Nat} {t : Tree}
    (h : IsTreeAt nodes p link t) (hg : g ∉ t.inorder) :
    ∀ above : List Nat, ChainTo nodes g above → p = some (above.head?.getD g) → ChainTo nodes g (rspineUp t ++ above) := by
  induction h with
  | nil p => intro above hc _; simpa [rspineUp] using hc
  | node p i nd l r hn hpar _ hr _ ihr =>
    intro above hc hpa
    simp only [rspineUp, List.append_assoc, List.singleton_append]
    apply ihr (fun hm => hg (by simp [Tree.inorder, hm])) (i :: above)
    · obtain ⟨q, hq⟩ := hp i nd hn
      exact ⟨⟨nd, q, hn, hq, by rw [hpar, hpa]⟩, fun e => hg (by simp [Tree.inorder, e]), hc⟩
    · rfl

/-- where the tokens processed so far hang: at top level (`p = none`) or below the open bracket node `g` -/
inductive FrameOK (nodes : Array ParseNode) : Option Nat → Option Nat → Nat → Nat → Prop
  | top (re : Nat) : FrameOK nodes none none 0 re
  | bracket (g re : Nat) (G : ParseNode) (pg : Nat) :
      nodes[g]? = some G → G.definition.isGroupLike = true → priority G.definition = some pg → G.right = some re →
      FrameOK nodes (some g) (some g) (g + 1) re

/-- `l` is strictly increasing with all elements in `[a, b)` (the in-order index list of a frame's tree: node ids come in
    token order; ids of unlinked nodes may be missing) -/
def SortedIn (a b : Nat) (l : List Nat) : Prop := l.Pairwise (· < ·) ∧ ∀ j ∈ l, a ≤ j ∧ j < b

theorem SortedIn.nodup {a b : Nat} {l : List Nat} (h : SortedIn a b l) : l.Nodup :=
  h.1.imp (fun hlt => Nat.ne_of_lt hlt)

theorem SortedIn.length_le {a b : Nat} : ∀ {l : List Nat}, SortedIn a b l → l.length + a ≤ b ∨ l = []
  | [], _ => Or.inr rfl
  | x :: l, h => by
    left
    have hx := h.2 x (List.mem_cons_self ..)
    have htail : SortedIn (x + 1) b l := by
      refine ⟨(List.pairwise_cons.mp h.1).2, fun j hj => ⟨?_, (h.2 j (List.mem_cons_of_mem _ hj)).2⟩⟩
      exact (List.pairwise_cons.mp h.1).1 j hj
    rcases htail.length_le with h' | h'
    · simp only [List.length_cons]; omega
    · subst h'; simp only [List.length_cons, List.length_nil]; omega

theorem SortedIn.length_le' {a b : Nat} {l : List Nat} (h : SortedIn a b l) (hab : a ≤ b) : l.length + a ≤ b := by
  rcases h.length_le with h' | h'
  · exact h'
  · subst h'; simpa using hab

theorem SortedIn.mono {a b a' b' : Nat} {l : List Nat} (h : SortedIn a b l) (ha : a' ≤ a) (hb : b ≤ b') :
    SortedIn a' b' l :=
  ⟨h.1, fun j hj => ⟨Nat.le_trans ha (h.2 j hj).1, Nat.lt_of_lt_of_le (h.2 j hj).2 hb⟩⟩

theorem sortedIn_range' (a k b : Nat) (h : a + k ≤ b) : SortedIn a b (List.range' a k) := by
  refine ⟨List.pairwise_lt_range', fun j hj => ?_⟩
  rw [List.mem_range'_1] at hj
  omega

/-- `l1` below `n`, then `n`, then `l2` above `n` -/
theorem SortedIn.append_cons {a n b : Nat} {l1 l2 : List Nat} (h1 : SortedIn a n l1) (h2 : SortedIn (n + 1) b l2)
    (han : a ≤ n) (hnb : n < b) : SortedIn a b (l1 ++ n :: l2) := by
  refine ⟨?_, ?_⟩
  · rw [List.pairwise_append]
    refine ⟨h1.1, ?_, ?_⟩
    · rw [List.pairwise_cons]
      exact ⟨fun j hj => by have := (h2.2 j hj).1; omega, h2.1⟩
    · intro x hx y hy
      have hxn := (h1.2 x hx).2
      rcases List.mem_cons.mp hy with e | e
      · omega
      · have := (h2.2 y e).1; omega
  · intro j hj
    rcases List.mem_append.mp hj with e | e
    · have := h1.2 j e; omega
    · rcases List.mem_cons.mp e with e | e
      · omega
      · have := h2.2 j e; omega

/-- **frame-local invariant, node part**: the nodes of the frame (ids from `base`) form the tree `E` (root `re`) hanging
    below `p` (`p = none`: top level; `p = some g`: the open bracket `g = base - 1`); `ug` is `under_group` -/
structure NInv (nodes : Array ParseNode) (ug p : Option Nat) (base : Nat) (E : Tree) (re : Nat) : Prop where
  tree : IsTreeAt nodes p (some re) E
  inord : SortedIn base nodes.size E.inorder
  first : base ∈ E.inorder
  pos : base < nodes.size
  frame : FrameOK nodes ug p base re
  prios : AllPrio nodes

theorem NInv.mem {nodes : Array ParseNode} {ug p : Option Nat} {base : Nat} {E : Tree} {re : Nat}
    (h : NInv nodes ug p base E re) (j : Nat) (hj : j ∈ E.inorder) : base ≤ j ∧ j < nodes.size :=
  h.inord.2 j hj

theorem SInv.toN {st : PState} {T : Tree} {rt : Nat} (h : SInv st T rt) : NInv st.nodes none none 0 T rt :=
  ⟨h.tree, by rw [h.inord, List.range_eq_range']; exact sortedIn_range' 0 _ _ (by omega),
    by rw [h.inord]; exact List.mem_range.mpr h.pos, h.pos, .top rt, h.prios⟩

end Garnish.Spec
