/-
Brackets, part 1: the parent walk of `parse_token` inside an open bracket (`under_group = some g`: the walk stops at the
bracket node at the latest — `is_our_group`), and the node part `NInv` of the frame-local invariant (the tokens of the
innermost open bracket, or of the whole input, processed so far form the tree `E` hanging below `p`; the frames of the
outer brackets are only known to stay untouched).
-/
import Garnish.Lemmas.ParserStepsG3

namespace Garnish.Spec
open Garnish Garnish.Gen Garnish.Model.Parser

/-- a parent chain that ends below the bracket node `g` -/
def ChainTo (nodes : Array ParseNode) (g : Nat) : List Nat → Prop
  | [] => True
  | x :: rest =>
    (∃ n p, nodes[x]? = some n ∧ priority n.definition = some p ∧ n.parent = some (rest.head?.getD g)) ∧ x ≠ g ∧
      ChainTo nodes g rest

/-- inside the open bracket `g` the walk returns what `walkSpec` says on the chain below `g`, and stops at `g` otherwise -/
theorem walkLoop_chain_grp (nodes : Array ParseNode) (q : Nat) (rtl : Bool) (g : Nat) (G : ParseNode) (pg : Nat)
    (hG : nodes[g]? = some G) (hgl : G.definition.isGroupLike = true) (hpg : priority G.definition = some pg) :
    ∀ (c : List Nat) (fuel count : Nat) (tl : Option Nat), ChainTo nodes g c → count + c.length + 1 ≤ nodes.size →
      c.length + 1 ≤ fuel →
      walkLoop nodes q (some g) rtl fuel count tl (some (c.head?.getD g)) =
        .ok (match walkSpec nodes q rtl tl c with
             | (tl', some x) => (tl', some x)
             | (tl', none) => (tl', some g)) := by
  intro c
  induction c with
  | nil =>
    intro fuel count tl _ _ hfuel
    cases fuel with
    | zero => simp at hfuel
    | succ fuel =>
      unfold walkLoop
      simp [hG, hpg, hgl, walkSpec]
  | cons x rest ih =>
    intro fuel count tl hc hcount hfuel
    obtain ⟨⟨n, p, hn, hp, hpar⟩, hxg, hrest⟩ := hc
    cases fuel with
    | zero => simp at hfuel
    | succ fuel =>
      simp only [List.length_cons] at hcount hfuel
      unfold walkLoop
      have hne : (g == x) = false := by rw [beq_eq_false_iff_ne]; exact fun e => hxg e.symm
      simp only [List.head?_cons, Option.getD_some, hn, hp, walkSpec, prioAt, hne, Bool.and_false, Bool.or_false]
      split
      · rfl
      · have hle : ¬ (count + 1 > nodes.size) := by omega
        simp only [hle, if_false, hpar]
        exact ih fuel (count + 1) (some x) hrest (by omega) (by omega)

theorem chainTo_of_tree {nodes : Array ParseNode} (hp : AllPrio nodes) (g : Nat) {p link : Option Nat} {t : Tree}
    (h : IsTreeAt nodes p link t) (hg : g ∉ t.inorder) :
    ∀ above : List Nat, ChainTo nodes g above → p = some (above.head?.getD g) → ChainTo nodes g (rspineUp t ++ above) := by
  induction h with
  | nil p => intro above hc _; simpa [rspineUp] using hc
  | node p i nd l r hn hpar _ hr _ ihr =>
    intro above hc hpa
    simp only [rspineUp, List.append_assoc, List.singleton_append]
    apply ihr (fun hm => hg (by simp [Tree.inorder, hm])) (i :: above)
    · obtain ⟨q, hq⟩ := hp i nd hn
      exact ⟨⟨nd, q, hn, hq, by rw [hpar, hpa]⟩, fun e => hg (by simp [Tree.inorder, e]), hc⟩
    · rfl

/-- where the tokens processed so far hang: at top level (`p = none`) or below the open bracket node `g` -/
inductive FrameOK (nodes : Array ParseNode) : Option Nat → Option Nat → Nat → Nat → Prop
  | top (re : Nat) : FrameOK nodes none none 0 re
  | bracket (g re : Nat) (G : ParseNode) (pg : Nat) :
      nodes[g]? = some G → G.definition.isGroupLike = true → priority G.definition = some pg → G.right = some re →
      FrameOK nodes (some g) (some g) (g + 1) re

/-- **frame-local invariant, node part**: the nodes `base ..` form the tree `E` (root `re`) hanging below `p`
    (`p = none`: top level; `p = some g`: the open bracket `g = base - 1`); `ug` is `under_group` -/
structure NInv (nodes : Array ParseNode) (ug p : Option Nat) (base : Nat) (E : Tree) (re : Nat) : Prop where
  tree : IsTreeAt nodes p (some re) E
  inord : E.inorder = List.range' base (nodes.size - base)
  pos : base < nodes.size
  frame : FrameOK nodes ug p base re
  prios : AllPrio nodes

theorem NInv.mem {nodes : Array ParseNode} {ug p : Option Nat} {base : Nat} {E : Tree} {re : Nat}
    (h : NInv nodes ug p base E re) (j : Nat) : j ∈ E.inorder ↔ base ≤ j ∧ j < nodes.size := by
  rw [h.inord, List.mem_range'_1]
  have := h.pos
  constructor
  · rintro ⟨h1, h2⟩; exact ⟨h1, by omega⟩
  · rintro ⟨h1, h2⟩; exact ⟨h1, by omega⟩

theorem SInv.toN {st : PState} {T : Tree} {rt : Nat} (h : SInv st T rt) : NInv st.nodes none none 0 T rt :=
  ⟨h.tree, by rw [h.inord, List.range_eq_range']; simp, h.pos, .top rt, h.prios⟩

end Garnish.Spec
