/-
The tie between the two builder models, else-chains (3): the final arm, two parts one after the other, inner `ElseJump` nodes.
-/
import Garnish.Lemmas.CompileTreeC2
namespace Garnish.Abs.Tree
open Garnish Garnish.Gen Garnish.Spec Garnish.Abs Garnish.Model.Parser Garnish.Model.Literals Garnish.Model.Build

variable {F : Type} {pf : List Char → Option F} {tree : Array ParseNode} {bodies : List (Nat × Expr F)}

theorem emitArms_append (root cur : Nat) : ∀ (xs ys : List (Bool × Expr F × Expr F)) (s : LState F),
    emitArms root cur (xs ++ ys) s =
      ((emitArms root cur ys (emitArms root cur xs s).1).1, (emitArms root cur xs s).2 ++ (emitArms root cur ys (emitArms root cur xs s).1).2)
  | [], ys, s => by simp [emitArms]
  | (b, c, t) :: xs, ys, s => by
    simp only [List.cons_append, emitArms]
    rw [emitArms_append root cur xs ys]

/-- the final (unconditional) arm of a chain: an ordinary expression whose node does not look at the conditional parent -/
theorem SimArmsF.final {lo hi c : Nat} {fe : Expr F} (hnc : NotCond tree c) (ih : SimT pf tree bodies lo hi c fe) :
    SimArmsF pf tree bodies lo hi c (fun root cur s => (emit root cur fe s, [])) := by
  intro crj root cur top data nodes RS S s tb hsz hc htop htb hdat hcur
  have pre : Pre tree nodes lo hi c cur none (Ex.ofCond (some top)) tb := Pre.child (some top) tb hsz hc (fun _ => hnc)
  obtain ⟨k, data', nodes', RS', newR, st, hk, hd, hrs, hp, done, _⟩ := ih crj root cur data nodes RS S s none _ tb pre hdat hcur
  exact ⟨k, data', nodes', RS', newR, [], st, by simp only [asum_nil]; omega, hd, rfl, hrs, hp,
    DoneA.ofDone done (by simp only [Ival]; omega) htb⟩

/-- two parts of a chain below one `ElseJump` node, both scheduled with `top` as conditional parent: left, then right -/
theorem chain_children {lo hi m l r : Nat} {f1 f2 : Nat → Nat → LState F → LState F × List (Expr F × Nat)}
    (hli : lo ≤ l ∧ l < m) (hri : m + 1 ≤ r ∧ r < hi)
    (ih1 : SimArmsF pf tree bodies lo m l f1) (ih2 : SimArmsF pf tree bodies (m + 1) hi r f2)
    (hmono : ∀ root cur s, cur < s.jumps.size → cur < (f1 root cur s).1.jumps.size)
    (crj root cur top : Nat) (data : BState F) (A : Nodes) (RS S' : Array Nat) (s : LState F) (tb : BuildNode)
    (hsz : A.size = tree.size) (hAl : A[l]? = some (some (mkNode l cur none (Ex.ofCond (some top)))))
    (hAr : A[r]? = some (some (mkNode r cur none (Ex.ofCond (some top)))))
    (htop : (top < lo ∨ hi ≤ top) ∨ top = m) (htb : A[top]? = some (some tb)) (hdat : DataEq data s) (hcur : cur < s.jumps.size) :
    ∃ (k : Nat) (data' : BState F) (C : Nodes) (RS' : Array Nat) (newR : List (RRec F)) (recs : List (ArmRec F)),
      Steps pf tree crj k ⟨data, A, RS, (S'.push r).push l⟩ ⟨data', C, RS', S'⟩ ∧
      k + wsum newR + asum recs ≤ 2 * ((m - lo) + (hi - (m + 1))) ∧
      DataEq data' (f2 root cur (f1 root cur s).1).1 ∧
      (f1 root cur s).2 ++ (f2 root cur (f1 root cur s).1).2 = recs.map (fun a => (a.t, a.j)) ∧
      RS'.toList = RS.toList ++ (newR.map (·.idx)).reverse ∧
      (f2 root cur (f1 root cur s).1).1.pending = newR.map (·.root) ++ s.pending ∧
      DoneA pf tree bodies (fun x => Ival lo m x ∨ Ival (m + 1) hi x) top tb A C newR recs := by
  have ht1 : top < lo ∨ m ≤ top := by omega
  have ht2 : top < m + 1 ∨ hi ≤ top := by omega
  obtain ⟨k1, data1, B, RS1, R1, M1, stB, hk1, hd1, hm1, hrs1, hp1, done1⟩ :=
    ih1 crj root cur top data A RS (S'.push r) s tb hsz hAl ht1 htb hdat hcur
  have hBr : B[r]? = some (some (mkNode r cur none (Ex.ofCond (some top)))) := by
    rw [done1.frame r (by simp only [Ival]; omega) (by omega)]; exact hAr
  obtain ⟨k2, data2, C, RS2, R2, M2, stC, hk2, hd2, hm2, hrs2, hp2, done2⟩ :=
    ih2 crj root cur top data1 B RS1 S' _ _ (by rw [done1.size, hsz]) hBr ht2 done1.top hd1 (hmono root cur s hcur)
  refine ⟨k1 + k2, data2, C, RS2, R2 ++ R1, M1 ++ M2, stB.trans stC,
    by simp only [wsum_append, asum_append]; omega, hd2, by rw [hm1, hm2]; simp, by rw [hrs2, hrs1]; simp,
    by rw [hp2, hp1]; simp, ?_⟩
  exact done1.trans done2 (fun y h1 h2 => by simp only [Ival] at h1 h2; omega)
    ⟨by simp only [Ival]; omega, by simp only [Ival]; omega⟩

/-- the node `m` of an inner `ElseJump` around what its parts did -/
theorem DoneA.wrapM {Inner : Nat → Prop} {m top : Nat} {tb : BuildNode} {N A C : Nodes} {R : List (RRec F)}
    {M : List (ArmRec F)} (h : DoneA pf tree bodies Inner top tb A C R M) (hsz : A.size = N.size)
    (hA : ∀ x, x ≠ m → ¬ Inner x → A[x]? = N[x]?) (hAm : ∃ b, A[m]? = some (some b)) (hm : ¬ Inner m) (hmt : m ≠ top) :
    DoneA pf tree bodies (fun x => x = m ∨ Inner x) top tb N C R M where
  size := by rw [h.size, hsz]
  frame x hx hp := by
    rw [h.frame x (fun hh => hx (.inr hh)) hp]
    exact hA x (fun e => hx (.inl e)) (fun hh => hx (.inr hh))
  top := h.top
  roots q hq := by
    obtain ⟨a, b, c, d, e⟩ := h.roots q hq
    exact ⟨fun x h1 h2 => .inr (a x h1 h2), b, c, d, e⟩
  arms a ha := by
    obtain ⟨x1, x2, x3, x4, x5⟩ := h.arms a ha
    exact ⟨fun x h1 h2 => .inr (x1 x h1 h2), x2, x3, x4, x5⟩
  cover x hx := by
    rcases hx with rfl | hx
    · obtain ⟨b, hb⟩ := hAm
      refine .inl ⟨b, ?_⟩
      rw [h.frame _ hm hmt]
      exact hb
    · exact h.cover x hx
  disjR := h.disjR
  disjA := h.disjA
  disjRA := h.disjRA

theorem DoneA.cong {In In' : Nat → Prop} {top : Nat} {tb : BuildNode} {A B : Nodes} {R : List (RRec F)} {M : List (ArmRec F)}
    (h : DoneA pf tree bodies In top tb A B R M) (e : ∀ x, In x ↔ In' x) : DoneA pf tree bodies In' top tb A B R M :=
  ⟨h.size, fun x hx hp => h.frame x (fun hi => hx ((e x).1 hi)) hp, h.top,
   fun q hq => ⟨fun x h1 h2 => (e x).1 ((h.roots q hq).1 x h1 h2), (h.roots q hq).2⟩,
   fun a ha => ⟨fun x h1 h2 => (e x).1 ((h.arms a ha).1 x h1 h2), (h.arms a ha).2⟩,
   fun x hx => h.cover x ((e x).2 hx), h.disjR, h.disjA, h.disjRA⟩

/-- an inner `ElseJump` node of a chain: passes the top of the chain on to its parts, emits nothing itself -/
theorem SimArmsF.inner {lo hi m l r : Nat} {f1 f2 : Nat → Nat → LState F → LState F × List (Expr F × Nat)} {pn : ParseNode}
    (hpn : tree[m]? = some pn) (hd : pn.definition = .elseJump) (hl : pn.left = some l) (hr : pn.right = some r)
    (hli : lo ≤ l ∧ l < m) (hri : m + 1 ≤ r ∧ r < hi) (hlt : l < tree.size) (hrt : r < tree.size)
    (ih1 : SimArmsF pf tree bodies lo m l f1) (ih2 : SimArmsF pf tree bodies (m + 1) hi r f2)
    (hmono : ∀ root cur s, cur < s.jumps.size → cur < (f1 root cur s).1.jumps.size) :
    SimArmsF pf tree bodies lo hi m (fun root cur s =>
      ((f2 root cur (f1 root cur s).1).1, (f1 root cur s).2 ++ (f2 root cur (f1 root cur s).1).2)) := by
  intro crj root cur top data nodes RS S s tb hsz hm htop htb hdat hcur
  have hmlt : m < nodes.size := lt_of_get hm
  have hllt : l < nodes.size := by rw [hsz]; exact hlt
  have hrlt : r < nodes.size := by rw [hsz]; exact hrt
  have hbl : (mkNode m cur none (Ex.ofCond (some top))).listParent = none := rfl
  obtain ⟨e1, e2, e3, e4, e5⟩ := three_puts (visited (mkNode m cur none (Ex.ofCond (some top))))
    (mkNode l cur none (Ex.ofCond (some top))) (mkNode r cur none (Ex.ofCond (some top)))
    hmlt hllt hrlt (by omega) (by omega) (by omega : l ≠ r)
  generalize hA : putNode (putNode (putNode nodes m (visited (mkNode m cur none (Ex.ofCond (some top))))) r
    (mkNode r cur none (Ex.ofCond (some top)))) l (mkNode l cur none (Ex.ofCond (some top))) = A at e1 e2 e3 e4 e5
  have hhF : handleParseNode pf ⟨data, nodes, RS, S⟩ crj m pn = .ok ⟨data, A, RS, ((S.push m).push r).push l⟩ := by
    simp only [handleParseNode, hd, handleElseJump, getNode, hm, Outcome.bind, hl, hr]
    rw [show (mkNode m cur none (Ex.ofCond (some top))).state = .uninitialized from rfl]
    simp only []
    rw [setNodeIdx_ok (by simpa using hrlt)]
    simp only []
    rw [setNodeIdx_ok (by simpa using hllt), ← hA]
    rfl
  have st1 : Steps pf tree crj 1 ⟨data, nodes, RS, S.push m⟩ ⟨data, A, RS, ((S.push m).push r).push l⟩ :=
    Steps.one hpn hhF (afterHandle_id e2 (.inr hbl))
  have hAtop : A[top]? = some (some tb) := by rw [e5 top (by omega) (by omega) (by omega)]; exact htb
  obtain ⟨k, data', C, RS', newR, recs, stC, hk, hd', hm', hrs, hp, done⟩ :=
    chain_children hli hri ih1 ih2 hmono crj root cur top data A RS (S.push m) s tb (by rw [e1, hsz]) e3 e4 (.inl htop) hAtop
      hdat hcur
  have hCm : C[m]? = some (some (visited (mkNode m cur none (Ex.ofCond (some top))))) := by
    rw [done.frame m (fun h => by simp only [Ival] at h; omega) (by omega)]; exact e2
  have hhZ : handleParseNode pf ⟨data', C, RS', S⟩ crj m pn = .ok ⟨data', C, RS', S⟩ := by
    simp only [handleParseNode, hd, handleElseJump, getNode, hCm, Outcome.bind]
    rfl
  have st2 : Steps pf tree crj 1 ⟨data', C, RS', S.push m⟩ ⟨data', C, RS', S⟩ :=
    Steps.one hpn hhZ (afterHandle_id hCm (.inr hbl))
  refine ⟨1 + k + 1, data', C, RS', newR, recs, (st1.trans stC).trans st2, by omega, hd', hm', hrs, hp, ?_⟩
  exact (done.wrapM (m := m) (N := nodes) e1
    (fun x h1 h2 => e5 x h1 (fun e => h2 (.inl (by subst e; exact hli))) (fun e => h2 (.inr (by subst e; exact hri))))
    ⟨_, e2⟩ (fun h => by simp only [Ival] at h; omega) (by omega)).cong (ival_split lo hi m ⟨by omega, by omega⟩)

end Garnish.Abs.Tree
