/-
Side-effect blocks in operand position: `e op [ body ]` — the block is the right operand of a binary operator.
`[` goes through `parse_token` with priority 5 and `left = last_left` = the operator node: every operator binds looser
than 5, so the walk stops at once, the SideEffect node becomes the operator's right child (the dangling `right` of the
operator already points to it) and has no left operand.  The result is stated against the reference trees of `e` and of
the body: the tree is `attach op (tree of e)` with the block plugged in as the operand.
-/
import Garnish.Lemmas.ParserB28
import Garnish.Lemmas.RefParseShift

namespace Garnish.Spec
open Garnish Garnish.Gen Garnish.Model.Parser

theorem walk_top_stopP {nodes : Array ParseNode} {ug : Option Nat} {m qo q : Nat} {on : ParseNode} (rtl : Bool)
    (hm : nodes[m]? = some on) (hqo : priority on.definition = some qo) (hlt : q < qo) :
    walkLoop nodes q ug rtl (nodes.size + 1) 0 (some m) (some m) = .ok (some m, some m) := by
  unfold walkLoop
  simp [hm, hqo, hlt]

theorem comp_sideOpen_after_op (s : SecDef)
    (hs : s = .binaryLeftToRight ∨ s = .binaryRightToLeft ∨ s = .optionalBinaryLeftToRight ∨ s = .whitespace ∨
      s = .annotation) : checkComposition s .startSideEffect false = true := by
  rcases hs with rfl | rfl | rfl | rfl | rfl <;> rfl

/-- **`e op [ body ]`** -/
theorem parse_op_block {F : Fl} (e body : Ex) (op o c : PToken) (ws1 ws2 wsA wsB : List PToken)
    (he : e.ok F false = true) (hbody : body.ok F false = true) (hop : isBin3Tok op = true)
    (ho : o.type = .startSideEffect) (hc : c.type = .endSideEffect) (hw1 : ∀ w ∈ ws1, isTriviaTok w = true)
    (hw2 : ∀ w ∈ ws2, isTriviaTok w = true) (hwA : ∀ w ∈ wsA, isTriviaTok w = true)
    (hwB : ∀ w ∈ wsB, isTriviaTok w = true)
    (hnum : NumberedFrom 0 (e.toks ++ (ws1 ++ (op :: (ws2 ++ (o :: (wsA ++ (body.toks ++ (wsB ++ [c]))))))))) :
    ∃ r t te tb q, parse (e.toks ++ (ws1 ++ (op :: (ws2 ++ (o :: (wsA ++ (body.toks ++ (wsB ++ [c])))))))) = .ok r ∧
      toTree r = some t ∧ refParse Table.gen e.toks = .ok te ∧ refParse Table.gen body.toks = .ok tb ∧
      priority (getDefinition op.type).1 = some q ∧
      toRG (dfOf r.nodes) t =
        plug (attach Table.gen q ((getDefinition op.type).2 == .binaryRightToLeft) (getDefinition op.type).1
            (e.toks.length + ws1.length) te)
          (.node .nil .sideEffect (e.toks.length + ws1.length + 1 + ws2.length)
            (tb.shift (e.toks.length + ws1.length + 1 + ws2.length + 1 + wsA.length))) := by
  -- trimming
  have hne : e.toks ++ (ws1 ++ (op :: (ws2 ++ (o :: (wsA ++ (body.toks ++ (wsB ++ [c]))))))) ≠ [] := by
    have := e.toks_ne; simp [this]
  obtain ⟨th, trest, hth, hthn⟩ := ex_head e false he
  have hhead : isTrimmable ((e.toks ++ (ws1 ++ (op :: (ws2 ++ (o :: (wsA ++ (body.toks ++ (wsB ++ [c])))))))).head hne) =
      false := by
    have : (e.toks ++ (ws1 ++ (op :: (ws2 ++ (o :: (wsA ++ (body.toks ++ (wsB ++ [c])))))))).head hne = th := by simp [hth]
    rw [this]; exact hthn
  have hlast : isTrimmable ((e.toks ++ (ws1 ++ (op :: (ws2 ++ (o :: (wsA ++ (body.toks ++ (wsB ++ [c])))))))).getLast hne) =
      false := by
    have e1 : e.toks ++ (ws1 ++ (op :: (ws2 ++ (o :: (wsA ++ (body.toks ++ (wsB ++ [c]))))))) =
        (e.toks ++ (ws1 ++ (op :: (ws2 ++ (o :: (wsA ++ (body.toks ++ wsB))))))) ++ [c] := by simp
    rw [getLast_of_eq_append hne e1]; simp only [isTrimmable, hc]; rfl
  obtain ⟨htrim, _, _⟩ := trim_id _ hne hhead hlast
  -- positions
  have hnume := numbered_prefix e.toks _ 0 hnum
  have hn1 := numbered_append e.toks _ 0 hnum
  have hn2 := numbered_append ws1 _ _ hn1
  have hopcol : op.col = 0 + e.toks.length + ws1.length := hn2.1
  have hn3 := numbered_append ws2 _ _ hn2.2
  have hocol : o.col = 0 + e.toks.length + ws1.length + 1 + ws2.length := hn3.1
  have hn4 := numbered_append wsA _ _ hn3.2
  have hnumB := numbered_prefix body.toks _ _ hn4
  -- e
  obtain ⟨st1, E, re, cb, hloop, hinv, hgs, hcg, _, _, _, hcnt, href⟩ :=
    (ex_ok e false he).1 PState.init none none 0 openB_init (.top rfl rfl) (by intro i nd h; simp [PState.init] at h) rfl
      rfl (Or.inl rfl) 0 hnume (ws1 ++ (op :: (ws2 ++ (o :: (wsA ++ (body.toks ++ (wsB ++ [c])))))))
  obtain ⟨st1', hloopW1, hinv', hn1', hgs1', hcg1'⟩ :=
    trivia_runU ws1 st1 ((op :: (ws2 ++ (o :: (wsA ++ (body.toks ++ (wsB ++ [c])))))) ++ []) hinv hw1
  -- the operator
  obtain ⟨q, nodes', info, s1, hq, h1, hns1, hsz', hO1, hgsS, hcgS, hdefs, _, _, htreeK⟩ := op_effectU hinv' hop
  obtain ⟨q0, hq0, hq20, hnb⟩ := bin3_prio20 op.type (by unfold isBin3Tok at hop; exact hop)
  have hqq : q0 = q := by rw [hq0] at hq; injection hq
  have hs1 : s1.nodes.size = st1'.nodes.size + 1 := by rw [hns1]; simp [hsz']
  have hon1 : s1.nodes[st1'.nodes.size]? = some ⟨(getDefinition op.type).1, (getDefinition op.type).2, info.parent,
      info.left, some (st1'.nodes.size + 1), op⟩ := by rw [hns1, Array.getElem?_push, if_pos hsz'.symm]
  have hprev1 := (step_bin3_specG st1' s1 op hop hinv'.nnl hinv'.hug hinv'.adjust h1)
  obtain ⟨_, _, _, _, _, _, _, _, _, hp1⟩ := hprev1
  -- trivia, `[`
  obtain ⟨s1', hloopW2, hO1', hns1', _, hll1', hgs1'', hcg1'', hprev1'⟩ :=
    trivia_runB_prev ws2 s1 none ((o :: (wsA ++ (body.toks ++ (wsB ++ [c])))) ++ []) hO1 (by omega) hw2
  have hll : s1'.lastLeft = some st1'.nodes.size := by
    rw [hll1', hO1.lastLeft_eq (by omega), hs1]; rfl
  have hq5 : priority Definition.sideEffect = some 5 := rfl
  have hpt : parseToken s1'.nodes.size .sideEffect s1'.lastLeft (some (s1'.nodes.size + 1)) s1'.nodes none false =
      .ok (s1'.nodes, ⟨.sideEffect, some st1'.nodes.size, none, some (s1'.nodes.size + 1)⟩) := by
    rw [hll]
    have hm : s1'.nodes[st1'.nodes.size]? = some ⟨(getDefinition op.type).1, (getDefinition op.type).2, info.parent,
        info.left, some (st1'.nodes.size + 1), op⟩ := by rw [hns1']; exact hon1
    exact parseToken_topQ hq5 hm (walk_top_stopP false hm hq (by omega)) (by rw [hns1', hs1])
  have hcompS : checkComposition s1'.previousSecondDef .startSideEffect s1'.checkForList = true := by
    rw [hO1'.cfl]
    apply comp_sideOpen_after_op
    rcases hprev1' with h | h | h
    · rw [h, hp1]
      rcases bin3_secdef hop with h' | h' | h'
      · exact Or.inl h'
      · exact Or.inr (Or.inl h')
      · exact Or.inr (Or.inr (Or.inl h'))
    · exact Or.inr (Or.inr (Or.inr (Or.inl h)))
    · exact Or.inr (Or.inr (Or.inr (Or.inr h)))
  have hstepS := step_sideOpen s1' none o ho hO1'.hug hO1'.adj hO1'.nnl hcompS hpt
  have hprios1 : AllPrio s1'.nodes := by
    rw [hns1']
    intro i nd hi
    by_cases c1 : i < st1'.nodes.size
    · have := hdefs i c1
      rw [hns1, Array.getElem?_push, if_neg (by omega)] at hi
      rw [hi] at this
      cases hsi : st1'.nodes[i]? with
      | none => rw [hsi] at this; cases this
      | some nd0 =>
        rw [hsi] at this
        simp only [Option.map_some, Option.some.injEq] at this
        rw [this]; exact hinv'.n.prios i nd0 hsi
    · by_cases c2 : i = st1'.nodes.size
      · subst c2; rw [hon1] at hi; injection hi with hi; subst hi; exact ⟨q, hq⟩
      · have : s1.nodes[i]? = none := by apply Array.getElem?_eq_none; omega
        rw [this] at hi; cases hi
  -- the body
  obtain ⟨st2, Eb, reb, S, hloopB, hbelow, hS, hSd, hSp, hSl, hSr, hSt, htreeB, hinB, hszB, hprios2, hgs2, hprev2, _, _, _, _, hrefB⟩ :=
    side_body s1' o c s1'.nodes ⟨.sideEffect, some st1'.nodes.size, none, some (s1'.nodes.size + 1)⟩ body wsA wsB rfl rfl
      hO1'.nnl hprios1 hc hbody hwA hwB _ hnumB []
  have hs1' : s1'.nodes.size = st1'.nodes.size + 1 := by rw [hns1']; exact hs1
  rw [hs1'] at hbelow hS htreeB hinB hszB
  simp only at hSp hSl
  -- the final tree
  let sub : Tree := .node .nil (st1'.nodes.size + 1) o.col Eb
  have hsub : IsTreeAt st2.nodes (some st1'.nodes.size) (some (st1'.nodes.size + 1)) sub :=
    isTreeAt_node S hS hSp (by rw [hSl]; exact .nil _) (by rw [hSr]; exact htreeB) (by simp [tokPos, hSt])
  have hlt2 : ∀ j, j < st1'.nodes.size → st2.nodes[j]? = nodes'[j]? := by
    intro j hj
    rw [hbelow j (by omega), hns1', hns1, Array.getElem?_push, if_neg (by omega)]
  have hon2 : st2.nodes[st1'.nodes.size]? = some ⟨(getDefinition op.type).1, (getDefinition op.type).2, info.parent,
      info.left, some (st1'.nodes.size + 1), op⟩ := by rw [hbelow _ (by omega), hns1']; exact hon1
  obtain ⟨re', htree', _⟩ := htreeK st2.nodes sub op.col hlt2 ⟨_, hon2, rfl, rfl, rfl, rfl⟩ hsub
  have hpos := hinv'.n.pos
  have hinT : (insertC cb (prioAt st1'.nodes) q ((getDefinition op.type).2 == .binaryRightToLeft) st1'.nodes.size op.col
      sub E).inorder = E.inorder ++ st1'.nodes.size :: (st1'.nodes.size + 1) :: Eb.inorder := by
    rw [insertC_inorder]; simp [sub, Tree.inorder]
  have hsortedT : SortedIn 0 st2.nodes.size (E.inorder ++ st1'.nodes.size :: (st1'.nodes.size + 1) :: Eb.inorder) := by
    apply hinv'.n.inord.append_cons _ (by omega) (by omega)
    have := (show SortedIn (st1'.nodes.size + 1) (st1'.nodes.size + 1) [] from
      ⟨List.Pairwise.nil, fun j hj => by cases hj⟩).append_cons hinB (Nat.le_refl _) (by omega)
    simpa using this
  obtain ⟨r, hr, ht, hn⟩ := finish_gen (st := st2) (by rw [hprev2]; exact comp_endSE _)
    (by rw [hgs2, hgs1'', hgsS, hgs1', hgs]; rfl) htree' (by rw [hinT]; exact hsortedT.nodup)
    (by rw [hinT]; exact List.mem_append_left _ hinv'.n.first) (by omega)
  -- the reference trees
  have hte := href Frame.top [] [] rfl rfl rfl
  simp only [List.append_nil] at hte
  have hte' : refParse Table.gen e.toks = .ok (toRG (dfOf st1.nodes) E) := by
    rw [refParse_ex e he, hte]; unfold refLoop; cases e.endsSuffix <;> simp
  have htb : ∃ tb, refParse Table.gen body.toks = .ok tb ∧
      toRG (dfOf st2.nodes) Eb = tb.shift (0 + e.toks.length + ws1.length + 1 + ws2.length + 1 + wsA.length) := by
    rw [refLoop_top_shift, ← refParse_ex body hbody] at hrefB
    cases hrb : refParse Table.gen body.toks with
    | ok tb =>
      rw [hrb] at hrefB
      simp only [Outcome.mapT, Outcome.ok.injEq] at hrefB
      exact ⟨tb, rfl, hrefB.symm⟩
    | err _ => rw [hrb] at hrefB; cases hrefB
    | panic _ => rw [hrb] at hrefB; cases hrefB
    | fuelOut => rw [hrb] at hrefB; cases hrefB
  obtain ⟨tb, htb1, htb2⟩ := htb
  refine ⟨r, _, _, tb, q, ?_, ht, hte', htb1, hq, ?_⟩
  · unfold parse
    rw [htrim]
    have hemp : (e.toks ++ (ws1 ++ (op :: (ws2 ++ (o :: (wsA ++ (body.toks ++ (wsB ++ [c])))))))).isEmpty = false := by
      cases h : e.toks ++ (ws1 ++ (op :: (ws2 ++ (o :: (wsA ++ (body.toks ++ (wsB ++ [c]))))))) with
      | nil => exact absurd h hne
      | cons _ _ => rfl
    simp only [Outcome.bind, hemp, Bool.false_eq_true, if_false]
    have e0 : ws1 ++ (op :: (ws2 ++ (o :: (wsA ++ (body.toks ++ (wsB ++ [c])))))) =
        ws1 ++ ((op :: (ws2 ++ (o :: (wsA ++ (body.toks ++ (wsB ++ [c])))))) ++ []) := by simp
    rw [hloop, e0, hloopW1]
    simp only [List.append_nil, loop]
    have he1 : (ws2 ++ (o :: (wsA ++ (body.toks ++ (wsB ++ [c]))))).isEmpty = false := by cases ws2 <;> simp
    rw [he1, h1]
    simp only [Outcome.bind]
    have e2 : ws2 ++ (o :: (wsA ++ (body.toks ++ (wsB ++ [c])))) =
        ws2 ++ ((o :: (wsA ++ (body.toks ++ (wsB ++ [c])))) ++ []) := by simp
    rw [e2, hloopW2]
    simp only [List.append_nil, loop]
    have he2 : (wsA ++ (body.toks ++ (wsB ++ [c]))).isEmpty = false := by cases wsA <;> simp [body.toks_ne]
    rw [he2, hstepS]
    simp only [Outcome.bind]
    have := hloopB
    simp only [List.append_nil, loop] at this
    rw [this]
    exact hr
  · rw [hn]
    have hdn : dfOf st2.nodes st1'.nodes.size = (getDefinition op.type).1 := by simp [dfOf, hon2]
    have hdS : dfOf st2.nodes (st1'.nodes.size + 1) = .sideEffect := by simp [dfOf, hS, hSd]
    have hX : toRG (dfOf st2.nodes) sub = .node .nil .sideEffect o.col (toRG (dfOf st2.nodes) Eb) := by
      simp only [sub, toRG, hdS]
      rfl
    have hcong : ∀ i ∈ E.inorder, dfOf st1.nodes i = dfOf st2.nodes i := by
      intro i hi
      have hi' := (hinv.n.mem i hi).2
      have := hdefs i (by rw [hn1']; exact hi')
      rw [← hlt2 i (by rw [hn1']; exact hi'), hn1'] at this
      simp only [dfOf, this]
    have hPf : PlugFn (dfOf st2.nodes) (dfOf st2.nodes st1'.nodes.size) sub
        (fun R => plug R (.node .nil .sideEffect o.col (toRG (dfOf st2.nodes) Eb))) := by
      refine ⟨?_, ?_, ?_⟩
      · intro l a k R hR
        simp [plug, hR]
      · intro l k
        rw [hX]
        simp only [plug, RTree.isNil, if_true]
        congr 1
        split <;> rfl
      · intro _; rw [hX]; rfl
    have := insertC_toRG (dfOf st2.nodes) (prioAt st1'.nodes) q ((getDefinition op.type).2 == .binaryRightToLeft)
      st1'.nodes.size op.col sub cb _ hPf (by rw [hdn]; exact hnb) E
      (by intro i hi
          rw [← hcong i hi, hn1']
          exact prio_dfOf hinv.n.prios (hinv.n.mem i hi).2)
      (hinv.spine.congr hcong)
    rw [← this, hdn, ← toRG_congr _ _ E hcong, hopcol, hocol, htb2]
    simp only [Nat.zero_add]

end Garnish.Spec
