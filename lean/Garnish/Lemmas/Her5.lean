/-
Lemmas/NoCustom5.lean parametrised: `finish` / `seqNext` / `pushOut` / `resolveStep` / `applyStep`.
-/
import Garnish.Lemmas.Her4
set_option linter.unusedSimpArgs false
set_option linter.unusedVariables false
set_option linter.unusedSectionVars false
namespace Garnish.Lemmas.Her
open Garnish Gen Garnish.Abs

variable {F : Type} {q : Val F → Bool} [hq : LeafOK q] {fo : FloatOps F} {host : Host F} {P : Prog F}

/-- the step result is a state (running or halted) -/
def StepTo (r : StepRes F) (s' : MState F) : Prop := r = .running s' ∨ r = .halted s'

theorem HerState.mk' {m : MState F} {regs vals : List (Val F)} {frames : List (Frame F)} (hr : herL q regs = true)
    (hv : herL q vals = true) (hf : ∀ fr ∈ frames, herL q fr.saved = true) (pc : Nat) (tr : List (HostCall F)) :
    HerState q (⟨pc, regs, vals, frames, tr⟩ : MState F) := ⟨hr, hv, hf⟩

theorem finish_her {s1 s' : MState F} {n : Nat} (h1 : HerState q s1) (h : StepTo (finish P (.ok (s1, n))) s') :
    HerState q s' := by
  unfold finish at h
  simp only [] at h
  split at h <;> rcases h with h | h <;> cases h <;> exact ⟨h1.regs, h1.vals, h1.frames⟩

theorem finishE_her {r : Except ErrClass (MState F × Nat)} {s' : MState F}
    (hr : ∀ s1 n, r = .ok (s1, n) → HerState q s1) (h : StepTo (finish P r) s') : HerState q s' := by
  cases r with
  | error e => rcases h with h | h <;> cases h
  | ok p => obtain ⟨s1, n⟩ := p; exact finish_her (hr s1 n rfl) h

theorem seqNext_her {s s' : MState F} {r : Except ErrClass (MState F)} (hr : ∀ s1, r = .ok s1 → HerState q s1)
    (h : StepTo (seqNext P s r) s') : HerState q s' := by
  cases r with
  | error e => rcases h with h | h <;> cases h
  | ok s1 => exact finish_her (hr s1 rfl) h

theorem herL_cons {x : Val F} {xs : List (Val F)} (hx : her q x = true) (hxs : herL q xs = true) : herL q (x :: xs) = true := by
  simp [herL, hx, hxs]

theorem pushOut_her (HN : HostHer q host) {s s' : MState F} {o : OpOut F} (hs : HerState q s) (ho : OutHer q o)
    (h : pushOut host s o = .ok s') : HerState q s' := by
  cases o with
  | val v => simp [pushOut] at h; subst h; exact ⟨herL_cons ho hs.regs, hs.vals, hs.frames⟩
  | defer op l r =>
    simp only [pushOut] at h
    cases hd : host.defer op l r with
    | some v => rw [hd] at h; cases h; exact ⟨herL_cons (HN.defer op l r v hd) hs.regs, hs.vals, hs.frames⟩
    | none => rw [hd] at h; cases h; exact ⟨herL_cons her_unit hs.regs, hs.vals, hs.frames⟩
  | err e => simp [pushOut] at h

theorem resolveStep_her (HN : HostHer q host) {s s' : MState F} {key : Val F} (hs : HerState q s)
    (h : resolveStep fo host s key = .ok s') : HerState q s' := by
  unfold resolveStep at h
  simp only [] at h
  split at h
  · cases h
  · rename_i v hv
    cases h
    refine ⟨herL_cons ?_ hs.regs, hs.vals, hs.frames⟩
    -- the value found in the current input value
    split at hv
    · cases hv
    · rename_i cur rest hvals
      have hc : her q cur = true := by
        have := hs.vals; rw [hvals] at this; simp [herL] at this; exact this.1
      split at hv
      · rename_i x hx; cases hv; exact her_getAccess fo hc hx
      all_goals cases hv
  · split at h
    · split at h
      · rename_i v hv; cases h; exact ⟨herL_cons (HN.resolve _ v hv) hs.regs, hs.vals, hs.frames⟩
      · cases h; exact ⟨herL_cons her_unit hs.regs, hs.vals, hs.frames⟩
    · cases h; exact ⟨herL_cons her_unit hs.regs, hs.vals, hs.frames⟩

theorem applyStep_her (HN : HostHer q host) {s s' : MState F} {instr : Instruction} {ur : Bool} {l r : Val F}
    {n : Nat} (hs : HerState q s) (hl : her q l = true) (hr : her q r = true)
    (h : applyStep fo host P s instr ur l r = .ok (s', n)) : HerState q s' := by
  have hk := applyKind_her fo instr ur hl hr
  unfold applyStep at h
  cases hkk : applyKind fo instr ur l r with
  | enter j input =>
    rw [hkk] at h hk
    simp only [] at h
    cases hj : jumpTarget P j with
    | error e => rw [hj] at h; cases h
    | ok t =>
      rw [hj] at h
      cases h
      refine ⟨hs.regs, herL_cons hk hs.vals, fun fr hfr => ?_⟩
      rcases List.mem_cons.mp hfr with rfl | hfr
      · exact hs.regs
      · exact hs.frames fr hfr
  | external m arg =>
    rw [hkk] at h
    simp only [] at h
    cases ha : host.apply m arg with
    | some v => rw [ha] at h; cases h; exact ⟨herL_cons (HN.apply m arg v ha) hs.regs, hs.vals, hs.frames⟩
    | none => rw [ha] at h; cases h; exact ⟨herL_cons her_unit hs.regs, hs.vals, hs.frames⟩
  | out o =>
    rw [hkk] at h hk
    simp only [] at h
    cases hp : pushOut host s o with
    | error e => rw [hp] at h; cases h
    | ok s1 => rw [hp] at h; cases h; exact pushOut_her HN hs hk hp

end Garnish.Lemmas.Her
