/-
The tie between the two builder models (4): first and second visit of a node, generically; the value nodes.
-/
import Garnish.Lemmas.CompileTree3
namespace Garnish.Abs.Tree
open Garnish Garnish.Gen Garnish.Spec Garnish.Abs Garnish.Model.Parser Garnish.Model.Literals Garnish.Model.Build

variable {F : Type} {pf : List Char → Option F} {tree : Array ParseNode} {bodies : List (Nat × Expr F)}

theorem counted_node {nodesH : Nodes} {i cur : Nat} {lp : Option (Nat × Definition)} {cp : Ex} {pbn : BuildNode}
    (hi : nodesH[i]? = some (some (visited (mkNode i cur lp cp)))) (hne : ∀ par d, lp = some (par, d) → par ≠ i) :
    (counted nodesH i (visited (mkNode i cur lp cp)) lp pbn)[i]? = some (some (node1 i cur lp cp)) := by
  cases lp with
  | none => rw [show counted nodesH i (visited (mkNode i cur none cp)) none pbn = nodesH from rfl, hi]; rfl
  | some pd =>
    obtain ⟨par, d⟩ := pd
    have := hne par d rfl
    simp only [counted]
    rw [get_putNode_ne this, get_putNode_same (lt_of_get hi)]
    rfl

theorem counted_parent {nodesH : Nodes} {i par : Nat} {d : Definition} {b pbn : BuildNode}
    (hp : nodesH[par]? = some (some pbn)) :
    (counted nodesH i b (some (par, d)) pbn)[par]? = some (some { pbn with childCount := pbn.childCount + 1 }) := by
  simp only [counted]
  rw [get_putNode_same (by simpa using lt_of_get hp)]

theorem counted_other {nodesH : Nodes} {i x : Nat} {lp : Option (Nat × Definition)} {b pbn : BuildNode}
    (hx : x ≠ i) (hp : ∀ par d, lp = some (par, d) → x ≠ par) : (counted nodesH i b lp pbn)[x]? = nodesH[x]? := by
  cases lp with
  | none => rfl
  | some pd =>
    obtain ⟨par, d⟩ := pd
    simp only [counted]
    rw [get_putNode_ne (Ne.symm (hp par d rfl)), get_putNode_ne (Ne.symm hx)]

@[simp] theorem counted_size (nodesH : Nodes) (i : Nat) (lp : Option (Nat × Definition)) (b pbn : BuildNode) :
    (counted nodesH i b lp pbn).size = nodesH.size := by
  cases lp with
  | none => rfl
  | some pd => simp [counted]

/-- **first visit**: the handler marks the node and schedules children; `afterHandle` counts it for its list parent -/
theorem first_visit {crj lo hi i cur : Nat} {lp : Option (Nat × Definition)} {cp : Ex} {pbn : BuildNode}
    {pn : ParseNode} {data data1 : BState F} {nodes nodesH : Nodes} {RS RS1 S S1 : Array Nat}
    (pre : Pre tree nodes lo hi i cur lp cp pbn) (hin : lo ≤ i ∧ i < hi) (hpn : tree[i]? = some pn)
    (hh : handleParseNode pf ⟨data, nodes, RS, S⟩ crj i pn = .ok ⟨data1, nodesH, RS1, S1⟩)
    (hi' : nodesH[i]? = some (some (visited (mkNode i cur lp cp))))
    (hpar : ∀ par d, lp = some (par, d) → nodesH[par]? = nodes[par]?) :
    Steps pf tree crj 1 ⟨data, nodes, RS, S.push i⟩
      ⟨data1, counted nodesH i (visited (mkNode i cur lp cp)) lp pbn, RS1, S1⟩ := by
  refine Steps.one hpn hh ?_
  refine afterHandle_counted hi' rfl rfl (fun par d hl => ?_)
  obtain ⟨h1, h2, _⟩ := pre.par par d hl
  exact ⟨by omega, by rw [hpar par d hl]; exact h2⟩

/-- **second visit**: the handler emits; the node does not count again -/
theorem second_visit {crj i : Nat} {lp : Option (Nat × Definition)}
    {pn : ParseNode} {data data1 : BState F} {nodes nodesH : Nodes} {RS RS1 S S1 : Array Nat} {b : BuildNode}
    (hpn : tree[i]? = some pn)
    (hh : handleParseNode pf ⟨data, nodes, RS, S⟩ crj i pn = .ok ⟨data1, nodesH, RS1, S1⟩)
    (hi' : nodesH[i]? = some (some b)) (hb : b.contributesToList = lp.isNone) (hl : b.listParent = lp) :
    Steps pf tree crj 1 ⟨data, nodes, RS, S.push i⟩ ⟨data1, nodesH, RS1, S1⟩ := by
  refine Steps.one hpn hh ?_
  refine afterHandle_id hi' ?_
  cases lp with
  | none => exact .inr hl
  | some pd => exact .inl (by simpa using hb)

/-! ### value nodes -/

/-- the definitions handled by `handle_value_like`, with the instruction they emit -/
def valueInstr : Definition → Option Instruction
  | .unit | .false | .true | .number | .charList | .byteList | .symbol | .property => some .put
  | .value => some .putValue
  | .identifier => some .resolve
  | _ => none

theorem value_first {crj i : Nat} {pn : ParseNode} {ins : Instruction} {data : BState F} {nodes : Nodes} {RS S : Array Nat}
    {b : BuildNode} (hd : valueInstr pn.definition = some ins) (hl : pn.left = none) (hr : pn.right = none)
    (hb : nodes[i]? = some (some b)) (hs : b.state = .uninitialized) :
    handleParseNode pf ⟨data, nodes, RS, S⟩ crj i pn = .ok ⟨data, putNode nodes i (visited b), RS, S.push i⟩ := by
  have key : ∀ (addFn : AddFn F) (instr : Instruction),
      handleValueLike addFn instr ⟨data, nodes, RS, S⟩ i pn = .ok ⟨data, putNode nodes i (visited b), RS, S.push i⟩ := by
    intro addFn instr
    simp only [handleValueLike, getNode, hb, Outcome.bind, hs, hl, hr]
    rfl
  unfold handleParseNode
  cases hdef : pn.definition <;> simp only [hdef, valueInstr] at hd <;> first | cases hd | skip
  all_goals first | exact key _ _ | (simp only [handleValuePrimitive]; exact key _ _)

/-- a node without children: two visits, the second one emits -/
theorem leaf_sim {i : Nat} {pn : ParseNode} {ins : Instruction} {e : Expr F} (hpn : tree[i]? = some pn)
    (hd : valueInstr pn.definition = some ins) (hl : pn.left = none) (hr : pn.right = none)
    (h2 : ∀ (crj root cur : Nat) (data : BState F) (nodes : Nodes) (RS S : Array Nat) (s : LState F) (b : BuildNode),
      nodes[i]? = some (some b) → b.state = .initialized → DataEq data s →
      ∃ data', handleParseNode pf ⟨data, nodes, RS, S⟩ crj i pn = .ok ⟨data', nodes, RS, S⟩ ∧
        DataEq data' (emit root cur e s) ∧ (emit root cur e s).pending = s.pending) :
    SimT pf tree bodies i (i + 1) i e := by
  intro crj root cur data nodes RS S s lp cp pbn pre hdat _
  have hlt : i < nodes.size := lt_of_get pre.node
  have hne : ∀ par d, lp = some (par, d) → par ≠ i := fun par d h => by have := (pre.par par d h).1; omega
  -- first visit
  have hH : (putNode nodes i (visited (mkNode i cur lp cp)))[i]? = some (some (visited (mkNode i cur lp cp))) :=
    get_putNode_same hlt _
  have st1 := first_visit (crj := crj) (data := data) (RS := RS) (S := S) pre ⟨Nat.le_refl _, by omega⟩ hpn
    (value_first (pf := pf) (crj := crj) (data := data) (RS := RS) (S := S) hd hl hr pre.node rfl) hH
    (fun par d h => get_putNode_ne (Ne.symm (hne par d h)) _)
  -- second visit
  have hn1 := counted_node (pbn := pbn) hH hne
  obtain ⟨data', hh2, hd2, hp2⟩ := h2 crj root cur data _ RS S s _ hn1 rfl hdat
  have st2 := second_visit (lp := lp) hpn hh2 hn1 rfl rfl
  refine ⟨2, data', _, RS, [], (st1.trans st2), (by simp only [wsum_nil]; omega), hd2, by simp, by simpa using hp2, ?_, ⟨_, hn1, rfl⟩⟩
  refine ⟨by simp, fun x hx hp => ?_, fun par d h => ?_, fun q hq => (by cases hq), fun x hx => ?_, List.Pairwise.nil⟩
  · have hxi : x ≠ i := fun e => hx (by subst e; exact ⟨Nat.le_refl _, by omega⟩)
    rw [counted_other hxi hp, get_putNode_ne (Ne.symm hxi)]
  · subst h
    refine counted_parent ?_
    rw [get_putNode_ne (Ne.symm (hne par d rfl))]
    exact (pre.par par d rfl).2.1
  · have : x = i := by have := hx.1; have := hx.2; omega
    subst this
    exact .inl ⟨_, hn1⟩

end Garnish.Abs.Tree
