/-
The tie between the two builder models (19): a side-effect block after a value — `v [ body ]`.
The value node schedules its right child (the `SideEffect` node) BELOW itself on the work list: first visit of the value,
second visit of the value (`Put` / `PutValue` / `Resolve`), then the `SideEffect` node: `StartSideEffect`, the body,
`EndSideEffect`.
-/
import Garnish.Lemmas.CompileTree7
namespace Garnish.Abs.Tree
open Garnish Garnish.Gen Garnish.Spec Garnish.Abs Garnish.Model.Parser Garnish.Model.Literals Garnish.Model.Build

variable {F : Type} {pf : List Char → Option F} {tree : Array ParseNode} {bodies : List (Nat × Expr F)}

section handlers
variable {crj i : Nat} {pn : ParseNode} {data : BState F} {nodes : Nodes} {RS S : Array Nat} {b : BuildNode}

theorem side_first {r : Nat} (hd : pn.definition = .sideEffect) (hr : pn.right = some r)
    (hb : nodes[i]? = some (some b)) (hs : b.state = .uninitialized) (hlt : r < nodes.size) :
    handleParseNode pf ⟨data, nodes, RS, S⟩ crj i pn =
      .ok ⟨pushInstr data .startSideEffect none (some i),
        putNode (putNode nodes i (visited b)) r (BuildNode.new r b.containingExpressionJump), RS, (S.push i).push r⟩ := by
  simp only [handleParseNode, hd, handleSideEffect, getNode, hb, Outcome.bind, hs, hr]
  rw [setNodeIdx_ok (by simpa using hlt)]
  rfl

theorem side_second (hd : pn.definition = .sideEffect) (hb : nodes[i]? = some (some b)) (hs : b.state = .initialized) :
    handleParseNode pf ⟨data, nodes, RS, S⟩ crj i pn = .ok ⟨pushInstr data .endSideEffect none (some i), nodes, RS, S⟩ := by
  simp only [handleParseNode, hd, handleSideEffect, getNode, hb, Outcome.bind, hs]

theorem value_first_right {ins : Instruction} {r : Nat} (hd : valueInstr pn.definition = some ins) (hl : pn.left = none)
    (hr : pn.right = some r) (hb : nodes[i]? = some (some b)) (hs : b.state = .uninitialized) (hlt : r < nodes.size) :
    handleParseNode pf ⟨data, nodes, RS, S⟩ crj i pn =
      .ok ⟨data, putNode (putNode nodes i (visited b)) r (BuildNode.new r b.containingExpressionJump), RS,
        (S.push r).push i⟩ := by
  have key : ∀ (addFn : AddFn F) (instr : Instruction),
      handleValueLike addFn instr ⟨data, nodes, RS, S⟩ i pn =
        .ok ⟨data, putNode (putNode nodes i (visited b)) r (BuildNode.new r b.containingExpressionJump), RS,
          (S.push r).push i⟩ := by
    intro addFn instr
    simp only [handleValueLike, getNode, hb, Outcome.bind, hs, hl, hr]
    rw [setNodeIdx_ok (by simpa using hlt)]
    rfl
  unfold handleParseNode
  cases hdef : pn.definition <;> simp only [hdef, valueInstr] at hd <;> first | cases hd | skip
  all_goals first | exact key _ _ | (simp only [handleValuePrimitive]; exact key _ _)

end handlers

/-- the `SideEffect` node with its body -/
theorem sim_sideNode {hi i b : Nat} {body : Expr F} {ps : ParseNode} (hps : tree[i]? = some ps)
    (hd : ps.definition = .sideEffect) (hr : ps.right = some b) (hbi : i + 1 ≤ b ∧ b < hi) (hbt : b < tree.size)
    (ih : SimT pf tree bodies (i + 1) hi b body) :
    SimF pf tree bodies i hi i (fun root cur s =>
      (emit root cur body (s.push .startSideEffect none)).push .endSideEffect none) := by
  refine sim_one_childF (pre_ := fun s => s.push .startSideEffect none) (post := fun _ s => s.push .endSideEffect none)
    hps ⟨Nat.le_refl _, by omega⟩ hbi hbt (ival_succ i hi (by omega)) (by simp only [Ival]; omega) ?_ ?_
    (fun _ => rfl) (fun _ => Nat.le_refl _) (fun _ _ => rfl) (fun _ _ _ => rfl) ih
  · intro crj data nodes RS S bn s hb hs hpi hlt hdat
    exact ⟨_, side_first hd hr hb hs hlt, hdat.push _ _ _⟩
  · intro crj cur data nodes RS S bn s hb hs hpi _ hdat
    exact ⟨_, side_second hd hb hs, hdat.push _ _ _⟩

/-- **a value node with a subtree scheduled after it** -/
theorem sim_leaf_side {hi i : Nat} {pn : ParseNode} {ins : Instruction} {x e : Expr F}
    {g : Nat → Nat → LState F → LState F} (hpn : tree[i]? = some pn)
    (hd : valueInstr pn.definition = some ins) (hl : pn.left = none) (hr : pn.right = some (i + 1)) (hhi : i + 1 < hi)
    (hct : i + 1 < tree.size)
    (h2 : ∀ (crj root cur : Nat) (data : BState F) (nodes : Nodes) (RS S : Array Nat) (s : LState F) (b : BuildNode),
      nodes[i]? = some (some b) → b.state = .initialized → DataEq data s →
      ∃ data', handleParseNode pf ⟨data, nodes, RS, S⟩ crj i pn = .ok ⟨data', nodes, RS, S⟩ ∧
        DataEq data' (emit root cur x s) ∧ (emit root cur x s).pending = s.pending)
    (hj : ∀ root cur s, s.jumps.size ≤ (emit root cur x s).jumps.size)
    (hemit : ∀ root cur s, emit root cur e s = g root cur (emit root cur x s))
    (ih : SimF pf tree bodies (i + 1) hi (i + 1) g) : SimT pf tree bodies i hi i e := by
  intro crj root cur data nodes RS S s lp cp pbn pre hdat hcur
  have hlt : i < nodes.size := lt_of_get pre.node
  have hclt : i + 1 < nodes.size := by rw [pre.size]; exact hct
  have hni : ¬ Ival (i + 1) hi i := by simp only [Ival]; omega
  have hne : ∀ par d, lp = some (par, d) → par ≠ i ∧ par ≠ i + 1 := fun par d h => by
    have := (pre.par par d h).1; exact ⟨by omega, by omega⟩
  -- first visit of the value node
  have hhF := value_first_right (pf := pf) (crj := crj) (data := data) (RS := RS) (S := S) hd hl hr pre.node rfl hclt
  rw [show (mkNode i cur lp cp).containingExpressionJump = cur from rfl] at hhF
  generalize hH : putNode (putNode nodes i (visited (mkNode i cur lp cp))) (i + 1) (BuildNode.new (i + 1) cur) = nodesH at hhF
  have hHi : nodesH[i]? = some (some (visited (mkNode i cur lp cp))) := by
    rw [← hH, get_putNode_ne (by omega), get_putNode_same hlt]
  have hHc : nodesH[i + 1]? = some (some (mkNode (i + 1) cur none Ex.none)) := by
    rw [← hH, get_putNode_same (by simpa using hclt)]; rfl
  have hHo : ∀ y, y ≠ i → y ≠ i + 1 → nodesH[y]? = nodes[y]? := fun y h1 h2 => by
    rw [← hH, get_putNode_ne (Ne.symm h2), get_putNode_ne (Ne.symm h1)]
  have st1 := first_visit (pf := pf) (crj := crj) (data := data) (RS := RS) (S := S) pre ⟨Nat.le_refl _, by omega⟩ hpn hhF hHi
    (fun par d h => hHo par (hne par d h).1 (hne par d h).2)
  generalize hA : counted nodesH i (visited (mkNode i cur lp cp)) lp pbn = A at st1
  have hAi : A[i]? = some (some (node1 i cur lp cp)) := by rw [← hA]; exact counted_node hHi (fun p d h => (hne p d h).1)
  have hAo : ∀ y, y ≠ i → (∀ par d, lp = some (par, d) → y ≠ par) → A[y]? = nodesH[y]? := fun y h1 h2 => by
    rw [← hA]; exact counted_other h1 h2
  have hAsz : A.size = nodes.size := by rw [← hA, counted_size, ← hH]; simp
  -- second visit of the value node
  obtain ⟨data2, hh2, hd2, hp2⟩ := h2 crj root cur data A RS (S.push (i + 1)) s _ hAi rfl hdat
  have st2 := second_visit (lp := lp) (crj := crj) hpn hh2 hAi rfl rfl
  -- the subtree
  have preC : Pre tree A (i + 1) hi (i + 1) cur none Ex.none pbn :=
    Pre.child none pbn (by rw [hAsz, pre.size])
      (by rw [hAo (i + 1) (by omega) (fun p d h => Ne.symm (hne p d h).2), hHc]) (fun ⟨_, h⟩ => by cases h)
  obtain ⟨k1, dataZ, C, RS1, R1, stC, hk1, hdZ, hrs1, hp1, done1, _⟩ :=
    ih crj root cur data2 A RS S (emit root cur x s) none Ex.none pbn preC hd2 (by have := hj root cur s; omega)
  have hCi : C[i]? = some (some (node1 i cur lp cp)) := by
    rw [done1.frame i hni (fun _ _ h => by cases h)]; exact hAi
  refine ⟨1 + 1 + k1, dataZ, C, RS1, R1, (st1.trans st2).trans stC, by omega, ?_, hrs1, ?_, ?_, ⟨_, hCi, rfl⟩⟩
  · rw [hemit]; exact hdZ
  · rw [hemit, hp1, hp2]
  · refine (Done.wrap (i := i) (lp := lp) (pbn := pbn) (N := nodes) done1 hAsz (fun y h1 h2 h3 => ?_) ⟨_, hAi⟩
      hni (fun par d h => ⟨?_, ?_⟩)).cong (ival_succ i hi (by omega))
    · have : y ≠ i + 1 := fun e => h2 (by subst e; exact ⟨Nat.le_refl _, hhi⟩)
      rw [hAo y h1 h3, hHo y h1 this]
    · intro hh
      have := (pre.par par d h).1
      simp only [Ival] at hh; omega
    · subst h
      rw [← hA]
      refine counted_parent ?_
      rw [hHo par (hne par d rfl).1 (hne par d rfl).2]
      exact (pre.par par d rfl).2.1

/-- second visit of a value node: it emits the code of the expression it stands for -/
theorem leaf_second {i : Nat} {pn : ParseNode} {x : Expr F} (hx : LeafRep pf pn x) :
    (∃ ins, valueInstr pn.definition = some ins) ∧
    (∀ (crj root cur : Nat) (data : BState F) (nodes : Nodes) (RS S : Array Nat) (s : LState F) (b : BuildNode),
      nodes[i]? = some (some b) → b.state = .initialized → DataEq data s →
      ∃ data', handleParseNode pf ⟨data, nodes, RS, S⟩ crj i pn = .ok ⟨data', nodes, RS, S⟩ ∧
        DataEq data' (emit root cur x s) ∧ (emit root cur x s).pending = s.pending) ∧
    (∀ root cur s, s.jumps.size ≤ (emit root cur x s).jumps.size) := by
  cases hx with
  | input hd =>
    refine ⟨⟨.putValue, by rw [hd]; rfl⟩, ?_, fun _ _ _ => Nat.le_refl _⟩
    intro crj root cur data nodes RS S s b hb hs hdat
    refine ⟨pushInstr data .putValue none (some i), ?_, ?_, rfl⟩
    · simp only [handleParseNode, hd, handleValueLike, getNode, hb, Outcome.bind, hs]
    · simp only [emit]; exact hdat.push _ _ _
  | ident hd =>
    refine ⟨⟨.resolve, by rw [hd]; rfl⟩, ?_, fun _ _ _ => Nat.le_refl _⟩
    intro crj root cur data nodes RS S s b hb hs hdat
    refine ⟨pushInstr (addConst data (.sym (parseSymbol pn.lexToken.text))).1 .resolve
      (some (addConst data (.sym (parseSymbol pn.lexToken.text))).2) (some i), ?_, ?_, rfl⟩
    · simp only [handleParseNode, hd, handleValueLike, getNode, hb, Outcome.bind, hs, parseAddSymbolText, parseAddSymbol]
    · simp only [emit]; exact hdat.pushConst _ _ _
  | @lit v hv =>
    have hdef : valueInstr pn.definition = some .put := by cases hv <;> simp_all [valueInstr]
    refine ⟨⟨.put, hdef⟩, ?_, fun _ _ _ => Nat.le_refl _⟩
    intro crj root cur data nodes RS S s b hb hs hdat
    refine ⟨pushInstr (addConst data v).1 .put (some (addConst data v).2) (some i), ?_, ?_, rfl⟩
    · cases hv with
      | unit h => simp only [handleParseNode, h, handleValuePrimitive, handleValueLike, getNode, hb, Outcome.bind, hs, addUnit]
      | tru h => simp only [handleParseNode, h, handleValuePrimitive, handleValueLike, getNode, hb, Outcome.bind, hs, addTrue]
      | fls h => simp only [handleParseNode, h, handleValuePrimitive, handleValueLike, getNode, hb, Outcome.bind, hs, addFalse]
      | num h hp =>
        simp only [handleParseNode, h, handleValuePrimitive, handleValueLike, getNode, hb, Outcome.bind, hs, parseAddNumber, hp]
      | chars h hp =>
        simp only [handleParseNode, h, handleValuePrimitive, handleValueLike, getNode, hb, Outcome.bind, hs, parseAddCharList, hp]
      | bytes h hp =>
        simp only [handleParseNode, h, handleValuePrimitive, handleValueLike, getNode, hb, Outcome.bind, hs, parseAddByteList, hp]
      | sym h hp =>
        simp only [handleParseNode, h, handleValuePrimitive, handleValueLike, getNode, hb, Outcome.bind, hs,
          parseAddSymbolLiteral, hp, parseAddSymbol]
      | prop h =>
        simp only [handleParseNode, h, handleValueLike, getNode, hb, Outcome.bind, hs, parseAddSymbolText, parseAddSymbol]
    · simp only [emit]; exact hdat.pushConst _ _ _

/-- **`v [ body ]`** -/
theorem sim_side {hi i b : Nat} {x body : Expr F} {pn ps : ParseNode} (hpn : tree[i]? = some pn) (hl : pn.left = none)
    (hr : pn.right = some (i + 1)) (hx : LeafRep pf pn x) (hps : tree[i + 1]? = some ps) (hd : ps.definition = .sideEffect)
    (hrb : ps.right = some b) (hbi : i + 2 ≤ b ∧ b < hi) (hbt : b < tree.size)
    (ih : SimT pf tree bodies (i + 2) hi b body) : SimT pf tree bodies i hi i (.sideAfter x body) := by
  obtain ⟨⟨ins, hins⟩, h2, hj⟩ := leaf_second (i := i) hx
  exact sim_leaf_side hpn hins hl hr (by omega) (lt_of_get hps) h2 hj (fun _ _ _ => by simp only [emit])
    (sim_sideNode hps hd hrb hbi hbt ih)

end Garnish.Abs.Tree
