/-
The tie between the two builder models (18): `buildCore` on a tree that represents the program produces `compileInto`.
-/
import Garnish.Lemmas.CompileTree17
namespace Garnish.Abs.Tree
open Garnish Garnish.Gen Garnish.Spec Garnish.Abs Garnish.Model.Parser Garnish.Model.Literals Garnish.Model.Build

variable {F : Type} {pf : List Char → Option F} {tree : Array ParseNode}

/-- the object the structured compiler starts from: what the data object of `build` holds -/
def progOf (data : BState F) : Prog F := ⟨data.instrs, data.jumps, data.consts⟩

theorem allScheduled_of_all {nodes : Nodes} (hsz : nodes.size = tree.size)
    (h : ∀ x, x < tree.size → ∃ b, nodes[x]? = some (some b)) : allScheduled nodes tree = true := by
  simp only [allScheduled, List.all_eq_true]
  intro p hp
  obtain ⟨bn, pn⟩ := p
  obtain ⟨i, hi1, hi2⟩ := List.mem_iff_getElem.1 hp
  simp only [List.getElem_zip] at hi2
  have hlt : i < nodes.size := by simp at hi1; omega
  obtain ⟨b, hb⟩ := h i (by rw [← hsz]; exact hlt)
  have : bn = some b := by
    have h1 : nodes.toList[i]'(by simpa using hlt) = bn := (Prod.mk.inj hi2).1
    have h2 : nodes[i]? = some bn := by rw [← h1]; simp [hlt]
    rw [hb] at h2
    exact (Option.some.inj h2).symm
  simp [this]

theorem push_setIfInBounds (a : Array Nat) (v : Nat) : (a.push v).setIfInBounds a.size v = a.push v := by
  apply Array.ext
  · exact Array.size_setIfInBounds ..
  · intro i h1 h2
    rw [Array.getElem_setIfInBounds]
    split
    · rename_i h; subst h; simp
    · rfl

/-- **`buildCore` refines `compileInto`**: on a parse tree that represents the program (`Rep`, the whole array being the
subtree of `root`), started on a data object `data`, with enough fuel, the transliteration of `build` returns the entry
`data.jumps.size` and a data object whose instructions, jump table and constants are those of the structured compiler -/
theorem buildCore_refines (p : Program F) (data : BState F) (root fuel : Nat)
    (hrep : Rep pf tree p.bodies 0 tree.size root p.main)
    (hmain : lookupBody p.bodies data.jumps.size = some p.main)
    (hcomplete : (compileState (progOf data) p).pending = []) (hfuel : 2 * tree.size + 1 ≤ fuel) :
    ∃ d, buildCore pf fuel root tree data = .ok (d, data.jumps.size) ∧
      d.instrs = (compileInto (progOf data) p).1.instrs ∧ d.jumps = (compileInto (progOf data) p).1.jumps ∧
      d.consts = (compileInto (progOf data) p).1.consts := by
  have hb := hrep.bounds
  obtain ⟨rf, rfl⟩ : ∃ rf, fuel = rf + 1 := ⟨fuel - 1, by omega⟩
  -- the compile side: the first root
  generalize hR0 : (⟨.ref data.jumps.size, data.jumps.size, [(.endExpression, none)], data.jumps.size⟩ : Root F) = R0
  have hss : startState (progOf data) = LState.mk data.instrs (data.jumps.push data.instrs.size) data.consts
      [R0] [] (Array.replicate data.instrs.size 0) 0 [0] := by
    rw [← hR0]; rfl
  have inv0 : Inv (startState (progOf data)) := by
    rw [hss, ← hR0]
    refine ⟨fun r hr => ?_, fun r hr => ?_, fun r hr => ?_⟩ <;> simp only [List.mem_singleton] at hr <;> subst hr
    · simp
    · simp
    · intro id _; exact ⟨rfl, rfl⟩
  have hp0 : (startState (progOf data)).pending = R0 :: [] := by rw [hss]
  have hbody : rootBody p.bodies R0 = some p.main := by rw [← hR0]; simp [rootBody, hmain]
  have hcs : compileState (progOf data) p =
      layoutRoots p.bodies (bodiesSize p.bodies + 1) (layoutRoot p.bodies R0 { startState (progOf data) with pending := [] }) := by
    simp only [compileState, show bodiesSize p.bodies + 2 = (bodiesSize p.bodies + 1) + 1 from rfl, layoutRoots, hp0]
  have hlinv := (layoutRoot_facts p.bodies inv0 hp0).1
  rw [layoutRoot_eq] at hcs hlinv
  simp only [bodyState, hbody] at hcs hlinv
  generalize hs1 : LState.mk (startState (progOf data)).instrs
    ((startState (progOf data)).jumps.setIfInBounds R0.patch (startState (progOf data)).instrs.size)
    (startState (progOf data)).consts [] (R0 :: (startState (progOf data)).done) (startState (progOf data)).depths
    ((startState (progOf data)).pendDep.headD 0) (startState (progOf data)).pendDep.tail = s1 at hcs hlinv
  have hd1 : DataEq (pushToJumpTable data (getInstructionLen data)) s1 := by
    rw [← hs1, hss, ← hR0]
    exact ⟨rfl, by simp [pushToJumpTable, getInstructionLen, push_setIfInBounds], rfl⟩
  have s1_instrs : s1.instrs = data.instrs := by rw [← hs1, hss]
  have s1_pending : s1.pending = [] := by rw [← hs1]
  have s1_jsize : s1.jumps.size = data.jumps.size + 1 := by rw [← hs1, hss]; simp
  have hpatch : R0.patch = data.jumps.size := by rw [← hR0]
  have hcont : R0.containing = data.jumps.size := by rw [← hR0]
  have hterm : R0.term = [(.endExpression, none)] := by rw [← hR0]
  -- the build side: the first iteration
  generalize hn1 : putNode (Array.replicate tree.size none) root (BuildNode.new root (getJumpTableLen data)) = nodes1
  have hn1r : nodes1[root]? = some (some (mkNode root data.jumps.size none Ex.none)) := by
    rw [← hn1, get_putNode_same (by simpa using hb.2.2)]; rfl
  have hn1sz : nodes1.size = tree.size := by rw [← hn1]; simp
  have hj : rootJump data nodes1 root = .ok (pushToJumpTable data (getInstructionLen data), data.jumps.size) := by
    simp only [rootJump, hn1r, mkNode, BuildNode.new, Ex.none, Ex.ofCond, getJumpTableLen]
  obtain ⟨k, data3, nodes2, RS2, newR, hloop, hk1, hk2, hd3, hrs2, hp2, done⟩ :=
    root_iter (pf := pf) (bodies := p.bodies) (rf := rf) (sf := rf + 1) (ctx := ⟨data, nodes1, #[root], #[]⟩) (RSp := [])
      hrep (rfl : Ex.none.cond = none) rfl hj hn1sz hn1r hd1 (by rw [s1_jsize]; omega) (by omega) R0.patch
  rw [show Ex.none.ends.getD [(Instruction.endExpression, none)] = R0.term by rw [hterm]; rfl, s1_instrs, ← hcont] at hd3
  rw [hpatch, hcont] at hcs hlinv
  rw [hpatch, hcont] at hd3
  rw [hpatch] at hp2
  -- the invariant after it
  have inv1 : RInv pf tree p.bodies (addTerms data.instrs.size (emit data.jumps.size data.jumps.size p.main s1).instrs.back? R0.term
      (emit data.jumps.size data.jumps.size p.main s1)) ⟨data3, nodes2, RS2, #[]⟩ (newR ++ []) := by
    have hsi : (startState (progOf data)).instrs.size = data.instrs.size := by rw [hss]
    rw [hsi] at hlinv
    refine ⟨hd3, by rw [done.size]; exact hn1sz, by simp [hrs2], ?_, ?_, hlinv, by simpa using done.disj, ?_⟩
    · rw [(addTerms_pending _ _ _ _).1, hp2, s1_pending]; simp
    · intro q hq
      rw [List.append_nil] at hq
      obtain ⟨a, b', c, d, e⟩ := done.roots q hq
      have h2 := a (q.hi - 1) (by omega) (by omega)
      exact ⟨b', c, by simp only [Ival] at h2; omega, d, e⟩
    · intro x hx
      rcases done.cover x ⟨Nat.zero_le _, hx⟩ with h | ⟨q, hq, h⟩
      · exact .inl h
      · exact .inr ⟨q, by simpa using hq, h⟩
  have hsi : (startState (progOf data)).instrs.size = data.instrs.size := by rw [hss]
  rw [hsi] at hcs
  rw [hcs] at hcomplete
  obtain ⟨ctx', hl2, hd', hsz', hall⟩ := rootLoop_ok (2 * tree.size) (newR ++ []) _ _ rf (rf + 1 - k) (bodiesSize p.bodies + 1)
    (by simp only [List.append_nil]; omega) inv1 (by simp only [List.append_nil]; omega)
    (by simp only [List.append_nil]; omega) hcomplete
  refine ⟨ctx'.data, ?_, ?_, ?_, ?_⟩
  · simp only [buildCore]
    rw [setNodeIdx_ok (by simpa using hb.2.2), hn1]
    simp only [Outcome.bind]
    rw [hloop, hl2]
    simp only [allScheduled_of_all hsz' hall, if_true, getJumpTableLen]
  · simp only [compileInto, LState.toProg]; rw [hcs]; exact hd'.instrs
  · simp only [compileInto, LState.toProg]; rw [hcs]; exact hd'.jumps
  · simp only [compileInto, LState.toProg]; rw [hcs]; exact hd'.consts

end Garnish.Abs.Tree
