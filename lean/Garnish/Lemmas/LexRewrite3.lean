/-
Text-level rewrites, lexer side, part 3 (C18): blanks directly before a newline ("trailing whitespace on a line").
A newline ends the pending token of a plain state like a blank does (`stateStep_newline`); right after the first newline
of a whitespace run the two lexers (`"\n"` pending with type Subexpression, `w ++ "\n"` pending with type Whitespace) are
related by `SubRel` — equal except for pending characters, pending TYPE and positions — and the Subexpression arm assigns
the type anew on the next character (`processChar_sub`), after which `WsRel` / `PosEq` take over (`lexLoop_sub`).
`lex_trailing_line`: the token lists differ in the text of one whitespace token only.
-/
import Garnish.Lemmas.LexRewrite2b
set_option linter.unusedSimpArgs false
set_option linter.unusedVariables false
namespace Garnish.Model.Lexer
open Garnish.Model Garnish.Model.Parser Garnish.Spec

/-- no path of the operator tree contains a newline -/
def pathsNewlineFree : Bool := (pathsFuel 4 theTree []).all fun pn => !pn.1.contains '\n'

theorem pathsNewlineFree_true : pathsNewlineFree = true := by decide +kernel

theorem walk_newline_none (cs : List Char) : walkOperator theTree (cs ++ ['\n']) = none := by
  cases hw : walkOperator theTree (cs ++ ['\n']) with
  | none => rfl
  | some n =>
    exfalso
    have hmem := walk_mem_paths (cs ++ ['\n']) 4 theTree n [] hw (walk_length_le _ n hw)
    have hc := pathsNewlineFree_true
    unfold pathsNewlineFree at hc
    rw [List.all_eq_true] at hc
    have := hc _ hmem
    simp at this

/-- a newline ends the pending token of a plain state like a blank does -/
theorem stateStep_newline (cc : CharClass) (hcc : cc.Sane) (σ : Lexer) (hs : PlainState σ.state)
    (htr : σ.operatorTree = theTree) : stateStep cc σ '\n' = .ok (.cont (endOf σ) none true) := by
  have hA := hcc.nlAlphanumeric
  have hN := hcc.nlNumeric
  have hid : isIdentifierChar cc '\n' = false := by simp [isIdentifierChar, hA]
  unfold stateStep endOf
  rcases hs with hs | hs | hs | hs | hs <;> rw [hs] <;> simp only [Step.ofPair, reduceCtorEq, ↓reduceIte]
  · simp [armNumber, hN, hA]
  · simp [armFloat, hN, hA]
  · simp only [armIdentifier, hid, Bool.false_eq_true, ↓reduceIte, symFix]
    simp
  · simp [armAnnotation, hA]
  · have hw : walkOperator σ.operatorTree (σ.currentCharacters ++ ['\n']) = none := by
      rw [htr]; exact walk_newline_none _
    have hidl : isIdentifier cc (σ.currentCharacters ++ ['\n']) = false := by simp [isIdentifier, hid]
    simp [armOperator, currentOperator, push, hw, hidl, hN]

/-- forget the pending characters and the pending token type -/
def eraseCT (σ : Lexer) : Lexer := { σ with currentCharacters := [], currentTokenType := none }

/-- two lexers right after the first newline of a whitespace run: Subexpression state, pending texts that differ in a
prefix only; the pending TYPES may differ (Subexpression when the newline started the token, Whitespace when blanks did) —
the Subexpression arm assigns the type anew on the next character -/
structure SubRel (σ σ' : Lexer) (u u' z : List Char) : Prop where
  pos : PosEq (eraseCT σ) (eraseCT σ')
  state : σ.state = .subexpression
  chars : σ.currentCharacters = u ++ z
  chars' : σ'.currentCharacters = u' ++ z

theorem posEq_eraseCT {a b : Lexer} (h : PosEq (eraseCT a) (eraseCT b)) :
    b.operatorTree = a.operatorTree ∧ b.shouldCreate = a.shouldCreate ∧
    b.state = a.state ∧ b.canFloat = a.canFloat ∧ b.startQuoteCount = a.startQuoteCount ∧
    b.endQuoteCount = a.endQuoteCount ∧ b.couldBeSubExpression = a.couldBeSubExpression ∧ b.result = a.result ∧
    b.atEnd = a.atEnd := by
  obtain ⟨e0, e3, e2, e4, e1, e5, e6, e7, e8, e9, e10⟩ := (posEq_iff _ _).mp h
  exact ⟨e0, e4, e1, e5, e6, e7, e8, e9, e10⟩

theorem armSubexpression_sub (a b : Lexer) (c : Char) (h : PosEq (eraseCT a) (eraseCT b))
    (hs : a.state = .subexpression) : WsArm a b c (armSubexpression a c) (armSubexpression b c) := by
  obtain ⟨e0, e4, e1, e5, e6, e7, e8, e9, e10⟩ := posEq_eraseCT h
  unfold armSubexpression
  repeat' split
  all_goals
    constructor <;>
      simp_all [posEq_iff, eraseChars, push]

/-- one character on two such lexers -/
theorem processChar_sub (cc : CharClass) (σ σ' : Lexer) (u u' z : List Char) (c : Char) (h : SubRel σ σ' u u' z) :
    ∃ σ1 σ1' ot ot', processChar cc σ c = .ok (σ1, ot) ∧ processChar cc σ' c = .ok (σ1', ot') ∧
      WsStep σ1 σ1' ot ot' u u' z c := by
  obtain ⟨hpos, hs, hch, hch'⟩ := h
  obtain ⟨e0, e4, e1, e5, e6, e7, e8, e9, e10⟩ := posEq_eraseCT hpos
  have hpos0 : PosEq (eraseCT { σ with charactersLexed := σ.charactersLexed + 1 })
      (eraseCT { σ' with charactersLexed := σ'.charactersLexed + 1 }) := by
    rw [posEq_iff]; simp [eraseCT, *]
  unfold processChar
  simp only []
  rw [stateStep_subexpression cc _ c (by simpa using hs), stateStep_subexpression cc _ c (by simpa [e1] using hs)]
  have harm := armSubexpression_sub { σ with charactersLexed := σ.charactersLexed + 1 }
    { σ' with charactersLexed := σ'.charactersLexed + 1 } c hpos0 (by simpa using hs)
  obtain ⟨σ1, σ1', ot, ot', h1, h2, hstep⟩ := finish_ws cc _ _ c u u' z _ _ (by simpa using hch) (by simpa using hch') harm
  exact ⟨σ1, σ1', ot, ot', by simp only [Step.ofPair, h1], by simp only [Step.ofPair, h2], hstep⟩

theorem SubRel_atEnd {σ σ' : Lexer} {u u' z : List Char} (h : SubRel σ σ' u u' z) :
    SubRel { σ with atEnd := true } { σ' with atEnd := true } u u' z := by
  obtain ⟨hpos, hs, hch, hch'⟩ := h
  obtain ⟨e0, e4, e1, e5, e6, e7, e8, e9, e10⟩ := posEq_eraseCT hpos
  exact ⟨by rw [posEq_iff]; simp [eraseCT, *], hs, hch, hch'⟩

theorem lexEnd_sub (cc : CharClass) (hcc : cc.Sane) (toks : List LexerToken) (u u' : List Char)
    (fuel : Nat) (σ σ' : Lexer) (z : List Char) (h : SubRel σ σ' u u' z) (hi : Inv σ) (hi' : Inv σ') :
    WsOut toks u u' (lexEnd cc (fuel + 1) σ toks) (lexEnd cc (fuel + 1) σ' toks) := by
  obtain ⟨e0, e4, e1, e5, e6, e7, e8, e9, e10⟩ := posEq_eraseCT h.pos
  simp only [lexEnd]
  have hEb : σ'.result.isErr = σ.result.isErr := by rw [e9]
  rw [hEb]
  by_cases hE : σ.result.isErr = true
  · rw [if_pos hE, if_pos hE]
    have hr := isErr_true_iff.mp hE
    rw [lexFinish_err _ hr, lexFinish_err _ (by rw [e9]; exact hr)]
    trivial
  · rw [if_neg hE, if_neg hE]
    (try simp only [])
    obtain ⟨σ1, σ1', ot, ot', h1, h2, hstep⟩ := processChar_sub cc _ _ u u' z '\x00' (SubRel_atEnd h)
    have hia : Inv { σ with atEnd := true } := Inv_congr rfl rfl hi
    have hia' : Inv { σ' with atEnd := true } := Inv_congr rfl rfl hi'
    have hi1 := processChar_inv2 cc hcc _ _ _ _ hia h1
    have hi1' := processChar_inv2 cc hcc _ _ _ _ hia' h2
    rw [h1, h2]
    rcases hstep with ⟨rfl, rfl, hrel⟩ | ⟨t, t', z', rfl, rfl, hty, hwst, ht1, ht2, hpe⟩
    · simp only []
      obtain ⟨f0, f2, f4, f1, f5, f6, f7, f8, f9, f10⟩ := posEq_erase hrel.pos
      have hl1 : utf8Len σ1.currentCharacters > 0 := utf8Len_pos_of_ne_nil (by rw [hrel.chars]; simp)
      have hl2 : utf8Len σ1'.currentCharacters > 0 := utf8Len_pos_of_ne_nil (by rw [hrel.chars']; simp)
      cases hr : σ1.result with
      | ok =>
        have hr' : σ1'.result = .ok := by rw [f9]; exact hr
        simp only [hl1, hl2, hr, hr', LexResult.isOk, decide_true, Bool.and_self, ↓reduceIte]
        rw [lexFinish_err _ rfl, lexFinish_err _ rfl]; trivial
      | err =>
        have hr' : σ1'.result = .err := by rw [f9]; exact hr
        simp only [hr, hr', LexResult.isOk, Bool.and_false, Bool.false_eq_true, ↓reduceIte]
        rw [lexFinish_err _ hr, lexFinish_err _ hr']; trivial
    · simp only []
      obtain ⟨f0, f3, f2, f4, f1, f5, f6, f7, f8, f9, f10⟩ := (posEq_iff σ1 σ1').mp hpe
      rw [f9]
      cases σ1.result with
      | err => trivial
      | ok =>
        simp only []
        have := lexEnd_congr cc hcc (toks ++ [t]) (toks ++ [t']) fuel σ1 σ1' [] [] hpe hi1 hi1' (SameTT.refl [])
        simp only [List.append_nil] at this
        exact wsOut_of_ext hty hwst ht1 ht2 this

/-- the rest of the input from two lexers right after the first newline of a whitespace run -/
theorem lexLoop_sub (cc : CharClass) (hcc : cc.Sane) (toks : List LexerToken) (u u' : List Char)
    (input : List Char) (σ σ' : Lexer) (z : List Char) (h : SubRel σ σ' u u' z) (hi : Inv σ) (hi' : Inv σ') :
    WsOut toks u u' (lexLoop cc input σ toks) (lexLoop cc input σ' toks) := by
  cases input with
  | nil =>
    simp only [lexLoop]
    exact lexEnd_sub cc hcc toks u u' 3 σ σ' z h hi hi'
  | cons c rest =>
    obtain ⟨e0, e4, e1, e5, e6, e7, e8, e9, e10⟩ := posEq_eraseCT h.pos
    simp only [lexLoop]
    have hEb : σ'.result.isErr = σ.result.isErr := by rw [e9]
    rw [hEb]
    by_cases hE : σ.result.isErr = true
    · rw [if_pos hE, if_pos hE]
      have hr := isErr_true_iff.mp hE
      rw [lexFinish_err _ hr, lexFinish_err _ (by rw [e9]; exact hr)]
      trivial
    · rw [if_neg hE, if_neg hE]
      obtain ⟨σ1, σ1', ot, ot', h1, h2, hstep⟩ := processChar_sub cc σ σ' u u' z c h
      have hi1 := processChar_inv2 cc hcc _ _ _ _ hi h1
      have hi1' := processChar_inv2 cc hcc _ _ _ _ hi' h2
      rw [h1, h2]
      rcases hstep with ⟨rfl, rfl, hrel⟩ | ⟨t, t', z', rfl, rfl, hty, hwst, ht1, ht2, hpe⟩
      · exact lexLoop_ws cc hcc toks u u' rest σ1 σ1' _ hrel hi1 hi1'
      · simp only []
        obtain ⟨f0, f3, f2, f4, f1, f5, f6, f7, f8, f9, f10⟩ := (posEq_iff σ1 σ1').mp hpe
        rw [f9]
        cases σ1.result with
        | err => trivial
        | ok =>
          simp only []
          have := lexLoop_congr cc hcc (toks ++ [t]) (toks ++ [t']) rest σ1 σ1' [] [] hpe hi1 hi1' (SameTT.refl [])
          simp only [List.append_nil] at this
          exact wsOut_of_ext hty hwst ht1 ht2 this

/-- a lexer between tokens from which the next token is started -/
structure BaseOK (B : Lexer) : Prop where
  tree : B.operatorTree = theTree
  create : B.shouldCreate = true
  ok : B.result = .ok
  couldBe : B.couldBeSubExpression = false

/-- a newline starts a Subexpression-state token -/
theorem base_newline (cc : CharClass) (B : Lexer) (hB : BaseOK B) :
    (bumpColumn (startToken cc B '\n') '\n').state = .subexpression ∧
    (bumpColumn (startToken cc B '\n') '\n').currentCharacters = ['\n'] ∧
    PosEq (eraseCT (bumpColumn (startToken cc B '\n') '\n')) (eraseCT { B with state := .subexpression }) := by
  rw [startToken_newline cc B hB.tree]
  refine ⟨by simp [bumpColumn], by simp [bumpColumn], ?_⟩
  rw [posEq_iff]; simp [bumpColumn, eraseCT]

/-- a blank starts a Whitespace token -/
theorem base_blank (cc : CharClass) (B : Lexer) (c : Char) (hc : IsBlank c) (hB : BaseOK B) :
    InWhitespace (bumpColumn (startToken cc B c) c) [c] ∧ (bumpColumn (startToken cc B c) c).operatorTree = theTree ∧
    PosEq (eraseCT (bumpColumn (startToken cc B c) c)) (eraseCT { B with state := .spaces }) := by
  rw [startToken_blank cc B c hc hB.tree]
  rcases hc with rfl | rfl
  all_goals
    refine ⟨⟨⟨?_, ?_, ?_, ?_, ?_⟩, ?_⟩, ?_, ?_⟩
    all_goals first
      | (rw [posEq_iff]; simp [bumpColumn, eraseCT])
      | simp [bumpColumn, hB.tree, hB.create, hB.ok, hB.couldBe]

/-- the first newline inside a Whitespace token -/
theorem inWhitespace_newline (cc : CharClass) (σ : Lexer) (cs : List Char) (h : InWhitespace σ cs) :
    ∃ σ1, processChar cc σ '\n' = .ok (σ1, none) ∧ σ1.state = .subexpression ∧ σ1.currentCharacters = cs ++ ['\n'] ∧
      PosEq (eraseCT σ1) (eraseCT { σ with state := .subexpression }) := by
  obtain ⟨⟨h1, h2, h3, h4, h5⟩, hty⟩ := h
  simp only [processChar, stateStep, h1, Step.ofPair, armSpaces, finishChar, h3]
  refine ⟨_, rfl, by simp [bumpColumn], by simp [bumpColumn, push, h2], ?_⟩
  rw [posEq_iff]; simp [bumpColumn, eraseCT]

/-- from a base lexer: `\n` on one side, blanks then `\n` on the other, reach `SubRel`-related lexers without emitting -/
theorem newline_vs_blanks_newline (cc : CharClass) (B : Lexer) (c : Char) (r : List Char) (hc : IsBlank c)
    (hr : ∀ x ∈ r, IsBlank x) (hB : BaseOK B) (T : List LexerToken) :
    ∃ σn', runChars cc (r ++ ['\n']) (bumpColumn (startToken cc B c) c) T = .ok (σn', T) ∧
      SubRel (bumpColumn (startToken cc B '\n') '\n') σn' [] (c :: r) ['\n'] ∧
      Inv (bumpColumn (startToken cc B '\n') '\n') ∧ Inv σn' := by
  obtain ⟨hX1, hX2, hX3⟩ := base_newline cc B hB
  obtain ⟨hY1, hY2, hY3⟩ := base_blank cc B c hc hB
  obtain ⟨σ3, hrun3, hin3, hpe3⟩ := inWhitespace_run cc r _ [c] T hY1 hr
  obtain ⟨σn', hp, hs', hch', hpe'⟩ := inWhitespace_newline cc σ3 _ hin3
  have hrun : runChars cc (r ++ ['\n']) (bumpColumn (startToken cc B c) c) T = .ok (σn', T) := by
    rw [runChars_append cc r ['\n'] _ σ3 T T hrun3, runChars_none cc '\n' [] σ3 σn' T hin3.wsA.ok hp]
    rfl
  refine ⟨σn', hrun, ⟨?_, hX1, (by rw [hX2]; rfl), (by rw [hch']; simp)⟩, (fun h => by rw [hX1] at h; cases h),
    (fun h => by rw [hs'] at h; cases h)⟩
  -- all non-position fields other than characters and type agree, through the base lexer
  obtain ⟨a0, a4, a1, a5, a6, a7, a8, a9, a10⟩ := posEq_eraseCT hX3
  obtain ⟨b0, b4, b1, b5, b6, b7, b8, b9, b10⟩ := posEq_eraseCT hY3
  obtain ⟨c0, c2, c4, c1, c5, c6, c7, c8, c9, c10⟩ := posEq_erase hpe3
  obtain ⟨d0, d4, d1, d5, d6, d7, d8, d9, d10⟩ := posEq_eraseCT hpe'
  simp only [] at a0 a4 a1 a5 a6 a7 a8 a9 a10 b0 b4 b1 b5 b6 b7 b8 b9 b10 d0 d4 d1 d5 d6 d7 d8 d9 d10
  rw [posEq_iff]
  simp only [eraseCT]
  refine ⟨?_, trivial, trivial, ?_, ?_, ?_, ?_, ?_, ?_, ?_, ?_⟩
  · rw [← d0, c0, ← b0, a0]
  · rw [← d4, c4, ← b4, a4]
  · rw [hs', hX1]
  · rw [← d5, c5, ← b5, a5]
  · rw [← d6, c6, ← b6, a6]
  · rw [← d7, c7, ← b7, a7]
  · rw [← d8, c8, ← b8, a8]
  · rw [← d9, c9, ← b9, a9]
  · rw [← d10, c10, ← b10, a10]

theorem oneWsChanged_of_wsOut {T : List LexerToken} {u u' : List Char} {t : List LexerToken} {σf : Lexer}
    {R : Outcome (List LexerToken × Lexer)} (h : WsOut T u u' (.ok (t, σf)) R) :
    ∃ t' σ', R = .ok (t', σ') ∧ OneWsChanged t t' := by
  cases R with
  | ok q =>
    obtain ⟨t', σ'⟩ := q
    simp only [WsOut] at h
    obtain ⟨x, x', z', rest, rest', e1, e2, hty, hws, _, _, hs⟩ := h
    exact ⟨t', σ', rfl, T, x, x', rest, rest', e1, e2, hty, hws, hs⟩
  | err e => simp [WsOut] at h
  | panic m => simp [WsOut] at h
  | fuelOut => simp [WsOut] at h

theorem afterEmit_baseOK (e : Lexer) (htr : e.operatorTree = theTree) (hcr : e.shouldCreate = true) :
    BaseOK (afterEmit e) := ⟨by simpa [afterEmit] using htr, by simpa [afterEmit] using hcr, rfl, rfl⟩

/-- **blanks directly before a newline, lexer level**: `p ++ "\n" ++ b` and `p ++ w ++ "\n" ++ b` (`w` a non-empty run of
spaces/tabs, the lexer ends `p` in a `TrailState`) lex to the same tokens except for the text of the one whitespace
token that starts at the end of `p` (texts `"\n" ++ z'` and `w ++ "\n" ++ z'`; same type: Whitespace before a single
newline, Subexpression before a blank line) -/
theorem lex_trailing_line (cc : CharClass) (hcc : cc.SaneBlank) (hcc2 : cc.Sane2) (p : List Char) (c : Char)
    (r b : List Char) (hc : IsBlank c) (hr : ∀ x ∈ r, IsBlank x) (σ : Lexer) (toks : List LexerToken)
    (hrun : runChars cc p (Lexer.init theTree) [] = .ok (σ, toks)) (hG : TrailState σ) (t : List LexerToken)
    (hl : lex cc (p ++ '\n' :: b) = .ok t) :
    ∃ t', lex cc (p ++ c :: (r ++ '\n' :: b)) = .ok t' ∧ OneWsChanged t t' := by
  obtain ⟨hcore, hinv, hat, htr⟩ := runChars_core cc hcc2 p _ σ [] [] toks (Core_init theTree)
    (fun h => by simp [Lexer.init] at h) rfl hrun
  have htr : σ.operatorTree = theTree := htr
  obtain ⟨σf, hfull⟩ := lex_of_lexFull hl
  have e1 : lexFull cc (p ++ '\n' :: b) = lexLoop cc ('\n' :: b) σ toks := by
    unfold lexFull; rw [new_eq]; simp only []
    exact lexLoop_append cc p ('\n' :: b) _ σ [] toks hrun
  have e2 : lexFull cc (p ++ c :: (r ++ '\n' :: b)) = lexLoop cc (c :: (r ++ '\n' :: b)) σ toks := by
    unfold lexFull; rw [new_eq]; simp only []
    exact lexLoop_append cc p _ _ σ [] toks hrun
  rw [e1] at hfull
  have hok : σ.result = .ok := by
    cases hres : σ.result with
    | ok => rfl
    | err => rw [lexLoop_err cc _ σ toks hres] at hfull; cases hfull
  have hcore : Core σ ([] ++ p) toks := by
    rcases hcore with h | h
    · rw [hok] at h; cases h
    · exact h
  have hcr := hcore.create
  suffices hsuff : ∃ T u u', WsOut T u u' (lexLoop cc ('\n' :: b) σ toks) (lexLoop cc (c :: (r ++ '\n' :: b)) σ toks) by
    obtain ⟨T, u, u', hw⟩ := hsuff
    rw [hfull] at hw
    obtain ⟨t', σ', hR, hone⟩ := oneWsChanged_of_wsOut hw
    exact ⟨t', by simp [lex, e2, hR], hone⟩
  have hsplit : r ++ '\n' :: b = (r ++ ['\n']) ++ b := by simp
  simp only [lexLoop, isErr_of_ok hok, Bool.false_eq_true, ↓reduceIte]
  rcases hG with hplain | ⟨hnt, hcb⟩
  · -- a pending token: both characters end it
    let τ : Lexer := { σ with charactersLexed := σ.charactersLexed + 1 }
    have hxb : Ender c := by rcases hc with h | h; exact Or.inl h; exact Or.inr (Or.inl h)
    have hsn := stateStep_newline cc hcc.toSane τ hplain htr
    have hsc := stateStep_ender cc hcc τ c hxb hplain htr
    have hpn : processChar cc σ '\n' = .ok (finishChar cc (endOf τ) '\n' none true) := by
      unfold processChar; simp only []; rw [show stateStep cc τ '\n' = _ from hsn]
    have hpc : processChar cc σ c = .ok (finishChar cc (endOf τ) c none true) := by
      unfold processChar; simp only []; rw [show stateStep cc τ c = _ from hsc]
    rw [hpn, hpc]
    obtain ⟨f1, f2, f3, f4, f5, f6, f7⟩ := endOf_fields τ
    have hnt : (endOf τ).state ≠ .noToken := by
      rw [f2]; show σ.state ≠ _; rcases hplain with h | h | h | h | h <;> (rw [h]; decide)
    have hbad : ∀ (hb : canCreateValidToken { endOf τ with canFloat := !blocksFloat (endOf τ).currentTokenType } = .err ∨
        (endOf τ).currentTokenType = none), False := by
      intro hb
      have hn := finishChar_bad cc (endOf τ) '\n' hnt hb
      simp only [lexLoop, isErr_of_ok hok, Bool.false_eq_true, ↓reduceIte] at hfull
      rw [hpn] at hfull
      generalize finishChar cc (endOf τ) '\n' none true = q at hn hfull
      obtain ⟨q1, q2⟩ := q
      simp only [] at hn
      obtain ⟨hq1, rfl⟩ := hn
      simp only [] at hfull
      rw [lexLoop_err cc b q1 toks hq1] at hfull
      cases hfull
    cases hcv : canCreateValidToken { endOf τ with canFloat := !blocksFloat (endOf τ).currentTokenType } with
    | err => exact (hbad (Or.inl hcv)).elim
    | ok =>
      cases hty : (endOf τ).currentTokenType with
      | none => exact (hbad (Or.inr hty)).elim
      | some ty =>
        have hB := afterEmit_baseOK (endOf τ) (by rw [f6]; exact htr) (by rw [f5]; exact hcr)
        rw [finishChar_ok cc (endOf τ) '\n' hnt ty hcv hty, finishChar_ok cc (endOf τ) c hnt ty hcv hty]
        rw [if_pos (by rw [f5]; exact hcr), if_pos (by rw [f5]; exact hcr)]
        simp only []
        obtain ⟨σn', hrunr, hsub, hiX, hiN⟩ := newline_vs_blanks_newline cc (afterEmit (endOf τ)) c r hc hr hB
          (toks ++ [⟨(endOf τ).currentCharacters, ty, (endOf τ).tokenStartRow, (endOf τ).tokenStartColumn⟩])
        obtain ⟨_, _, hX3⟩ := base_newline cc (afterEmit (endOf τ)) hB
        obtain ⟨hY1, _, _⟩ := base_blank cc (afterEmit (endOf τ)) c hc hB
        have hXok : (bumpColumn (startToken cc (afterEmit (endOf τ)) '\n') '\n').result = .ok := by
          have := (posEq_eraseCT hX3).2.2.2.2.2.2.2.1
          simp only [eraseCT] at this
          rw [← this]; rfl
        rw [hXok, hY1.wsA.ok]
        simp only []
        rw [hsplit, lexLoop_append cc (r ++ ['\n']) b _ σn' _ _ hrunr]
        exact ⟨_, [], c :: r, lexLoop_sub cc hcc.toSane _ [] (c :: r) b _ σn' ['\n'] hsub hiX hiN⟩
  · -- between tokens
    have hB : BaseOK { σ with charactersLexed := σ.charactersLexed + 1 } := ⟨htr, hcr, hok, hcb⟩
    rw [processChar_noToken cc σ '\n' hnt, processChar_noToken cc σ c hnt]
    simp only []
    obtain ⟨σn', hrunr, hsub, hiX, hiN⟩ := newline_vs_blanks_newline cc _ c r hc hr hB toks
    rw [hsplit, lexLoop_append cc (r ++ ['\n']) b _ σn' _ _ hrunr]
    exact ⟨_, [], c :: r, lexLoop_sub cc hcc.toSane _ [] (c :: r) b _ σn' ['\n'] hsub hiX hiN⟩

end Garnish.Model.Lexer
