/-
Lexing of SPELLED literals, part 2 (C14, lexer side): the step that ends a token and starts the next one (`emit_step`),
the first character of a token between tokens (`start_step`), the last closing quote (`close_charList` /
`close_byteList`), the two ways a pending token ends — a blank after it (`tail_blank`) and the end of the input
(`tail_end`) —, and runs of continuing characters (`run_ind`).
-/
import Garnish.Lemmas.LexSpell
set_option linter.unusedSimpArgs false
set_option linter.unusedVariables false
namespace Garnish.Model.Lexer
open Garnish.Model Garnish.Model.Parser Garnish.Spec

/-- `start_token` on `x` starts a token in state `st` with pending type `ty` -/
def Starts (cc : CharClass) (x : Char) (st : LexingState) (ty : Option Gen.TokenType) : Prop :=
  ∀ σ : Lexer, σ.operatorTree = theTree →
    startToken cc σ x = { σ with currentCharacters := [x], currentTokenType := ty, tokenStartRow := σ.textRow, tokenStartColumn := σ.textColumn, state := st }

theorem starts_blank (cc : CharClass) (c : Char) (hc : IsBlank c) : Starts cc c .spaces (some .whitespace) :=
  fun σ h => startToken_blank cc σ c hc h

theorem canCreate_ok (e : Lexer) (ty : Gen.TokenType) (h : e.currentTokenType = some ty) (hne : ty ≠ .identifier) :
    canCreateValidToken { e with canFloat := !blocksFloat e.currentTokenType } = .ok := by
  unfold canCreateValidToken
  simp only [h]

/-- the arm ended the pending token (type `ty`, text `cs`), the character `x` starts the next one -/
theorem emit_step (cc : CharClass) (σ e : Lexer) (x : Char) {st ty cs p0 p sq eq ae st' ty'}
    (hstep : stateStep cc { σ with charactersLexed := σ.charactersLexed + 1 } x = .ok (.cont e none true))
    (he : At e st (some ty) cs p0 p sq eq ae) (hnt : st ≠ .noToken) (hne : ty ≠ .identifier) (hst : Starts cc x st' ty') :
    ∃ σ', processChar cc σ x = .ok (σ', some ⟨cs, ty, p0.1, p0.2⟩) ∧ At σ' st' ty' [x] p (adv p x) 0 0 ae := by
  have hf := finishChar_ok cc e x (by rw [he.state]; exact hnt) ty (canCreate_ok e ty he.type hne) he.type
  rw [if_pos he.create, hst (afterEmit e) (by simp only [afterEmit]; exact he.tree)] at hf
  have hp : processChar cc σ x = .ok (finishChar cc e x none true) := by
    unfold processChar; simp only []; rw [hstep]
  rw [hf, he.chars, he.srow, he.scol] at hp
  refine ⟨_, hp, At.bump ?_ x⟩
  obtain ⟨h1, h2, h3, h4, h5, h6, h7, h8, h9, h10, h11, h12, h13⟩ := he
  constructor <;> simp_all [afterEmit]

/-- the first character of a token, between tokens -/
theorem start_step (cc : CharClass) (σ : Lexer) (x : Char) {p0 p ae st ty} (h : At σ .noToken none [] p0 p 0 0 ae)
    (hst : Starts cc x st ty) :
    ∃ σ', processChar cc σ x = .ok (σ', none) ∧ At σ' st ty [x] p (adv p x) 0 0 ae := by
  have hp := processChar_noToken cc σ x h.state
  rw [hst _ (h.lexed (σ.charactersLexed + 1)).tree] at hp
  refine ⟨_, hp, At.bump ?_ x⟩
  obtain ⟨h1, h2, h3, h4, h5, h6, h7, h8, h9, h10, h11, h12, h13⟩ := h
  constructor <;> simp_all

/-- the arm ended the token and asked to skip `start_token` (`should_create = false`): the closing quote -/
theorem emit_noCreate (cc : CharClass) (σ e : Lexer) (x : Char) (t : Gen.TokenType)
    (hstep : stateStep cc { σ with charactersLexed := σ.charactersLexed + 1 } x = .ok (.cont e none true))
    (hs : e.state ≠ .noToken) (hty : e.currentTokenType = some t) (hne : t ≠ .identifier) (hcr : e.shouldCreate = false) :
    processChar cc σ x = .ok (bumpColumn { afterEmit e with shouldCreate := true } x,
      some ⟨e.currentCharacters, t, e.tokenStartRow, e.tokenStartColumn⟩) := by
  have hf := finishChar_ok cc e x hs t (canCreate_ok e t hty hne) hty
  rw [hcr] at hf
  simp only [Bool.false_eq_true, ↓reduceIte] at hf
  unfold processChar; simp only []; rw [hstep]; simp only []; rw [hf]

theorem close_charList_arm (cc : CharClass) (τ : Lexer) {t cs p0 p sq eq ae}
    (h : At τ .charList (some t) cs p0 p sq eq ae) (hq : sq = eq + 1) :
    ∃ e, stateStep cc τ '"' = .ok (.cont e none true) ∧ e.state ≠ .noToken ∧ e.currentTokenType = some t ∧
      e.shouldCreate = false ∧ e.currentCharacters = cs ++ ['"'] ∧ e.tokenStartRow = p0.1 ∧ e.tokenStartColumn = p0.2 ∧
      At { afterEmit e with shouldCreate := true } .noToken none [] p0 p 0 0 ae := by
  obtain ⟨h1, h2, h3, h4, h5, h6, h7, h8, h9, h10, h11, h12, h13⟩ := h
  have hqq : (τ.startQuoteCount == τ.endQuoteCount + 1) = true := by rw [h12, h13]; simpa using hq
  have hs : stateStep cc τ '"' = .ok (.cont
      { τ with endQuoteCount := τ.endQuoteCount + 1, currentCharacters := τ.currentCharacters ++ ['"'], shouldCreate := false } none true) := by
    unfold stateStep; rw [h1]
    simp [Step.ofPair, armCharList, push, hqq, h1]
  refine ⟨_, hs, by simp [h1], by simp [h2], rfl, by simp [h3], by simp [h4], by simp [h5], ?_⟩
  constructor <;> simp_all [afterEmit]

theorem close_charList (cc : CharClass) (σ : Lexer) {t cs p0 p sq eq ae} (h : At σ .charList (some t) cs p0 p sq eq ae)
    (hq : sq = eq + 1) (hne : t ≠ .identifier) :
    ∃ σ', processChar cc σ '"' = .ok (σ', some ⟨cs ++ ['"'], t, p0.1, p0.2⟩) ∧
      At σ' .noToken none [] p0 (adv p '"') 0 0 ae := by
  obtain ⟨e, hs, h1, h2, h3, h4, h5, h6, h7⟩ := close_charList_arm cc _ (h.lexed (σ.charactersLexed + 1)) hq
  have hp := emit_noCreate cc σ e '"' t hs h1 h2 hne h3
  rw [h4, h5, h6] at hp
  exact ⟨_, hp, h7.bump '"'⟩

theorem close_byteList_arm (cc : CharClass) (τ : Lexer) {t cs p0 p sq eq ae}
    (h : At τ .byteList (some t) cs p0 p sq eq ae) (hq : sq = eq + 1) :
    ∃ e, stateStep cc τ '\'' = .ok (.cont e none true) ∧ e.state ≠ .noToken ∧ e.currentTokenType = some t ∧
      e.shouldCreate = false ∧ e.currentCharacters = cs ++ ['\''] ∧ e.tokenStartRow = p0.1 ∧ e.tokenStartColumn = p0.2 ∧
      At { afterEmit e with shouldCreate := true } .noToken none [] p0 p 0 0 ae := by
  obtain ⟨h1, h2, h3, h4, h5, h6, h7, h8, h9, h10, h11, h12, h13⟩ := h
  have hqq : (τ.startQuoteCount == τ.endQuoteCount + 1) = true := by rw [h12, h13]; simpa using hq
  have hs : stateStep cc τ '\'' = .ok (.cont
      { τ with endQuoteCount := τ.endQuoteCount + 1, currentCharacters := τ.currentCharacters ++ ['\''], shouldCreate := false } none true) := by
    unfold stateStep; rw [h1]
    simp [Step.ofPair, armByteList, push, hqq, h1]
  refine ⟨_, hs, by simp [h1], by simp [h2], rfl, by simp [h3], by simp [h4], by simp [h5], ?_⟩
  constructor <;> simp_all [afterEmit]

theorem close_byteList (cc : CharClass) (σ : Lexer) {t cs p0 p sq eq ae} (h : At σ .byteList (some t) cs p0 p sq eq ae)
    (hq : sq = eq + 1) (hne : t ≠ .identifier) :
    ∃ σ', processChar cc σ '\'' = .ok (σ', some ⟨cs ++ ['\''], t, p0.1, p0.2⟩) ∧
      At σ' .noToken none [] p0 (adv p '\'') 0 0 ae := by
  obtain ⟨e, hs, h1, h2, h3, h4, h5, h6, h7⟩ := close_byteList_arm cc _ (h.lexed (σ.charactersLexed + 1)) hq
  have hp := emit_noCreate cc σ e '\'' t hs h1 h2 hne h3
  rw [h4, h5, h6] at hp
  exact ⟨_, hp, h7.bump '\''⟩

/-! ## how a pending token ends -/

/-- in state `st` with text `cs`, a space, a tab and the sentinel end the pending token, with type `ty` -/
def Ending (cc : CharClass) (st : LexingState) (ty0 : Option Gen.TokenType) (cs : List Char) (ty : Gen.TokenType) : Prop :=
  ∀ (τ : Lexer) (c : Char) (p0 p : Nat × Nat) (sq eq : Nat) (ae : Bool), Ender c → At τ st ty0 cs p0 p sq eq ae →
    ∃ e, stateStep cc τ c = .ok (.cont e none true) ∧ At e st (some ty) cs p0 p sq eq ae

theorem ender_of_blank {c : Char} (hc : IsBlank c) : Ender c := by
  rcases hc with h | h
  · exact Or.inl h
  · exact Or.inr (Or.inl h)

/-- a blank after the pending token: the token is emitted, a Whitespace token starts -/
theorem tail_blank (cc : CharClass) (σ : Lexer) (c : Char) (hc : IsBlank c) {st ty0 cs p0 p sq eq ae ty}
    (h : At σ st ty0 cs p0 p sq eq ae) (hE : Ending cc st ty0 cs ty) (hnt : st ≠ .noToken) (hne : ty ≠ .identifier) :
    ∃ σ', processChar cc σ c = .ok (σ', some ⟨cs, ty, p0.1, p0.2⟩) ∧
      At σ' .spaces (some .whitespace) [c] p (adv p c) 0 0 ae := by
  obtain ⟨e, hs, he⟩ := hE _ c _ _ _ _ _ (ender_of_blank hc) (h.lexed (σ.charactersLexed + 1))
  exact emit_step cc σ e c hs he hnt hne (starts_blank cc c hc)

/-- the end of the input after the pending token: the token is emitted, the lexer is done -/
theorem tail_end (cc : CharClass) (hcc : cc.Sane) (fuel : Nat) (σ : Lexer) (toks : List LexerToken)
    {st ty0 cs p0 p sq eq ty} (h : At σ st ty0 cs p0 p sq eq false) (hE : Ending cc st ty0 cs ty) (hnt : st ≠ .noToken)
    (hne : ty ≠ .identifier) :
    ∃ σ'', lexEnd cc (fuel + 2) σ toks = .ok (toks ++ [⟨cs, ty, p0.1, p0.2⟩], σ'') := by
  obtain ⟨e, hs, he⟩ := hE _ '\x00' _ _ _ _ _ (Or.inr (Or.inr rfl)) ((h.setAtEnd true).lexed (σ.charactersLexed + 1))
  obtain ⟨σ1, hf, hs1, _, hr1, ht1⟩ := finishChar_sentinel cc hcc e (by rw [he.state]; exact hnt) ty
    (canCreate_ok e ty he.type hne) he.type he.tree he.create he.atEnd
  have hp : processChar cc { σ with atEnd := true } '\x00' = .ok (σ1, some ⟨cs, ty, p0.1, p0.2⟩) := by
    unfold processChar
    simp only []
    rw [show stateStep cc _ '\x00' = _ from hs]
    simp only []
    rw [hf, he.chars, he.srow, he.scol]
  rw [show fuel + 2 = (fuel + 1) + 1 from rfl, lexEnd]
  simp only [isErr_of_ok h.ok, Bool.false_eq_true, ↓reduceIte]
  rw [hp]
  simp only [hr1]
  exact lexEnd_done cc hcc fuel σ1 _ hs1 hr1 ht1

/-- the plain states: what `stateStep_ender` says, with `At` -/
theorem ending_plain (cc : CharClass) (hcc : cc.SaneBlank) (st : LexingState) (ty : Gen.TokenType) (cs : List Char)
    (hs : PlainState st) (hid : st ≠ .identifier) : Ending cc st (some ty) cs ty := by
  intro τ c p0 p sq eq ae hc h
  have hst := stateStep_ender cc hcc τ c hc (by rw [h.state]; exact hs) h.tree
  have he : endOf τ = τ := by unfold endOf; rw [if_neg (by rw [h.state]; exact hid)]
  rw [he] at hst
  exact ⟨τ, hst, h⟩

/-- an identifier that starts with one colon ends as a Symbol -/
theorem ending_symbol (cc : CharClass) (hcc : cc.SaneBlank) (name : List Char) (hn : name.head? ≠ some ':')
    (ty0 : Option Gen.TokenType) : Ending cc .identifier ty0 (':' :: name) .symbol := by
  intro τ c p0 p sq eq ae hc h
  have hst := stateStep_ender cc hcc τ c hc (by rw [h.state]; exact Or.inr (Or.inr (Or.inl rfl))) h.tree
  have hcond : (startsWith τ.currentCharacters ':' && τ.currentCharacters[1]? != some ':') = true := by
    rw [h.chars]
    cases name with
    | nil => rfl
    | cons y r =>
      have : y ≠ ':' := fun e => hn (by simp [e])
      simp [startsWith, this]
  have he : endOf τ = { τ with currentTokenType := some .symbol } := by
    unfold endOf symFix; rw [if_pos h.state, if_pos hcond]
  rw [he] at hst
  refine ⟨_, hst, ?_⟩
  obtain ⟨h1, h2, h3, h4, h5, h6, h7, h8, h9, h10, h11, h12, h13⟩ := h
  constructor <;> simp_all

/-- two quotes and then something else: the empty literal -/
theorem ending_emptyCharList (cc : CharClass) (hcc : cc.SaneBlank) (ty : Gen.TokenType) :
    Ending cc .startCharList (some ty) ['"', '"'] ty := by
  intro τ c p0 p sq eq ae hc h
  obtain ⟨_, _, _, _, _, _, _, hq, _, _⟩ := ender_facts hcc hc
  have hxq : (c != '"') = true := by simpa using hq
  have hl : (utf8Len τ.currentCharacters == 2) = true := by rw [h.chars]; rfl
  refine ⟨τ, ?_, h⟩
  unfold stateStep; rw [h.state]
  simp [Step.ofPair, armStartCharList, hxq, hl]

theorem ending_emptyByteList (cc : CharClass) (hcc : cc.SaneBlank) (ty : Gen.TokenType) :
    Ending cc .startByteList (some ty) ['\'', '\''] ty := by
  intro τ c p0 p sq eq ae hc h
  obtain ⟨_, _, _, _, _, _, _, _, hq, _⟩ := ender_facts hcc hc
  have hxq : (c != '\'') = true := by simpa using hq
  have hl : (utf8Len τ.currentCharacters == 2) = true := by rw [h.chars]; rfl
  refine ⟨τ, ?_, h⟩
  unfold stateStep; rw [h.state]
  simp [Step.ofPair, armStartByteList, hxq, hl]

/-! ## runs -/

theorem runChars_cons_none (cc : CharClass) (σ σ1 : Lexer) (c : Char) (r : List Char) (toks : List LexerToken)
    (hok : σ.result = .ok) (hp : processChar cc σ c = .ok (σ1, none)) :
    runChars cc (c :: r) σ toks = runChars cc r σ1 toks := by
  simp [runChars, isErr_of_ok hok, hp]

theorem runChars_cons_some (cc : CharClass) (σ σ1 : Lexer) (c : Char) (r : List Char) (toks : List LexerToken)
    (t : LexerToken) (hok : σ.result = .ok) (hp : processChar cc σ c = .ok (σ1, some t)) (h1 : σ1.result = .ok) :
    runChars cc (c :: r) σ toks = runChars cc r σ1 (toks ++ [t]) := by
  simp [runChars, isErr_of_ok hok, hp, h1]

/-- a run of characters each of which continues the token: `I` is kept, no token comes out -/
theorem run_ind (cc : CharClass) (I : List Char → Nat × Nat → Lexer → Prop) (R : List Char → Char → Prop)
    (hok : ∀ cs p σ, I cs p σ → σ.result = .ok)
    (step : ∀ cs p σ x, I cs p σ → R cs x → ∃ σ', processChar cc σ x = .ok (σ', none) ∧ I (cs ++ [x]) (adv p x) σ') :
    ∀ (xs cs : List Char) (p : Nat × Nat) (σ : Lexer) (toks : List LexerToken), I cs p σ →
      (∀ u x v, xs = u ++ x :: v → R (cs ++ u) x) →
      ∃ σ', runChars cc xs σ toks = .ok (σ', toks) ∧ I (cs ++ xs) (advs p xs) σ'
  | [], cs, p, σ, toks, h, _ => ⟨σ, rfl, by simpa [advs] using h⟩
  | x :: xs, cs, p, σ, toks, h, hR => by
    obtain ⟨σ1, hp, h1⟩ := step cs p σ x h (by simpa using hR [] x xs rfl)
    obtain ⟨σ', hr, h'⟩ := run_ind cc I R hok step xs (cs ++ [x]) (adv p x) σ1 toks h1
      (fun u y v e => by have := hR (x :: u) y v (by simp [e]); simpa using this)
    refine ⟨σ', by rw [runChars_cons_none cc σ σ1 x xs toks (hok _ _ _ h) hp]; exact hr, ?_⟩
    rw [advs_cons]
    simpa using h'

end Garnish.Model.Lexer
