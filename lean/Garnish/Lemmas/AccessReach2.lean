/-
`wf_implies_accessWF`: every heap that represents a well-formed store satisfies the well-formedness the accessor
theorems of Props/C07Access.lean assume.
-/
import Garnish.Lemmas.AccessReach
namespace Garnish.BasicOpt
open Garnish Garnish.Access

theorem listItems_kind {cells : Array Cell} : ∀ (n a : Nat) (items : List Nat), listItems cells a n = some items →
    ∀ t, t < n → ∃ j, cells[a + t]? = some (.listItem j)
  | 0, _, _, _, t, ht => by omega
  | n + 1, a, items, h, t, ht => by
    simp only [listItems] at h
    cases hc : cells[a]? with
    | none => simp [hc] at h
    | some c =>
      rw [hc] at h
      cases c <;> simp only [] at h <;> try (simp at h; done)
      rename_i j
      simp only [Option.map_eq_some_iff] at h
      obtain ⟨rest, hrest, _⟩ := h
      cases t with
      | zero => exact ⟨j, by simpa using hc⟩
      | succ t =>
        obtain ⟨j', hj'⟩ := listItems_kind n (a + 1) rest hrest t (by omega)
        exact ⟨j', by have e : a + (t + 1) = a + 1 + t := by omega
                      rw [e]; exact hj'⟩

theorem cell_lt {cells : Array Cell} {i : Nat} {c : Cell} (h : cells[i]? = some c) : i < cells.size := by
  rcases Nat.lt_or_ge i cells.size with h' | h'
  · exact h'
  · rw [Array.getElem?_eq_none h'] at h; cases h

/-- the items of a list header of the store, read through the heap, are all `ListItem`s -/
theorem list_collect_ok {s : Store} {h : Heap} (hr : Represents s h) {i n : Nat} {items : List Nat}
    (hl : listItems s.cells (i + 1) n = some items) (hi : i < s.cells.size) :
    i + n < s.cells.size ∧ isOk (collectItems (h.cellsAt (i + 1) n)) = true := by
  have hk := listItems_kind _ _ _ hl
  have hb : i + 1 + n ≤ s.cells.size := by
    by_cases hn : n = 0
    · subst hn; omega
    · obtain ⟨j, hj⟩ := hk (n - 1) (by omega)
      have := cell_lt hj; omega
  refine ⟨by omega, ?_⟩
  unfold collectItems
  apply collectWith_ok
  intro c hc
  obtain ⟨t, ht⟩ := List.getElem?_of_mem hc
  rw [cellsAt_getElem? hr _ _ _ hb] at ht
  by_cases htn : t < n
  · simp only [htn, if_true] at ht
    obtain ⟨j, hj⟩ := hk t htn
    rw [hj] at ht
    simp only [Option.some.injEq] at ht
    subst ht; rfl
  · simp [htn] at ht

/-- what `Heap.WF` needs of the store: complete headers, concatenations that link downwards -/
theorem accessWF_of_headers {s : Store} {h : Heap} (hheaders : ∀ i, i < s.cells.size → headerOK s.cells i = true)
    (hcat : ∀ i l r, s.cells[i]? = some (Cell.concatenation l r) → l < i ∧ r < i) (hr : Represents s h) : h.WF := by
  refine ⟨hr.inside, hr.vec, ?_⟩
  intro i hi
  rw [hr.cursor] at hi
  unfold cellOKAt
  rw [hr.dstart, hr.cells i hi]
  obtain ⟨c, hc⟩ : ∃ c, s.cells[i]? = some c := ⟨s.cells[i], by simp [hi]⟩
  rw [hc]
  have hhd := hheaders i hi
  simp only [headerOK, hc] at hhd
  cases c <;> try rfl
  · -- SymbolList
    rename_i n
    simp only at hhd
    obtain ⟨sh, hsh⟩ := (by simpa [isNode, Option.isSome_iff_exists] using hhd : ∃ sh, shape s.cells i = some sh)
    unfold shape at hsh; rw [hc] at hsh
    simp only [Option.map_eq_some_iff] at hsh
    obtain ⟨l, hl, _⟩ := hsh
    obtain ⟨g1, g2⟩ := inline_collect_ok hr partOf (.err .data) (p := isSymPart)
      (by intro c hc; cases c <;> simp [isSymPart] at hc <;> rfl) hl hi
    simp only [cellOK, hr.cursor, Bool.and_eq_true, decide_eq_true_eq]
    exact ⟨g1, g2⟩
  · -- CharList
    rename_i n
    simp only at hhd
    obtain ⟨sh, hsh⟩ := (by simpa [isNode, Option.isSome_iff_exists] using hhd : ∃ sh, shape s.cells i = some sh)
    unfold shape at hsh; rw [hc] at hsh
    simp only [Option.map_eq_some_iff] at hsh
    obtain ⟨l, hl, _⟩ := hsh
    obtain ⟨g1, g2⟩ := inline_collect_ok hr charOf
      (.panic "garnish_impl.rs:get_char_list_iter: as_char().unwrap() on a cell that is not a Char") (p := isChar)
      (by intro c hc; cases c <;> simp [isChar] at hc <;> rfl) hl hi
    simp only [cellOK, hr.cursor, Bool.and_eq_true, decide_eq_true_eq]
    exact ⟨g1, g2⟩
  · -- ByteList
    rename_i n
    simp only at hhd
    obtain ⟨sh, hsh⟩ := (by simpa [isNode, Option.isSome_iff_exists] using hhd : ∃ sh, shape s.cells i = some sh)
    unfold shape at hsh; rw [hc] at hsh
    simp only [Option.map_eq_some_iff] at hsh
    obtain ⟨l, hl, _⟩ := hsh
    obtain ⟨g1, g2⟩ := inline_collect_ok hr byteOf
      (.panic "garnish_impl.rs:get_byte_list_iter: as_byte().unwrap() on a cell that is not a Byte") (p := isByte)
      (by intro c hc; cases c <;> simp [isByte] at hc <;> rfl) hl hi
    simp only [cellOK, hr.cursor, Bool.and_eq_true, decide_eq_true_eq]
    exact ⟨g1, g2⟩
  · -- List
    rename_i n k
    simp only at hhd
    obtain ⟨sh, hsh⟩ := (by simpa [isNode, Option.isSome_iff_exists] using hhd : ∃ sh, shape s.cells i = some sh)
    unfold shape at hsh; rw [hc] at hsh
    simp only at hsh
    split at hsh
    · rename_i items keys targets h1 h2
      obtain ⟨g1, g2⟩ := list_collect_ok hr h1 hi
      have hk : i + n + k < s.cells.size := by
        by_cases hk0 : k = 0
        · subst hk0; omega
        · obtain ⟨d, hd⟩ := assocItems_cell _ _ _ h2 (k - 1) (by omega)
          have := cell_lt hd; omega
      simp only [cellOK, hr.cursor, Bool.and_eq_true, decide_eq_true_eq]
      exact ⟨hk, g2⟩
    · simp at hsh
  · -- Concatenation
    rename_i l r
    simp only [cellOK, Bool.and_eq_true, decide_eq_true_eq]
    exact hcat i l r hc

/-- **wf_implies_accessWF**: a heap that represents a well-formed store is well formed for the accessors -/
theorem wf_implies_accessWF {s : Store} {h : Heap} (hwf : WF s) (hr : Represents s h) : h.WF := by
  refine accessWF_of_headers hwf.headers ?_ hr
  intro i l r hc
  have hi : i < s.cells.size := cell_lt hc
  have hsh : shape s.cells i = some ⟨.concatenation 0 0, [], [l, r]⟩ := shape_of_solo hc rfl
  have hn := hwf.nodes i hi
  simp only [nodeOK, hsh, List.all_eq_true, Bool.and_eq_true, decide_eq_true_eq] at hn
  exact ⟨(hn l (by simp)).1, (hn r (by simp)).1⟩

end Garnish.BasicOpt
