/-
The announced-length list protocol as a handler statement over the store interface — `start_list(n)`, one
`add_to_list` per item (exactly `n`), `end_list` — and what it is on `BasicGarnishData`: `Store.buildList`.
-/
import Garnish.Lemmas.BasicList2
set_option linter.unusedSimpArgs false
set_option linter.unusedVariables false
set_option maxHeartbeats 2000000
namespace Garnish.Lemmas.Runtime.Basic
open Garnish Gen Garnish.Model.Equality Garnish.Model.Runtime Garnish.Model.Runtime.Basic Garnish.BasicOpt
open Garnish.Lemmas.Runtime Garnish.Lemmas.EqualityRefine

variable {F σ : Type}

/-- `add_to_list` for every item, threading the token -/
def addAllRM (S : RStore F σ) : List Nat → Nat → RM σ Nat
  | [], t => RM.pure t
  | a :: as, t => RM.bind (S.addToList t a) (addAllRM S as)

/-- the protocol that respects the announcement: `start_list(items.length)`, the items, `end_list` -/
def makeListRM (S : RStore F σ) (items : List Nat) : RM σ Nat :=
  RM.bind (S.startList items.length) (fun t => RM.bind (addAllRM S items t) (fun t' => S.endList t'))

/-- the adds of the Basic store are the adds of the heap model (the ghost `building` is updated on the side) -/
theorem addAllRM_basic (nc : NumCode F) (t : Nat) : ∀ (items : List Nat) (st : BState) (s' : Store),
    items.foldlM (fun s a => s.addToList t a) st.store = .ok s' →
    ∃ bl, addAllRM (basicRStore nc) items t st = .ok (t, { st with store := s', building := bl })
  | [], st, s', h => by
    simp only [List.foldlM, BasicOpt.pure_eq_ok] at h
    subst h
    exact ⟨st.building, rfl⟩
  | a :: items, st, s', h => by
    simp only [List.foldlM, BasicOpt.bind_eq_ok] at h
    obtain ⟨s1, h1, h2⟩ := h
    have hstep : (basicRStore nc).addToList t a st =
        .ok (t, { st with store := s1, building := st.building.map (fun b => (t, b.2 ++ [a])) }) := by
      show (match st.store.addToList t a with | .ok s' => _ | .err e => _ | .panic m => _ | .fuelOut => _) = _
      rw [h1]
    obtain ⟨bl, ih⟩ := addAllRM_basic nc t items
      { st with store := s1, building := st.building.map (fun b => (t, b.2 ++ [a])) } s' h2
    exact ⟨bl, by simp only [addAllRM, RM.bind, hstep]; rw [ih]⟩

/-- on the Basic store the protocol is `Store.buildList` -/
theorem makeListRM_basic (nc : NumCode F) {st : BState} {items : List Nat} {s' : Store} {li : Nat}
    (h : st.store.buildList items = .ok (s', li)) :
    makeListRM (basicRStore nc) items st = .ok (li, { st with store := s', building := none }) := by
  simp only [Store.buildList, BasicOpt.bind_eq_ok] at h
  obtain ⟨⟨s1, li1⟩, hstart, s2, hfold, hend⟩ := h
  have h1 : (basicRStore nc).startList items.length st =
      .ok (li1, { st with store := s1, building := some (li1, []) }) := by
    show (match st.store.startList items.length with | .ok (s', i) => _ | .err e => _ | .panic m => _ | .fuelOut => _) = _
    rw [hstart]
  obtain ⟨bl, h2⟩ := addAllRM_basic nc li1 items { st with store := s1, building := some (li1, []) } s2 hfold
  have hli : li = li1 := by
    simp only [Store.endList, BasicOpt.bind_eq_ok] at hend
    obtain ⟨c, _, hend⟩ := hend
    split at hend
    · split at hend
      · cases hend
      · split at hend
        · cases hend
        · simp only [BasicOpt.bind_eq_ok, BasicOpt.pure_eq_ok, Prod.mk.injEq] at hend
          obtain ⟨_, _, _, h⟩ := hend
          exact h.symm
    · cases hend
  have h3 : (basicRStore nc).endList li1 { st with store := s2, building := bl } =
      .ok (li, { st with store := s', building := none }) := by
    show (match s2.endList li1 with | .ok (s', i) => _ | .err e => _ | .panic m => _ | .fuelOut => _) = _
    rw [hend]
  simp only [makeListRM, RM.bind, h1, h2, h3]

end Garnish.Lemmas.Runtime.Basic
