/-
The runtime refinement over the RELATIVISED store contract `StoreLawsOn` (Model/Runtime/StoreOn.lean), part 3.
Handlers / step / run lemmas of Lemmas/Runtime{Base,Step*,Run}.lean redone with the invariant threaded (`Inv s` in,
`Inv s'` out), `Readable` established at every push (from a `Decodes` fact of a non-`custom` value) and `Deep`
at every pop (from `Sim` and the machine-side condition `MDeep`) — for the instructions `MachOKOn` lists.
-/
import Garnish.Lemmas.RuntimeOn2
import Garnish.Props.RuntimeRefineStep
set_option linter.unusedSimpArgs false
set_option linter.unusedVariables false
namespace Garnish.Lemmas.Runtime.On
open Garnish Gen Garnish.Abs Garnish.Model.Equality Garnish.Model.Runtime Garnish.Lemmas.Runtime
open Garnish.Props.RuntimeRefine

variable {F σ : Type} {S : RStore F σ} {Inv : σ → Prop} {Rd : σ → Nat → Prop} {P : Prog F} {host : Host F}
  (fo : FloatOps F)

theorem stepSimOn_of_err (fuel : Nat) (H : OtherHandlers σ) (s : σ) {m : MState F} {e : ErrClass}
    (h : Abs.step fo host P m = .err e) : StepSimOn fo host S Inv P fuel H s m := by
  unfold StepSimOn; rw [h]; trivial

macro "machine_errs_on" fo:term "," fuel:term "," H:term "," s:term "," hfetch:ident "," e:term "," "[" hs:Lean.Parser.Tactic.simpLemma,* "]" : tactic =>
  `(tactic| (refine stepSimOn_of_err $fo $fuel $H $s (e := $e) ?_; unfold Abs.step; rw [$hfetch:ident]; first | done | simp [$hs,*]))

/-- the side condition of one instruction of the fragment, on the machine state only; `False` = not (yet) covered by
the relativised step theorem -/
def MachOKOn (P : Prog F) (m : MState F) (instr : Instruction) (operand : Option Nat) : Prop :=
  match instr with
  | .invalid | .jumpTo => True
  | .put => ∀ k v, operand = some k → P.consts[k]? = some v → v ≠ .custom
  | .putValue => ∀ v vs, m.vals = v :: vs → v ≠ .custom
  | .pushValue | .updateValue => ∀ r rs, m.regs = r :: rs → r ≠ .custom ∧ MDeep m rs
  | .jumpIfTrue | .jumpIfFalse => ∀ r rs, m.regs = r :: rs → MDeep m rs
  | .endExpression => ∀ r rs, m.regs = r :: rs → r ≠ .custom ∧ MDeep m rs ∧ (m.frames = [] → rs = [])
  | _ => False

/-- the side conditions along a run of `n` steps -/
def RunOKOn (host : Host F) (P : Prog F) : Nat → MState F → Prop
  | 0, _ => True
  | n + 1, m =>
    (∀ instr operand, P.instrs[m.pc]? = some (instr, operand) → MachOKOn P m instr operand) ∧
    ∀ m', Abs.step fo host P m = .running m' → RunOKOn host P n m'

section
variable (L : StoreLawsOn S Inv Rd) (fuel : Nat) (H : OtherHandlers σ) {s : σ} {m : MState F} (hsim : Sim S P s m)
  (hi : Inv s)
include L hsim hi

theorem stepOn_pushValue {operand : Option Nat} (hfetch : P.instrs[m.pc]? = some (.pushValue, operand))
    {v : Val F} {rs : List (Val F)} (hregs : m.regs = v :: rs) (hv : v ≠ .custom) (hm : MDeep m rs) :
    StepSimOn fo host S Inv P fuel H s m := by
  have hr := hsim.2.regs
  rw [hregs] at hr
  obtain ⟨a, rest, hsr, da, t⟩ := decodesList_cons_inv hr
  obtain ⟨s1, h1, e1, i1⟩ := pushValue_on L hi hsr (deep_of_sim hsim.2 t hm) da hv
  refine stepSimOn_of fo L fuel H hsim hfetch (r := .ok ({ m with regs := rs, vals := v :: m.vals }, m.pc + 1))
    (by unfold Abs.step; rw [hfetch]; simp only [hregs]; rfl) ?_
  exact handlerSimOn_ofEff hsim.2 (md := { m with regs := rs, vals := v :: m.vals }) h1 e1 i1
    (Sim.tail e1 t) (.cons (e1.dec da) (Sim.tail e1 hsim.2.vals)) rfl (by simp [hsim.1])

theorem stepOn_updateValue {operand : Option Nat} (hfetch : P.instrs[m.pc]? = some (.updateValue, operand))
    {v x : Val F} {rs vs : List (Val F)} (hregs : m.regs = v :: rs) (hvals : m.vals = x :: vs) (hv : v ≠ .custom)
    (hm : MDeep m rs) : StepSimOn fo host S Inv P fuel H s m := by
  have hr := hsim.2.regs
  rw [hregs] at hr
  obtain ⟨a, rest, hsr, da, t⟩ := decodesList_cons_inv hr
  have hvl := hsim.2.vals
  rw [hvals] at hvl
  obtain ⟨b, bs, hsv, _, tv⟩ := decodesList_cons_inv hvl
  obtain ⟨s1, h1, e1, i1⟩ := updateValue_on L hi hsr hsv (deep_of_sim hsim.2 t hm) da hv
  refine stepSimOn_of fo L fuel H hsim hfetch (r := .ok ({ m with regs := rs, vals := v :: vs }, m.pc + 1))
    (by unfold Abs.step; rw [hfetch]; simp only [hregs, hvals]; rfl) ?_
  exact handlerSimOn_ofEff hsim.2 (md := { m with regs := rs, vals := v :: vs }) h1 e1 i1
    (Sim.tail e1 t) (.cons (e1.dec da) (Sim.tail e1 tv)) rfl (by simp [hsim.1])

/-- `EndExpression` with no frame left and no other register (what a compiled program ends with): Simple's
`pop_frame` would empty the registers anyway -/
theorem stepOn_endExpression_top {operand : Option Nat} (hfetch : P.instrs[m.pc]? = some (.endExpression, operand))
    {v x : Val F} {vs : List (Val F)} (hregs : m.regs = [v]) (hvals : m.vals = x :: vs) (hv : v ≠ .custom)
    (hframes : m.frames = []) : StepSimOn fo host S Inv P fuel H s m := by
  have hr := hsim.2.regs
  rw [hregs] at hr
  obtain ⟨a, rest, hsr, da, tl⟩ := decodesList_cons_inv hr
  cases tl
  have hvl := hsim.2.vals
  rw [hvals] at hvl
  obtain ⟨b, bs, hsv, _, tv⟩ := decodesList_cons_inv hvl
  have hf := hsim.2.frames
  rw [hframes] at hf
  have hsf : S.frames s = [] := by
    generalize S.frames s = sf at hf
    cases hf; rfl
  have hdeep : Deep S s [] := fun ret saved fs h => by rw [hsf] at h; cases h
  obtain ⟨s1, R, h1, e1, hR, i1⟩ := endExpression_top_on L hi hsr hdeep hsf hsv da hv
  have hR' : R = [] := by cases hR <;> assumption
  subst hR'
  refine stepSimOn_of fo L fuel H hsim hfetch (r := .ok ({ m with regs := [], vals := v :: vs }, P.instrs.size))
    (by unfold Abs.step; rw [hfetch]; simp only [hregs, hvals, hframes, finish, ge_iff_le, Nat.le_refl, if_true]) ?_
  exact handlerSimOn_ofEff hsim.2 (md := { m with regs := [], vals := v :: vs }) h1 e1 i1 .nil
    (.cons (e1.dec da) (Sim.tail e1 tv)) rfl (by simp [hsim.2.ilen])

theorem stepOn_endExpression_return {operand : Option Nat}
    (hfetch : P.instrs[m.pc]? = some (.endExpression, operand))
    {v : Val F} {rs : List (Val F)} (hregs : m.regs = v :: rs) {fr : Frame F} {frs : List (Frame F)}
    (hframes : m.frames = fr :: frs) (hv : v ≠ .custom) (hm : MDeep m rs) :
    StepSimOn fo host S Inv P fuel H s m := by
  have hr := hsim.2.regs
  rw [hregs] at hr
  obtain ⟨a, rest, hsr, da, tl⟩ := decodesList_cons_inv hr
  have hdeep := deep_of_sim hsim.2 tl hm
  have hf := hsim.2.frames
  rw [hframes] at hf
  generalize hsf : S.frames s = sf at hf
  cases hf with
  | cons hret hsaved hrest =>
    rename_i ret saved fs
    obtain ⟨s1, h1, e1, i1⟩ := endExpression_return_on L hi hsr hdeep hsf da hv
    refine stepSimOn_of fo L fuel H hsim hfetch
      (r := .ok ({ m with regs := v :: fr.saved, vals := m.vals.tail, frames := frs }, fr.ret))
      (by unfold Abs.step; rw [hfetch]; simp only [hregs, hframes]) ?_
    refine ⟨some ret, s1, h1, by simp [hret], e1.keeps.cur, ?_, e1.keeps.dec, i1⟩
    have hvt : DecodesList (S.view s) (S.vals s).tail m.vals.tail := by
      have := hsim.2.vals
      generalize S.vals s = sv at this
      generalize m.vals = mv at this
      cases this with
      | nil => exact .nil
      | cons _ t => exact t
    exact SimD.ofFEff hsim.2 e1 (.cons (e1.dec da) (decodesList_keeps e1.keeps hsaved))
      (decodesList_keeps e1.keeps hvt) (framesRel_keeps e1.keeps hrest)

/-- ONE STEP, relativised contract, the fragment `MachOKOn` covers -/
theorem refine_step_on (hl : Loaded S P s) {instr : Instruction} {operand : Option Nat}
    (hfetch : P.instrs[m.pc]? = some (instr, operand)) (hok : MachOKOn P m instr operand) :
    StepSimOn fo host S Inv P fuel H s m := by
  cases instr <;> try (exact False.elim hok)
  case invalid => exact stepOn_invalid fo L fuel H hsim hi hfetch
  case put =>
    cases operand with
    | none => machine_errs_on fo, fuel, H, s, hfetch, .implementation, []
    | some k =>
      cases hc : P.consts[k]? with
      | none => machine_errs_on fo, fuel, H, s, hfetch, .state, [hc]
      | some v =>
        exact stepOn_put fo L fuel H hsim hi hfetch hc (L.dataBound s k v (hl k v hc)) (hl k v hc) (hok k v rfl hc)
  case putValue => exact stepOn_putValue fo L fuel H hsim hi hfetch hok
  case pushValue =>
    cases hr : m.regs with
    | nil => machine_errs_on fo, fuel, H, s, hfetch, .state, [hr]
    | cons v rs => exact stepOn_pushValue fo L fuel H hsim hi hfetch hr (hok v rs hr).1 (hok v rs hr).2
  case updateValue =>
    cases hr : m.regs with
    | nil => machine_errs_on fo, fuel, H, s, hfetch, .state, [hr]
    | cons v rs =>
      cases hv : m.vals with
      | nil => machine_errs_on fo, fuel, H, s, hfetch, .state, [hr, hv]
      | cons x vs => exact stepOn_updateValue fo L fuel H hsim hi hfetch hr hv (hok v rs hr).1 (hok v rs hr).2
  case jumpTo =>
    cases operand with
    | none => machine_errs_on fo, fuel, H, s, hfetch, .implementation, []
    | some j =>
      cases hj : P.jumps[j]? with
      | none => machine_errs_on fo, fuel, H, s, hfetch, .state, [jumpTarget_none hj, finish, Except.map]
      | some t => exact stepOn_jumpTo fo L fuel H hsim hi hfetch hj
  case jumpIfTrue =>
    cases operand with
    | none => machine_errs_on fo, fuel, H, s, hfetch, .implementation, []
    | some j =>
      cases hj : P.jumps[j]? with
      | none => machine_errs_on fo, fuel, H, s, hfetch, .state, [jumpTarget_none hj]
      | some t =>
        cases hr : m.regs with
        | nil => machine_errs_on fo, fuel, H, s, hfetch, .state, [jumpTarget_some hj, hr]
        | cons d rs => exact stepOn_jumpIfTrue fo L fuel H hsim hi hfetch hj hr (hok d rs hr)
  case jumpIfFalse =>
    cases operand with
    | none => machine_errs_on fo, fuel, H, s, hfetch, .implementation, []
    | some j =>
      cases hj : P.jumps[j]? with
      | none => machine_errs_on fo, fuel, H, s, hfetch, .state, [jumpTarget_none hj]
      | some t =>
        cases hr : m.regs with
        | nil => machine_errs_on fo, fuel, H, s, hfetch, .state, [jumpTarget_some hj, hr]
        | cons d rs => exact stepOn_jumpIfFalse fo L fuel H hsim hi hfetch hj hr (hok d rs hr)
  case endExpression =>
    cases hr : m.regs with
    | nil => machine_errs_on fo, fuel, H, s, hfetch, .state, [hr]
    | cons v rs =>
      obtain ⟨hv, hm, hrs⟩ := hok v rs hr
      cases hf : m.frames with
      | cons fr frs => exact stepOn_endExpression_return fo L fuel H hsim hi hfetch hr hf hv hm
      | nil =>
        cases hvl : m.vals with
        | nil => machine_errs_on fo, fuel, H, s, hfetch, .state, [hr, hf, hvl]
        | cons x vs =>
          have := hrs hf; subst this
          exact stepOn_endExpression_top fo L fuel H hsim hi hfetch hr hvl hv hf

end

/-- no instruction at the cursor: the run ends -/
theorem refine_step_end_on (fuel : Nat) (H : OtherHandlers σ) {s : σ} {m : MState F} (hsim : Sim S P s m) (hi : Inv s)
    (hfetch : P.instrs[m.pc]? = none) : StepSimOn fo host S Inv P fuel H s m := by
  have h := C01_refine_step_end (host := host) fo fuel H hsim hfetch
  unfold StepSim at h
  unfold StepSimOn
  have hf : (RM.read (fun st => S.instruction st (S.cursor st)) : RM σ _) s = .ok (none, s) := by
    show Outcome.ok (S.instruction s (S.cursor s), s) = _
    rw [hsim.2.instrs, hsim.1, hfetch]
  have hex : executeCurrentInstruction fo S fuel H s = .ok (.end_, s) := by
    rw [executeCurrentInstruction, bind_ok hf]; rfl
  cases hst : Abs.step fo host P m with
  | running m' => rw [hst] at h; obtain ⟨s', h1, _⟩ := h; rw [hex] at h1; cases h1
  | halted m' =>
    rw [hst] at h
    obtain ⟨s', h1, h2, h3⟩ := h
    rw [hex] at h1; cases h1
    exact ⟨s, hex, h2, h3, hi⟩
  | err e => trivial

end Garnish.Lemmas.Runtime.On
