/-
C18, reference-grammar level: `refParse_wrapOperand` — parentheses around a token range that the reference parser parses
as a complete operand subtree leave the tree unchanged up to the added group node (and token positions).

`WrapOK pre mid post f stack f1 M M0` says, in terms of the reference parser`s own run, that `mid` is a complete operand:
  * after `pre` the parser is in frame `f` (stack `stack`), an operand may start there (`beforeOperand` gives `f1`, the
    implicit `List` operator inserted if `mid` follows a complete operand and whitespace), the operand position is open
    and `mid` starts with a token that is not trivia / separator / closer;
  * running over `mid` from there plugs exactly one subtree `M` into that position and leaves a complete operand behind;
  * `mid` on its own, as the content of a group, parses to the same subtree (`M0`, equal to `M` up to positions), and ends
    with a value or a closer;
  * `M` is not an Identifier in the Property position of `.` (there parentheses change Property into Identifier);
  * the first operator after `mid` walks over the whole of `M` (`NextPasses`): `M` stays a subtree of the final tree.
-/
import Garnish.Lemmas.RefWrap

namespace Garnish.Spec
open Garnish Garnish.Gen Garnish.Model.Parser

/-- the frame a `(` at position `p` opens -/
def groupFrame (p : Nat) : Frame := { ctx := some (.group, p), cur := .nil, last := .start, ws := false, prevSep := false }

structure WrapOK (pre mid post : List PToken) (f : Frame) (stack : List Frame) (f1 : Frame) (M M0 : RTree) : Prop where
  runPre : refRun Table.gen Frame.top [] 0 pre (mid ++ post) = .ok (f, stack)
  before : beforeOperand Table.gen f pre.length = .ok f1
  openB : openBottom f1.cur = true
  head : closerFollows (mid ++ post) = false
  runMid : refRun Table.gen f stack pre.length mid post =
    .ok ({ f1 with cur := plug f1.cur M, last := .operand, ws := false, prevSep := false }, stack)
  alone : refRun Table.gen (groupFrame 0) [] 1 mid [] =
    .ok ({ groupFrame 0 with cur := M0, last := .operand, ws := false, prevSep := false }, [])
  same : M0.eraseTok = M.eraseTok
  ends : ∃ ms z, mid = ms ++ [z] ∧ endsOperand z = true
  acc : accessBottom f1.cur = false ∨ asProperty M = M
  next : NextPasses M post = true

theorem refStep_open {o : PToken} (ho : o.type = .startGroup) (f : Frame) (stack : List Frame) (pos : Nat)
    (rest : List PToken) :
    refStep Table.gen f stack pos o rest =
      Outcome.bind (beforeOperand Table.gen f pos) fun f => .ok (groupFrame pos, { f with ws := false } :: stack) := by
  unfold refStep
  rw [ho]
  rfl

theorem refStep_close {c : PToken} (hc : c.type = .endGroup) (g parent : Frame) (stack : List Frame) (pos gp : Nat)
    (rest : List PToken) (hctx : g.ctx = some (.group, gp)) (hl : g.last = .operand) :
    refStep Table.gen g (parent :: stack) pos c rest =
      .ok ({ parent with cur := plug parent.cur (.group .group gp g.cur), last := .operand, ws := false,
                         prevSep := false }, stack) := by
  unfold refStep
  rw [hc]
  have : Table.gen.define TokenType.endGroup = (Definition.drop, SecDef.endGrouping) := rfl
  simp only [this, hctx, hl]
  rfl

theorem closerFollows_open {o : PToken} (ho : o.type = .startGroup) (rest : List PToken) :
    closerFollows (o :: rest) = false := by
  simp [closerFollows, ho, isFiller, isSeparator, isCloser]

/-- **wrapping a complete operand in parentheses**, loop level -/
theorem refLoop_wrapOperand {pre mid post : List PToken} {f : Frame} {stack : List Frame} {f1 : Frame} {M M0 : RTree}
    (h : WrapOK pre mid post f stack f1 M M0) {o c : PToken} (ho : o.type = .startGroup) (hc : c.type = .endGroup) :
    (refLoop Table.gen Frame.top [] 0 (pre ++ (mid ++ post))).mapT RTree.stripGroups =
      (refLoop Table.gen Frame.top [] 0 (pre ++ o :: (mid ++ c :: post))).mapT RTree.stripGroups := by
  obtain ⟨ms, z, hmid, hz⟩ := h.ends
  -- the original list
  rw [refLoop_append Table.gen pre (mid ++ post), h.runPre]
  simp only [Outcome.bind, Nat.zero_add]
  rw [refLoop_append Table.gen mid post, h.runMid]
  simp only [Outcome.bind]
  -- the wrapped list: the prefix
  rw [refLoop_append Table.gen pre (o :: (mid ++ c :: post)),
    refRun_rest_congr Table.gen pre Frame.top [] 0 (r := o :: (mid ++ c :: post)) (r' := mid ++ post)
      (by rw [closerFollows_open ho, h.head]), h.runPre]
  simp only [Outcome.bind, Nat.zero_add, refLoop, refStep_open ho, h.before]
  -- the content of the group
  have hsimG : FSim EStrip (groupFrame 0) (groupFrame (pre.length)) := ⟨rfl, .nil, rfl, rfl, rfl⟩
  have hrun := refRun_sim eok_strip Table.gen mid 1 (pre.length + 1) (c :: post) hsimG (LSim.nil)
  have halone : refRun Table.gen (groupFrame 0) [] 1 mid (c :: post) =
      .ok ({ groupFrame 0 with cur := M0, last := .operand, ws := false, prevSep := false }, []) := by
    rw [← h.alone, hmid]
    exact refRun_ends hz ms _ _ _ _ _
  rw [halone] at hrun
  cases hG : refRun Table.gen (groupFrame (pre.length)) [] (pre.length + 1) mid (c :: post) with
  | err _ => rw [hG] at hrun; exact hrun.elim
  | panic _ => rw [hG] at hrun; exact hrun.elim
  | fuelOut => rw [hG] at hrun; exact hrun.elim
  | ok gs =>
    obtain ⟨g, sg⟩ := gs
    rw [hG] at hrun
    obtain ⟨hfg, hsg⟩ := hrun
    simp only at hfg hsg
    cases hsg
    have hbase := refRun_base Table.gen ({ f1 with ws := false } :: stack) mid _ [] _ (c :: post) hG
    simp only [List.nil_append] at hbase
    rw [refLoop_append Table.gen mid (c :: post), hbase]
    simp only [Outcome.bind, refLoop]
    -- the closer
    have hgctx : ∃ gp, g.ctx = some (.group, gp) := by
      have := hfg.ctx
      simp only [groupFrame, Option.map_some] at this
      cases hgc : g.ctx with
      | none => rw [hgc] at this; cases this
      | some dp =>
        obtain ⟨d, p⟩ := dp
        rw [hgc] at this
        simp only [Option.map_some, Option.some.injEq] at this
        exact ⟨p, by rw [← this]⟩
    obtain ⟨gp, hgctx⟩ := hgctx
    have hgl : g.last = .operand := hfg.last.symm
    rw [refStep_close hc g _ stack _ gp post hgctx hgl]
    simp only [Outcome.bind]
    -- after the operand
    have hMG : EStrip M (.group .group gp g.cur) := by
      unfold EStrip
      have h1 : M0.stripGroups = g.cur.stripGroups := eok_strip.ofSim _ _ hfg.cur
      have h2 : M0.stripGroups = M.stripGroups := by
        rw [← stripGroups_eraseTok M0, ← stripGroups_eraseTok M, h.same]
      simp only [RTree.stripGroups, beq_self_eq_true, if_true]
      rw [← h2, h1]
    refine refLoop_b hMG ⟨_, _, _, rfl⟩ post _ _ ?_ (LSim.rfl' eok_strip stack) h.next
    exact ⟨rfl, plug_bsim rfl (Sim.rfl' eok_strip _) h.openB h.acc, rfl, rfl, rfl, rfl⟩

/-- **wrapping a complete operand in parentheses**: same reference tree up to the added group node and positions -/
theorem refParse_wrapOperand {pre mid post : List PToken} {f : Frame} {stack : List Frame} {f1 : Frame} {M M0 : RTree}
    (h : WrapOK pre mid post f stack f1 M M0) {o c : PToken} (ho : o.type = .startGroup) (hc : c.type = .endGroup)
    (hn : NoTrim (pre ++ (mid ++ post))) (hn' : NoTrim (pre ++ o :: (mid ++ c :: post))) :
    (refParse Table.gen (pre ++ (mid ++ post))).mapT RTree.stripGroups =
      (refParse Table.gen (pre ++ o :: (mid ++ c :: post))).mapT RTree.stripGroups := by
  rw [refParse_noTrim Table.gen hn, refParse_noTrim Table.gen hn']
  exact refLoop_wrapOperand h ho hc

end Garnish.Spec
