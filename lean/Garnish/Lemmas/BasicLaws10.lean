/-
`StoreLawsOn` for `BasicGarnishData`, continued: list construction.
`start_list(n)` satisfies its clause.  `add_to_list` does NOT satisfy `StoreLawsOn.addToList` as stated: Basic's
`start_list(n)` ANNOUNCES the length — `add_to_list` answers `Err` once `n` items are there
(`addToList_clause_false`), and `end_list` answers `Err` before that.  The Basic law is about the whole protocol
`start_list(n)`, exactly `n` × `add_to_list`, `end_list` (= `Store.buildList`): `buildList_law`.
-/
import Garnish.Lemmas.BasicLaws9
import Garnish.Lemmas.MutList
set_option linter.unusedSimpArgs false
set_option linter.unusedVariables false
set_option maxHeartbeats 2000000
namespace Garnish.Lemmas.Runtime.Basic
open Garnish Gen Garnish.Model.Equality Garnish.Model.Runtime Garnish.Model.Runtime.Basic Garnish.BasicOpt
open Garnish.Lemmas.Runtime Garnish.Lemmas.EqualityRefine

variable {F : Type}

/-! ### `Fits` through the list operations -/

theorem pushAll_total : ∀ (cs : List Cell) (s : Store), Fits s →
    ∃ s', Store.pushAll s cs = .ok s' ∧ s'.cells = s.cells ++ cs.toArray ∧ SameFrame s s' ∧ Fits s'
  | [], s, hf => ⟨s, rfl, by simp, SameFrame.rfl' s, hf⟩
  | c :: cs, s, hf => by
    obtain ⟨s1, hp, hc, hf1⟩ := push_total c hf
    obtain ⟨s2, h2, hc2, hfr2, hf2⟩ := pushAll_total cs s1 hf1
    refine ⟨s2, by simp [Store.pushAll, bind, Outcome.bind, hp, h2], ?_, (push_ok hp).2.2.trans hfr2, hf2⟩
    rw [hc2, hc]; apply Array.ext'; simp

theorem setCell_fits {s s' : Store} {i : Nat} {c : Cell} (hf : Fits s) (h : Store.setCell s i c = .ok s') : Fits s' := by
  unfold Store.setCell at h
  split at h
  · simp only [Outcome.ok.injEq] at h
    subst h
    exact ⟨by simpa using hf.1, hf.2⟩
  · cases h

theorem pushAll_fits : ∀ (cs : List Cell) (s s' : Store), Fits s → Store.pushAll s cs = .ok s' → Fits s'
  | cs, s, s', hf, h => by
    obtain ⟨s2, h2, _, _, hf2⟩ := pushAll_total cs s hf
    rw [h] at h2; cases h2; exact hf2

theorem startList_fits {s s' : Store} {n li : Nat} (hf : Fits s) (h : Store.startList s n = .ok (s', li)) : Fits s' := by
  simp only [Store.startList, BasicOpt.bind_eq_ok, BasicOpt.pure_eq_ok, Prod.mk.injEq] at h
  obtain ⟨⟨s1, i⟩, hp, s2, hall, hs2, _⟩ := h
  subst hs2
  exact pushAll_fits _ _ _ (push_fits hf hp) hall

theorem addToList_fits {s s' : Store} {li a : Nat} (hf : Fits s) (h : Store.addToList s li a = .ok s') : Fits s' := by
  simp only [Store.addToList, BasicOpt.bind_eq_ok] at h
  obtain ⟨c, _, h⟩ := h
  split at h
  · split at h
    · cases h
    · simp only [BasicOpt.bind_eq_ok] at h
      obtain ⟨s1, h1, s2, h2, c2, _, h3⟩ := h
      have f2 := setCell_fits (setCell_fits hf h1) h2
      split at h3
      · simp only [BasicOpt.bind_eq_ok] at h3
        obtain ⟨c3, _, h4⟩ := h3
        split at h4
        · exact setCell_fits f2 h4
        · simp only [BasicOpt.pure_eq_ok] at h4; subst h4; exact f2
      · simp only [BasicOpt.pure_eq_ok] at h3; subst h3; exact f2
  · cases h

theorem foldl_addToList_fits (li : Nat) : ∀ (items : List Nat) (s s' : Store), Fits s →
    items.foldlM (fun s a => s.addToList li a) s = .ok s' → Fits s'
  | [], s, s', hf, h => by simp only [List.foldlM, BasicOpt.pure_eq_ok] at h; subst h; exact hf
  | a :: items, s, s', hf, h => by
    simp only [List.foldlM, BasicOpt.bind_eq_ok] at h
    obtain ⟨s1, h1, h2⟩ := h
    exact foldl_addToList_fits li items s1 s' (addToList_fits hf h1) h2

theorem endList_fits {s s' : Store} {li r : Nat} (hf : Fits s) (h : Store.endList s li = .ok (s', r)) : Fits s' := by
  simp only [Store.endList, BasicOpt.bind_eq_ok] at h
  obtain ⟨c, _, h⟩ := h
  split at h
  · split at h
    · cases h
    · split at h
      · cases h
      · simp only [BasicOpt.bind_eq_ok, BasicOpt.pure_eq_ok, Prod.mk.injEq] at h
        obtain ⟨s1, h1, h2, _⟩ := h
        subst h2
        refine setCell_fits ?_ h1
        exact ⟨by simpa [setRange_size] using hf.1, hf.2⟩
  · cases h

theorem buildList_fits {s s' : Store} {items : List Nat} {li : Nat} (hf : Fits s)
    (h : Store.buildList s items = .ok (s', li)) : Fits s' := by
  simp only [Store.buildList, BasicOpt.bind_eq_ok] at h
  obtain ⟨⟨s1, li1⟩, h1, s2, h2, h3⟩ := h
  exact endList_fits (foldl_addToList_fits _ _ _ _ (startList_fits hf h1) h2) h3

/-! ### `start_list` -/

/-- **`start_list(n)`** satisfies its clause -/
theorem startList_law (nc : NumCode F) {st : BState} (hinv : BInv st) (n : Nat) :
    ∃ t st', (basicRStore nc).startList n st = .ok (t, st') ∧
      Eff (basicRStore nc) st st' ((basicRStore nc).regs st) ((basicRStore nc).vals st) ∧
      (basicRStore nc).building st' = some (t, []) ∧ BInv st' := by
  obtain ⟨s1, hp, hc1, hf1⟩ := push_total (.uninitializedList n 0) hinv.fits
  obtain ⟨s2, hall, hc2, hfr2, hf2⟩ := pushAll_total (List.replicate (n * 2) Cell.empty) s1 hf1
  have hop : st.store.startList n = .ok (s2, st.store.cells.size) := by
    simp [Store.startList, bind, Outcome.bind, hp, hall, pure]
  have hfr := (push_ok hp).2.2.trans hfr2
  have hl : s2.cells.toList = st.store.cells.toList ++ (Cell.uninitializedList n 0 :: List.replicate (n * 2) Cell.empty) := by
    rw [hc2, hc1]; simp
  have hcells : s2.cells = st.store.cells ++ (Cell.uninitializedList n 0 :: List.replicate (n * 2) Cell.empty).toArray := by
    apply Array.ext'; rw [hl]; simp
  have hsub : Sub st.store.cells s2.cells := sub_of_toList hl
  have hw : WFq s2 := by
    refine append_wfq _ hinv.wfq hcells hfr.1 hfr.2.2.1 ?_ ?_ ?_ ?_
    · intro j hj1 hj2
      obtain ⟨c, hc⟩ : ∃ c, s2.cells[j]? = some c := ⟨s2.cells[j], by simp [hj2]⟩
      have hmem : c = Cell.uninitializedList n 0 ∨ c = Cell.empty := by
        rw [← Array.getElem?_toList, hl, List.getElem?_append_right (by simpa using hj1)] at hc
        have := List.mem_of_getElem? hc
        simp only [List.mem_cons, List.mem_replicate] at this
        rcases this with h | ⟨_, h⟩
        · exact Or.inl h
        · exact Or.inr h
      rcases hmem with rfl | rfl
      · have hsh : shape s2.cells j = none := by unfold shape; rw [hc]
        exact ⟨nodeOKq_of_none hsh, by simp [listOK, hc], by simp [headerOK, hc]⟩
      · have hsh : shape s2.cells j = some ⟨.empty, [], []⟩ := shape_of_solo hc rfl
        exact ⟨by rw [nodeOKq_of_cell hc rfl]; simp [nodeOK, hsh], by simp [listOK, hc], by simp [headerOK, hc]⟩
    · rw [hfr.2.2.2.2.1, hcells]; exact headOK_appendq hinv.wfq _ hinv.wfq.reg
    · rw [hfr.2.2.2.1, hcells]; exact headSV_append _ hinv.wfq.val
    · rw [hfr.2.2.2.2.2, hcells]; exact headOK_appendq hinv.wfq _ hinv.wfq.frm
  refine ⟨st.store.cells.size, { st with store := s2, building := some (st.store.cells.size, []) }, ?_, ?_, rfl, ?_⟩
  · show (match st.store.startList n with | .ok (s', i) => _ | .err e => _ | .panic m => _ | .fuelOut => _) = _
    rw [hop]
  · have he := eff_sub nc hinv hsub hfr
    exact ⟨⟨he.keeps.dec, rfl, rfl, rfl, rfl⟩, he.regs, he.vals, rfl, he.frames⟩
  · have hb := binv_append hinv _ hl hfr hw hf2 (by
      intro c hc
      simp only [List.mem_cons, List.mem_replicate] at hc
      rcases hc with rfl | ⟨_, rfl⟩ <;> rfl)
    exact ⟨hb.wfq, hb.fits, hb.regHead, hb.regPrev, hb.frameSaved, hb.ftyped⟩

/-- `StoreLawsOn.addToList` is false of `BasicGarnishData`: after `start_list(0)` the construction holds
`building = some (t, [])`, the invariant holds, and `add_to_list` answers `Err` (the announced length is reached) -/
theorem addToList_clause_false (nc : NumCode F) :
    ¬ (∀ t items a st, BInv st → (basicRStore nc).building st = some (t, items) →
        ∃ t' st', (basicRStore nc).addToList t a st = .ok (t', st') ∧
          Eff (basicRStore nc) st st' ((basicRStore nc).regs st) ((basicRStore nc).vals st) ∧
          (basicRStore nc).building st' = some (t', items ++ [a]) ∧ BInv st') := by
  intro h
  obtain ⟨t, st1, h1, _, hb, hi⟩ := startList_law nc binv_init 0
  have hst : st1.store = (match Store.fresh.startList 0 with | .ok (s, _) => s | _ => Store.fresh) ∧ t = 0 := by
    have : (basicRStore nc).startList 0 BState.init =
        .ok (0, { BState.init with store := (match Store.fresh.startList 0 with | .ok (s, _) => s | _ => Store.fresh),
                                   building := some (0, []) }) := by rfl
    rw [this] at h1
    simp only [Outcome.ok.injEq, Prod.mk.injEq] at h1
    exact ⟨by rw [← h1.2], h1.1.symm⟩
  obtain ⟨t', st', h2, _⟩ := h t [] 0 st1 hi hb
  have herr : (basicRStore nc).addToList t 0 st1 = .err .data := by
    show (match st1.store.addToList t 0 with | .ok s' => _ | .err e => _ | .panic m => _ | .fuelOut => _) = _
    rw [hst.1, hst.2]
    rfl
  rw [herr] at h2
  cases h2

end Garnish.Lemmas.Runtime.Basic
