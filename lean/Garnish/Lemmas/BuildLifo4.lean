/-
C04, builder half — the order of the out-of-line parts, part 4: the invariant `LInv` (build nodes, `conditional_parent`,
recorded arms, positions on `root_stack`) and the description of one handler call with what it does to them (`StepL`).
-/
import Garnish.Lemmas.BuildLifo3
namespace Garnish.Lemmas.BuildSeq
open Garnish Garnish.Gen Garnish.Model.Parser Garnish.Model.Literals Garnish.Model.Build Garnish.Lemmas.Build
open Garnish.Lemmas.BuildTotal
open Garnish.Lemmas.BuildOrder (Above Attr Moving)

/-- the nodes recorded in `conditional_items` -/
def itemsOf (bn : BuildNode) : List Nat := bn.conditionalItems.toList.map (·.nodeIndex)

/-- `r` is an arm of the else-chain with head `s`: the out-of-line child of the JumpIf… `k`, whose conditional parent is `s` -/
def Arm (tree : Array ParseNode) (P : Nat → Prop) (root r s k : Nat) : Prop :=
  ∃ pn, tree[k]? = some pn ∧ pn.right = some r ∧ isJumpIf pn.definition = true ∧ CP tree P root k s ∧
    ∃ sn, tree[s]? = some sn ∧ sn.definition = .elseJump

structure LInv (root : Nat) (tree : Array ParseNode) (G : Nat → Prop) (m0 : Nat) (ph : Nat → Phase) (nodes : Nodes)
    (R : List Nat) (M : Array (Option Nat)) : Prop where
  reach : ∀ x, ph x ≠ .p0 → Sub tree root x
  noNode : ∀ (x : Nat), (ph x = .p0 ∨ ∃ o, ph x = .pc o) → ∀ (bn : BuildNode), nodes[x]? ≠ some (some bn)
  hasNode : ∀ (x : Nat), ph x ≠ .p0 → (∀ o, ph x ≠ .pc o) → ∃ bn : BuildNode, nodes[x]? = some (some bn)
  cpOk : ∀ (x : Nat) (bn : BuildNode), nodes[x]? = some (some bn) → CPdyn tree G root x bn.conditionalParent
  onRoot : ∀ x, ph x = .pr → x ∈ R
  sched : ∀ y c, G y → ILink tree y c → (ph y = .p2 ∨ ph y = .p3) → ph c ≠ .p0
  recd : ∀ x o, ph x = .pc o → ∃ (k : Nat) (pn : ParseNode) (bn : BuildNode), tree[k]? = some pn ∧ isJumpIf pn.definition = true ∧ pn.right = some x ∧
    CP tree G root k o ∧ ph k = .p3 ∧ nodes[o]? = some (some bn) ∧ x ∈ itemsOf bn
  pushed : ∀ r s k, Sched tree G root r s k → ph s = .p3 → ph r ≠ .p0 ∧ ∀ o, ph r ≠ .pc o
  armRec : ∀ r s k, Arm tree G root r s k → ph k = .p3 → ph r ≠ .p0
  armLate : ∀ r s k, Arm tree G root r s k → (ph r = .pr ∨ ph r = .p1 ∨ ph r = .p2 ∨ ph r = .p3) → ph s = .p3
  lifoR : ∀ r1 r2 x, Rel tree G root r1 r2 → Sub tree r2 x → ph x = .pr → ph r1 = .pr ∧ Above R x r1
  lifoA : ∀ r1 r2 x, Rel tree G root r1 r2 → Sub tree r2 x → Act ph x → ph r1 = .pr
  armsOrd : ∀ (r1 r2 s k1 k2 : Nat) (bn : BuildNode), Arm tree G root r1 s k1 → Arm tree G root r2 s k2 → LastB tree G k1 k2 → ph r2 = .pc s →
    nodes[s]? = some (some bn) → ph r1 = .pc s ∧ Above (itemsOf bn) r2 r1
  schedEx : ∀ k r, G k → OolChild tree k r → (ph r = .pr ∨ ph r = .p1 ∨ ph r = .p2 ∨ ph r = .p3) →
    ∃ s, Sched tree G root r s k
  ignored : ∀ y c, G y → IsChild tree y c → ¬ ILink tree y c → ¬ OolChild tree y c → ph c = .p0
  noGroup : ∀ (x : Nat) (pn : ParseNode), tree[x]? = some pn → pn.definition = .group → ¬ Attr m0 M x
  ordL : ∀ x z, PrecL tree G root x z → ∀ kx kz : Nat, m0 ≤ kx → m0 ≤ kz → M[kx]? = some (some x) → M[kz]? = some (some z) →
    kx < kz

/-- one handler call, with what it does to `root_stack`, to the build nodes and to the out-of-line child -/
structure StepL {F : Type} (root : Nat) (tree : Array ParseNode) (G : Nat → Prop) (ph ph' : Nat → Phase) (ctx ctx' : Ctx F)
    (ni : Nat) (pn : ParseNode) (vni : Phase) (cs rs suf rsuf : List Nat) (l : List (Option Nat))
    (M M' : Array (Option Nat)) : Prop where
  st : Step root tree G ph ph' ctx ctx' ni pn vni cs rs suf l M M'
  hR : ctx'.rootStack.toList = ctx.rootStack.toList ++ rsuf
  hrsuf : ∀ c, c ∈ rsuf ↔ (c ∈ rs ∧ ph' c = .pr)
  hrsph : ∀ c, c ∈ rs → ph' c = .pr ∨ ∃ o, ph' c = .pc o
  hrs3 : rs ≠ [] → vni = .p3
  hall : ph ni = .p1 → ∀ c, ILink tree ni c → c ∈ cs
  hrsFrom : ∀ c, c ∈ rs → (ph c = .p0 ∧ pn.right = some c) ∨ (ph c = .pc ni ∧ pn.definition = .elseJump ∧ ph' c = .pr ∧
    ∀ (bn : BuildNode), ctx.nodes[ni]? = some (some bn) → bn.conditionalParent = none)
  hdirect : ∀ c, c ∈ rs → ph c = .p0 → ph' c = .pr → ∀ (bn : BuildNode), ctx.nodes[ni]? = some (some bn) →
    isDirect pn.definition = true ∨ (isJumpIf pn.definition = true ∧ bn.conditionalParent = none)
  hcond : ∀ c cp, c ∈ rs → ph' c = .pc cp → isJumpIf pn.definition = true ∧ ∃ (bn parent : BuildNode),
    ctx.nodes[ni]? = some (some bn) ∧ bn.conditionalParent = some cp ∧ ctx.nodes[cp]? = some (some parent) ∧
    ∃ bn' : BuildNode, ctx'.nodes[cp]? = some (some bn') ∧ itemsOf bn' = itemsOf parent ++ [c]
  hlast : vni = .p3 → ∀ (r : Nat) (bn : BuildNode), pn.right = some r → ctx.nodes[ni]? = some (some bn) →
    ((isDirect pn.definition = true ∨ (isJumpIf pn.definition = true ∧ bn.conditionalParent = none)) → r ∈ rs ∧ ph' r = .pr) ∧
    (isJumpIf pn.definition = true → ∀ (cp : Nat) (parent : BuildNode), bn.conditionalParent = some cp → ctx.nodes[cp]? = some (some parent) →
      r ∈ rs ∧ ph' r = .pc cp)
  helse : vni = .p3 → pn.definition = .elseJump → ∀ (bn : BuildNode), ctx.nodes[ni]? = some (some bn) → bn.conditionalParent = none →
    rsuf = itemsOf bn
  hnOld : ∀ (x : Nat) (bn' : BuildNode), ctx'.nodes[x]? = some (some bn') → (∃ bn0 : BuildNode, ctx.nodes[x]? = some (some bn0)) →
    ∃ bn : BuildNode, ctx.nodes[x]? = some (some bn) ∧ bn'.conditionalParent = bn.conditionalParent ∧
      (itemsOf bn' = itemsOf bn ∨ ∃ c, c ∈ rs ∧ ph' c = .pc x ∧ itemsOf bn' = itemsOf bn ++ [c])
  hnNew : ∀ (x : Nat) (bn' : BuildNode), ctx'.nodes[x]? = some (some bn') → (∀ bn : BuildNode, ctx.nodes[x]? ≠ some (some bn)) →
    (x ∈ cs ∨ (x ∈ rs ∧ ph' x = .pr)) ∧ itemsOf bn' = [] ∧ CPdyn tree G root x bn'.conditionalParent
  hnKeep : ∀ (x : Nat) (bn : BuildNode), ctx.nodes[x]? = some (some bn) → ∃ bn' : BuildNode, ctx'.nodes[x]? = some (some bn')
  hnGet : ∀ (c : Nat), (c ∈ cs ∨ (c ∈ rs ∧ ph' c = .pr)) → ∃ bn' : BuildNode, ctx'.nodes[c]? = some (some bn')
  hgroup : pn.definition = .group → some ni ∉ l

end Garnish.Lemmas.BuildSeq
