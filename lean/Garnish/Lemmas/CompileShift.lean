/-
Position independence of the structured compiler: compiling the renamed program (body ids shifted by the number of jump
entries of `P0`) into an object that holds `P0` goes through the same states as compiling the program alone, shifted:
instructions after `P0`'s with their operands shifted, constants after `P0`'s renamed, the same roots shifted.
Used for: `WFProgram p → WFProgramAt P0 (rlProgram (shJ P0) p)`.
-/
import Garnish.Lemmas.CompileRelabel4
import Garnish.Lemmas.CompileLayout4
import Garnish.Lemmas.CompileDepth9
namespace Garnish.Abs
open Garnish Gen Garnish.Spec

variable {F : Type} (P0 : Prog F)

/-- the shift of jump entries -/
def shJ (n : Nat) : Nat := P0.jumps.size + n

theorem shJ_inj : ∀ a b, shJ P0 a = shJ P0 b → a = b := fun a b h => by simp only [shJ] at h; omega

def shOp (i : Instruction) (n : Nat) : Nat :=
  match i with
  | .put | .resolve => P0.consts.size + n
  | .jumpTo | .jumpIfTrue | .jumpIfFalse | .and | .or | .reapply => P0.jumps.size + n
  | _ => n

def shI (x : Instr) : Instr := (x.1, x.2.map (shOp P0 x.1))

theorem shI_inj (x y : Instr) (h : shI P0 x = shI P0 y) : x = y := by
  obtain ⟨i, o⟩ := x
  obtain ⟨i', o'⟩ := y
  simp only [shI, Prod.mk.injEq] at h
  obtain ⟨rfl, h2⟩ := h
  cases o <;> cases o' <;> simp only [Option.map_none, Option.map_some, Option.some.injEq] at h2 <;> try cases h2
  · rfl
  · rename_i a b
    have : a = b := by
      cases i <;> simp only [shOp] at h2 <;> omega
    subst this; rfl

def shKind : RootKind F → RootKind F
  | .code e => .code (rlE (shJ P0) e)
  | .ref id => .ref (shJ P0 id)

def shRoot (r : Root F) : Root F := ⟨shKind P0 r.kind, shJ P0 r.patch, r.term.map (shI P0), shJ P0 r.containing⟩

/-- the state of the shared build is the shifted state of the build alone (jump VALUES are not compared: placeholders) -/
structure Sh (s s' : LState F) : Prop where
  instrs : s'.instrs = P0.instrs ++ s.instrs.map (shI P0)
  jsize : s'.jumps.size = shJ P0 s.jumps.size
  consts : s'.consts = P0.consts ++ s.consts.map (Val.rl (shJ P0))
  pending : s'.pending = s.pending.map (shRoot P0)
  done : s'.done = s.done.map (shRoot P0)

variable {P0}

theorem Sh.isize {s s' : LState F} (h : Sh P0 s s') : s'.instrs.size = P0.instrs.size + s.instrs.size := by
  rw [h.instrs]; simp

theorem Sh.csize {s s' : LState F} (h : Sh P0 s s') : s'.consts.size = P0.consts.size + s.consts.size := by
  rw [h.consts]; simp

theorem Sh.push {s s' : LState F} (h : Sh P0 s s') (i : Instruction) (d : Option Nat) :
    Sh P0 (s.push i d) (s'.push i (d.map (shOp P0 i))) where
  instrs := by simp [LState.push, h.instrs, shI]
  jsize := h.jsize
  consts := h.consts
  pending := h.pending
  done := h.done

theorem Sh.push_none {s s' : LState F} (h : Sh P0 s s') (i : Instruction) : Sh P0 (s.push i none) (s'.push i none) :=
  h.push i none

theorem Sh.pushConst {s s' : LState F} (h : Sh P0 s s') (i : Instruction) (v : Val F) (hi : i = .put ∨ i = .resolve) :
    Sh P0 (s.pushConst i v) (s'.pushConst i (Val.rl (shJ P0) v)) where
  instrs := by
    rcases hi with rfl | rfl <;> simp [LState.pushConst, h.instrs, shI, shOp, h.csize]
  jsize := h.jsize
  consts := by simp [LState.pushConst, h.consts]
  pending := h.pending
  done := h.done

theorem Sh.pushJump {s s' : LState F} (h : Sh P0 s s') (t t' : Nat) : Sh P0 (s.pushJump t) (s'.pushJump t') where
  instrs := h.instrs
  jsize := by simp only [LState.pushJump, Array.size_push, h.jsize, shJ]; omega
  consts := h.consts
  pending := h.pending
  done := h.done

theorem Sh.pushRoot {s s' : LState F} (h : Sh P0 s s') (r : Root F) : Sh P0 (s.pushRoot r) (s'.pushRoot (shRoot P0 r)) where
  instrs := h.instrs
  jsize := h.jsize
  consts := h.consts
  pending := by simp [LState.pushRoot, h.pending]
  done := h.done

theorem shOp_jumpIf (b : Bool) (n : Nat) : shOp P0 (jumpIf b) n = shJ P0 n := by cases b <;> rfl

theorem condTail_sh {s s' : LState F} (h : Sh P0 s s') (cur : Nat) (onTrue : Bool) (t : Expr F) :
    Sh P0 (condTail cur onTrue t s) (condTail (shJ P0 cur) onTrue (rlE (shJ P0) t) s') := by
  simp only [condTail]
  have h1 := ((h.pushJump 0 0).push (jumpIf onTrue) (some s.jumps.size)).push_none .putValue
  simp only [Option.map_some, shOp_jumpIf] at h1
  have e1 : shJ P0 s.jumps.size = s'.jumps.size := h.jsize.symm
  rw [e1] at h1
  have h2 := (h1.pushRoot ⟨.code t, s.jumps.size, [(.jumpTo, some (((s.pushJump 0).push (jumpIf onTrue) (some s.jumps.size)).push .putValue none).jumps.size)], cur⟩).pushJump
    (((s.pushJump 0).push (jumpIf onTrue) (some s.jumps.size)).push .putValue none).instrs.size
    (((s'.pushJump 0).push (jumpIf onTrue) (some s'.jumps.size)).push .putValue none).instrs.size
  have e2 : shRoot P0 ⟨.code t, s.jumps.size, [(.jumpTo, some (((s.pushJump 0).push (jumpIf onTrue) (some s.jumps.size)).push .putValue none).jumps.size)], cur⟩ =
      ⟨.code (rlE (shJ P0) t), s'.jumps.size, [(.jumpTo, some (((s'.pushJump 0).push (jumpIf onTrue) (some s'.jumps.size)).push .putValue none).jumps.size)], shJ P0 cur⟩ := by
    simp only [shRoot, shKind, e1, List.map_cons, List.map_nil, shI, Option.map_some, shOp]
    have := h1.jsize
    simp only [shJ] at this ⊢
    rw [this]
  rw [e2] at h2
  exact h2

theorem logicalTail_sh {s s' : LState F} (h : Sh P0 s s') (cur : Nat) (instr : Instruction) (hi : instr = .and ∨ instr = .or)
    (r : Expr F) : Sh P0 (logicalTail cur instr r s) (logicalTail (shJ P0 cur) instr (rlE (shJ P0) r) s') := by
  simp only [logicalTail]
  have h1 := (h.pushJump 0 0).push instr (some s.jumps.size)
  have e0 : shOp P0 instr s.jumps.size = shJ P0 s.jumps.size := by rcases hi with rfl | rfl <;> rfl
  simp only [Option.map_some, e0] at h1
  have e1 : shJ P0 s.jumps.size = s'.jumps.size := h.jsize.symm
  rw [e1] at h1
  have h2 := (h1.pushRoot ⟨.code r, s.jumps.size, [(.tis, none), (.jumpTo, some ((s.pushJump 0).push instr (some s.jumps.size)).jumps.size)], cur⟩).pushJump
    ((s.pushJump 0).push instr (some s.jumps.size)).instrs.size
    ((s'.pushJump 0).push instr (some s'.jumps.size)).instrs.size
  have e2 : shRoot P0 ⟨.code r, s.jumps.size, [(.tis, none), (.jumpTo, some ((s.pushJump 0).push instr (some s.jumps.size)).jumps.size)], cur⟩ =
      ⟨.code (rlE (shJ P0) r), s'.jumps.size, [(.tis, none), (.jumpTo, some ((s'.pushJump 0).push instr (some s'.jumps.size)).jumps.size)], shJ P0 cur⟩ := by
    simp only [shRoot, shKind, e1, List.map_cons, List.map_nil, shI, Option.map_some, Option.map_none, shOp]
    have := h1.jsize
    simp only [shJ] at this ⊢
    rw [this]
  rw [e2] at h2
  exact h2

/-- the arm bodies with their jump entries, shifted -/
def shItems (items : List (Expr F × Nat)) : List (Expr F × Nat) := items.map (fun it => (rlE (shJ P0) it.1, shJ P0 it.2))

theorem armRoots_sh (cur join : Nat) (items : List (Expr F × Nat)) :
    armRoots (shJ P0 cur) (shJ P0 join) (shItems (P0 := P0) items) = (armRoots cur join items).map (shRoot P0) := by
  simp only [armRoots, shItems, List.map_map, List.map_reverse]
  congr 1

theorem finishChain_sh {s s' : LState F} (h : Sh P0 s s') (cur : Nat) (items : List (Expr F × Nat)) :
    Sh P0 (finishChain cur s items) (finishChain (shJ P0 cur) s' (shItems (P0 := P0) items)) := by
  cases items with
  | nil => simpa [finishChain, shItems] using h
  | cons it its =>
    have hj := h.pushJump s.instrs.size s'.instrs.size
    have e := armRoots_sh (P0 := P0) cur s.jumps.size (it :: its)
    simp only [shItems, List.map_cons] at e
    simp only [finishChain, shItems, List.map_cons]
    exact ⟨hj.instrs, hj.jsize, hj.consts, by
      show armRoots _ s'.jumps.size _ ++ s'.pending = _
      rw [h.jsize, e, h.pending]; simp, hj.done⟩

theorem chainNoFinal_sh {s s' : LState F} (h : Sh P0 s s') (arms : List (Bool × Expr F × Expr F)) :
    Sh P0 (chainNoFinal arms s) (chainNoFinal (rlArms (shJ P0) arms) s') := by
  cases arms with
  | nil => simpa [chainNoFinal, rlArms] using h.push_none .putValue
  | cons a rest => obtain ⟨b, c, t⟩ := a; simpa [chainNoFinal, rlArms] using h

theorem rlEs_length (ρ : Nat → Nat) : ∀ (l : List (Expr F)), (rlEs ρ l).length = l.length
  | [] => rfl
  | x :: xs => by simp [rlEs, rlEs_length ρ xs]

mutual
theorem emit_sh (root cur : Nat) : ∀ (e : Expr F) (s s' : LState F), Sh P0 s s' →
    Sh P0 (emit root cur e s) (emit (shJ P0 root) (shJ P0 cur) (rlE (shJ P0) e) s')
  | .lit v, s, s', h => by simp only [emit, rlE]; exact h.pushConst _ _ (.inl rfl)
  | .input, s, s', h => by simp only [emit, rlE]; exact h.push_none _
  | .ident sym, s, s', h => by
    simp only [emit, rlE]
    have := h.pushConst .resolve (.sym sym) (.inr rfl)
    simpa [Val.rl] using this
  | .unary op x, s, s', h => by simp only [emit, rlE]; exact (emit_sh root cur x s s' h).push_none _
  | .binary op l r, s, s', h => by
    simp only [emit, rlE]; exact (emit_sh root cur r _ _ (emit_sh root cur l s s' h)).push_none _
  | .pair l r, s, s', h => by
    simp only [emit, rlE]; exact (emit_sh root cur l _ _ (emit_sh root cur r s s' h)).push_none _
  | .applyTo x f, s, s', h => by
    simp only [emit, rlE]; exact (emit_sh root cur x _ _ (emit_sh root cur f s s' h)).push_none _
  | .list items, s, s', h => by
    simp only [emit, rlE, rlEs_length]
    have := (emitList_sh root cur items s s' h).push .makeList (some items.length)
    simpa [shOp] using this
  | .cond onTrue c t, s, s', h => by
    simp only [emit, rlE]; exact condTail_sh (emit_sh root cur c s s' h) cur onTrue t
  | .chain arms none, s, s', h => by
    simp only [emit, rlE]
    have ha := emitArms_sh root cur arms s s' h
    rw [ha.2]
    exact finishChain_sh (chainNoFinal_sh ha.1 arms) cur _
  | .chain arms (some e), s, s', h => by
    simp only [emit, rlE]
    have ha := emitArms_sh root cur arms s s' h
    rw [ha.2]
    exact finishChain_sh (emit_sh root cur e _ _ ha.1) cur _
  | .and l r, s, s', h => by
    simp only [emit, rlE]; exact logicalTail_sh (emit_sh root cur l s s' h) cur .and (.inl rfl) r
  | .or l r, s, s', h => by
    simp only [emit, rlE]; exact logicalTail_sh (emit_sh root cur l s s' h) cur .or (.inr rfl) r
  | .seq a b, s, s', h => by
    simp only [emit, rlE]; exact emit_sh root cur b _ _ ((emit_sh root cur a s s' h).push_none _)
  | .sideAfter x body, s, s', h => by
    simp only [emit, rlE]
    exact (emit_sh root cur body _ _ ((emit_sh root cur x s s' h).push_none _)).push_none _
  | .nested id, s, s', h => by
    simp only [emit, rlE]
    have h1 := ((h.pushJump 0 0).pushConst .put (.expr s.jumps.size) (.inl rfl)).pushRoot
      ⟨.ref id, s.jumps.size, [(.endExpression, none)], s.jumps.size⟩
    have e1 : shJ P0 s.jumps.size = s'.jumps.size := h.jsize.symm
    simpa [Val.rl, shRoot, shKind, shI, e1] using h1
  | .emptyNested, s, s', h => by
    simp only [emit, rlE]
    have := h.pushConst .put (.expr cur) (.inl rfl)
    simpa [Val.rl] using this
  | .reapply x, s, s', h => by
    simp only [emit, rlE]
    have := ((emit_sh root cur x s s' h).push_none .updateValue).push .jumpTo (some cur)
    simpa [shOp, shJ] using this
  | .prefixApply sym x, s, s', h => by
    simp only [emit, rlE]
    have h1 := h.pushConst .resolve (.sym sym) (.inr rfl)
    simp only [Val.rl] at h1
    exact (emit_sh root cur x _ _ h1).push_none _
  | .suffixApply x sym, s, s', h => by
    simp only [emit, rlE]
    have h1 := h.pushConst .resolve (.sym sym) (.inr rfl)
    simp only [Val.rl] at h1
    exact (emit_sh root cur x _ _ h1).push_none _
  | .infixApply a sym b, s, s', h => by
    simp only [emit, rlE]
    have h1 := h.pushConst .resolve (.sym sym) (.inr rfl)
    simp only [Val.rl] at h1
    have := ((emit_sh root cur b _ _ (emit_sh root cur a _ _ h1)).push .makeList (some 2)).push_none .apply
    simpa [shOp] using this
theorem emitList_sh (root cur : Nat) : ∀ (items : List (Expr F)) (s s' : LState F), Sh P0 s s' →
    Sh P0 (emitList root cur items s) (emitList (shJ P0 root) (shJ P0 cur) (rlEs (shJ P0) items) s')
  | [], s, s', h => by simpa [emitList, rlEs] using h
  | x :: xs, s, s', h => by
    simp only [emitList, rlEs]; exact emitList_sh root cur xs _ _ (emit_sh root cur x s s' h)
theorem emitArms_sh (root cur : Nat) : ∀ (arms : List (Bool × Expr F × Expr F)) (s s' : LState F), Sh P0 s s' →
    Sh P0 (emitArms root cur arms s).1 (emitArms (shJ P0 root) (shJ P0 cur) (rlArms (shJ P0) arms) s').1 ∧
    (emitArms (shJ P0 root) (shJ P0 cur) (rlArms (shJ P0) arms) s').2 = shItems (P0 := P0) (emitArms root cur arms s).2
  | [], s, s', h => by simpa [emitArms, rlArms, shItems] using h
  | (onTrue, c, t) :: rest, s, s', h => by
    simp only [emitArms, rlArms]
    have h1 := emit_sh root cur c s s' h
    have h2 := (h1.pushJump 0 0).push (jumpIf onTrue) (some (emit root cur c s).jumps.size)
    simp only [Option.map_some, shOp_jumpIf] at h2
    have e1 : shJ P0 (emit root cur c s).jumps.size = (emit (shJ P0 root) (shJ P0 cur) (rlE (shJ P0) c) s').jumps.size :=
      h1.jsize.symm
    rw [e1] at h2
    have ih := emitArms_sh root cur rest _ _ h2
    refine ⟨ih.1, ?_⟩
    rw [ih.2]
    simp [shItems, e1]
end

/-! ### the loop -/

theorem addTerms_sh {start start' : Nat} {last last' : Option Instr} (hst : start' = P0.instrs.size + start)
    (hl : last' = last.map (shI P0)) : ∀ (terms : List Instr) (s s' : LState F), Sh P0 s s' → s.instrs.size > start →
    Sh P0 (addTerms start last terms s) (addTerms start' last' (terms.map (shI P0)) s')
  | [], s, s', h, _ => by simpa [addTerms] using h
  | t :: ts, s, s', h, hgt => by
    simp only [addTerms, List.map_cons]
    have hc : (last' = some (shI P0 t) ∧ (shI P0 t).1 = .endExpression ∧ s'.instrs.size > start') ↔
        (last = some t ∧ t.1 = .endExpression ∧ s.instrs.size > start) := by
      have e1 : (last' = some (shI P0 t)) ↔ (last = some t) := by
        rw [hl]
        cases last with
        | none => simp
        | some x =>
          simp only [Option.map_some, Option.some.injEq]
          exact ⟨fun e => shI_inj P0 _ _ e, fun e => by rw [e]⟩
      have e2 : s'.instrs.size > start' ↔ s.instrs.size > start := by rw [h.isize, hst]; omega
      rw [e1, e2]; rfl
    by_cases hcond : last = some t ∧ t.1 = .endExpression ∧ s.instrs.size > start
    · rw [if_pos hcond, if_pos (hc.mpr hcond)]
      exact addTerms_sh hst hl ts s s' h hgt
    · rw [if_neg hcond, if_neg (fun x => hcond (hc.mp x))]
      refine addTerms_sh hst hl ts _ _ (h.push t.1 t.2) ?_
      simp only [LState.push, Array.size_push]; omega

theorem back_sh {s s' : LState F} (h : Sh P0 s s') (hpos : 0 < s.instrs.size) :
    s'.instrs.back? = s.instrs.back?.map (shI P0) := by
  rw [h.instrs]
  simp only [Array.back?, Array.size_append, Array.size_map]
  have e : P0.instrs.size + s.instrs.size - 1 = P0.instrs.size + (s.instrs.size - 1) := by omega
  rw [e, Array.getElem?_append_right (by omega)]
  simp

section loop
variable (bodies : List (Nat × Expr F))

theorem layoutRoot_sh {s s' : LState F} {r : Root F} {rest : List (Root F)} (h : Sh P0 s s') (inv : Inv s)
    (hp : s.pending = r :: rest) :
    Sh P0 (layoutRoot bodies r { s with pending := rest })
      (layoutRoot (rlBodies (shJ P0) bodies) (shRoot P0 r) { s' with pending := rest.map (shRoot P0) }) := by
  have hr_mem : r ∈ s.pending := by rw [hp]; exact List.mem_cons_self
  have hcont := inv.cont r hr_mem
  have href := inv.ref r hr_mem
  rw [layoutRoot_eq, layoutRoot_eq]
  simp only
  generalize hs1 : LState.mk s.instrs (s.jumps.setIfInBounds r.patch s.instrs.size) s.consts rest (r :: s.done)
    s.depths (s.pendDep.headD 0) s.pendDep.tail = s1
  generalize hs1' : LState.mk s'.instrs (s'.jumps.setIfInBounds (shRoot P0 r).patch s'.instrs.size) s'.consts
    (rest.map (shRoot P0)) (shRoot P0 r :: s'.done) s'.depths (s'.pendDep.headD 0) s'.pendDep.tail = s1'
  have h1 : Sh P0 s1 s1' := by
    rw [← hs1, ← hs1']
    exact ⟨h.instrs, by simpa using h.jsize, h.consts, rfl, by simp [h.done]⟩
  have s1_instrs : s1.instrs = s.instrs := by rw [← hs1]
  have s1'_instrs : s1'.instrs = s'.instrs := by rw [← hs1']
  have s1_jsize : s1.jumps.size = s.jumps.size := by rw [← hs1]; simp
  have hst : s1'.instrs.size = P0.instrs.size + s1.instrs.size := h1.isize
  -- the body
  have hbody : rootBody (rlBodies (shJ P0) bodies) (shRoot P0 r) = (rootBody bodies r).map (rlE (shJ P0)) := by
    simp only [rootBody, shRoot, shKind]
    cases r.kind with
    | code e => rfl
    | ref id => exact lookupBody_rl (shJ_inj P0) bodies id
  simp only [bodyState, hbody]
  cases hb : rootBody bodies r with
  | some b =>
    simp only [Option.map_some]
    have h2 := emit_sh (P0 := P0) r.patch r.containing b s1 s1' h1
    have hsz := (emit_pre r.patch r.containing b s1 (by omega)).2
    have hpos := len_pos b
    have := addTerms_sh hst (back_sh h2 (by omega)) r.term _ _ h2 (by omega)
    rw [s1_instrs, s1'_instrs] at this
    exact this
  | none =>
    simp only [Option.map_none]
    have hterm : r.term = [(.endExpression, none)] := by
      simp only [rootBody] at hb
      cases hk : r.kind with
      | code e => rw [hk] at hb; cases hb
      | ref id => exact (href id hk).2
    rw [hterm]
    simp only [shRoot, hterm, List.map_cons, List.map_nil, addTerms]
    rw [if_neg (fun x => by have := x.2.2; rw [s1_instrs] at this; omega),
      if_neg (fun x => by have := x.2.2; rw [s1'_instrs] at this; omega)]
    exact h1.push _ _

theorem layoutRoots_sh : ∀ (fuel : Nat) (s s' : LState F), Sh P0 s s' → Inv s →
    Sh P0 (layoutRoots bodies fuel s) (layoutRoots (rlBodies (shJ P0) bodies) fuel s')
  | 0, s, s', h, _ => by simpa [layoutRoots] using h
  | fuel + 1, s, s', h, inv => by
    cases hp : s.pending with
    | nil =>
      have hp' : s'.pending = [] := by rw [h.pending, hp]; rfl
      simpa [layoutRoots, hp, hp'] using h
    | cons r rest =>
      have hp' : s'.pending = shRoot P0 r :: rest.map (shRoot P0) := by rw [h.pending, hp]; rfl
      simp only [layoutRoots, hp, hp']
      exact layoutRoots_sh fuel _ _ (layoutRoot_sh bodies h inv hp) (layoutRoot_facts bodies inv hp).1

end loop

end Garnish.Abs
