/-
`treeOf` (2): from expressions to skeletons.  Operands that are not a single token are wrapped in a group node; a list is a
left-nested `CommaList` spine, an else-chain a left-nested `ElseJump` spine over its `JumpIf` arms, `{ body }` a
`NestedExpression` node over the skeleton of the body (`nb`: the skeletons of the bodies, by id).  The printer supplies the
token text of literals and names.  A side-effect block after a value, `v [ body ]`, is the value node over a `SideEffect`
node over the body.  Not produced (the skeleton is the placeholder `bad`, and `fragE` is false): side-effect blocks after
anything but a literal / `$` / identifier, lists with fewer than two items, an else-chain without arms or with a single conditional arm and no final arm,
operators outside the tables of `handle_parse_node`.
-/
import Garnish.Lemmas.CompileTreeOf
namespace Garnish.Abs.Tree
open Garnish Garnish.Gen Garnish.Spec Garnish.Abs Garnish.Model.Parser Garnish.Model.Literals Garnish.Model.Build
open Sk

variable {F : Type}

structure Printer (F : Type) where
  lit : Val F → Lab
  name : Nat → List Char

/-- the node of a unary operator, and whether it is a prefix operator -/
def unDef : Instruction → Option (Definition × Bool)
  | .absoluteValue => some (.absoluteValue, true) | .opposite => some (.opposite, true)
  | .bitwiseNot => some (.bitwiseNot, true) | .not => some (.not, true) | .tis => some (.tis, true)
  | .typeOf => some (.typeOf, true) | .accessLeftInternal => some (.accessLeftInternal, true)
  | .emptyApply => some (.emptyApply, false) | .accessRightInternal => some (.accessRightInternal, false)
  | .accessLengthInternal => some (.accessLengthInternal, false)
  | _ => none

def binDef : Instruction → Option Definition
  | .add => some .addition | .subtract => some .subtraction | .multiply => some .multiplicationSign
  | .divide => some .division | .access => some .access | .makeRange => some .range
  | .makeStartExclusiveRange => some .startExclusiveRange | .makeEndExclusiveRange => some .endExclusiveRange
  | .makeExclusiveRange => some .exclusiveRange | .power => some .exponentialSign | .remainder => some .remainder
  | .integerDivide => some .integerDivision | .bitwiseAnd => some .bitwiseAnd | .bitwiseOr => some .bitwiseOr
  | .bitwiseXor => some .bitwiseXor | .bitwiseShiftRight => some .bitwiseRightShift
  | .bitwiseShiftLeft => some .bitwiseLeftShift | .xor => some .xor | .typeEqual => some .typeEqual
  | .applyType => some .typeCast | .equal => some .equality | .notEqual => some .inequality
  | .lessThan => some .lessThan | .lessThanOrEqual => some .lessThanOrEqual | .greaterThan => some .greaterThan
  | .greaterThanOrEqual => some .greaterThanOrEqual | .apply => some .apply | .partialApply => some .partialApply
  | .concat => some .concatenation
  | _ => none

theorem unDef_pre {op : Instruction} {d : Definition} (h : unDef op = some (d, true)) : prefixOp d = some op := by
  cases op <;> simp [unDef] at h <;> subst h <;> rfl

theorem unDef_suf {op : Instruction} {d : Definition} (h : unDef op = some (d, false)) : suffixOp d = some op := by
  cases op <;> simp [unDef] at h <;> subst h <;> rfl

theorem binDef_op {op : Instruction} {d : Definition} (h : binDef op = some d) : binOp d = some op := by
  cases op <;> simp [binDef] at h <;> subst h <;> rfl

def isLeafE : Expr F → Bool
  | .lit _ | .input | .ident _ | .emptyNested => true
  | _ => false

/-- the expressions a value node stands for -/
def isValE : Expr F → Bool
  | .lit _ | .input | .ident _ => true
  | _ => false

def sideLab : Lab := (.sideEffect, ['['])
def grp : Lab := (.group, ['('])
def comma : Lab := (.commaList, [','])
def ej : Lab := (.elseJump, ['|', '>'])
def bad : Sk := .leaf (.unit, [])

/-- an operand: as it is when it is a single token, in a group otherwise -/
def wrap (leaf : Bool) (s : Sk) : Sk := if leaf then s else .pre grp s

def spine (d : Lab) (acc : Sk) (rest : List Sk) : Sk := rest.foldl (fun a x => .bin a d x) acc

variable (pr : Printer F) (nb : Nat → Option Sk)

mutual
def skel : Expr F → Sk
  | .lit v => .leaf (pr.lit v)
  | .input => .leaf (.value, ['$'])
  | .ident s => .leaf (.identifier, pr.name s)
  | .emptyNested => .leaf (.nestedExpression, ['{'])
  | .unary op x =>
    match unDef op with
    | some (d, true) => .pre (d, []) (wrap (isLeafE x) (skel x))
    | some (d, false) => .suf (wrap (isLeafE x) (skel x)) (d, [])
    | none => bad
  | .binary op a b =>
    match binDef op with
    | some d => .bin (wrap (isLeafE a) (skel a)) (d, []) (wrap (isLeafE b) (skel b))
    | none => bad
  | .pair a b => .bin (wrap (isLeafE a) (skel a)) (.pair, ['=']) (wrap (isLeafE b) (skel b))
  | .applyTo a b => .bin (wrap (isLeafE a) (skel a)) (.applyTo, ['~', '>']) (wrap (isLeafE b) (skel b))
  | .list items =>
    match skelItems items with
    | a :: b :: rest => spine comma (.bin a comma b) rest
    | _ => bad
  | .cond t c e => .bin (wrap (isLeafE c) (skel c)) (jumpIfDef t, []) (wrap (isLeafE e) (skel e))
  | .chain arms (some fe) =>
    match skelArms arms with
    | a :: rest => .bin (spine ej a rest) ej (wrap (isLeafE fe) (skel fe))
    | [] => bad
  | .chain arms none =>
    match skelArms arms with
    | a :: b :: rest => spine ej (.bin a ej b) rest
    | _ => bad
  | .and a b => .bin (wrap (isLeafE a) (skel a)) (.and, ['&', '&']) (wrap (isLeafE b) (skel b))
  | .or a b => .bin (wrap (isLeafE a) (skel a)) (.or, ['|', '|']) (wrap (isLeafE b) (skel b))
  | .seq a b => .bin (wrap (isLeafE a) (skel a)) (.expressionSeparator, [';']) (wrap (isLeafE b) (skel b))
  | .sideAfter x b =>
    if isValE x then .pre (skel x).lab (.pre sideLab (skel b)) else bad
  | .nested id =>
    match nb id with
    | some s => .pre (.nestedExpression, ['{']) s
    | none => bad
  | .reapply x => .pre (.reapply, ['^', '~']) (wrap (isLeafE x) (skel x))
  | .prefixApply s x => .pre (.prefixApply, pr.name s ++ ['`']) (wrap (isLeafE x) (skel x))
  | .suffixApply x s => .suf (wrap (isLeafE x) (skel x)) (.suffixApply, '`' :: pr.name s)
  | .infixApply a s b =>
    .bin (wrap (isLeafE a) (skel a)) (.infixApply, '`' :: (pr.name s ++ ['`'])) (wrap (isLeafE b) (skel b))
def skelItems : List (Expr F) → List Sk
  | [] => []
  | x :: xs => wrap (isLeafE x) (skel x) :: skelItems xs
def skelArms : List (Bool × Expr F × Expr F) → List Sk
  | [] => []
  | (t, c, e) :: xs =>
    .bin (wrap (isLeafE c) (skel c)) (jumpIfDef t, []) (wrap (isLeafE e) (skel e)) :: skelArms xs
end

variable (pf : List Char → Option F) (okb : Nat → Prop)

/- `fragE`: the expressions `skel` renders faithfully (`okb`: the nested ids whose bodies it renders faithfully) -/
mutual
def fragE : Expr F → Prop
  | .lit v => LitRep pf (mkPN (pr.lit v) none none none) v
  | .input => True
  | .ident s => parseSymbol (pr.name s) = s
  | .emptyNested => True
  | .unary op x => (unDef op).isSome ∧ fragE x
  | .binary op a b => (binDef op).isSome ∧ fragE a ∧ fragE b
  | .pair a b => fragE a ∧ fragE b
  | .applyTo a b => fragE a ∧ fragE b
  | .list items => 2 ≤ items.length ∧ fragItems items
  | .cond _ c e => fragE c ∧ fragE e
  | .chain arms (some fe) => 1 ≤ arms.length ∧ fragArms arms ∧ fragE fe
  | .chain arms none => 2 ≤ arms.length ∧ fragArms arms
  | .and a b => fragE a ∧ fragE b
  | .or a b => fragE a ∧ fragE b
  | .seq a b => fragE a ∧ fragE b
  | .sideAfter x b => isValE x = true ∧ fragE x ∧ fragE b
  | .nested id => okb id
  | .reapply x => fragE x
  | .prefixApply s x => parseSymbol (trimMatches '`' (pr.name s ++ ['`'])) = s ∧ fragE x
  | .suffixApply x s => parseSymbol (trimMatches '`' ('`' :: pr.name s)) = s ∧ fragE x
  | .infixApply a s b => parseSymbol (trimMatches '`' ('`' :: (pr.name s ++ ['`']))) = s ∧ fragE a ∧ fragE b
def fragItems : List (Expr F) → Prop
  | [] => True
  | x :: xs => fragE x ∧ fragItems xs
def fragArms : List (Bool × Expr F × Expr F) → Prop
  | [] => True
  | (_, c, e) :: xs => fragE c ∧ fragE e ∧ fragArms xs
end

/-- the skeletons of the bodies, to nesting depth `n` -/
def nbOf (bodies : List (Nat × Expr F)) : Nat → Nat → Option Sk
  | 0 => fun _ => none
  | n + 1 => fun id => (lookupBody bodies id).map (skel pr (nbOf bodies n))

def okOf (bodies : List (Nat × Expr F)) : Nat → Nat → Prop
  | 0 => fun _ => False
  | n + 1 => fun id => ∃ b, lookupBody bodies id = some b ∧ fragE pr pf (okOf bodies n) b

end Garnish.Abs.Tree
