/-
Text-level rewrites, part 5a (C18): "no trivia at either end" (`NoTrim`, the precondition of parser-agent's reference-tree
invariances) is kept when a token is inserted in the INTERIOR of a token list (`noTrim_insert`), and a list without
trivia at its ends that contains a trimmable token has tokens on both sides of it (`noTrim_sides`).
-/
import Garnish.Props.C18Text4
namespace Garnish.Spec
open Garnish Garnish.Gen Garnish.Model.Parser

theorem trimStart_zero_cons {x : PToken} {l : List PToken} (h : trimStart (x :: l) = 0) : isTrimmable x = false := by
  cases hx : isTrimmable x with
  | false => rfl
  | true => simp [trimStart, hx] at h

theorem trimStart_cons_of_not {x : PToken} {l : List PToken} (h : isTrimmable x = false) : trimStart (x :: l) = 0 := by
  simp [trimStart, h]

/-- inserting a token between two non-empty parts keeps `NoTrim` -/
theorem noTrim_insert (a b : List PToken) (w : PToken) (ha : a ≠ []) (hb : b ≠ []) (h : NoTrim (a ++ b)) :
    NoTrim (a ++ w :: b) := by
  obtain ⟨_, h1, h2⟩ := h
  refine ⟨by simp, ?_, ?_⟩
  · cases a with
    | nil => exact absurd rfl ha
    | cons x a' => exact trimStart_cons_of_not (trimStart_zero_cons (l := a' ++ b) (by simpa using h1))
  · cases hr : b.reverse with
    | nil => exact absurd (List.reverse_eq_nil_iff.mp hr) hb
    | cons z r =>
      have e1 : (a ++ b).reverse = z :: (r ++ a.reverse) := by rw [List.reverse_append, hr]; rfl
      have e2 : (a ++ w :: b).reverse = z :: (r ++ (w :: a.reverse)) := by
        rw [List.reverse_append, List.reverse_cons, hr]; simp
      rw [e1] at h2
      rw [e2]
      exact trimStart_cons_of_not (trimStart_zero_cons h2)

/-- a trimmable token of a list without trivia at its ends has tokens on both sides -/
theorem noTrim_sides (a b : List PToken) (x : PToken) (hx : isTrimmable x = true) (h : NoTrim (a ++ x :: b)) :
    a ≠ [] ∧ b ≠ [] := by
  obtain ⟨_, h1, h2⟩ := h
  constructor
  · intro e; subst e
    have := trimStart_zero_cons (l := b) (by simpa using h1)
    rw [hx] at this; cases this
  · intro e; subst e
    have e1 : (a ++ [x]).reverse = x :: a.reverse := by simp
    rw [e1] at h2
    have := trimStart_zero_cons h2
    rw [hx] at this; cases this

end Garnish.Spec
