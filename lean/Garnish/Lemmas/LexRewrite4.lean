/-
Text-level rewrites, lexer side, part 4a (C18): a blank inserted directly AFTER an operator token.
After the prefix `p` the lexer holds a complete spelling of the operator table (type `ty`, not one after which a `.5` is
an access: `blocksFloat`), and the next character `d` continues no spelling. Then `d` ends the operator token, and so does
the blank; after `d` the two lexers agree on everything except the position counters — in particular on `can_float`, which
is `!blocksFloat ty = true` on one side and `!blocksFloat Whitespace = true` on the other (`afterEmit_posEq_at`). Hence
(`lexFull_padOperator`) the two texts lex to the same tokens with ONE Whitespace token inserted after the operator token.
-/
import Garnish.Lemmas.LexSpell4
set_option linter.unusedSimpArgs false
set_option linter.unusedVariables false
namespace Garnish.Model.Lexer
open Garnish.Model Garnish.Model.Parser Garnish.Spec

/-- the arm ended the pending token; whatever `x` starts -/
theorem emit_any (cc : CharClass) (σ e : Lexer) (x : Char) {st ty cs p0 p sq eq ae}
    (hstep : stateStep cc { σ with charactersLexed := σ.charactersLexed + 1 } x = .ok (.cont e none true))
    (he : At e st (some ty) cs p0 p sq eq ae) (hnt : st ≠ .noToken) (hne : ty ≠ .identifier) :
    processChar cc σ x = .ok (bumpColumn (startToken cc (afterEmit e) x) x, some ⟨cs, ty, p0.1, p0.2⟩) := by
  have hf := finishChar_ok cc e x (by rw [he.state]; exact hnt) ty (canCreate_ok e ty he.type hne) he.type
  rw [if_pos he.create] at hf
  have hp : processChar cc σ x = .ok (finishChar cc e x none true) := by
    unfold processChar; simp only []; rw [hstep]
  rw [hf, he.chars, he.srow, he.scol] at hp
  exact hp

/-- after two emissions the lexers agree up to positions when the emitted types agree on `blocksFloat` -/
theorem afterEmit_posEq_at {e e' : Lexer} {st st' ty ty' cs cs' p0 p0' p p' sq sq' eq eq' ae}
    (he : At e st (some ty) cs p0 p sq eq ae) (he' : At e' st' (some ty') cs' p0' p' sq' eq' ae)
    (hb : blocksFloat (some ty) = blocksFloat (some ty')) : PosEq (afterEmit e) (afterEmit e') := by
  rw [posEq_iff]
  refine ⟨?_, rfl, rfl, ?_, rfl, ?_, rfl, rfl, rfl, rfl, ?_⟩
  · show e'.operatorTree = e.operatorTree
    rw [he.tree, he'.tree]
  · show e'.shouldCreate = e.shouldCreate
    rw [he.create, he'.create]
  · show (!blocksFloat e'.currentTokenType) = (!blocksFloat e.currentTokenType)
    rw [he.type, he'.type, hb]
  · show e'.atEnd = e.atEnd
    rw [he.atEnd, he'.atEnd]

theorem tableUnderscore : ∀ q ∈ Garnish.Gen.LexTables.operatorChars, startsWith q.1 '_' = true → '.' ∈ q.1 := by decide

theorem tableDot : ∀ q ∈ Garnish.Gen.LexTables.operatorChars, startsWith q.1 '.' = true →
    blocksFloat (some q.2) = false → 2 ≤ utf8Len q.1 := by decide

theorem startsWith_append (o : List Char) (d x : Char) (ho : o ≠ []) : startsWith (o ++ [d]) x = startsWith o x := by
  cases o with
  | nil => exact absurd rfl ho
  | cons a r => rfl

/-- a complete operator spelling followed by a character that continues no spelling: the Operator arm ends the token -/
theorem arm_operator_end (cc : CharClass) (hcc2 : cc.Sane2) (τ : Lexer) (d : Char) {ty o p0 p sq eq ae}
    (h : At τ .operator (some ty) o p0 p sq eq ae) (htab : (o, ty) ∈ Garnish.Gen.LexTables.operatorChars)
    (hbf : blocksFloat (some ty) = false) (hw : walkOperator theTree (o ++ [d]) = none) :
    stateStep cc τ d = .ok (.cont τ none true) := by
  have ho : o ≠ [] := tableNoEmpty _ htab
  have hid : (startsWith (τ.currentCharacters ++ [d]) '_' && isIdentifier cc (τ.currentCharacters ++ [d])) = false := by
    rw [h.chars, startsWith_append o d '_' ho]
    cases hs : startsWith o '_' with
    | false => rfl
    | true =>
      have hdot := tableUnderscore _ htab hs
      have : isIdentifier cc (o ++ [d]) = false := by
        unfold isIdentifier
        rw [Bool.eq_false_iff]
        intro hall
        rw [List.all_eq_true] at hall
        have := hall '.' (by simp [hdot])
        simp [isIdentifierChar, hcc2.dotAlphanumeric] at this
      simp [this]
  have hfl : (startsWith (τ.currentCharacters ++ [d]) '.' && utf8Len (τ.currentCharacters ++ [d]) == 2) = false := by
    rw [h.chars, startsWith_append o d '.' ho]
    cases hs : startsWith o '.' with
    | false => rfl
    | true =>
      have h2 : 2 ≤ utf8Len o := tableDot _ htab hs hbf
      have h3 : utf8Len (o ++ [d]) = utf8Len o + d.utf8Size := by rw [utf8Len_append]; simp [utf8Len]
      have h4 := Char.utf8Size_pos d
      have : utf8Len (o ++ [d]) ≠ 2 := by omega
      simp [this]
  have hw' : walkOperator τ.operatorTree (τ.currentCharacters ++ [d]) = none := by rw [h.tree, h.chars]; exact hw
  unfold stateStep
  rw [h.state]
  simp [Step.ofPair, armOperator, currentOperator, push, pop, hw', hid, hfl]

/-- a character that is neither blank nor newline ends a run of blanks -/
theorem arm_spaces_end (cc : CharClass) (τ : Lexer) (x : Char) (hs : τ.state = .spaces) (hb : ¬ IsBlank x) (hn : x ≠ '\n') :
    stateStep cc τ x = .ok (.cont τ none true) := by
  have h1 : (x == '\n') = false := by simpa using hn
  have h2 : (x != ' ' && x != '\t') = true := by
    have a1 : x ≠ ' ' := fun e => hb (Or.inl e)
    have a2 : x ≠ '\t' := fun e => hb (Or.inr e)
    simp [a1, a2]
  unfold stateStep
  rw [hs]
  simp only [Step.ofPair, armSpaces, h1, h2, Bool.false_eq_true, ↓reduceIte]

theorem inv_init : Inv (Lexer.init theTree) := fun h => by simp [Lexer.init] at h

/-- `process_char` from a lexer with `Inv`: the lexer it returns has `Inv` -/
theorem inv_of_processChar (cc : CharClass) (hcc : cc.Sane) {σ σ1 : Lexer} {c : Char} {ot : Option LexerToken}
    (hi : Inv σ) (hp : processChar cc σ c = .ok (σ1, ot)) : Inv σ1 := by
  obtain ⟨s', t, hp', hi'⟩ := processChar_ok cc hcc σ c hi
  rw [hp] at hp'
  cases hp'
  exact hi'

/-- what a run from the initial lexer that ends without an error provides -/
theorem run_facts (cc : CharClass) (hcc2 : cc.Sane2) (p : List Char) (σ : Lexer) (toks : List LexerToken)
    (hrun : runChars cc p (Lexer.init theTree) [] = .ok (σ, toks)) (hok : σ.result = .ok) :
    σ.shouldCreate = true ∧ Inv σ ∧ σ.atEnd = false ∧ σ.operatorTree = theTree := by
  obtain ⟨hcore, hinv, hat, htr⟩ := runChars_core cc hcc2 p _ σ [] [] toks (Core_init theTree) inv_init rfl hrun
  rcases hcore with h | h
  · rw [hok] at h; cases h
  · exact ⟨h.create, hinv, hat, htr⟩

/-- **a blank inserted after an operator token**: both texts fail to lex, or both lex — to `toks`, the operator token and
then token lists of the same types and texts, with ONE Whitespace token `[c]` in between on the side of the blank -/
theorem lexFull_padOperator (cc : CharClass) (hcc : cc.SaneBlank) (hcc2 : cc.Sane2) (p : List Char) (c d : Char)
    (b : List Char) (hc : IsBlank c) (σ : Lexer) (toks : List LexerToken) (ty : Gen.TokenType)
    (hrun : runChars cc p (Lexer.init theTree) [] = .ok (σ, toks)) (hok : σ.result = .ok) (hst : σ.state = .operator)
    (hty : σ.currentTokenType = some ty) (htab : (σ.currentCharacters, ty) ∈ Garnish.Gen.LexTables.operatorChars)
    (hbf : blocksFloat (some ty) = false) (hw : walkOperator theTree (σ.currentCharacters ++ [d]) = none)
    (hdb : ¬ IsBlank d) (hdn : d ≠ '\n') :
    OutSameExt (toks ++ [⟨σ.currentCharacters, ty, σ.tokenStartRow, σ.tokenStartColumn⟩])
      (toks ++ [⟨σ.currentCharacters, ty, σ.tokenStartRow, σ.tokenStartColumn⟩, ⟨[c], .whitespace, σ.textRow, σ.textColumn⟩])
      (lexFull cc (p ++ d :: b)) (lexFull cc (p ++ c :: d :: b)) := by
  obtain ⟨hcr, hinv, hat, htr⟩ := run_facts cc hcc2 p σ toks hrun hok
  have hne : ty ≠ .identifier := tableNoIdentifier _ htab
  have hA : At σ .operator (some ty) σ.currentCharacters (σ.tokenStartRow, σ.tokenStartColumn) (σ.textRow, σ.textColumn)
      σ.startQuoteCount σ.endQuoteCount false := ⟨hst, hty, rfl, rfl, rfl, rfl, rfl, hcr, hok, htr, hat, rfl, rfl⟩
  -- the text without the blank: `d` ends the operator token
  have hs1 := arm_operator_end cc hcc2 _ d (hA.lexed (σ.charactersLexed + 1)) htab hbf hw
  have hp1 := emit_any cc σ _ d hs1 (hA.lexed _) (by decide) hne
  -- the text with the blank: the blank ends it, `d` ends the blank
  obtain ⟨σ2, hp2, h2⟩ := tail_blank cc σ c hc hA
    (ending_plain cc hcc .operator ty _ (Or.inr (Or.inr (Or.inr (Or.inr rfl)))) (by decide)) (by decide) hne
  have hs3 := arm_spaces_end cc { σ2 with charactersLexed := σ2.charactersLexed + 1 } d h2.state hdb hdn
  have hp3 := emit_any cc σ2 _ d hs3 (h2.lexed _) (by decide) (by decide)
  have hpos := bumpColumn_congr d (startToken_congr cc d
    (afterEmit_posEq_at (hA.lexed (σ.charactersLexed + 1)) (h2.lexed (σ2.charactersLexed + 1)) (by rw [hbf]; rfl)))
  generalize bumpColumn (startToken cc (afterEmit { σ with charactersLexed := σ.charactersLexed + 1 }) d) d = a at hp1 hpos
  generalize bumpColumn (startToken cc (afterEmit { σ2 with charactersLexed := σ2.charactersLexed + 1 }) d) d = a' at hp3 hpos
  have hi1 := inv_of_processChar cc hcc.toSane hinv hp1
  have hi3 := inv_of_processChar cc hcc.toSane (inv_of_processChar cc hcc.toSane hinv hp2) hp3
  have e0 : LexResult.isErr .ok = false := rfl
  have hres : a'.result = a.result := ((posEq_iff _ _).mp hpos).2.2.2.2.2.2.2.2.2.1
  rw [lexFull_eq_lexLoop, lexFull_eq_lexLoop, lexLoop_append cc p (d :: b) _ σ [] toks hrun,
    lexLoop_append cc p (c :: d :: b) _ σ [] toks hrun]
  simp only [lexLoop, isErr_of_ok hok, isErr_of_ok h2.ok, hp1, hp2, hp3, h2.ok, Bool.false_eq_true, ↓reduceIte, hres, e0]
  cases hr : a.result with
  | err => simp [OutSameExt]
  | ok =>
    simp only []
    have := lexLoop_congr cc hcc.toSane
      (toks ++ [⟨σ.currentCharacters, ty, σ.tokenStartRow, σ.tokenStartColumn⟩])
      (toks ++ [⟨σ.currentCharacters, ty, σ.tokenStartRow, σ.tokenStartColumn⟩, ⟨[c], .whitespace, σ.textRow, σ.textColumn⟩])
      b a a' [] [] hpos hi1 hi3 (SameTT.refl [])
    simpa using this

/-- from the two `lexFull` outcomes to `lex` -/
theorem outSameExt_lex {cc : CharClass} {s s' : List Char} {A B : List LexerToken}
    (h : OutSameExt A B (lexFull cc s) (lexFull cc s')) :
    (∀ T, lex cc s = .ok T → ∃ T' rest rest', lex cc s' = .ok T' ∧ T = A ++ rest ∧ T' = B ++ rest' ∧ SameTT rest rest') ∧
    (∀ T', lex cc s' = .ok T' → ∃ T rest rest', lex cc s = .ok T ∧ T = A ++ rest ∧ T' = B ++ rest' ∧ SameTT rest rest') := by
  unfold lex
  cases h1 : lexFull cc s <;> cases h2 : lexFull cc s' <;> rw [h1, h2] at h <;> simp only [OutSameExt] at h
  all_goals first
    | exact False.elim h
    | (obtain ⟨rest, rest', e1, e2, hs⟩ := h
       refine ⟨fun T hT => ?_, fun T' hT' => ?_⟩
       · simp only [Outcome.ok.injEq] at hT; subst hT; exact ⟨_, rest, rest', rfl, e1, e2, hs⟩
       · simp only [Outcome.ok.injEq] at hT'; subst hT'; exact ⟨_, rest, rest', rfl, e1, e2, hs⟩)
    | exact ⟨fun T hT => (by cases hT), fun T' hT' => (by cases hT')⟩

end Garnish.Model.Lexer
