/-
C18, wrapping an operand, case 2 (continued): `wrapOK_group` — a balanced parenthesised group is a complete operand.
-/
import Garnish.Lemmas.RefWrap3c

namespace Garnish.Spec
open Garnish Garnish.Gen Garnish.Model.Parser

theorem refRun_append (tbl : Table) : ∀ (a b : List PToken) (f : Frame) (S : List Frame) (pos : Nat) (rest : List PToken),
    refRun tbl f S pos (a ++ b) rest =
      Outcome.bind (refRun tbl f S pos a (b ++ rest)) fun p => refRun tbl p.1 p.2 (pos + a.length) b rest
  | [], b, f, S, pos, rest => rfl
  | t :: a, b, f, S, pos, rest => by
    simp only [List.cons_append, refRun, List.append_assoc]
    cases refStep tbl f S pos t (a ++ (b ++ rest)) with
    | ok fs =>
      simp only [Outcome.bind]
      rw [refRun_append tbl a b fs.1 fs.2 (pos + 1) rest]
      have : pos + 1 + a.length = pos + (a.length + 1) := by omega
      simp only [List.length_cons, this]
      rfl
    | err _ => rfl
    | panic _ => rfl
    | fuelOut => rfl

/-- closing a `( )` frame: what a successful step returns -/
theorem refStep_close_inv {c : PToken} (hc : c.type = .endGroup) {g parent F : Frame} {stack S : List Frame} {pos gp : Nat}
    {rest : List PToken} (hctx : g.ctx = some (.group, gp))
    (h : refStep Table.gen g (parent :: stack) pos c rest = .ok (F, S)) :
    F = { parent with cur := plug parent.cur (.group .group gp g.cur), last := .operand, ws := false, prevSep := false } ∧
      S = stack ∧ (g.last == .op || g.last == .sep) = false := by
  unfold refStep at h
  rw [hc] at h
  have : Table.gen.define TokenType.endGroup = (Definition.drop, SecDef.endGrouping) := rfl
  simp only [this, hctx] at h
  split at h
  · cases h
  · split at h
    · cases h
    · rename_i h2
      cases h
      exact ⟨rfl, rfl, by simpa using h2⟩

theorem refStep_close_of {c : PToken} (hc : c.type = .endGroup) (g parent : Frame) (stack : List Frame) (pos gp : Nat)
    (rest : List PToken) (hctx : g.ctx = some (.group, gp)) (hl : (g.last == .op || g.last == .sep) = false) :
    refStep Table.gen g (parent :: stack) pos c rest =
      .ok ({ parent with cur := plug parent.cur (.group .group gp g.cur), last := .operand, ws := false,
                         prevSep := false }, stack) := by
  unfold refStep
  rw [hc]
  have : Table.gen.define TokenType.endGroup = (Definition.drop, SecDef.endGrouping) := rfl
  simp only [this, hctx, hl]
  rfl

theorem nextPasses_group (d : Definition) (k : Nat) (i : RTree) : ∀ post : List PToken,
    NextPasses (.group d k i) post = true
  | [] => rfl
  | t :: r => by
    have ht : tokPasses (.group d k i) t = true := by
      unfold tokPasses
      have hp : ∀ q rtl, passes Table.gen q rtl (.group d k i) = true := fun _ _ => rfl
      split <;> first | rfl | (split <;> first | exact hp _ _ | rfl)
    simp only [NextPasses, ht, nextPasses_group d k i r, Bool.true_and, ite_self]

theorem closerFollows_closeTok {c : PToken} (hc : c.type = .endGroup) (r : List PToken) : closerFollows (c :: r) = true := by
  simp [closerFollows, hc, isFiller, isSeparator, isCloser]

/-- **a balanced parenthesised group is a complete operand** -/
theorem wrapOK_group {pre post inner : List PToken} {o c : PToken} {T : RTree} (ho : o.type = .startGroup)
    (hc : c.type = .endGroup) (hbal : balancedFrom 0 inner = true)
    (hrun : refLoop Table.gen Frame.top [] 0 (pre ++ ((o :: (inner ++ [c])) ++ post)) = .ok T) :
    ∃ f stack f1 M M0, WrapOK pre (o :: (inner ++ [c])) post f stack f1 M M0 := by
  rw [refLoop_append Table.gen pre ((o :: (inner ++ [c])) ++ post)] at hrun
  cases hpre : refRun Table.gen Frame.top [] 0 pre ((o :: (inner ++ [c])) ++ post) with
  | err _ => rw [hpre] at hrun; cases hrun
  | panic _ => rw [hpre] at hrun; cases hrun
  | fuelOut => rw [hpre] at hrun; cases hrun
  | ok fs =>
    obtain ⟨f, stack⟩ := fs
    rw [hpre] at hrun
    simp only [Outcome.bind, Nat.zero_add] at hrun
    rw [refLoop_append Table.gen (o :: (inner ++ [c])) post] at hrun
    cases hmid : refRun Table.gen f stack pre.length (o :: (inner ++ [c])) post with
    | err _ => rw [hmid] at hrun; cases hrun
    | panic _ => rw [hmid] at hrun; cases hrun
    | fuelOut => rw [hmid] at hrun; cases hrun
    | ok FS =>
      obtain ⟨F, S⟩ := FS
      -- the opener
      have hmid0 := hmid
      simp only [refRun, refStep_open ho] at hmid
      cases hb : beforeOperand Table.gen f pre.length with
      | err _ => rw [hb] at hmid; cases hmid
      | panic _ => rw [hb] at hmid; cases hmid
      | fuelOut => rw [hb] at hmid; cases hmid
      | ok f1 =>
        rw [hb] at hmid
        simp only [Outcome.bind] at hmid
        -- the content
        rw [refRun_append Table.gen inner [c] _ _ _ post] at hmid
        cases hin : refRun Table.gen (groupFrame pre.length) ({ f1 with ws := false } :: stack) (pre.length + 1) inner
            ([c] ++ post) with
        | err _ => rw [hin] at hmid; cases hmid
        | panic _ => rw [hin] at hmid; cases hmid
        | fuelOut => rw [hin] at hmid; cases hmid
        | ok gs =>
          obtain ⟨g', S1⟩ := gs
          rw [hin] at hmid
          simp only [Outcome.bind, refRun, List.nil_append] at hmid
          obtain ⟨hS1, hstrip, hgctx⟩ := run_balanced ({ f1 with ws := false } :: stack) inner 0 (groupFrame pre.length) []
            (pre.length + 1) ([c] ++ post) g' S1 rfl hbal (by simpa using hin)
          subst hS1
          have hgctx' : g'.ctx = some (.group, pre.length) := hgctx
          -- the closer
          cases hcl : refStep Table.gen g' ({ f1 with ws := false } :: stack) (pre.length + 1 + inner.length) c post with
          | err _ => rw [hcl] at hmid; cases hmid
          | panic _ => rw [hcl] at hmid; cases hmid
          | fuelOut => rw [hcl] at hmid; cases hmid
          | ok FS' =>
            rw [hcl] at hmid
            simp only [Outcome.bind] at hmid
            obtain ⟨hF, hS, hlast⟩ := refStep_close_inv hc hgctx' (F := FS'.1) (S := FS'.2) hcl
            -- the same content on its own
            have hcf : closerFollows ([c] ++ post) = closerFollows ([c] ++ []) := by
              simp only [List.cons_append, List.nil_append, closerFollows_closeTok hc]
            have hstrip' : refRun Table.gen (groupFrame pre.length) [] (pre.length + 1) inner ([c] ++ []) = .ok (g', []) := by
              rw [← refRun_rest_congr Table.gen inner _ _ _ hcf]; exact hstrip
            have hsim := refRun_sim eok_erase Table.gen inner (pre.length + 1) 2 ([c] ++ [])
              (show FSim EErase (groupFrame pre.length) (groupFrame 1) from ⟨rfl, .nil, rfl, rfl, rfl⟩) LSim.nil
            rw [hstrip'] at hsim
            cases h0 : refRun Table.gen (groupFrame 1) [] 2 inner ([c] ++ []) with
            | err _ => rw [h0] at hsim; exact hsim.elim
            | panic _ => rw [h0] at hsim; exact hsim.elim
            | fuelOut => rw [h0] at hsim; exact hsim.elim
            | ok g0s =>
              obtain ⟨g0, S0⟩ := g0s
              rw [h0] at hsim
              obtain ⟨hfs, hls⟩ := hsim
              simp only at hfs hls
              cases hls
              have hg0ctx : ∃ q, g0.ctx = some (.group, q) := by
                have := hfs.ctx
                rw [hgctx'] at this
                cases hgc : g0.ctx with
                | none => rw [hgc] at this; cases this
                | some dp =>
                  obtain ⟨d, q⟩ := dp
                  rw [hgc] at this
                  simp only [Option.map_some, Option.some.injEq] at this
                  exact ⟨q, by rw [← this]⟩
              obtain ⟨q, hg0ctx⟩ := hg0ctx
              have hl0 : (g0.last == .op || g0.last == .sep) = false := by rw [← hfs.last]; exact hlast
              have hbase0 := refRun_base Table.gen [{ groupFrame 0 with ws := false }] inner (groupFrame 1) [] 2 ([c] ++ []) h0
              simp only [List.nil_append] at hbase0
              have hinv := refRun_rinv pre false Frame.top [] 0 _ f stack rinv_top hpre
              obtain ⟨hopen, _⟩ := beforeOperand_rinv hinv hb
              refine ⟨f, stack, f1, .group .group pre.length g'.cur, .group .group q g0.cur,
                ⟨hpre, hb, hopen, ?_, ?_, ?_, ?_, ⟨o :: inner, c, by simp, ?_⟩, Or.inr rfl, nextPasses_group _ _ _ _⟩⟩
              · rw [List.cons_append]; exact closerFollows_open ho _
              · rw [hmid0, ← hmid]
                have e1 : FS' = (FS'.1, FS'.2) := rfl
                rw [e1, hF, hS]
              · simp only [refRun, refStep_open ho]
                have hb0 : beforeOperand Table.gen (groupFrame 0) 1 = .ok (groupFrame 0) := rfl
                rw [hb0]
                simp only [Outcome.bind]
                rw [refRun_append Table.gen inner [c] _ _ _ [], hbase0]
                simp only [Outcome.bind, refRun, List.nil_append]
                rw [refStep_close_of hc g0 _ [] _ q [] hg0ctx hl0]
                rfl
              · have := eok_erase.ofSim _ _ hfs.cur
                unfold EErase at this
                simp only [RTree.eraseTok, this]
              · unfold endsOperand
                rw [hc]
                rfl

end Garnish.Spec
