/-
The tie between the two builder models (17): the root loop, and `buildCore`.
-/
import Garnish.Lemmas.CompileTree16
namespace Garnish.Abs.Tree
open Garnish Garnish.Gen Garnish.Spec Garnish.Abs Garnish.Model.Parser Garnish.Model.Literals Garnish.Model.Build

variable {F : Type} (pf : List Char → Option F) (tree : Array ParseNode) (bodies : List (Nat × Expr F))

/-- what holds between two iterations of the root loop: the data object is the state of the structured compiler, the root
stack is its list of pending roots, every node has a build node or lies in the subtree of a pending root -/
structure RInv (s : LState F) (ctx : Ctx F) (recs : List (RRec F)) : Prop where
  data : DataEq ctx.data s
  size : ctx.nodes.size = tree.size
  rs : ctx.rootStack.toList = (recs.map (·.idx)).reverse
  pend : s.pending = recs.map (·.root)
  roots : ∀ q ∈ recs, q.lo ≤ q.idx ∧ q.idx < q.hi ∧ q.hi ≤ tree.size ∧
    ctx.nodes[q.idx]? = some (some (bnOfRoot q.idx q.root)) ∧ RepRoot pf tree bodies q
  linv : Inv s
  disj : recs.Pairwise (fun a b => a.hi ≤ b.lo ∨ b.hi ≤ a.lo)
  cover : ∀ x, x < tree.size → (∃ b, ctx.nodes[x]? = some (some b)) ∨ ∃ q ∈ recs, q.lo ≤ x ∧ x < q.hi

variable {pf tree bodies}

/-- the fields a pending root's build node carries -/
def exOfRoot (R : Root F) : Ex :=
  match R.kind with
  | .code _ => ⟨none, some R.patch, some R.term⟩
  | .ref _ => ⟨none, some R.patch, none⟩

theorem RRec.facts {q : RRec F} (h : RepRoot pf tree bodies q) :
    ∃ b, rootBody bodies q.root = some b ∧ Rep pf tree bodies q.lo q.hi q.idx b ∧
      bnOfRoot q.idx q.root = mkNode q.idx q.root.containing none (exOfRoot q.root) ∧
      (exOfRoot q.root).cond = none ∧ (exOfRoot q.root).jump = some q.root.patch ∧
      (exOfRoot q.root).ends.getD [(.endExpression, none)] = q.root.term := by
  unfold RepRoot at h
  cases hk : q.root.kind with
  | code t =>
    rw [hk] at h
    exact ⟨t, by simp [rootBody, hk], h, by simp [bnOfRoot, exOfRoot, hk]; rfl, by simp [exOfRoot, hk], by simp [exOfRoot, hk],
      by simp [exOfRoot, hk]⟩
  | ref id =>
    rw [hk] at h
    obtain ⟨b, hb, hrep, hc, ht⟩ := h
    refine ⟨b, by simp [rootBody, hk, hb], hrep, ?_, by simp [exOfRoot, hk], by simp [exOfRoot, hk], by simp [exOfRoot, hk, ht]⟩
    simp only [bnOfRoot, exOfRoot, hk, hc]
    rfl

/-- **one pending root**: `build` does with it what `layoutRoot` does -/
theorem root_step {s : LState F} {ctx : Ctx F} {q : RRec F} {rest : List (RRec F)} {rf sf : Nat}
    (inv : RInv pf tree bodies s ctx (q :: rest)) (hsf : wsum (q :: rest) + 1 ≤ sf) :
    ∃ (k : Nat) (ctx' : Ctx F) (newR : List (RRec F)),
      Model.Build.rootLoop pf tree (rf + 1) sf ctx = Model.Build.rootLoop pf tree rf (sf - k) ctx' ∧ 1 ≤ k ∧
      k + wsum (newR ++ rest) ≤ wsum (q :: rest) ∧
      RInv pf tree bodies (layoutRoot bodies q.root { s with pending := rest.map (·.root) }) ctx' (newR ++ rest) := by
  obtain ⟨hq1, hq2, hq3, hqn, hqr⟩ := inv.roots q List.mem_cons_self
  obtain ⟨b, hbody, hrep, hbn, hex, hju, hends⟩ := RRec.facts hqr
  have hp : s.pending = q.root :: rest.map (·.root) := by rw [inv.pend]; rfl
  have hpatch : q.root.patch < s.jumps.size := inv.linv.pend q.root (by rw [hp]; exact List.mem_cons_self)
  have hcont : q.root.containing < s.jumps.size := inv.linv.cont q.root (by rw [hp]; exact List.mem_cons_self)
  -- the compile side of this step
  rw [layoutRoot_eq]
  simp only [bodyState, hbody]
  generalize hs1 : LState.mk s.instrs (s.jumps.setIfInBounds q.root.patch s.instrs.size) s.consts (rest.map (·.root))
    (q.root :: s.done) s.depths (s.pendDep.headD 0) s.pendDep.tail = s1
  have s1_instrs : s1.instrs = s.instrs := by rw [← hs1]
  have s1_pending : s1.pending = rest.map (·.root) := by rw [← hs1]
  have s1_jsize : s1.jumps.size = s.jumps.size := by rw [← hs1]; simp
  -- the jump entry
  have hpd : q.root.patch < ctx.data.jumps.size := by rw [inv.data.jumps]; exact hpatch
  have hj : rootJump ctx.data ctx.nodes q.idx =
      .ok ({ ctx.data with jumps := ctx.data.jumps.set q.root.patch ctx.data.instrs.size hpd }, q.root.patch) := by
    simp only [rootJump, hqn, hbn, mkNode, hju, setJump?, hpd, dif_pos, getInstructionLen]
  have hd1 : DataEq ({ ctx.data with jumps := ctx.data.jumps.set q.root.patch ctx.data.instrs.size hpd } : BState F) s1 := by
    rw [← hs1]
    refine ⟨inv.data.instrs, ?_, inv.data.consts⟩
    simp only [inv.data.jumps, inv.data.instrs, Array.setIfInBounds, hpatch, dif_pos]
  have hrs : ctx.rootStack.toList = (rest.map (·.idx)).reverse ++ [q.idx] := by rw [inv.rs]; simp
  obtain ⟨k, data3, nodes2, RS2, newR, hloop, hk1, hk2, hd3, hrs2, hp2, done⟩ :=
    root_iter (rf := rf) (sf := sf) hrep hex hrs hj inv.size (by rw [hqn, hbn]) hd1 (by rw [s1_jsize]; exact hcont)
      (by simp only [wsum_cons] at hsf; omega) q.root.patch
  refine ⟨k, ⟨data3, nodes2, RS2, #[]⟩, newR, hloop, hk1, by simp only [wsum_append, wsum_cons]; omega, ?_⟩
  rw [hends, s1_instrs] at hd3
  -- the interval of `q` is apart from the others
  have hapart : ∀ q' ∈ rest, q.hi ≤ q'.lo ∨ q'.hi ≤ q.lo := fun q' hq' => (List.pairwise_cons.1 inv.disj).1 q' hq'
  have hlinv := (layoutRoot_facts bodies inv.linv hp).1
  rw [layoutRoot_eq] at hlinv
  simp only [bodyState, hbody, hs1] at hlinv
  refine ⟨hd3, by rw [done.size]; exact inv.size, by rw [hrs2]; simp, ?_, ?_, hlinv, ?_, ?_⟩
  · rw [(addTerms_pending _ _ _ _).1, hp2, s1_pending]; simp
  · intro q' hq'
    rcases List.mem_append.1 hq' with h | h
    · obtain ⟨a, b', c, d, e⟩ := done.roots q' h
      have h1 := a q'.lo (Nat.le_refl _) (by omega)
      have h2 := a (q'.hi - 1) (by omega) (by omega)
      exact ⟨b', c, by simp only [Ival] at h2; omega, d, e⟩
    · obtain ⟨a1, a2, a3, a4, a5⟩ := inv.roots q' (List.mem_cons_of_mem _ h)
      refine ⟨a1, a2, a3, ?_, a5⟩
      rw [done.frame q'.idx (fun hh => by have := hapart q' h; simp only [Ival] at hh; omega) (fun _ _ hh => by cases hh)]
      exact a4
  · rw [List.pairwise_append]
    refine ⟨done.disj, (List.pairwise_cons.1 inv.disj).2, fun a ha b' hb' => ?_⟩
    obtain ⟨a1, a2, a3, _⟩ := done.roots a ha
    have h1 := a1 a.lo (Nat.le_refl _) (by omega)
    have h2 := a1 (a.hi - 1) (by omega) (by omega)
    have := hapart b' hb'
    simp only [Ival] at h1 h2
    omega
  · intro x hx
    by_cases hin : Ival q.lo q.hi x
    · rcases done.cover x hin with h | ⟨q', hq', h⟩
      · exact .inl h
      · exact .inr ⟨q', List.mem_append_left _ hq', h⟩
    · rcases inv.cover x hx with ⟨b', hb'⟩ | ⟨q', hq', h⟩
      · exact .inl ⟨b', by rw [done.frame x hin (fun _ _ hh => by cases hh)]; exact hb'⟩
      · rcases List.mem_cons.1 hq' with rfl | hq''
        · exact absurd h hin
        · exact .inr ⟨q', List.mem_append_right _ hq'', h⟩

theorem layoutRoots_nil (fc : Nat) {s : LState F} (h : s.pending = []) : layoutRoots bodies fc s = s := by
  cases fc <;> simp [layoutRoots, h]

/-- **the root loop**: from a state that corresponds to a state of the structured compiler, `build` runs to the end and
its data object is what `layoutRoots` produces; every node has got a build node -/
theorem rootLoop_ok : ∀ (m : Nat) (recs : List (RRec F)) (s : LState F) (ctx : Ctx F) (rf sf fc : Nat),
    wsum recs ≤ m → RInv pf tree bodies s ctx recs → wsum recs + 1 ≤ rf → wsum recs + 1 ≤ sf →
    (layoutRoots bodies fc s).pending = [] →
    ∃ ctx', Model.Build.rootLoop pf tree rf sf ctx = .ok ctx' ∧ DataEq ctx'.data (layoutRoots bodies fc s) ∧
      ctx'.nodes.size = tree.size ∧ ∀ x, x < tree.size → ∃ b, ctx'.nodes[x]? = some (some b) := by
  intro m
  induction m with
  | zero =>
    intro recs s ctx rf sf fc hm inv hrf hsf hc
    cases recs with
    | nil =>
      have hrs : ctx.rootStack.toList = [] := by rw [inv.rs]; rfl
      have hb : ctx.rootStack.back? = none := by
        have : ctx.rootStack = #[] := by apply Array.ext'; simpa using hrs
        rw [this]; rfl
      obtain ⟨rf', rfl⟩ : ∃ rf', rf = rf' + 1 := ⟨rf - 1, by omega⟩
      refine ⟨ctx, by simp only [Model.Build.rootLoop, hb], ?_, inv.size, fun x hx => ?_⟩
      · rw [layoutRoots_nil fc (by rw [inv.pend]; rfl)]; exact inv.data
      · rcases inv.cover x hx with h | ⟨q, hq, _⟩
        · exact h
        · cases hq
    | cons q rest =>
      exfalso
      obtain ⟨h1, h2, _⟩ := inv.roots q List.mem_cons_self
      simp only [wsum_cons] at hm
      omega
  | succ m ih =>
    intro recs s ctx rf sf fc hm inv hrf hsf hc
    cases recs with
    | nil =>
      have hrs : ctx.rootStack.toList = [] := by rw [inv.rs]; rfl
      have hb : ctx.rootStack.back? = none := by
        have : ctx.rootStack = #[] := by apply Array.ext'; simpa using hrs
        rw [this]; rfl
      obtain ⟨rf', rfl⟩ : ∃ rf', rf = rf' + 1 := ⟨rf - 1, by omega⟩
      refine ⟨ctx, by simp only [Model.Build.rootLoop, hb], ?_, inv.size, fun x hx => ?_⟩
      · rw [layoutRoots_nil fc (by rw [inv.pend]; rfl)]; exact inv.data
      · rcases inv.cover x hx with h | ⟨q, hq, _⟩
        · exact h
        · cases hq
    | cons q rest =>
      obtain ⟨rf', rfl⟩ : ∃ rf', rf = rf' + 1 := ⟨rf - 1, by omega⟩
      have hp : s.pending = q.root :: rest.map (·.root) := by rw [inv.pend]; rfl
      obtain ⟨fc', rfl⟩ : ∃ fc', fc = fc' + 1 := by
        cases fc with
        | zero => simp only [layoutRoots] at hc; rw [hp] at hc; cases hc
        | succ n => exact ⟨n, rfl⟩
      obtain ⟨k, ctx', newR, hloop, hk1, hk2, inv'⟩ := root_step (rf := rf') inv hsf
      have hlr : layoutRoots bodies (fc' + 1) s =
          layoutRoots bodies fc' (layoutRoot bodies q.root { s with pending := rest.map (·.root) }) := by
        simp only [layoutRoots, hp]
      rw [hlr] at hc ⊢
      obtain ⟨ctx'', h1, h2, h3, h4⟩ := ih (newR ++ rest) _ ctx' rf' (sf - k) fc' (by omega) inv' (by omega) (by omega) hc
      exact ⟨ctx'', by rw [hloop]; exact h1, h2, h3, h4⟩

end Garnish.Abs.Tree
