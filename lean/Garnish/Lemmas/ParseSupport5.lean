/-
The decidable recogniser for `v trivia* [ trivia* body trivia* ]` with `body` in `fragFN` (`valueBlockN`), and the numbering
theorem for it.
-/
import Garnish.Lemmas.ParseSupport4

namespace Garnish.Spec
open Garnish Garnish.Gen Garnish.Model.Parser

/-- a value, trivia, and a side-effect block whose body is an expression of `frag8` without a trailing blank line before `}` -/
def valueBlockN (toks : List PToken) : Bool :=
  match toks with
  | [] => false
  | v :: r =>
    isAtom10 v &&
    match r.dropWhile isTriviaTok with
    | [] => false
    | o :: r2 =>
      o.type == .startSideEffect &&
      match r2.reverse with
      | [] => false
      | c :: r3 =>
        c.type == .endSideEffect &&
          fragFN ⟨true, true, true⟩ (((r3.dropWhile isTriviaTok).reverse).dropWhile isTriviaTok)

theorem mem_takeWhile_triv (l : List PToken) : ∀ w ∈ l.takeWhile isTriviaTok, isTriviaTok w = true :=
  fun w hw => mem_takeWhile_p _ _ _ hw

theorem valueBlockN_sound {toks : List PToken} (h : valueBlockN toks = true) :
    ∃ (v o c : PToken) (ws wsA wsB : List PToken) (body : Ex), isAtom10 v = true ∧ o.type = .startSideEffect ∧
      c.type = .endSideEffect ∧ body.ok ⟨true, true, true⟩ false = true ∧ body.garb = 0 ∧
      (∀ w ∈ ws, isTriviaTok w = true) ∧ (∀ w ∈ wsA, isTriviaTok w = true) ∧ (∀ w ∈ wsB, isTriviaTok w = true) ∧
      toks = v :: (ws ++ (o :: (wsA ++ (body.toks ++ (wsB ++ [c]))))) := by
  unfold valueBlockN at h
  cases toks with
  | nil => cases h
  | cons v r =>
    simp only [Bool.and_eq_true] at h
    obtain ⟨hv, h⟩ := h
    cases hr1 : r.dropWhile isTriviaTok with
    | nil => rw [hr1] at h; cases h
    | cons o r2 =>
      rw [hr1] at h
      simp only [Bool.and_eq_true, beq_iff_eq] at h
      obtain ⟨ho, h⟩ := h
      cases hr2 : r2.reverse with
      | nil => rw [hr2] at h; cases h
      | cons c r3 =>
        rw [hr2] at h
        simp only [Bool.and_eq_true, beq_iff_eq] at h
        obtain ⟨hc, hb⟩ := h
        obtain ⟨body, hok, hbt, hg⟩ := fragFN_sound hb
        refine ⟨v, o, c, r.takeWhile isTriviaTok, ((r3.dropWhile isTriviaTok).reverse).takeWhile isTriviaTok,
          (r3.takeWhile isTriviaTok).reverse, body, hv, ho, hc, hok, hg, mem_takeWhile_triv _, mem_takeWhile_triv _, ?_, ?_⟩
        · intro w hw
          rw [List.mem_reverse] at hw
          exact mem_takeWhile_triv _ w hw
        · have e1 : r = r.takeWhile isTriviaTok ++ (o :: r2) := by
            rw [← hr1, List.takeWhile_append_dropWhile]
          have e2 : r2 = r3.reverse ++ [c] := by
            have := congrArg List.reverse hr2
            simpa using this
          have e3 : r3.reverse = (r3.dropWhile isTriviaTok).reverse ++ (r3.takeWhile isTriviaTok).reverse := by
            rw [← List.reverse_append, List.takeWhile_append_dropWhile]
          have e4 : (r3.dropWhile isTriviaTok).reverse =
              ((r3.dropWhile isTriviaTok).reverse).takeWhile isTriviaTok ++ body.toks := by
            rw [hbt, List.takeWhile_append_dropWhile]
          conv => lhs; rw [e1, e2, e3, e4]
          simp

/-- **numbering for `v [ body ]`** -/
theorem parse_inorder_range_valueBlock {toks : List PToken} (hf : valueBlockN toks = true) (hnum : NumberedFrom 0 toks)
    {r : ParseResult} {t : Tree} (hp : parse toks = .ok r) (ht : toTree r = some t) :
    t.inorder = List.range r.nodes.size := by
  obtain ⟨v, o, c, ws, wsA, wsB, body, hv, ho, hc, hok, hg, hws, hwA, hwB, rfl⟩ := valueBlockN_sound hf
  obtain ⟨r', t', h1, h2, h3, h4⟩ := parse_value_block_numbered v o c ws wsA wsB body hv ho hc hok hws hwA hwB hnum
  rw [hp] at h1; cases h1
  rw [ht] at h2; cases h2
  exact sortedIn_full h3 (by rw [hg] at h4; exact h4)

theorem valueBlockN_map {f : PToken → PToken} (hf : ∀ t, (f t).type = t.type) (toks : List PToken)
    (h : valueBlockN toks = true) : valueBlockN (toks.map f) = true := by
  unfold valueBlockN at h ⊢
  cases toks with
  | nil => cases h
  | cons v r =>
    simp only [List.map_cons, Bool.and_eq_true, tp_atom hf] at h ⊢
    refine ⟨h.1, ?_⟩
    have h := h.2
    rw [dropWhile_mapT _ (tp_trivia hf)]
    cases hr1 : r.dropWhile isTriviaTok with
    | nil => rw [hr1] at h; cases h
    | cons o r2 =>
      rw [hr1] at h
      simp only [List.map_cons, Bool.and_eq_true, hf] at h ⊢
      refine ⟨h.1, ?_⟩
      have h := h.2
      rw [← List.map_reverse]
      cases hr2 : r2.reverse with
      | nil => rw [hr2] at h; cases h
      | cons c r3 =>
        rw [hr2] at h
        simp only [List.map_cons, Bool.and_eq_true, hf] at h ⊢
        refine ⟨h.1, ?_⟩
        rw [dropWhile_mapT _ (tp_trivia hf), ← List.map_reverse, dropWhile_mapT _ (tp_trivia hf)]
        exact fragFN_map hf h.2

end Garnish.Spec
