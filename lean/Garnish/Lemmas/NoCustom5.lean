/-
`NoCustom` through `finish` / `seqNext` / `pushOut` / `resolveStep` / `applyStep`.
-/
import Garnish.Lemmas.NoCustom4
set_option linter.unusedSimpArgs false
set_option linter.unusedVariables false
namespace Garnish.Lemmas.NoCustom
open Garnish Gen Garnish.Abs

variable {F : Type} {fo : FloatOps F} {host : Host F} {P : Prog F}

/-- the step result is a state (running or halted) -/
def StepTo (r : StepRes F) (s' : MState F) : Prop := r = .running s' ∨ r = .halted s'

theorem NoCustom.mk' {m : MState F} {regs vals : List (Val F)} {frames : List (Frame F)} (hr : ncL regs = true)
    (hv : ncL vals = true) (hf : ∀ fr ∈ frames, ncL fr.saved = true) (pc : Nat) (tr : List (HostCall F)) :
    NoCustom (⟨pc, regs, vals, frames, tr⟩ : MState F) := ⟨hr, hv, hf⟩

theorem finish_nc {s1 s' : MState F} {n : Nat} (h1 : NoCustom s1) (h : StepTo (finish P (.ok (s1, n))) s') :
    NoCustom s' := by
  unfold finish at h
  simp only [] at h
  split at h <;> rcases h with h | h <;> cases h <;> exact ⟨h1.regs, h1.vals, h1.frames⟩

theorem finishE_nc {r : Except ErrClass (MState F × Nat)} {s' : MState F}
    (hr : ∀ s1 n, r = .ok (s1, n) → NoCustom s1) (h : StepTo (finish P r) s') : NoCustom s' := by
  cases r with
  | error e => rcases h with h | h <;> cases h
  | ok p => obtain ⟨s1, n⟩ := p; exact finish_nc (hr s1 n rfl) h

theorem seqNext_nc {s s' : MState F} {r : Except ErrClass (MState F)} (hr : ∀ s1, r = .ok s1 → NoCustom s1)
    (h : StepTo (seqNext P s r) s') : NoCustom s' := by
  cases r with
  | error e => rcases h with h | h <;> cases h
  | ok s1 => exact finish_nc (hr s1 rfl) h

theorem ncL_cons {x : Val F} {xs : List (Val F)} (hx : nc x = true) (hxs : ncL xs = true) : ncL (x :: xs) = true := by
  simp [ncL, hx, hxs]

theorem pushOut_nc (HN : HostNoCustom host) {s s' : MState F} {o : OpOut F} (hs : NoCustom s) (ho : OutNC o)
    (h : pushOut host s o = .ok s') : NoCustom s' := by
  cases o with
  | val v => simp [pushOut] at h; subst h; exact ⟨ncL_cons ho hs.regs, hs.vals, hs.frames⟩
  | defer op l r =>
    simp only [pushOut] at h
    cases hd : host.defer op l r with
    | some v => rw [hd] at h; cases h; exact ⟨ncL_cons (HN.defer op l r v hd) hs.regs, hs.vals, hs.frames⟩
    | none => rw [hd] at h; cases h; exact ⟨ncL_cons rfl hs.regs, hs.vals, hs.frames⟩
  | err e => simp [pushOut] at h

theorem resolveStep_nc (HN : HostNoCustom host) {s s' : MState F} {key : Val F} (hs : NoCustom s)
    (h : resolveStep fo host s key = .ok s') : NoCustom s' := by
  unfold resolveStep at h
  simp only [] at h
  split at h
  · cases h
  · rename_i v hv
    cases h
    refine ⟨ncL_cons ?_ hs.regs, hs.vals, hs.frames⟩
    -- the value found in the current input value
    split at hv
    · cases hv
    · rename_i cur rest hvals
      have hc : nc cur = true := by
        have := hs.vals; rw [hvals] at this; simp [ncL] at this; exact this.1
      split at hv
      · rename_i x hx; cases hv; exact nc_getAccess fo hc hx
      all_goals cases hv
  · split at h
    · split at h
      · rename_i v hv; cases h; exact ⟨ncL_cons (HN.resolve _ v hv) hs.regs, hs.vals, hs.frames⟩
      · cases h; exact ⟨ncL_cons rfl hs.regs, hs.vals, hs.frames⟩
    · cases h; exact ⟨ncL_cons rfl hs.regs, hs.vals, hs.frames⟩

theorem applyStep_nc (HN : HostNoCustom host) {s s' : MState F} {instr : Instruction} {ur : Bool} {l r : Val F}
    {n : Nat} (hs : NoCustom s) (hl : nc l = true) (hr : nc r = true)
    (h : applyStep fo host P s instr ur l r = .ok (s', n)) : NoCustom s' := by
  have hk := applyKind_nc fo instr ur hl hr
  unfold applyStep at h
  cases hkk : applyKind fo instr ur l r with
  | enter j input =>
    rw [hkk] at h hk
    simp only [] at h
    cases hj : jumpTarget P j with
    | error e => rw [hj] at h; cases h
    | ok t =>
      rw [hj] at h
      cases h
      refine ⟨hs.regs, ncL_cons hk hs.vals, fun fr hfr => ?_⟩
      rcases List.mem_cons.mp hfr with rfl | hfr
      · exact hs.regs
      · exact hs.frames fr hfr
  | external m arg =>
    rw [hkk] at h
    simp only [] at h
    cases ha : host.apply m arg with
    | some v => rw [ha] at h; cases h; exact ⟨ncL_cons (HN.apply m arg v ha) hs.regs, hs.vals, hs.frames⟩
    | none => rw [ha] at h; cases h; exact ⟨ncL_cons rfl hs.regs, hs.vals, hs.frames⟩
  | out o =>
    rw [hkk] at h hk
    simp only [] at h
    cases hp : pushOut host s o with
    | error e => rw [hp] at h; cases h
    | ok s1 => rw [hp] at h; cases h; exact pushOut_nc HN hs hk hp

end Garnish.Lemmas.NoCustom
