/-
C04, builder half — the order of the out-of-line parts, part 17: the remaining handlers keep `LInv`.
-/
import Garnish.Lemmas.BuildLifo16
namespace Garnish.Lemmas.BuildSeq
open Garnish Garnish.Gen Garnish.Model.Parser Garnish.Model.Literals Garnish.Model.Build Garnish.Lemmas.Build
open Garnish.Lemmas.BuildTotal
open Garnish.Lemmas.BuildAttr (getNode_sat_eq setNodeIdx_sat_eq AddMeta)

variable {F : Type} {root : Nat} {tree : Array ParseNode} {G : Nat → Prop} {m0 : Nat}

section pre
variable {ph : Nat → Phase} {ctx : Ctx F} {ni : Nat} {pn : ParseNode}

theorem no_ilink_none {tree : Array ParseNode} {ni : Nat} {pn : ParseNode} (hpn : tree[ni]? = some pn)
    (hk : layout pn.definition = .none) : ∀ c, ¬ ILink tree ni c := by
  intro c ⟨pn', h1, h2⟩
  rw [hpn] at h1; cases h1
  rw [hk] at h2
  rcases h2 with ⟨_, h⟩ | ⟨_, h⟩ <;> cases h

theorem handleGroup_lifo (p : PreL root tree G m0 ph ctx ni pn) (hdef : pn.definition = .group) :
    Sat (PostL root tree G m0 ph) (handleGroup ctx ni pn) := by
  unfold handleGroup
  have hnse : pn.definition ≠ .sideEffect := by rw [hdef]; decide
  have hp1 : ph ni = .p1 := by
    rcases p.pre.hph with h | h
    · exact h
    · exact absurd hdef (p.pre.inv.p2two ni pn p.pre.hpn h).1
  cases hr : pn.right with
  | none =>
    dsimp only
    exact p.lastVisit [] [] (by simp) (fun m hm => by cases hm) rfl rfl rfl (fun q hq => by cases hq)
      (fun q hq => by cases hq) (fun h => absurd h hnse)
      (fun _ => no_ilink_right_none p.pre.hpn (by rw [hdef]; rfl) hr) (no_right_last hr) (fun h => by rw [hdef] at h; cases h) (fun _ h => by cases h)
  | some r =>
    dsimp only
    refine sat_bind (getNode_sat_eq ctx.nodes ni) (fun node hnode => ?_)
    have hrlt := p.pre.child_lt (p.pre.childR hr)
    simp only [setNodeIdx_eq, hrlt, bind_ok, sat_ok]
    exact p.stackVisit hr hp1 (by rw [hdef]; rfl) (by rw [hdef]; rfl) _ rfl rfl rfl rfl rfl rfl rfl rfl

theorem handleNestedExpression_lifo (p : PreL root tree G m0 ph ctx ni pn) (hdef : pn.definition = .nestedExpression) (crj : Nat) :
    Sat (PostL root tree G m0 ph) (handleNestedExpression ctx crj ni pn) := by
  unfold handleNestedExpression
  have hnse : pn.definition ≠ .sideEffect := by rw [hdef]; decide
  have hnoil := no_ilink_none p.pre.hpn (by rw [hdef]; rfl)
  cases hr : pn.right with
  | none =>
    dsimp only
    exact p.lastVisit [] [some ni] (by simp [pushInstr, addConst]) (by hl_tac) rfl rfl rfl (fun q hq => by cases hq)
      (fun q hq => by cases hq) (fun h => absurd h hnse)
      (fun _ => hnoil) (no_right_last hr) (fun h => by rw [hdef] at h; cases h) (fun h => by rw [hdef] at h; cases h)
  | some r =>
    dsimp only
    have hrlt := p.pre.child_lt (p.pre.childR hr)
    simp only [setNodeIdx_eq, hrlt, bind_ok, sat_ok]
    exact p.rootVisit hr (fun h2 => absurd hdef (p.pre.inv.p2two ni pn p.pre.hpn h2).2) (by rw [hdef]; rfl) _ rfl rfl rfl rfl [some ni]
      (by simp [pushInstr, addConst, pushToJumpTable]) (by hl_tac) rfl rfl rfl (fun _ => hnoil)
      (fun _ _ => Or.inl (by rw [hdef]; rfl))

theorem handleLogicalBinary_lifo (p : PreL root tree G m0 ph ctx ni pn) (hlate : isLate pn.definition = true)
    (hd : pn.definition ≠ .group ∧ pn.definition ≠ .nestedExpression) (hk : layout pn.definition = .ln)
    (hlog : isLogical pn.definition = true) (ins : Instruction) :
    Sat (PostL root tree G m0 ph) (handleLogicalBinary ins ctx ni pn) := by
  unfold handleLogicalBinary
  have hnse := late_not_sideEffect hlate
  have hoolr : oolR pn.definition = true := by simp [oolR, hlate]
  refine sat_bind (getNode_sat_eq ctx.nodes ni) (fun node hnode => ?_)
  have hpni := p.pre.pni hnode
  cases hst : node.state with
  | uninitialized =>
    dsimp only
    cases hl : pn.left with
    | none => exact sat_buildErr
    | some l =>
      dsimp only
      have hllt := p.pre.child_lt (p.pre.childL hl)
      have hcL : CP tree G root l ni := CP.logical p.pre.hpn hlog hl
      simp only [setNodeIdx_eq, size_putNode, hllt, bind_ok, sat_ok, hpni]
      exact p.firstVisit hnode hst hd [l] [ni, l] [(ni, _), (l, _)] [] (by simp) (fun m hm => by cases hm) (by simp) rfl rfl
        (by list_tac) (by list_tac) (by simp) (by simp) (by list_tac)
        (fun c hc => by
          have : c = l := by simpa using hc
          subst this; exact ⟨p.pre.childL hl, p.pre.left_notLate hl⟩) (by asgp_tac) (by asg_tac) ⟨_, List.mem_cons_self⟩ (by asgu_tac) (by asgall_tac)
        (conf_layout p.pre.hpn (some l) (pn.right) hl rfl .ln hk .p2 (fun _ => rfl) [l] [ni, l] rfl (fun c => by simp [csOf]))
        (by simp) (fun h => absurd h hnse)
        (all_layout p.pre.hpn (some l) (pn.right) hl rfl .ln hk [l] (fun c => by simp [csOf])) (by cp_tac hcL, hcL, rfl)
  | initialized =>
    dsimp only
    cases hr : pn.right with
    | none => exact sat_buildErr
    | some r =>
      dsimp only
      have hrlt := p.pre.child_lt (p.pre.childR hr)
      simp only [setNodeIdx_eq, hrlt, bind_ok, sat_ok]
      exact p.rootVisit hr (fun _ => hlate) hoolr _ rfl rfl rfl rfl [some ni]
        (by simp [pushInstr, pushToJumpTable]) (by hl_tac) rfl rfl rfl (fun h => absurd h (p.notP1 hnode hst))
        (fun _ _ => Or.inl (logical_direct hlog))

theorem handleJumpIf_lifo (p : PreL root tree G m0 ph ctx ni pn) (hlate : isLate pn.definition = true)
    (hd : pn.definition ≠ .group ∧ pn.definition ≠ .nestedExpression) (hk : layout pn.definition = .ln)
    (hj : isJumpIf pn.definition = true) (ins : Instruction) :
    Sat (PostL root tree G m0 ph) (handleJumpIf ins ctx ni pn) := by
  have hne := jumpIf_not_else hj
  have hnlog := jumpIf_not_logical hj
  unfold handleJumpIf
  have hnse := late_not_sideEffect hlate
  have hoolr : oolR pn.definition = true := by simp [oolR, hlate]
  refine sat_bind (getNode_sat_eq ctx.nodes ni) (fun node hnode => ?_)
  have hpni := p.pre.pni hnode
  cases hst : node.state with
  | uninitialized =>
    dsimp only
    cases hl : pn.left with
    | none => exact sat_buildErr
    | some l =>
      dsimp only
      have hllt := p.pre.child_lt (p.pre.childL hl)
      have hcL : NCP tree G root l := p.ncp (Or.inl hl) hne (fun ⟨h, _⟩ => by rw [hnlog] at h; cases h)
      simp only [setNodeIdx_eq, size_putNode, hllt, bind_ok, sat_ok, hpni]
      exact p.firstVisit hnode hst hd [l] [ni, l] [(ni, _), (l, _)] [] (by simp) (fun m hm => by cases hm) (by simp) rfl rfl
        (by list_tac) (by list_tac) (by simp) (by simp) (by list_tac)
        (fun c hc => by
          have : c = l := by simpa using hc
          subst this; exact ⟨p.pre.childL hl, p.pre.left_notLate hl⟩) (by asgp_tac) (by asg_tac) ⟨_, List.mem_cons_self⟩ (by asgu_tac) (by asgall_tac)
        (conf_layout p.pre.hpn (some l) (pn.right) hl rfl .ln hk .p2 (fun _ => rfl) [l] [ni, l] rfl (fun c => by simp [csOf]))
        (by simp) (fun h => absurd h hnse)
        (all_layout p.pre.hpn (some l) (pn.right) hl rfl .ln hk [l] (fun c => by simp [csOf])) (by cp_tac hcL, hcL, rfl)
  | initialized =>
    dsimp only
    cases hr : pn.right with
    | none => exact sat_buildErr
    | some r =>
      dsimp only
      cases hcp : node.conditionalParent with
      | some cp =>
        dsimp only
        -- the arm is dropped when the conditional parent has no build node
        have hdrop : (∀ parent : BuildNode, ctx.nodes[cp]? ≠ some (some parent)) →
            ∀ (r' : Nat) (bn : BuildNode), pn.right = some r' → ctx.nodes[ni]? = some (some bn) →
            ((isDirect pn.definition = true ∨ (isJumpIf pn.definition = true ∧ bn.conditionalParent = none)) → False) ∧
            (isJumpIf pn.definition = true → ∀ (cp' : Nat) (parent : BuildNode), bn.conditionalParent = some cp' →
              ctx.nodes[cp']? = some (some parent) → False) := by
          intro hno r' bn _ hn
          rw [hnode] at hn; cases hn
          refine ⟨fun h => ?_, fun _ cp' parent' hc' hp' => ?_⟩
          · rcases h with h | ⟨_, h⟩
            · rw [jumpIf_not_direct hj] at h; cases h
            · rw [hcp] at h; cases h
          · rw [hcp] at hc'; cases hc'
            exact hno parent' hp'
        cases hpar : ctx.nodes[cp]? with
        | none =>
          dsimp only
          exact p.lastVisit [] [] (by simp [pushToJumpTable]) (fun m hm => by cases hm) rfl rfl rfl (fun q hq => by cases hq)
            (fun q hq => by cases hq) (fun h => absurd h hnse)
            (fun h => absurd h (p.notP1 hnode hst)) (hdrop (fun parent h => by rw [hpar] at h; cases h)) (fun h => absurd h hne) (fun h => absurd h hd.1)
        | some o =>
          cases o with
          | none =>
            dsimp only
            exact p.lastVisit [] [] (by simp [pushToJumpTable]) (fun m hm => by cases hm) rfl rfl rfl (fun q hq => by cases hq)
              (fun q hq => by cases hq) (fun h => absurd h hnse)
              (fun h => absurd h (p.notP1 hnode hst)) (hdrop (fun parent h => by rw [hpar] at h; cases h)) (fun h => absurd h hne) (fun h => absurd h hd.1)
          | some parent =>
            dsimp only
            exact p.condVisit hr hlate hj hnode hst hcp hpar _ rfl [some ni] (by simp [pushInstr, pushToJumpTable]) (by hl_tac)
              rfl rfl rfl
      | none =>
        dsimp only
        have hrlt := p.pre.child_lt (p.pre.childR hr)
        simp only [setNodeIdx_eq, hrlt, bind_ok, sat_ok]
        exact p.rootVisit hr (fun _ => hlate) hoolr _ rfl rfl rfl rfl [some ni, none]
          (by simp [pushInstr, pushToJumpTable]) (by hl_tac) rfl rfl rfl (fun h => absurd h (p.notP1 hnode hst))
          (fun bn hn => Or.inr ⟨hj, by rw [hnode] at hn; cases hn; exact hcp⟩)

theorem handleElseJump_lifo (p : PreL root tree G m0 ph ctx ni pn)
    (hd : pn.definition ≠ .group ∧ pn.definition ≠ .nestedExpression) (hnl : isLate pn.definition = false)
    (hk : layout pn.definition = .lrn) (hnse : pn.definition ≠ .sideEffect) (hdef : pn.definition = .elseJump) :
    Sat (PostL root tree G m0 ph) (handleElseJump ctx ni pn) := by
  unfold handleElseJump
  have hnool := oolR_false hnl hd.2
  refine sat_bind (getNode_sat_eq ctx.nodes ni) (fun node hnode => ?_)
  have hpni := p.pre.pni hnode
  have hdyn := p.linv.cpOk ni node hnode
  cases hst : node.state with
  | uninitialized =>
    dsimp only
    cases hr : pn.right with
    | none => exact sat_buildErr
    | some r =>
      cases hl : pn.left with
      | none => exact sat_buildErr
      | some l =>
        dsimp only
        have hrlt := p.pre.child_lt (p.pre.childR hr)
        have hllt := p.pre.child_lt (p.pre.childL hl)
        have hne' := p.pre.lr_ne hl hr
        cases hcpn : node.conditionalParent with
        | some cp =>
          rw [hcpn] at hdyn
          have hcR : CP tree G root r cp := CP.inherit p.pre.hpn hdef (Or.inr hr) hdyn
          have hcL : CP tree G root l cp := CP.inherit p.pre.hpn hdef (Or.inl hl) hdyn
          simp only [setNodeIdx_eq, size_putNode, hrlt, hllt, bind_ok, sat_ok, hpni]
          exact p.firstVisit hnode hst hd [r, l] [ni, r, l] [(ni, _), (r, _), (l, _)] [] (by simp) (fun m hm => by cases hm) (by simp) rfl rfl
            (by list_tac) (by list_tac) (by list_tac) (by simp) (by list_tac)
            (by child_tac p.pre, hnl) (by asgp_tac) (by asg_tac) ⟨_, List.mem_cons_self⟩ (by asgu_tac) (by asgall_tac)
            (conf_layout p.pre.hpn (some l) (some r) hl hr .lrn hk .p2 (fun _ => rfl) [r, l] [ni, r, l] rfl (fun c => by simp [csOf]))
            (by simp) (fun h => absurd h hnse)
            (all_layout p.pre.hpn (some l) (some r) hl hr .lrn hk [r, l] (fun c => by simp [csOf])) (by cp_tac hcR, hcL, hcpn.symm)
        | none =>
          rw [hcpn] at hdyn
          have hcR : CP tree G root r ni := CP.top p.pre.hpn hdef (Or.inr hr) hdyn
          have hcL : CP tree G root l ni := CP.top p.pre.hpn hdef (Or.inl hl) hdyn
          simp only [setNodeIdx_eq, size_putNode, hrlt, hllt, bind_ok, sat_ok, hpni]
          exact p.firstVisit hnode hst hd [r, l] [ni, r, l] [(ni, _), (r, _), (l, _)] [] (by simp) (fun m hm => by cases hm) (by simp) rfl rfl
            (by list_tac) (by list_tac) (by list_tac) (by simp) (by list_tac)
            (by child_tac p.pre, hnl) (by asgp_tac) (by asg_tac) ⟨_, List.mem_cons_self⟩ (by asgu_tac) (by asgall_tac)
            (conf_layout p.pre.hpn (some l) (some r) hl hr .lrn hk .p2 (fun _ => rfl) [r, l] [ni, r, l] rfl (fun c => by simp [csOf]))
            (by simp) (fun h => absurd h hnse)
            (all_layout p.pre.hpn (some l) (some r) hl hr .lrn hk [r, l] (fun c => by simp [csOf])) (by cp_tac hcR, hcL, hcpn.symm)
  | initialized =>
    dsimp only
    cases hcp : node.conditionalParent with
    | some cp =>
      dsimp only
      exact p.lastVisit [] [] (by simp) (fun m hm => by cases hm) rfl rfl rfl (fun q hq => by cases hq)
        (fun q hq => by cases hq) (fun h => absurd h hnse)
        (fun h => absurd h (p.notP1 hnode hst)) (nool_last hnool rfl) (fun _ bn hn hc => by rw [hnode] at hn; cases hn; rw [hcp] at hc; cases hc) (fun h => absurd h hd.1)
    | none =>
      dsimp only
      split
      · generalize heq : elseJumpItems node.containingExpressionJump (getJumpTableLen ctx.data)
          node.conditionalItems.toList ctx.rootStack #[] = res
        obtain ⟨rootStack, newItems⟩ := res
        dsimp only
        have hspec := elseJumpItems_spec node.containingExpressionJump (getJumpTableLen ctx.data)
          node.conditionalItems.toList ctx.rootStack #[]
        rw [heq] at hspec
        obtain ⟨hs1, hs2⟩ := hspec
        dsimp only at hs1 hs2
        simp only [List.nil_append, show (#[] : Array (Nat × BuildNode)).toList = [] from rfl] at hs2
        have hni3 : ph ni ≠ .p3 := by rcases p.pre.hph with h1 | h1 <;> rw [h1] <;> intro h <;> cases h
        have hlt : ∀ q, q ∈ newItems.toList → q.1 < ctx.nodes.size := by
          intro q hq
          rw [hs2] at hq
          obtain ⟨it, hit, he⟩ := List.mem_map.1 hq
          subst he
          rw [p.pre.inv.size]
          exact G_lt p.pre.V (p.pre.inv.items ni node hnode hni3 it hit).1
        rw [assignNewItems_eq _ _ hlt]
        simp only [bind_ok, sat_ok]
        exact p.elseVisit hdef hnode hst hcp node.containingExpressionJump (getJumpTableLen ctx.data) [] (by simp [pushToJumpTable])
          (fun m hm => by cases hm) rfl hs1 (by show assign ctx.nodes newItems.toList = _; rw [hs2])
      · rename_i hsz
        exact p.lastVisit [] [] (by simp) (fun m hm => by cases hm) rfl rfl rfl (fun q hq => by cases hq)
          (fun q hq => by cases hq) (fun h => absurd h hnse)
          (fun h => absurd h (p.notP1 hnode hst)) (nool_last hnool rfl) (fun _ bn hn _ => by
          rw [hnode] at hn; cases hn
          have : node.conditionalItems = #[] := Array.eq_empty_of_size_eq_zero (by omega)
          simp [itemsOf, this]) (fun h => absurd h hd.1)

theorem handleValueLike_lifo (p : PreL root tree G m0 ph ctx ni pn)
    (hd : pn.definition ≠ .group ∧ pn.definition ≠ .nestedExpression) (hnl : isLate pn.definition = false)
    (hk : layout pn.definition = .lnr) (hnse : pn.definition ≠ .sideEffect) (hne : pn.definition ≠ .elseJump)
    {addFn : AddFn F} (hadd : AddMeta addFn pn) (ins : Instruction) :
    Sat (PostL root tree G m0 ph) (handleValueLike addFn ins ctx ni pn) := by
  unfold handleValueLike
  have hnool := oolR_false hnl hd.2
  have hnlog := not_logical hnl
  refine sat_bind (getNode_sat_eq ctx.nodes ni) (fun node hnode => ?_)
  have hpni := p.pre.pni hnode
  cases hst : node.state with
  | uninitialized =>
    dsimp only
    cases hr : pn.right with
    | none =>
      cases hl : pn.left with
      | none =>
        simp only [bind_ok, sat_ok, hpni]
        exact p.firstVisit hnode hst hd [] [ni] [(ni, _)] [] (by simp) (fun m hm => by cases hm) (by simp) rfl rfl
          (by list_tac) (by list_tac) (by simp) (by simp) (fun c hc => by cases hc)
          (fun c hc => by cases hc) (by asgp_tac) (by asg_tac) ⟨_, List.mem_cons_self⟩ (by asgu_tac) (fun c hc => by cases hc)
          (conf_layout p.pre.hpn (none) (none) hl hr .lnr hk .p2 (fun _ => rfl) [] [ni] rfl (fun c => by simp [csOf]))
          (by simp) (fun h => absurd h hnse)
          (all_layout p.pre.hpn (none) (none) hl hr .lnr hk [] (fun c => by simp [csOf])) (by cp_tac trivial, trivial, rfl)
      | some l =>
        have hllt := p.pre.child_lt (p.pre.childL hl)
        have hcL : NCP tree G root l := p.ncp (Or.inl hl) hne (fun ⟨h, _⟩ => by rw [hnlog] at h; cases h)
        simp only [setNodeIdx_eq, size_putNode, hllt, bind_ok, sat_ok, hpni]
        exact p.firstVisit hnode hst hd [l] [ni, l] [(ni, _), (l, _)] [] (by simp) (fun m hm => by cases hm) (by simp) rfl rfl
          (by list_tac) (by list_tac) (by simp) (by simp) (by list_tac)
          (by child_tac p.pre, hnl) (by asgp_tac) (by asg_tac) ⟨_, List.mem_cons_self⟩ (by asgu_tac) (by asgall_tac)
          (conf_layout p.pre.hpn (some l) (none) hl hr .lnr hk .p2 (fun _ => rfl) [l] [ni, l] rfl (fun c => by simp [csOf]))
          (by simp) (fun h => absurd h hnse)
          (all_layout p.pre.hpn (some l) (none) hl hr .lnr hk [l] (fun c => by simp [csOf])) (by cp_tac hcL, hcL, rfl)
    | some r =>
      have hrlt := p.pre.child_lt (p.pre.childR hr)
      have hcR : NCP tree G root r := p.ncp (Or.inr hr) hne (fun ⟨h, _⟩ => by rw [hnlog] at h; cases h)
      cases hl : pn.left with
      | none =>
        simp only [setNodeIdx_eq, size_putNode, hrlt, bind_ok, sat_ok, hpni]
        exact p.firstVisit hnode hst hd [r] [r, ni] [(ni, _), (r, _)] [] (by simp) (fun m hm => by cases hm) (by simp) rfl rfl
          (by list_tac) (by list_tac) (by simp) (by simp) (by list_tac)
          (by child_tac p.pre, hnl) (by asgp_tac) (by asg_tac) ⟨_, List.mem_cons_self⟩ (by asgu_tac) (by asgall_tac)
          (conf_layout p.pre.hpn (none) (some r) hl hr .lnr hk .p2 (fun _ => rfl) [r] [r, ni] rfl (fun c => by simp [csOf]))
          (by simp) (fun h => absurd h hnse)
          (all_layout p.pre.hpn (none) (some r) hl hr .lnr hk [r] (fun c => by simp [csOf])) (by cp_tac hcR, hcR, rfl)
      | some l =>
        have hllt := p.pre.child_lt (p.pre.childL hl)
        have hne' := p.pre.lr_ne hl hr
        have hcL : NCP tree G root l := p.ncp (Or.inl hl) hne (fun ⟨h, _⟩ => by rw [hnlog] at h; cases h)
        simp only [setNodeIdx_eq, size_putNode, hrlt, hllt, bind_ok, sat_ok, hpni]
        exact p.firstVisit hnode hst hd [r, l] [r, ni, l] [(ni, _), (r, _), (l, _)] [] (by simp) (fun m hm => by cases hm) (by simp) rfl rfl
          (by list_tac) (by list_tac) (by list_tac) (by simp) (by list_tac)
          (by child_tac p.pre, hnl) (by asgp_tac) (by asg_tac) ⟨_, List.mem_cons_self⟩ (by asgu_tac) (by asgall_tac)
          (conf_layout p.pre.hpn (some l) (some r) hl hr .lnr hk .p2 (fun _ => rfl) [r, l] [r, ni, l] rfl (fun c => by simp [csOf]))
          (by simp) (fun h => absurd h hnse)
          (all_layout p.pre.hpn (some l) (some r) hl hr .lnr hk [r, l] (fun c => by simp [csOf])) (by cp_tac hcR, hcL, rfl)
  | initialized =>
    dsimp only
    refine sat_bind (hadd ctx.data) (fun res hres => ?_)
    obtain ⟨data, operand⟩ := res
    dsimp only at hres ⊢
    exact p.lastVisit [] [some ni] (by simp [pushInstr, hres]) (by hl_tac) rfl rfl rfl (fun q hq => by cases hq)
      (fun q hq => by cases hq) (fun h => absurd h hnse) (fun h => absurd h (p.notP1 hnode hst)) (nool_last hnool rfl)
      (fun h => absurd h hne) (fun h => absurd h hd.1)

theorem handleValuePrimitive_lifo (p : PreL root tree G m0 ph ctx ni pn)
    (hd : pn.definition ≠ .group ∧ pn.definition ≠ .nestedExpression) (hnl : isLate pn.definition = false)
    (hk : layout pn.definition = .lnr) (hnse : pn.definition ≠ .sideEffect) (hne : pn.definition ≠ .elseJump)
    {addFn : BState F → ParseNode → Outcome (BState F × Nat)}
    (hadd : ∀ d, Sat (fun r => r.1.metadata = d.metadata) (addFn d pn)) :
    Sat (PostL root tree G m0 ph) (handleValuePrimitive addFn ctx ni pn) := by
  unfold handleValuePrimitive
  refine handleValueLike_lifo p hd hnl hk hnse hne (fun d => ?_) _
  refine sat_bind (hadd d) (fun r hr => ?_)
  exact hr

end pre

end Garnish.Lemmas.BuildSeq
