/-
The last instruction of the main line of an expression (what `build`'s "append the terminator unless the
last instruction already equals it" looks at): it is never `EndExpression`, it is a `JumpTo` only for `^~`
(and then to the containing expression, never to a join), and when it is `Tis` on a `skipSafe` expression
the value is already a boolean.
-/
import Garnish.Lemmas.CompileRestart
namespace Garnish.Abs
open Garnish Gen Garnish.Spec

variable {F : Type}

def LastClass (cur : Nat) (_e : Expr F) (i : Instruction) (d : Option Nat) : Prop :=
  (i = .jumpTo → d = some cur) ∧ i ≠ .endExpression

theorem LastClass.plain {cur : Nat} {e : Expr F} {i : Instruction} {d : Option Nat}
    (_h1 : i ≠ .tis) (h2 : i ≠ .jumpTo) (h3 : i ≠ .endExpression) : LastClass cur e i d :=
  ⟨fun h => absurd h h2, h3⟩

/-- the main line of a non-empty sequence of arms ends with the `JumpIf` of the last arm -/
theorem lastArm (P : Prog F) (root cur join : Nat) : ∀ (arms : List (Bool × Expr F × Expr F)) (pc : Nat), arms ≠ [] →
    LocatedArms P root cur join pc arms → ∃ b j, P.instrs[pc + lenArms arms - 1]? = some (jumpIf b, some j)
  | [], _, h, _ => absurd rfl h
  | (onTrue, c, t) :: rest, pc, _, h => by
    simp only [LocatedArms] at h
    obtain ⟨_, ⟨j, tb, hi, _⟩, hr⟩ := h
    cases rest with
    | nil => exact ⟨onTrue, j, by simpa [lenArms] using hi⟩
    | cons a rest' =>
      obtain ⟨b, j', hi'⟩ := lastArm P root cur join (a :: rest') (pc + len c + 1) (by simp) hr
      refine ⟨b, j', ?_⟩
      have : pc + lenArms ((onTrue, c, t) :: a :: rest') - 1 = pc + len c + 1 + lenArms (a :: rest') - 1 := by
        simp only [lenArms]; omega
      rw [this]; exact hi'

theorem last_cases (P : Prog F) (root cur : Nat) : ∀ (e : Expr F) (pc : Nat),
    Located P root cur pc e → wfC e = true →
    ∃ i d, P.instrs[pc + len e - 1]? = some (i, d) ∧ LastClass cur e i d
  | .lit v, pc, h, _ => by
    simp only [Located] at h; obtain ⟨k, hi, _⟩ := h
    exact ⟨.put, some k, by simpa [len] using hi, .plain (by simp) (by simp) (by simp)⟩
  | .input, pc, h, _ => by
    simp only [Located] at h
    exact ⟨.putValue, none, by simpa [len] using h, .plain (by simp) (by simp) (by simp)⟩
  | .ident sym, pc, h, _ => by
    simp only [Located] at h; obtain ⟨k, hi, _⟩ := h
    exact ⟨.resolve, some k, by simpa [len] using hi, .plain (by simp) (by simp) (by simp)⟩
  | .nested id, pc, h, _ => by
    simp only [Located] at h; obtain ⟨k, hi, _⟩ := h
    exact ⟨.put, some k, by simpa [len] using hi, .plain (by simp) (by simp) (by simp)⟩
  | .emptyNested, pc, h, _ => by
    simp only [Located] at h; obtain ⟨k, hi, _⟩ := h
    exact ⟨.put, some k, by simpa [len] using hi, .plain (by simp) (by simp) (by simp)⟩
  | .unary op x, pc, h, hw => by
    simp only [Located] at h
    simp only [wfC, Bool.and_eq_true] at hw
    refine ⟨op, none, by simpa [len] using h.2, ?_⟩
    have := hw.1
    cases op <;> simp [unOK] at this <;> simp [LastClass]
  | .binary op l r, pc, h, hw => by
    simp only [Located] at h
    simp only [wfC, Bool.and_eq_true] at hw
    have hpos : pc + len (.binary op l r) - 1 = pc + len l + len r := by simp only [len]; omega
    refine ⟨op, none, by rw [hpos]; exact h.2.2, ?_⟩
    have := hw.1.1
    cases op <;> simp [binOK] at this <;> simp [LastClass]
  | .pair l r, pc, h, _ => by
    simp only [Located] at h
    refine ⟨.makePair, none, ?_, .plain (by simp) (by simp) (by simp)⟩
    have : pc + len (.pair l r) - 1 = pc + len r + len l := by simp only [len]; omega
    rw [this]; exact h.2.2
  | .applyTo x f, pc, h, _ => by
    simp only [Located] at h
    refine ⟨.apply, none, ?_, .plain (by simp) (by simp) (by simp)⟩
    have : pc + len (.applyTo x f) - 1 = pc + len f + len x := by simp only [len]; omega
    rw [this]; exact h.2.2
  | .list items, pc, h, _ => by
    simp only [Located] at h
    exact ⟨.makeList, some items.length, by simpa [len] using h.2, .plain (by simp) (by simp) (by simp)⟩
  | .cond onTrue c t, pc, h, _ => by
    simp only [Located] at h
    obtain ⟨_, j, join, tb, _, h2, _⟩ := h
    refine ⟨.putValue, none, ?_, .plain (by simp) (by simp) (by simp)⟩
    have : pc + len (.cond onTrue c t) - 1 = pc + len c + 1 := by simp only [len]; omega
    rw [this]; exact h2
  | .chain arms none, pc, h, _ => by
    rw [Located_chain] at h
    obtain ⟨join, hla, hfin, _⟩ := h
    cases arms with
    | nil =>
      refine ⟨.putValue, none, ?_, .plain (by simp) (by simp) (by simp)⟩
      have : pc + len (.chain ([] : List (Bool × Expr F × Expr F)) none) - 1 = pc := by rw [len_chain]; simp [lenArms]
      rw [this]; exact hfin
    | cons a rest =>
      obtain ⟨b, j, hi⟩ := lastArm P root cur join (a :: rest) pc (by simp) hla
      refine ⟨jumpIf b, some j, ?_, ?_⟩
      · have : pc + len (.chain (a :: rest) none) - 1 = pc + lenArms (a :: rest) - 1 := by rw [len_chain]; simp only; omega
        rw [this]; exact hi
      · cases b <;> exact .plain (by simp [jumpIf]) (by simp [jumpIf]) (by simp [jumpIf])
  | .chain arms (some fe), pc, h, hw => by
    rw [Located_chain] at h
    simp only [wfC_chain, Bool.and_eq_true] at hw
    obtain ⟨join, _, hfe, _⟩ := h
    obtain ⟨i, d, hi, hc⟩ := last_cases P root cur fe (pc + lenArms arms) hfe hw.2
    refine ⟨i, d, ?_, ?_⟩
    · have := len_pos fe
      have : pc + len (.chain arms (some fe)) - 1 = pc + lenArms arms + len fe - 1 := by rw [len_chain]; simp only; omega
      rw [this]; exact hi
    · simpa [LastClass] using hc
  | .and l r, pc, h, _ => by
    simp only [Located] at h
    obtain ⟨_, j, join, tb, h1, _⟩ := h
    exact ⟨.and, some j, by simpa [len] using h1, .plain (by simp) (by simp) (by simp)⟩
  | .or l r, pc, h, _ => by
    simp only [Located] at h
    obtain ⟨_, j, join, tb, h1, _⟩ := h
    exact ⟨.or, some j, by simpa [len] using h1, .plain (by simp) (by simp) (by simp)⟩
  | .seq a b, pc, h, hw => by
    simp only [Located] at h
    simp only [wfC, Bool.and_eq_true] at hw
    obtain ⟨i, d, hi, hc⟩ := last_cases P root cur b (pc + len a + 1) h.2.2 hw.2
    refine ⟨i, d, ?_, ?_⟩
    · have := len_pos b
      have : pc + len (.seq a b) - 1 = pc + len a + 1 + len b - 1 := by simp only [len]; omega
      rw [this]; exact hi
    · simpa [LastClass] using hc
  | .sideAfter x b, pc, h, _ => by
    simp only [Located] at h
    refine ⟨.endSideEffect, none, ?_, .plain (by simp) (by simp) (by simp)⟩
    have : pc + len (.sideAfter x b) - 1 = pc + len x + 1 + len b := by simp only [len]; omega
    rw [this]; exact h.2.2.2
  | .reapply x, pc, h, _ => by
    simp only [Located] at h
    refine ⟨.jumpTo, some cur, ?_, ⟨by simp, by simp⟩⟩
    have : pc + len (.reapply x) - 1 = pc + len x + 1 := by simp only [len]; omega
    rw [this]; exact h.2.2
  | .prefixApply sym x, pc, h, _ => by
    simp only [Located] at h
    refine ⟨.apply, none, ?_, .plain (by simp) (by simp) (by simp)⟩
    have : pc + len (.prefixApply sym x) - 1 = pc + 1 + len x := by simp only [len]; omega
    rw [this]; exact h.2.2
  | .suffixApply x sym, pc, h, _ => by
    simp only [Located] at h
    refine ⟨.apply, none, ?_, .plain (by simp) (by simp) (by simp)⟩
    have : pc + len (.suffixApply x sym) - 1 = pc + 1 + len x := by simp only [len]; omega
    rw [this]; exact h.2.2
  | .infixApply a sym b, pc, h, _ => by
    simp only [Located] at h
    refine ⟨.apply, none, ?_, .plain (by simp) (by simp) (by simp)⟩
    have : pc + len (.infixApply a sym b) - 1 = pc + 1 + len a + len b + 1 := by simp only [len]; omega
    rw [this]; exact h.2.2.2.2

/-- only an `EndExpression` terminator can be skipped -/
theorem termsAfter_jump {P : Prog F} {pcEnd join : Nat} :
    termsAfter P pcEnd [(.jumpTo, some join)] = [(.jumpTo, some join)] := by
  simp [termsAfter]

theorem termsAfter_tis {P : Prog F} {pcEnd join : Nat} :
    termsAfter P pcEnd [(.tis, none), (.jumpTo, some join)] = [(.tis, none), (.jumpTo, some join)] := by
  simp [termsAfter]

/-- the `EndExpression` of a body is never skipped: the main line of a well-formed expression does not end
with one -/
theorem termsAfter_end {P : Prog F} {root cur pc : Nat} {e : Expr F}
    (h : Located P root cur pc e) (hw : wfC e = true) :
    termsAfter P (pc + len e) [(.endExpression, none)] = [(.endExpression, none)] := by
  obtain ⟨i, d, hi, hc⟩ := last_cases P root cur e pc h hw
  simp only [termsAfter, List.filter, hi]
  have : ¬ ((i, d) = (Instruction.endExpression, (none : Option Nat))) := by
    intro heq
    simp only [Prod.mk.injEq] at heq
    exact hc.2 heq.1
  simp [this]

end Garnish.Abs
