/-
Helper lemmas for property C13 (Garnish/Props/C13.lean), about the lexer model Garnish.Model.Lexer — part 4: the operator tree against the table; the second invariant `Typed` and the arms.
(The C13 lemmas are split over LexerC13Core, LexerC13Loop, LexerC13Blank, LexerC13Tree and LexerC13, each importing
the previous one; importing Garnish.Lemmas.LexerC13 gives all of them.)
-/
import Garnish.Lemmas.LexerC13Blank
set_option linter.unusedSimpArgs false
set_option linter.unusedVariables false
namespace Garnish.Model.Lexer

/-! ## the operator tree against the regenerated table -/

/-- all nodes of the tree down to depth `fuel`, with the path leading to them -/
def pathsFuel : Nat → LexerOperatorNode → List Char → List (List Char × LexerOperatorNode)
  | 0, n, p => [(p, n)]
  | f + 1, n, p => (p, n) :: n.children.flatMap (fun kc => pathsFuel f kc.2 (p ++ [kc.1]))

theorem mapGet_mem {β : Type} : ∀ (m : List (Char × β)) (k : Char) (v : β), mapGet m k = some v → (k, v) ∈ m
  | [], _, _, h => by simp [mapGet] at h
  | (k0, v0) :: r, k, v, h => by
    simp only [mapGet] at h
    split at h
    · rename_i hk
      have : k0 = k := by simpa using hk
      subst this
      simp only [Option.some.injEq] at h
      subst h; simp
    · exact List.mem_cons_of_mem _ (mapGet_mem r k v h)

theorem pathsFuel_self (f : Nat) (n : LexerOperatorNode) (p : List Char) : (p, n) ∈ pathsFuel f n p := by
  cases f <;> simp [pathsFuel]

theorem walk_mem_paths : ∀ (cs : List Char) (f : Nat) (t n : LexerOperatorNode) (p : List Char),
    walkOperator t cs = some n → cs.length ≤ f → (p ++ cs, n) ∈ pathsFuel f t p
  | [], f, t, n, p, h, _ => by
    simp only [walkOperator, Option.some.injEq] at h
    subst h; simpa using pathsFuel_self f t p
  | c :: r, 0, t, n, p, h, hl => by simp at hl
  | c :: r, f + 1, t, n, p, h, hl => by
    simp only [walkOperator] at h
    cases hg : t.getChild c with
    | none => rw [hg] at h; cases h
    | some ch =>
      rw [hg] at h
      have hmem := mapGet_mem _ _ _ hg
      have := walk_mem_paths r f ch n (p ++ [c]) h (by simpa using hl)
      simp only [pathsFuel, List.mem_cons, List.mem_flatMap]
      right
      exact ⟨(c, ch), hmem, by simpa [List.append_assoc] using this⟩

theorem walk_append : ∀ (a b : List Char) (t n : LexerOperatorNode), walkOperator t (a ++ b) = some n →
    ∃ m, walkOperator t a = some m ∧ walkOperator m b = some n
  | [], b, t, n, h => ⟨t, rfl, h⟩
  | c :: a, b, t, n, h => by
    simp only [List.cons_append, walkOperator] at h ⊢
    cases hg : t.getChild c with
    | none => rw [hg] at h; cases h
    | some ch => rw [hg] at h; exact walk_append a b ch n h

/-- the tree is at most 4 deep -/
def depthCheck : Bool :=
  (pathsFuel 4 theTree []).all fun pn => pn.1.length < 4 || pn.2.children.isEmpty

theorem depthCheck_true : depthCheck = true := by decide +kernel

theorem walk_length_le (cs : List Char) (n : LexerOperatorNode) (h : walkOperator theTree cs = some n) :
    cs.length ≤ 4 := by
  by_cases hl : cs.length ≤ 4
  · exact hl
  · exfalso
    have hsplit : cs = cs.take 4 ++ cs.drop 4 := (List.take_append_drop 4 cs).symm
    rw [hsplit] at h
    obtain ⟨m, hm, hn⟩ := walk_append _ _ _ _ h
    have hlen : (cs.take 4).length = 4 := by simp; omega
    have hmem := walk_mem_paths (cs.take 4) 4 theTree m [] hm (by omega)
    have hd := depthCheck_true
    unfold depthCheck at hd
    rw [List.all_eq_true] at hd
    have := hd _ hmem
    simp only [List.nil_append, hlen, Nat.lt_irrefl, decide_false, Bool.false_or] at this
    cases hdrop : cs.drop 4 with
    | nil => have : (cs.drop 4).length = 0 := by rw [hdrop]; rfl
             simp at this; omega
    | cons x r =>
      rw [hdrop] at hn
      simp only [walkOperator, LexerOperatorNode.getChild] at hn
      have hch : m.children = [] := by simpa [List.isEmpty_iff] using this
      rw [hch] at hn
      simp [mapGet] at hn

/-- every typed node of the tree is an entry of the regenerated table -/
def typedNodesInTable : Bool :=
  (pathsFuel 4 theTree []).all fun pn =>
    match pn.2.tokenType with
    | none => true
    | some ty => Garnish.Gen.LexTables.operatorChars.contains (pn.1, ty)

theorem typedNodesInTable_true : typedNodesInTable = true := by decide +kernel

/-- soundness of the tree: what it recognises with a type is a spelling of the table with that type -/
theorem tree_sound (cs : List Char) (n : LexerOperatorNode) (ty : Gen.TokenType)
    (h : walkOperator theTree cs = some n) (hty : n.tokenType = some ty) :
    (cs, ty) ∈ Garnish.Gen.LexTables.operatorChars := by
  have hmem := walk_mem_paths cs 4 theTree n [] h (walk_length_le cs n h)
  have hc := typedNodesInTable_true
  unfold typedNodesInTable at hc
  rw [List.all_eq_true] at hc
  have := hc _ hmem
  simp only [List.nil_append, hty] at this
  simpa using this

/-- every prefix of a spelling of the table is a path of the tree -/
theorem table_prefix_path (sp : List Char) (ty : Gen.TokenType) (a b : List Char)
    (h : (sp, ty) ∈ Garnish.Gen.LexTables.operatorChars) (hab : sp = a ++ b) :
    ∃ m, walkOperator theTree a = some m := by
  have hr := tableRecognised_true
  unfold tableRecognised at hr
  rw [List.all_eq_true] at hr
  have := hr _ h
  cases hw : walkOperator theTree sp with
  | none => rw [hw] at this; cases this
  | some n =>
    rw [hab] at hw
    obtain ⟨m, hm, _⟩ := walk_append a b theTree n hw
    exact ⟨m, hm⟩

/-! ## second invariant: state, pending token type and allowed characters -/

/-- token types of the operator table -/
def isOpType (ty : Gen.TokenType) : Bool := Garnish.Gen.LexTables.operatorChars.any (fun p => p.2 == ty)

@[simp] theorem isOpType_whitespace : isOpType .whitespace = false := by decide
@[simp] theorem isOpType_subexpression : isOpType .subexpression = false := by decide
@[simp] theorem isOpType_number : isOpType .number = false := by decide
@[simp] theorem isOpType_identifier : isOpType .identifier = false := by decide
@[simp] theorem isOpType_symbol : isOpType .symbol = false := by decide
@[simp] theorem isOpType_suffixIdentifier : isOpType .suffixIdentifier = false := by decide
@[simp] theorem isOpType_prefixIdentifier : isOpType .prefixIdentifier = false := by decide
@[simp] theorem isOpType_infixIdentifier : isOpType .infixIdentifier = false := by decide
@[simp] theorem isOpType_annotation : isOpType .annotation = false := by decide
@[simp] theorem isOpType_lineAnnotation : isOpType .lineAnnotation = false := by decide
@[simp] theorem isOpType_charList : isOpType .charList = false := by decide
@[simp] theorem isOpType_byteList : isOpType .byteList = false := by decide

/-- literal / comment token types: their text may contain anything -/
def isLitType (ty : Gen.TokenType) : Bool := ty == .charList || ty == .byteList || ty == .lineAnnotation

def isLitState (s : LexingState) : Bool :=
  s == .charList || s == .startCharList || s == .byteList || s == .startByteList || s == .lineAnnotation

/-- `c` occurs in some path of the operator tree (a spelling of the table or a prefix of one) -/
def InOperatorPath (c : Char) : Prop := ∃ cs, c ∈ cs ∧ (walkOperator theTree cs).isSome = true

/-- `c` can start or continue some token: alphanumeric, numeric, ASCII whitespace, one of ``_ : . ` @ " '``,
or a character of an operator spelling -/
def CanStartOrContinue (cc : CharClass) (c : Char) : Prop :=
  cc.isAlphanumeric c = true ∨ cc.isNumeric c = true ∨ isAsciiWhitespace c = true ∨
  c = '_' ∨ c = ':' ∨ c = '.' ∨ c = '`' ∨ c = '@' ∨ c = '"' ∨ c = '\'' ∨ InOperatorPath c

theorem ok_alnum {cc : CharClass} {c : Char} (h : cc.isAlphanumeric c = true) : CanStartOrContinue cc c := Or.inl h
theorem ok_num {cc : CharClass} {c : Char} (h : cc.isNumeric c = true) : CanStartOrContinue cc c := Or.inr (Or.inl h)
theorem ok_ws {cc : CharClass} {c : Char} (h : isAsciiWhitespace c = true) : CanStartOrContinue cc c :=
  Or.inr (Or.inr (Or.inl h))
theorem ok_under (cc : CharClass) : CanStartOrContinue cc '_' := by simp [CanStartOrContinue]
theorem ok_colon (cc : CharClass) : CanStartOrContinue cc ':' := by simp [CanStartOrContinue]
theorem ok_dot (cc : CharClass) : CanStartOrContinue cc '.' := by simp [CanStartOrContinue]
theorem ok_backtick (cc : CharClass) : CanStartOrContinue cc '`' := by simp [CanStartOrContinue]
theorem ok_at (cc : CharClass) : CanStartOrContinue cc '@' := by simp [CanStartOrContinue]
theorem ok_path {cc : CharClass} {c : Char} (h : InOperatorPath c) : CanStartOrContinue cc c := by
  simp [CanStartOrContinue, h]
theorem ok_nua {cc : CharClass} {c : Char} (h : (cc.isNumeric c || c == '_' || cc.isAlphanumeric c) = true) :
    CanStartOrContinue cc c := by
  simp only [Bool.or_eq_true, beq_iff_eq] at h
  rcases h with (h | h) | h
  · exact ok_num h
  · subst h; exact ok_under cc
  · exact ok_alnum h
theorem ok_identChar {cc : CharClass} {c : Char} (h : isIdentifierChar cc c = true) : CanStartOrContinue cc c := by
  simp only [isIdentifierChar, Bool.or_eq_true, beq_iff_eq] at h
  rcases h with (h | h) | h
  · exact ok_alnum h
  · subst h; exact ok_under cc
  · subst h; exact ok_colon cc
theorem ok_blank {cc : CharClass} {c : Char} (h : c = ' ' ∨ c = '\t') : CanStartOrContinue cc c := by
  rcases h with rfl | rfl <;> exact ok_ws (by decide)

theorem ok_snoc {cc : CharClass} {cs : List Char} {c : Char} (h : ∀ x ∈ cs, CanStartOrContinue cc x)
    (hc : CanStartOrContinue cc c) : ∀ x ∈ cs ++ [c], CanStartOrContinue cc x := by
  intro x hx
  simp only [List.mem_append, List.mem_singleton] at hx
  rcases hx with hx | rfl
  · exact h x hx
  · exact hc

theorem path_chars_ok {cc : CharClass} {cs : List Char} {n : LexerOperatorNode}
    (h : walkOperator theTree cs = some n) : ∀ x ∈ cs, CanStartOrContinue cc x :=
  fun x hx => ok_path ⟨cs, hx, by simp [h]⟩

/-- relation between the state, the pending token type and the pending characters -/
structure Typed (cc : CharClass) (σ : Lexer) : Prop where
  op : σ.state = .operator → ∃ node, walkOperator theTree σ.currentCharacters = some node ∧
        σ.currentTokenType = node.tokenType
  nonOp : σ.state ≠ .operator → σ.state ≠ .noToken → ∃ ty, σ.currentTokenType = some ty ∧ isOpType ty = false
  lit : isLitState σ.state = true → ∃ ty, σ.currentTokenType = some ty ∧ isLitType ty = true
  chars : isLitState σ.state = false → ∀ c ∈ σ.currentCharacters, CanStartOrContinue cc c

/-- what is known about an emitted token -/
structure TokOk (cc : CharClass) (text : List Char) (ty : Gen.TokenType) : Prop where
  op : isOpType ty = true → ∃ node, walkOperator theTree text = some node ∧ node.tokenType = some ty
  chars : isLitType ty = false → ∀ c ∈ text, CanStartOrContinue cc c

/-- an arm that ends the token (`start_new`): the token about to be emitted is fine, and an operator token is ended
by a character `c` that is not part of it and continues no path of the tree -/
def EmitOk (cc : CharClass) (σ1 : Lexer) (c : Char) : Prop :=
  ∀ ty, σ1.currentTokenType = some ty →
    TokOk cc σ1.currentCharacters ty ∧
    (isOpType ty = true → walkOperator theTree (σ1.currentCharacters ++ [c]) = none ∧ σ1.shouldCreate = true)

def ArmTyped (cc : CharClass) (c : Char) (p : Lexer × Bool) : Prop :=
  (p.2 = false → Typed cc p.1) ∧ (p.2 = true → EmitOk cc p.1 c)

theorem typed_nonOp_emit {cc : CharClass} {σ1 : Lexer} {c : Char} {ty0 : Gen.TokenType}
    (hty : σ1.currentTokenType = some ty0) (hno : isOpType ty0 = false)
    (hch : isLitType ty0 = false → ∀ x ∈ σ1.currentCharacters, CanStartOrContinue cc x) : EmitOk cc σ1 c := by
  intro ty h
  rw [hty] at h
  simp only [Option.some.injEq] at h
  subst h
  exact ⟨⟨fun h => (by rw [hno] at h; cases h), hch⟩, fun h => (by rw [hno] at h; cases h)⟩

theorem Typed.mkPlain {cc : CharClass} {σ1 : Lexer} (hs1 : σ1.state ≠ .operator) (hl : isLitState σ1.state = false)
    (ty : Gen.TokenType) (hty : σ1.currentTokenType = some ty) (hno : isOpType ty = false)
    (hch : ∀ x ∈ σ1.currentCharacters, CanStartOrContinue cc x) : Typed cc σ1 :=
  ⟨fun h => absurd h hs1, fun _ _ => ⟨ty, hty, hno⟩, fun h => (by rw [hl] at h; cases h), fun _ => hch⟩

theorem Typed.mkLit {cc : CharClass} {σ1 : Lexer} (hs1 : σ1.state ≠ .operator) (hl : isLitState σ1.state = true)
    (ty : Gen.TokenType) (hty : σ1.currentTokenType = some ty) (hno : isOpType ty = false)
    (hlt : isLitType ty = true) : Typed cc σ1 :=
  ⟨fun h => absurd h hs1, fun _ _ => ⟨ty, hty, hno⟩, fun _ => ⟨ty, hty, hlt⟩, fun h => (by rw [hl] at h; cases h)⟩

theorem Typed.mkOp {cc : CharClass} {σ1 : Lexer} (hs1 : σ1.state = .operator) (node : LexerOperatorNode)
    (hw : walkOperator theTree σ1.currentCharacters = some node) (hty : σ1.currentTokenType = node.tokenType) :
    Typed cc σ1 :=
  ⟨fun _ => ⟨node, hw, hty⟩, fun h => absurd hs1 h, fun h => (by rw [hs1] at h; simp [isLitState] at h),
   fun _ => path_chars_ok hw⟩

theorem Typed.noToken {cc : CharClass} {σ1 : Lexer} (hs1 : σ1.state = .noToken) (hch : σ1.currentCharacters = []) :
    Typed cc σ1 :=
  ⟨fun h => (by rw [hs1] at h; cases h), fun _ h => absurd hs1 h, fun h => (by rw [hs1] at h; simp [isLitState] at h),
   fun _ => (by rw [hch]; simp)⟩

theorem armNumber_typed (cc : CharClass) (σ : Lexer) (c : Char) (hs : σ.state = .number) (ht : Typed cc σ) :
    ArmTyped cc c (armNumber cc σ c) := by
  obtain ⟨ty, hty, hno⟩ := ht.nonOp (by rw [hs]; decide) (by rw [hs]; decide)
  have hch := ht.chars (by rw [hs]; rfl)
  unfold armNumber
  split
  · rename_i h
    exact ⟨fun _ => Typed.mkPlain (by simp [hs]) (by simp [hs, isLitState]) ty hty hno (ok_snoc hch (ok_nua h)),
      fun h => by simp at h⟩
  · split
    · rename_i h
      have : c = '.' := by simp at h; exact h.1
      subst this
      exact ⟨fun _ => Typed.mkPlain (by simp) (by simp [isLitState]) .number rfl (by simp) (ok_snoc hch (ok_dot cc)),
        fun h => by simp at h⟩
    · exact ⟨fun h => by simp at h, fun _ => typed_nonOp_emit hty hno (fun _ => hch)⟩

theorem armIdentifier_typed (cc : CharClass) (σ : Lexer) (c : Char) (hs : σ.state = .identifier) (ht : Typed cc σ) :
    ArmTyped cc c (armIdentifier cc σ c) := by
  obtain ⟨ty, hty, hno⟩ := ht.nonOp (by rw [hs]; decide) (by rw [hs]; decide)
  have hch := ht.chars (by rw [hs]; rfl)
  unfold armIdentifier
  split
  · rename_i h
    exact ⟨fun _ => Typed.mkPlain (by simp [hs]) (by simp [hs, isLitState]) ty hty hno (ok_snoc hch (ok_identChar h)),
      fun h => by simp at h⟩
  · split
    · rename_i h
      have : c = '`' := by simpa using h
      subst this
      refine ⟨fun h => by simp at h, fun _ => ?_⟩
      simp only []
      split
      · exact typed_nonOp_emit rfl (by simp) (fun _ => ok_snoc hch (ok_backtick cc))
      · exact typed_nonOp_emit rfl (by simp) (fun _ => ok_snoc hch (ok_backtick cc))
    · refine ⟨fun h => by simp at h, fun _ => ?_⟩
      simp only []
      split
      · exact typed_nonOp_emit rfl (by simp) (fun _ => hch)
      · exact typed_nonOp_emit hty hno (fun _ => hch)

theorem armAnnotation_typed (cc : CharClass) (σ : Lexer) (c : Char) (hs : σ.state = .annotation) (ht : Typed cc σ) :
    ArmTyped cc c (armAnnotation cc σ c) := by
  obtain ⟨ty, hty, hno⟩ := ht.nonOp (by rw [hs]; decide) (by rw [hs]; decide)
  have hch := ht.chars (by rw [hs]; rfl)
  unfold armAnnotation
  split
  · exact ⟨fun _ => Typed.mkLit (by simp) (by simp [isLitState]) .lineAnnotation rfl (by simp) (by simp [isLitType]),
      fun h => by simp at h⟩
  · split
    · rename_i h
      have hc : CanStartOrContinue cc c := by
        simp only [Bool.or_eq_true, beq_iff_eq] at h
        rcases h with h | h
        · exact ok_alnum h
        · subst h; exact ok_under cc
      exact ⟨fun _ => Typed.mkPlain (by simp [hs]) (by simp [hs, isLitState]) ty hty hno (ok_snoc hch hc),
        fun h => by simp at h⟩
    · exact ⟨fun h => by simp at h, fun _ => typed_nonOp_emit hty hno (fun _ => hch)⟩

theorem armSpaces_typed (cc : CharClass) (σ : Lexer) (c : Char) (hs : σ.state = .spaces) (ht : Typed cc σ) :
    ArmTyped cc c (armSpaces σ c) := by
  obtain ⟨ty, hty, hno⟩ := ht.nonOp (by rw [hs]; decide) (by rw [hs]; decide)
  have hch := ht.chars (by rw [hs]; rfl)
  unfold armSpaces
  split
  · rename_i h
    have : c = '\n' := by simpa using h
    subst this
    have hnl : CanStartOrContinue cc '\n' := ok_ws (by decide)
    split
    · exact ⟨fun h => by simp at h, fun _ => typed_nonOp_emit rfl (by simp) (fun _ => ok_snoc hch hnl)⟩
    · exact ⟨fun _ => Typed.mkPlain (by simp) (by simp [isLitState]) ty hty hno (ok_snoc hch hnl),
        fun h => by simp at h⟩
  · split
    · exact ⟨fun h => by simp at h, fun _ => typed_nonOp_emit hty hno (fun _ => hch)⟩
    · rename_i h
      have hb : c = ' ' ∨ c = '\t' := by
        simp only [bne_iff_ne, ne_eq, Bool.and_eq_true, decide_eq_true_eq, not_and, Decidable.not_not] at h
        by_cases h1 : c = ' '
        · exact Or.inl h1
        · exact Or.inr (h h1)
      exact ⟨fun _ => Typed.mkPlain (by simp [hs]) (by simp [hs, isLitState]) ty hty hno (ok_snoc hch (ok_blank hb)),
        fun h => by simp at h⟩

theorem armSubexpression_typed (cc : CharClass) (σ : Lexer) (c : Char) (hs : σ.state = .subexpression)
    (ht : Typed cc σ) : ArmTyped cc c (armSubexpression σ c) := by
  have hch := ht.chars (by rw [hs]; rfl)
  unfold armSubexpression
  split
  · rename_i h
    have hc : CanStartOrContinue cc c := ok_ws (by simp at h; exact h.1)
    exact ⟨fun h => by simp at h, fun _ => typed_nonOp_emit rfl (by simp) (fun _ => ok_snoc hch hc)⟩
  · simp only []
    split
    · rename_i h
      have hb : c = ' ' ∨ c = '\t' := by
        simp only [Bool.or_eq_true, beq_iff_eq] at h
        exact h.symm
      exact ⟨fun _ => Typed.mkPlain (by simp) (by simp [isLitState]) .whitespace rfl (by simp)
        (ok_snoc hch (ok_blank hb)), fun h => by simp at h⟩
    · exact ⟨fun h => by simp at h, fun _ => typed_nonOp_emit rfl (by simp) (fun _ => hch)⟩

theorem lit_emit {cc : CharClass} {σ1 : Lexer} {c : Char} {ty0 : Gen.TokenType}
    (hty : σ1.currentTokenType = some ty0) (hno : isOpType ty0 = false) (hl : isLitType ty0 = true) :
    EmitOk cc σ1 c :=
  typed_nonOp_emit hty hno (fun h => by rw [hl] at h; cases h)

theorem armStartCharList_typed (cc : CharClass) (σ : Lexer) (c : Char) (hs : σ.state = .startCharList)
    (ht : Typed cc σ) : ArmTyped cc c (armStartCharList σ c) := by
  obtain ⟨ty, hty, hno⟩ := ht.nonOp (by rw [hs]; decide) (by rw [hs]; decide)
  obtain ⟨ty', hty', hlt⟩ := ht.lit (by rw [hs]; rfl)
  rw [hty] at hty'; cases hty'
  generalize hr : armStartCharList σ c = r
  unfold armStartCharList at hr
  simp only [] at hr
  repeat' split at hr
  all_goals subst hr
  all_goals refine ⟨fun h => ?_, fun h => ?_⟩
  all_goals first
    | (exfalso; simp at h; done)
    | exact lit_emit hty hno hlt
    | exact Typed.mkLit (by simp [hs]) (by simp [hs, isLitState]) ty hty hno hlt

theorem armCharList_typed (cc : CharClass) (σ : Lexer) (c : Char) (hs : σ.state = .charList)
    (ht : Typed cc σ) : ArmTyped cc c (armCharList σ c) := by
  obtain ⟨ty, hty, hno⟩ := ht.nonOp (by rw [hs]; decide) (by rw [hs]; decide)
  obtain ⟨ty', hty', hlt⟩ := ht.lit (by rw [hs]; rfl)
  rw [hty] at hty'; cases hty'
  generalize hr : armCharList σ c = r
  unfold armCharList at hr
  simp only [] at hr
  repeat' split at hr
  all_goals subst hr
  all_goals refine ⟨fun h => ?_, fun h => ?_⟩
  all_goals first
    | (exfalso; simp at h; done)
    | exact lit_emit hty hno hlt
    | exact Typed.mkLit (by simp [hs]) (by simp [hs, isLitState]) ty hty hno hlt

theorem armStartByteList_typed (cc : CharClass) (σ : Lexer) (c : Char) (hs : σ.state = .startByteList)
    (ht : Typed cc σ) : ArmTyped cc c (armStartByteList σ c) := by
  obtain ⟨ty, hty, hno⟩ := ht.nonOp (by rw [hs]; decide) (by rw [hs]; decide)
  obtain ⟨ty', hty', hlt⟩ := ht.lit (by rw [hs]; rfl)
  rw [hty] at hty'; cases hty'
  generalize hr : armStartByteList σ c = r
  unfold armStartByteList at hr
  simp only [] at hr
  repeat' split at hr
  all_goals subst hr
  all_goals refine ⟨fun h => ?_, fun h => ?_⟩
  all_goals first
    | (exfalso; simp at h; done)
    | exact lit_emit hty hno hlt
    | exact Typed.mkLit (by simp [hs]) (by simp [hs, isLitState]) ty hty hno hlt

theorem armByteList_typed (cc : CharClass) (σ : Lexer) (c : Char) (hs : σ.state = .byteList)
    (ht : Typed cc σ) : ArmTyped cc c (armByteList σ c) := by
  obtain ⟨ty, hty, hno⟩ := ht.nonOp (by rw [hs]; decide) (by rw [hs]; decide)
  obtain ⟨ty', hty', hlt⟩ := ht.lit (by rw [hs]; rfl)
  rw [hty] at hty'; cases hty'
  generalize hr : armByteList σ c = r
  unfold armByteList at hr
  simp only [] at hr
  repeat' split at hr
  all_goals subst hr
  all_goals refine ⟨fun h => ?_, fun h => ?_⟩
  all_goals first
    | (exfalso; simp at h; done)
    | exact lit_emit hty hno hlt
    | exact Typed.mkLit (by simp [hs]) (by simp [hs, isLitState]) ty hty hno hlt

theorem armLineAnnotation_typed (cc : CharClass) (σ : Lexer) (c : Char) (hs : σ.state = .lineAnnotation)
    (ht : Typed cc σ) : ArmTyped cc c (armLineAnnotation σ c) := by
  obtain ⟨ty, hty, hno⟩ := ht.nonOp (by rw [hs]; decide) (by rw [hs]; decide)
  obtain ⟨ty', hty', hlt⟩ := ht.lit (by rw [hs]; rfl)
  rw [hty] at hty'; cases hty'
  generalize hr : armLineAnnotation σ c = r
  unfold armLineAnnotation at hr
  repeat' split at hr
  all_goals subst hr
  all_goals refine ⟨fun h => ?_, fun h => ?_⟩
  all_goals first
    | (exfalso; simp at h; done)
    | exact lit_emit hty hno hlt
    | exact Typed.mkLit (by simp [hs]) (by simp [hs, isLitState]) ty hty hno hlt

theorem armOperator_typed (cc : CharClass) (σ : Lexer) (c : Char) (hs : σ.state = .operator) (ht : Typed cc σ)
    (htr : σ.operatorTree = theTree) (hcr : σ.shouldCreate = true) : ArmTyped cc c (armOperator cc σ c) := by
  obtain ⟨node0, hw0, hty0⟩ := ht.op hs
  have hch : ∀ x ∈ σ.currentCharacters, CanStartOrContinue cc x := path_chars_ok hw0
  unfold armOperator
  simp only []
  split
  · rename_i node heq
    have hw : walkOperator theTree (σ.currentCharacters ++ [c]) = some node := by
      simpa [currentOperator, push, htr] using heq
    exact ⟨fun _ => Typed.mkOp (by simp [hs]) node (by simpa [push] using hw) rfl, fun h => by simp at h⟩
  · rename_i heq
    have hw : walkOperator theTree (σ.currentCharacters ++ [c]) = none := by
      simpa [currentOperator, push, htr] using heq
    split
    · rename_i h
      have hid : isIdentifierChar cc c = true := by
        simp only [Bool.and_eq_true, isIdentifier, push, List.all_append, List.all_cons, List.all_nil,
          Bool.and_true] at h
        exact h.2.2
      exact ⟨fun _ => Typed.mkPlain (by simp) (by simp [isLitState]) .identifier rfl (by simp)
        (by simpa [push] using ok_snoc hch (ok_identChar hid)), fun h => by simp at h⟩
    · split
      · rename_i h
        have hnum : cc.isNumeric c = true := by
          simp only [Bool.and_eq_true] at h
          exact h.1.2
        exact ⟨fun _ => Typed.mkPlain (by simp) (by simp [isLitState]) .number rfl (by simp)
          (by simpa [push] using ok_snoc hch (ok_num hnum)), fun h => by simp at h⟩
      · refine ⟨fun h => by simp at h, fun _ => ?_⟩
        intro ty hty
        simp only [pop_push] at hty ⊢
        rw [hty0] at hty
        exact ⟨⟨fun _ => ⟨node0, hw0, hty⟩, fun _ => hch⟩, fun _ => ⟨hw, hcr⟩⟩

theorem startToken_typed (cc : CharClass) (σ : Lexer) (c : Char) (htr : σ.operatorTree = theTree)
    (hs : σ.state = .noToken) : (startToken cc σ c).result = .err ∨ Typed cc (startToken cc σ c) := by
  unfold startToken
  simp only []
  split
  · rename_i node heq
    have hw : walkOperator theTree [c] = some node := by simpa [currentOperator, push, htr] using heq
    exact Or.inr (Typed.mkOp rfl node (by simpa [push] using hw) rfl)
  · split
    · rename_i h
      have hc : CanStartOrContinue cc c := by
        simp only [Bool.or_eq_true, beq_iff_eq] at h
        rcases h with (h | h) | h <;> subst h <;> exact ok_ws (by decide)
      exact Or.inr (Typed.mkPlain (by simp) (by simp [isLitState]) .whitespace rfl (by simp)
        (by simpa [push] using hc))
    · split
      · rename_i h
        exact Or.inr (Typed.mkPlain (by simp) (by simp [isLitState]) .subexpression rfl (by simp)
          (by simpa [push] using (ok_ws h : CanStartOrContinue cc c)))
      · split
        · rename_i h
          exact Or.inr (Typed.mkPlain (by simp) (by simp [isLitState]) .number rfl (by simp)
            (by simpa [push] using (ok_num h : CanStartOrContinue cc c)))
        · split
          · rename_i h
            exact Or.inr (Typed.mkPlain (by simp) (by simp [isLitState]) .identifier rfl (by simp)
              (by simpa [push] using (ok_identChar h : CanStartOrContinue cc c)))
          · split
            · rename_i h
              have : c = '`' := by simpa using h
              subst this
              exact Or.inr (Typed.mkPlain (by simp) (by simp [isLitState]) .suffixIdentifier rfl (by simp)
                (by simpa [push] using ok_backtick cc))
            · split
              · rename_i h
                have : c = '@' := by simpa using h
                subst this
                exact Or.inr (Typed.mkPlain (by simp) (by simp [isLitState]) .annotation rfl (by simp)
                  (by simpa [push] using ok_at cc))
              · split
                · exact Or.inr (Typed.mkLit (by simp) (by simp [isLitState]) .charList rfl (by simp)
                    (by simp [isLitType]))
                · split
                  · exact Or.inr (Typed.mkLit (by simp) (by simp [isLitState]) .byteList rfl (by simp)
                      (by simp [isLitType]))
                  · split
                    · exact Or.inr (Typed.noToken rfl rfl)
                    · exact Or.inl rfl

theorem startToken_dot (cc : CharClass) (σ : Lexer) (htr : σ.operatorTree = theTree) :
    (startToken cc σ '.').state = .operator ∧ (startToken cc σ '.').currentCharacters = ['.'] ∧
    (startToken cc σ '.').operatorTree = theTree := by
  have hdot : (walkOperator theTree ['.']).isSome = true := by decide
  cases hw : walkOperator theTree ['.'] with
  | none => rw [hw] at hdot; cases hdot
  | some node =>
    unfold startToken
    simp [currentOperator, push, htr, hw]

theorem trimMatches_mem (cs : List Char) (d x : Char) (h : x ∈ trimMatches cs d) : x ∈ cs := by
  unfold trimMatches at h
  have h1 : x ∈ ((cs.dropWhile (· == d)).reverse.dropWhile (· == d)) := by simpa using h
  have h2 := (List.dropWhile_sublist _).subset h1
  have h3 : x ∈ cs.dropWhile (· == d) := by simpa using h2
  exact (List.dropWhile_sublist _).subset h3

/-- the Float arm: typed result, and the number emitted by the float split is fine -/
theorem armFloat_typed (cc : CharClass) (σ : Lexer) (c : Char) (hs : σ.state = .float) (ht : Typed cc σ)
    (htr : σ.operatorTree = theTree) (st : Step) (h : armFloat cc σ c = .ok st) :
    match st with
    | .cont σ1 nt sn => ArmTyped cc c (σ1, sn) ∧
        (∀ t, nt = some t → sn = false ∧ isOpType t.tokenType = false ∧ TokOk cc t.text t.tokenType)
    | .returnNone _ => True := by
  obtain ⟨ty, hty, hno⟩ := ht.nonOp (by rw [hs]; decide) (by rw [hs]; decide)
  have hch := ht.chars (by rw [hs]; rfl)
  unfold armFloat at h
  split at h
  · rename_i hc
    cases h
    exact ⟨⟨fun _ => Typed.mkPlain (by simp [hs]) (by simp [hs, isLitState]) ty hty hno (ok_snoc hch (ok_nua hc)),
      fun h => by simp at h⟩, fun t ht => by cases ht⟩
  · split at h
    · simp only [] at h
      split at h
      · cases h
      · have hsd := startToken_dot cc { σ with tokenStartRow := σ.textRow } (by simpa using htr)
        generalize startToken cc { σ with tokenStartRow := σ.textRow } '.' = s1 at h hsd
        split at h
        · rename_i node heq
          cases h
          have hw : walkOperator theTree ['.', c] = some node := by
            simpa [currentOperator, push, hsd.2.1, hsd.2.2] using heq
          refine ⟨⟨fun _ => Typed.mkOp (by simpa using hsd.1) node (by simpa [push, hsd.2.1] using hw) rfl,
            fun h => by simp at h⟩, ?_⟩
          intro t ht
          simp only [Option.some.injEq] at ht
          subst ht
          refine ⟨rfl, by simp, ⟨fun h => by simp at h, fun _ x hx => hch x (trimMatches_mem _ _ _ hx)⟩⟩
        · cases h; trivial
    · cases h
      exact ⟨⟨fun h => by simp at h, fun _ => typed_nonOp_emit hty hno (fun _ => hch)⟩, fun t ht => by cases ht⟩

end Garnish.Model.Lexer
