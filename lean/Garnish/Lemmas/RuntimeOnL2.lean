/-
The relativised step theorem over the contract `StoreLawsOnL`: the clauses of `StoreLawsOn` other than `addToList` /
`endList` (`StoreLawsOnNoList`, Props/C19StoreOn.lean), a shadow store that has the full contract (the idealised
`add_to_list` / `end_list` may live in ghost state; for a store with the two clauses the shadow is the store itself)
and the list law in the shape of the runtime's `make_list` (`ListPopLawOn`): `start_list(len)`, the add loop over the
top `len` registers, `len` × `pop_register`, `end_list` answer `Ok` with the list of the popped registers, bottom-most
first.  `stepSim_makeListL`: the `MakeList` step from the law; `refine_step_onL`: every instruction of
`shadowCovered` through `refine_step_on4` on the shadow store + `stepSimOn_shadow`, `MakeList` from the law.
-/
import Garnish.Lemmas.RuntimeOnL1
set_option linter.unusedSimpArgs false
set_option linter.unusedVariables false
namespace Garnish.Lemmas.Runtime.OnL
open Garnish Gen Garnish.Abs Garnish.Model.Equality Garnish.Model.Runtime Garnish.Lemmas.Runtime
open Garnish.Props.RuntimeRefine Garnish.Lemmas.Runtime.On Garnish.Props.C19StoreOn

variable {F σ : Type} {S : RStore F σ} {Inv : σ → Prop} {Rd : σ → Nat → Prop} {P : Prog F} {host : Host F}
  (fo : FloatOps F)

/-- the list law in the shape of `make_list`'s calls: from a state with registers `top ++ rest` whose top part
decodes to `tvs` -/
def ListPopLawOn (S : RStore F σ) (Inv : σ → Prop) : Prop :=
  ∀ (top rest : List Nat) (tvs : List (Val F)) (s : σ), Inv s → S.regs s = top ++ rest → Deep S s rest →
    DecodesList (S.view s) top tvs →
    ∃ t0 s1 t1 s2 s3 a s4, S.startList top.length s = .ok (t0, s1) ∧ S.regs s1 = top ++ rest ∧
      makeListAdd S top.length rest.length t0 s1 = .ok (t1, s2) ∧ popRegisters S top.length s2 = .ok ((), s3) ∧
      S.endList t1 s3 = .ok (a, s4) ∧ Decodes (S.view s4) a (.list tvs.reverse) ∧
      Eff S s s4 rest (S.vals s) ∧ Inv s4

/-- the contract -/
structure StoreLawsOnL (S : RStore F σ) (Inv : σ → Prop) (Rd : σ → Nat → Prop) : Prop where
  noList : StoreLawsOnNoList S Inv Rd
  shadow : ∃ X Y, StoreLawsOn (shadow S X Y) Inv Rd
  listPop : ListPopLawOn S Inv

/-- a store with the two unrestricted list clauses satisfies it -/
theorem StoreLawsOn.toL (L : StoreLawsOn S Inv Rd) : StoreLawsOnL S Inv Rd where
  noList :=
    { rangeTyped := L.rangeTyped, listIdx := L.listIdx, charIdx := L.charIdx, byteIdx := L.byteIdx, symIdx := L.symIdx
      addUnit := L.addUnit, addTrue := L.addTrue, addFalse := L.addFalse, addNumber := L.addNumber
      addType := L.addType, addChar := L.addChar, addByte := L.addByte, addSymbol := L.addSymbol
      addPair := L.addPair, addConcatenation := L.addConcatenation, addRange := L.addRange, addSlice := L.addSlice
      addPartial := L.addPartial, mergeSome := L.mergeSome, startList := L.startList
      popRegisterBuilding := L.popRegisterBuilding, readable := L.readable, pushRegister := L.pushRegister
      popRegisterNil := L.popRegisterNil, popRegisterCons := L.popRegisterCons, pushValueStack := L.pushValueStack
      popValueStackNil := L.popValueStackNil, popValueStackCons := L.popValueStackCons
      setCurrentNil := L.setCurrentNil, setCurrentCons := L.setCurrentCons, pushFrame := L.pushFrame
      popFrameNil := L.popFrameNil, popFrameCons := L.popFrameCons, setCursor := L.setCursor, deferOp := L.deferOp
      resolve := L.resolve, apply := L.apply, dataBound := L.dataBound }
  shadow := ⟨S.addToList, S.endList, L⟩
  listPop := by
    intro top rest tvs s hi hregs hdp hd
    obtain ⟨t0, s1, h1, e1', b1, i1⟩ := L.startList top.length s hi
    have e1 : EffI S Inv s s1 (S.regs s) (S.vals s) := ⟨e1', i1⟩
    rw [hregs] at e1
    obtain ⟨t1, s2, h2, e2, b2⟩ := On.makeListAdd_spec L top rest top.length 0 t0 s1 i1 (by omega) e1.regs
      (by rw [b1]; rfl)
    rw [e1.vals] at e2
    obtain ⟨s3, h3, e3, b3⟩ := On.popRegisters_spec L top rest s2 e2.inv ((e1.trans e2).deep hdp) e2.regs
    rw [e2.vals] at e3
    have e03 := (e1.trans e2).trans e3
    obtain ⟨a, s4, h4, d4, e4⟩ := On.adds_i (L.endList t1 top.reverse tvs.reverse s3 e3.inv (by rw [b3, b2])
      (decodesList_reverse (decodesList_keeps e03.keeps hd)))
    rw [e3.regs, e3.vals] at e4
    exact ⟨t0, s1, t1, s2, s3, a, s4, h1, e1.regs, h2, h3, h4, d4, (e03.trans e4).toEff, (e03.trans e4).inv⟩

section
variable (N : StoreLawsOnNoList S Inv Rd)
include N

theorem advance_spec_onN {s1 : σ} (next : Option Nat) (md : MState F) (hi : Inv s1)
    (hd : SimD S P s1 md.regs md.vals md.frames) :
    match finish P (.ok (md, next.getD (S.cursor s1 + 1))) with
    | .running m' => ∃ s', advance S next s1 = .ok (.running, s') ∧ Sim S P s' m' ∧ DecKept S s1 s' ∧ Inv s'
    | .halted m' => ∃ s', advance S next s1 = .ok (.end_, s') ∧ SimD S P s' m'.regs m'.vals m'.frames ∧
        DecKept S s1 s' ∧ Inv s'
    | .err _ => True := by
  rw [advance, bind_ok (read_apply S.cursor s1), bind_ok (read_apply S.instrLen s1), hd.ilen]
  simp only [finish]
  by_cases hge : next.getD (S.cursor s1 + 1) ≥ P.instrs.size
  · simp only [hge, if_true]
    exact ⟨s1, rfl, hd, fun _ _ h => h, hi⟩
  · simp only [hge, if_false]
    obtain ⟨s2, h2, hc, hdec, hj, hil, hins, _, hregs, hvals, _, hfr, hinv⟩ :=
      N.setCursor (next.getD (S.cursor s1 + 1)) s1
    refine ⟨s2, by rw [bind_ok h2]; rfl, ⟨hc, ?_⟩, hdec, hinv hi⟩
    exact ⟨hregs ▸ decodesList_mapDec hdec hd.regs, hvals ▸ decodesList_mapDec hdec hd.vals,
      hfr ▸ framesRel_mapDec hdec hd.frames, fun i => by rw [hins]; exact hd.instrs i,
      fun j => by rw [hj]; exact hd.jumps j, by rw [hil]; exact hd.ilen⟩

theorem stepSimOn_ofN (fuel : Nat) (H : OtherHandlers σ) {s : σ} {m : MState F}
    (hsim : Sim S P s m) {instr : Instruction} {operand : Option Nat}
    (hfetch : P.instrs[m.pc]? = some (instr, operand)) {r : Except ErrClass (MState F × Nat)}
    (hstep : Abs.step fo host P m = finish P r)
    (hh : HandlerSimOn S Inv P s (dispatch fo S fuel H instr operand s) r) :
    StepSimOn fo host S Inv P fuel H s m := by
  unfold StepSimOn
  rw [hstep]
  obtain ⟨hpc, hd⟩ := hsim
  have hf : (RM.read (fun st => S.instruction st (S.cursor st)) : RM σ _) s = .ok (some (instr, operand), s) := by
    show Outcome.ok (S.instruction s (S.cursor s), s) = _
    rw [hd.instrs, hpc, hfetch]
  cases r with
  | error e => trivial
  | ok p =>
    obtain ⟨md, n⟩ := p
    obtain ⟨next, s1, h1, hn, hc, hd1, hk1, i1⟩ := hh
    have := advance_spec_onN (P := P) N next md i1 hd1
    rw [hc, hn] at this
    rw [executeCurrentInstruction, bind_ok hf]
    simp only []
    rw [bind_ok h1]
    cases hfin : finish P (.ok (md, n)) with
    | running m' =>
      rw [hfin] at this
      obtain ⟨s', h2, hs, hk2, i2⟩ := this
      exact ⟨s', h2, hs, fun a v h => hk2 a v (hk1 a v h), i2⟩
    | halted m' =>
      rw [hfin] at this
      obtain ⟨s', h2, hs, hk2, i2⟩ := this
      exact ⟨s', h2, hs, fun a v h => hk2 a v (hk1 a v h), i2⟩
    | err e => trivial

/-- `make_list len` from the list law -/
theorem makeList_specL (LP : ListPopLawOn S Inv) {s : σ} (top rest : List Nat) (tvs : List (Val F))
    (hregs : S.regs s = top ++ rest) (hd : DecodesList (S.view s) top tvs) (hi : Inv s) (hdp : Deep S s rest) :
    PushedI S Inv s (makeList S top.length s) none rest (.list tvs.reverse) := by
  have hlen : getRegisterLen S s = .ok ((top ++ rest).length, s) := by
    show Outcome.ok ((S.regs s).length, s) = _
    rw [hregs]
  have hnot : ¬ top.length > (top ++ rest).length := by simp
  obtain ⟨t0, s1, t1, s2, s3, a, s4, h1, r1, h2, h3, h4, d4, e4, i4⟩ := LP top rest tvs s hi hregs hdp hd
  have hlen1 : getRegisterLen S s1 = .ok ((top ++ rest).length, s1) := by
    show Outcome.ok ((S.regs s1).length, s1) = _
    rw [r1]
  obtain ⟨s5, h5, e5, i5⟩ := N.pushRegister a s4 i4 (N.readable s4 a _ i4 d4 (by intro h; cases h))
  rw [e4.regs, e4.vals] at e5
  refine ⟨a, s5, ?_, e5.keeps.dec _ _ d4, ⟨e4.trans e5, i5⟩⟩
  have hcount : (top ++ rest).length - ((top ++ rest).length - top.length) = top.length := by simp
  have hstart : (top ++ rest).length - top.length = rest.length := by simp
  rw [makeList, bind_ok hlen]
  simp only [hnot, if_false]
  rw [bind_ok h1, bind_ok hlen1, bind_ok hlen1, hcount, hstart, bind_ok h2, bind_ok h3,
    bind_ok h4, bind_ok h5]; rfl

/-- `MakeList n` -/
theorem stepSim_makeListL (LP : ListPopLawOn S Inv) (fuel : Nat) (H : OtherHandlers σ) {s : σ} {m : MState F}
    (hsim : Sim S P s m) {n : Nat} (hfetch : P.instrs[m.pc]? = some (.makeList, some n))
    (hn : n ≤ m.regs.length) (hi : Inv s) (hm : MDeep m (m.regs.drop n)) : StepSimOn fo host S Inv P fuel H s m := by
  have hlen := EqualityRefine.decodesList_length hsim.2.regs
  have hdeep : Deep S s ((S.regs s).drop n) := On.deep_of_sim hsim.2 (decodesList_drop n hsim.2.regs) hm
  have h := makeList_specL N LP ((S.regs s).take n) ((S.regs s).drop n) (m.regs.take n)
    (List.take_append_drop n _).symm (decodesList_take n hsim.2.regs) hi hdeep
  rw [List.length_take, Nat.min_eq_left (by omega)] at h
  obtain ⟨a, s1, h1, d1, e1⟩ := h
  refine stepSimOn_ofN fo N fuel H hsim hfetch
    (r := .ok ({ m with regs := .list (m.regs.take n).reverse :: m.regs.drop n }, m.pc + 1))
    (by unfold Abs.step; rw [hfetch]; simp only [show ¬ n > m.regs.length by omega, if_false]; rfl) ?_
  exact On.handlerSim_ofEff hsim.2 (md := { m with regs := .list (m.regs.take n).reverse :: m.regs.drop n }) h1 e1
    (.cons d1 (On.Sim.tail e1 (decodesList_drop n hsim.2.regs))) (On.Sim.tail e1 hsim.2.vals) rfl (by simp [hsim.1])

end

/-- the side condition: `MachOKOn4` on the instructions covered -/
def MachOKOnL (S : RStore F σ) (Inv : σ → Prop) (P : Prog F) (fuel : Nat) (m : MState F) (instr : Instruction)
    (operand : Option Nat) : Prop :=
  (shadowCovered instr = true ∨ instr = .makeList) ∧ MachOKOn4 fo S Inv P fuel m instr operand

/-- ONE STEP on `S` for a covered instruction, from the full contract of a shadow store -/
theorem refine_step_on_shadow {X : Nat → Nat → RM σ Nat} {Y : Nat → RM σ Nat}
    (L₂ : StoreLawsOn (Garnish.Lemmas.Runtime.OnL.shadow S X Y) Inv Rd) (HR : HostRefinesI S Inv host) (fuel : Nat)
    (cast : RM σ (Option Nat)) {s : σ} {m : MState F} (hsim : Sim S P s m) (hi : Inv s) (hl : Loaded S P s)
    {instr : Instruction} {operand : Option Nat} (hfetch : P.instrs[m.pc]? = some (instr, operand))
    (hc : shadowCovered instr = true) (hok : MachOKOn4 fo S Inv P fuel m instr operand) :
    StepSimOn fo host S Inv P fuel (fullHandlers fo S fuel cast) s m := by
  have hok₂ : MachOKOn4 fo (Garnish.Lemmas.Runtime.OnL.shadow S X Y) Inv P fuel m instr operand := by
    cases instr <;> first | exact hok | cases hc
  have hsim₂ : Sim (Garnish.Lemmas.Runtime.OnL.shadow S X Y) P s m := ⟨hsim.1, (simD_shadow X Y).symm ▸ hsim.2⟩
  exact stepSimOn_shadow fo X Y fuel _ _ hsim hfetch (dispatch_shadow fo X Y fuel cast operand instr hc)
    (refine_step_on4 fo L₂ (hostRefinesI_shadow X Y HR) fuel cast hsim₂ hi hl hfetch hok₂)

/-- ONE STEP for `MakeList` from the clauses other than the list clauses and the list law -/
theorem refine_step_makeListL (N : StoreLawsOnNoList S Inv Rd) (LP : ListPopLawOn S Inv) (fuel : Nat)
    (H : OtherHandlers σ) {s : σ} {m : MState F} (hsim : Sim S P s m) (hi : Inv s)
    {operand : Option Nat} (hfetch : P.instrs[m.pc]? = some (.makeList, operand))
    (hok : ∀ n, operand = some n → MDeepN m n) : StepSimOn fo host S Inv P fuel H s m := by
  cases operand with
  | none => machine_errs_on fo, fuel, H, s, hfetch, .implementation, []
  | some n =>
    by_cases hn : n ≤ m.regs.length
    · exact stepSim_makeListL fo N LP fuel _ hsim hfetch hn hi ((hok n rfl).drop hn)
    · machine_errs_on fo, fuel, H, s, hfetch, .state, [show n > m.regs.length by omega]

/-- ONE STEP over `StoreLawsOnL` -/
theorem refine_step_onL (C : StoreLawsOnL S Inv Rd) (HR : HostRefinesI S Inv host) (fuel : Nat)
    (cast : RM σ (Option Nat)) {s : σ} {m : MState F} (hsim : Sim S P s m) (hi : Inv s) (hl : Loaded S P s)
    {instr : Instruction} {operand : Option Nat} (hfetch : P.instrs[m.pc]? = some (instr, operand))
    (hok : MachOKOnL fo S Inv P fuel m instr operand) :
    StepSimOn fo host S Inv P fuel (fullHandlers fo S fuel cast) s m := by
  obtain ⟨hcov, hok⟩ := hok
  by_cases hml : instr = .makeList
  · subst hml
    exact refine_step_makeListL fo C.noList C.listPop fuel _ hsim hi hfetch hok
  · obtain ⟨X, Y, L₂⟩ := C.shadow
    exact refine_step_on_shadow fo L₂ HR fuel cast hsim hi hl hfetch (hcov.resolve_right hml) hok

end Garnish.Lemmas.Runtime.OnL
