/-
The parser's node array represents the elaborated program (1): intervals of an in-order numbered index tree, the shape
`validate_parse_tree` accepts, the equations of `go`.
-/
import Garnish.Lemmas.SourceRep
import Garnish.Lemmas.ParserB8
import Garnish.Lemmas.Tree
import Garnish.Lemmas.CompileTreeV
namespace Garnish.Abs.Source
open Garnish Garnish.Gen Garnish.Spec Garnish.Abs Garnish.Abs.Tree Garnish.Model.Parser Garnish.Model.Literals

variable {F : Type}

/-! ### intervals -/

theorem split_range {l r : List Nat} {i lo hi : Nat} (h : l ++ i :: r = List.range' lo (hi - lo)) :
    lo ≤ i ∧ i < hi ∧ l = List.range' lo (i - lo) ∧ r = List.range' (i + 1) (hi - (i + 1)) := by
  have hlen : l.length + (r.length + 1) = hi - lo := by
    have := congrArg List.length h
    simpa using this
  have e : List.range' lo (hi - lo) = List.range' lo l.length ++ (lo + l.length) :: List.range' (lo + l.length + 1) r.length := by
    rw [← hlen, ← List.range'_append_1, Nat.add_comm r.length 1, ← List.range'_append_1]
    simp [List.range'_one, Nat.add_assoc]
  rw [e] at h
  have hl : l.length = (List.range' lo l.length).length := by simp
  obtain ⟨h1, h2⟩ := List.append_inj h hl
  simp only [List.cons.injEq] at h2
  have ha : i = lo + l.length := h2.1
  have h3 := h2.2
  clear h2 hl h e
  refine ⟨by omega, by omega, ?_, ?_⟩
  · rw [show i - lo = l.length by omega]; exact h1
  · rw [show hi - (i + 1) = r.length by omega, ha]; exact h3

theorem range_nil {lo n : Nat} (h : ([] : List Nat) = List.range' lo n) : n = 0 := by
  have := congrArg List.length h
  simpa using this.symm

/-! ### index trees -/

theorem isTreeAt_link_nil {nodes : Array ParseNode} {p link : Option Nat} (h : IsTreeAt nodes p link .nil) : link = none := by
  cases h; rfl

theorem isTreeAt_inv {nodes : Array ParseNode} {p link : Option Nat} {l r : Tree} {i k : Nat}
    (h : IsTreeAt nodes p link (.node l i k r)) :
    link = some i ∧ ∃ n, nodes[i]? = some n ∧ n.parent = p ∧ k = tokPos n ∧ IsTreeAt nodes (some i) n.left l ∧
      IsTreeAt nodes (some i) n.right r := by
  cases h with
  | node _ _ n _ _ h1 h2 h3 h4 => exact ⟨rfl, n, h1, h2, rfl, h3, h4⟩

def rootIdx : Spec.Tree → Nat
  | .node _ i _ _ => i
  | .nil => 0

/-- a bracket node has no left child -/
def bracketsOK (df : Nat → Definition) : Spec.Tree → Bool
  | .nil => true
  | .node l i _ r => (if isBracketDef (df i) then (match l with | .nil => true | _ => false) else true) &&
      bracketsOK df l && bracketsOK df r

theorem toRG_nil_iff (df : Nat → Definition) (t : Spec.Tree) : toRG df t = .nil ↔ t = .nil := by
  cases t with
  | nil => simp [toRG]
  | node l i k r => simp only [toRG]; split <;> simp

theorem dfOf_get {nodes : Array ParseNode} {i : Nat} {n : ParseNode} (h : nodes[i]? = some n) : dfOf nodes i = n.definition := by
  simp [dfOf, h]

theorem rootDef_toRG {nodes : Array ParseNode} {l r : Spec.Tree} {i k : Nat} {n : ParseNode} (h : nodes[i]? = some n) :
    rootDef (toRG (dfOf nodes) (.node l i k r)) = some n.definition := by
  simp only [toRG, dfOf_get h]
  split <;> rfl

theorem treeRT_eq (nodes : Array ParseNode) : ∀ t : Spec.Tree, treeRT nodes t = toRG (dfOf nodes) t
  | .nil => rfl
  | .node l i k r => by
    simp only [treeRT, toRG, treeRT_eq nodes l, treeRT_eq nodes r]
    rfl

/-- the shape `validate_parse_tree` accepts, from the parent links of the index tree and the in-order numbering -/
theorem shape_of_tree {nodes : Array ParseNode} : ∀ (t : Spec.Tree) (p : Option Nat) (link : Option Nat) (lo hi : Nat),
    t ≠ .nil → IsTreeAt nodes p link t → t.inorder = List.range' lo (hi - lo) → Shape nodes lo hi (rootIdx t)
  | .nil, _, _, _, _, h, _, _ => absurd rfl h
  | .node l i k r, p, link, lo, hi, _, ht, hin => by
    obtain ⟨_, n, hn, _, _, hl, hr⟩ := isTreeAt_inv ht
    simp only [Spec.Tree.inorder] at hin
    obtain ⟨h1, h2, h3, h4⟩ := split_range hin
    simp only [rootIdx]
    cases l with
    | nil =>
      have hlo : lo = i := by
        simp only [Spec.Tree.inorder] at h3
        have := range_nil h3; omega
      subst hlo
      have hnl := isTreeAt_link_nil hl
      cases r with
      | nil =>
        have hhi : hi = lo + 1 := by
          simp only [Spec.Tree.inorder] at h4
          have := range_nil h4; omega
        subst hhi
        exact Shape.leaf hn hnl (isTreeAt_link_nil hr)
      | node rl ri rk rr =>
        obtain ⟨hrl, nr, hnr, hpr, _⟩ := isTreeAt_inv hr
        exact Shape.right hn hnl hrl ⟨nr, hnr, hpr⟩ (shape_of_tree (.node rl ri rk rr) _ _ _ _ (by simp) hr h4)
    | node ll li lk lr =>
      obtain ⟨hll, nl, hnl, hpl, _⟩ := isTreeAt_inv hl
      have sl := shape_of_tree (.node ll li lk lr) _ _ _ _ (by simp) hl h3
      cases r with
      | nil =>
        have hhi : hi = i + 1 := by
          simp only [Spec.Tree.inorder] at h4
          have := range_nil h4; omega
        subst hhi
        exact Shape.left hn hll (isTreeAt_link_nil hr) ⟨nl, hnl, hpl⟩ sl
      | node rl ri rk rr =>
        obtain ⟨hrl, nr, hnr, hpr, _⟩ := isTreeAt_inv hr
        exact Shape.both hn hll hrl ⟨nl, hnl, hpl⟩ ⟨nr, hnr, hpr⟩ sl
          (shape_of_tree (.node rl ri rk rr) _ _ _ _ (by simp) hr h4)

/-! ### the equations of `go` -/

variable (pf : List Char → Option F) (κ : Nat → Nat) (toks : List PToken)

theorem go_leaf (d : Definition) (k : Nat) :
    go pf κ toks (.node .nil d k .nil) = (leafE pf d (textAt toks k)).map (fun e => plain e []) := by
  simp [go]

/-- a `SideEffect` node without left child -/
def isSideNode : RTree → Bool
  | .node .nil d _ _ => d == .sideEffect
  | _ => false

theorem go_pre (d : Definition) (k : Nat) (r : RTree) (hr : r ≠ .nil) (hs : isSideNode r = false) :
    go pf κ toks (.node .nil d k r) = (go pf κ toks r).bind (preE d (textAt toks k)) := by
  cases r with
  | nil => exact absurd rfl hr
  | node l d2 k2 body =>
    cases l with
    | nil =>
      simp only [isSideNode] at hs
      rw [go.eq_5]
      simp only [hs, Bool.false_eq_true, if_false]
      cases go pf κ toks (.node .nil d2 k2 body) <;> rfl
    | node _ _ _ _ =>
      rw [go.eq_6 _ _ _ _ _ _ (by simp) (by simp)]
      cases go pf κ toks _ <;> rfl
    | group _ _ _ =>
      rw [go.eq_6 _ _ _ _ _ _ (by simp) (by simp)]
      cases go pf κ toks _ <;> rfl
  | group _ _ _ =>
    rw [go.eq_6 _ _ _ _ _ _ (by simp) (by simp)]
    cases go pf κ toks _ <;> rfl

theorem go_side (d : Definition) (k k2 : Nat) (body : RTree) :
    go pf κ toks (.node .nil d k (.node .nil .sideEffect k2 body)) =
      (leafE pf d (textAt toks k)).bind (fun e => (go pf κ toks body).bind (fun x => some (plain (.sideAfter e x.e) x.bodies))) := by
  rw [go.eq_5]
  simp only [beq_self_eq_true, if_true]
  cases leafE pf d (textAt toks k) <;> cases go pf κ toks body <;> rfl

theorem go_suf (d : Definition) (k : Nat) (l : RTree) (hl : l ≠ .nil) :
    go pf κ toks (.node l d k .nil) = (go pf κ toks l).bind (sufE d (textAt toks k)) := by
  rw [go.eq_7 _ _ _ _ _ _ hl]
  cases go pf κ toks l <;> rfl

theorem go_bin (d : Definition) (k : Nat) (l r : RTree) (hl : l ≠ .nil) (hr : r ≠ .nil) :
    go pf κ toks (.node l d k r) = (go pf κ toks l).bind (fun a => (go pf κ toks r).bind (fun b =>
      binE d (textAt toks k) (rootIs l d) (rootIs r d) (rootCond l) (rootCond r) (isJumpIf r) a b)) := by
  rw [go.eq_8 _ _ _ _ _ _ _ (fun h _ => hl h) (fun _ _ _ h _ => hl h) hl hr]
  cases go pf κ toks l <;> cases go pf κ toks r <;> rfl

theorem go_group (k : Nat) (inner : RTree) :
    go pf κ toks (.group .group k inner) = (go pf κ toks inner).bind (fun x => some (plain x.e x.bodies)) := by
  cases inner with
  | nil => rw [go.eq_2]; simp [go]
  | node _ _ _ _ => rw [go.eq_3 _ _ _ _ _ _ (by simp)]; simp only [beq_self_eq_true, if_true]; split <;> simp_all
  | group _ _ _ => rw [go.eq_3 _ _ _ _ _ _ (by simp)]; simp only [beq_self_eq_true, if_true]; split <;> simp_all

theorem go_enested (k : Nat) : go pf κ toks (.group .nestedExpression k .nil) = some (plain .emptyNested []) := by
  rw [go.eq_2]; simp

theorem go_nested (k : Nat) (inner : RTree) (h : inner ≠ .nil) :
    go pf κ toks (.group .nestedExpression k inner) =
      (go pf κ toks inner).bind (fun x => some (plain (.nested (κ k)) ((κ k, x.e) :: x.bodies))) := by
  rw [go.eq_3 _ _ _ _ _ _ h]
  simp only [show (Definition.nestedExpression == Definition.group) = false from rfl, beq_self_eq_true, if_true]
  cases go pf κ toks inner <;> simp

end Garnish.Abs.Source
