/-
Lemmas/RuntimeStep7.lean over `StoreLawsOn`: `apply_internal` against `applyStep` (`ApplyDomainOn`), `Apply`, `EmptyApply`.
-/
import Garnish.Lemmas.RuntimeOnApply4
import Garnish.Lemmas.RuntimeStep7
set_option linter.unusedSimpArgs false
set_option linter.unusedVariables false
namespace Garnish.Lemmas.Runtime.On
open Garnish Gen Garnish.Abs Garnish.Model.Equality Garnish.Model.Runtime Garnish.Lemmas.Runtime
open Garnish.Props.RuntimeRefine

variable {F σ : Type} {S : RStore F σ} {Inv : σ → Prop} {Rd : σ → Nat → Prop} {P : Prog F} {host : Host F}
  (fo : FloatOps F)

/-- what the relativised contract adds to `ApplyDomain`, arm by arm: values that end on a stack are not `custom`; a
symbol look-up into a list needs `ListSymOn`; the concatenation `input <> argument` of a partial application has no
slice operand -/
def ApplyDomainOn (S : RStore F σ) (Inv : σ → Prop) (ur : Bool) (vl vr : Val F) : Prop :=
  match applyArm vl.typeOf vr.typeOf with
  | .accInt => ∀ i, vr = .num (.int i) → ∀ v, accessInt fo (.int i) vl = .some v → v ≠ .custom
  | .accSym => ((∀ vs, vl ≠ .list vs) ∨ ListSymOn S Inv) ∧ ∀ y, vr = .sym y → ∀ v, accessSym y vl = .some v → v ≠ .custom
  | .path => ∀ items ps, vl = .list items → vr = .symList ps → PathOn fo S Inv ps (.list items) ∧
      ∀ v, accessPath fo ps (.list items) = .some v → v ≠ .custom
  | .expression => vr ≠ .custom
  | .partial_ => ∀ j input, vl = .part (.expr j) input → (if ur then Val.concat input vr else input) ≠ .custom ∧
      (ur = true → (∀ x y, input ≠ .slice x y) ∧ (∀ x y, vr ≠ .slice x y))
  | _ => True

/-- entering an expression simulates the `.enter` arm of `applyStep` -/
theorem enter_sim {s : σ} {m0 : MState F} (hpc : S.cursor s = m0.pc) {rest : List Nat}
    (hrest : DecodesList (S.view s) rest m0.regs) (hvals : DecodesList (S.view s) (S.vals s) m0.vals)
    (hfr : FramesRel (S.view s) (S.frames s) m0.frames)
    (hprog : (∀ i, S.instruction s i = P.instrs[i]?) ∧ (∀ j, S.jumpTable s j = P.jumps[j]?) ∧
      S.instrLen s = P.instrs.size)
    {instr : Instruction} {ur : Bool} {vl vr input : Val F} {j : Nat} {res : Outcome (Option Nat × σ)}
    (hk : applyKind fo instr ur vl vr = .enter j input) (hent : EnteredI S Inv s res rest j input) :
    HandlerSimOn S Inv P s res (applyStep fo host P m0 instr ur vl vr) := by
  unfold applyStep
  rw [hk]
  simp only []
  unfold EnteredI at hent
  rw [hprog.2.1] at hent
  cases hj : P.jumps[j]? with
  | none => simp [jumpTarget, hj]; trivial
  | some t =>
    rw [hj] at hent
    obtain ⟨ia, s1, h1, dia, e1⟩ := hent
    have : jumpTarget P j = .ok t := by simp [jumpTarget, hj]
    rw [this]
    refine ⟨some t, s1, h1, rfl, e1.keeps.cur, ?_, e1.keeps.dec, e1.inv⟩
    exact ⟨e1.regs ▸ decodesList_keeps e1.keeps hrest,
      e1.vals ▸ .cons dia (decodesList_keeps e1.keeps hvals),
      e1.frames ▸ .cons (by simp [hpc]) (decodesList_keeps e1.keeps hrest) (framesRel_keeps e1.keeps hfr),
      fun i => by rw [e1.keeps.instr]; exact hprog.1 i,
      fun j => by rw [e1.keeps.jump]; exact hprog.2.1 j,
      by rw [e1.keeps.ilen]; exact hprog.2.2⟩

/-- `apply_internal` against Abs/Machine `applyStep`, from a state whose two top registers are the operands -/
theorem applyInternal_sim (L : StoreLawsOn S Inv Rd) (HR : HostRefinesI S Inv host) (fuel : Nat) (instr : Instruction) (ur : Bool)
    {s : σ} {m0 : MState F} (hpc : S.cursor s = m0.pc)
    {r l : Nat} {rest : List Nat} {vr vl : Val F} (hregs : S.regs s = r :: l :: rest)
    (dl : Decodes (S.view s) l vl) (dr : Decodes (S.view s) r vr)
    (hrest : DecodesList (S.view s) rest m0.regs) (hvals : DecodesList (S.view s) (S.vals s) m0.vals)
    (hfr : FramesRel (S.view s) (S.frames s) m0.frames)
    (hprog : (∀ i, S.instruction s i = P.instrs[i]?) ∧ (∀ j, S.jumpTable s j = P.jumps[j]?) ∧
      S.instrLen s = P.instrs.size)
    (hdom : ApplyDomain fo fuel vl vr) (hdomOn : ApplyDomainOn fo S Inv ur vl vr)
    (hinv : Inv s := by inv_tac) (hdp : Deep S s rest := by deep_tac) :
    HandlerSimOn S Inv P s (applyInternal fo S fuel instr ur s) (applyStep fo host P m0 instr ur vl vr) := by
  have outArm : ∀ o, applyKind fo instr ur vl vr = .out o →
      RefinesOutI S Inv s (applyInternal fo S fuel instr ur s) (some (S.cursor s + 1)) rest l r o →
      (∀ op a b, o = .defer op a b → a = vl ∧ b = vr) →
      HandlerSimOn S Inv P s (applyInternal fo S fuel instr ur s) (applyStep fo host P m0 instr ur vl vr) := by
    intro o hk href hdef
    rw [applyStep_out fo m0 instr ur vl vr o hk]
    exact handlerSim_of_refines (m := m0) HR hpc hrest hvals hfr hprog (by simp [hpc]) href
      (fun op a b ho => by obtain ⟨rfl, rfl⟩ := hdef op a b ho; exact ⟨dl, Or.inl dr⟩)
  obtain ⟨iexp, iext, ipart, inar, isn, iint, isym, ipath⟩ := applyArm_inv vl.typeOf vr.typeOf
  unfold ApplyDomain at hdom
  unfold ApplyDomainOn at hdomOn
  cases harm : applyArm vl.typeOf vr.typeOf <;> rw [harm] at hdom hdomOn
  case defer =>
    have hk := applyKind_defer fo instr ur vl vr harm
    have href := apply_defer_spec fo L fuel instr ur hregs dl dr harm
    exact outArm _ hk href (fun op a b h => by cases h; exact ⟨rfl, rfl⟩)
  case merge =>
    obtain ⟨v, hk, href⟩ := apply_merge_spec fo L fuel instr ur hregs dl dr harm
    exact outArm _ hk href (fun op a b h => by cases h)
  case mkSlice =>
    obtain ⟨hk, href⟩ := apply_mkSlice_spec fo L fuel instr ur hregs dl dr harm
    exact outArm _ hk href (fun op a b h => by cases h)
  case narrow =>
    obtain ⟨h1, h2⟩ := inar harm
    obtain ⟨os, oe, rfl⟩ := typeOf_inv_range h1
    obtain ⟨bs, be, rfl⟩ := typeOf_inv_range h2
    have href := apply_narrow_spec fo L fuel instr ur hregs dl dr
    refine outArm _ (by simp only [applyKind]; cases Abs.narrowRange fo (.range os oe) (.range bs be) <;> rfl) href ?_
    intro op a b h
    cases hx : Abs.narrowRange fo (.range os oe) (.range bs be) <;> rw [hx] at h <;> cases h
  case sliceNarrow =>
    obtain ⟨h1, h2⟩ := isn harm
    obtain ⟨v, sr, rfl⟩ := typeOf_inv_slice h1
    obtain ⟨bs, be, rfl⟩ := typeOf_inv_range h2
    obtain ⟨os, oe, rfl⟩ := hdom v sr rfl
    have href := apply_sliceNarrow_spec fo L fuel instr ur hregs dl dr
    refine outArm _ (by simp only [applyKind]; cases Abs.narrowRange fo (.range os oe) (.range bs be) <;> rfl) href ?_
    intro op a b h
    cases hx : Abs.narrowRange fo (.range os oe) (.range bs be) <;> rw [hx] at h <;> cases h
  case accInt =>
    obtain ⟨hd, i, rfl⟩ := hdom
    obtain ⟨hk, href⟩ := apply_accInt_spec fo L fuel instr ur hregs dl dr harm hd (hdomOn i rfl)
    exact outArm _ hk href (fun op a b h => absurd h (accOut_not_defer _ op a b))
  case accSym =>
    obtain ⟨y, rfl⟩ := typeOf_inv_sym (isym harm)
    obtain ⟨hk, href⟩ := apply_accSym_spec fo L fuel instr ur hregs dl dr harm hdom hdomOn.1 (hdomOn.2 y rfl)
    exact outArm _ hk href (fun op a b h => absurd h (accOut_not_defer _ op a b))
  case path =>
    obtain ⟨h1, h2⟩ := ipath harm
    obtain ⟨items, rfl⟩ := typeOf_list h1
    obtain ⟨ps, rfl⟩ := typeOf_inv_symList h2
    obtain ⟨hk, href⟩ := apply_path_spec fo L fuel instr ur hregs dl dr (hdom items ps rfl rfl)
      (hdomOn items ps rfl rfl).1 (hdomOn items ps rfl rfl).2
    exact outArm _ hk href (fun op a b h => absurd h (accOut_not_defer _ op a b))
  case external =>
    obtain ⟨n, rfl⟩ := typeOf_inv_ext (iext harm)
    have hk : applyKind fo instr ur (.ext n) vr = .external n vr := rfl
    obtain ⟨s0, e0, hprot⟩ := apply_external_spec fo L fuel instr ur hregs dl dr
    have hrest0 := decodesList_keeps e0.keeps hrest
    have hvals0 := decodesList_keeps e0.keeps hvals
    have hfr0 := framesRel_keeps e0.keeps hfr
    have ha := HR.apply n r vr s0 e0.inv (e0.dec dr)
    unfold HostAnswerI at ha
    unfold ApplyProtocolI at hprot
    unfold applyStep
    rw [hk]
    simp only []
    cases hh : host.apply n vr with
    | some v =>
      rw [hh] at ha
      obtain ⟨a, s1, h1, d1, he⟩ := ha
      rw [h1] at hprot
      simp only [] at hprot ⊢
      refine ⟨some (S.cursor s + 1), s1, hprot, by simp [hpc], he.keeps.cur.trans e0.keeps.cur, ?_,
        (e0.keeps.trans he.keeps).dec, he.inv⟩
      exact ⟨he.regs ▸ e0.regs ▸ .cons d1 (decodesList_keeps he.keeps hrest0),
        he.vals ▸ e0.vals ▸ decodesList_keeps he.keeps hvals0,
        he.frames ▸ e0.frames ▸ framesRel_keeps he.keeps hfr0,
        fun i => by rw [he.keeps.instr, e0.keeps.instr]; exact hprog.1 i,
        fun j => by rw [he.keeps.jump, e0.keeps.jump]; exact hprog.2.1 j,
        by rw [he.keeps.ilen, e0.keeps.ilen]; exact hprog.2.2⟩
    | none =>
      rw [hh] at ha
      obtain ⟨s1, h1, he⟩ := ha
      rw [h1] at hprot
      simp only [] at hprot ⊢
      obtain ⟨u, s2, h2, d2, e2⟩ := hprot he.inv
      have k12 := he.keeps.trans e2.keeps
      refine ⟨some (S.cursor s + 1), s2, h2, by simp [hpc],
        e2.keeps.cur.trans (he.keeps.cur.trans e0.keeps.cur), ?_, (e0.keeps.trans k12).dec, e2.inv⟩
      exact ⟨e2.regs ▸ he.regs ▸ e0.regs ▸ .cons d2 (decodesList_keeps k12 hrest0),
        e2.vals ▸ he.vals ▸ e0.vals ▸ decodesList_keeps k12 hvals0,
        e2.frames ▸ he.frames ▸ e0.frames ▸ framesRel_keeps k12 hfr0,
        fun i => by rw [e2.keeps.instr, he.keeps.instr, e0.keeps.instr]; exact hprog.1 i,
        fun j => by rw [e2.keeps.jump, he.keeps.jump, e0.keeps.jump]; exact hprog.2.1 j,
        by rw [e2.keeps.ilen, he.keeps.ilen, e0.keeps.ilen]; exact hprog.2.2⟩
  case expression =>
    obtain ⟨j, rfl⟩ := typeOf_inv_expr (iexp harm)
    have hk : applyKind fo instr ur (.expr j) vr = .enter j vr := rfl
    have hent := apply_expression_spec fo L fuel instr ur hregs dl dr hdomOn
    exact enter_sim fo hpc hrest hvals hfr hprog hk hent
  case partial_ =>
    obtain ⟨f, x, rfl⟩ := typeOf_inv_part (ipart harm)
    by_cases hfe : f.typeOf = .expression
    · obtain ⟨j, rfl⟩ := typeOf_inv_expr hfe
      have hk : applyKind fo instr ur (.part (.expr j) x) vr = .enter j (if ur then .concat x vr else x) := rfl
      have hent := apply_partial_expression_spec fo L fuel instr ur hregs dl dr (hdomOn j x rfl).1 (hdomOn j x rfl).2
      exact enter_sim fo hpc hrest hvals hfr hprog hk hent
    · obtain ⟨hk, href⟩ := apply_partial_other_spec fo L fuel instr ur hregs dl dr hfe
      exact outArm _ hk href (fun op a b h => by cases h)

/-- `Apply` -/
theorem stepSim_apply (L : StoreLawsOn S Inv Rd) (HR : HostRefinesI S Inv host) (fuel : Nat) (H : OtherHandlers σ)
    {s : σ} {m : MState F} (hsim : Sim S P s m) {operand : Option Nat}
    (hfetch : P.instrs[m.pc]? = some (.apply, operand)) {vr vl : Val F} {rs : List (Val F)}
    (hregs : m.regs = vr :: vl :: rs) (hdom : ApplyDomain fo fuel vl vr)
    (hdomOn : ApplyDomainOn fo S Inv true vl vr) (hi : Inv s) (hm : MDeep m rs) :
    StepSimOn fo host S Inv P fuel H s m := by
  obtain ⟨hpc, hd⟩ := hsim
  have hdr := hd.regs
  rw [hregs] at hdr
  obtain ⟨r, as1, e1, dr, t1⟩ := decodesList_cons_inv hdr
  obtain ⟨l, rest, e2, dl, t2⟩ := decodesList_cons_inv t1
  subst e2
  refine stepSim_of fo L fuel H ⟨hpc, hd⟩ hfetch
    (r := applyStep fo host P { m with regs := rs } .apply true vl vr)
    (by unfold Abs.step; rw [hfetch]; simp only [hregs]) ?_
  exact applyInternal_sim fo L HR fuel .apply true (m0 := { m with regs := rs }) hpc e1 dl dr t2 hd.vals hd.frames
    ⟨hd.instrs, hd.jumps, hd.ilen⟩ hdom hdomOn hi (deep_of_sim hd t2 hm)

/-- `EmptyApply`: the left operand applied to a fresh unit -/
theorem stepSim_emptyApply (L : StoreLawsOn S Inv Rd) (HR : HostRefinesI S Inv host) (fuel : Nat) (H : OtherHandlers σ)
    {s : σ} {m : MState F} (hsim : Sim S P s m) {operand : Option Nat}
    (hfetch : P.instrs[m.pc]? = some (.emptyApply, operand)) {vl : Val F} {rs : List (Val F)}
    (hregs : m.regs = vl :: rs) (hdom : ApplyDomain fo fuel vl .unit)
    (hdomOn : ApplyDomainOn fo S Inv false vl .unit) (hi : Inv s) (hm : MDeep m rs) :
    StepSimOn fo host S Inv P fuel H s m := by
  obtain ⟨hpc, hd⟩ := hsim
  have hdr := hd.regs
  rw [hregs] at hdr
  obtain ⟨l, rest, e1, dl, t1⟩ := decodesList_cons_inv hdr
  obtain ⟨u, s1, h1u, du, eu⟩ := pushUnit_spec L s
  have heq : emptyApply fo S fuel s = applyInternal fo S fuel .emptyApply false s1 := by rw [emptyApply, bind_ok h1u]
  rw [e1] at eu
  refine stepSim_of fo L fuel H ⟨hpc, hd⟩ hfetch
    (r := applyStep fo host P { m with regs := rs } .emptyApply false vl .unit)
    (by unfold Abs.step; rw [hfetch]; simp only [hregs]) ?_
  have hs1 := applyInternal_sim fo L HR fuel .emptyApply false (m0 := { m with regs := rs })
    (s := s1) (by rw [eu.keeps.cur]; exact hpc) eu.regs (eu.dec dl) du (Sim.tail eu t1)
    (eu.vals ▸ Sim.tail eu hd.vals) (eu.frames ▸ framesRel_keeps eu.keeps hd.frames)
    ⟨fun i => by rw [eu.keeps.instr]; exact hd.instrs i, fun j => by rw [eu.keeps.jump]; exact hd.jumps j,
      by rw [eu.keeps.ilen]; exact hd.ilen⟩ hdom hdomOn eu.inv (eu.deep (deep_of_sim hd t1 hm))
  show HandlerSimOn S Inv P s (emptyApply fo S fuel s) _
  rw [heq]
  cases hr : applyStep fo host P { m with regs := rs } .emptyApply false vl .unit with
  | error e => trivial
  | ok p =>
    rw [hr] at hs1
    obtain ⟨md, n⟩ := p
    obtain ⟨next, s2, h2, hn, hc, hd2, hk2, i2⟩ := hs1
    exact ⟨next, s2, h2, by rw [← eu.keeps.cur]; exact hn, hc.trans eu.keeps.cur, hd2,
      fun a v h => hk2 a v (eu.dec h), i2⟩


end Garnish.Lemmas.Runtime.On
