/-
Lemmas/NoCustom6.lean parametrised: `step_her` — one step of Abs/Machine keeps `HerState q`, every instruction.
-/
import Garnish.Lemmas.Her5
set_option linter.unusedSimpArgs false
set_option linter.unusedVariables false
set_option linter.unusedSectionVars false
namespace Garnish.Lemmas.Her
open Garnish Gen Garnish.Abs

variable {F : Type} {q : Val F → Bool} [hq : LeafOK q] {fo : FloatOps F} {host : Host F} {P : Prog F}

theorem err_to {e : ErrClass} {s' : MState F} (h : StepTo (.err e : StepRes F) s') : False := by
  rcases h with h | h <;> cases h

theorem head_her {x : Val F} {xs ys : List (Val F)} (h : herL q ys = true) (he : ys = x :: xs) :
    her q x = true ∧ herL q xs = true := by
  subst he; simpa [herL] using h

/-- **one machine step keeps the state custom-free** (custom-free constants, a host that never answers with `custom`) -/
theorem step_her (HN : HostHer q host) (hc : ConstsHer q P) {s s' : MState F} (hs : HerState q s)
    (h : StepTo (Abs.step fo host P s) s') : HerState q s' := by
  unfold Abs.step at h
  cases hi : P.instrs[s.pc]? with
  | none =>
    rw [hi] at h
    rcases h with h | h <;> cases h
    exact hs
  | some p =>
    obtain ⟨instr, operand⟩ := p
    rw [hi] at h
    simp only [] at h
    have keep : ∀ {regs vals : List (Val F)}, herL q regs = true → herL q vals = true →
        HerState q ({ s with regs := regs, vals := vals } : MState F) := fun hr hv => ⟨hr, hv, hs.frames⟩
    cases instr <;> simp only [] at h
    case invalid => exact seqNext_her (fun s1 h1 => by cases h1; exact hs) h
    case put =>
      split at h
      · exact (err_to h).elim
      · rename_i k
        split at h
        · rename_i v hk
          exact seqNext_her (fun s1 h1 => by cases h1; exact keep (herL_cons (hc k v hk) hs.regs) hs.vals) h
        · exact (err_to h).elim
    case putValue =>
      split at h
      · exact seqNext_her (fun s1 h1 => by cases h1; exact keep (herL_cons her_unit hs.regs) hs.vals) h
      · rename_i v vs hv
        exact seqNext_her (fun s1 h1 => by cases h1; exact keep (herL_cons (head_her hs.vals hv).1 hs.regs) hs.vals) h
    case pushValue =>
      split at h
      · exact (err_to h).elim
      · rename_i r rs hr
        obtain ⟨h1, h2⟩ := head_her hs.regs hr
        exact seqNext_her (fun s1 hh => by cases hh; exact keep h2 (herL_cons h1 hs.vals)) h
    case updateValue =>
      split at h
      · exact (err_to h).elim
      · rename_i r rs hr
        obtain ⟨h1, h2⟩ := head_her hs.regs hr
        split at h
        · exact (err_to h).elim
        · rename_i x vs hv
          exact seqNext_her (fun s1 hh => by cases hh; exact keep h2 (herL_cons h1 (head_her hs.vals hv).2)) h
    case startSideEffect =>
      split at h
      · exact seqNext_her (fun s1 hh => by cases hh; exact keep hs.regs (herL_cons her_unit rfl)) h
      · rename_i v vs hv
        obtain ⟨h1, h2⟩ := head_her hs.vals hv
        exact seqNext_her (fun s1 hh => by cases hh; exact keep hs.regs (herL_cons h1 (herL_cons h1 h2))) h
    case endSideEffect =>
      split at h
      · exact (err_to h).elim
      · rename_i x vs hv
        split at h
        · exact (err_to h).elim
        · rename_i r rs hr
          exact seqNext_her (fun s1 hh => by cases hh; exact keep (head_her hs.regs hr).2 (head_her hs.vals hv).2) h
    case jumpTo =>
      split at h
      · exact (err_to h).elim
      · refine finishE_her (fun s1 n hh => ?_) h
        cases hj : jumpTarget P _ with
        | error e => rw [hj] at hh; cases hh
        | ok t => rw [hj] at hh; cases hh; exact hs
    case jumpIfTrue =>
      split at h
      · exact (err_to h).elim
      · split at h
        · exact (err_to h).elim
        · split at h
          · exact (err_to h).elim
          · rename_i d rs hr
            exact finish_her (keep (head_her hs.regs hr).2 hs.vals) h
    case jumpIfFalse =>
      split at h
      · exact (err_to h).elim
      · split at h
        · exact (err_to h).elim
        · split at h
          · exact (err_to h).elim
          · rename_i d rs hr
            exact finish_her (keep (head_her hs.regs hr).2 hs.vals) h
    case and =>
      split at h
      · exact (err_to h).elim
      · split at h
        · exact (err_to h).elim
        · rename_i d rs hr
          obtain ⟨h1, h2⟩ := head_her hs.regs hr
          split at h
          · refine finishE_her (fun s1 n hh => ?_) h
            cases hj : jumpTarget P _ with
            | error e => rw [hj] at hh; cases hh
            | ok t => rw [hj] at hh; cases hh; exact keep h2 hs.vals
          · exact seqNext_her (fun s1 hh => by cases hh; exact keep (herL_cons her_fls h2) hs.vals) h
    case or =>
      split at h
      · exact (err_to h).elim
      · split at h
        · exact (err_to h).elim
        · rename_i d rs hr
          obtain ⟨h1, h2⟩ := head_her hs.regs hr
          split at h
          · exact seqNext_her (fun s1 hh => by cases hh; exact keep (herL_cons her_tru h2) hs.vals) h
          · refine finishE_her (fun s1 n hh => ?_) h
            cases hj : jumpTarget P _ with
            | error e => rw [hj] at hh; cases hh
            | ok t => rw [hj] at hh; cases hh; exact keep h2 hs.vals
    case endExpression =>
      split at h
      · exact (err_to h).elim
      · rename_i r rs hr
        obtain ⟨h1, h2⟩ := head_her hs.regs hr
        split at h
        · split at h
          · exact (err_to h).elim
          · rename_i x vs hv
            rcases h with h | h <;> cases h
            exact ⟨h2, herL_cons h1 (head_her hs.vals hv).2, hs.frames⟩
        · rename_i fr frs hf
          refine finish_her ⟨herL_cons h1 (hs.frames fr (by rw [hf]; exact List.mem_cons_self ..)), herL_tail hs.vals,
            fun f hfm => hs.frames f (by rw [hf]; exact List.mem_cons_of_mem _ hfm)⟩ h
    case apply =>
      split at h
      · rename_i r l rs hr
        obtain ⟨h1, h23⟩ := head_her hs.regs hr
        obtain ⟨h2, h3⟩ := head_her h23 rfl
        exact finishE_her (fun s1 n hh => applyStep_her HN (keep h3 hs.vals) h2 h1 hh) h
      · exact (err_to h).elim
    case emptyApply =>
      split at h
      · rename_i l rs hr
        obtain ⟨h1, h2⟩ := head_her hs.regs hr
        exact finishE_her (fun s1 n hh => applyStep_her HN (keep h2 hs.vals) h1 her_unit hh) h
      · exact (err_to h).elim
    case reapply =>
      split at h
      · exact (err_to h).elim
      · split at h
        · exact (err_to h).elim
        · rename_i v rs hr
          obtain ⟨h1, h2⟩ := head_her hs.regs hr
          split at h
          · exact (err_to h).elim
          · split at h
            · exact (err_to h).elim
            · rename_i x vs hv
              exact finish_her (keep h2 (herL_cons h1 (head_her hs.vals hv).2)) h
    case makeList =>
      split at h
      · exact (err_to h).elim
      · split at h
        · exact (err_to h).elim
        · rename_i n _
          refine seqNext_her (fun s1 hh => ?_) h
          cases hh
          refine keep (herL_cons ?_ (herL_drop hs.regs n)) hs.vals
          show herL q _ = true
          exact herL_reverse (herL_take hs.regs n)
    case resolve =>
      split at h
      · exact (err_to h).elim
      · split at h
        · exact (err_to h).elim
        · exact seqNext_her (fun s1 hh => resolveStep_her HN hs hh) h
    case makePair =>
      split at h
      · rename_i l r rs hr
        obtain ⟨h1, h23⟩ := head_her hs.regs hr
        obtain ⟨h2, h3⟩ := head_her h23 rfl
        refine seqNext_her (fun s1 hh => ?_) h
        cases hh
        refine keep (herL_cons ?_ h3) hs.vals
        show (her q l && her q r) = true
        rw [h1, h2]; fresh
      · exact (err_to h).elim
    case applyType => exact (err_to h).elim
    all_goals
      split at h
      · exact (err_to h).elim
      · rename_i top rest hr
        obtain ⟨h1, h2⟩ := head_her hs.regs hr
        split at h
        · rename_i o ho
          exact seqNext_her (fun s1 hh => pushOut_her HN (keep h2 hs.vals) (outHer_unaryOp fo h1 ho) hh) h
        · split at h
          · exact (err_to h).elim
          · rename_i l rs
            obtain ⟨h3, h4⟩ := head_her h2 rfl
            split at h
            · rename_i o ho
              exact seqNext_her (fun s1 hh => pushOut_her HN (keep h4 hs.vals) (outHer_binaryOp fo h3 h1 ho) hh) h
            · exact (err_to h).elim

end Garnish.Lemmas.Her
