/-
Lexing of SPELLED literals, part 4 (C14, lexer side): the first characters (`starts_*`), the character-class facts the
spellings need (`CharClass.Lit`), and `TokSpelling` for
  numbers        a digit `0-9` followed by digits, letters and `_`                (`tokSpelling_number`)
  symbols        `:` followed by identifier characters, the first not `:`          (`tokSpelling_symbol`)
  operators      every spelling of the operator table                              (`tokSpelling_operator`)
  quoted texts   `k+1` quotes, a body without that quote, `k+1` quotes — `k ≠ 1`, and a non-empty body unless `k = 0`
                 (`tokSpelling_quoted`, stated once for both kinds of quote; instances in LexSpell5)
-/
import Garnish.Lemmas.LexSpell3
import Garnish.Spec.Spell
set_option linter.unusedSimpArgs false
set_option linter.unusedVariables false
namespace Garnish.Model.Lexer
open Garnish.Model Garnish.Model.Parser Garnish.Spec Garnish.Spec.Spell

/-- what the spellings need of the two Unicode predicates: ASCII digits are numeric, ASCII digits and lower-case
letters are numeric or alphanumeric, the two quotes are neither, the colon is not numeric; blanks, NUL, newline as in
`SaneBlank` -/
structure CharClass.Lit (cc : CharClass) : Prop extends cc.SaneBlank where
  digitN : ∀ d, d < 10 → cc.isNumeric (digitChar d) = true
  digitA : ∀ d, d < 36 → (cc.isNumeric (digitChar d) || cc.isAlphanumeric (digitChar d)) = true
  quoteN : cc.isNumeric '"' = false
  quoteA : cc.isAlphanumeric '"' = false
  aposN : cc.isNumeric '\'' = false
  aposA : cc.isAlphanumeric '\'' = false
  colonN : cc.isNumeric ':' = false

/-! ## first characters -/

theorem digitFacts : ∀ d, d < 10 → walkOperator theTree [digitChar d] = none ∧
    isAsciiWhitespace (digitChar d) = false ∧ digitChar d ≠ '\r' ∧ digitChar d ≠ ' ' ∧ digitChar d ≠ '\t' ∧
    digitChar d ≠ '\n' := by
  decide +kernel

theorem starts_digit (cc : CharClass) (hcc : cc.Lit) (d : Nat) (hd : d < 10) :
    Starts cc (digitChar d) .number (some .number) := by
  intro σ htr
  obtain ⟨hw, h2, g1, g2, g3, _⟩ := digitFacts d hd
  unfold startToken
  simp [currentOperator, push, htr, hw, g1, g2, g3, h2, hcc.digitN d hd]

theorem quoteFacts : walkOperator theTree ['"'] = none ∧ walkOperator theTree ['\''] = none ∧
    walkOperator theTree [':'] = none := by decide +kernel

theorem starts_quote (cc : CharClass) (hcc : cc.Lit) : Starts cc '"' .startCharList (some .charList) := by
  intro σ htr
  unfold startToken
  simp [currentOperator, push, htr, quoteFacts.1, isAsciiWhitespace, isIdentifierChar, hcc.quoteN, hcc.quoteA]

theorem starts_apos (cc : CharClass) (hcc : cc.Lit) : Starts cc '\'' .startByteList (some .byteList) := by
  intro σ htr
  unfold startToken
  simp [currentOperator, push, htr, quoteFacts.2.1, isAsciiWhitespace, isIdentifierChar, hcc.aposN, hcc.aposA]

theorem starts_colon (cc : CharClass) (hcc : cc.Lit) : Starts cc ':' .identifier (some .identifier) := by
  intro σ htr
  unfold startToken
  simp [currentOperator, push, htr, quoteFacts.2.2, isAsciiWhitespace, isIdentifierChar, hcc.colonN]

theorem starts_op (cc : CharClass) (x : Char) (n : LexerOperatorNode) (hw : walkOperator theTree [x] = some n) :
    Starts cc x .operator n.tokenType := by
  intro σ htr
  unfold startToken
  simp [currentOperator, push, htr, hw]

/-! ## numbers -/

theorem tokSpelling_number (cc : CharClass) (hcc : cc.Lit) (d : Nat) (hd : d < 10) (r : List Char)
    (hr : ∀ x ∈ r, (cc.isNumeric x || x == '_' || cc.isAlphanumeric x) = true) :
    TokSpelling cc (digitChar d :: r) .number := by
  obtain ⟨_, _, _, f1, f2, f3⟩ := digitFacts d hd
  refine TokSpelling.ofPending cc hcc.toSane (digitChar d) r .number .number (some .number) (some .number) .number
    (fun h => by rcases h with h | h; exact f1 h; exact f2 h) f3 (starts_digit cc hcc d hd) (by decide) (by decide)
    (ending_plain cc hcc.toSaneBlank .number .number _ (Or.inl rfl) (by decide)) ?_
  intro σ P toks h
  obtain ⟨σ', hr', hI⟩ := run_ind cc (fun cs p σ => At σ .number (some .number) cs P p 0 0 false)
    (fun _ x => (cc.isNumeric x || x == '_' || cc.isAlphanumeric x) = true) (fun _ _ _ h => h.ok)
    (fun cs p σ x h hx => step_of_arm cc σ x (arm_number cc _ x (h.lexed _) hx))
    r [digitChar d] (adv P (digitChar d)) σ toks h (fun u x v e => hr x (by simp [e]))
  exact ⟨σ', hr', 0, 0, by simpa [advs_cons] using hI⟩

/-! ## symbols -/

theorem tokSpelling_symbol (cc : CharClass) (hcc : cc.Lit) (name : List Char) (hn : name.head? ≠ some ':')
    (hid : ∀ x ∈ name, isIdentifierChar cc x = true) : TokSpelling cc (':' :: name) .symbol := by
  refine TokSpelling.ofPending cc hcc.toSane ':' name .identifier .identifier (some .identifier) (some .identifier) .symbol
    (by unfold IsBlank; decide) (by decide) (starts_colon cc hcc) (by decide) (by decide)
    (ending_symbol cc hcc.toSaneBlank name hn _) ?_
  intro σ P toks h
  obtain ⟨σ', hr', hI⟩ := run_ind cc (fun cs p σ => At σ .identifier (some .identifier) cs P p 0 0 false)
    (fun _ x => isIdentifierChar cc x = true) (fun _ _ _ h => h.ok)
    (fun cs p σ x h hx => step_of_arm cc σ x (arm_identifier cc _ x (h.lexed _) hx))
    name [':'] (adv P ':') σ toks h (fun u x v e => hid x (by simp [e]))
  exact ⟨σ', hr', 0, 0, by simpa [advs_cons] using hI⟩

/-! ## operators -/

theorem tableNoIdentifier : ∀ p ∈ Garnish.Gen.LexTables.operatorChars, p.2 ≠ Gen.TokenType.identifier := by decide

theorem tableNoEmpty : ∀ p ∈ Garnish.Gen.LexTables.operatorChars, p.1 ≠ [] := by decide

theorem tokSpelling_operator (cc : CharClass) (hcc : cc.Lit) (op : List Char) (oty : Gen.TokenType)
    (h : (op, oty) ∈ Garnish.Gen.LexTables.operatorChars) : TokSpelling cc op oty := by
  have hne : oty ≠ .identifier := tableNoIdentifier _ h
  have hrec := tableRecognised_true
  unfold tableRecognised at hrec
  rw [List.all_eq_true] at hrec
  have hw := hrec _ h
  cases hwf : walkOperator theTree op with
  | none => rw [hwf] at hw; cases hw
  | some nf =>
    rw [hwf] at hw
    have hty : nf.tokenType = some oty := by simpa using hw
    cases op with
    | nil =>
      -- the root has no type
      exfalso
      exact tableNoEmpty _ h rfl
    | cons x r =>
      obtain ⟨n1, hn1, _⟩ := walk_append [x] r theTree nf hwf
      have hxb : ¬ IsBlank x := by
        intro hb
        have := walk_ender_none [] x (ender_of_blank hb)
        rw [List.nil_append, hn1] at this; cases this
      have hxn : x ≠ '\n' := by
        intro e
        have := walk_newline_none []
        rw [List.nil_append, ← e, hn1] at this; cases this
      refine TokSpelling.ofPending cc hcc.toSane x r .operator .operator n1.tokenType (some oty) oty hxb hxn
        (starts_op cc x n1 hn1) (by decide) hne
        (ending_plain cc hcc.toSaneBlank .operator oty _ (Or.inr (Or.inr (Or.inr (Or.inr rfl)))) (by decide)) ?_
      intro σ P toks hA
      obtain ⟨σ', hr', n, hwn, hI⟩ := run_ind cc
        (fun cs p σ => ∃ n, walkOperator theTree cs = some n ∧ At σ .operator n.tokenType cs P p 0 0 false)
        (fun cs x => (walkOperator theTree (cs ++ [x])).isSome = true)
        (fun _ _ _ h => by obtain ⟨_, _, hA⟩ := h; exact hA.ok)
        (fun cs p σ x h hx => by
          obtain ⟨n, _, hA⟩ := h
          cases hw' : walkOperator theTree (cs ++ [x]) with
          | none => rw [hw'] at hx; cases hx
          | some n' =>
            obtain ⟨σ', hp, h'⟩ := step_of_arm cc σ x (arm_operator cc _ x n' (hA.lexed _) hw')
            exact ⟨σ', hp, n', rfl, h'⟩)
        r [x] (adv P x) σ toks ⟨n1, hn1, hA⟩
        (fun u y v e => by
          have e2 : x :: r = ([x] ++ u ++ [y]) ++ v := by simp [e]
          rw [e2] at hwf
          obtain ⟨m, hm, _⟩ := walk_append _ v theTree nf hwf
          rw [hm]; rfl)
      have : n = nf := by
        have e3 : [x] ++ r = x :: r := rfl
        rw [e3, hwf] at hwn
        exact (Option.some.inj hwn).symm
      subst this
      rw [hty] at hI
      exact ⟨σ', hr', 0, 0, by simpa [advs_cons] using hI⟩

/-! ## quoted texts, for both kinds of quote -/

theorem utf8Len_replicate (Q : Char) (hQ : Q.utf8Size = 1) : ∀ n, utf8Len (List.replicate n Q) = n
  | 0 => rfl
  | n + 1 => by rw [List.replicate_succ, utf8Len, hQ, utf8Len_replicate Q hQ n]; omega

section quoted
variable (cc : CharClass) (Q : Char) (stS stB : LexingState) (t : Gen.TokenType)

/-- the closing quotes: `m + 1` of them, the last one closes the token -/
theorem run_closing
    (hB_quote : ∀ (σ : Lexer) (cs : List Char) (p0 p : Nat × Nat) (sq eq : Nat), At σ stB (some t) cs p0 p sq eq false →
      sq ≠ eq + 1 → ∃ σ', processChar cc σ Q = .ok (σ', none) ∧ At σ' stB (some t) (cs ++ [Q]) p0 (adv p Q) sq (eq + 1) false)
    (hB_close : ∀ (σ : Lexer) (cs : List Char) (p0 p : Nat × Nat) (sq eq : Nat), At σ stB (some t) cs p0 p sq eq false →
      sq = eq + 1 → ∃ σ', processChar cc σ Q = .ok (σ', some ⟨cs ++ [Q], t, p0.1, p0.2⟩) ∧
        At σ' .noToken none [] p0 (adv p Q) 0 0 false) :
    ∀ (m eq sq : Nat) (cs : List Char) (p0 p : Nat × Nat) (σ : Lexer) (toks : List LexerToken),
      sq = eq + m + 1 → At σ stB (some t) cs p0 p sq eq false →
      ∃ σ', runChars cc (List.replicate (m + 1) Q) σ toks =
          .ok (σ', toks ++ [⟨cs ++ List.replicate (m + 1) Q, t, p0.1, p0.2⟩]) ∧
        At σ' .noToken none [] p0 (advs p (List.replicate (m + 1) Q)) 0 0 false
  | 0, eq, sq, cs, p0, p, σ, toks, hsq, h => by
    obtain ⟨σ', hp, h'⟩ := hB_close σ cs p0 p sq eq h (by omega)
    refine ⟨σ', ?_, h'⟩
    show runChars cc [Q] σ toks = _
    rw [runChars_cons_some cc σ σ' Q [] toks _ h.ok hp h'.ok]; rfl
  | m + 1, eq, sq, cs, p0, p, σ, toks, hsq, h => by
    obtain ⟨σ1, hp, h1⟩ := hB_quote σ cs p0 p sq eq h (by omega)
    obtain ⟨σ', hr, h'⟩ := run_closing hB_quote hB_close m (eq + 1) sq (cs ++ [Q]) p0 (adv p Q) σ1 toks (by omega) h1
    refine ⟨σ', ?_, ?_⟩
    · rw [List.replicate_succ, runChars_cons_none cc σ σ1 Q _ toks h.ok hp, hr]
      simp [List.replicate_succ]
    · rw [List.replicate_succ, advs_cons]; exact h'

/-- `k+1` quotes, a body without the quote, `k+1` quotes: one token — for `k ≠ 1` (two quotes are the empty literal),
and a non-empty body unless `k = 0` (with three or more quotes and an empty body the opening run never ends) -/
theorem tokSpelling_quoted (hcc : cc.Sane) (hQb : ¬ IsBlank Q) (hQn : Q ≠ '\n') (hQ1 : Q.utf8Size = 1)
    (hstart : Starts cc Q stS (some t)) (hne : t ≠ .identifier) (hstS : stS ≠ .noToken)
    (hS_quote : ∀ (σ : Lexer) (cs : List Char) (p0 p : Nat × Nat) (sq eq : Nat), At σ stS (some t) cs p0 p sq eq false →
      ∃ σ', processChar cc σ Q = .ok (σ', none) ∧ At σ' stS (some t) (cs ++ [Q]) p0 (adv p Q) sq eq false)
    (hS_body : ∀ (σ : Lexer) (x : Char) (cs : List Char) (p0 p : Nat × Nat) (sq eq : Nat),
      At σ stS (some t) cs p0 p sq eq false → x ≠ Q → utf8Len cs ≠ 2 →
      ∃ σ', processChar cc σ x = .ok (σ', none) ∧ At σ' stB (some t) (cs ++ [x]) p0 (adv p x) (utf8Len cs) eq false)
    (hB_body : ∀ (σ : Lexer) (x : Char) (cs : List Char) (p0 p : Nat × Nat) (sq eq : Nat),
      At σ stB (some t) cs p0 p sq eq false → x ≠ Q →
      ∃ σ', processChar cc σ x = .ok (σ', none) ∧ At σ' stB (some t) (cs ++ [x]) p0 (adv p x) sq 0 false)
    (hB_quote : ∀ (σ : Lexer) (cs : List Char) (p0 p : Nat × Nat) (sq eq : Nat), At σ stB (some t) cs p0 p sq eq false →
      sq ≠ eq + 1 → ∃ σ', processChar cc σ Q = .ok (σ', none) ∧ At σ' stB (some t) (cs ++ [Q]) p0 (adv p Q) sq (eq + 1) false)
    (hB_close : ∀ (σ : Lexer) (cs : List Char) (p0 p : Nat × Nat) (sq eq : Nat), At σ stB (some t) cs p0 p sq eq false →
      sq = eq + 1 → ∃ σ', processChar cc σ Q = .ok (σ', some ⟨cs ++ [Q], t, p0.1, p0.2⟩) ∧
        At σ' .noToken none [] p0 (adv p Q) 0 0 false)
    (hEmpty : Ending cc stS (some t) [Q, Q] t)
    (k : Nat) (body : List Char) (hbody : Q ∉ body) (hk : k ≠ 1) (hnon : body ≠ [] ∨ k = 0) :
    TokSpelling cc (List.replicate (k + 1) Q ++ body ++ List.replicate (k + 1) Q) t := by
  cases body with
  | nil =>
    have hk0 : k = 0 := by rcases hnon with h | h; exact absurd rfl h; exact h
    subst hk0
    show TokSpelling cc (Q :: [Q]) t
    refine TokSpelling.ofPending cc hcc Q [Q] stS stS (some t) (some t) t hQb hQn hstart hstS hne hEmpty ?_
    intro σ P toks h
    obtain ⟨σ1, hp, h1⟩ := hS_quote σ [Q] P (adv P Q) 0 0 h
    exact ⟨σ1, by rw [runChars_cons_none cc σ σ1 Q [] toks h.ok hp]; rfl, 0, 0, h1⟩
  | cons b0 bs =>
    have hb0 : b0 ≠ Q := fun e => hbody (by simp [e])
    have hbs : ∀ x ∈ bs, x ≠ Q := fun x hx e => hbody (by simp [← e, hx])
    have etext : List.replicate (k + 1) Q ++ (b0 :: bs) ++ List.replicate (k + 1) Q =
        Q :: (List.replicate k Q ++ ([b0] ++ (bs ++ List.replicate (k + 1) Q))) := by
      simp [List.replicate_succ]
    rw [etext]
    refine TokSpelling.ofClosed cc hcc Q _ stS (some t) t hQb hQn hstart ?_
    intro σ P toks h
    -- the other opening quotes
    obtain ⟨σ1, r1, h1⟩ := run_ind cc (fun cs p σ => At σ stS (some t) cs P p 0 0 false) (fun _ x => x = Q)
      (fun _ _ _ h => h.ok) (fun cs p σ x h hx => by rw [hx]; exact hS_quote σ cs P p 0 0 h)
      (List.replicate k Q) [Q] (adv P Q) σ toks h (fun u x v e => by
        have : x ∈ List.replicate k Q := by rw [e]; simp
        exact (List.mem_replicate.mp this).2)
    have elen : utf8Len ([Q] ++ List.replicate k Q) = k + 1 := by
      have := utf8Len_replicate Q hQ1 (k + 1)
      rwa [List.replicate_succ] at this
    -- the first character of the body
    obtain ⟨σ2, hp2, h2⟩ := hS_body σ1 b0 _ P _ 0 0 h1 hb0 (by rw [elen]; omega)
    rw [elen] at h2
    -- the rest of the body
    obtain ⟨σ3, r3, h3⟩ := run_ind cc (fun cs p σ => At σ stB (some t) cs P p (k + 1) 0 false) (fun _ x => x ≠ Q)
      (fun _ _ _ h => h.ok) (fun cs p σ x h hx => hB_body σ x cs P p (k + 1) 0 h hx)
      bs _ _ σ2 toks h2 (fun u x v e => hbs x (by simp [e]))
    -- the closing quotes
    obtain ⟨σ4, r4, h4⟩ := run_closing cc Q stB t hB_quote hB_close k 0 (k + 1) _ P _ σ3 toks (by omega) h3
    refine ⟨σ4, P, ?_, ?_⟩
    · rw [runChars_append cc _ _ σ σ1 toks toks r1, runChars_append cc [b0] _ σ1 σ2 toks toks
        (by rw [runChars_cons_none cc σ1 σ2 b0 [] toks h1.ok hp2]; rfl), runChars_append cc bs _ σ2 σ3 toks toks r3, r4]
      simp [List.replicate_succ]
    · simpa [advs_append, advs_cons] using h4

end quoted

end Garnish.Model.Lexer
