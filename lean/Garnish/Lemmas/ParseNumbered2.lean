/-
General invariants of the parser model (every token list, no fragment): every node of the result carries one of the input
tokens as its `lexToken` (a `List` node: the token before its right operand — `last_token`, which is an input token whenever
the list flag is set), and a `( )` / `{ }` node has no left child (`left` is written only when a node is created).
Same structure as Lemmas/ParserTokens.lean: an invariant of the node vector through every function of Model/Parser.
-/
import Garnish.Lemmas.ParserTokens
set_option linter.unusedSimpArgs false
set_option linter.unusedVariables false
namespace Garnish.Model.Parser.Num
open Garnish Garnish.Gen Garnish.Model.Parser

def isBr (d : Definition) : Bool := d == .group || d == .nestedExpression

section
variable (K : PToken → Prop)

/-- a node carries a token with the property `K`, and a `( )` / `{ }` node has no left child -/
def LGood (pn : ParseNode) : Prop := K pn.lexToken ∧ (isBr pn.definition = true → pn.left = none)

def AllL (nodes : Array ParseNode) : Prop := ∀ (i : Nat) (pn : ParseNode), nodes[i]? = some pn → LGood K pn

theorem allL_empty : AllL K #[] := by intro i pn h; simp at h

theorem allL_push {nodes : Array ParseNode} {pn : ParseNode} (h : AllL K nodes) (hp : LGood K pn) :
    AllL K (nodes.push pn) := by
  intro i x hx
  rw [Array.getElem?_push] at hx
  split at hx
  · cases hx; exact hp
  · exact h i x hx

theorem allL_modify {nodes nodes' : Array ParseNode} {i : Nat} {f : ParseNode → ParseNode}
    (h : AllL K nodes) (hf : ∀ n, nodes[i]? = some n → LGood K (f n))
    (hm : modifyNode? nodes i f = some nodes') : AllL K nodes' := by
  unfold modifyNode? at hm
  split at hm
  · rename_i hi
    cases hm
    intro j x hx
    rw [Array.getElem?_set] at hx
    split at hx
    · cases hx
      exact hf _ (by simp [hi])
    · exact h j x hx
  · cases hm

theorem lgood_parent {n : ParseNode} (p : Option Nat) (h : LGood K n) : LGood K { n with parent := p } := h
theorem lgood_right {n : ParseNode} (p : Option Nat) (h : LGood K n) : LGood K { n with right := p } := h

theorem parseToken_lgood (id : Nat) (definition : Definition) (left right : Option Nat) (nodes : Array ParseNode)
    (underGroup : Option Nat) (rtl : Bool) (h : AllL K nodes) :
    Post (fun r => AllL K r.1 ∧ InfoOk definition r.2)
      (parseToken id definition left right nodes underGroup rtl) := by
  unfold parseToken
  split
  · simp
  · apply post_bind (P := fun _ => True)
    · cases walkLoop nodes _ underGroup rtl (nodes.size + 1) 0 left left <;> simp [Post]
    · intro a _
      dsimp only
      apply post_bind (P := fun ns => AllL K ns)
      · split
        · simpa using h
        · split
          · simp
          · rename_i hm
            simp only [post_ok]
            exact allL_modify K h (fun n hn => lgood_parent K _ (h _ n hn)) hm
      · intro ns hns
        split
        · simp [hns, InfoOk]
        · split
          · simp
          · split
            · simp
            · rename_i hm
              have h2 := allL_modify K hns (fun n hn => lgood_right K _ (hns _ n hn)) hm
              split
              · simp [h2, InfoOk]
              · split
                · simp [h2, InfoOk]
                · rename_i hm3
                  have h3 := allL_modify K h2 (fun n hn => lgood_parent K _ (h2 _ n hn)) hm3
                  simp [h3, InfoOk]

def LStOk (d : Definition) (r : PState × Info) : Prop := AllL K r.1.nodes ∧ InfoOk d r.2

theorem parseTokenSt_lgood (st : PState) (id : Nat) (definition : Definition) (left right underGroup : Option Nat)
    (rtl : Bool) (h : AllL K st.nodes) :
    Post (LStOk K definition) (parseTokenSt st id definition left right underGroup rtl) := by
  unfold parseTokenSt
  apply post_bind (parseToken_lgood K id definition left right st.nodes underGroup rtl h)
  intro a ha
  simpa [LStOk] using ha

theorem parseTokenLeftToRight_lgood (st : PState) (id : Nat) (definition : Definition) (left right underGroup : Option Nat)
    (h : AllL K st.nodes) :
    Post (LStOk K definition) (parseTokenLeftToRight st id definition left right underGroup) :=
  parseTokenSt_lgood K st id definition left right underGroup false h

theorem parseTokenRightToLeft_lgood (st : PState) (id : Nat) (definition : Definition) (left right underGroup : Option Nat)
    (h : AllL K st.nodes) :
    Post (LStOk K definition) (parseTokenRightToLeft st id definition left right underGroup) :=
  parseTokenSt_lgood K st id definition left right underGroup true h

theorem lgood_of_infoOk_list {info : Info} (h : InfoOk .list info) (sd : SecDef) (p l r : Option Nat) (t : PToken)
    (ht : K t) : LGood K ⟨info.definition, sd, p, l, r, t⟩ := by
  refine ⟨ht, fun hb => ?_⟩
  rcases h with h | h <;> (simp only [] at hb; rw [h] at hb; cases hb)

theorem pushListNode_lgood (st : PState) (id ourId : Nat) (underGroup : Option Nat) (h : AllL K st.nodes)
    (hK : K st.lastToken) : Post (fun st' => AllL K st'.nodes) (pushListNode st id ourId underGroup) := by
  unfold pushListNode parseTokenLeftToRight parseTokenSt
  apply post_bind (P := fun r => AllL K r.1.nodes ∧ InfoOk .list r.2 ∧ r.1.lastToken = st.lastToken)
  · apply post_bind (parseToken_lgood K id .list st.lastLeft (some ourId) st.nodes underGroup false h)
    intro a ha
    exact ⟨ha.1, ha.2, rfl⟩
  · intro a ha
    obtain ⟨h1, h2, h3⟩ := ha
    simp only [post_ok]
    exact allL_push K h1 (lgood_of_infoOk_list K h2 _ _ _ _ _ (by rw [h3]; exact hK))

theorem parseValueLike_lgood (st : PState) (id : Nat) (definition : Definition) (underGroup : Option Nat)
    (h : AllL K st.nodes) (hL : st.checkForList = true → K st.lastToken) :
    Post (LStOk K definition) (parseValueLike st id definition underGroup) := by
  unfold parseValueLike
  split
  · rename_i hc
    apply post_bind (pushListNode_lgood K st id (id + 1) underGroup h (hL hc))
    intro st' hst'
    exact parseTokenLeftToRight_lgood K _ _ _ _ _ _ hst'
  · exact parseTokenLeftToRight_lgood K _ _ _ _ _ _ h

theorem setupSpaceListCheck_lgood (st : PState) (cg : Option Nat) (d : Definition) (h : AllL K st.nodes) :
    Post (LStOk K d) (setupSpaceListCheck st cg) := by
  unfold setupSpaceListCheck
  apply post_bind (P := fun st' => AllL K st'.nodes)
  · repeat' split
    all_goals (try dsimp only)
    all_goals (repeat' split)
    all_goals simp [h]
  · intro st' hst'
    simp [LStOk, InfoOk, hst']

theorem adjustLastLeft_lgood (st : PState) (ug : Option Nat) (h : AllL K st.nodes) :
    Post (fun st' => AllL K st'.nodes) (adjustLastLeft st ug) := by
  unfold adjustLastLeft
  repeat' split
  all_goals (try dsimp only)
  all_goals (repeat' split)
  all_goals simp [h]

theorem armUnaryPrefix_lgood (st : PState) (currentId : Nat) (definition : Definition) (ar ug : Option Nat)
    (h : AllL K st.nodes) (hL : st.checkForList = true → K st.lastToken) :
    Post (LStOk K definition) (armUnaryPrefix st currentId definition ar ug) := by
  unfold armUnaryPrefix
  dsimp only
  split
  · rename_i hc
    apply post_bind (pushListNode_lgood K st currentId (currentId + 1) ug h (hL hc))
    intro st' hst'
    simp [LStOk, InfoOk, hst']
  · simp [LStOk, InfoOk, h]

theorem armStartGrouping_lgood (st : PState) (currentId : Nat) (definition : Definition) (ar ug : Option Nat)
    (h : AllL K st.nodes) (hL : st.checkForList = true → K st.lastToken) :
    Post (fun r => LStOk K definition r ∧ r.2.left = none) (armStartGrouping st currentId definition ar ug) := by
  unfold armStartGrouping
  dsimp only
  split
  · rename_i hc
    refine post_bind (pushListNode_lgood K _ currentId (currentId + 1) ug ?_ ?_) ?_
    · simpa using h
    · exact hL hc
    · intro st' hst'
      simp [LStOk, InfoOk, hst']
  · simp [LStOk, InfoOk, h]

theorem armStartSideEffect_lgood (st : PState) (currentId : Nat) (definition : Definition) (ar ug : Option Nat)
    (h : AllL K st.nodes) : Post (LStOk K definition) (armStartSideEffect st currentId definition ar ug) := by
  unfold armStartSideEffect
  dsimp only
  apply post_bind (parseTokenLeftToRight_lgood K _ currentId definition _ ar ug (by simpa using h))
  intro a ha
  obtain ⟨h1, h2⟩ := ha
  simp [LStOk, h1, h2]

theorem endGroupingFixLastLeft_lgood (st : PState) (currentId endedGroup : Nat) (h : AllL K st.nodes) :
    Post (fun st' => AllL K st'.nodes) (endGroupingFixLastLeft st currentId endedGroup) := by
  unfold endGroupingFixLastLeft
  split
  · simpa using h
  · split
    · simp
    · rename_i left hll _ leftNode0 hget
      dsimp only
      have hg0 : LGood K leftNode0 := h _ _ hget
      have hgl : LGood K (if (leftNode0.definition.isOptional || left == endedGroup) = true
          then { leftNode0 with right := none } else leftNode0) := by
        split
        · exact hg0
        · exact hg0
      generalize (if (leftNode0.definition.isOptional || left == endedGroup) = true
          then { leftNode0 with right := none } else leftNode0) = leftNode at hgl ⊢
      split
      · simp
      · rename_i nodes1 hm1
        have h1 := allL_modify K h (fun _ _ => hgl) hm1
        split
        · split
          · simpa using h1
          · split
            · simp
            · rename_i nodes2 hm2
              have h2 := allL_modify K h1 (fun n hn => lgood_parent K _ (h1 _ n hn)) hm2
              split
              · simpa using h2
              · split
                · simp
                · rename_i nodes3 hm3
                  simpa using allL_modify K h2 (fun n hn => lgood_right K _ (h2 _ n hn)) hm3
        · simpa using h1

theorem armEndGrouping_lgood (st : PState) (currentId : Nat) (token : PToken) (d : Definition)
    (h : AllL K st.nodes) : Post (LStOk K d) (armEndGrouping st currentId token) := by
  unfold armEndGrouping
  split
  · simp
  · dsimp only
    split
    · simp
    · apply post_bind (P := fun _ => True)
      · repeat' split
        all_goals simp
      · intro et _
        split
        · simp
        · apply post_bind (endGroupingFixLastLeft_lgood K _ currentId _ (by simpa using h))
          intro st' hst'
          simp [LStOk, InfoOk, hst']

theorem armSubexpression_lgood (st : PState) (currentId : Nat) (definition : Definition) (ar ug : Option Nat)
    (h : AllL K st.nodes) : Post (LStOk K definition) (armSubexpression st currentId definition ar ug) := by
  unfold armSubexpression
  apply post_bind (P := fun _ => True)
  · repeat' split
    all_goals simp
  · intro r _
    dsimp only
    split
    · exact setupSpaceListCheck_lgood K st ug definition h
    · apply post_bind (P := fun p => AllL K p.1.nodes)
      · split
        · simpa using h
        · split
          · simp
          · rename_i left hll _ leftNode0 hget
            (try dsimp only)
            have hg0 : LGood K leftNode0 := h _ _ hget
            have hgl : LGood K (if leftNode0.definition.isOptional = true
                then { leftNode0 with right := none } else leftNode0) := by
              split <;> exact hg0
            generalize (if leftNode0.definition.isOptional = true
                then { leftNode0 with right := none } else leftNode0) = leftNode at hgl ⊢
            split
            · simp
            · rename_i nodes1 hm1
              simpa using allL_modify K h (fun _ _ => hgl) hm1
      · intro p hp
        split
        · simp [LStOk, InfoOk, hp]
        · exact parseTokenLeftToRight_lgood K _ _ _ _ _ _ (by simpa using hp)

theorem dispatch_lgood (st : PState) (currentId : Nat) (token : PToken) (definition : Definition) (sd : SecDef)
    (ar ug : Option Nat) (h : AllL K st.nodes) (hL : st.checkForList = true → K st.lastToken)
    (hbr : isBr definition = true → sd = .startGrouping) :
    Post (fun r => LStOk K definition r ∧ (isBr definition = true → r.2.left = none))
      (dispatch st currentId token definition sd ar ug) := by
  have lift : ∀ {x : Outcome (PState × Info)}, sd ≠ .startGrouping → Post (LStOk K definition) x →
      Post (fun r => LStOk K definition r ∧ (isBr definition = true → r.2.left = none)) x :=
    fun hne hx => post_mono hx (fun r hr => ⟨hr, fun hb => absurd (hbr hb) hne⟩)
  unfold dispatch
  split
  · simp
  · exact lift (by simp) (setupSpaceListCheck_lgood K st ug definition h)
  · exact lift (by simp) (by simp [LStOk, InfoOk, h])
  · exact lift (by simp) (parseValueLike_lgood K st currentId definition ug h hL)
  · exact lift (by simp) (parseValueLike_lgood K st currentId definition ug h hL)
  · exact lift (by simp) (parseTokenRightToLeft_lgood K _ _ _ _ _ _ (by simpa using h))
  · exact lift (by simp) (parseTokenLeftToRight_lgood K _ _ _ _ _ _ (by simpa using h))
  · exact lift (by simp) (parseTokenLeftToRight_lgood K _ _ _ _ _ _ (by simpa using h))
  · exact lift (by simp) (armUnaryPrefix_lgood K st currentId definition ar ug h hL)
  · exact lift (by simp) (parseTokenLeftToRight_lgood K _ _ _ _ _ _ (by simpa using h))
  · exact post_mono (armStartGrouping_lgood K st currentId definition ar ug h hL) (fun r hr => ⟨hr.1, fun _ => hr.2⟩)
  · exact lift (by simp) (armStartSideEffect_lgood K st currentId definition ar ug h)
  · exact lift (by simp) (armEndGrouping_lgood K st currentId token definition h)
  · exact lift (by simp) (armEndGrouping_lgood K st currentId token definition h)
  · exact lift (by simp) (armSubexpression_lgood K st currentId definition ar ug h)

theorem bracket_token (ty : TokenType) (h : isBr (getDefinition ty).1 = true) : (getDefinition ty).2 = .startGrouping := by
  cases ty <;> simp [getDefinition, isBr] at h ⊢

theorem pushNode_lgood (st : PState) (info : Info) (sd : SecDef) (token : PToken) (d : Definition) (h : AllL K st.nodes)
    (hi : InfoOk d info) (hleft : isBr d = true → info.left = none) (ht : K token) :
    AllL K (pushNode st info sd token).nodes := by
  unfold pushNode
  split
  · rename_i hnd
    dsimp only
    apply allL_push K h
    refine ⟨ht, fun hb => ?_⟩
    simp only [] at hb ⊢
    have hdef : info.definition = d := by
      rcases hi with hi | hi
      · exact hi
      · rw [hi] at hnd; simp at hnd
    split at hb
    · rename_i heq
      split at hb
      · rw [heq] at hb; simp [isBr] at hb
      · split at hb
        · simp [isBr] at hb
        · rw [heq] at hb; simp [isBr] at hb
    · exact hleft (by rw [← hdef]; exact hb)
  · exact h

theorem adjustLastLeft_fields (st : PState) (ug : Option Nat) :
    Post (fun st' => st'.checkForList = st.checkForList ∧ st'.lastToken = st.lastToken) (adjustLastLeft st ug) := by
  unfold adjustLastLeft
  repeat' split
  all_goals (try dsimp only)
  all_goals (repeat' split)
  all_goals simp

theorem post_and {α : Type} {x : Outcome α} {A B : α → Prop} (h1 : Post A x) (h2 : Post B x) : Post (fun a => A a ∧ B a) x := by
  cases x <;> simp_all [Post]

theorem step_lgood (st : PState) (token : PToken) (isLast : Bool) (h : AllL K st.nodes)
    (hL : st.checkForList = true → K st.lastToken) (ht : K token) :
    Post (fun st' => AllL K st'.nodes ∧ K st'.lastToken) (step st token isLast) := by
  unfold step
  dsimp only
  apply post_bind (P := fun _ => True)
  · cases underGroupOf st <;> simp [Post]
  · intro ug _
    apply post_bind (post_and (adjustLastLeft_lgood K st ug h) (adjustLastLeft_fields st ug))
    intro st1 hst1
    obtain ⟨hst1, hc1, hl1⟩ := hst1
    split
    · simp
    · apply post_bind (dispatch_lgood K _ _ token (getDefinition token.type).1 (getDefinition token.type).2 _ ug
        (by simpa using hst1) (by intro hc; show K st1.lastToken; rw [hl1]; exact hL (by rw [← hc1]; exact hc))
        (bracket_token token.type))
      intro r hr
      obtain ⟨⟨h1, h2⟩, h3⟩ := hr
      have hp := pushNode_lgood K r.1 r.2 (getDefinition token.type).2 token _ h1 h2 h3 ht
      simp only [post_ok]
      split <;> exact ⟨by simpa using hp, ht⟩

theorem loop_lgood : ∀ (tokens : List PToken) (st : PState), AllL K st.nodes → (st.checkForList = true → K st.lastToken) →
    (∀ t ∈ tokens, K t) → Post (fun st' => AllL K st'.nodes) (loop st tokens)
  | [], st, h, _, _ => by simpa [loop] using h
  | t :: rest, st, h, hL, ht => by
    unfold loop
    apply post_bind (step_lgood K st t rest.isEmpty h hL (ht t (by simp)))
    intro st' hst'
    exact loop_lgood rest st' hst'.1 (fun _ => hst'.2) (fun x hx => ht x (by simp [hx]))

theorem finish_lgood (st : PState) (h : AllL K st.nodes) : Post (fun r => AllL K r.nodes) (finish st) := by
  unfold finish
  repeat' split
  all_goals (try simp [h])
  all_goals (apply post_bind (P := fun _ => True))
  all_goals first
    | (cases rootLoop st.nodes (st.nodes.size + 1) 0 0 _ <;> simp [Post]; done)
    | (intro _ _; simp [h])

/-- **every node of the parse result carries an input token, and a bracket node has no left child** -/
theorem parse_lgood (tokens : List PToken) (ht : ∀ t ∈ tokens, K t) :
    Post (fun r => AllL K r.nodes) (parse tokens) := by
  unfold parse
  apply post_bind (trimTokens_sub tokens)
  intro trimmed htr
  split
  · simpa using allL_empty K
  · apply post_bind (loop_lgood K trimmed PState.init (by simpa [PState.init] using allL_empty K)
      (by intro hc; simp [PState.init] at hc) (fun t h => ht t (htr t h)))
    intro st hst
    exact finish_lgood K st hst
end

end Garnish.Model.Parser.Num
