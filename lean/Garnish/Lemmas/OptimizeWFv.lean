/-
`WFv`: the decidable well-formedness that lets input-value cells refer to later data (stores on which
`get_current_value_mut` was used after a retention count was taken), and what follows from it.
-/
import Garnish.Lemmas.OptimizeInPlace
import Garnish.Lemmas.OptimizeWF
namespace Garnish.BasicOpt
open Garnish

/-- a readable address that is not an input-value cell -/
def isData (cells : Array Cell) (a : Nat) : Bool := isNode cells a && !svAt cells a

/-- input-value cells: `previous` is a lower input-value cell, `value` is data anywhere; every other node links
downwards to data -/
def nodeOKv (cells : Array Cell) (i : Nat) : Bool :=
  match cells[i]? with
  | some (.value p v) => decide (p < i) && svAt cells p && isData cells v
  | some (.valueRoot v) => isData cells v
  | _ => match shape cells i with
    | some sh => sh.kids.all (fun k => decide (k < i) && isData cells k)
    | none => true

def headData (cells : Array Cell) : Option Nat → Bool
  | none => true
  | some a => isData cells a

def headSV (cells : Array Cell) : Option Nat → Bool
  | none => true
  | some a => svAt cells a

def symOKv (cells : Array Cell) : Cell → Bool
  | .associativeItem _ d => isData cells d
  | _ => false

def wfv (s : Store) : Bool :=
  decide (s.retention ≤ s.cells.size) &&
  (List.range s.cells.size).all (fun i => nodeOKv s.cells i && listOK s.cells i && headerOK s.cells i) &&
  (List.range s.retention).all (extentOK s.cells s.retention) &&
  headData s.cells s.currentRegister && headSV s.cells s.currentValue && headData s.cells s.currentFrame &&
  s.symtab.toList.all (symOKv s.cells)

def rootsOKv (s : Store) (roots : List Nat) : Bool := roots.all (isData s.cells)

structure WFv (s : Store) : Prop where
  retLe : s.retention ≤ s.cells.size
  nodes : ∀ i, i < s.cells.size → nodeOKv s.cells i = true
  lists : ∀ i, i < s.cells.size → listOK s.cells i = true
  headers : ∀ i, i < s.cells.size → headerOK s.cells i = true
  extent : ∀ i, i < s.retention → extentOK s.cells s.retention i = true
  reg : headData s.cells s.currentRegister = true
  val : headSV s.cells s.currentValue = true
  frm : headData s.cells s.currentFrame = true
  syms : ∀ c ∈ s.symtab.toList, symOKv s.cells c = true

theorem wfv_iff (s : Store) : wfv s = true ↔ WFv s := by
  unfold wfv
  simp only [Bool.and_eq_true, decide_eq_true_eq, List.all_eq_true, List.mem_range]
  constructor
  · rintro ⟨⟨⟨⟨⟨⟨h1, h2⟩, h3⟩, h4⟩, h5⟩, h6⟩, h7⟩
    exact ⟨h1, fun i hi => (h2 i hi).1.1, fun i hi => (h2 i hi).1.2, fun i hi => (h2 i hi).2, h3, h4, h5, h6, h7⟩
  · intro h
    exact ⟨⟨⟨⟨⟨⟨h.retLe, fun i hi => ⟨⟨h.nodes i hi, h.lists i hi⟩, h.headers i hi⟩⟩, h.extent⟩, h.reg⟩, h.val⟩,
      h.frm⟩, h.syms⟩

instance (s : Store) : Decidable (WFv s) := decidable_of_iff _ (wfv_iff s)

theorem isData_iff {cells : Array Cell} {a : Nat} : isData cells a = true ↔ isNode cells a = true ∧ svAt cells a = false := by
  simp [isData]

theorem svAt_lt {cells : Array Cell} {a : Nat} (h : svAt cells a = true) : a < cells.size := by
  rcases sv_cell h with ⟨_, _, hc⟩ | ⟨_, hc⟩ <;>
  · rcases Nat.lt_or_ge a cells.size with h | h
    · exact h
    · rw [Array.getElem?_eq_none h] at hc; cases hc

theorem sv_isNode {cells : Array Cell} {a : Nat} (h : svAt cells a = true) : isNode cells a = true := by
  rcases sv_cell h with ⟨p, v, hc⟩ | ⟨v, hc⟩
  · simp [isNode, shape_of_solo hc (sh := ⟨.value 0 0, [], [p, v]⟩) rfl]
  · simp [isNode, shape_of_solo hc (sh := ⟨.valueRoot 0, [], [v]⟩) rfl]

theorem node_lt {cells : Array Cell} {a : Nat} (h : isNode cells a = true) : a < cells.size := by
  simp only [isNode, Option.isSome_iff_exists] at h
  obtain ⟨sh, hsh⟩ := h
  exact shape_lt hsh

/-- what `nodeOKv` says about the kids of a node, by the kind of the cell -/
theorem WFv.kids {s : Store} (h : WFv s) {i : Nat} {sh : Shape} (hsh : shape s.cells i = some sh) :
    (svAt s.cells i = false → ∀ k ∈ sh.kids, k < i ∧ isData s.cells k = true) ∧
    (∀ p v, s.cells[i]? = some (.value p v) → p < i ∧ svAt s.cells p = true ∧ isData s.cells v = true) ∧
    (∀ v, s.cells[i]? = some (.valueRoot v) → isData s.cells v = true) := by
  have hok := h.nodes i (shape_lt hsh)
  obtain ⟨c, hc⟩ := shape_cell hsh
  refine ⟨?_, ?_, ?_⟩
  · intro hns k hk
    unfold nodeOKv at hok
    rw [hc] at hok
    have hnsv : isSV c = false := by simpa [svAt, hc] using hns
    cases c <;> simp only [isSV] at hnsv <;> try (cases hnsv; done)
    all_goals (
      simp only [hsh, List.all_eq_true, Bool.and_eq_true, decide_eq_true_eq] at hok
      exact hok k hk)
  · intro p v hcv
    unfold nodeOKv at hok
    rw [hcv] at hok
    simp only [Bool.and_eq_true, decide_eq_true_eq] at hok
    exact ⟨hok.1.1, hok.1.2, hok.2⟩
  · intro v hcv
    unfold nodeOKv at hok
    rw [hcv] at hok
    exact hok

theorem WFv.optHypV {s : Store} (h : WFv s) : OptHypV s := by
  refine ⟨?_, ?_, ?_, ?_, ?_, ?_⟩
  · intro i n k hc
    have hi : i < s.cells.size := by
      rcases Nat.lt_or_ge i s.cells.size with h | h
      · exact h
      · rw [Array.getElem?_eq_none h] at hc; cases hc
    have := h.lists i hi
    simpa [listOK, hc] using this
  · intro i sh hsh hns k hk
    obtain ⟨h1, h2⟩ := (h.kids hsh).1 hns k hk
    exact ⟨h1, (isData_iff.mp h2).2⟩
  · intro i p v hc
    have hsh : shape s.cells i = some ⟨.value 0 0, [], [p, v]⟩ := shape_of_solo hc rfl
    obtain ⟨h1, h2, _⟩ := (h.kids hsh).2.1 p v hc
    exact ⟨h1, h2⟩
  · intro i p v hc
    have hsh : shape s.cells i = some ⟨.value 0 0, [], [p, v]⟩ := shape_of_solo hc rfl
    exact (isData_iff.mp ((h.kids hsh).2.1 p v hc).2.2).2
  · intro i v hc
    have hsh : shape s.cells i = some ⟨.valueRoot 0, [], [v]⟩ := shape_of_solo hc rfl
    exact (isData_iff.mp ((h.kids hsh).2.2 v hc)).2
  · intro i sh hi hsh
    have := h.extent i hi
    simp only [extentOK, decide_eq_true_eq] at this
    rw [this]; exact hsh

theorem WFv.headsV {s : Store} (h : WFv s) {roots : List Nat} (hr : rootsOKv s roots = true) : HeadsV s roots := by
  refine ⟨?_, ?_, ?_, ?_, ?_⟩
  · intro i hi
    have := h.reg; rw [hi] at this
    exact (isData_iff.mp this).2
  · intro i hi
    have := h.val; rw [hi] at this
    exact this
  · intro i hi
    have := h.frm; rw [hi] at this
    exact (isData_iff.mp this).2
  · intro r hrm
    have : isData s.cells r = true := by
      simp only [rootsOKv, List.all_eq_true] at hr
      exact hr r hrm
    exact (isData_iff.mp this).2
  · intro j sym di hj
    have := h.syms _ (List.mem_of_getElem? (by rw [Array.getElem?_toList]; exact hj))
    exact (isData_iff.mp (by simpa [symOKv] using this)).2

/-- rank: input-value cells above all data -/
def rankV (cells : Array Cell) (a : Nat) : Nat := if svAt cells a then cells.size + a else a

/-- under `WFv` every node has an unfolding -/
theorem dec_of_nodes_v {s : Store} (h : WFv s) :
    ∀ (fuel a : Nat), rankV s.cells a < fuel → isNode s.cells a = true → ∃ t, unfold s.cells fuel a = some t
  | 0, a, hlt, _ => by omega
  | fuel + 1, a, hlt, hnode => by
    simp only [isNode, Option.isSome_iff_exists] at hnode
    obtain ⟨sh, hsh⟩ := hnode
    obtain ⟨k1, k2, k3⟩ := h.kids hsh
    have hkids : ∀ k ∈ sh.kids, rankV s.cells k < fuel ∧ isNode s.cells k = true := by
      intro k hk
      cases hsv : svAt s.cells a with
      | false =>
        obtain ⟨g1, g2⟩ := k1 hsv k hk
        obtain ⟨g3, g4⟩ := isData_iff.mp g2
        simp only [rankV, hsv, g4] at hlt ⊢
        exact ⟨by simp at hlt ⊢; omega, g3⟩
      | true =>
        simp only [rankV, hsv, if_true] at hlt
        rcases sv_cell hsv with ⟨p, v, hc⟩ | ⟨v, hc⟩
        · have e : sh = ⟨.value 0 0, [], [p, v]⟩ := solo_of_shape hc rfl hsh
          subst e
          obtain ⟨g1, g2, g3⟩ := k2 p v hc
          obtain ⟨g4, g5⟩ := isData_iff.mp g3
          simp at hk
          rcases hk with rfl | rfl
          · exact ⟨by simp only [rankV, g2, if_true]; omega, sv_isNode g2⟩
          · have := node_lt (cells := s.cells) (a := k) g4
            exact ⟨by simp only [rankV, g5]; simp; omega, g4⟩
        · have e : sh = ⟨.valueRoot 0, [], [v]⟩ := solo_of_shape hc rfl hsh
          subst e
          obtain ⟨g4, g5⟩ := isData_iff.mp (k3 v hc)
          simp at hk
          subst hk
          have := node_lt (cells := s.cells) (a := k) g4
          exact ⟨by simp only [rankV, g5]; simp; omega, g4⟩
    obtain ⟨ts, hts⟩ := allSome_of_forall (f := unfold s.cells fuel) sh.kids (fun k hk => by
      obtain ⟨h1, h2⟩ := hkids k hk
      exact dec_of_nodes_v h fuel k h1 h2)
    exact ⟨Tree.node sh.label sh.inl ts, by simp [unfold, hsh, hts]⟩

theorem WFv.dec {s : Store} (h : WFv s) {a : Nat} (ha : isNode s.cells a = true) : Dec s.cells a := by
  obtain ⟨t, ht⟩ := dec_of_nodes_v h (rankV s.cells a + 1) a (by omega) ha
  exact ⟨_, t, ht⟩

end Garnish.BasicOpt
