/-
Step lemmas over `StoreLawsOn`: arithmetic / bitwise, `Not`, `Tis`, `Xor`, `And`, `Or` (from Lemmas/RuntimeStep{3,5}.lean).
-/
import Garnish.Lemmas.RuntimeOnStep2
set_option linter.unusedSimpArgs false
set_option linter.unusedVariables false
namespace Garnish.Lemmas.Runtime.On
open Garnish Gen Garnish.Abs Garnish.Model.Equality Garnish.Model.Runtime Garnish.Lemmas.Runtime
open Garnish.Props.RuntimeRefine

variable {F σ : Type} {S : RStore F σ} {Inv : σ → Prop} {Rd : σ → Nat → Prop} {P : Prog F} {host : Host F}
  (fo : FloatOps F)

/-- the twelve binary arithmetic / bitwise instructions -/
theorem stepSim_arith_binary (L : StoreLawsOn S Inv Rd) (HR : HostRefinesI S Inv host) (fuel : Nat) (H : OtherHandlers σ)
    {s : σ} {m : MState F} (hsim : Sim S P s m) {op : Instruction} {operand : Option Nat} {nop : NumOp}
    (hfetch : P.instrs[m.pc]? = some (op, operand)) (hop : numOpOf op = some nop) (hbin : nop.isUnary = false)
    {vr vl : Val F} {rs : List (Val F)} (hregs : m.regs = vr :: vl :: rs) (hi : Inv s) (hm : MDeep m rs) :
    StepSimOn fo host S Inv P fuel H s m := by
  obtain ⟨hg, hu, hb, hdisp⟩ := arith_facts_binary (S := S) fo hop hbin fuel H operand vl vr
  exact stepSim_binary fo L HR fuel H hsim hfetch hg hregs hu hb
    (fun r l rest hr hd dl dr => by rw [hdisp]; exact C08_refine_perform_op fo L op nop hr dl dr)
    (fun op' a b h => arithBinary_defer fo h) hi hm

/-- the three unary ones -/
theorem stepSim_arith_unary (L : StoreLawsOn S Inv Rd) (HR : HostRefinesI S Inv host) (fuel : Nat) (H : OtherHandlers σ)
    {s : σ} {m : MState F} (hsim : Sim S P s m) {op : Instruction} {operand : Option Nat} {nop : NumOp}
    (hfetch : P.instrs[m.pc]? = some (op, operand)) (hop : numOpOf op = some nop) (hun : nop.isUnary = true)
    {v : Val F} {rs : List (Val F)} (hregs : m.regs = v :: rs) (hi : Inv s) (hm : MDeep m rs) :
    StepSimOn fo host S Inv P fuel H s m := by
  obtain ⟨hg, hu, hdisp⟩ := arith_facts_unary (S := S) fo hop hun fuel H operand v
  exact stepSim_unary fo L HR fuel H hsim hfetch hg hregs hu
    (fun a rest hr hd da => by rw [hdisp]; exact C08_refine_perform_unary_op fo L op nop hr da)
    (fun op' a b h => arithUnary_defer fo h) hi hm

/-- `Not`, `Tis` -/
theorem stepSim_not (L : StoreLawsOn S Inv Rd) (HR : HostRefinesI S Inv host) (fuel : Nat) (H : OtherHandlers σ)
    {s : σ} {m : MState F} (hsim : Sim S P s m) {operand : Option Nat}
    (hfetch : P.instrs[m.pc]? = some (.not, operand)) {v : Val F} {rs : List (Val F)} (hregs : m.regs = v :: rs) (hi : Inv s) (hm : MDeep m rs) :
    StepSimOn fo host S Inv P fuel H s m :=
  stepSim_unary fo L HR fuel H hsim hfetch rfl hregs (o := .val (Val.ofBool (!v.truthy))) rfl
    (fun a rest hr hd da => C10_refine_not L hr da) (fun _ _ _ h => by cases h) hi hm

theorem stepSim_tis (L : StoreLawsOn S Inv Rd) (HR : HostRefinesI S Inv host) (fuel : Nat) (H : OtherHandlers σ)
    {s : σ} {m : MState F} (hsim : Sim S P s m) {operand : Option Nat}
    (hfetch : P.instrs[m.pc]? = some (.tis, operand)) {v : Val F} {rs : List (Val F)} (hregs : m.regs = v :: rs) (hi : Inv s) (hm : MDeep m rs) :
    StepSimOn fo host S Inv P fuel H s m :=
  stepSim_unary fo L HR fuel H hsim hfetch rfl hregs (o := .val (Val.ofBool v.truthy)) rfl
    (fun a rest hr hd da => C10_refine_tis L hr da) (fun _ _ _ h => by cases h) hi hm

/-- `Xor`, `Concat`, `PartialApply`: a value, never the host -/
theorem stepSim_xor (L : StoreLawsOn S Inv Rd) (HR : HostRefinesI S Inv host) (fuel : Nat) (H : OtherHandlers σ)
    {s : σ} {m : MState F} (hsim : Sim S P s m) {operand : Option Nat}
    (hfetch : P.instrs[m.pc]? = some (.xor, operand)) {vr vl : Val F} {rs : List (Val F)}
    (hregs : m.regs = vr :: vl :: rs) (hi : Inv s) (hm : MDeep m rs) : StepSimOn fo host S Inv P fuel H s m :=
  stepSim_binary fo L HR fuel H hsim hfetch rfl hregs (o := .val (Val.ofBool (vl.truthy != vr.truthy))) rfl rfl
    (fun r l rest hr hd dl dr => C10_refine_xor L hr dl dr) (fun _ _ _ h => by cases h) hi hm


/-- `And j`: a true operand is consumed and the right operand's code entered, a false one becomes `false` -/
theorem stepSim_and (L : StoreLawsOn S Inv Rd) (fuel : Nat) (H : OtherHandlers σ) {s : σ} {m : MState F}
    (hsim : Sim S P s m) {j t : Nat} (hfetch : P.instrs[m.pc]? = some (.and, some j))
    (hj : P.jumps[j]? = some t) {d : Val F} {rs : List (Val F)} (hregs : m.regs = d :: rs) (hi : Inv s) (hm : MDeep m rs) :
    StepSimOn fo host S Inv P fuel H s m := by
  have hr := hsim.2.regs
  rw [hregs] at hr
  obtain ⟨a, rest, hsr, da, tl⟩ := decodesList_cons_inv hr
  have hdeep : Deep S s rest := deep_of_sim hsim.2 tl hm
  have h := C10_refine_and L j hsr da
  cases hd : d.truthy with
  | true =>
    rw [hd, hsim.2.jumps, hj] at h
    simp only [if_true] at h
    obtain ⟨s1, h1, e1⟩ := h
    refine stepSim_of fo L fuel H hsim hfetch (r := .ok ({ m with regs := rs }, t))
      (by unfold Abs.step; rw [hfetch]; simp only [hregs, hd, if_true, jumpTarget_some hj]; rfl) ?_
    exact handlerSim_ofEff hsim.2 (md := { m with regs := rs }) h1 e1 (Sim.tail e1 tl) (Sim.tail e1 hsim.2.vals)
      rfl rfl
  | false =>
    rw [hd] at h
    simp only [Bool.false_eq_true, if_false] at h
    obtain ⟨b, s1, h1, d1, e1⟩ := h
    refine stepSim_of fo L fuel H hsim hfetch (r := .ok ({ m with regs := .fls :: rs }, m.pc + 1))
      (by unfold Abs.step; rw [hfetch]; simp only [hregs, hd, Bool.false_eq_true, if_false]; rfl) ?_
    exact handlerSim_ofEff hsim.2 (md := { m with regs := .fls :: rs }) h1 e1 (.cons d1 (Sim.tail e1 tl))
      (Sim.tail e1 hsim.2.vals) rfl (by simp [hsim.1])

/-- `Or j` -/
theorem stepSim_or (L : StoreLawsOn S Inv Rd) (fuel : Nat) (H : OtherHandlers σ) {s : σ} {m : MState F}
    (hsim : Sim S P s m) {j t : Nat} (hfetch : P.instrs[m.pc]? = some (.or, some j))
    (hj : P.jumps[j]? = some t) {d : Val F} {rs : List (Val F)} (hregs : m.regs = d :: rs) (hi : Inv s) (hm : MDeep m rs) :
    StepSimOn fo host S Inv P fuel H s m := by
  have hr := hsim.2.regs
  rw [hregs] at hr
  obtain ⟨a, rest, hsr, da, tl⟩ := decodesList_cons_inv hr
  have hdeep : Deep S s rest := deep_of_sim hsim.2 tl hm
  have h := C10_refine_or L j hsr da
  cases hd : d.truthy with
  | false =>
    rw [hd, hsim.2.jumps, hj] at h
    simp only [Bool.false_eq_true, if_false] at h
    obtain ⟨s1, h1, e1⟩ := h
    refine stepSim_of fo L fuel H hsim hfetch (r := .ok ({ m with regs := rs }, t))
      (by unfold Abs.step; rw [hfetch]; simp only [hregs, hd, Bool.false_eq_true, if_false, jumpTarget_some hj]; rfl) ?_
    exact handlerSim_ofEff hsim.2 (md := { m with regs := rs }) h1 e1 (Sim.tail e1 tl) (Sim.tail e1 hsim.2.vals)
      rfl rfl
  | true =>
    rw [hd] at h
    simp only [if_true] at h
    obtain ⟨b, s1, h1, d1, e1⟩ := h
    refine stepSim_of fo L fuel H hsim hfetch (r := .ok ({ m with regs := .tru :: rs }, m.pc + 1))
      (by unfold Abs.step; rw [hfetch]; simp only [hregs, hd, if_true]; rfl) ?_
    exact handlerSim_ofEff hsim.2 (md := { m with regs := .tru :: rs }) h1 e1 (.cons d1 (Sim.tail e1 tl))
      (Sim.tail e1 hsim.2.vals) rfl (by simp [hsim.1])


end Garnish.Lemmas.Runtime.On
