/-
The parser's node array represents the elaborated program (3): a node with both children (`binE`).
-/
import Garnish.Lemmas.SourceRep3
namespace Garnish.Abs.Source
open Garnish Garnish.Gen Garnish.Spec Garnish.Abs Garnish.Abs.Tree Garnish.Model.Parser Garnish.Model.Literals

variable {F : Type} {pf : List Char → Option F} {nodes : Array ParseNode} {B : List (Nat × Expr F)}

theorem notCond_of_root {t : RTree} {j : Nat} (hd : ∀ pn, nodes[j]? = some pn → rootDef t = some pn.definition)
    (h : rootCond t = false) : NotCond nodes j := by
  intro pn hpn
  have := hd pn hpn
  simpa [rootCond, this] using h

theorem notDef_of_root {t : RTree} {j : Nat} {d : Definition}
    (hd : ∀ pn, nodes[j]? = some pn → rootDef t = some pn.definition) (h : rootIs t d = false) : NotDef nodes j d := by
  intro pn hpn e
  have := hd pn hpn
  simp [rootIs, this, e] at h

theorem not_jumpIf_of_root {t : RTree} {d : Definition} (hroot : rootDef t = some d) (h1 : d ≠ .jumpIfTrue)
    (h2 : d ≠ .jumpIfFalse) : isJumpIf t = false := by
  simp [isJumpIf, rootIs, hroot, h1, h2]

/-- list nodes -/
theorem list_out {lo hi i li ri : Nat} {n : ParseNode} {tl tr t' : RTree} {a b y : Res F} {d : Definition}
    (hdd : d = .list ∨ d = .commaList) (hn : nodes[i]? = some n) (hd : n.definition = d)
    (hl : n.left = some li) (hr : n.right = some ri) (oa : Out pf nodes B lo i li tl a) (ob : Out pf nodes B (i + 1) hi ri tr b)
    (hdl : ∀ pn, nodes[li]? = some pn → rootDef tl = some pn.definition)
    (hdr : ∀ pn, nodes[ri]? = some pn → rootDef tr = some pn.definition) (hroot : rootDef t' = some d)
    (he : (if rootIs tr d then none
      else if rootIs tl d then
        match a.items with
        | [] => none
        | it :: its => some (⟨.list ((it :: its) ++ [b.e]), a.bodies ++ b.bodies, (it :: its) ++ [b.e], []⟩ : Res F)
      else some ⟨.list [a.e, b.e], a.bodies ++ b.bodies, [a.e, b.e], []⟩) = some y) :
    Out pf nodes B lo hi i t' y := by
  split at he
  · cases he
  · rename_i hrIs
    have nr : NotDef nodes ri d := notDef_of_root hdr (by simpa using hrIs)
    split at he
    · rename_i hlIs
      split at he
      · cases he
      · rename_i it its hit
        cases he
        have hroot' : rootDef tl = some d := by simpa [rootIs] using hlIs
        have hitems := oa.items (by rw [hit]; simp) d hroot'
        rw [hit] at hitems
        have key := RepItems.snoc hn hd hl hr nr hitems ob.rep
        refine ⟨Rep.list hdd key, fun _ d' h' => ?_, fun c h => by simp at h, fun h => absurd rfl h⟩
        rw [hroot] at h'; cases h'; exact key
    · rename_i hlIs
      cases he
      have nl : NotDef nodes li d := notDef_of_root hdl (by simpa using hlIs)
      have key := RepItems.two hn hd hl hr nl nr oa.rep ob.rep
      refine ⟨Rep.list hdd key, fun _ d' h' => ?_, fun c h => by simp at h, fun h => absurd rfl h⟩
      rw [hroot] at h'; cases h'; exact key

/-- conditionals -/
theorem cond_out {lo hi i li ri : Nat} {n : ParseNode} {tl tr t' : RTree} {a b : Res F} (onTrue : Bool)
    (hn : nodes[i]? = some n) (hd : n.definition = jumpIfDef onTrue)
    (hl : n.left = some li) (hr : n.right = some ri) (oa : Out pf nodes B lo i li tl a) (ob : Out pf nodes B (i + 1) hi ri tr b) :
    Out pf nodes B lo hi i t' ⟨.cond onTrue a.e b.e, a.bodies ++ b.bodies, [], [(onTrue, a.e, b.e)]⟩ := by
  have key := RepArm.mk hn hd hl hr oa.rep ob.rep
  refine ⟨Rep.cond hn hd hl hr oa.rep ob.rep, fun h => absurd rfl h, fun c h _ => ?_, fun _ => RepArms.one key⟩
  simp only [List.cons.injEq, and_true] at h
  subst h; exact key

/-- else-chains -/
theorem chain_out {lo hi i li ri : Nat} {n : ParseNode} {tl tr t' : RTree} {a b y : Res F}
    (hn : nodes[i]? = some n) (hd : n.definition = .elseJump)
    (hl : n.left = some li) (hr : n.right = some ri) (oa : Out pf nodes B lo i li tl a) (ob : Out pf nodes B (i + 1) hi ri tr b)
    (hdr : ∀ pn, nodes[ri]? = some pn → rootDef tr = some pn.definition) (hroot : rootDef t' = some .elseJump)
    (he : (match a.arms with
      | [] => none
      | arm :: arms =>
        if isJumpIf tr then
          match b.arms with
          | [last] => some (⟨.chain ((arm :: arms) ++ [last]) none, a.bodies ++ b.bodies, [], (arm :: arms) ++ [last]⟩ : Res F)
          | _ => none
        else if rootCond tr then none
        else some (plain (.chain (arm :: arms) (some b.e)) (a.bodies ++ b.bodies))) = some y) :
    Out pf nodes B lo hi i t' y := by
  split at he
  · cases he
  · rename_i arm arms harms
    have hA := oa.arms (by rw [harms]; simp)
    rw [harms] at hA
    split at he
    · rename_i hJ
      split at he
      · rename_i last hlast
        cases he
        have hlastArm := ob.arm last hlast hJ
        refine ⟨Rep.chainNoFinal hn hd hl hr hA hlastArm, fun h => absurd rfl h, fun c _ hj => ?_,
          fun _ => RepArms.more hn hd hl hr hA hlastArm⟩
        rw [not_jumpIf_of_root hroot (by decide) (by decide)] at hj
        cases hj
      · cases he
    · split at he
      · cases he
      · rename_i hC
        cases he
        exact Out.plain (Rep.chain hn hd hl hr hA (notCond_of_root hdr (by simpa using hC)) ob.rep)

end Garnish.Abs.Source
