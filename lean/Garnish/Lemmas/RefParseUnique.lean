/-
Uniqueness: the precedence condition `PrecOK` determines the tree (atoms, closed brackets as atoms, binary operators).
-/
import Garnish.Lemmas.RefParse

namespace Garnish.Spec
open Garnish Garnish.Gen Garnish.Model.Parser

/-! ### uniqueness: `PrecOK` determines the tree (atoms + binary operators, closed brackets as atoms) -/

theorem stops_false_le {q pa : Nat} {rtl : Bool} (h : stops q rtl pa = false) : pa ≤ q := by
  simp only [stops, Bool.or_eq_false_iff, decide_eq_false_iff_not] at h
  omega

theorem stops_true_le {q pa : Nat} {rtl : Bool} (h : stops q rtl pa = true) : q ≤ pa := by
  simp only [stops, Bool.or_eq_true, decide_eq_true_eq, Bool.and_eq_true, beq_iff_eq] at h
  omega

theorem stops_self {q : Nat} {rtl : Bool} : stops q rtl q = rtl := by
  simp [stops]

theorem items_leaf {l r : RTree} (d : Definition) (k : Nat) (h : (l.isNil && r.isNil) = true) :
    items (.node l d k r) = [.atom (.node l d k r)] := by
  simp [items, h]

theorem items_op {l r : RTree} (d : Definition) (k : Nat) (h : (l.isNil && r.isNil) = false) :
    items (.node l d k r) = items l ++ .op d k :: items r := by
  simp [items, h]

/-- every operator of `t` has a priority ≤ `n` -/
def OpsLe (tbl : Table) (t : RTree) (n : Nat) : Prop :=
  ∀ d k, Item.op d k ∈ items t → ∃ p, tbl.prio d = some p ∧ p ≤ n

theorem binFrag_not_nil {t : RTree} (h : binFrag t = true) : t.isNil = false := by
  cases t <;> simp_all [binFrag, RTree.isNil]

/-- in a `PrecOK` tree of the fragment priorities do not increase downwards -/
theorem opsLe_of_top (tbl : Table) (rtlf : Definition → Bool) :
    ∀ t : RTree, binFrag t = true → allPrio tbl t = true → PrecOK tbl rtlf t → ∀ n,
      (∀ l d k r p, t = .node l d k r → (l.isNil && r.isNil) = false → tbl.prio d = some p → p ≤ n) → OpsLe tbl t n := by
  intro t
  induction t with
  | nil => intro _ _ _ n _ d k hm; simp [items] at hm
  | group gd gk inner _ => intro _ _ _ n _ d k hm; simp [items] at hm
  | node l d k r ihl ihr =>
    intro hb ha hok n htop d' k' hm
    cases hleaf : (l.isNil && r.isNil) with
    | true => rw [items_leaf d k hleaf] at hm; simp at hm
    | false =>
      rw [items_op d k hleaf] at hm
      simp only [binFrag, hleaf, Bool.false_or, Bool.and_eq_true] at hb
      simp only [allPrio, Bool.and_eq_true] at ha
      obtain ⟨⟨hpd, hal⟩, har⟩ := ha
      obtain ⟨p, hp⟩ := Option.isSome_iff_exists.mp hpd
      have hpn : p ≤ n := htop l d k r p rfl hleaf hp
      cases hok with
      | node _ _ _ _ hl hr hL hR =>
        have hopl : OpsLe tbl l p := by
          apply ihl hb.1 hal hl p
          intro ll dl kl rl pl hl' _ hpl
          subst hl'
          have : pl ∈ spinePrios tbl (.node ll dl kl rl) := by simp [spinePrios, hpl]
          exact stops_false_le (hL p hp pl this)
        have hopr : OpsLe tbl r p := by
          apply ihr hb.2 har hr p
          intro lc dc kc rc pc hr' hnl hpc
          subst hr'
          have hbr := hb.2
          simp only [binFrag, hnl, Bool.false_or, Bool.and_eq_true] at hbr
          exact stops_true_le (hR lc dc kc rc pc p rfl (binFrag_not_nil hbr.1) hpc hp)
        simp only [List.mem_append, List.mem_cons] at hm
        rcases hm with hm | hm | hm
        · obtain ⟨p', hp', hle⟩ := hopl d' k' hm; exact ⟨p', hp', Nat.le_trans hle hpn⟩
        · injection hm with h1 h2; subst h1; exact ⟨p, hp, hpn⟩
        · obtain ⟨p', hp', hle⟩ := hopr d' k' hm; exact ⟨p', hp', Nat.le_trans hle hpn⟩

/-- facts about an operator node of the fragment -/
theorem node_facts (tbl : Table) (rtlf : Definition → Bool) (hc : Consistent tbl rtlf) (l : RTree) (d : Definition) (k : Nat)
    (r : RTree) (hleaf : (l.isNil && r.isNil) = false) (hb : binFrag (.node l d k r) = true)
    (ha : allPrio tbl (.node l d k r) = true) (hok : PrecOK tbl rtlf (.node l d k r)) :
    ∃ p, tbl.prio d = some p ∧ OpsLe tbl l p ∧ OpsLe tbl r p ∧
      (∀ d' k', Item.op d' k' ∈ items r → tbl.prio d' = some p → rtlf d' = true) ∧
      (∀ d' k', Item.op d' k' ∈ items l → tbl.prio d' = some p → rtlf d = false) := by
  have hb' := hb
  simp only [binFrag, hleaf, Bool.false_or, Bool.and_eq_true] at hb'
  have ha' := ha
  simp only [allPrio, Bool.and_eq_true] at ha'
  obtain ⟨⟨hpd, hal⟩, har⟩ := ha'
  obtain ⟨p, hp⟩ := Option.isSome_iff_exists.mp hpd
  have hall : OpsLe tbl (.node l d k r) p :=
    opsLe_of_top tbl rtlf _ hb ha hok p (by
      intro l' d' k' r' p' he _ hp'
      injection he with h1 h2 h3 h4
      subst h2
      rw [hp] at hp'; injection hp' with hp'; omega)
  have hopl : OpsLe tbl l p := by
    intro d' k' hm; exact hall d' k' (by rw [items_op d k hleaf]; simp [hm])
  have hopr : OpsLe tbl r p := by
    intro d' k' hm; exact hall d' k' (by rw [items_op d k hleaf]; simp [hm])
  cases hok with
  | node _ _ _ _ hl hr hL hR =>
    refine ⟨p, hp, hopl, hopr, ?_, ?_⟩
    · intro d' k' hm hp'
      cases r with
      | nil => simp [items] at hm
      | group gd gk inner => simp [items] at hm
      | node lc dc kc rc =>
        cases hlr : (lc.isNil && rc.isNil) with
        | true => rw [items_leaf dc kc hlr] at hm; simp at hm
        | false =>
          have hbr := hb'.2
          have hbr' := hbr
          simp only [binFrag, hlr, Bool.false_or, Bool.and_eq_true] at hbr'
          have har' := har
          simp only [allPrio, Bool.and_eq_true] at har'
          obtain ⟨pc, hpc⟩ := Option.isSome_iff_exists.mp har'.1.1
          have hstop := hR lc dc kc rc pc p rfl (binFrag_not_nil hbr'.1) hpc hp
          have h1 : pc ≤ p := stops_true_le hstop
          have hrall : OpsLe tbl (.node lc dc kc rc) pc :=
            opsLe_of_top tbl rtlf _ hbr har hr pc (by
              intro l' d'' k'' r' p'' he _ hp''
              injection he with e1 e2 e3 e4
              subst e2
              rw [hpc] at hp''; injection hp'' with hp''; omega)
          obtain ⟨p2, hp2, hle2⟩ := hrall d' k' hm
          rw [hp'] at hp2; injection hp2 with hp2; subst hp2
          have hpcp : pc = p := by omega
          subst hpcp
          rw [stops_self] at hstop
          rw [hc d' dc pc hp' hpc]; exact hstop
    · intro d' k' hm hp'
      cases l with
      | nil => simp [items] at hm
      | group gd gk inner => simp [items] at hm
      | node ll dl kl rl =>
        cases hll : (ll.isNil && rl.isNil) with
        | true => rw [items_leaf dl kl hll] at hm; simp at hm
        | false =>
          have hal' := hal
          simp only [allPrio, Bool.and_eq_true] at hal'
          obtain ⟨pl, hpl⟩ := Option.isSome_iff_exists.mp hal'.1.1
          have hmem : pl ∈ spinePrios tbl (.node ll dl kl rl) := by simp [spinePrios, hpl]
          have hns := hL p hp pl hmem
          have h1 : pl ≤ p := stops_false_le hns
          have hlall : OpsLe tbl (.node ll dl kl rl) pl :=
            opsLe_of_top tbl rtlf _ hb'.1 hal hl pl (by
              intro l' d'' k'' r' p'' he _ hp''
              injection he with e1 e2 e3 e4
              subst e2
              rw [hpl] at hp''; injection hp'' with hp''; omega)
          obtain ⟨p2, hp2, hle2⟩ := hlall d' k' hm
          rw [hp'] at hp2; injection hp2 with hp2; subst hp2
          have hplp : pl = p := by omega
          subst hplp
          rw [stops_self] at hns
          exact hns

theorem op_mem_items_isOp {t : RTree} {d : Definition} {k : Nat} (h : Item.op d k ∈ items t) :
    ∃ l d' k' r, t = .node l d' k' r ∧ (l.isNil && r.isNil) = false := by
  cases t with
  | nil => simp [items] at h
  | group gd gk inner => simp [items] at h
  | node l d' k' r =>
    cases hl : (l.isNil && r.isNil) with
    | true => rw [items_leaf d' k' hl] at h; simp at h
    | false => exact ⟨l, d', k', r, rfl, hl⟩

/-- **the precedence condition determines the tree**: two trees of the fragment (atoms, closed brackets as atoms, binary
    operators that all have a priority) with the same in-order item sequence that both satisfy `PrecOK` are equal,
    for any table in which operators of equal priority group the same way -/
theorem precOK_unique (tbl : Table) (rtlf : Definition → Bool) (hc : Consistent tbl rtlf) :
    ∀ (t1 t2 : RTree), binFrag t1 = true → binFrag t2 = true → allPrio tbl t1 = true → allPrio tbl t2 = true →
      PrecOK tbl rtlf t1 → PrecOK tbl rtlf t2 → items t1 = items t2 → t1 = t2 := by
  intro t1
  induction t1 with
  | nil => intro t2 hb1; simp [binFrag] at hb1
  | group gd gk inner _ =>
    intro t2 _ hb2 _ _ _ _ hi
    cases t2 with
    | nil => simp [binFrag] at hb2
    | group gd2 gk2 inner2 =>
      simp only [items, List.cons.injEq, and_true] at hi
      injection hi
    | node l2 d2 k2 r2 =>
      cases hl : (l2.isNil && r2.isNil) with
      | true => rw [items_leaf d2 k2 hl] at hi; simp [items] at hi
      | false =>
        have : Item.op d2 k2 ∈ items (RTree.group gd gk inner) := by rw [hi, items_op d2 k2 hl]; simp
        simp [items] at this
  | node l1 d1 k1 r1 ihl ihr =>
    intro t2 hb1 hb2 ha1 ha2 hok1 hok2 hi
    cases hl1 : (l1.isNil && r1.isNil) with
    | true =>
      rw [items_leaf d1 k1 hl1] at hi
      cases t2 with
      | nil => simp [binFrag] at hb2
      | group gd2 gk2 inner2 => simp [items] at hi
      | node l2 d2 k2 r2 =>
        cases hl2 : (l2.isNil && r2.isNil) with
        | true =>
          rw [items_leaf d2 k2 hl2] at hi
          simp only [List.cons.injEq, and_true] at hi
          injection hi
        | false =>
          have : Item.op d2 k2 ∈ [Item.atom (RTree.node l1 d1 k1 r1)] := by rw [hi, items_op d2 k2 hl2]; simp
          simp at this
    | false =>
      have hmem1 : Item.op d1 k1 ∈ items t2 := by rw [← hi, items_op d1 k1 hl1]; simp
      obtain ⟨l2, d2, k2, r2, ht2, hl2⟩ := op_mem_items_isOp hmem1
      subst ht2
      rw [items_op d1 k1 hl1, items_op d2 k2 hl2] at hi
      obtain ⟨p1, hp1, hopl1, hopr1, hR1, hL1⟩ := node_facts tbl rtlf hc l1 d1 k1 r1 hl1 hb1 ha1 hok1
      obtain ⟨p2, hp2, hopl2, hopr2, hR2, hL2⟩ := node_facts tbl rtlf hc l2 d2 k2 r2 hl2 hb2 ha2 hok2
      have hb1' := hb1
      simp only [binFrag, hl1, Bool.false_or, Bool.and_eq_true] at hb1'
      have hb2' := hb2
      simp only [binFrag, hl2, Bool.false_or, Bool.and_eq_true] at hb2'
      have ha1' := ha1
      simp only [allPrio, Bool.and_eq_true] at ha1'
      have ha2' := ha2
      simp only [allPrio, Bool.and_eq_true] at ha2'
      rcases List.append_eq_append_iff.mp hi with ⟨m, hm1, hm2⟩ | ⟨m, hm1, hm2⟩
      · -- items l2 = items l1 ++ m,  op1 :: items r1 = m ++ op2 :: items r2
        cases m with
        | nil =>
          simp only [List.append_nil, List.nil_append, List.cons.injEq] at hm1 hm2
          obtain ⟨hop, hr⟩ := hm2
          injection hop with e1 e2
          subst e1; subst e2
          cases hok1 with
          | node _ _ _ _ hl1' hr1' _ _ =>
            cases hok2 with
            | node _ _ _ _ hl2' hr2' _ _ =>
              rw [ihl l2 hb1'.1 hb2'.1 ha1'.1.2 ha2'.1.2 hl1' hl2' hm1.symm,
                  ihr r2 hb1'.2 hb2'.2 ha1'.2 ha2'.2 hr1' hr2' hr]
        | cons x m' =>
          simp only [List.cons_append, List.cons.injEq] at hm2
          obtain ⟨hx, hr⟩ := hm2
          subst hx
          have h2in : Item.op d2 k2 ∈ items r1 := by rw [hr]; simp
          have h1in : Item.op d1 k1 ∈ items l2 := by rw [hm1]; simp
          obtain ⟨q2, hq2, hle2⟩ := hopr1 d2 k2 h2in
          obtain ⟨q1, hq1, hle1⟩ := hopl2 d1 k1 h1in
          rw [hp2] at hq2; injection hq2 with hq2; subst hq2
          rw [hp1] at hq1; injection hq1 with hq1; subst hq1
          have : p1 = p2 := by omega
          subst this
          have t := hR1 d2 k2 h2in hp2
          have f := hL2 d1 k1 h1in hp1
          rw [t] at f; cases f
      · -- items l1 = items l2 ++ m,  op2 :: items r2 = m ++ op1 :: items r1
        cases m with
        | nil =>
          simp only [List.append_nil, List.nil_append, List.cons.injEq] at hm1 hm2
          obtain ⟨hop, hr⟩ := hm2
          injection hop with e1 e2
          subst e1; subst e2
          cases hok1 with
          | node _ _ _ _ hl1' hr1' _ _ =>
            cases hok2 with
            | node _ _ _ _ hl2' hr2' _ _ =>
              rw [ihl l2 hb1'.1 hb2'.1 ha1'.1.2 ha2'.1.2 hl1' hl2' hm1,
                  ihr r2 hb1'.2 hb2'.2 ha1'.2 ha2'.2 hr1' hr2' hr.symm]
        | cons x m' =>
          simp only [List.cons_append, List.cons.injEq] at hm2
          obtain ⟨hx, hr⟩ := hm2
          subst hx
          have h1in : Item.op d1 k1 ∈ items r2 := by rw [hr]; simp
          have h2in : Item.op d2 k2 ∈ items l1 := by rw [hm1]; simp
          obtain ⟨q1, hq1, hle1⟩ := hopr2 d1 k1 h1in
          obtain ⟨q2, hq2, hle2⟩ := hopl1 d2 k2 h2in
          rw [hp1] at hq1; injection hq1 with hq1; subst hq1
          rw [hp2] at hq2; injection hq2 with hq2; subst hq2
          have : p1 = p2 := by omega
          subst this
          have t := hR2 d1 k1 h1in hp1
          have f := hL1 d2 k2 h2in hp2
          rw [t] at f; cases f

end Garnish.Spec
