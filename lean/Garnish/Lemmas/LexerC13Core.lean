/-
Helper lemmas for property C13 (Garnish/Props/C13.lean), about the lexer model Garnish.Model.Lexer — part 1: effects of the arms, the invariant `Core`, `processChar_core`.
(The C13 lemmas are split over LexerC13Core, LexerC13Loop, LexerC13Blank, LexerC13Tree and LexerC13, each importing
the previous one; importing Garnish.Lemmas.LexerC13 gives all of them.)
-/
import Garnish.Lemmas.Lexer
set_option linter.unusedSimpArgs false
set_option linter.unusedVariables false
namespace Garnish.Model.Lexer


/-- position after reading `p`: (number of `'\n'`, number of characters after the last `'\n'`) -/
def posOf (p : List Char) : Nat × Nat :=
  (p.count '\n', (p.reverse.takeWhile (· != '\n')).length)

theorem posOf_nil : posOf [] = (0, 0) := rfl

theorem posOf_snoc (p : List Char) (c : Char) :
    posOf (p ++ [c]) = if c = '\n' then ((posOf p).1 + 1, 0) else ((posOf p).1, (posOf p).2 + 1) := by
  unfold posOf
  by_cases h : c = '\n'
  · subst h; simp
  · simp [h, List.count_append]

/-- concatenated token texts -/
def textsOf (toks : List LexerToken) : List Char := (toks.map (·.text)).flatten

@[simp] theorem textsOf_nil : textsOf [] = [] := rfl
theorem textsOf_snoc (toks : List LexerToken) (t : LexerToken) : textsOf (toks ++ [t]) = textsOf toks ++ t.text := by
  simp [textsOf]

/-- every token's row/column is the position of its first character, `p` being the text before the tokens -/
def TokPosFrom : List Char → List LexerToken → Prop
  | _, [] => True
  | p, t :: ts => (t.row, t.column) = posOf p ∧ TokPosFrom (p ++ t.text) ts

theorem TokPosFrom_snoc : ∀ (p : List Char) (ts : List LexerToken) (t : LexerToken),
    TokPosFrom p ts → (t.row, t.column) = posOf (p ++ textsOf ts) → TokPosFrom p (ts ++ [t])
  | p, [], t, _, h => by simpa [TokPosFrom] using h
  | p, t0 :: ts, t, h0, h => by
    simp only [List.cons_append, TokPosFrom] at h0 ⊢
    refine ⟨h0.1, TokPosFrom_snoc _ ts t h0.2 ?_⟩
    simpa [textsOf, List.append_assoc] using h

/-- `c` is the end-of-input sentinel -/
def Sentinel (σ : Lexer) (c : Char) : Prop := c = '\x00' ∧ σ.atEnd = true

/-- extra sanity of the Unicode tables: `'.'` is neither numeric nor alphanumeric -/
structure CharClass.Sane2 (cc : CharClass) : Prop extends cc.Sane where
  dotNumeric : cc.isNumeric '.' = false
  dotAlphanumeric : cc.isAlphanumeric '.' = false

/-- everything `start_token` leaves alone -/
structure StartFrame (σ σ2 : Lexer) : Prop where
  textRow : σ2.textRow = σ.textRow
  textColumn : σ2.textColumn = σ.textColumn
  tokenStartRow : σ2.tokenStartRow = σ.textRow
  tokenStartColumn : σ2.tokenStartColumn = σ.textColumn
  shouldCreate : σ2.shouldCreate = σ.shouldCreate
  atEnd : σ2.atEnd = σ.atEnd
  operatorTree : σ2.operatorTree = σ.operatorTree

theorem startToken_startFrame (cc : CharClass) (σ : Lexer) (c : Char) : StartFrame σ (startToken cc σ c) := by
  generalize hr : startToken cc σ c = r
  unfold startToken at hr
  simp only [] at hr
  repeat' split at hr
  all_goals (subst hr; constructor <;> rfl)

/-- what `start_token` does to state / characters / result -/
theorem startToken_effect (cc : CharClass) (σ : Lexer) (c : Char) (hok : σ.result = .ok) :
    (startToken cc σ c).result = .err ∨
    ((startToken cc σ c).result = .ok ∧ (startToken cc σ c).state = .noToken ∧
        (startToken cc σ c).currentCharacters = [] ∧ Sentinel σ c) ∨
    ((startToken cc σ c).result = .ok ∧ (startToken cc σ c).state ≠ .noToken ∧ (startToken cc σ c).state ≠ .float ∧
        (startToken cc σ c).currentCharacters = [c] ∧
        ((startToken cc σ c).state = .number → cc.isNumeric c = true)) := by
  generalize hr : startToken cc σ c = r
  unfold startToken at hr
  simp only [] at hr
  repeat' split at hr
  all_goals (subst hr; simp_all [push, Sentinel])

/-- shape of the characters of a float under construction: `a.b`, no other period; `.b` needs a digit -/
def FloatShape (cs : List Char) : Prop :=
  ∃ a b, cs = a ++ '.' :: b ∧ '.' ∉ a ∧ '.' ∉ b ∧ (a = [] → b ≠ [])

def Shape (σ : Lexer) : Prop :=
  (σ.state = .number → '.' ∉ σ.currentCharacters) ∧ (σ.state = .float → FloatShape σ.currentCharacters)

/-- fields the arms of `process_char` (other than NoToken and the float split) leave alone -/
structure ArmFrame (σ σ1 : Lexer) : Prop where
  textRow : σ1.textRow = σ.textRow
  textColumn : σ1.textColumn = σ.textColumn
  tokenStartRow : σ1.tokenStartRow = σ.tokenStartRow
  tokenStartColumn : σ1.tokenStartColumn = σ.tokenStartColumn
  result : σ1.result = σ.result
  atEnd : σ1.atEnd = σ.atEnd
  operatorTree : σ1.operatorTree = σ.operatorTree

theorem armFrame_iff (σ σ1 : Lexer) : ArmFrame σ σ1 ↔
    (σ1.textRow = σ.textRow ∧ σ1.textColumn = σ.textColumn ∧ σ1.tokenStartRow = σ.tokenStartRow ∧
     σ1.tokenStartColumn = σ.tokenStartColumn ∧ σ1.result = σ.result ∧ σ1.atEnd = σ.atEnd ∧
     σ1.operatorTree = σ.operatorTree) :=
  ⟨fun h => ⟨h.1, h.2, h.3, h.4, h.5, h.6, h.7⟩, fun h => ⟨h.1, h.2.1, h.2.2.1, h.2.2.2.1, h.2.2.2.2.1, h.2.2.2.2.2.1, h.2.2.2.2.2.2⟩⟩

/-- the three ways an arm treats a regular character: continue the token with it, end the token before it,
end the token with it -/
def ArmKind (σ : Lexer) (c : Char) (σ1 : Lexer) (sn : Bool) : Prop :=
  (sn = false ∧ σ1.shouldCreate = true ∧ σ1.currentCharacters = σ.currentCharacters ++ [c] ∧
      σ1.state ≠ .noToken ∧ Shape σ1) ∨
  (sn = true ∧ σ1.shouldCreate = true ∧ σ1.currentCharacters = σ.currentCharacters ∧ σ1.state ≠ .noToken) ∨
  (sn = true ∧ σ1.shouldCreate = false ∧ σ1.currentCharacters = σ.currentCharacters ++ [c] ∧ σ1.state ≠ .noToken)

def ArmEff (σ : Lexer) (c : Char) (p : Lexer × Bool) : Prop := ArmFrame σ p.1 ∧ ArmKind σ c p.1 p.2

/-- `hr : arm … = r`: unfold, split, substitute, simplify -/
macro "arm_tac" f:ident hr:ident : tactic =>
  `(tactic| (unfold $f at $hr:ident; (try simp only [] at $hr:ident); (repeat' split at $hr:ident);
             all_goals (subst $hr:ident; simp_all [ArmEff, ArmKind, Shape, push, Sentinel, armFrame_iff])))

theorem armIdentifier_eff (cc : CharClass) (σ : Lexer) (c : Char) (hs : σ.state = .identifier)
    (hc : σ.shouldCreate = true) : ArmEff σ c (armIdentifier cc σ c) := by
  generalize hr : armIdentifier cc σ c = r
  arm_tac armIdentifier hr

theorem armStartCharList_eff (σ : Lexer) (c : Char) (hs : σ.state = .startCharList)
    (hc : σ.shouldCreate = true) (hns : ¬Sentinel σ c) : ArmEff σ c (armStartCharList σ c) := by
  generalize hr : armStartCharList σ c = r
  arm_tac armStartCharList hr

theorem armCharList_eff (σ : Lexer) (c : Char) (hs : σ.state = .charList)
    (hc : σ.shouldCreate = true) : ArmEff σ c (armCharList σ c) := by
  generalize hr : armCharList σ c = r
  arm_tac armCharList hr

theorem armStartByteList_eff (σ : Lexer) (c : Char) (hs : σ.state = .startByteList)
    (hc : σ.shouldCreate = true) (hns : ¬Sentinel σ c) : ArmEff σ c (armStartByteList σ c) := by
  generalize hr : armStartByteList σ c = r
  arm_tac armStartByteList hr

theorem armByteList_eff (σ : Lexer) (c : Char) (hs : σ.state = .byteList)
    (hc : σ.shouldCreate = true) : ArmEff σ c (armByteList σ c) := by
  generalize hr : armByteList σ c = r
  arm_tac armByteList hr

theorem armSpaces_eff (σ : Lexer) (c : Char) (hs : σ.state = .spaces)
    (hc : σ.shouldCreate = true) : ArmEff σ c (armSpaces σ c) := by
  generalize hr : armSpaces σ c = r
  arm_tac armSpaces hr

theorem armSubexpression_eff (σ : Lexer) (c : Char) (hs : σ.state = .subexpression)
    (hc : σ.shouldCreate = true) : ArmEff σ c (armSubexpression σ c) := by
  generalize hr : armSubexpression σ c = r
  arm_tac armSubexpression hr

theorem armAnnotation_eff (cc : CharClass) (σ : Lexer) (c : Char) (hs : σ.state = .annotation)
    (hc : σ.shouldCreate = true) : ArmEff σ c (armAnnotation cc σ c) := by
  generalize hr : armAnnotation cc σ c = r
  arm_tac armAnnotation hr

theorem armLineAnnotation_eff (σ : Lexer) (c : Char) (hs : σ.state = .lineAnnotation)
    (hc : σ.shouldCreate = true) (hns : ¬Sentinel σ c) : ArmEff σ c (armLineAnnotation σ c) := by
  generalize hr : armLineAnnotation σ c = r
  arm_tac armLineAnnotation hr

@[simp] theorem pop_push (s : List Char) (c : Char) : pop (push s c) = s := by
  simp [pop, push]

theorem utf8Len_append (a b : List Char) : utf8Len (a ++ b) = utf8Len a + utf8Len b := by
  induction a with
  | nil => simp [utf8Len]
  | cons x r ih => simp [utf8Len, ih]; omega

theorem utf8Len_eq_zero {a : List Char} (h : utf8Len a = 0) : a = [] := by
  cases a with
  | nil => rfl
  | cons x r =>
    have := Char.utf8Size_pos x
    simp [utf8Len] at h; omega

theorem sane2_ne_dot {cc : CharClass} (hcc : cc.Sane2) {c : Char}
    (h : (cc.isNumeric c || c == '_' || cc.isAlphanumeric c) = true) : c ≠ '.' := by
  intro hc; subst hc
  simp [hcc.dotNumeric, hcc.dotAlphanumeric] at h

theorem FloatShape_push {cs : List Char} {c : Char} (h : FloatShape cs) (hc : c ≠ '.') : FloatShape (cs ++ [c]) := by
  obtain ⟨a, b, rfl, ha, hb, hab⟩ := h
  refine ⟨a, b ++ [c], by simp, ha, ?_, fun _ => by simp⟩
  simp only [List.mem_append, List.mem_singleton, not_or]
  exact ⟨hb, fun h => hc h.symm⟩

theorem FloatShape_of_number {cs : List Char} (h : '.' ∉ cs) (hne : cs ≠ []) : FloatShape (cs ++ ['.']) :=
  ⟨cs, [], rfl, h, by simp, fun h0 => absurd h0 hne⟩

theorem FloatShape_dot_digit {cs : List Char} {c : Char} (hne : cs ≠ []) (hs : startsWith (cs ++ [c]) '.' = true)
    (hl : utf8Len (cs ++ [c]) = 2) (hc : c ≠ '.') : FloatShape (cs ++ [c]) := by
  cases cs with
  | nil => exact absurd rfl hne
  | cons x r =>
    have hx : x = '.' := by simpa [startsWith] using hs
    subst hx
    have h1 := Char.utf8Size_pos c
    have h2 : ('.' : Char).utf8Size = 1 := by decide
    rw [utf8Len_append] at hl
    simp only [utf8Len, h2] at hl
    have hr : r = [] := utf8Len_eq_zero (by omega)
    subst hr
    exact ⟨[], [c], rfl, by simp, by simpa using fun h => hc h.symm, fun _ => by simp⟩

theorem armOperator_eff (cc : CharClass) (hcc : cc.Sane2) (σ : Lexer) (c : Char) (hs : σ.state = .operator)
    (hc : σ.shouldCreate = true) (hne : σ.currentCharacters ≠ []) : ArmEff σ c (armOperator cc σ c) := by
  generalize hr : armOperator cc σ c = r
  unfold armOperator at hr
  simp only [] at hr
  repeat' split at hr
  all_goals (subst hr; simp_all [ArmEff, ArmKind, Shape, Sentinel, armFrame_iff])
  all_goals (try simp [push])
  rename_i h
  refine FloatShape_dot_digit hne (by simpa [push] using h.1.1.1) (by simpa [push] using h.1.1.2) ?_
  intro hdot; subst hdot
  simp [hcc.dotNumeric] at h

theorem armNumber_eff (cc : CharClass) (hcc : cc.Sane2) (σ : Lexer) (c : Char) (hs : σ.state = .number)
    (hc : σ.shouldCreate = true) (hne : σ.currentCharacters ≠ []) (hsh : Shape σ) :
    ArmEff σ c (armNumber cc σ c) := by
  have hnd := hsh.1 hs
  generalize hr : armNumber cc σ c = r
  unfold armNumber at hr
  repeat' split at hr
  all_goals (subst hr; simp_all [ArmEff, ArmKind, Shape, Sentinel, armFrame_iff, push])
  · rename_i h
    intro hdot; subst hdot
    simp [hcc.dotNumeric, hcc.dotAlphanumeric] at h
  · exact FloatShape_of_number hnd hne

theorem dropWhile_dot_ne {x : Char} {r : List Char} (h : x ≠ '.') :
    (x :: r).dropWhile (fun y => y == '.') = x :: r := by
  have : (x == '.') = false := by simpa using h
  simp [List.dropWhile, this]

theorem dropWhile_dot_eq (r : List Char) :
    ('.' :: r).dropWhile (fun y => y == '.') = r.dropWhile (fun y => y == '.') := by
  simp [List.dropWhile]

theorem trimMatches_number {a : List Char} (hne : a ≠ []) (hnd : '.' ∉ a) : trimMatches (a ++ ['.']) '.' = a := by
  unfold trimMatches
  cases a with
  | nil => exact absurd rfl hne
  | cons x r =>
    have hx : x ≠ '.' := by intro h; subst h; simp at hnd
    rw [List.cons_append, dropWhile_dot_ne hx]
    rw [← List.cons_append, List.reverse_append]
    simp only [List.reverse_cons, List.reverse_nil, List.nil_append, List.singleton_append]
    rw [dropWhile_dot_eq]
    -- the reversed number starts with its last character, which is not a period
    cases hrev : (r.reverse ++ [x]) with
    | nil => simp at hrev
    | cons y ys =>
      have hy : y ∈ x :: r := by
        have : y ∈ r.reverse ++ [x] := by rw [hrev]; simp
        simpa [or_comm] using this
      have hyd : y ≠ '.' := by intro h; subst h; exact hnd hy
      rw [dropWhile_dot_ne hyd, ← hrev]
      simp

theorem FloatShape_endsWith {cs : List Char} (h : FloatShape cs) (he : endsWith cs '.' = true) :
    ∃ a, cs = a ++ ['.'] ∧ a ≠ [] ∧ '.' ∉ a := by
  obtain ⟨a, b, rfl, ha, hb, hab⟩ := h
  have hb0 : b = [] := by
    cases hbl : b.getLast? with
    | none => simpa using hbl
    | some y =>
      have hy : y ∈ b := List.mem_of_getLast? hbl
      have : (a ++ '.' :: b).getLast? = some y := by
        cases b with
        | nil => simp at hbl
        | cons z zs => simp [List.getLast?_append, List.getLast?_cons_cons] at hbl ⊢; simp [hbl]
      simp [endsWith, this] at he
      subst he
      exact absurd hy hb
  subst hb0
  refine ⟨a, rfl, ?_, ha⟩
  intro h0; exact hab h0 rfl

/-- the float split: `1.` followed by `.` emits the number and continues as the range operator `..` -/
structure FloatSplit (σ : Lexer) (a : List Char) (σ1 : Lexer) : Prop where
  chars0 : σ.currentCharacters = a ++ ['.']
  ane : a ≠ []
  anodot : '.' ∉ a
  chars : σ1.currentCharacters = ['.', '.']
  tokenStartRow : σ1.tokenStartRow = σ.textRow
  tokenStartColumn : σ1.tokenStartColumn = σ.textColumn - 1
  textRow : σ1.textRow = σ.textRow
  textColumn : σ1.textColumn = σ.textColumn
  shouldCreate : σ1.shouldCreate = σ.shouldCreate
  result : σ1.result = .ok
  notNoToken : σ1.state ≠ .noToken
  notFloat : σ1.state ≠ .float
  notNumber : σ1.state ≠ .number
  atEnd : σ1.atEnd = σ.atEnd
  operatorTree : σ1.operatorTree = σ.operatorTree

def FloatOut (σ : Lexer) (c : Char) (st : Step) : Prop :=
  (∃ σ1 sn, st = .cont σ1 none sn ∧ ArmEff σ c (σ1, sn)) ∨
  ((∃ σ1 nt, st = .cont σ1 nt false ∧ σ1.result = .err) ∨ (∃ σ1, st = .returnNone σ1 ∧ σ1.result = .err)) ∨
  (c = '.' ∧ ∃ a σ1, st = .cont σ1 (some ⟨a, .number, σ.tokenStartRow, σ.tokenStartColumn⟩) false ∧
    FloatSplit σ a σ1)

theorem armFloat_eff (cc : CharClass) (hcc : cc.Sane2) (σ : Lexer) (c : Char) (hs : σ.state = .float)
    (hc : σ.shouldCreate = true) (hsh : Shape σ) (hpos : 1 ≤ σ.textColumn) (hok : σ.result = .ok) :
    ∃ st, armFloat cc σ c = .ok st ∧ FloatOut σ c st := by
  have hfs := hsh.2 hs
  unfold armFloat
  split
  · rename_i hcond
    refine ⟨_, rfl, Or.inl ⟨_, _, rfl, ?_⟩⟩
    have := FloatShape_push hfs (sane2_ne_dot hcc hcond)
    simp [ArmEff, ArmKind, Shape, armFrame_iff, push, hs, hc, this]
  · split
    · rename_i hcond
      have hc' : c = '.' := by simp at hcond; exact hcond.1
      subst hc'
      have hends : endsWith σ.currentCharacters '.' = true := by simp at hcond; exact hcond
      obtain ⟨a, ha, hane, hand⟩ := FloatShape_endsWith hfs hends
      have hne : ¬ (σ.textColumn = 0) := by omega
      simp only [hne, ↓reduceIte]
      have hfr := startToken_startFrame cc { σ with tokenStartRow := σ.textRow } '.'
      have heff := startToken_effect cc { σ with tokenStartRow := σ.textRow } '.' (by simpa using hok)
      generalize hst : startToken cc { σ with tokenStartRow := σ.textRow } '.' = st at hfr heff
      rcases heff with herr | ⟨_, _, _, hsent⟩ | ⟨hrok, hnt, hnf, hchars, hnum⟩
      · -- start_token failed: the error stays
        split
        · exact ⟨_, rfl, Or.inr (Or.inl (Or.inl ⟨_, _, rfl, by simpa using herr⟩))⟩
        · exact ⟨_, rfl, Or.inr (Or.inl (Or.inr ⟨_, rfl, rfl⟩))⟩
      · exact absurd hsent.1 (by decide)
      · split
        · refine ⟨_, rfl, Or.inr (Or.inr ⟨rfl, a, ?_⟩)⟩
          rw [ha, trimMatches_number hane hand]
          refine ⟨_, rfl, ?_⟩
          · have hnn : st.state ≠ .number := fun h => by
              have := hnum h; rw [hcc.dotNumeric] at this; cases this
            have h1 : st.textRow = σ.textRow := hfr.textRow
            have h2 : st.textColumn = σ.textColumn := hfr.textColumn
            have h3 : st.tokenStartRow = σ.textRow := hfr.tokenStartRow
            have h4 : st.shouldCreate = σ.shouldCreate := hfr.shouldCreate
            have h5 : st.atEnd = σ.atEnd := hfr.atEnd
            have h6 : st.operatorTree = σ.operatorTree := hfr.operatorTree
            constructor <;> simp_all [push]
        · exact ⟨_, rfl, Or.inr (Or.inl (Or.inr ⟨_, rfl, rfl⟩))⟩
    · refine ⟨_, rfl, Or.inl ⟨_, _, rfl, ?_⟩⟩
      simp [ArmEff, ArmKind, armFrame_iff, hs, hc]

/-! ## the C13 invariant -/

/-- state of the lexer after `consumed` has been read and `toks` have been emitted (and no error recorded) -/
structure Core (σ : Lexer) (consumed : List Char) (toks : List LexerToken) : Prop where
  lossless : textsOf toks ++ σ.currentCharacters = consumed
  nonempty : ∀ t ∈ toks, t.text ≠ []
  noTok : σ.state = .noToken → σ.currentCharacters = []
  tok : σ.state ≠ .noToken → σ.currentCharacters ≠ []
  tokPos : TokPosFrom [] toks
  startPos : σ.state ≠ .noToken → (σ.tokenStartRow, σ.tokenStartColumn) = posOf (textsOf toks)
  textPos : (σ.textRow, σ.textColumn) = posOf consumed
  shape : Shape σ
  create : σ.shouldCreate = true
  ok : σ.result = .ok

theorem startToken_result_err (cc : CharClass) (σ : Lexer) (c : Char) (h : σ.result = .err) :
    (startToken cc σ c).result = .err := by
  generalize hr : startToken cc σ c = r
  unfold startToken at hr
  simp only [] at hr
  repeat' split at hr
  all_goals (subst hr; simp_all)

theorem bumpColumn_textPos (σ : Lexer) (c : Char) (consumed : List Char)
    (h : (σ.textRow, σ.textColumn) = posOf consumed) :
    ((bumpColumn σ c).textRow, (bumpColumn σ c).textColumn) = posOf (consumed ++ [c]) := by
  rw [posOf_snoc, ← h]
  unfold bumpColumn
  by_cases hc : c = '\n' <;> simp [hc]

@[simp] theorem bumpColumn_tokenStartRow (σ : Lexer) (c : Char) : (bumpColumn σ c).tokenStartRow = σ.tokenStartRow := by
  unfold bumpColumn; split <;> rfl
@[simp] theorem bumpColumn_tokenStartColumn (σ : Lexer) (c : Char) :
    (bumpColumn σ c).tokenStartColumn = σ.tokenStartColumn := by
  unfold bumpColumn; split <;> rfl
@[simp] theorem bumpColumn_shouldCreate (σ : Lexer) (c : Char) : (bumpColumn σ c).shouldCreate = σ.shouldCreate := by
  unfold bumpColumn; split <;> rfl
@[simp] theorem bumpColumn_result (σ : Lexer) (c : Char) : (bumpColumn σ c).result = σ.result := by
  unfold bumpColumn; split <;> rfl
@[simp] theorem bumpColumn_atEnd (σ : Lexer) (c : Char) : (bumpColumn σ c).atEnd = σ.atEnd := by
  unfold bumpColumn; split <;> rfl

theorem Shape_bump {σ : Lexer} {c : Char} (h : Shape σ) : Shape (bumpColumn σ c) := by
  unfold Shape at *; simpa using h

/-- a freshly started token (regular character) re-establishes the invariant -/
theorem Core_start (cc : CharClass) (hcc : cc.Sane2) (σ2 : Lexer) (c : Char) (consumed : List Char)
    (toks : List LexerToken)
    (hlos : textsOf toks = consumed) (hne : ∀ t ∈ toks, t.text ≠ []) (hpos : TokPosFrom [] toks)
    (htext : (σ2.textRow, σ2.textColumn) = posOf consumed) (hcr : σ2.shouldCreate = true) (hok : σ2.result = .ok)
    (hns : ¬Sentinel σ2 c) :
    (bumpColumn (startToken cc σ2 c) c).result = .err ∨
    Core (bumpColumn (startToken cc σ2 c) c) (consumed ++ [c]) toks := by
  have hfr := startToken_startFrame cc σ2 c
  rcases startToken_effect cc σ2 c hok with herr | ⟨_, _, _, hsent⟩ | ⟨hrok, hnt, hnf, hchars, hnum⟩
  · exact Or.inl (by simpa using herr)
  · exact absurd hsent hns
  · refine Or.inr ⟨?_, hne, ?_, ?_, hpos, ?_, ?_, ?_, ?_, ?_⟩
    · simp [hchars, hlos]
    · intro h; simp at h; exact absurd h hnt
    · intro _; simp [hchars]
    · intro _
      simp only [bumpColumn_tokenStartRow, bumpColumn_tokenStartColumn, hfr.tokenStartRow, hfr.tokenStartColumn]
      rw [hlos]; exact htext
    · apply bumpColumn_textPos
      rw [hfr.textRow, hfr.textColumn]; exact htext
    · apply Shape_bump
      refine ⟨fun h => ?_, fun h => absurd h hnf⟩
      rw [hchars]
      have hn := hnum h
      intro hmem
      simp at hmem
      subst hmem
      rw [hcc.dotNumeric] at hn; cases hn
    · simp [hfr.shouldCreate, hcr]
    · simpa using hrok

theorem TokPosFrom_emit {σ : Lexer} {consumed : List Char} {toks : List LexerToken} (hcore : Core σ consumed toks)
    (hst : σ.state ≠ .noToken) (text : List Char) (ty : Gen.TokenType) :
    TokPosFrom [] (toks ++ [⟨text, ty, σ.tokenStartRow, σ.tokenStartColumn⟩]) := by
  apply TokPosFrom_snoc _ _ _ hcore.tokPos
  simpa using hcore.startPos hst

/-- the part of `process_char` after the arm, for an arm that treated a regular character in one of the three ways -/
theorem finishChar_core (cc : CharClass) (hcc : cc.Sane2) (σ : Lexer) (c : Char) (consumed : List Char)
    (toks : List LexerToken) (hcore : Core σ consumed toks) (hst : σ.state ≠ .noToken)
    (σ1 : Lexer) (sn : Bool) (heff : ArmEff σ c (σ1, sn)) (hns : ¬Sentinel σ c) :
    (finishChar cc σ1 c none sn).1.result = .err ∨
    Core (finishChar cc σ1 c none sn).1 (consumed ++ [c]) (toks ++ (finishChar cc σ1 c none sn).2.toList) := by
  obtain ⟨hfr, hk⟩ := heff
  simp only [] at hfr hk
  have hok1 : σ1.result = .ok := by rw [hfr.result]; exact hcore.ok
  rcases hk with ⟨rfl, hcr, hch, hnt, hsh⟩ | ⟨rfl, hcr, hch, hnt⟩ | ⟨rfl, hcr, hch, hnt⟩
  · -- the character continues the token
    right
    simp only [finishChar, Bool.false_eq_true, ↓reduceIte, Option.toList_none, List.append_nil]
    refine ⟨?_, hcore.nonempty, ?_, ?_, hcore.tokPos, ?_, ?_, Shape_bump hsh, by simpa using hcr, by simpa using hok1⟩
    · simp [hch, ← hcore.lossless]
    · intro h; simp at h; exact absurd h hnt
    · intro _; simp [hch]
    · intro _
      simp only [bumpColumn_tokenStartRow, bumpColumn_tokenStartColumn, hfr.tokenStartRow, hfr.tokenStartColumn]
      exact hcore.startPos hst
    · apply bumpColumn_textPos
      rw [hfr.textRow, hfr.textColumn]; exact hcore.textPos
  · -- the token ends before the character, which starts the next token
    simp only [finishChar, ↓reduceIte, pushNewToken]
    have hne : (σ1.state != LexingState.noToken) = true := by simpa using hnt
    simp only [hne, ↓reduceIte]
    cases hcv : canCreateValidToken { σ1 with canFloat := !blocksFloat σ1.currentTokenType } with
    | err =>
      left
      simp only [LexResult.isOk, Bool.false_eq_true, ↓reduceIte, hcr]
      simp only [bumpColumn_result]
      exact startToken_result_err cc _ c rfl
    | ok =>
      simp only [LexResult.isOk, ↓reduceIte]
      cases hty : σ1.currentTokenType with
      | none => left; rfl
      | some ty =>
        simp only [hcr, ↓reduceIte, Option.toList_some]
        have hchne : σ.currentCharacters ≠ [] := hcore.tok hst
        rw [hfr.tokenStartRow, hfr.tokenStartColumn, hch]
        apply Core_start cc hcc
        · rw [textsOf_snoc]; exact hcore.lossless
        · intro t ht
          simp only [List.mem_append, List.mem_singleton] at ht
          rcases ht with ht | rfl
          · exact hcore.nonempty t ht
          · exact hchne
        · exact TokPosFrom_emit hcore hst _ _
        · simp only [hfr.textRow, hfr.textColumn]; exact hcore.textPos
        · rfl
        · rfl
        · intro hs; exact hns ⟨hs.1, by simpa [hfr.atEnd] using hs.2⟩
  · -- the token ends with the character
    simp only [finishChar, ↓reduceIte, pushNewToken]
    have hne : (σ1.state != LexingState.noToken) = true := by simpa using hnt
    simp only [hne, ↓reduceIte]
    cases hcv : canCreateValidToken { σ1 with canFloat := !blocksFloat σ1.currentTokenType } with
    | err =>
      left
      simp [LexResult.isOk, hcr]
    | ok =>
      simp only [LexResult.isOk, ↓reduceIte]
      cases hty : σ1.currentTokenType with
      | none => left; rfl
      | some ty =>
        right
        simp only [hcr, Bool.false_eq_true, ↓reduceIte, Option.toList_some]
        rw [hfr.tokenStartRow, hfr.tokenStartColumn, hch]
        refine ⟨?_, ?_, ?_, ?_, TokPosFrom_emit hcore hst _ _, ?_, ?_, ?_, by simp, by simp⟩
        · simp [textsOf_snoc, ← hcore.lossless]
        · intro t ht
          simp only [List.mem_append, List.mem_singleton] at ht
          rcases ht with ht | rfl
          · exact hcore.nonempty t ht
          · simp
        · intro _; simp
        · intro h; simp at h
        · intro h; simp at h
        · apply bumpColumn_textPos
          simp only [hfr.textRow, hfr.textColumn]; exact hcore.textPos
        · apply Shape_bump
          exact ⟨fun h => by simp at h, fun h => by simp at h⟩

theorem Core_lexed {σ : Lexer} {consumed : List Char} {toks : List LexerToken} (n : Nat)
    (h : Core σ consumed toks) : Core { σ with charactersLexed := n } consumed toks :=
  ⟨h.1, h.2, h.3, h.4, h.5, h.6, h.7, h.8, h.9, h.10⟩

/-- the float split keeps the invariant -/
theorem floatSplit_core (σ : Lexer) (consumed : List Char) (toks : List LexerToken) (hcore : Core σ consumed toks)
    (hst : σ.state ≠ .noToken) (a : List Char) (σ1 : Lexer) (hsp : FloatSplit σ a σ1) :
    Core (bumpColumn σ1 '.') (consumed ++ ['.'])
      (toks ++ [⟨a, .number, σ.tokenStartRow, σ.tokenStartColumn⟩]) := by
  have hcons : consumed = (textsOf toks ++ a) ++ ['.'] := by
    rw [← hcore.lossless, hsp.chars0, List.append_assoc]
  refine ⟨?_, ?_, ?_, ?_, TokPosFrom_emit hcore hst _ _, ?_, ?_, ?_, ?_, ?_⟩
  · simp [textsOf_snoc, hsp.chars, hcons]
  · intro t ht
    simp only [List.mem_append, List.mem_singleton] at ht
    rcases ht with ht | rfl
    · exact hcore.nonempty t ht
    · exact hsp.ane
  · intro h; simp at h; exact absurd h hsp.notNoToken
  · intro _; simp [hsp.chars]
  · intro _
    simp only [bumpColumn_tokenStartRow, bumpColumn_tokenStartColumn, hsp.tokenStartRow, hsp.tokenStartColumn,
      textsOf_snoc]
    have htp := hcore.textPos
    rw [hcons, posOf_snoc] at htp
    simp only [show ¬ (('.' : Char) = '\n') by decide, ↓reduceIte] at htp
    have h1 : σ.textRow = (posOf (textsOf toks ++ a)).1 := congrArg Prod.fst htp
    have h2 : σ.textColumn = (posOf (textsOf toks ++ a)).2 + 1 := congrArg Prod.snd htp
    rw [h1, h2]; simp
  · apply bumpColumn_textPos
    rw [hsp.textRow, hsp.textColumn]; exact hcore.textPos
  · apply Shape_bump
    exact ⟨fun h => absurd h hsp.notNumber, fun h => absurd h hsp.notFloat⟩
  · simp [hsp.shouldCreate, hcore.create]
  · simpa using hsp.result

/-- `process_char` on a regular character keeps the invariant or records an error -/
theorem processChar_core (cc : CharClass) (hcc : cc.Sane2) (σ : Lexer) (c : Char) (consumed : List Char)
    (toks : List LexerToken) (hcore : Core σ consumed toks) (hinv : Inv σ) (hns : ¬Sentinel σ c)
    (σ' : Lexer) (ot : Option LexerToken) (h : processChar cc σ c = .ok (σ', ot)) :
    σ'.result = .err ∨ Core σ' (consumed ++ [c]) (toks ++ ot.toList) := by
  unfold processChar at h
  simp only [] at h
  have hcore0 := Core_lexed (σ.charactersLexed + 1) hcore
  generalize hσ0 : { σ with charactersLexed := σ.charactersLexed + 1 } = σ0 at h hcore0
  have hs0 : σ0.state = σ.state := by subst hσ0; rfl
  have hns0 : ¬Sentinel σ0 c := by subst hσ0; exact hns
  have hinv0 : Inv σ0 := by subst hσ0; exact hinv
  clear hσ0 hcore hns hinv
  have key : ∀ p : Lexer × Bool, σ0.state ≠ .noToken → ArmEff σ0 c p →
      stateStep cc σ0 c = Step.ofPair p → σ'.result = .err ∨ Core σ' (consumed ++ [c]) (toks ++ ot.toList) := by
    intro p hst heff hss
    rw [hss] at h
    simp only [Step.ofPair, Outcome.ok.injEq] at h
    have := finishChar_core cc hcc σ0 c consumed toks hcore0 hst p.1 p.2 heff hns0
    rw [h] at this
    exact this
  unfold stateStep at h key
  cases hs : σ0.state <;> rw [hs] at h key <;> simp only [] at h key
  case noToken =>
    simp only [Step.ofPair, armNoToken, finishChar, Bool.false_eq_true, ↓reduceIte, Outcome.ok.injEq,
      Prod.mk.injEq] at h
    obtain ⟨rfl, rfl⟩ := h
    simp only [Option.toList_none, List.append_nil]
    have hch := hcore0.noTok hs
    apply Core_start cc hcc σ0 c consumed toks ?_ hcore0.nonempty hcore0.tokPos hcore0.textPos hcore0.create
      hcore0.ok hns0
    have := hcore0.lossless
    rw [hch, List.append_nil] at this
    exact this
  case float =>
    have hpos : 1 ≤ σ0.textColumn := hinv0 hs
    obtain ⟨st, hst, hout⟩ := armFloat_eff cc hcc σ0 c hs hcore0.create hcore0.shape hpos hcore0.ok
    rw [hst] at h
    have hnt : σ0.state ≠ .noToken := by rw [hs]; decide
    rcases hout with ⟨σ1, sn, rfl, heff⟩ | herr | ⟨rfl, a, σ1, rfl, hsp⟩
    · simp only [Outcome.ok.injEq] at h
      have := finishChar_core cc hcc σ0 c consumed toks hcore0 hnt σ1 sn heff hns0
      rw [h] at this
      exact this
    · left
      rcases herr with ⟨s1, nt, rfl, herr⟩ | ⟨s1, rfl, herr⟩
      · simp only [finishChar, Bool.false_eq_true, ↓reduceIte, Outcome.ok.injEq, Prod.mk.injEq] at h
        obtain ⟨rfl, _⟩ := h
        simpa using herr
      · simp only [Outcome.ok.injEq, Prod.mk.injEq] at h
        obtain ⟨rfl, _⟩ := h
        exact herr
    · simp only [finishChar, Bool.false_eq_true, ↓reduceIte, Outcome.ok.injEq, Prod.mk.injEq] at h
      obtain ⟨rfl, rfl⟩ := h
      right
      simpa using floatSplit_core σ0 consumed toks hcore0 hnt a σ1 hsp
  all_goals (have hnt : σ0.state ≠ .noToken := by rw [hs]; decide)
  · exact key _ (by decide) (armOperator_eff cc hcc σ0 c hs hcore0.create (hcore0.tok hnt)) rfl
  · exact key _ (by decide) (armSpaces_eff σ0 c hs hcore0.create) rfl
  · exact key _ (by decide) (armSubexpression_eff σ0 c hs hcore0.create) rfl
  · exact key _ (by decide) (armNumber_eff cc hcc σ0 c hs hcore0.create (hcore0.tok hnt) hcore0.shape) rfl
  · exact key _ (by decide) (armIdentifier_eff cc σ0 c hs hcore0.create) rfl
  · exact key _ (by decide) (armAnnotation_eff cc σ0 c hs hcore0.create) rfl
  · exact key _ (by decide) (armLineAnnotation_eff σ0 c hs hcore0.create hns0) rfl
  · exact key _ (by decide) (armCharList_eff σ0 c hs hcore0.create) rfl
  · exact key _ (by decide) (armStartCharList_eff σ0 c hs hcore0.create hns0) rfl
  · exact key _ (by decide) (armByteList_eff σ0 c hs hcore0.create) rfl
  · exact key _ (by decide) (armStartByteList_eff σ0 c hs hcore0.create hns0) rfl

end Garnish.Model.Lexer
