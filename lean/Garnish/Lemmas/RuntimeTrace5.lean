/-
Trace half of the step simulation, part 5 (mirrors Lemmas/RuntimeStep5.lean): none of these instructions calls the
host on either side.
-/
import Garnish.Lemmas.RuntimeTrace4
set_option linter.unusedSimpArgs false
set_option linter.unusedVariables false
namespace Garnish.Lemmas.Runtime
open Garnish Gen Garnish.Abs Garnish.Model.Equality Garnish.Model.Runtime Garnish.Props.RuntimeRefine

variable {F σ : Type} {S : RStore F σ} {P : Prog F} {host : Host F} (fo : FloatOps F)

/-- `JumpTo j` -/
theorem stepTrace_jumpTo (L : StoreLaws S) (fuel : Nat) (H : OtherHandlers σ) {s : σ} {m : MState F}
    (hsim : Sim S P s m) {j t : Nat} (hfetch : P.instrs[m.pc]? = some (.jumpTo, some j))
    (hj : P.jumps[j]? = some t) : StepTrace fo host S P fuel H s m := by
  refine stepTrace_of fo L fuel H hsim hfetch (r := .ok (m, t))
    (by unfold Abs.step; rw [hfetch]; simp only [jumpTarget_some hj]; rfl) ?_
  have h := C10_refine_jump (S := S) j s
  rw [hsim.2.jumps, hj] at h
  exact handlerTrace_quiet (fun next s1 h2 => by
    have h2' : jump S j s = .ok (next, s1) := h2
    rw [h] at h2'; cases h2'; exact ⟨rfl, fun _ _ x => x⟩) rfl

/-- `JumpIfTrue j` / `JumpIfFalse j` -/
theorem stepTrace_jumpIfTrue (L : StoreLaws S) (fuel : Nat) (H : OtherHandlers σ) {s : σ} {m : MState F}
    (hsim : Sim S P s m) {j t : Nat} (hfetch : P.instrs[m.pc]? = some (.jumpIfTrue, some j))
    (hj : P.jumps[j]? = some t) {d : Val F} {rs : List (Val F)} (hregs : m.regs = d :: rs) :
    StepTrace fo host S P fuel H s m := by
  have hr := hsim.2.regs
  rw [hregs] at hr
  obtain ⟨a, rest, hsr, da, tl⟩ := decodesList_cons_inv hr
  obtain ⟨s1, h1, e1⟩ := C10_refine_jump_if_true L (by rw [hsim.2.jumps, hj]) hsr da
  refine stepTrace_of fo L fuel H hsim hfetch
    (r := .ok ({ m with regs := rs }, if d.truthy then t else m.pc + 1))
    (by unfold Abs.step; rw [hfetch]; simp only [jumpTarget_some hj, hregs]) ?_
  exact handlerTrace_ofEff hsim.2 (md := { m with regs := rs }) h1 e1 (Sim.tail e1 tl) (Sim.tail e1 hsim.2.vals) rfl
    (by cases d.truthy <;> simp [hsim.1])

theorem stepTrace_jumpIfFalse (L : StoreLaws S) (fuel : Nat) (H : OtherHandlers σ) {s : σ} {m : MState F}
    (hsim : Sim S P s m) {j t : Nat} (hfetch : P.instrs[m.pc]? = some (.jumpIfFalse, some j))
    (hj : P.jumps[j]? = some t) {d : Val F} {rs : List (Val F)} (hregs : m.regs = d :: rs) :
    StepTrace fo host S P fuel H s m := by
  have hr := hsim.2.regs
  rw [hregs] at hr
  obtain ⟨a, rest, hsr, da, tl⟩ := decodesList_cons_inv hr
  obtain ⟨s1, h1, e1⟩ := C10_refine_jump_if_false L (by rw [hsim.2.jumps, hj]) hsr da
  refine stepTrace_of fo L fuel H hsim hfetch
    (r := .ok ({ m with regs := rs }, if d.truthy then m.pc + 1 else t))
    (by unfold Abs.step; rw [hfetch]; simp only [jumpTarget_some hj, hregs]) ?_
  exact handlerTrace_ofEff hsim.2 (md := { m with regs := rs }) h1 e1 (Sim.tail e1 tl) (Sim.tail e1 hsim.2.vals) rfl
    (by cases d.truthy <;> simp [hsim.1])

/-- `And j`: a true operand is consumed and the right operand's code entered, a false one becomes `false` -/
theorem stepTrace_and (L : StoreLaws S) (fuel : Nat) (H : OtherHandlers σ) {s : σ} {m : MState F}
    (hsim : Sim S P s m) {j t : Nat} (hfetch : P.instrs[m.pc]? = some (.and, some j))
    (hj : P.jumps[j]? = some t) {d : Val F} {rs : List (Val F)} (hregs : m.regs = d :: rs) :
    StepTrace fo host S P fuel H s m := by
  have hr := hsim.2.regs
  rw [hregs] at hr
  obtain ⟨a, rest, hsr, da, tl⟩ := decodesList_cons_inv hr
  have h := C10_refine_and L j hsr da
  cases hd : d.truthy with
  | true =>
    rw [hd, hsim.2.jumps, hj] at h
    simp only [if_true] at h
    obtain ⟨s1, h1, e1⟩ := h
    refine stepTrace_of fo L fuel H hsim hfetch (r := .ok ({ m with regs := rs }, t))
      (by unfold Abs.step; rw [hfetch]; simp only [hregs, hd, if_true, jumpTarget_some hj]; rfl) ?_
    exact handlerTrace_ofEff hsim.2 (md := { m with regs := rs }) h1 e1 (Sim.tail e1 tl) (Sim.tail e1 hsim.2.vals)
      rfl rfl
  | false =>
    rw [hd] at h
    simp only [Bool.false_eq_true, if_false] at h
    obtain ⟨b, s1, h1, d1, e1⟩ := h
    refine stepTrace_of fo L fuel H hsim hfetch (r := .ok ({ m with regs := .fls :: rs }, m.pc + 1))
      (by unfold Abs.step; rw [hfetch]; simp only [hregs, hd, Bool.false_eq_true, if_false]; rfl) ?_
    exact handlerTrace_ofEff hsim.2 (md := { m with regs := .fls :: rs }) h1 e1 (.cons d1 (Sim.tail e1 tl))
      (Sim.tail e1 hsim.2.vals) rfl (by simp [hsim.1])

/-- `Or j` -/
theorem stepTrace_or (L : StoreLaws S) (fuel : Nat) (H : OtherHandlers σ) {s : σ} {m : MState F}
    (hsim : Sim S P s m) {j t : Nat} (hfetch : P.instrs[m.pc]? = some (.or, some j))
    (hj : P.jumps[j]? = some t) {d : Val F} {rs : List (Val F)} (hregs : m.regs = d :: rs) :
    StepTrace fo host S P fuel H s m := by
  have hr := hsim.2.regs
  rw [hregs] at hr
  obtain ⟨a, rest, hsr, da, tl⟩ := decodesList_cons_inv hr
  have h := C10_refine_or L j hsr da
  cases hd : d.truthy with
  | false =>
    rw [hd, hsim.2.jumps, hj] at h
    simp only [Bool.false_eq_true, if_false] at h
    obtain ⟨s1, h1, e1⟩ := h
    refine stepTrace_of fo L fuel H hsim hfetch (r := .ok ({ m with regs := rs }, t))
      (by unfold Abs.step; rw [hfetch]; simp only [hregs, hd, Bool.false_eq_true, if_false, jumpTarget_some hj]; rfl) ?_
    exact handlerTrace_ofEff hsim.2 (md := { m with regs := rs }) h1 e1 (Sim.tail e1 tl) (Sim.tail e1 hsim.2.vals)
      rfl rfl
  | true =>
    rw [hd] at h
    simp only [if_true] at h
    obtain ⟨b, s1, h1, d1, e1⟩ := h
    refine stepTrace_of fo L fuel H hsim hfetch (r := .ok ({ m with regs := .tru :: rs }, m.pc + 1))
      (by unfold Abs.step; rw [hfetch]; simp only [hregs, hd, if_true]; rfl) ?_
    exact handlerTrace_ofEff hsim.2 (md := { m with regs := .tru :: rs }) h1 e1 (.cons d1 (Sim.tail e1 tl))
      (Sim.tail e1 hsim.2.vals) rfl (by simp [hsim.1])

/-- `Reapply j` -/
theorem stepTrace_reapply (L : StoreLaws S) (fuel : Nat) (H : OtherHandlers σ) {s : σ} {m : MState F}
    (hsim : Sim S P s m) {j t : Nat} (hfetch : P.instrs[m.pc]? = some (.reapply, some j))
    (hj : P.jumps[j]? = some t) {v x : Val F} {rs vs : List (Val F)} (hregs : m.regs = v :: rs)
    (hvals : m.vals = x :: vs) : StepTrace fo host S P fuel H s m := by
  have hr := hsim.2.regs
  rw [hregs] at hr
  obtain ⟨a, rest, hsr, da, tl⟩ := decodesList_cons_inv hr
  have hv := hsim.2.vals
  rw [hvals] at hv
  obtain ⟨b, bs, hsv, _, tv⟩ := decodesList_cons_inv hv
  have h := C17_refine_reapply L j hsr
  rw [hsim.2.jumps, hj, hsv] at h
  obtain ⟨s1, h1, e1⟩ := h
  refine stepTrace_of fo L fuel H hsim hfetch (r := .ok ({ m with regs := rs, vals := v :: vs }, t))
    (by unfold Abs.step; rw [hfetch]; simp only [hregs, hvals, jumpTarget_some hj]) ?_
  exact handlerTrace_ofEff hsim.2 (md := { m with regs := rs, vals := v :: vs }) h1 e1 (Sim.tail e1 tl)
    (.cons (e1.dec da) (Sim.tail e1 tv)) rfl rfl

/-- `EndExpression` with no frame left: the result replaces the input value and execution ends -/
theorem stepTrace_endExpression_top (L : StoreLaws S) (fuel : Nat) (H : OtherHandlers σ) {s : σ} {m : MState F}
    (hsim : Sim S P s m) {operand : Option Nat} (hfetch : P.instrs[m.pc]? = some (.endExpression, operand))
    {v x : Val F} {rs vs : List (Val F)} (hregs : m.regs = v :: rs) (hvals : m.vals = x :: vs)
    (hframes : m.frames = []) : StepTrace fo host S P fuel H s m := by
  have hr := hsim.2.regs
  rw [hregs] at hr
  obtain ⟨a, rest, hsr, da, tl⟩ := decodesList_cons_inv hr
  have hv := hsim.2.vals
  rw [hvals] at hv
  obtain ⟨b, bs, hsv, _, tv⟩ := decodesList_cons_inv hv
  have hf := hsim.2.frames
  rw [hframes] at hf
  have hsf : S.frames s = [] := by
    generalize S.frames s = sf at hf
    cases hf; rfl
  have h := C10_refine_end_expression L hsr
  rw [hsf, hsv] at h
  obtain ⟨s1, h1, e1⟩ := h
  refine stepTrace_of fo L fuel H hsim hfetch (r := .ok ({ m with regs := rs, vals := v :: vs }, P.instrs.size))
    (by unfold Abs.step; rw [hfetch]; simp only [hregs, hvals, hframes, finish, ge_iff_le, Nat.le_refl, if_true]) ?_
  exact handlerTrace_ofEff hsim.2 (md := { m with regs := rs, vals := v :: vs }) h1 e1 (Sim.tail e1 tl)
    (.cons (e1.dec da) (Sim.tail e1 tv)) rfl (by simp [hsim.2.ilen])

/-- `EndExpression` inside a call: back to the caller's registers with the result on top -/
theorem stepTrace_endExpression_return (L : StoreLaws S) (fuel : Nat) (H : OtherHandlers σ) {s : σ} {m : MState F}
    (hsim : Sim S P s m) {operand : Option Nat} (hfetch : P.instrs[m.pc]? = some (.endExpression, operand))
    {v : Val F} {rs : List (Val F)} (hregs : m.regs = v :: rs) {fr : Frame F} {frs : List (Frame F)}
    (hframes : m.frames = fr :: frs) : StepTrace fo host S P fuel H s m := by
  have hr := hsim.2.regs
  rw [hregs] at hr
  obtain ⟨a, rest, hsr, da, tl⟩ := decodesList_cons_inv hr
  have hf := hsim.2.frames
  rw [hframes] at hf
  generalize hsf : S.frames s = sf at hf
  cases hf with
  | cons hret hsaved hrest =>
    rename_i ret saved fs
    have h := C10_refine_end_expression L hsr
    rw [hsf] at h
    obtain ⟨s1, h1, e1⟩ := h
    refine stepTrace_of fo L fuel H hsim hfetch
      (r := .ok ({ m with regs := v :: fr.saved, vals := m.vals.tail, frames := frs }, fr.ret))
      (by unfold Abs.step; rw [hfetch]; simp only [hregs, hframes]) ?_
    exact handlerTrace_quiet (fun next s2 h2 => by
      have h2' : endExpression S s = .ok (next, s2) := h2
      rw [h1] at h2'; cases h2'; exact ⟨e1.trace, e1.keeps.dec⟩) rfl

end Garnish.Lemmas.Runtime
