/-
`WFq` is kept by list construction (`start_list`, `add_to_list`*, `end_list`): the proof of `buildList_wf`
(Lemmas/OptimizeList.lean) on a store whose input-value cells may link upwards.
-/
import Garnish.Lemmas.MutOps2
import Garnish.Lemmas.OptimizeList
set_option maxHeartbeats 2000000
namespace Garnish.BasicOpt
open Garnish

/-- **`buildList` keeps `WFq`** (the items are existing readable addresses) -/
theorem buildList_wfq {s s' : Store} {items : List Nat} {li : Nat} (hwf : WFq s)
    (hitems : ∀ a ∈ items, isNode s.cells a = true) (h : Store.buildList s items = .ok (s', li)) :
    WFq s' ∧ li = s.cells.size ∧ isNode s'.cells li = true := by
  have hlt : ∀ a ∈ items, a < s.cells.size := fun a ha => head_lt (cells := s.cells) (a := a) (hitems a ha)
  obtain ⟨hli, hcells, hf⟩ := buildList_spec hlt h
  subst hli
  -- names for the parts of the block
  generalize hslots : items.map (assocOf s.cells) = slots at hcells
  have hblock : listBlockOf s.cells items = Cell.list items.length (slots.filter (fun c => c != .empty)).length ::
      (items.map Cell.listItem ++ slots.mergeSort Store.assocLe) := by simp [listBlockOf, hslots]
  generalize hL : slots.mergeSort Store.assocLe = L at hblock
  generalize hk : (slots.filter (fun c => c != Cell.empty)).length = k at hblock
  have hslen : slots.length = items.length := by rw [← hslots]; simp
  have hLlen : L.length = items.length := by rw [← hL, List.length_mergeSort, hslen]
  have hperm : L.Perm slots := by rw [← hL]; exact List.mergeSort_perm _ _
  have hkn : k ≤ items.length := by rw [← hk, ← hslen]; exact List.length_filter_le _ _
  have hLae : ∀ c ∈ L, isAE c = true := by
    intro c hc
    have : c ∈ slots := hperm.mem_iff.mp hc
    rw [← hslots] at this
    simp only [List.mem_map] at this
    obtain ⟨a, _, rfl⟩ := this
    exact assocOf_isAE _ _
  have hLk : (L.filter (fun c => c != Cell.empty)).length = k := by
    rw [← hk]; exact (hperm.filter _).length_eq
  have hsorted : L.Pairwise (fun a b => Store.assocLe a b = true) := by
    rw [← hL]; exact List.pairwise_mergeSort assocLe_trans assocLe_total slots
  -- reading the new cells
  have hget : ∀ u, s'.cells[s.cells.size + u]? = (listBlockOf s.cells items)[u]? := by
    intro u
    rw [hcells, Array.getElem?_append_right (by omega)]
    simp
  have hhdr : s'.cells[s.cells.size]? = some (.list items.length k) := by
    have := hget 0; rw [hblock] at this; simpa using this
  have hitem : ∀ t, t < items.length → s'.cells[s.cells.size + 1 + t]? = (items[t]?).map Cell.listItem := by
    intro t ht
    have := hget (1 + t)
    rw [hblock] at this
    have e : s.cells.size + (1 + t) = s.cells.size + 1 + t := by omega
    rw [e] at this
    rw [this]
    have e2 : 1 + t = t + 1 := by omega
    rw [e2, List.getElem?_cons_succ, List.getElem?_append_left (by simpa using ht)]
    simp
  have hkey : ∀ t, t < items.length → s'.cells[s.cells.size + 1 + items.length + t]? = L[t]? := by
    intro t ht
    have := hget (1 + items.length + t)
    rw [hblock] at this
    have e : s.cells.size + (1 + items.length + t) = s.cells.size + 1 + items.length + t := by omega
    rw [e] at this
    rw [this]
    have e2 : 1 + items.length + t = (items.length + t) + 1 := by omega
    rw [e2, List.getElem?_cons_succ, List.getElem?_append_right (by simp)]
    simp
  -- every key-table entry refers to a node below the block
  have hentry : ∀ sy d, Cell.associativeItem sy d ∈ L → d < s.cells.size ∧ isNode s.cells d = true := by
    intro sy d hm
    have : Cell.associativeItem sy d ∈ slots := hperm.mem_iff.mp hm
    rw [← hslots] at this
    simp only [List.mem_map] at this
    obtain ⟨a, ha, hae⟩ := this
    unfold assocOf at hae
    split at hae
    · rename_i l r hpair
      split at hae
      · simp only [Cell.associativeItem.injEq] at hae
        obtain ⟨_, hr⟩ := hae
        subst hr
        have hsh : shape s.cells a = some ⟨.pair 0 0, [], [l, r]⟩ := shape_of_solo hpair rfl
        have hn := hwf.kid_node hsh (k := r) (by simp)
        exact ⟨head_lt (cells := s.cells) (a := r) hn, hn⟩
      · cases hae
    · cases hae
  -- the header reads back as a list
  have hli_items := listItems_read (cells := s'.cells) items (s.cells.size + 1) hitem
  obtain ⟨keys, targets, hassoc, htargets⟩ := assocItems_read (cells := s'.cells)
    (P := fun d => d < s.cells.size ∧ isNode s.cells d = true) k (s.cells.size + 1 + items.length) (fun t ht => by
      obtain ⟨sy, d, hLt⟩ := sorted_prefix L hLae hsorted t (by rw [hLk]; exact ht)
      refine ⟨sy, d, by rw [hkey t (by omega)]; exact hLt, hentry sy d (List.mem_of_getElem? hLt)⟩)
  have hshape : shape s'.cells s.cells.size = some ⟨.list items.length k, keys, items ++ targets⟩ := by
    unfold shape
    rw [hhdr]
    simp only [hli_items, hassoc]
  have hnode : isNode s'.cells s.cells.size = true := by simp [isNode, hshape]
  have hsize : s'.cells.size = s.cells.size + 1 + 2 * items.length := by
    have : s'.cells.size = s.cells.size + (1 + (items.length + L.length)) := by
      rw [hcells, hblock]
      simp only [Array.size_append, List.size_toArray, List.length_cons, List.length_append, List.length_map]
      omega
    omega
  have hB : (listBlockOf s.cells items).toArray = (listBlockOf s.cells items).toArray := rfl
  refine ⟨append_wfq _ hwf hcells hf.1 hf.2.2.1 ?_ ?_ ?_ ?_, rfl, hnode⟩
  · intro j hj1 hj2
    by_cases hj : j = s.cells.size
    · subst hj
      refine ⟨?_, by simp [listOK, hhdr, hkn], by simp [headerOK, hhdr, hnode]⟩
      rw [nodeOKq_of_cell hhdr rfl]
      simp only [nodeOK, hshape, List.all_eq_true, Bool.and_eq_true, decide_eq_true_eq]
      intro x hx
      have hx' : x < s.cells.size ∧ isNode s.cells x = true := by
        rcases List.mem_append.mp hx with h | h
        · exact ⟨hlt x h, hitems x h⟩
        · exact htargets x h
      exact ⟨hx'.1, by rw [hcells, isNode_append _ _ hwf.headers hx'.1]; exact hx'.2⟩
    · obtain ⟨t, rfl⟩ : ∃ t, j = s.cells.size + 1 + t := ⟨j - (s.cells.size + 1), by omega⟩
      by_cases ht : t < items.length
      · -- an item slot
        obtain ⟨a, hat⟩ : ∃ a, items[t]? = some a := ⟨items[t], by simp [ht]⟩
        have hc : s'.cells[s.cells.size + 1 + t]? = some (.listItem a) := by rw [hitem t ht, hat]; rfl
        have hsh : shape s'.cells (s.cells.size + 1 + t) = none := by unfold shape; rw [hc]
        exact ⟨nodeOKq_of_none hsh, by simp [listOK, hc], by simp [headerOK, hc]⟩
      · -- a key-table slot
        obtain ⟨u, rfl⟩ : ∃ u, t = items.length + u := ⟨t - items.length, by omega⟩
        have hu : u < items.length := by omega
        obtain ⟨c, hcu⟩ : ∃ c, L[u]? = some c := ⟨L[u]'(by omega), by simp [hLlen, hu]⟩
        have hc : s'.cells[s.cells.size + 1 + (items.length + u)]? = some c := by
          have e : s.cells.size + 1 + (items.length + u) = s.cells.size + 1 + items.length + u := by omega
          rw [e, hkey u hu, hcu]
        have hae := hLae c (List.mem_of_getElem? hcu)
        cases c <;> simp [isAE] at hae
        · have hsh : shape s'.cells (s.cells.size + 1 + (items.length + u)) = some ⟨.empty, [], []⟩ :=
            shape_of_solo hc rfl
          exact ⟨by rw [nodeOKq_of_cell hc rfl]; simp [nodeOK, hsh], by simp [listOK, hc], by simp [headerOK, hc]⟩
        · have hsh : shape s'.cells (s.cells.size + 1 + (items.length + u)) = none := by unfold shape; rw [hc]
          exact ⟨nodeOKq_of_none hsh, by simp [listOK, hc], by simp [headerOK, hc]⟩
  · rw [hf.2.2.2.2.1, hcells]; exact headOK_appendq hwf _ hwf.reg
  · rw [hf.2.2.2.1, hcells]; exact headSV_append _ hwf.val
  · rw [hf.2.2.2.2.2, hcells]; exact headOK_appendq hwf _ hwf.frm

end Garnish.BasicOpt
