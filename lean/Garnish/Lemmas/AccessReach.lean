/-
The store model of compaction (Store/BasicCells.lean, `WF` of Lemmas/OptimizeWF.lean) and the heap the accessor model
reads (Model/Access.lean, `Heap.WF` of Spec/AccessWF.lean): which heaps represent a store, and why a well-formed store
is represented by accessor-well-formed heaps only.
-/
import Garnish.Spec.AccessWF
import Garnish.Lemmas.OptimizeWF
namespace Garnish.BasicOpt
open Garnish Garnish.Access

/-- `h` is a whole-allocation view of the store `s`: the data block of `h` starts where `s` says, ends at the cursor
of `s`, holds the cells of `s`, lies inside the allocation, and the allocation is a `Vec` (at most `usize::MAX`
cells).  The five other blocks are not constrained: the accessors that forget the block base read them. -/
structure Represents (s : Store) (h : Heap) : Prop where
  dstart : h.dstart = s.start
  cursor : h.cursor = s.cells.size
  cells : ∀ i, i < s.cells.size → h.heap[s.start + i]? = s.cells[i]?
  inside : h.dstart + h.cursor ≤ h.heap.size
  vec : h.heap.size ≤ USIZE_MAX

/-- an executable representative: the other blocks `Empty`, the data block padded to its allocated size -/
def toAccessHeap (s : Store) : Heap :=
  { heap := Array.replicate s.start Cell.empty ++ s.cells ++ Array.replicate (s.size - s.cells.size + s.custom.size) Cell.empty
    dstart := s.start
    cursor := s.cells.size }

theorem toAccessHeap_represents (s : Store)
    (hsz : s.start + s.cells.size + (s.size - s.cells.size + s.custom.size) ≤ USIZE_MAX) :
    Represents s (toAccessHeap s) := by
  refine ⟨rfl, rfl, ?_, ?_, ?_⟩
  · intro i hi
    simp only [toAccessHeap]
    rw [Array.getElem?_append_left (by simp; omega), Array.getElem?_append_right (by simp)]
    simp
  · simp [toAccessHeap] <;> omega
  · simp [toAccessHeap] <;> omega

/-- the `n` cells of the heap from data address `a` are the cells of the store -/
theorem cellsAt_getElem? {s : Store} {h : Heap} (hr : Represents s h) (a n t : Nat) (han : a + n ≤ s.cells.size) :
    (h.cellsAt a n)[t]? = if t < n then s.cells[a + t]? else none := by
  unfold Heap.cellsAt
  simp only [List.extract_eq_take_drop, List.getElem?_take, List.getElem?_drop]
  have e : h.dstart + a + n - (h.dstart + a) = n := by omega
  rw [e]
  by_cases ht : t < n
  · simp only [ht, if_true]
    rw [Array.getElem?_toList, hr.dstart]
    have := hr.cells (a + t) (by omega)
    rw [← this]; congr 1; omega
  · simp [ht]

theorem inlineCells_getElem? {cells : Array Cell} {p : Cell → Bool} : ∀ (n a : Nat) (l : List Cell),
    inlineCells cells p a n = some l → l.length = n ∧ a + n ≤ cells.size + (if n = 0 then a else 0) ∧
      ∀ t, t < n → cells[a + t]? = l[t]? ∧ ∃ c, l[t]? = some c ∧ p c = true
  | 0, a, l, h => by
    simp only [inlineCells, Option.some.injEq] at h
    subst h; exact ⟨rfl, by simp, fun t ht => by omega⟩
  | n + 1, a, l, h => by
    simp only [inlineCells] at h
    cases hc : cells[a]? with
    | none => simp [hc] at h
    | some c =>
      rw [hc] at h
      simp only at h
      split at h
      · rename_i hpc
        simp only [Option.map_eq_some_iff] at h
        obtain ⟨rest, hrest, rfl⟩ := h
        obtain ⟨h1, h2, h3⟩ := inlineCells_getElem? n (a + 1) rest hrest
        have ha : a < cells.size := by
          rcases Nat.lt_or_ge a cells.size with h | h
          · exact h
          · rw [Array.getElem?_eq_none h] at hc; cases hc
        refine ⟨by simp [h1], ?_, ?_⟩
        · simp only [Nat.add_one_ne_zero, if_false, Nat.add_zero]
          by_cases hn : n = 0
          · subst hn; omega
          · simp only [hn, if_false, Nat.add_zero] at h2; omega
        · intro t ht
          cases t with
          | zero => exact ⟨by simpa using hc, c, rfl, hpc⟩
          | succ t =>
            obtain ⟨g1, g2⟩ := h3 t (by omega)
            have e : a + (t + 1) = a + 1 + t := by omega
            rw [e]
            exact ⟨by simpa using g1, by simpa using g2⟩
      · simp at h

theorem collectWith_ok {β : Type} (proj : Cell → Option β) (bad : Outcome (List β)) :
    ∀ (l : List Cell), (∀ c ∈ l, (proj c).isSome = true) → isOk (collectWith proj bad l) = true
  | [], _ => rfl
  | c :: rest, h => by
    have hc := h c (by simp)
    simp only [collectWith]
    cases hp : proj c with
    | none => rw [hp] at hc; cases hc
    | some b =>
      have ih := collectWith_ok proj bad rest (fun x hx => h x (by simp [hx]))
      simp only
      cases hr : collectWith proj bad rest with
      | ok bs => rfl
      | err e => rw [hr] at ih; cases ih
      | panic m => rw [hr] at ih; cases ih
      | fuelOut => rw [hr] at ih; cases ih

/-- an inline block of the store, read through the heap, passes the per-cell collector -/
theorem inline_collect_ok {s : Store} {h : Heap} (hr : Represents s h) {β : Type} (proj : Cell → Option β)
    (bad : Outcome (List β)) {p : Cell → Bool} (hp : ∀ c, p c = true → (proj c).isSome = true) {i n : Nat} {l : List Cell}
    (hl : inlineCells s.cells p (i + 1) n = some l) (hi : i < s.cells.size) :
    i + n < s.cells.size ∧ isOk (collectWith proj bad (h.cellsAt (i + 1) n)) = true := by
  obtain ⟨h1, h2, h3⟩ := inlineCells_getElem? _ _ _ hl
  have hb : i + 1 + n ≤ s.cells.size := by
    by_cases hn : n = 0
    · subst hn; omega
    · simp only [hn, if_false, Nat.add_zero] at h2; exact h2
  have heq : h.cellsAt (i + 1) n = l := by
    apply List.ext_getElem?
    intro t
    rw [cellsAt_getElem? hr _ _ _ hb]
    by_cases ht : t < n
    · simp only [ht, if_true]; exact (h3 t ht).1
    · simp only [ht, if_false]
      exact (List.getElem?_eq_none (by omega)).symm
  refine ⟨by omega, ?_⟩
  rw [heq]
  apply collectWith_ok
  intro c hc
  obtain ⟨t, ht⟩ := List.getElem?_of_mem hc
  have htn : t < n := by
    rcases Nat.lt_or_ge t n with h | h
    · exact h
    · rw [List.getElem?_eq_none (by omega)] at ht; cases ht
  obtain ⟨_, c', hc', hpc⟩ := h3 t htn
  rw [ht] at hc'
  simp only [Option.some.injEq] at hc'
  subst hc'
  exact hp c hpc

end Garnish.BasicOpt
