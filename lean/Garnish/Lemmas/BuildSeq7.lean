/-
C04, builder half — evaluation order, part 7: the conditional arm, the else-chain head, the root pop, neutral updates.
-/
import Garnish.Lemmas.BuildSeq6
namespace Garnish.Lemmas.BuildSeq
open Garnish Garnish.Gen Garnish.Model.Parser Garnish.Model.Literals Garnish.Model.Build Garnish.Lemmas.Build
open Garnish.Lemmas.BuildTotal
open Garnish.Lemmas.BuildOrder (Above above_append_left above_append_mem above_append_right above_mem above_irrefl
  above_top_false above_init Attr Moving nm1 nm2 nm3 nmr nm23 nm123 get_append attr_append children_fresh nodup_init)

variable {F : Type} {root : Nat} {tree : Array ParseNode} {G : Nat → Prop} {m0 : Nat}

theorem late_not_sideEffect {d : Definition} (h : isLate d = true) : d ≠ .sideEffect := by
  intro e; subst e; simp [isLate] at h

/-- `handle_jump_if`, second visit under a conditional parent -/
theorem mkStep_cond (V : Validated root tree G) {ph : Nat → Phase} {ctx ctx' : Ctx F} (hinv : Inv root tree G ph ctx)
    {ni : Nat} (hG : G ni) (hph : ph ni = .p1 ∨ ph ni = .p2) {pn : ParseNode} (hpn : tree[ni]? = some pn)
    {M M' : Array (Option Nat)} (hnd : (ctx.stack.toList ++ [ni]).Nodup)
    {r : Nat} (hr : pn.right = some r) (hlate : isLate pn.definition = true)
    {cp : Nat} {parent : BuildNode} (hcp : ctx.nodes[cp]? = some (some parent)) (item : ConditionItem)
    (l : List (Option Nat)) (hS : ctx'.stack = ctx.stack)
    (hN : ctx'.nodes = putNode ctx.nodes cp { parent with conditionalItems := parent.conditionalItems.push item })
    (hM : M'.toList = M.toList ++ l) (hl : ∀ m, m ∈ l → m = none ∨ m = some ni) :
    Step root tree G ph (condPhase ph ni r cp) ctx ctx' ni pn .p3 [] [r] [] l M M' := by
  have hchild : IsChild tree ni r := ⟨pn, hpn, Or.inr hr⟩
  have hlr : LateRight tree ni r := ⟨pn, hpn, hr, hlate⟩
  have hnot : ¬ SchedDone tree ph ni r := by
    intro ⟨_, hs2⟩
    have := hs2 hlr
    rcases hph with h1 | h1 <;> rw [h1] at this <;> cases this
  obtain ⟨hr0, _⟩ := child_fresh V hinv hG hchild hnot
  have hrn : r ≠ ni := by
    intro e; rw [e] at hr0
    rcases hph with h1 | h1 <;> rw [h1] at hr0 <;> cases hr0
  have hc := conf_nil tree ni .p3 []
  refine ⟨V, hinv, hG, hph, hpn, Or.inr rfl, (fun h => by cases h), by simp [condPhase], (fun c hc => by cases hc), ?_, ?_,
    by rw [hS]; simp, hM, hl, (fun h => by cases h), (fun c hc => by cases hc), by rw [hS]; exact nodup_init hnd,
    (fun c hc => by cases hc), ?_, ?_, (fun h => absurd rfl h), hc.hinl, hc.hord, hc.hpre, hc.hpost, (fun _ => Or.inl rfl),
    (fun h => absurd h (late_not_sideEffect hlate)), ?_⟩
  · intro c hc
    have : c = r := by simpa using hc
    subst this
    simp [condPhase, hrn]
  · intro x hxn hx
    have : x ≠ r := by simpa using hx
    simp [condPhase, hxn, this]
  · intro c hc
    have : c = r := by simpa using hc
    subst this
    exact ⟨Or.inl hr0, hrn⟩
  · intro x bn hx hxp hxn
    refine ⟨fun hm => ?_, fun hm => ?_⟩
    · have : x = r := by simpa using hm
      subst this
      simp [condPhase, hrn] at hxp
    · rw [hN, getElem?_putNode] at hx
      rcases Classical.em (cp = x) with hcx | hcx
      · rw [if_pos hcx] at hx
        subst hcx
        split at hx
        · cases hx; exact ⟨parent, hcp, rfl⟩
        · cases hx
      · rw [if_neg hcx] at hx
        exact ⟨bn, hx, rfl⟩
  · intro c hc _
    have : c = r := by simpa using hc
    subst this
    exact ⟨pn, hpn, hr, by simp [oolR, hlate]⟩

/-- the head of an else-chain releases its arms -/
theorem mkStep_else (V : Validated root tree G) {ph : Nat → Phase} {ctx ctx' : Ctx F} (hinv : Inv root tree G ph ctx)
    {ni : Nat} (hG : G ni) (hph : ph ni = .p1 ∨ ph ni = .p2) {pn : ParseNode} (hpn : tree[ni]? = some pn)
    (hnse : pn.definition ≠ .sideEffect)
    {M M' : Array (Option Nat)} (hnd : (ctx.stack.toList ++ [ni]).Nodup)
    {node : BuildNode} (hnode : ctx.nodes[ni]? = some (some node)) (containing jumpToIndex : Nat)
    (l : List (Option Nat)) (hS : ctx'.stack = ctx.stack)
    (hN : ctx'.nodes = assign ctx.nodes (node.conditionalItems.toList.map (itemNode containing jumpToIndex)))
    (hM : M'.toList = M.toList ++ l) (hl : ∀ m, m ∈ l → m = none ∨ m = some ni) :
    Step root tree G ph (elsePhase ph ni (node.conditionalItems.toList.map (·.nodeIndex))) ctx ctx' ni pn .p3 []
      (node.conditionalItems.toList.map (·.nodeIndex)) [] l M M' := by
  have hni3 : ph ni ≠ .p3 := by rcases hph with h1 | h1 <;> rw [h1] <;> intro h <;> cases h
  have hidx : ∀ x, x ∈ node.conditionalItems.toList.map (·.nodeIndex) → ph x = .pc ni ∧ x ≠ ni := by
    intro x hx
    obtain ⟨it, hit, hxe⟩ := List.mem_map.1 hx
    subst hxe
    have := (hinv.items ni node hnode hni3 it hit).2
    refine ⟨this, fun e => ?_⟩
    rw [e] at this
    rcases hph with h1 | h1 <;> rw [h1] at this <;> cases this
  have hc := conf_nil tree ni .p3 []
  refine ⟨V, hinv, hG, hph, hpn, Or.inr rfl, (fun h => by cases h), by simp [elsePhase], (fun c hc => by cases hc), ?_, ?_,
    by rw [hS]; simp, hM, hl, (fun h => by cases h), (fun c hc => by cases hc), by rw [hS]; exact nodup_init hnd,
    (fun c hc => by cases hc), ?_, ?_, (fun h => absurd rfl h), hc.hinl, hc.hord, hc.hpre, hc.hpost, (fun _ => Or.inl rfl),
    (fun h => absurd h hnse), ?_⟩
  · intro c hc
    have := (hidx c hc).2
    simp [elsePhase, this, hc]
  · intro x hxn hx
    have : x ∉ node.conditionalItems.toList.map (·.nodeIndex) := by simpa using hx
    simp only [elsePhase, hxn, if_false]
    rw [if_neg this]
  · intro c hc
    exact ⟨Or.inr ⟨ni, (hidx c hc).1⟩, (hidx c hc).2⟩
  · intro x bn hx _ hxn
    rw [hN] at hx
    rcases assign_get _ ctx.nodes x _ hx with ⟨b, hb, hvb⟩ | ⟨hold, hno⟩
    · cases hvb
      obtain ⟨it, hit, he⟩ := List.mem_map.1 hb
      simp only [itemNode, Prod.mk.injEq] at he
      obtain ⟨h1, h2⟩ := he
      refine ⟨fun _ => by rw [← h2]; rfl, fun hm => ?_⟩
      exact absurd (by simpa using List.mem_map.2 ⟨it, hit, h1⟩) hm
    · refine ⟨fun hm => ?_, fun _ => ⟨bn, hold, rfl⟩⟩
      have hm' : x ∈ node.conditionalItems.toList.map (·.nodeIndex) := by simpa using hm
      obtain ⟨it, hit, he⟩ := List.mem_map.1 hm'
      subst he
      exact absurd (List.mem_map.2 ⟨it, hit, rfl⟩) (hno (itemNode containing jumpToIndex it).2)
  · intro c hc h0
    rw [(hidx c hc).1] at h0; cases h0

/-! ### neutral updates -/

theorem sinv_nodes {ph : Nat → Phase} {S : List Nat} {nodes nodes' : Nodes} {M : Array (Option Nat)}
    (ho : SInv root tree G m0 ph S nodes M)
    (h : ∀ (x : Nat) (bn : BuildNode), nodes'[x]? = some (some bn) → ∃ bn0, nodes[x]? = some (some bn0) ∧ bn.state = bn0.state) :
    SInv root tree G m0 ph S nodes' M := by
  obtain ⟨h1, h2, h3, h4, h5, h6, h7, h8, h9, h10, h11, h12, h13, h14⟩ := ho
  refine ⟨h1, h2, h3, h4, h5, h6, h7, h8, h9, h10, h11, h12, ?_, h14⟩
  intro x bn hx hp
  obtain ⟨bn0, hb0, hs⟩ := h x bn hx
  rw [hs]; exact h13 x bn0 hb0 hp

theorem sinv_putNode_same {ph : Nat → Phase} {S : List Nat} {nodes : Nodes} {M : Array (Option Nat)}
    (ho : SInv root tree G m0 ph S nodes M) {i : Nat} {bn bn' : BuildNode} (hb : nodes[i]? = some (some bn))
    (hs : bn'.state = bn.state) : SInv root tree G m0 ph S (putNode nodes i bn') M := by
  refine sinv_nodes ho (fun x b hx => ?_)
  rw [getElem?_putNode] at hx
  rcases Classical.em (i = x) with hix | hix
  · rw [if_pos hix] at hx
    subst hix
    split at hx
    · cases hx; exact ⟨bn, hb, hs⟩
    · cases hx
  · rw [if_neg hix] at hx
    exact ⟨b, hx, rfl⟩

/-- appending records that name no node -/
theorem sinv_meta_none {ph : Nat → Phase} {S : List Nat} {nodes : Nodes} {M M' : Array (Option Nat)}
    (ho : SInv root tree G m0 ph S nodes M) (l : List (Option Nat)) (hM : M'.toList = M.toList ++ l)
    (hl : ∀ m, m ∈ l → m = none) : SInv root tree G m0 ph S nodes M' := by
  have hattr : ∀ x, Attr m0 M' x → Attr m0 M x := by
    intro x h
    rcases attr_append hM h with h1 | h1
    · exact h1
    · have := hl _ h1; cases this
  obtain ⟨h1, h2, h3, h4, h5, h6, h7, h8, h9, h10, h11, h12, h13, h14⟩ := ho
  refine ⟨h1, h2, fun x hx => h3 x (hattr x hx), fun y pn hy hb ha => h4 y pn hy hb (hattr y ha), h5, h6, h7, h8, h9, h10,
    h11, h12, h13, ?_⟩
  intro x z hp kx kz hkx hkz hmx hmz
  rcases get_append hM hmx with ⟨_, hx2⟩ | ⟨_, hx2⟩
  · rcases get_append hM hmz with ⟨_, hz2⟩ | ⟨_, hz2⟩
    · exact h14 x z hp kx kz hkx hkz hx2 hz2
    · have := hl _ hz2; cases this
  · have := hl _ hx2; cases this

theorem binv_meta_none {ph : Nat → Phase} {M M' : Array (Option Nat)} (hb : BInv tree G m0 ph M) (l : List (Option Nat))
    (hM : M'.toList = M.toList ++ l) (hl : ∀ m, m ∈ l → m = none) : BInv tree G m0 ph M' := by
  have hold : ∀ {k : Nat} {x : Nat}, M'[k]? = some (some x) → M[k]? = some (some x) := by
    intro k x h
    rcases get_append hM h with ⟨_, h1⟩ | ⟨_, h1⟩
    · exact h1
    · have := hl _ h1; cases this
  refine ⟨?_, ?_, ?_⟩
  · intro y pn hy hd hyv
    obtain ⟨k, hk, hm⟩ := hb.started y pn hy hd hyv
    exact ⟨k, hk, get_old hM hm⟩
  · intro y pn c x kx hy hpy hd hc hdc hkx hmx
    obtain ⟨ky, h1, h2, h3⟩ := hb.before y pn c x kx hy hpy hd hc hdc hkx (hold hmx)
    exact ⟨ky, h1, h2, get_old hM h3⟩
  · intro y pn c x kx hy hpy hd hc hdc hkx hmx hy3
    obtain ⟨ky, h1, h2⟩ := hb.after y pn c x kx hy hpy hd hc hdc hkx (hold hmx) hy3
    exact ⟨ky, h1, get_old hM h2⟩

end Garnish.Lemmas.BuildSeq
