/-
Brackets, part 7: trivia after an operand (`UInv` is closed under trivia tokens), the closing bracket (`step_closeU`), the
result of a complete operand (`OpdRes`), and how an operand completes a frame: as its first operand (`uinv_first`) or as
the right operand of a binary operator (`bin_stepU`).
-/
import Garnish.Lemmas.ParserB6

namespace Garnish.Spec
open Garnish Garnish.Gen Garnish.Model.Parser

/-! ### trivia after an operand -/

theorem step_triviaU {st : PState} {ug p : Option Nat} {base : Nat} {E : Tree} {re cb : Nat}
    (hinv : UInv st ug p base E re cb) (w : PToken) (il : Bool) (hw : isTriviaTok w = true) :
    ∃ c, step st w il =
      .ok { st with checkForList := c, previousSecondDef := (getDefinition w.type).2, lastToken := w } := by
  have hadj := hinv.adjust
  have hug := hinv.hug
  have hnl := hinv.nnl
  obtain ⟨i, n, hl, hn, _⟩ := hinv.bot.noop_data
  unfold isTriviaTok at hw
  have hcases : w.type = .whitespace ∨ w.type = .annotation ∨ w.type = .lineAnnotation := by
    simp only [Bool.or_eq_true, beq_iff_eq] at hw
    rcases hw with (h | h) | h
    · exact Or.inl h
    · exact Or.inr (Or.inl h)
    · exact Or.inr (Or.inr h)
  unfold step
  simp only [hug, Outcome.bind, hadj]
  rcases hcases with h | h | h
  · rw [h]
    cases hcnd : (n.definition.isValueLike || (n.definition.isGroupLike && some i != ug)) with
    | true =>
      refine ⟨true, ?_⟩
      simp only [getDefinition, (checkComposition_trivia _ _).1, Bool.not_true, Bool.false_eq_true, if_false, dispatch,
        setupSpaceListCheck, hl, hn, hcnd, if_true, Outcome.bind, pushNode, bne_self_eq_false]
      simp [hnl]
    | false =>
      refine ⟨st.checkForList, ?_⟩
      simp only [getDefinition, (checkComposition_trivia _ _).1, Bool.not_true, Bool.false_eq_true, if_false, dispatch,
        setupSpaceListCheck, hl, hn, hcnd, Outcome.bind, pushNode, bne_self_eq_false]
      simp [hnl]
  · rw [h]
    refine ⟨st.checkForList, ?_⟩
    simp only [getDefinition, (checkComposition_trivia _ _).2, Bool.not_true, Bool.false_eq_true, if_false, dispatch,
      Outcome.bind, pushNode, bne_self_eq_false]
    simp [hl, hnl]
  · rw [h]
    refine ⟨st.checkForList, ?_⟩
    simp only [getDefinition, (checkComposition_trivia _ _).2, Bool.not_true, Bool.false_eq_true, if_false, dispatch,
      Outcome.bind, pushNode, bne_self_eq_false]
    simp [hl, hnl]

theorem UInv.trivia {st : PState} {ug p : Option Nat} {base : Nat} {E : Tree} {re cb : Nat}
    (h : UInv st ug p base E re cb) (c : Bool) (w : PToken) (hw : isTriviaTok w = true) :
    UInv { st with checkForList := c, previousSecondDef := (getDefinition w.type).2, lastToken := w } ug p base E re cb := by
  refine ⟨h.n, h.nnl, h.hug, ?_, h.spine, ?_⟩
  · cases h.bot with
    | plain hl hb h3 h4 => exact .plain hl hb h3 h4
    | closed cb G h1 h2 h3 h4 h5 h6 => exact .closed cb G h1 h2 h3 h4 h5 h6
  · rcases trivia_secdef hw with h | h
    · exact Or.inr (Or.inr (Or.inr (Or.inr (Or.inl h))))
    · exact Or.inr (Or.inr (Or.inr (Or.inr (Or.inr h))))

/-- a run of trivia tokens after an operand -/
theorem trivia_runU {ug p : Option Nat} {base : Nat} {E : Tree} {re cb : Nat} :
    ∀ (ws : List PToken) (st : PState) (rest : List PToken), UInv st ug p base E re cb →
    (∀ w ∈ ws, isTriviaTok w = true) →
    ∃ st', loop st (ws ++ rest) = loop st' rest ∧ UInv st' ug p base E re cb ∧ st'.nodes = st.nodes ∧
      st'.groupStack = st.groupStack ∧ st'.currentGroup = st.currentGroup
  | [], st, _, h, _ => ⟨st, rfl, h, rfl, rfl, rfl⟩
  | w :: ws, st, rest, h, hws => by
    have hw := hws w (List.mem_cons_self ..)
    obtain ⟨c, hc⟩ := step_triviaU h w (ws ++ rest).isEmpty hw
    obtain ⟨st', h1, h2, h3, h4, h5⟩ :=
      trivia_runU ws { st with checkForList := c, previousSecondDef := (getDefinition w.type).2, lastToken := w } rest
        (h.trivia c w hw) (fun x hx => hws x (List.mem_cons_of_mem _ hx))
    refine ⟨st', ?_, h2, h3, h4, h5⟩
    simp only [List.cons_append, loop]
    rw [hc]
    simp only [Outcome.bind]
    exact h1

/-! ### the closing bracket -/

theorem modifyNode?_same {a : Array ParseNode} {i : Nat} {nd : ParseNode} (h : a[i]? = some nd) :
    modifyNode? a i (fun _ => nd) = some a := by
  have hi : i < a.size := (Array.getElem?_eq_some_iff.mp h).1
  obtain ⟨a', h'⟩ := modifyNode?_isSome (fun _ => nd) hi
  rw [h']
  congr 1
  apply Array.ext_getElem?
  intro j
  rw [modifyNode?_get h' j]
  split
  · rename_i hj; subst hj; rw [h]; rfl
  · rfl

/-- "check last left for optional": a no-op when `last_left` is a value / suffix operator / closed bracket -/
theorem endFix_noop (st : PState) (id g b : Nat) (nb : ParseNode) (hl : st.lastLeft = some b)
    (hb : st.nodes[b]? = some nb) (hbg : b ≠ g)
    (hA : nb.right = none ∨ (nb.definition.isOptional = false ∧ (nb.definition == Definition.subexpression) = false)) :
    endGroupingFixLastLeft st id g = .ok st := by
  have hbg' : (b == g) = false := by simpa using hbg
  unfold endGroupingFixLastLeft
  simp only [hl, hb, hbg', Bool.or_false]
  rcases hA with hr | ⟨ho, hs⟩
  · have e : (if nb.definition.isOptional = true then { nb with right := none } else nb) = nb := by
      split
      · cases nb; simp_all
      · rfl
    rw [e, modifyNode?_same hb]
    simp only [hr]
    cases st; simp_all
  · simp only [ho, Bool.false_eq_true, if_false]
    rw [modifyNode?_same hb]
    simp only [hs]
    cases st; simp_all

/-- the state after a closing bracket -/
def stepC (st : PState) (g : Nat) (fl : Bool) (c : PToken) : PState :=
  { st with groupStack := st.groupStack.pop, checkForList := fl,
            currentGroup := if st.groupStack.pop.isEmpty then none else some (st.groupStack.pop.size - 1),
            lastLeft := some g, previousSecondDef := (getDefinition c.type).2, lastToken := c }

theorem UInv.comp_close {st : PState} {ug p : Option Nat} {base : Nat} {E : Tree} {re cb : Nat}
    (h : UInv st ug p base E re cb) (sc : SecDef) (hc : sc = .endGrouping ∨ sc = .endSideEffect) :
    checkComposition st.previousSecondDef sc st.checkForList = true := by
  generalize st.checkForList = c
  rcases h.prev with h | h | h | h | h | h <;> rw [h] <;> rcases hc with rfl | rfl <;> cases c <;> rfl

/-- the closing token that matches a bracket definition -/
def closes (d : Definition) (c : PToken) : Prop :=
  (d = .group ∧ c.type = .endGroup) ∨ (d = .nestedExpression ∧ c.type = .endExpression) ∨
    (d = .sideEffect ∧ c.type = .endSideEffect)

/-- **the closing bracket** of the frame `g` after an operand or a suffix operator: nothing changes in the node array,
    the group stack is popped, the list flag restored, and `last_left` becomes the bracket node -/
theorem step_closeU {st : PState} {g : Nat} {E : Tree} {re cb : Nat} (hinv : UInv st (some g) (some g) (g + 1) E re cb)
    (G : ParseNode) (hG : st.nodes[g]? = some G) (fl : Bool) (hback : st.groupStack.back? = some (g, fl)) (c : PToken)
    (hcl : closes G.definition c) (il : Bool) :
    step st c il = .ok (stepC st g fl c) := by
  have hsd : (getDefinition c.type).1 = .drop ∧
      ((getDefinition c.type).2 = .endGrouping ∨ (getDefinition c.type).2 = .endSideEffect) := by
    rcases hcl with ⟨_, h⟩ | ⟨_, h⟩ | ⟨_, h⟩ <;> rw [h] <;> simp [getDefinition]
  have hcomp := hinv.comp_close _ hsd.2
  -- the fix-up of `last_left` is a no-op
  have hfix : ∀ (stx : PState), stx.lastLeft = st.lastLeft → stx.nodes = st.nodes →
      endGroupingFixLastLeft stx st.nodes.size g = .ok stx := by
    intro stx h1 h2
    cases hinv.bot with
    | plain hl hb _ _ =>
      obtain ⟨nd, hnd, hr, _⟩ := hb
      have hpos := hinv.n.pos
      exact endFix_noop stx _ g _ nd (by rw [h1, hl]) (by rw [h2]; exact hnd) (by omega) (Or.inl hr)
    | closed cb G' hlt hl hG' hbr hsp _ =>
      have hm := onSpine_mem cb E hsp
      have := (hinv.n.mem cb hm).1
      have hf := bracket_facts hbr
      exact endFix_noop stx _ g _ G' (by rw [h1, hl]) (by rw [h2]; exact hG') (by omega) (Or.inr ⟨hf.2.2.2.2.1, hf.2.2.2.2.2⟩)
  unfold step stepC
  simp only [hinv.hug, hinv.adjust, Outcome.bind]
  generalize getDefinition c.type = ds at hsd hcomp ⊢
  obtain ⟨d, sc⟩ := ds
  simp only at hsd hcomp ⊢
  obtain ⟨hd, hsc⟩ := hsd
  subst hd
  rcases hsc with hsc | hsc <;> subst hsc <;> rcases hcl with ⟨k1, k2⟩ | ⟨k1, k2⟩ | ⟨k1, k2⟩ <;>
  · simp only [hcomp, Bool.not_true, Bool.false_eq_true, if_false, dispatch, armEndGrouping, hback, hG, k1, k2,
      Outcome.bind, bne_self_eq_false]
    rw [hfix]
    · simp [pushNode, hinv.nnl]
    · rfl
    · rfl

/-! ### a complete operand -/

/-- `last_left` is a value or a closed bracket: whitespace after it starts an implicit list -/
def Ready (st : PState) : Prop :=
  ∃ i n, st.lastLeft = some i ∧ st.nodes[i]? = some n ∧
    (n.definition.isValueLike = true ∨ isBracketDef n.definition = true)

/-- the result of an operand that started in the open position `st1`: its nodes form the tree `sub` hanging at the
    dangling `right` pointer of the node above -/
structure OpdRes (st1 st2 : PState) (sub : Tree) (cb : Nat) : Prop where
  below : ∀ j, j < st1.nodes.size → st2.nodes[j]? = st1.nodes[j]?
  size : st1.nodes.size < st2.nodes.size
  tree : IsTreeAt st2.nodes st1.nextParent (some st1.nodes.size) sub
  inord : SortedIn st1.nodes.size st2.nodes.size sub.inorder
  nnl : st2.nextLastLeft = none
  gs : st2.groupStack = st1.groupStack
  cg : st2.currentGroup = st1.currentGroup
  bot : Bot st2 sub cb
  spine : SpineG (dfOf st2.nodes) cb sub
  prios : AllPrio st2.nodes
  prev : st2.previousSecondDef = .value ∨ st2.previousSecondDef = .identifier ∨ st2.previousSecondDef = .endGrouping
  ready : Ready st2

theorem OpdRes.prev6 {st1 st2 : PState} {sub : Tree} {cb : Nat} (h : OpdRes st1 st2 sub cb) :
    st2.previousSecondDef = .value ∨ st2.previousSecondDef = .identifier ∨ st2.previousSecondDef = .unarySuffix ∨
    st2.previousSecondDef = .endGrouping ∨ st2.previousSecondDef = .whitespace ∨ st2.previousSecondDef = .annotation := by
  rcases h.prev with h | h | h
  · exact Or.inl h
  · exact Or.inr (Or.inl h)
  · exact Or.inr (Or.inr (Or.inr (Or.inl h)))

theorem OpdRes.hug {st1 st2 : PState} {sub : Tree} {cb : Nat} {ug : Option Nat} (h : OpdRes st1 st2 sub cb)
    (hu : underGroupOf st1 = .ok ug) : underGroupOf st2 = .ok ug := by
  simp only [underGroupOf, h.gs, h.cg] at hu ⊢; exact hu

theorem OpdRes.cb_ge {st1 st2 : PState} {sub : Tree} {cb : Nat} (h : OpdRes st1 st2 sub cb) : st1.nodes.size ≤ cb := by
  cases h.bot with
  | plain _ _ _ _ => exact Nat.le_of_lt h.size
  | closed cb G _ _ _ _ hsp _ =>
    have hm := onSpine_mem cb sub hsp
    exact (h.inord.2 cb hm).1

/-- where a frame starts: at the very beginning, or right after its opening bracket `g` -/
inductive FrameStart (st0 : PState) : Option Nat → Option Nat → Nat → Prop
  | top : st0.nodes = #[] → st0.nextParent = none → FrameStart st0 none none 0
  | bracket (g : Nat) (G : ParseNode) (pg : Nat) : st0.nodes.size = g + 1 → st0.nextParent = some g →
      st0.nodes[g]? = some G → G.definition.isGroupLike = true → priority G.definition = some pg →
      G.right = some (g + 1) → FrameStart st0 (some g) (some g) (g + 1)

theorem FrameStart.base_eq {st0 : PState} {ug p : Option Nat} {base : Nat} (h : FrameStart st0 ug p base) :
    base = st0.nodes.size ∧ p = st0.nextParent := by
  cases h with
  | top h1 h2 => rw [h1, h2]; exact ⟨rfl, rfl⟩
  | bracket g G pg h1 h2 _ _ _ _ => rw [h1, h2]; exact ⟨rfl, rfl⟩

/-- **the first operand of a frame** -/
theorem uinv_first {st0 st2 : PState} {ug p : Option Nat} {base : Nat} {sub : Tree} {cb : Nat}
    (hfs : FrameStart st0 ug p base) (hug : underGroupOf st0 = .ok ug) (hres : OpdRes st0 st2 sub cb) :
    UInv st2 ug p base sub base cb := by
  obtain ⟨hb, hp⟩ := hfs.base_eq
  refine ⟨⟨by rw [hb, hp]; exact hres.tree, by rw [hb]; exact hres.inord, by rw [hb]; exact hres.tree.root_mem,
      by rw [hb]; exact hres.size, ?_, hres.prios⟩,
    hres.nnl, hres.hug hug, hres.bot, hres.spine, hres.prev6⟩
  cases hfs with
  | top _ _ => exact .top 0
  | bracket g G pg h1 h2 hG hgl hpg hGr =>
    exact .bracket g (g + 1) G pg (by rw [hres.below g (by omega)]; exact hG) hgl hpg hGr

/-- **a binary operator and its right operand**: the operator step, and what any complete operand after it yields -/
theorem bin_stepU {st : PState} {ug p : Option Nat} {base : Nat} {E : Tree} {re cb : Nat} {o : PToken}
    (hinv : UInv st ug p base E re cb) (ho : isBin3Tok o = true) :
    ∃ (q : Nat) (st1 : PState), priority (getDefinition o.type).1 = some q ∧ step st o false = .ok st1 ∧
      OpenB st1 ug ∧ AllPrio st1.nodes ∧ st1.nodes.size = st.nodes.size + 1 ∧ st1.groupStack = st.groupStack ∧
      st1.currentGroup = st.currentGroup ∧ aboveDef st1 = (getDefinition o.type).1 ∧
      ∀ (st2 : PState) (sub : Tree) (cb' : Nat), OpdRes st1 st2 sub cb' →
        ∃ re', UInv st2 ug p base
            (insertC cb (prioAt st.nodes) q ((getDefinition o.type).2 == .binaryRightToLeft) st.nodes.size o.col sub E)
            re' cb' ∧
          (∀ j, j < st.nodes.size → (st2.nodes[j]?).map (·.definition) = (st.nodes[j]?).map (·.definition)) ∧
          (∀ j, j < base → (st2.nodes[j]?).map (setRight none) = (st.nodes[j]?).map (setRight none)) ∧
          (∀ j, j + 1 < base → st2.nodes[j]? = st.nodes[j]?) ∧
          dfOf st2.nodes st.nodes.size = (getDefinition o.type).1 := by
  have ho' := ho
  unfold isBin3Tok at ho'
  obtain ⟨q0, hq0, _, hnb⟩ := bin3_prio20 o.type ho'
  obtain ⟨q, nodes', info, st1, hq, h1, hn1, hsz', hO1, hgs1, hcg1, hdefs, hout1, hout2, htreeK⟩ := op_effectU hinv ho
  have hs1 : st1.nodes.size = st.nodes.size + 1 := by rw [hn1]; simp [hsz']
  have hon1 : st1.nodes[st.nodes.size]? = some ⟨(getDefinition o.type).1, (getDefinition o.type).2, info.parent,
      info.left, some (st.nodes.size + 1), o⟩ := by
    rw [hn1, Array.getElem?_push, if_pos hsz'.symm]
  have hlt1 : ∀ j, j < st.nodes.size → st1.nodes[j]? = nodes'[j]? := by
    intro j hj; rw [hn1, Array.getElem?_push, if_neg (by omega)]
  have hprios1 : AllPrio st1.nodes := by
    intro i nd hi
    by_cases c1 : i < st.nodes.size
    · have := hdefs i c1
      rw [← hlt1 i c1, hi] at this
      cases hsi : st.nodes[i]? with
      | none => rw [hsi] at this; cases this
      | some nd0 =>
        rw [hsi] at this
        simp only [Option.map_some, Option.some.injEq] at this
        rw [this]; exact hinv.n.prios i nd0 hsi
    · by_cases c2 : i = st.nodes.size
      · subst c2; rw [hon1] at hi; injection hi with hi; subst hi; exact ⟨q, hq⟩
      · have : st1.nodes[i]? = none := by apply Array.getElem?_eq_none; omega
        rw [this] at hi; cases hi
  have habove : aboveDef st1 = (getDefinition o.type).1 := by
    unfold aboveDef; rw [hs1, Nat.add_sub_cancel, hon1]; rfl
  refine ⟨q, st1, hq, h1, hO1, hprios1, hs1, hgs1, hcg1, habove, ?_⟩
  intro st2 sub cb' hres
  have hbase := hinv.n.pos
  have hlt2 : ∀ j, j < st.nodes.size → st2.nodes[j]? = nodes'[j]? := by
    intro j hj; rw [hres.below j (by omega), hlt1 j hj]
  have hon2 : st2.nodes[st.nodes.size]? = some ⟨(getDefinition o.type).1, (getDefinition o.type).2, info.parent,
      info.left, some (st.nodes.size + 1), o⟩ := by
    rw [hres.below _ (by omega), hon1]
  have hnp1 : st1.nextParent = some st.nodes.size := by
    rw [hO1.link, hO1.lastLeft_eq (by omega), hs1]; rfl
  have hsub := hres.tree
  rw [hnp1, hs1] at hsub
  obtain ⟨re', htree', hfr'⟩ := htreeK st2.nodes sub o.col hlt2 ⟨_, hon2, rfl, rfl, rfl, rfl⟩ hsub
  have hdefs2 : ∀ j, j < st.nodes.size → (st2.nodes[j]?).map (·.definition) = (st.nodes[j]?).map (·.definition) := by
    intro j hj; rw [hlt2 j hj]; exact hdefs j hj
  have hdn : dfOf st2.nodes st.nodes.size = (getDefinition o.type).1 := by simp [dfOf, hon2]
  refine ⟨re', ?_, hdefs2, fun j hj => by rw [hlt2 j (by omega)]; exact hout1 j hj,
    fun j hj => by rw [hlt2 j (by omega)]; exact hout2 j hj, hdn⟩
  have hsz2 := hres.size
  have hframe2 : FrameOK st2.nodes ug p base re' := by
    cases hinv.n.frame with
    | top re => exact .top re'
    | bracket g re G pg hG hgl hpg hGr =>
      obtain ⟨G', hG', hGr', hgl', pg', hpg'⟩ := hfr' g rfl
      exact .bracket g re' G' pg' hG' hgl' hpg' hGr'
  have hcbge := hres.cb_ge
  have hsubin := hres.inord
  rw [hs1] at hsubin
  have hsubne : sub.inorder ≠ [] := List.ne_nil_of_mem hres.tree.root_mem
  refine ⟨⟨htree', ?_, ?_, by omega, hframe2, hres.prios⟩, hres.nnl, hres.hug hO1.hug, ?_, ?_, hres.prev6⟩
  · rw [insertC_inorder]
    exact hinv.n.inord.append_cons hsubin (by omega) (by omega)
  · rw [insertC_inorder]; exact List.mem_append_left _ hinv.n.first
  · cases hres.bot with
    | plain hl hb h3 h4 =>
      refine .plain hl hb ?_ h4
      rw [insertC_inorder, getLast?_append_cons', List.getLast?_cons_of_ne_nil hsubne]
      exact h3
    | closed _ G h1 h2 h3 h4 h5 h6 => exact .closed _ G h1 h2 h3 h4 (onSpine_insertC h5) h6
  · have hcong : ∀ i ∈ E.inorder, dfOf st.nodes i = dfOf st2.nodes i := by
      intro i hi
      have := hdefs2 i (hinv.n.mem i hi).2
      simp only [dfOf, this]
    apply spineG_insertC (by omega) (by rw [hdn]; exact hnb) hres.spine
    · intro hm; have := (hinv.n.mem _ hm).2; omega
    · exact hinv.spine.congr hcong

end Garnish.Spec
