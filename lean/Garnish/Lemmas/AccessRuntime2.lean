import Garnish.Lemmas.AccessRuntime
namespace Garnish.Access.Runtime
open Garnish Garnish.Access
open Garnish.Gen (Ty)

/-! ### the slice scan of `access_with_symbol` -/

section
variable {d : Iface}

theorem keyedValue_safe (ok : d.OK) (addr sym : Nat) : Safe (keyedValue d addr sym) := by
  unfold keyedValue
  apply safe_bind (ok.typeOf addr); intro t _
  split
  · apply safe_bind (ok.getPair addr); intro p _
    apply safe_bind (ok.typeOf _); intro tl _
    split
    · exact safe_bind (ok.getSymbol _) (fun _ _ => safe_ok _)
    · exact safe_ok _
  · exact safe_ok _

/-- `clampEnd`: `Ok` with an end below `i32::MAX`, or a number error (only for `length = i32::MIN`, which no length is) -/
theorem clampEnd_cases {end_ length : Int} (he : InRange end_) (hl : InRange length) :
    (∃ e, clampEnd end_ length = .ok e ∧ e < 2147483647 ∧ InRange e ∧ e ≤ end_ ∧ e < max length (end_ + 1)) ∨ clampEnd end_ length = .err .number := by
  unfold InRange at he hl
  unfold clampEnd numSub
  by_cases h : end_ ≥ length
  · simp only [h, if_true]
    by_cases h2 : InRange (length - 1)
    · simp only [h2, if_true]
      unfold InRange at h2
      exact .inl ⟨_, rfl, by omega, by unfold InRange; omega, by omega, by omega⟩
    · simp [h2]
  · simp only [h, if_false]
    exact .inl ⟨_, rfl, by omega, by unfold InRange; omega, by omega, by omega⟩

/-- with one unit of fuel per index from `i` to `end` the scan finishes: no panic, not out of fuel, and the increment
never fails (the clamped end is below `i32::MAX`) -/
theorem sliceScan_safe (ok : d.OK) (value sym : Nat) {end_ : Int} (he : end_ < 2147483647) :
    ∀ fuel i item, InRange i → (end_ - i + 1).toNat ≤ fuel → Safe (sliceScan d value sym end_ fuel i item) := by
  intro fuel
  induction fuel with
  | zero =>
    intro i item _ hf
    unfold sliceScan
    have : ¬ i ≤ end_ := by omega
    simp only [this, if_false]; exact safe_ok _
  | succ fuel ih =>
    intro i item hi hf
    unfold sliceScan
    split
    · rename_i hle
      apply safe_bind (ok.listItem _ _); intro li _
      apply safe_bind
      · unfold scanItem; split
        · exact safe_bind (keyedValue_safe ok _ _) (fun _ _ => safe_ok _)
        · exact safe_ok _
      intro item' _
      unfold InRange at hi
      have hin : InRange (i + 1) := by unfold InRange; omega
      simp only [numInc, numPlus, hin, if_true, bind_ok]
      exact ih _ _ hin (by omega)
    · exact safe_ok _

/-- a scan that returns has used one unit of fuel per index: its iteration count is exactly `sliceScanSteps` -/
theorem sliceScan_ok_fuel (value sym : Nat) (end_ : Int) :
    ∀ fuel i item r, sliceScan d value sym end_ fuel i item = .ok r → (end_ - i + 1).toNat ≤ fuel := by
  intro fuel
  induction fuel with
  | zero =>
    intro i item r h
    unfold sliceScan at h
    split at h
    · cases h
    · omega
  | succ fuel ih =>
    intro i item r h
    unfold sliceScan at h
    split at h
    · rename_i hle
      cases h0 : d.listItem value (.int i) with
      | ok li =>
        rw [h0] at h; simp only [bind_ok] at h
        cases h1 : scanItem d sym item li with
        | ok item' =>
          rw [h1] at h; simp only [bind_ok] at h
          unfold numInc numPlus at h
          split at h
          · simp only [bind_ok] at h
            have := ih _ _ _ h
            omega
          · simp at h
        | err _ => rw [h1] at h; simp at h
        | panic _ => rw [h1] at h; simp at h
        | fuelOut => rw [h1] at h; simp at h
      | err _ => rw [h0] at h; simp at h
      | panic _ => rw [h0] at h; simp at h
      | fuelOut => rw [h0] at h; simp at h
    · omega

theorem accessSliceListSymbol_safe (ok : d.OK) (value range sym : Nat) : Safe (accessSliceListSymbol d value range sym) := by
  unfold accessSliceListSymbol
  cases hr : getRangeNums d range with
  | ok r =>
    obtain ⟨s, e, len⟩ := r
    obtain ⟨hs, he, _, _⟩ := getRangeNums_inRange ok hr
    simp only [bind_ok]
    apply safe_bind (ok.listLen value); intro n _
    rcases clampEnd_cases he (sizeToNumber_inRange n) with ⟨e', h1, h2, _, _, _⟩ | h1
    · rw [h1]; simp only [bind_ok]
      exact sliceScan_safe ok value sym h2 _ _ _ hs (by unfold sliceScanSteps; omega)
    · rw [h1]; exact safe_err _
  | err e => exact safe_err _
  | panic m => exact absurd hr ((getRangeNums_safe ok range).noPanic m)
  | fuelOut => rcases getRangeNums_safe ok range with ⟨_, h⟩ | ⟨_, h⟩ <;> rw [hr] at h <;> cases h

end

/-! ### the two shipped data objects are total -/

theorem basicIface_ok {h : Heap} (wf : h.WF) (intOf : Nat → Option Int) (hint : ∀ n v, intOf n = some v → InRange v) :
    (basicIface h intOf).OK where
  typeOf a := safe_bind (getData_safe wf a) (fun _ _ => safe_ok _)
  getPair a := safe_bind (getData_safe wf a) (fun c _ => by split <;> first | exact safe_ok _ | exact safe_err _)
  getRange a := safe_bind (getData_safe wf a) (fun c _ => by split <;> first | exact safe_ok _ | exact safe_err _)
  getSlice a := safe_bind (getData_safe wf a) (fun c _ => by split <;> first | exact safe_ok _ | exact safe_err _)
  getConcat a := safe_bind (getData_safe wf a) (fun c _ => by split <;> first | exact safe_ok _ | exact safe_err _)
  getNumber a := safe_bind (getData_safe wf a) (fun c _ => by
    split
    · split <;> first | exact safe_ok _ | exact safe_err _
    · exact safe_err _)
  numberInRange a v hv := by
    simp only [basicIface] at hv
    cases hg : h.getData a with
    | ok c =>
      rw [hg] at hv; simp only [bind_ok] at hv
      split at hv
      · split at hv
        · rename_i hi; cases hv; exact hint _ _ hi
        · cases hv
      · cases hv
    | err _ => rw [hg] at hv; cases hv
    | panic _ => rw [hg] at hv; cases hv
    | fuelOut => rw [hg] at hv; cases hv
  getSymbol a := safe_bind (getData_safe wf a) (fun c _ => by split <;> first | exact safe_ok _ | exact safe_err _)
  listLen a := safe_bind (getData_safe wf a) (fun c _ => by
    cases c <;> simp [asList, safe_ok, safe_err])
  listItem a ix := (getListItem_spec wf a ix).1
  charLen a := safe_bind (getData_safe wf a) (fun c _ => by cases c <;> simp [asCharList, safe_ok, safe_err])
  charItem a ix := by
    show Safe (getCharListItem h a ix)
    rw [getCharListItem_eq]; exact (genItem_spec wf (fits_chars wf) (fun _ _ => asChar_of) a ix).1
  byteLen a := safe_bind (getData_safe wf a) (fun c _ => by cases c <;> simp [asByteList, safe_ok, safe_err])
  byteItem a ix := by
    show Safe (getByteListItem h a ix)
    rw [getByteListItem_eq]; exact (genItem_spec wf (fits_bytes wf) (fun _ _ => asByte_of) a ix).1
  symLen a := safe_bind (getData_safe wf a) (fun c _ => by cases c <;> simp [asSymbolList, safe_ok, safe_err])
  symItem a ix := by
    show Safe (getSymbolListItem h a ix)
    rw [getSymbolListItem_eq]; exact (genItem_spec wf (fits_parts wf) (fun _ _ => asPart_of) a ix).1

end Garnish.Access.Runtime
