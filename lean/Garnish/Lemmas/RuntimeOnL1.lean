/-
The relativised chain for stores whose `add_to_list` / `end_list` do not satisfy the two unrestricted list clauses of
`StoreLawsOn` (BasicGarnishData: `start_list(n)` announces the length).  `shadow S X Y` is `S` with other
`add_to_list` / `end_list` operations; every view and every other operation is `S`'s.  For every instruction whose
handler does not reach the two operations the dispatcher on `shadow S X Y` IS the dispatcher on `S`
(`dispatch_shadow`), so a step theorem proved for the shadow store (over the full contract `StoreLawsOn`) is a step
theorem for `S` (`stepSimOn_shadow`).  `shadowCovered`: the instructions for which `dispatch_shadow` is proved here —
all but `MakeList` (treated separately from the list law, RuntimeOnL2) and `Access`, `AccessLengthInternal`,
`Apply`, `EmptyApply`, `Resolve` (their handlers do not call the list operations either, but the equation needs
congruence lemmas for the fuel-recursive helpers `iterateConcatenation`, `applyPathLoop`, …; not done).
-/
import Garnish.Props.RuntimeRefineOn4
import Garnish.Props.C19StoreOn
set_option linter.unusedSimpArgs false
set_option linter.unusedVariables false
namespace Garnish.Lemmas.Runtime.OnL
open Garnish Gen Garnish.Abs Garnish.Model.Equality Garnish.Model.Runtime Garnish.Lemmas.Runtime
open Garnish.Props.RuntimeRefine Garnish.Lemmas.Runtime.On Garnish.Props.C19StoreOn

variable {F σ : Type} {S : RStore F σ} {Inv : σ → Prop} {Rd : σ → Nat → Prop} {P : Prog F} {host : Host F}
  (fo : FloatOps F)

/-- `S` with other `add_to_list` / `end_list` operations: every other field, every view is `S`'s -/
@[reducible] def shadow (S : RStore F σ) (X : Nat → Nat → RM σ Nat) (Y : Nat → RM σ Nat) : RStore F σ :=
  { S with addToList := X, endList := Y }

theorem shadow_self (S : RStore F σ) : shadow S S.addToList S.endList = S := rfl


/-! ### the effect predicates do not see the difference -/
section
variable (X : Nat → Nat → RM σ Nat) (Y : Nat → RM σ Nat)

theorem keeps_shadow : Keeps (shadow S X Y) = Keeps S := by
  funext s s'; exact propext ⟨fun h => ⟨h.dec, h.jump, h.ilen, h.cur, h.instr⟩, fun h => ⟨h.dec, h.jump, h.ilen, h.cur, h.instr⟩⟩

theorem eff_shadow : Eff (shadow S X Y) = Eff S := by
  funext s s' r v
  exact propext ⟨fun h => ⟨keeps_shadow X Y ▸ h.keeps, h.regs, h.vals, h.trace, h.frames⟩,
    fun h => ⟨(keeps_shadow X Y).symm ▸ h.keeps, h.regs, h.vals, h.trace, h.frames⟩⟩

theorem feff_shadow : FEff (shadow S X Y) = FEff S := by
  funext s s' r v f
  exact propext ⟨fun h => ⟨keeps_shadow X Y ▸ h.keeps, h.regs, h.vals, h.trace, h.frames⟩,
    fun h => ⟨(keeps_shadow X Y).symm ▸ h.keeps, h.regs, h.vals, h.trace, h.frames⟩⟩

theorem heff_shadow : HEff (shadow S X Y) = HEff S := by
  funext s s' r
  exact propext ⟨fun h => ⟨keeps_shadow X Y ▸ h.keeps, h.regs, h.vals, h.frames⟩,
    fun h => ⟨(keeps_shadow X Y).symm ▸ h.keeps, h.regs, h.vals, h.frames⟩⟩

theorem heffI_shadow : HEffI (shadow S X Y) Inv = HEffI S Inv := by
  funext s s' r
  exact propext ⟨fun h => ⟨heff_shadow X Y ▸ h.toHEff, h.inv⟩, fun h => ⟨(heff_shadow X Y).symm ▸ h.toHEff, h.inv⟩⟩

theorem addsOn_shadow : AddsOn (shadow S X Y) Inv = AddsOn S Inv := by
  funext m s v
  unfold AddsOn
  rw [eff_shadow]

theorem simD_shadow : SimD (shadow S X Y) P = SimD S P := by
  funext s r v f
  exact propext ⟨fun h => ⟨h.regs, h.vals, h.frames, h.instrs, h.jumps, h.ilen⟩,
    fun h => ⟨h.regs, h.vals, h.frames, h.instrs, h.jumps, h.ilen⟩⟩

theorem hostAnswerI_shadow : HostAnswerI (shadow S X Y) Inv = HostAnswerI S Inv := by
  funext call s ans
  cases ans <;> simp only [HostAnswerI, heffI_shadow]

theorem hostRefinesI_shadow (HR : HostRefinesI S Inv host) : HostRefinesI (shadow S X Y) Inv host :=
  ⟨fun op l r vl vr s hi hl hr => by rw [hostAnswerI_shadow]; exact HR.defer op l r vl vr s hi hl hr,
   fun op a v s hi ha => by rw [hostAnswerI_shadow]; exact HR.deferUnary op a v s hi ha,
   fun y s hi => by rw [hostAnswerI_shadow]; exact HR.resolve y s hi,
   fun n r vr s hi hr => by rw [hostAnswerI_shadow]; exact HR.apply n r vr s hi hr⟩

/-- the contract of a shadow store from the clauses of `S` other than the two list clauses and the two list clauses
of the shadow operations -/
theorem storeLawsOn_shadow (N : StoreLawsOnNoList S Inv Rd)
    (hadd : ∀ t items a s, Inv s → S.building s = some (t, items) →
      ∃ t' s', X t a s = .ok (t', s') ∧ Eff S s s' (S.regs s) (S.vals s) ∧
        S.building s' = some (t', items ++ [a]) ∧ Inv s')
    (hend : ∀ t items vs s, Inv s → S.building s = some (t, items) → DecodesList (S.view s) items vs →
      AddsOn S Inv (Y t) s (.list vs)) : StoreLawsOn (shadow S X Y) Inv Rd where
  addToList := by simpa only [eff_shadow] using hadd
  endList := by simpa only [addsOn_shadow] using hend
  rangeTyped := by simpa only [eff_shadow, feff_shadow, addsOn_shadow] using N.rangeTyped
  listIdx := by simpa only [eff_shadow, feff_shadow, addsOn_shadow] using N.listIdx
  charIdx := by simpa only [eff_shadow, feff_shadow, addsOn_shadow] using N.charIdx
  byteIdx := by simpa only [eff_shadow, feff_shadow, addsOn_shadow] using N.byteIdx
  symIdx := by simpa only [eff_shadow, feff_shadow, addsOn_shadow] using N.symIdx
  addUnit := by simpa only [eff_shadow, feff_shadow, addsOn_shadow] using N.addUnit
  addTrue := by simpa only [eff_shadow, feff_shadow, addsOn_shadow] using N.addTrue
  addFalse := by simpa only [eff_shadow, feff_shadow, addsOn_shadow] using N.addFalse
  addNumber := by simpa only [eff_shadow, feff_shadow, addsOn_shadow] using N.addNumber
  addType := by simpa only [eff_shadow, feff_shadow, addsOn_shadow] using N.addType
  addChar := by simpa only [eff_shadow, feff_shadow, addsOn_shadow] using N.addChar
  addByte := by simpa only [eff_shadow, feff_shadow, addsOn_shadow] using N.addByte
  addSymbol := by simpa only [eff_shadow, feff_shadow, addsOn_shadow] using N.addSymbol
  addPair := by simpa only [eff_shadow, feff_shadow, addsOn_shadow] using N.addPair
  addConcatenation := by simpa only [eff_shadow, feff_shadow, addsOn_shadow] using N.addConcatenation
  addRange := by simpa only [eff_shadow, feff_shadow, addsOn_shadow] using N.addRange
  addSlice := by simpa only [eff_shadow, feff_shadow, addsOn_shadow] using N.addSlice
  addPartial := by simpa only [eff_shadow, feff_shadow, addsOn_shadow] using N.addPartial
  mergeSome := by simpa only [eff_shadow, feff_shadow, addsOn_shadow] using N.mergeSome
  startList := by simpa only [eff_shadow, feff_shadow, addsOn_shadow] using N.startList
  popRegisterBuilding := by simpa only [eff_shadow, feff_shadow, addsOn_shadow] using N.popRegisterBuilding
  readable := by simpa only [eff_shadow, feff_shadow, addsOn_shadow] using N.readable
  pushRegister := by simpa only [eff_shadow, feff_shadow, addsOn_shadow] using N.pushRegister
  popRegisterNil := by simpa only [eff_shadow, feff_shadow, addsOn_shadow] using N.popRegisterNil
  popRegisterCons := fun s a rest hi hr hd => by simpa only [eff_shadow] using N.popRegisterCons s a rest hi hr hd
  pushValueStack := by simpa only [eff_shadow, feff_shadow, addsOn_shadow] using N.pushValueStack
  popValueStackNil := by simpa only [eff_shadow, feff_shadow, addsOn_shadow] using N.popValueStackNil
  popValueStackCons := by simpa only [eff_shadow, feff_shadow, addsOn_shadow] using N.popValueStackCons
  setCurrentNil := by simpa only [eff_shadow, feff_shadow, addsOn_shadow] using N.setCurrentNil
  setCurrentCons := by simpa only [eff_shadow, feff_shadow, addsOn_shadow] using N.setCurrentCons
  pushFrame := by simpa only [eff_shadow, feff_shadow, addsOn_shadow] using N.pushFrame
  popFrameNil := by simpa only [eff_shadow, feff_shadow, addsOn_shadow] using N.popFrameNil
  popFrameCons := by simpa only [eff_shadow, feff_shadow, addsOn_shadow] using N.popFrameCons
  setCursor := by simpa only [eff_shadow, feff_shadow, addsOn_shadow] using N.setCursor
  deferOp := N.deferOp
  resolve := N.resolve
  apply := N.apply
  dataBound := by simpa only [eff_shadow, feff_shadow, addsOn_shadow] using N.dataBound
end

theorem popRegisters_shadow (X : Nat → Nat → RM σ Nat) (Y : Nat → RM σ Nat) : ∀ n : Nat,
    popRegisters (shadow S X Y) n = popRegisters S n
  | 0 => rfl
  | n + 1 => by
    show (do let _ ← S.popRegister; popRegisters (shadow S X Y) n : RM σ Unit) = _
    rw [popRegisters_shadow X Y n]; rfl

theorem equalH_shadow (X : Nat → Nat → RM σ Nat) (Y : Nat → RM σ Nat) (fuel : Nat) (b : Bool) :
    equalH fo (shadow S X Y) fuel b = equalH fo S fuel b := by
  funext s
  unfold equalH
  show (match performEqualityCheck fo fuel (S.view s) (S.regs s) with
    | .ok (eq, regs') => _ | .err e => _ | .panic p => _ | .fuelOut => _) = _
  cases performEqualityCheck fo fuel (S.view s) (S.regs s) with
  | ok p =>
    obtain ⟨eq, regs'⟩ := p
    show (do popRegisters (shadow S X Y) ((S.regs s).length - regs'.length)
             pushBoolean S (if b then !eq else eq); pure none : RM σ (Option Nat)) s = _
    rw [popRegisters_shadow]
  | err e => rfl
  | panic p => rfl
  | fuelOut => rfl

/-- the instructions for which the dispatcher does not see the difference between `S` and a shadow of `S` -/
def shadowCovered : Instruction → Bool
  | .makeList | .access | .accessLengthInternal | .apply | .emptyApply | .resolve => false
  | _ => true

variable (X : Nat → Nat → RM σ Nat) (Y : Nat → RM σ Nat) (fuel : Nat) (cast : RM σ (Option Nat)) (operand : Option Nat)

theorem ds_invalid : dispatch fo (shadow S X Y) fuel (fullHandlers fo (shadow S X Y) fuel cast) .invalid operand =
    dispatch fo S fuel (fullHandlers fo S fuel cast) .invalid operand := rfl

theorem ds_add : dispatch fo (shadow S X Y) fuel (fullHandlers fo (shadow S X Y) fuel cast) .add operand =
    dispatch fo S fuel (fullHandlers fo S fuel cast) .add operand := rfl

theorem ds_subtract : dispatch fo (shadow S X Y) fuel (fullHandlers fo (shadow S X Y) fuel cast) .subtract operand =
    dispatch fo S fuel (fullHandlers fo S fuel cast) .subtract operand := rfl

theorem ds_multiply : dispatch fo (shadow S X Y) fuel (fullHandlers fo (shadow S X Y) fuel cast) .multiply operand =
    dispatch fo S fuel (fullHandlers fo S fuel cast) .multiply operand := rfl

theorem ds_divide : dispatch fo (shadow S X Y) fuel (fullHandlers fo (shadow S X Y) fuel cast) .divide operand =
    dispatch fo S fuel (fullHandlers fo S fuel cast) .divide operand := rfl

theorem ds_integerDivide : dispatch fo (shadow S X Y) fuel (fullHandlers fo (shadow S X Y) fuel cast) .integerDivide operand =
    dispatch fo S fuel (fullHandlers fo S fuel cast) .integerDivide operand := rfl

theorem ds_power : dispatch fo (shadow S X Y) fuel (fullHandlers fo (shadow S X Y) fuel cast) .power operand =
    dispatch fo S fuel (fullHandlers fo S fuel cast) .power operand := rfl

theorem ds_opposite : dispatch fo (shadow S X Y) fuel (fullHandlers fo (shadow S X Y) fuel cast) .opposite operand =
    dispatch fo S fuel (fullHandlers fo S fuel cast) .opposite operand := rfl

theorem ds_absoluteValue : dispatch fo (shadow S X Y) fuel (fullHandlers fo (shadow S X Y) fuel cast) .absoluteValue operand =
    dispatch fo S fuel (fullHandlers fo S fuel cast) .absoluteValue operand := rfl

theorem ds_remainder : dispatch fo (shadow S X Y) fuel (fullHandlers fo (shadow S X Y) fuel cast) .remainder operand =
    dispatch fo S fuel (fullHandlers fo S fuel cast) .remainder operand := rfl

theorem ds_bitwiseNot : dispatch fo (shadow S X Y) fuel (fullHandlers fo (shadow S X Y) fuel cast) .bitwiseNot operand =
    dispatch fo S fuel (fullHandlers fo S fuel cast) .bitwiseNot operand := rfl

theorem ds_bitwiseAnd : dispatch fo (shadow S X Y) fuel (fullHandlers fo (shadow S X Y) fuel cast) .bitwiseAnd operand =
    dispatch fo S fuel (fullHandlers fo S fuel cast) .bitwiseAnd operand := rfl

theorem ds_bitwiseOr : dispatch fo (shadow S X Y) fuel (fullHandlers fo (shadow S X Y) fuel cast) .bitwiseOr operand =
    dispatch fo S fuel (fullHandlers fo S fuel cast) .bitwiseOr operand := rfl

theorem ds_bitwiseXor : dispatch fo (shadow S X Y) fuel (fullHandlers fo (shadow S X Y) fuel cast) .bitwiseXor operand =
    dispatch fo S fuel (fullHandlers fo S fuel cast) .bitwiseXor operand := rfl

theorem ds_bitwiseShiftLeft : dispatch fo (shadow S X Y) fuel (fullHandlers fo (shadow S X Y) fuel cast) .bitwiseShiftLeft operand =
    dispatch fo S fuel (fullHandlers fo S fuel cast) .bitwiseShiftLeft operand := rfl

theorem ds_bitwiseShiftRight : dispatch fo (shadow S X Y) fuel (fullHandlers fo (shadow S X Y) fuel cast) .bitwiseShiftRight operand =
    dispatch fo S fuel (fullHandlers fo S fuel cast) .bitwiseShiftRight operand := rfl

theorem ds_and : dispatch fo (shadow S X Y) fuel (fullHandlers fo (shadow S X Y) fuel cast) .and operand =
    dispatch fo S fuel (fullHandlers fo S fuel cast) .and operand := rfl

theorem ds_or : dispatch fo (shadow S X Y) fuel (fullHandlers fo (shadow S X Y) fuel cast) .or operand =
    dispatch fo S fuel (fullHandlers fo S fuel cast) .or operand := rfl

theorem ds_xor : dispatch fo (shadow S X Y) fuel (fullHandlers fo (shadow S X Y) fuel cast) .xor operand =
    dispatch fo S fuel (fullHandlers fo S fuel cast) .xor operand := rfl

theorem ds_not : dispatch fo (shadow S X Y) fuel (fullHandlers fo (shadow S X Y) fuel cast) .not operand =
    dispatch fo S fuel (fullHandlers fo S fuel cast) .not operand := rfl

theorem ds_tis : dispatch fo (shadow S X Y) fuel (fullHandlers fo (shadow S X Y) fuel cast) .tis operand =
    dispatch fo S fuel (fullHandlers fo S fuel cast) .tis operand := rfl

theorem ds_put : dispatch fo (shadow S X Y) fuel (fullHandlers fo (shadow S X Y) fuel cast) .put operand =
    dispatch fo S fuel (fullHandlers fo S fuel cast) .put operand := rfl

theorem ds_putValue : dispatch fo (shadow S X Y) fuel (fullHandlers fo (shadow S X Y) fuel cast) .putValue operand =
    dispatch fo S fuel (fullHandlers fo S fuel cast) .putValue operand := rfl

theorem ds_pushValue : dispatch fo (shadow S X Y) fuel (fullHandlers fo (shadow S X Y) fuel cast) .pushValue operand =
    dispatch fo S fuel (fullHandlers fo S fuel cast) .pushValue operand := rfl

theorem ds_updateValue : dispatch fo (shadow S X Y) fuel (fullHandlers fo (shadow S X Y) fuel cast) .updateValue operand =
    dispatch fo S fuel (fullHandlers fo S fuel cast) .updateValue operand := rfl

theorem ds_startSideEffect : dispatch fo (shadow S X Y) fuel (fullHandlers fo (shadow S X Y) fuel cast) .startSideEffect operand =
    dispatch fo S fuel (fullHandlers fo S fuel cast) .startSideEffect operand := rfl

theorem ds_endSideEffect : dispatch fo (shadow S X Y) fuel (fullHandlers fo (shadow S X Y) fuel cast) .endSideEffect operand =
    dispatch fo S fuel (fullHandlers fo S fuel cast) .endSideEffect operand := rfl

theorem ds_typeOf : dispatch fo (shadow S X Y) fuel (fullHandlers fo (shadow S X Y) fuel cast) .typeOf operand =
    dispatch fo S fuel (fullHandlers fo S fuel cast) .typeOf operand := rfl

theorem ds_applyType : dispatch fo (shadow S X Y) fuel (fullHandlers fo (shadow S X Y) fuel cast) .applyType operand =
    dispatch fo S fuel (fullHandlers fo S fuel cast) .applyType operand := rfl

theorem ds_typeEqual : dispatch fo (shadow S X Y) fuel (fullHandlers fo (shadow S X Y) fuel cast) .typeEqual operand =
    dispatch fo S fuel (fullHandlers fo S fuel cast) .typeEqual operand := rfl

theorem ds_equal : dispatch fo (shadow S X Y) fuel (fullHandlers fo (shadow S X Y) fuel cast) .equal operand =
    dispatch fo S fuel (fullHandlers fo S fuel cast) .equal operand := equalH_shadow fo X Y fuel _

theorem ds_notEqual : dispatch fo (shadow S X Y) fuel (fullHandlers fo (shadow S X Y) fuel cast) .notEqual operand =
    dispatch fo S fuel (fullHandlers fo S fuel cast) .notEqual operand := equalH_shadow fo X Y fuel _

theorem ds_lessThan : dispatch fo (shadow S X Y) fuel (fullHandlers fo (shadow S X Y) fuel cast) .lessThan operand =
    dispatch fo S fuel (fullHandlers fo S fuel cast) .lessThan operand := rfl

theorem ds_lessThanOrEqual : dispatch fo (shadow S X Y) fuel (fullHandlers fo (shadow S X Y) fuel cast) .lessThanOrEqual operand =
    dispatch fo S fuel (fullHandlers fo S fuel cast) .lessThanOrEqual operand := rfl

theorem ds_greaterThan : dispatch fo (shadow S X Y) fuel (fullHandlers fo (shadow S X Y) fuel cast) .greaterThan operand =
    dispatch fo S fuel (fullHandlers fo S fuel cast) .greaterThan operand := rfl

theorem ds_greaterThanOrEqual : dispatch fo (shadow S X Y) fuel (fullHandlers fo (shadow S X Y) fuel cast) .greaterThanOrEqual operand =
    dispatch fo S fuel (fullHandlers fo S fuel cast) .greaterThanOrEqual operand := rfl

theorem ds_makeStartExclusiveRange : dispatch fo (shadow S X Y) fuel (fullHandlers fo (shadow S X Y) fuel cast) .makeStartExclusiveRange operand =
    dispatch fo S fuel (fullHandlers fo S fuel cast) .makeStartExclusiveRange operand := rfl

theorem ds_makeEndExclusiveRange : dispatch fo (shadow S X Y) fuel (fullHandlers fo (shadow S X Y) fuel cast) .makeEndExclusiveRange operand =
    dispatch fo S fuel (fullHandlers fo S fuel cast) .makeEndExclusiveRange operand := rfl

theorem ds_makeExclusiveRange : dispatch fo (shadow S X Y) fuel (fullHandlers fo (shadow S X Y) fuel cast) .makeExclusiveRange operand =
    dispatch fo S fuel (fullHandlers fo S fuel cast) .makeExclusiveRange operand := rfl

theorem ds_makePair : dispatch fo (shadow S X Y) fuel (fullHandlers fo (shadow S X Y) fuel cast) .makePair operand =
    dispatch fo S fuel (fullHandlers fo S fuel cast) .makePair operand := rfl

theorem ds_makeRange : dispatch fo (shadow S X Y) fuel (fullHandlers fo (shadow S X Y) fuel cast) .makeRange operand =
    dispatch fo S fuel (fullHandlers fo S fuel cast) .makeRange operand := rfl

theorem ds_concat : dispatch fo (shadow S X Y) fuel (fullHandlers fo (shadow S X Y) fuel cast) .concat operand =
    dispatch fo S fuel (fullHandlers fo S fuel cast) .concat operand := rfl

theorem ds_accessLeftInternal : dispatch fo (shadow S X Y) fuel (fullHandlers fo (shadow S X Y) fuel cast) .accessLeftInternal operand =
    dispatch fo S fuel (fullHandlers fo S fuel cast) .accessLeftInternal operand := rfl

theorem ds_accessRightInternal : dispatch fo (shadow S X Y) fuel (fullHandlers fo (shadow S X Y) fuel cast) .accessRightInternal operand =
    dispatch fo S fuel (fullHandlers fo S fuel cast) .accessRightInternal operand := rfl

theorem ds_jumpIfTrue : dispatch fo (shadow S X Y) fuel (fullHandlers fo (shadow S X Y) fuel cast) .jumpIfTrue operand =
    dispatch fo S fuel (fullHandlers fo S fuel cast) .jumpIfTrue operand := rfl

theorem ds_jumpIfFalse : dispatch fo (shadow S X Y) fuel (fullHandlers fo (shadow S X Y) fuel cast) .jumpIfFalse operand =
    dispatch fo S fuel (fullHandlers fo S fuel cast) .jumpIfFalse operand := rfl

theorem ds_jumpTo : dispatch fo (shadow S X Y) fuel (fullHandlers fo (shadow S X Y) fuel cast) .jumpTo operand =
    dispatch fo S fuel (fullHandlers fo S fuel cast) .jumpTo operand := rfl

theorem ds_endExpression : dispatch fo (shadow S X Y) fuel (fullHandlers fo (shadow S X Y) fuel cast) .endExpression operand =
    dispatch fo S fuel (fullHandlers fo S fuel cast) .endExpression operand := rfl

theorem ds_reapply : dispatch fo (shadow S X Y) fuel (fullHandlers fo (shadow S X Y) fuel cast) .reapply operand =
    dispatch fo S fuel (fullHandlers fo S fuel cast) .reapply operand := rfl

theorem ds_partialApply : dispatch fo (shadow S X Y) fuel (fullHandlers fo (shadow S X Y) fuel cast) .partialApply operand =
    dispatch fo S fuel (fullHandlers fo S fuel cast) .partialApply operand := rfl

/-- **dispatch_shadow** -/
theorem dispatch_shadow (instr : Instruction) (h : shadowCovered instr = true) :
    dispatch fo (shadow S X Y) fuel (fullHandlers fo (shadow S X Y) fuel cast) instr operand =
      dispatch fo S fuel (fullHandlers fo S fuel cast) instr operand := by
  cases instr
  case invalid => exact ds_invalid fo X Y fuel cast operand
  case add => exact ds_add fo X Y fuel cast operand
  case subtract => exact ds_subtract fo X Y fuel cast operand
  case multiply => exact ds_multiply fo X Y fuel cast operand
  case divide => exact ds_divide fo X Y fuel cast operand
  case integerDivide => exact ds_integerDivide fo X Y fuel cast operand
  case power => exact ds_power fo X Y fuel cast operand
  case opposite => exact ds_opposite fo X Y fuel cast operand
  case absoluteValue => exact ds_absoluteValue fo X Y fuel cast operand
  case remainder => exact ds_remainder fo X Y fuel cast operand
  case bitwiseNot => exact ds_bitwiseNot fo X Y fuel cast operand
  case bitwiseAnd => exact ds_bitwiseAnd fo X Y fuel cast operand
  case bitwiseOr => exact ds_bitwiseOr fo X Y fuel cast operand
  case bitwiseXor => exact ds_bitwiseXor fo X Y fuel cast operand
  case bitwiseShiftLeft => exact ds_bitwiseShiftLeft fo X Y fuel cast operand
  case bitwiseShiftRight => exact ds_bitwiseShiftRight fo X Y fuel cast operand
  case and => exact ds_and fo X Y fuel cast operand
  case or => exact ds_or fo X Y fuel cast operand
  case xor => exact ds_xor fo X Y fuel cast operand
  case not => exact ds_not fo X Y fuel cast operand
  case tis => exact ds_tis fo X Y fuel cast operand
  case put => exact ds_put fo X Y fuel cast operand
  case putValue => exact ds_putValue fo X Y fuel cast operand
  case pushValue => exact ds_pushValue fo X Y fuel cast operand
  case updateValue => exact ds_updateValue fo X Y fuel cast operand
  case startSideEffect => exact ds_startSideEffect fo X Y fuel cast operand
  case endSideEffect => exact ds_endSideEffect fo X Y fuel cast operand
  case typeOf => exact ds_typeOf fo X Y fuel cast operand
  case applyType => exact ds_applyType fo X Y fuel cast operand
  case typeEqual => exact ds_typeEqual fo X Y fuel cast operand
  case equal => exact ds_equal fo X Y fuel cast operand
  case notEqual => exact ds_notEqual fo X Y fuel cast operand
  case lessThan => exact ds_lessThan fo X Y fuel cast operand
  case lessThanOrEqual => exact ds_lessThanOrEqual fo X Y fuel cast operand
  case greaterThan => exact ds_greaterThan fo X Y fuel cast operand
  case greaterThanOrEqual => exact ds_greaterThanOrEqual fo X Y fuel cast operand
  case makeStartExclusiveRange => exact ds_makeStartExclusiveRange fo X Y fuel cast operand
  case makeEndExclusiveRange => exact ds_makeEndExclusiveRange fo X Y fuel cast operand
  case makeExclusiveRange => exact ds_makeExclusiveRange fo X Y fuel cast operand
  case makePair => exact ds_makePair fo X Y fuel cast operand
  case makeList => cases h
  case makeRange => exact ds_makeRange fo X Y fuel cast operand
  case concat => exact ds_concat fo X Y fuel cast operand
  case access => cases h
  case accessLeftInternal => exact ds_accessLeftInternal fo X Y fuel cast operand
  case accessRightInternal => exact ds_accessRightInternal fo X Y fuel cast operand
  case accessLengthInternal => cases h
  case jumpIfTrue => exact ds_jumpIfTrue fo X Y fuel cast operand
  case jumpIfFalse => exact ds_jumpIfFalse fo X Y fuel cast operand
  case jumpTo => exact ds_jumpTo fo X Y fuel cast operand
  case endExpression => exact ds_endExpression fo X Y fuel cast operand
  case apply => cases h
  case emptyApply => cases h
  case reapply => exact ds_reapply fo X Y fuel cast operand
  case partialApply => exact ds_partialApply fo X Y fuel cast operand
  case resolve => cases h

omit fuel cast operand in
/-- a step theorem for the shadow store is a step theorem for `S` when the two dispatchers agree at the fetched
instruction -/
theorem stepSimOn_shadow (fuel : Nat) (H₂ H : OtherHandlers σ) {s : σ} {m : MState F}
    (hsim : Sim S P s m) {instr : Instruction} {operand : Option Nat}
    (hfetch : P.instrs[m.pc]? = some (instr, operand))
    (hd : dispatch fo (shadow S X Y) fuel H₂ instr operand = dispatch fo S fuel H instr operand)
    (h : StepSimOn fo host (shadow S X Y) Inv P fuel H₂ s m) : StepSimOn fo host S Inv P fuel H s m := by
  have hf : (RM.read (fun st => S.instruction st (S.cursor st)) : RM σ _) s = .ok (some (instr, operand), s) := by
    show Outcome.ok (S.instruction s (S.cursor s), s) = _
    rw [hsim.2.instrs, hsim.1, hfetch]
  have hex : executeCurrentInstruction fo (shadow S X Y) fuel H₂ s = executeCurrentInstruction fo S fuel H s := by
    have hf₂ : (RM.read (fun st => (shadow S X Y).instruction st ((shadow S X Y).cursor st)) : RM σ _) s =
        .ok (some (instr, operand), s) := hf
    rw [executeCurrentInstruction, bind_ok hf₂, executeCurrentInstruction, bind_ok hf]
    simp only []
    rw [hd]; rfl
  unfold StepSimOn at h ⊢
  rw [hex] at h
  revert h
  cases Abs.step fo host P m with
  | running m' =>
    intro h; obtain ⟨s', h1, h2, h3, h4⟩ := h
    exact ⟨s', h1, ⟨h2.1, simD_shadow (S := S) (P := P) X Y ▸ h2.2⟩, h3, h4⟩
  | halted m' =>
    intro h; obtain ⟨s', h1, h2, h3, h4⟩ := h
    exact ⟨s', h1, simD_shadow (S := S) (P := P) X Y ▸ h2, h3, h4⟩
  | err e => intro _; trivial

end Garnish.Lemmas.Runtime.OnL
