/-
The index phase (`create_index_stack`): every item it lists is a node of the block it was started on, provided
it is started on a node and the links of nodes lead to nodes.
-/
import Garnish.Lemmas.OptimizeShape
set_option maxHeartbeats 1000000
namespace Garnish.BasicOpt
open Garnish

/-- the links of nodes lead to nodes -/
def KidsNodes (s0 : Array Cell) : Prop :=
  ∀ (i : Nat) (sh : Shape), shape s0 i = some sh → ∀ k ∈ sh.kids, ∃ sh2, shape s0 k = some sh2

/-- every cell from `top` on is a `CloneItem` naming a node of `s0`, and the cells of `s0` are still there -/
structure ItemsNodes (s0 : Array Cell) (top : Nat) (cur : Store) : Prop where
  agree : ∀ (i : Nat) (c : Cell), s0[i]? = some c → cur.cells[i]? = some c
  items : ∀ j, top ≤ j → j < cur.cells.size → ∃ o sh, cur.cells[j]? = some (.cloneItem o) ∧ shape s0 o = some sh

theorem ItemsNodes.push {s0 : Array Cell} {top : Nat} {cur cur' : Store} {o i : Nat} {sh : Shape}
    (h : ItemsNodes s0 top cur) (htop : s0.size ≤ top) (hle : top ≤ cur.cells.size) (ho : shape s0 o = some sh)
    (hp : cur.push (.cloneItem o) = .ok (cur', i)) : ItemsNodes s0 top cur' := by
  obtain ⟨_, hc, _⟩ := push_ok hp
  refine ⟨?_, ?_⟩
  · intro j c hj
    have := h.agree j c hj
    have hlt : j < cur.cells.size := by
      rcases Nat.lt_or_ge j cur.cells.size with h | h
      · exact h
      · rw [Array.getElem?_eq_none h] at this; cases this
    rw [hc, Array.getElem?_push]; simp [Nat.ne_of_lt hlt, this]
  · intro j hj1 hj2
    rw [hc] at hj2 ⊢
    simp only [Array.size_push] at hj2
    by_cases hj : j = cur.cells.size
    · subst hj; exact ⟨o, sh, by simp, ho⟩
    · obtain ⟨o', sh', h1, h2⟩ := h.items j hj1 (by omega)
      exact ⟨o', sh', by rw [Array.getElem?_push]; simp [hj, h1], h2⟩

theorem pushListItems_nodes {s0 : Array Cell} {top : Nat} (htop : s0.size ≤ top) (hk : KidsNodes s0) :
    ∀ (n : Nat) (cur cur' : Store) (i : Nat) (items : List Nat), ItemsNodes s0 top cur → top ≤ cur.cells.size →
      listItems s0 i n = some items → (∀ a ∈ items, ∃ sh, shape s0 a = some sh) →
      Store.pushListItems cur i n = .ok cur' → ItemsNodes s0 top cur' ∧ cur.cells.size ≤ cur'.cells.size
  | 0, cur, cur', i, items, hin, _, _, _, h => by
    simp only [Store.pushListItems, Outcome.ok.injEq] at h
    subst h; exact ⟨hin, Nat.le_refl _⟩
  | n + 1, cur, cur', i, items, hin, hle, hl, hall, h => by
    simp only [listItems] at hl
    cases hc : s0[i]? with
    | none => simp [hc] at hl
    | some c =>
      rw [hc] at hl
      cases c <;> simp only [] at hl <;> try (simp at hl; done)
      rename_i item
      simp only [Option.map_eq_some_iff] at hl
      obtain ⟨rest, hrest, rfl⟩ := hl
      simp only [Store.pushListItems, bind_eq_ok] at h
      obtain ⟨c', hg, h2⟩ := h
      have hcc := get_ok hg
      rw [hin.agree i _ hc] at hcc
      simp only [Option.some.injEq] at hcc
      subst hcc
      simp only [bind_eq_ok] at h2
      obtain ⟨⟨s1, i1⟩, hp, h3⟩ := h2
      obtain ⟨sh, hsh⟩ := hall item (by simp)
      have hin1 := hin.push htop hle hsh hp
      have hsz := (push_ext 0 hp).mono
      obtain ⟨g1, g2⟩ := pushListItems_nodes htop hk n s1 cur' (i + 1) rest hin1 (by omega) hrest
        (fun a ha => hall a (by simp [ha])) h3
      exact ⟨g1, by omega⟩

/-- one body of the index loop on an item that names a node -/
theorem pushChildren_nodes {s0 : Array Cell} {top : Nat} (htop : s0.size ≤ top) (hk : KidsNodes s0)
    {cur cur' : Store} {index : Nat} {c : Cell} {sh : Shape} (hin : ItemsNodes s0 top cur) (hle : top ≤ cur.cells.size)
    (hc : s0[index]? = some c) (hsh : shape s0 index = some sh)
    (h : Store.pushChildren cur index c = .ok cur') : ItemsNodes s0 top cur' ∧ cur.cells.size ≤ cur'.cells.size := by
  have hkids := hk index sh hsh
  have p1 : ∀ {a : Nat}, (∃ sh2, shape s0 a = some sh2) → ∀ {cur cur' : Store}, ItemsNodes s0 top cur →
      top ≤ cur.cells.size → Store.push1 cur a = .ok cur' → ItemsNodes s0 top cur' ∧ cur.cells.size ≤ cur'.cells.size := by
    intro a ⟨sh2, ha⟩ cur cur' hin hle h
    simp only [Store.push1, bind_eq_ok, pure_eq_ok] at h
    obtain ⟨⟨s1, i1⟩, hp, rfl⟩ := h
    exact ⟨hin.push htop hle ha hp, (push_ext 0 hp).mono⟩
  have p2 : ∀ {a b : Nat}, (∃ sh2, shape s0 a = some sh2) → (∃ sh2, shape s0 b = some sh2) →
      Store.push2 cur a b = .ok cur' → ItemsNodes s0 top cur' ∧ cur.cells.size ≤ cur'.cells.size := by
    intro a b ⟨sha, ha⟩ ⟨shb, hb⟩ h
    simp only [Store.push2, bind_eq_ok, pure_eq_ok] at h
    obtain ⟨⟨s1, i1⟩, hp1, ⟨s2, i2⟩, hp2, rfl⟩ := h
    have e1 : cur.cells.size ≤ s1.cells.size := (push_ext 0 hp1).mono
    have e2 : s1.cells.size ≤ s2.cells.size := (push_ext 0 hp2).mono
    exact ⟨(hin.push htop hle ha hp1).push htop (by omega) hb hp2, Nat.le_trans e1 e2⟩
  unfold shape at hsh
  rw [hc] at hsh
  unfold Store.pushChildren at h
  cases c <;> simp only [] at h hsh <;> try (simp at hsh; done)
  all_goals first
    | (simp only [Outcome.ok.injEq] at h; subst h; exact ⟨hin, Nat.le_refl _⟩)
    | (simp only [Option.some.injEq] at hsh; subst hsh
       exact p2 (hkids _ (by simp)) (hkids _ (by simp)) h)
    | (simp only [Option.some.injEq] at hsh; subst hsh
       exact p1 (hkids _ (by simp)) hin hle h)
    | (simp only [Option.map_eq_some_iff] at hsh
       obtain ⟨jp, _, rfl⟩ := hsh
       first
         | exact p2 (hkids _ (by simp)) (hkids _ (by simp)) h
         | exact p1 (hkids _ (by simp)) hin hle h
         | (simp only [Outcome.ok.injEq] at h; subst h; exact ⟨hin, Nat.le_refl _⟩))
    | (split at hsh
       · rename_i items keys targets h1 h2
         simp only [Option.some.injEq] at hsh
         subst hsh
         exact pushListItems_nodes htop hk _ _ _ _ items hin hle h1
           (fun a ha => hkids a (by simp [ha])) h
       · simp at hsh)

theorem indexLoop_nodes {s0 : Array Cell} {top : Nat} (htop : s0.size ≤ top) (hk : KidsNodes s0) (maxIter : Nat) :
    ∀ (fuel : Nat) (cur cur' : Store) (current it : Nat), ItemsNodes s0 top cur → top ≤ current →
      current ≤ cur.cells.size → Store.indexLoop maxIter fuel cur current it = .ok cur' →
      ItemsNodes s0 top cur' ∧ cur.cells.size ≤ cur'.cells.size
  | 0, _, _, _, _, _, _, _, h => by simp [Store.indexLoop] at h
  | fuel + 1, cur, cur', current, it, hin, hcur, hle, h => by
    simp only [Store.indexLoop] at h
    split at h
    · rename_i hlt
      simp only [Store.cursor] at hlt
      simp only [bind_eq_ok] at h
      obtain ⟨ci, hgi, h2⟩ := h
      have hci := get_ok hgi
      obtain ⟨o, sh, ho, hsh⟩ := hin.items current hcur hlt
      rw [ho] at hci
      simp only [Option.some.injEq] at hci
      subst hci
      simp only [bind_eq_ok] at h2
      obtain ⟨c, hgc, s1, hpc, h3⟩ := h2
      obtain ⟨c0, hc0⟩ := shape_cell hsh
      have hcc : c = c0 := by
        have := hin.agree o c0 hc0
        rw [get_ok hgc] at this
        exact Option.some.inj this
      subst hcc
      obtain ⟨g1, g2⟩ := pushChildren_nodes htop hk hin (by omega) hc0 hsh hpc
      split at h3
      · simp at h3
      · obtain ⟨g3, g4⟩ := indexLoop_nodes htop hk maxIter fuel s1 cur' (current + 1) (it + 1) g1 (by omega) (by omega) h3
        exact ⟨g3, by omega⟩
    · simp only [Outcome.ok.injEq] at h
      subst h; exact ⟨hin, Nat.le_refl _⟩

/-- `create_index_stack(from)` started on a node -/
theorem createIndexStack_nodes {s0 : Array Cell} {top : Nat} (htop : s0.size ≤ top) (hk : KidsNodes s0)
    {cur cur' : Store} {frm st : Nat} {sh : Shape} (hin : ItemsNodes s0 top cur) (hle : top ≤ cur.cells.size)
    (hfrm : shape s0 frm = some sh) (h : Store.createIndexStack cur frm = .ok (cur', st)) :
    ItemsNodes s0 top cur' ∧ cur.cells.size ≤ cur'.cells.size := by
  simp only [Store.createIndexStack, bind_eq_ok, pure_eq_ok, Prod.mk.injEq] at h
  obtain ⟨⟨s1, i1⟩, hp, s2, hl, hs2, _⟩ := h
  subst hs2
  have hin1 := hin.push htop hle hfrm hp
  have hi1 := (push_ok hp).1
  have e1 := (push_ext 0 hp).mono
  obtain ⟨g1, g2⟩ := indexLoop_nodes htop hk _ _ _ _ _ _ hin1 (by simp only at hi1 ⊢; omega) (by simp only at hi1 ⊢; omega) hl
  exact ⟨g1, by omega⟩

end Garnish.BasicOpt
