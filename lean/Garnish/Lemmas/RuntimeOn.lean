/-
The runtime refinement over the RELATIVISED store contract `StoreLawsOn` (Model/Runtime/StoreOn.lean), part 1.
Handlers / step / run lemmas of Lemmas/Runtime{Base,Step*,Run}.lean redone with the invariant threaded (`Inv s` in,
`Inv s'` out), `Readable` established at every push (from a `Decodes` fact of a non-`custom` value) and `Deep`
at every pop (from `Sim` and the machine-side condition `MDeep`) — for the instructions `MachOKOn` lists.
-/
import Garnish.Model.Runtime.StoreOn
import Garnish.Props.RuntimeRefineLogic
import Garnish.Props.RuntimeRefineData
set_option linter.unusedSimpArgs false
set_option linter.unusedVariables false
namespace Garnish.Lemmas.Runtime.On
open Garnish Gen Garnish.Abs Garnish.Model.Equality Garnish.Model.Runtime Garnish.Lemmas.Runtime

variable {F σ : Type} {S : RStore F σ} {Inv : σ → Prop} {Rd : σ → Nat → Prop}

theorem deep_kept {s s' : σ} {rest : List Nat} (hf : S.frames s' = S.frames s) (hd : Deep S s rest) : Deep S s' rest :=
  fun ret saved fs h => hd ret saved fs (hf ▸ h)

theorem deep_cons {s : σ} {b : Nat} {rest : List Nat} (hd : Deep S s rest) : Deep S s (b :: rest) :=
  fun ret saved fs h => Nat.le_succ_of_le (hd ret saved fs h)

section
variable (L : StoreLawsOn S Inv Rd)
include L

theorem nextRef_cons_on {s : σ} {a : Nat} {rest : List Nat} (hi : Inv s) (h : S.regs s = a :: rest)
    (hd : Deep S s rest) : ∃ s', nextRef S s = .ok (a, s') ∧ Eff S s s' rest (S.vals s) ∧ Inv s' := by
  obtain ⟨s', h1, e, i⟩ := L.popRegisterCons s a rest hi h hd
  exact ⟨s', by simp [nextRef, bind_ok h1], e, i⟩

/-- `put i` -/
theorem put_on {s : σ} {i : Nat} (hi : Inv s) (hk : i < S.dataLen s) (hr : Rd s i) :
    ∃ s', put S i s = .ok (none, s') ∧ Eff S s s' (i :: S.regs s) (S.vals s) ∧ Inv s' := by
  rw [put, bind_ok (read_apply S.dataLen s)]
  have hd : decide (i ≥ S.dataLen s) = false := by simp; omega
  obtain ⟨s1, h1, e1, i1⟩ := L.pushRegister i s hi hr
  simp only [hd]
  exact ⟨s1, by rw [bind_ok h1]; rfl, e1, i1⟩

/-- `put_value` with no input value: a fresh unit -/
theorem putValue_nil_on {s : σ} (hi : Inv s) (hv : S.vals s = []) :
    ∃ a s', putValue S s = .ok (none, s') ∧ Decodes (S.view s') a .unit ∧ Eff S s s' (a :: S.regs s) (S.vals s) ∧
      Inv s' := by
  have hg : getCurrentValue S s = .ok ((S.vals s).head?, s) := rfl
  obtain ⟨a, s1, h1, d1, e1, i1⟩ := L.addUnit s hi
  obtain ⟨s2, h2, e2, i2⟩ := L.pushRegister a s1 i1 (L.readable s1 a _ i1 d1 (by intro h; cases h))
  rw [e1.regs, e1.vals] at e2
  refine ⟨a, s2, ?_, e2.dec d1, e1.trans e2, i2⟩
  rw [putValue, bind_ok hg, hv]
  simp only [List.head?_nil]
  rw [pushUnit, bind_ok2 h1, bind_ok h2]; rfl

/-- `put_value`: the current input value -/
theorem putValue_cons_on {s : σ} {v : Nat} {vs : List Nat} (hi : Inv s) (hv : S.vals s = v :: vs) (hr : Rd s v) :
    ∃ s', putValue S s = .ok (none, s') ∧ Eff S s s' (v :: S.regs s) (S.vals s) ∧ Inv s' := by
  have hg : getCurrentValue S s = .ok ((S.vals s).head?, s) := rfl
  obtain ⟨s1, h1, e1, i1⟩ := L.pushRegister v s hi hr
  refine ⟨s1, ?_, e1, i1⟩
  rw [putValue, bind_ok hg, hv]
  simp only [List.head?_cons]
  rw [bind_ok h1]; rfl

/-- `push_value` -/
theorem pushValue_on {s : σ} {r : Nat} {rest : List Nat} {v : Val F} (hi : Inv s) (hregs : S.regs s = r :: rest)
    (hd : Deep S s rest) (hdr : Decodes (S.view s) r v) (hv : v ≠ .custom) :
    ∃ s', pushValue S s = .ok (none, s') ∧ Eff S s s' rest (r :: S.vals s) ∧ Inv s' := by
  obtain ⟨s0, h0, e0, i0⟩ := nextRef_cons_on L hi hregs hd
  obtain ⟨s1, h1, e1, i1⟩ := L.pushValueStack r s0 i0 (L.readable s0 r v i0 (e0.dec hdr) hv)
  rw [e0.regs, e0.vals] at e1
  exact ⟨s1, by rw [pushValue, bind_ok h0, bind_ok h1]; rfl, e0.trans e1, i1⟩

/-- `update_value` -/
theorem updateValue_on {s : σ} {r x : Nat} {rest xs : List Nat} {v : Val F} (hi : Inv s)
    (hregs : S.regs s = r :: rest) (hvals : S.vals s = x :: xs) (hd : Deep S s rest)
    (hdr : Decodes (S.view s) r v) (hv : v ≠ .custom) :
    ∃ s', updateValue S s = .ok (none, s') ∧ Eff S s s' rest (r :: xs) ∧ Inv s' := by
  obtain ⟨s0, h0, e0, i0⟩ := nextRef_cons_on L hi hregs hd
  obtain ⟨s1, h1, e1, i1⟩ := L.setCurrentCons r s0 x xs i0 (L.readable s0 r v i0 (e0.dec hdr) hv)
    (by rw [e0.vals, hvals])
  rw [e0.regs] at e1
  refine ⟨s1, ?_, e0.trans e1, i1⟩
  rw [updateValue, bind_ok h0, bind_ok h1]; rfl

/-- `jump_if_true` -/
theorem jumpIfTrue_on {s : σ} {a : Nat} {v : Val F} {rest : List Nat} {j t : Nat} (hi : Inv s)
    (hj : S.jumpTable s j = some t) (hregs : S.regs s = a :: rest) (hd : Deep S s rest)
    (h : Decodes (S.view s) a v) :
    ∃ s', jumpIfTrue S j s = .ok (if v.truthy then some t else none, s') ∧ Eff S s s' rest (S.vals s) ∧ Inv s' := by
  obtain ⟨s1, h1, e1, i1⟩ := nextRef_cons_on L hi hregs hd
  refine ⟨s1, ?_, e1, i1⟩
  rw [jumpIfTrue, bind_ok (getFromJumpTable_apply j s), hj]
  simp only []
  rw [bind_ok (pure_apply t s), bind_ok h1, bind_ok (getDataType_of (e1.dec h))]
  cases v <;> rfl

/-- `jump_if_false` -/
theorem jumpIfFalse_on {s : σ} {a : Nat} {v : Val F} {rest : List Nat} {j t : Nat} (hi : Inv s)
    (hj : S.jumpTable s j = some t) (hregs : S.regs s = a :: rest) (hd : Deep S s rest)
    (h : Decodes (S.view s) a v) :
    ∃ s', jumpIfFalse S j s = .ok (if v.truthy then none else some t, s') ∧ Eff S s s' rest (S.vals s) ∧ Inv s' := by
  obtain ⟨s1, h1, e1, i1⟩ := nextRef_cons_on L hi hregs hd
  refine ⟨s1, ?_, e1, i1⟩
  rw [jumpIfFalse, bind_ok (getFromJumpTable_apply j s), hj]
  simp only []
  rw [bind_ok (pure_apply t s), bind_ok h1, bind_ok (getDataType_of (e1.dec h))]
  cases v <;> rfl

/-- `end_expression` with no frame: the result becomes the input value; the registers that remain stay or are all
gone (`pop_frame` of Simple drains them) -/
theorem endExpression_top_on {s : σ} {r x : Nat} {rest xs : List Nat} {v : Val F} (hi : Inv s)
    (hregs : S.regs s = r :: rest) (hd : Deep S s rest) (hf : S.frames s = []) (hvals : S.vals s = x :: xs)
    (hdr : Decodes (S.view s) r v) (hv : v ≠ .custom) :
    ∃ s' R, endExpression S s = .ok (some (S.instrLen s), s') ∧ Eff S s s' R (r :: xs) ∧ (R = rest ∨ R = []) ∧
      Inv s' := by
  obtain ⟨s0, h0, e0, i0⟩ := nextRef_cons_on L hi hregs hd
  obtain ⟨s1, R, h1, e1, hR, i1⟩ := L.popFrameNil s0 i0 (by rw [e0.frames, hf])
  rw [e0.vals] at e1
  have e01 := e0.trans e1
  obtain ⟨s2, h2, e2, i2⟩ := L.setCurrentCons r s1 x xs i1 (L.readable s1 r v i1 (e01.dec hdr) hv)
    (by rw [e1.vals, hvals])
  rw [e1.regs] at e2
  refine ⟨s2, R, ?_, e01.trans e2, by rw [e0.regs] at hR; exact hR, i2⟩
  rw [endExpression, bind_ok h0, bind_ok h1]
  simp only []
  rw [bind_ok h2]
  simp only []
  rw [bind_ok (read_apply S.instrLen s2), (e01.trans e2).keeps.ilen]; rfl

/-- `end_expression` inside a call -/
theorem endExpression_return_on {s : σ} {r ret : Nat} {rest saved : List Nat} {fs : List (Nat × List Nat)}
    {v : Val F} (hi : Inv s) (hregs : S.regs s = r :: rest) (hd : Deep S s rest)
    (hf : S.frames s = (ret, saved) :: fs) (hdr : Decodes (S.view s) r v) (hv : v ≠ .custom) :
    ∃ s', endExpression S s = .ok (some ret, s') ∧ FEff S s s' (r :: saved) (S.vals s).tail fs ∧ Inv s' := by
  obtain ⟨s0, h0, e0, i0⟩ := nextRef_cons_on L hi hregs hd
  obtain ⟨s1, h1, e1, i1⟩ := L.popFrameCons s0 ret saved fs i0 (by rw [e0.frames, hf])
  rw [e0.vals] at e1
  have e01 := e0.toF.trans e1
  have hpv : ∃ o2 s2, S.popValueStack s1 = .ok (o2, s2) ∧ Eff S s1 s2 saved (S.vals s).tail ∧ Inv s2 := by
    cases hvs : S.vals s with
    | nil =>
      obtain ⟨s2, h2, e2, i2⟩ := L.popValueStackNil s1 i1 (by rw [e1.vals, hvs])
      rw [e1.regs] at e2
      exact ⟨none, s2, h2, e2, i2⟩
    | cons x xs =>
      obtain ⟨s2, h2, e2, i2⟩ := L.popValueStackCons s1 x xs i1 (by rw [e1.vals, hvs])
      rw [e1.regs] at e2
      exact ⟨some x, s2, h2, e2, i2⟩
  obtain ⟨o2, s2, h2, e2, i2⟩ := hpv
  have e02 := e01.thenEff e2
  obtain ⟨s3, h3, e3, i3⟩ := L.pushRegister r s2 i2 (L.readable s2 r v i2 (e02.dec hdr) hv)
  rw [e2.regs, e2.vals] at e3
  refine ⟨s3, ?_, e02.thenEff e3, i3⟩
  rw [endExpression, bind_ok h0, bind_ok h1]
  simp only []
  rw [bind_ok h2, bind_ok h3]; rfl

end
end Garnish.Lemmas.Runtime.On
