/-
C18, reference-grammar level: the licensed trivia rewrites as relations on token lists, and their invariance theorems for
`refParse`.

* `AddSpace a b`      — `b` is `a` with one Whitespace token inserted at a position where the `ws` flag is not read:
                        after a whitespace token or an operator / opener (annotation tokens may lie in between), or
                        before a whitespace token or an operator / closer (annotation tokens may lie in between);
* `AddAnnotation a b` — `b` is `a` with one Annotation / LineAnnotation token inserted anywhere;
* `TrailingSpace a b` — `b` is `a` followed by Whitespace / blank-line tokens.
All relations are closed under changes of token texts and stored positions (`SameTypes`): the inserted token shifts the
positions of the tokens behind it.
-/
import Garnish.Lemmas.RefTrivia

namespace Garnish.Spec
open Garnish Garnish.Gen Garnish.Model.Parser

/-! ### trimming -/

/-- the list starts and ends with a token that `trim_tokens` keeps -/
def NoTrim (toks : List PToken) : Prop := toks ≠ [] ∧ trimStart toks = 0 ∧ trimStart toks.reverse = 0

theorem refParse_noTrim (tbl : Table) {toks : List PToken} (h : NoTrim toks) :
    refParse tbl toks = refLoop tbl Frame.top [] 0 toks := by
  obtain ⟨hne, h1, h2⟩ := h
  unfold refParse
  simp only [h1, h2]
  have hlen : ¬ (0 ≥ toks.length) := by
    have := List.length_pos_iff.mpr hne; omega
  simp only [List.drop_zero, Nat.sub_zero, List.take_length, hlen, if_false]

theorem trimStart_types : ∀ {a b : List PToken}, SameTypes a b → trimStart a = trimStart b
  | [], [], _ => rfl
  | [], _ :: _, h => by simp [SameTypes] at h
  | _ :: _, [], h => by simp [SameTypes] at h
  | t :: a, t' :: b, h => by
    simp only [SameTypes, List.map_cons, List.cons.injEq] at h
    have e : isTrimmable t = isTrimmable t' := by simp only [isTrimmable, h.1]
    rw [trimStart, trimStart, trimStart_types (a := a) (b := b) h.2, e]

theorem SameTypes.reverse {a b : List PToken} (h : SameTypes a b) : SameTypes a.reverse b.reverse := by
  unfold SameTypes at *; simp [List.map_reverse, h]

theorem SameTypes.length {a b : List PToken} (h : SameTypes a b) : a.length = b.length := by
  have := congrArg List.length h; simpa using this

theorem SameTypes.symm {a b : List PToken} (h : SameTypes a b) : SameTypes b a := Eq.symm h

theorem SameTypes.take {a b : List PToken} (h : SameTypes a b) (n : Nat) : SameTypes (a.take n) (b.take n) := by
  unfold SameTypes at *; rw [List.map_take, List.map_take, h]

theorem SameTypes.drop {a b : List PToken} (h : SameTypes a b) (n : Nat) : SameTypes (a.drop n) (b.drop n) := by
  unfold SameTypes at *; rw [List.map_drop, List.map_drop, h]

/-- `refParse` reads the token types only -/
theorem refParse_types (tbl : Table) {a b : List PToken} (h : SameTypes a b) : refParse tbl a = refParse tbl b := by
  unfold refParse
  simp only [trimStart_types h, trimStart_types h.reverse, h.length]
  split
  · rfl
  · exact refLoop_types tbl ((h.drop _).take _) _ _ _

theorem NoTrim.types {a b : List PToken} (h : NoTrim a) (hs : SameTypes a b) : NoTrim b := by
  obtain ⟨h0, h1, h2⟩ := h
  refine ⟨?_, by rw [← trimStart_types hs]; exact h1, by rw [← trimStart_types hs.reverse]; exact h2⟩
  intro hb; apply h0
  have := hs.length; rw [hb] at this
  exact List.eq_nil_of_length_eq_zero this

/-! ### runs of annotation tokens -/

theorem refLoop_anns : ∀ (anns : List PToken), (∀ a ∈ anns, isAnnTok a = true) → ∀ (f : Frame) (stack : List Frame) (pos : Nat)
    (X : List PToken), refLoop Table.gen f stack pos (anns ++ X) = refLoop Table.gen f stack (pos + anns.length) X
  | [], _, _, _, _, _ => rfl
  | a :: anns, h, f, stack, pos, X => by
    simp only [List.cons_append, refLoop, refStep_annotation (h a (List.mem_cons_self ..)), Outcome.bind]
    rw [refLoop_anns anns (fun x hx => h x (List.mem_cons_of_mem _ hx))]
    congr 1
    simp only [List.length_cons]; omega

theorem closerFollows_anns : ∀ (anns : List PToken), (∀ a ∈ anns, isAnnTok a = true) → ∀ X : List PToken,
    closerFollows (anns ++ X) = closerFollows X
  | [], _, _ => rfl
  | a :: anns, h, X => by
    rw [List.cons_append, closerFollows_filler (annTok_filler (h a (List.mem_cons_self ..)))]
    exact closerFollows_anns anns (fun x hx => h x (List.mem_cons_of_mem _ hx)) X

/-! ### the relations -/

/-- exact form: the same tokens plus the inserted one -/
inductive AddSpace0 : List PToken → List PToken → Prop
  | after (pre anns post : List PToken) (p w : PToken) : isWsTok w = true →
      (isWsTok p = true ∨ opLikeBefore p = true) → (∀ a ∈ anns, isAnnTok a = true) →
      AddSpace0 (pre ++ p :: (anns ++ post)) (pre ++ p :: (anns ++ w :: post))
  | before (pre anns post : List PToken) (w n : PToken) : isWsTok w = true →
      (isWsTok n = true ∨ opLikeAfter n = true) → (∀ a ∈ anns, isAnnTok a = true) →
      AddSpace0 (pre ++ (anns ++ n :: post)) (pre ++ w :: (anns ++ n :: post))

def AddSpace (a b : List PToken) : Prop := ∃ b0, AddSpace0 a b0 ∧ SameTypes b0 b

inductive AddAnnotation0 : List PToken → List PToken → Prop
  | mk (pre post : List PToken) (w : PToken) : isAnnTok w = true → AddAnnotation0 (pre ++ post) (pre ++ w :: post)

def AddAnnotation (a b : List PToken) : Prop := ∃ b0, AddAnnotation0 a b0 ∧ SameTypes b0 b

/-- a comment line: the inserted token is a LineAnnotation -/
def AddLineAnnotation (a b : List PToken) : Prop :=
  ∃ pre post w b0, w.type = .lineAnnotation ∧ a = pre ++ post ∧ b0 = pre ++ w :: post ∧ SameTypes b0 b

inductive TrailingSpace : List PToken → List PToken → Prop
  | mk (a ws : List PToken) : (∀ w ∈ ws, isTrimmable w = true) → TrailingSpace a (a ++ ws)

theorem AddLineAnnotation.toAdd {a b : List PToken} (h : AddLineAnnotation a b) : AddAnnotation a b := by
  obtain ⟨pre, post, w, b0, hw, rfl, rfl, hs⟩ := h
  exact ⟨_, .mk pre post w (by simp [isAnnTok, hw]), hs⟩

/-! ### loop level -/

theorem refLoop_addSpace0 {a b : List PToken} (h : AddSpace0 a b) (f : Frame) (stack : List Frame) (pos : Nat) :
    ORel (Sim EErase) (refLoop Table.gen f stack pos a) (refLoop Table.gen f stack pos b) := by
  have hrefl := Sim.rfl' eok_erase
  cases h with
  | after pre anns post p w hw hp hanns =>
    apply refLoop_prefix hrefl Table.gen
    · cases hq : isFiller p.type || isSeparator p.type with
      | false => simp [closerFollows, hq]
      | true =>
        simp only [closerFollows, hq, if_true]
        rw [closerFollows_anns anns hanns, closerFollows_anns anns hanns, closerFollows_filler (wsTok_filler hw)]
    · intro f stack pos
      simp only [refLoop]
      have hr : refStep Table.gen f stack pos p (anns ++ post) = refStep Table.gen f stack pos p (anns ++ w :: post) := by
        apply refStep_rest_congr
        rw [closerFollows_anns anns hanns, closerFollows_anns anns hanns, closerFollows_filler (wsTok_filler hw)]
      rw [hr]
      cases hst : refStep Table.gen f stack pos p (anns ++ w :: post) with
      | err e => exact rfl
      | panic s => exact rfl
      | fuelOut => exact True.intro
      | ok fs =>
        obtain ⟨f1, stack1⟩ := fs
        simp only [Outcome.bind]
        rw [refLoop_anns anns hanns, refLoop_anns anns hanns]
        simp only [refLoop, refStep_whitespace hw, Outcome.bind]
        have hsim := refLoop_sim eok_erase Table.gen post (pos + 1 + anns.length) (pos + 1 + anns.length + 1)
          (FSim.rfl' eok_erase f1) (LSim.rfl' eok_erase stack1)
        rcases hp with hp | hp
        · -- after whitespace: the flag is already set
          rw [refStep_whitespace hp] at hst
          injection hst with hst; injection hst with e1 e2
          have : ({ f1 with ws := true } : Frame) = f1 := by rw [← e1]
          rw [this]; exact hsim
        · rw [refLoop_ws_irrelevant Table.gen post f1 stack1 _ (refStep_last_open hp f stack pos _ hst)]
          exact hsim
  | before pre anns post w n hw hn hanns =>
    apply refLoop_prefix hrefl Table.gen
    · rw [closerFollows_filler (wsTok_filler hw)]
    · intro f stack pos
      rw [refLoop_anns anns hanns]
      simp only [refLoop, refStep_whitespace hw, Outcome.bind]
      rw [refLoop_anns anns hanns]
      simp only [refLoop]
      have hstep : refStep Table.gen { f with ws := true } stack (pos + 1 + anns.length) n post =
          refStep Table.gen f stack (pos + 1 + anns.length) n post := by
        rcases hn with hn | hn
        · rw [refStep_whitespace hn, refStep_whitespace hn]
        · exact refStep_ws_next hn f stack _ post
      rw [hstep]
      have hsim := refStep_sim eok_erase Table.gen (FSim.rfl' eok_erase f) (LSim.rfl' eok_erase stack)
        (pos + anns.length) (pos + 1 + anns.length) n post
      cases h1 : refStep Table.gen f stack (pos + anns.length) n post <;>
        cases h2 : refStep Table.gen f stack (pos + 1 + anns.length) n post <;> rw [h1, h2] at hsim <;>
        simp only [ORel] at hsim <;> simp only [Outcome.bind, ORel] <;> try exact hsim
      exact refLoop_sim eok_erase Table.gen post _ _ hsim.1 hsim.2

theorem refLoop_addAnnotation0 {a b : List PToken} (h : AddAnnotation0 a b) (f : Frame) (stack : List Frame) (pos : Nat) :
    ORel (Sim EErase) (refLoop Table.gen f stack pos a) (refLoop Table.gen f stack pos b) := by
  cases h with
  | mk pre post w hw => exact refLoop_annotation hw pre post f stack pos

/-! ### `refParse` level -/

/-- **adding a space where whitespace or none is allowed**: same reference tree up to token positions -/
theorem refParse_addSpace {a b : List PToken} (h : AddSpace a b) (ha : NoTrim a) (hb : NoTrim b) :
    (refParse Table.gen a).mapT RTree.eraseTok = (refParse Table.gen b).mapT RTree.eraseTok := by
  obtain ⟨b0, h0, hs⟩ := h
  rw [← refParse_types Table.gen hs, refParse_noTrim Table.gen ha, refParse_noTrim Table.gen (hb.types hs.symm)]
  exact (refLoop_addSpace0 h0 Frame.top [] 0).erase_eq

/-- **inserting an annotation token**: same reference tree up to token positions -/
theorem refParse_addAnnotation {a b : List PToken} (h : AddAnnotation a b) (ha : NoTrim a) (hb : NoTrim b) :
    (refParse Table.gen a).mapT RTree.eraseTok = (refParse Table.gen b).mapT RTree.eraseTok := by
  obtain ⟨b0, h0, hs⟩ := h
  rw [← refParse_types Table.gen hs, refParse_noTrim Table.gen ha, refParse_noTrim Table.gen (hb.types hs.symm)]
  exact (refLoop_addAnnotation0 h0 Frame.top [] 0).erase_eq

end Garnish.Spec
