/-
Lemmas for C16 about the list code of the two stores (`Garnish.Store.Lists`).
-/
import Garnish.Store.Lists
namespace Garnish.Store.Lists
open Garnish

/-! ## specification -/

namespace Spec
/-- value of the first item that is a pair keyed by symbol `s`; `key a` = `(symbol, value)` of such an item -/
def lookup (key : Nat → Option (Nat × Nat)) (s : Nat) : List Nat → Option Nat
  | [] => none
  | a :: rest =>
    match keyMatch (key a) s with
    | some r => some r
    | none => lookup key s rest
end Spec

/-- the symbol keys among the items determine their values (holds in particular when the keyed items carry
pairwise distinct symbols; the same address may occur more than once) -/
def KeysFunctional (key : Nat → Option (Nat × Nat)) (items : List Nat) : Prop :=
  ∀ a b k r r', a ∈ items → b ∈ items → key a = some (k, r) → key b = some (k, r') → r = r'

/-- items at different positions carry different symbol keys -/
def KeysDistinct (key : Nat → Option (Nat × Nat)) (items : List Nat) : Prop :=
  items.Pairwise (fun a b => ∀ k r k' r', key a = some (k, r) → key b = some (k', r') → k ≠ k')

theorem keyMatch_some {kv : Option (Nat × Nat)} {s r : Nat} :
    keyMatch kv s = some r ↔ kv = some (s, r) := by
  unfold keyMatch
  cases kv with
  | none => simp
  | some p =>
    obtain ⟨v, r'⟩ := p
    by_cases h : v = s <;> simp [h]

theorem KeysDistinct.functional {key : Nat → Option (Nat × Nat)} {items : List Nat}
    (h : KeysDistinct key items) : KeysFunctional key items := by
  induction items with
  | nil => intro a b k r r' ha; simp at ha
  | cons x xs ih =>
    have hp := List.pairwise_cons.mp h
    intro a b k r r' ha hb hka hkb
    rcases List.mem_cons.mp ha with rfl | ha' <;> rcases List.mem_cons.mp hb with rfl | hb'
    · rw [hka] at hkb; cases hkb; rfl
    · exact absurd rfl (hp.1 b hb' k r k r' hka hkb)
    · exact absurd rfl (hp.1 a ha' k r' k r hkb hka)
    · exact ih hp.2 a b k r r' ha' hb' hka hkb

theorem Spec.lookup_none {key : Nat → Option (Nat × Nat)} {s : Nat} {items : List Nat} :
    Spec.lookup key s items = none ↔ ∀ a ∈ items, keyMatch (key a) s = none := by
  induction items with
  | nil => simp [Spec.lookup]
  | cons x xs ih =>
    unfold Spec.lookup
    cases hx : keyMatch (key x) s with
    | some r => simp [hx]
    | none => simp [hx, ih]

theorem Spec.lookup_some {key : Nat → Option (Nat × Nat)} {s r : Nat} {items : List Nat}
    (h : Spec.lookup key s items = some r) : ∃ a ∈ items, key a = some (s, r) := by
  induction items with
  | nil => simp [Spec.lookup] at h
  | cons x xs ih =>
    unfold Spec.lookup at h
    cases hx : keyMatch (key x) s with
    | some r' =>
      rw [hx] at h; cases h
      exact ⟨x, List.mem_cons_self, keyMatch_some.mp hx⟩
    | none =>
      rw [hx] at h
      obtain ⟨a, ha, hk⟩ := ih h
      exact ⟨a, List.mem_cons_of_mem _ ha, hk⟩

/-- under functional keys the specification does not depend on which keyed item is looked at -/
theorem Spec.lookup_of_mem {key : Nat → Option (Nat × Nat)} {s r a : Nat} {items : List Nat}
    (hf : KeysFunctional key items) (ha : a ∈ items) (hk : key a = some (s, r)) :
    Spec.lookup key s items = some r := by
  cases h : Spec.lookup key s items with
  | none =>
    have := (Spec.lookup_none.mp h) a ha
    rw [hk] at this
    simp [keyMatch] at this
  | some r' =>
    obtain ⟨b, hb, hkb⟩ := Spec.lookup_some h
    rw [hf b a s r' r hb ha hkb hk]

/-! ## Simple: cyclic probing -/

theorem nextIdx_lt {n i : Nat} (hn : 0 < n) : nextIdx n i < n := by
  unfold nextIdx; split <;> omega

/-- forward distance from slot `i` to slot `z` on the cycle of length `n` -/
def dist (n i z : Nat) : Nat := if i ≤ z then z - i else z + n - i

theorem dist_next {n i z : Nat} (hi : i < n) (hz : z < n) (hne : i ≠ z) :
    dist n (nextIdx n i) z + 1 = dist n i z := by
  unfold dist nextIdx
  split <;> split <;> split <;> omega

theorem dist_lt {n i z : Nat} (hi : i < n) (hz : z < n) : dist n i z < n := by
  unfold dist; split <;> omega

/-- the placement probe finds an empty slot whenever there is one within the remaining budget -/
theorem probeEmpty_finds {o : Array Nat} {n z : Nat} (hsz : o.size = n) (hz : z < n) (hz0 : o[z]? = some 0) :
    ∀ rem i, i < n → dist n i z ≤ rem → ∃ j, probeEmpty o n rem i = .ok j ∧ j < n ∧ o[j]? = some 0 := by
  intro rem
  induction rem with
  | zero =>
    intro i hi hd
    have hiz : i = z := by
      unfold dist at hd; split at hd <;> omega
    subst hiz
    unfold probeEmpty
    rw [hz0]
    exact ⟨i, by simp, hi, hz0⟩
  | succ rem ih =>
    intro i hi hd
    unfold probeEmpty
    have hlt : i < o.size := by omega
    rw [Array.getElem?_eq_getElem hlt]
    by_cases hv : o[i] = 0
    · simp only [hv, if_true]
      exact ⟨i, rfl, hi, by rw [Array.getElem?_eq_getElem hlt, hv]⟩
    · simp only [hv, if_false]
      have hne : i ≠ z := by
        intro h; subst h
        rw [Array.getElem?_eq_getElem hlt] at hz0
        exact hv (Option.some.inj hz0)
      have := dist_next hi hz hne
      exact ih (nextIdx n i) (nextIdx_lt (by omega)) (by omega)

/-- invariant of the placement loop after the items `placed` have been handled -/
structure PlaceInv (n : Nat) (o : Array Nat) (placed : List Nat) : Prop where
  size : o.size = n
  sound : ∀ (j v : Nat), o[j]? = some v → v ≠ 0 → v ∈ placed
  complete : ∀ (a : Nat), a ∈ placed → a ≠ 0 → ∃ j : Nat, o[j]? = some a
  room : o.count 0 + placed.length = n + placed.count 0

theorem PlaceInv.init (n : Nat) : PlaceInv n (Array.replicate n 0) [] where
  size := by simp
  sound := by
    intro j v h hv
    rw [Array.getElem?_replicate] at h
    split at h <;> simp_all
  complete := by intro a ha; simp at ha
  room := by simp

/-- `end_list`'s placement never reports "Could not place associative value", never indexes out of bounds, and
keeps every non-zero address exactly as a set: the `count > len` guard is dead code. -/
theorem placeAll_ok {n : Nat} : ∀ (rest : List Nat) (o : Array Nat) (placed : List Nat),
    PlaceInv n o placed → placed.length + rest.length = n →
    ∃ o', placeAll n rest o = .ok o' ∧ PlaceInv n o' (placed ++ rest) := by
  intro rest
  induction rest with
  | nil =>
    intro o placed inv _
    exact ⟨o, rfl, by simpa using inv⟩
  | cons item rest ih =>
    intro o placed inv hlen
    simp only [List.length_cons] at hlen
    have hn : 0 < n := by omega
    -- there is an empty slot
    have hroom : 0 < o.count 0 := by have := inv.room; omega
    obtain ⟨z, hz⟩ := Array.mem_iff_getElem?.mp (Array.count_pos_iff.mp hroom)
    have hzn : z < n := by
      have : z < o.size := by
        by_cases h : z < o.size
        · exact h
        · rw [Array.getElem?_eq_none (by omega)] at hz; cases hz
      rw [inv.size] at this; exact this
    have hi : item % n < n := Nat.mod_lt _ hn
    obtain ⟨j, hj, hjn, hj0⟩ := probeEmpty_finds inv.size hzn hz n (item % n) hi (Nat.le_of_lt (dist_lt hi hzn))
    have hjs : j < o.size := by rw [inv.size]; exact hjn
    have hoj : o[j] = 0 := by
      rw [Array.getElem?_eq_getElem hjs] at hj0; exact Option.some.inj hj0
    have inv' : PlaceInv n (o.set j item hjs) (placed ++ [item]) := {
      size := by rw [Array.size_set]; exact inv.size
      sound := by
        intro i v h hv
        rw [Array.getElem?_set] at h
        split at h
        · cases h; simp
        · exact List.mem_append_left _ (inv.sound i v h hv)
      complete := by
        intro a ha ha0
        rcases List.mem_append.mp ha with h | h
        · obtain ⟨i, hi'⟩ := inv.complete a h ha0
          refine ⟨i, ?_⟩
          rw [Array.getElem?_set]
          split
          · rename_i hji
            subst hji
            rw [hj0] at hi'
            exact absurd (Option.some.inj hi').symm ha0
          · exact hi'
        · simp at h; subst h
          exact ⟨j, by rw [Array.getElem?_set]; simp⟩
      room := by
        rw [Array.count_set hjs, hoj]
        have := inv.room
        simp only [List.length_append, List.length_cons, List.length_nil, List.count_append,
          List.count_cons, List.count_nil]
        simp only [beq_self_eq_true, if_true, beq_iff_eq]
        split <;> omega }
    unfold placeAll
    rw [hj]
    simp only [hjs, dite_true]
    obtain ⟨o', ho', hinv'⟩ := ih (o.set j item hjs) (placed ++ [item]) inv' (by simp; omega)
    exact ⟨o', ho', by simpa using hinv'⟩

/-- at the end of the loop every slot holds an item: a slot is `0` only if address 0 is itself an item
(an item at address 0 never consumes a slot) -/
theorem PlaceInv.slot_mem {n : Nat} {o : Array Nat} {items : List Nat} (inv : PlaceInv n o items)
    (hlen : items.length = n) (j v : Nat) (h : o[j]? = some v) : v ∈ items := by
  by_cases hv : v = 0
  · subst hv
    have hpos : 0 < o.count 0 := Array.count_pos_iff.mpr (Array.mem_iff_getElem?.mpr ⟨j, h⟩)
    have := inv.room
    exact List.count_pos_iff.mp (by omega)
  · exact inv.sound j v h hv

/-- the shape of what `end_list` stores -/
theorem endListSimple_ok (items : List Nat) :
    ∃ o, endListSimple items = .ok (items, o) ∧ PlaceInv items.length o items := by
  obtain ⟨o, ho, hinv⟩ := placeAll_ok items (Array.replicate items.length 0) [] (PlaceInv.init _) (by simp)
  refine ⟨o, ?_, by simpa using hinv⟩
  unfold endListSimple
  rw [ho]

/-! ### the symbol look-up loop -/

section lookup
variable {view : SView} {key : Nat → Option (Nat × Nat)} {assoc : Array Nat} {s n : Nat}

/-- no slot holds an item keyed by `s`: the scan ends with "absent" -/
theorem lookupLoop_absent (hsz : assoc.size = n)
    (hk : ∀ (j a : Nat), assoc[j]? = some a → keyedValue view a = .ok (key a))
    (hno : ∀ (j a : Nat), assoc[j]? = some a → keyMatch (key a) s = none) :
    ∀ rem i, i < n → lookupLoop view assoc s n rem i = .ok none := by
  intro rem
  induction rem with
  | zero =>
    intro i hi
    unfold lookupLoop
    have hlt : i < assoc.size := by omega
    have h1 := Array.getElem?_eq_getElem hlt
    rw [h1]
    simp only [hk i _ h1, hno i _ h1]
  | succ rem ih =>
    intro i hi
    unfold lookupLoop
    have hlt : i < assoc.size := by omega
    have h1 := Array.getElem?_eq_getElem hlt
    rw [h1]
    simp only [hk i _ h1, hno i _ h1]
    exact ih _ (nextIdx_lt (by omega))

/-- a slot `z` holds an item keyed by `s` with value `r`, and every slot keyed by `s` has that value:
the scan returns `r` as soon as the budget reaches `z` -/
theorem lookupLoop_present {z r : Nat} (hsz : assoc.size = n)
    (hk : ∀ (j a : Nat), assoc[j]? = some a → keyedValue view a = .ok (key a))
    (hz : z < n) (hzr : ∃ a, assoc[z]? = some a ∧ keyMatch (key a) s = some r)
    (hall : ∀ (j a r' : Nat), assoc[j]? = some a → keyMatch (key a) s = some r' → r' = r) :
    ∀ rem i, i < n → dist n i z ≤ rem → lookupLoop view assoc s n rem i = .ok (some r) := by
  intro rem
  induction rem with
  | zero =>
    intro i hi hd
    have hiz : i = z := by
      unfold dist at hd; split at hd <;> omega
    subst hiz
    obtain ⟨a, ha, hm⟩ := hzr
    unfold lookupLoop
    rw [ha]
    simp only [hk i a ha, hm]
  | succ rem ih =>
    intro i hi hd
    unfold lookupLoop
    have hlt : i < assoc.size := by omega
    have h1 := Array.getElem?_eq_getElem hlt
    rw [h1]
    simp only [hk i _ h1]
    cases hm : keyMatch (key assoc[i]) s with
    | some r' =>
      simp only []
      rw [hall i _ r' h1 hm]
    | none =>
      simp only []
      have hne : i ≠ z := by
        intro h; subst h
        obtain ⟨a, ha, hma⟩ := hzr
        rw [h1] at ha; cases ha
        rw [hm] at hma; cases hma
      have := dist_next hi hz hne
      exact ih _ (nextIdx_lt (by omega)) (by omega)

end lookup

/-! ## Basic: the stable sort of the association slots -/

/-- `a` may stand in front of `b` in the sorted slots -/
def cellLe (a b : BCell) : Prop := cmpCell a b ≠ .gt

theorem cmpCell_gt_swap {a b : BCell} (h : cmpCell a b = .gt) : cmpCell b a = .lt := by
  cases a <;> cases b <;> simp_all [cmpCell]
  rename_i s1 _ s2 _
  rw [Nat.compare_eq_gt] at h
  rw [Nat.compare_eq_lt]; exact h

theorem cellLe_trans {a b c : BCell} (h1 : cellLe a b) (h2 : cellLe b c) : cellLe a c := by
  unfold cellLe at *
  cases a <;> cases b <;> cases c <;> simp_all [cmpCell]
  rename_i s1 _ s2 _ s3 _
  intro h
  rw [Nat.compare_eq_gt] at h
  have h1' : ¬ (s2 < s1) := by intro h'; exact h1 (Nat.compare_eq_gt.mpr h')
  have h2' : ¬ (s3 < s2) := by intro h'; exact h2 (Nat.compare_eq_gt.mpr h')
  omega

theorem insertStable_perm (x : BCell) (l : List BCell) : (insertStable x l).Perm (x :: l) := by
  induction l with
  | nil => exact List.Perm.refl _
  | cons y ys ih =>
    unfold insertStable
    split
    · exact (List.Perm.cons y ih).trans (List.Perm.swap x y ys)
    · exact List.Perm.refl _

theorem sortStable_perm (l : List BCell) : (sortStable l).Perm l := by
  induction l with
  | nil => exact List.Perm.refl _
  | cons x xs ih =>
    unfold sortStable
    exact (insertStable_perm x _).trans (List.Perm.cons x ih)

theorem insertStable_sorted (x : BCell) (l : List BCell) (h : l.Pairwise cellLe) :
    (insertStable x l).Pairwise cellLe := by
  induction l with
  | nil => simp [insertStable]
  | cons y ys ih =>
    have hp := List.pairwise_cons.mp h
    unfold insertStable
    split
    · rename_i hgt
      refine List.pairwise_cons.mpr ⟨?_, ih hp.2⟩
      intro z hz
      rcases List.mem_cons.mp ((insertStable_perm x ys).mem_iff.mp hz) with rfl | hz'
      · unfold cellLe; rw [cmpCell_gt_swap hgt]; simp
      · exact hp.1 z hz'
    · rename_i hngt
      refine List.pairwise_cons.mpr ⟨?_, h⟩
      intro z hz
      rcases List.mem_cons.mp hz with rfl | hz'
      · exact hngt
      · exact cellLe_trans hngt (hp.1 z hz')

theorem sortStable_sorted (l : List BCell) : (sortStable l).Pairwise cellLe := by
  induction l with
  | nil => simp [sortStable]
  | cons x xs ih => unfold sortStable; exact insertStable_sorted x _ ih

/-! ## Basic: the heap while a list is being built -/

/-- `(symbol, value)` of an item as `add_to_list` reads it from the heap -/
def keyOfB (h : BHeap) (a : Nat) : Option (Nat × Nat) :=
  match h[a]? with
  | some (.pair l r) =>
    match h[l]? with
    | some (.sym s) => some (s, r)
    | _ => none
  | _ => none

def slotOf (h : BHeap) (a : Nat) : BCell :=
  match keyOfB h a with
  | some (s, r) => .assoc s r
  | none => .empty

structure AddInv (h : BHeap) (n : Nat) (done : List Nat) (g : BHeap) : Prop where
  size : g.size = h.size + 1 + 2 * n
  old : ∀ i, i < h.size → g[i]? = h[i]?
  hdr : g[h.size]? = some (.uninitList n done.length)
  itm : ∀ (i a : Nat), done[i]? = some a → g[h.size + 1 + i]? = some (.listItem a)
  slt : ∀ (i a : Nat), done[i]? = some a → g[h.size + 1 + n + i]? = some (slotOf h a)
  rest : ∀ i, done.length ≤ i → i < n → g[h.size + 1 + n + i]? = some .empty

theorem addToList_step {h g : BHeap} {n : Nat} {done : List Nat} {a : Nat}
    (inv : AddInv h n done g) (hc : done.length < n) (ha : a < h.size)
    (hl : ∀ l r, h[a]? = some (.pair l r) → l < h.size) :
    ∃ g', addToList g h.size a = .ok g' ∧ g'.size = g.size ∧
      ∀ i, g'[i]? = if i = h.size then some (.uninitList n (done.length + 1))
                    else if i = h.size + 1 + done.length then some (.listItem a)
                    else if i = h.size + 1 + n + done.length then some (slotOf h a)
                    else g[i]? := by
  have hsz := inv.size
  have hga : g[a]? = h[a]? := inv.old a ha
  have hempty := inv.rest done.length (Nat.le_refl _) hc
  unfold addToList
  rw [inv.hdr]
  simp only [show ¬ (done.length ≥ n) by omega, if_false]
  obtain ⟨c0, hc0⟩ : ∃ c, g[h.size + 1 + done.length]? = some c :=
    ⟨_, Array.getElem?_eq_getElem (by omega)⟩
  have h1cur : (g.setIfInBounds h.size (BCell.uninitList n (done.length + 1)))[h.size + 1 + done.length]? = some c0 := by
    rw [Array.getElem?_setIfInBounds, if_neg (by omega)]; exact hc0
  rw [h1cur]
  simp only []
  generalize hh2 : ((g.setIfInBounds h.size (BCell.uninitList n (done.length + 1))).setIfInBounds
      (h.size + 1 + done.length) (BCell.listItem a)) = h2
  have h2sz : h2.size = g.size := by subst hh2; simp
  have h2get : ∀ i, h2[i]? = if i = h.size + 1 + done.length then some (BCell.listItem a)
      else if i = h.size then some (BCell.uninitList n (done.length + 1)) else g[i]? := by
    intro i
    subst hh2
    rw [Array.getElem?_setIfInBounds, Array.getElem?_setIfInBounds, Array.size_setIfInBounds]
    by_cases e1 : i = h.size + 1 + done.length
    · subst e1; rw [if_pos rfl, if_pos (by omega), if_pos rfl]
    · rw [if_neg (fun h' => e1 h'.symm), if_neg e1]
      by_cases e2 : i = h.size
      · subst e2; rw [if_pos rfl, if_pos (by omega), if_pos rfl]
      · rw [if_neg (fun h' => e2 h'.symm), if_neg e2]
  have h2a : h2[a]? = h[a]? := by
    rw [h2get, if_neg (by omega), if_neg (by omega)]; exact hga
  rw [h2a]
  -- the three shapes of the item
  have fin2 : ∀ i, h2[i]? = if i = h.size then some (BCell.uninitList n (done.length + 1))
      else if i = h.size + 1 + done.length then some (BCell.listItem a)
      else if i = h.size + 1 + n + done.length then some BCell.empty else g[i]? := by
    intro i
    rw [h2get]
    by_cases e2 : i = h.size
    · subst e2; rw [if_neg (by omega), if_pos rfl, if_pos rfl]
    · rw [if_neg e2, if_neg e2]
      by_cases e1 : i = h.size + 1 + done.length
      · rw [if_pos e1, if_pos e1]
      · rw [if_neg e1, if_neg e1]
        by_cases e3 : i = h.size + 1 + n + done.length
        · rw [if_pos e3, e3]; exact hempty
        · rw [if_neg e3]
  cases hcell : h[a]? with
  | none =>
    rw [Array.getElem?_eq_getElem ha] at hcell; cases hcell
  | some cell =>
    have hslot_other : (∀ l r, cell ≠ .pair l r) → slotOf h a = .empty := by
      intro hne
      unfold slotOf keyOfB
      rw [hcell]
      cases cell <;> simp_all
    cases cell with
    | pair l r =>
      simp only []
      have hll := hl l r hcell
      have h2l : h2[l]? = h[l]? := by
        rw [h2get, if_neg (by omega), if_neg (by omega)]; exact inv.old l hll
      rw [h2l]
      cases hlc : h[l]? with
      | none => rw [Array.getElem?_eq_getElem hll] at hlc; cases hlc
      | some lc =>
        cases lc with
        | sym s =>
          simp only []
          have hp : h2[h.size + 1 + done.length + n]? = some BCell.empty := by
            rw [fin2, if_neg (by omega), if_neg (by omega), if_pos (by omega)]
          rw [hp]
          simp only []
          refine ⟨_, rfl, by simp [h2sz], ?_⟩
          intro i
          have hs : slotOf h a = .assoc s r := by
            unfold slotOf keyOfB; simp [hcell, hlc]
          rw [Array.getElem?_setIfInBounds, hs]
          by_cases e3 : h.size + 1 + done.length + n = i
          · have e1 : ¬ (i = h.size) := by omega
            have e2 : ¬ (i = h.size + 1 + done.length) := by omega
            have e3' : i = h.size + 1 + n + done.length := by omega
            rw [if_pos e3, if_pos (by omega), if_neg e1, if_neg e2, if_pos e3']
          · have e3' : ¬ (i = h.size + 1 + n + done.length) := by omega
            rw [if_neg e3, fin2]
            by_cases e1 : i = h.size
            · rw [if_pos e1, if_pos e1]
            · rw [if_neg e1, if_neg e1]
              by_cases e2 : i = h.size + 1 + done.length
              · rw [if_pos e2, if_pos e2]
              · rw [if_neg e2, if_neg e2, if_neg e3', if_neg e3']
        | _ =>
          simp only []
          refine ⟨_, rfl, h2sz, ?_⟩
          have hs : slotOf h a = .empty := by
            unfold slotOf keyOfB; simp [hcell, hlc]
          rw [hs]; exact fin2
    | _ =>
      simp only []
      refine ⟨_, rfl, h2sz, ?_⟩
      rw [hslot_other (by intro l r hne; cases hne)]; exact fin2

theorem startList_inv (h : BHeap) (n : Nat) : AddInv h n [] (startList h n).1 where
  size := by simp [startList]
  old := by
    intro i hi
    simp only [startList]
    rw [Array.getElem?_append, if_pos (by simp; omega), Array.getElem?_push, if_neg (by omega)]
  hdr := by
    simp only [startList]
    rw [Array.getElem?_append, if_pos (by simp), Array.getElem?_push, if_pos rfl]
    rfl
  itm := by intro i a h'; simp at h'
  slt := by intro i a h'; simp at h'
  rest := by
    intro i _ hi
    simp only [startList]
    rw [Array.getElem?_append, if_neg (by simp; omega), Array.getElem?_replicate, if_pos (by simp; omega)]

/-- items are earlier cells, and so is the left of an item that is a pair -/
def ReadableB (h : BHeap) (items : List Nat) : Prop :=
  ∀ a ∈ items, a < h.size ∧ ∀ l r, h[a]? = some (.pair l r) → l < h.size

theorem addAll_inv {h : BHeap} {n : Nat} : ∀ (rest done : List Nat) (g : BHeap), AddInv h n done g →
    done.length + rest.length = n → ReadableB h rest →
    ∃ g', addAll h.size rest g = .ok g' ∧ AddInv h n (done ++ rest) g' := by
  intro rest
  induction rest with
  | nil => intro done g inv _ _; exact ⟨g, rfl, by simpa using inv⟩
  | cons a rest ih =>
    intro done g inv hlen hread
    simp only [List.length_cons] at hlen
    have hra := hread a List.mem_cons_self
    obtain ⟨g1, hg1, hsz1, hget⟩ := addToList_step inv (by omega) hra.1 hra.2
    have inv1 : AddInv h n (done ++ [a]) g1 := {
      size := by rw [hsz1]; exact inv.size
      old := by
        intro i hi
        rw [hget, if_neg (by omega), if_neg (by omega), if_neg (by omega)]
        exact inv.old i hi
      hdr := by rw [hget, if_pos rfl]; simp
      itm := by
        intro i b hb
        rw [List.getElem?_append] at hb
        by_cases hi : i < done.length
        · rw [if_pos hi] at hb
          rw [hget, if_neg (by omega), if_neg (by omega), if_neg (by omega)]
          exact inv.itm i b hb
        · rw [if_neg hi] at hb
          have : i = done.length := by
            by_cases h0 : i - done.length = 0
            · omega
            · rw [List.getElem?_eq_none (by simp; omega)] at hb; cases hb
          subst this
          simp at hb; subst hb
          rw [hget, if_neg (by omega), if_pos rfl]
      slt := by
        intro i b hb
        rw [List.getElem?_append] at hb
        by_cases hi : i < done.length
        · rw [if_pos hi] at hb
          rw [hget, if_neg (by omega), if_neg (by omega), if_neg (by omega)]
          exact inv.slt i b hb
        · rw [if_neg hi] at hb
          have : i = done.length := by
            by_cases h0 : i - done.length = 0
            · omega
            · rw [List.getElem?_eq_none (by simp; omega)] at hb; cases hb
          subst this
          simp at hb; subst hb
          rw [hget, if_neg (by omega), if_neg (by omega), if_pos rfl]
      rest := by
        intro i hi hin
        simp only [List.length_append, List.length_cons, List.length_nil] at hi
        rw [hget, if_neg (by omega), if_neg (by omega), if_neg (by omega)]
        exact inv.rest i (by omega) hin }
    obtain ⟨g', hg', inv'⟩ := ih (done ++ [a]) g1 inv1 (by simp; omega)
      (fun b hb => hread b (List.mem_cons_of_mem _ hb))
    refine ⟨g', ?_, by simpa using inv'⟩
    unfold addAll
    rw [hg1]
    exact hg'


end Garnish.Store.Lists
