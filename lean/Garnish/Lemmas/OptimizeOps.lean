/-
`WF` is an invariant of the public operations the OPT / CLONE scripts use to build a store:
`BasicGarnishData::new`, the scalar / pair-like `add_*`, text and bytes, the three stack pushes and pops,
`retain_all_current_data`.  (Lists, symbol-list merges and symbol names are checked by evaluation of the decidable
`wf` on every generated case instead: see the driver's `wf=` flag.)
-/
import Garnish.Lemmas.OptimizeWF
set_option maxHeartbeats 1000000
namespace Garnish.BasicOpt
open Garnish

theorem WF_fresh : WF Store.fresh := by decide

theorem getElem?_append_old (A B : Array Cell) {i : Nat} (hi : i < A.size) : (A ++ B)[i]? = A[i]? := by
  simp [Array.getElem?_append, hi]

theorem agree_append (A B : Array Cell) : AgreeNC A (A ++ B) := by
  intro i c hc _
  have hi : i < A.size := by
    rcases Nat.lt_or_ge i A.size with h | h
    · exact h
    · rw [Array.getElem?_eq_none h] at hc; cases hc
  rw [getElem?_append_old A B hi]; exact hc

theorem framePoint_append (A B : Array Cell) {i : Nat} (hi : i < A.size) : framePoint (A ++ B) i = framePoint A i := by
  cases i with
  | zero => rfl
  | succ j => simp only [framePoint]; rw [getElem?_append_old A B (by omega)]

/-- appending cells does not change what an existing address reads as, provided the existing headers are complete -/
theorem shape_append_eq (A B : Array Cell) (hh : ∀ i, i < A.size → headerOK A i = true) {i : Nat} (hi : i < A.size) :
    shape (A ++ B) i = shape A i := by
  cases h : shape A i with
  | some sh => exact shape_agree (agree_append A B) h
  | none =>
    have hhd := hh i hi
    unfold shape at h ⊢
    rw [getElem?_append_old A B hi]
    obtain ⟨d, hd⟩ : ∃ d, A[i]? = some d := ⟨A[i], by simp [hi]⟩
    rw [hd] at h ⊢
    simp only [headerOK, hd, isNode] at hhd
    cases d <;> simp only [] at h ⊢ <;> first
      | (simp at h; done)
      | rfl
      | (rw [framePoint_append A B hi]; exact h)
      | (exfalso
         have : shape A i = none := by unfold shape; rw [hd]; exact h
         rw [this] at hhd; simp at hhd)

theorem isNode_append (A B : Array Cell) (hh : ∀ i, i < A.size → headerOK A i = true) {i : Nat} (hi : i < A.size) :
    isNode (A ++ B) i = isNode A i := by
  simp only [isNode, shape_append_eq A B hh hi]

theorem nodeOK_append (A B : Array Cell) (hh : ∀ i, i < A.size → headerOK A i = true) {i : Nat} (hi : i < A.size) :
    nodeOK (A ++ B) i = nodeOK A i := by
  simp only [nodeOK, shape_append_eq A B hh hi]
  cases shape A i with
  | none => rfl
  | some sh =>
    simp only
    apply List.all_congr rfl
    intro k
    by_cases hk : k < i
    · rw [isNode_append A B hh (by omega)]
    · simp [hk]

theorem extract_append_prefix (A B : Array Cell) {r : Nat} (hr : r ≤ A.size) : (A ++ B).extract 0 r = A.extract 0 r := by
  apply Array.ext_getElem?
  intro i
  rw [Array.getElem?_extract, Array.getElem?_extract]
  have e1 : min r (A ++ B).size - 0 = r := by simp; omega
  have e2 : min r A.size - 0 = r := by simp; omega
  rw [e1, e2]
  by_cases hi : i < r
  · simp only [hi, if_true, Nat.zero_add]
    simp [Array.getElem?_append, (by omega : i < A.size)]
  · simp [hi]

/-- **appending a block of cells keeps `WF`** when the new cells are themselves well formed -/
theorem append_wf {s s' : Store} (B : Array Cell) (hwf : WF s) (hcells : s'.cells = s.cells ++ B)
    (hret : s'.retention = s.retention) (hsym : s'.symtab = s.symtab)
    (hnew : ∀ i, s.cells.size ≤ i → i < s'.cells.size →
      nodeOK s'.cells i = true ∧ listOK s'.cells i = true ∧ headerOK s'.cells i = true)
    (hreg : headOK s'.cells s'.currentRegister = true) (hval : headOK s'.cells s'.currentValue = true)
    (hfrm : headOK s'.cells s'.currentFrame = true) : WF s' := by
  have hh := hwf.headers
  refine ⟨?_, ?_, ?_, ?_, ?_, hreg, hval, hfrm, ?_⟩
  · rw [hret, hcells]; simp; have := hwf.retLe; omega
  · intro i hi
    by_cases hold : i < s.cells.size
    · rw [hcells, nodeOK_append _ _ hh hold]; exact hwf.nodes i hold
    · exact (hnew i (by omega) hi).1
  · intro i hi
    by_cases hold : i < s.cells.size
    · have := hwf.lists i hold
      simp only [listOK, hcells, getElem?_append_old _ B hold] at this ⊢
      exact this
    · exact (hnew i (by omega) hi).2.1
  · intro i hi
    by_cases hold : i < s.cells.size
    · have := hwf.headers i hold
      simp only [headerOK, hcells, getElem?_append_old _ B hold, isNode_append _ _ hh hold] at this ⊢
      exact this
    · exact (hnew i (by omega) hi).2.2
  · intro i hi
    rw [hret] at hi ⊢
    have hlt : i < s.cells.size := by have := hwf.retLe; omega
    have := hwf.extent i hi
    simp only [extentOK, decide_eq_true_eq] at this ⊢
    rw [hcells, extract_append_prefix _ _ hwf.retLe, shape_append_eq _ _ hh hlt]
    exact this
  · intro c hc
    rw [hsym] at hc
    have := hwf.syms c hc
    cases c <;> simp only [symOK] at this ⊢ <;> try (simp at this; done)
    rename_i sy d
    have hd : d < s.cells.size := by
      simp only [isNode, Option.isSome_iff_exists] at this
      obtain ⟨sh, hsh⟩ := this
      exact shape_lt hsh
    rw [hcells, isNode_append _ _ hh hd]; exact this

theorem headOK_append {s : Store} (hwf : WF s) (B : Array Cell) {o : Option Nat} (h : headOK s.cells o = true) :
    headOK (s.cells ++ B) o = true := by
  cases o with
  | none => rfl
  | some a =>
    simp only [headOK] at h ⊢
    have ha : a < s.cells.size := by
      simp only [isNode, Option.isSome_iff_exists] at h
      obtain ⟨sh, hsh⟩ := h
      exact shape_lt hsh
    rw [isNode_append _ _ hwf.headers ha]; exact h

/-- pushing one cell that is read without its neighbours and links to existing nodes
(`add_unit` … `add_pair`, `add_range`, `add_slice`, `add_partial`, `add_concatenation`, and the cells pushed by
`push_register` / `push_value_stack`) -/
theorem push_solo_wf {s s' : Store} {c : Cell} {i : Nat} {sh : Shape} (hwf : WF s) (hso : soloShape c = some sh)
    (hk : ∀ k ∈ sh.kids, k < s.cells.size ∧ isNode s.cells k = true) (hp : s.push c = .ok (s', i)) :
    WF s' ∧ i = s.cells.size ∧ isNode s'.cells i = true := by
  obtain ⟨hi, hc, hf⟩ := push_ok hp
  have hcells : s'.cells = s.cells ++ #[c] := by rw [hc]; simp
  have hshape : shape s'.cells s.cells.size = some sh := by rw [hc]; exact shape_push_solo _ _ _ hso
  have hnode : isNode s'.cells s.cells.size = true := by simp [isNode, hshape]
  refine ⟨append_wf #[c] hwf hcells hf.1 hf.2.2.1 ?_ ?_ ?_ ?_, hi, by rw [hi]; exact hnode⟩
  · intro j hj1 hj2
    have hj : j = s.cells.size := by rw [hc] at hj2; simp at hj2; omega
    subst hj
    have hget : s'.cells[s.cells.size]? = some c := by rw [hc]; simp
    refine ⟨?_, ?_, ?_⟩
    · simp only [nodeOK, hshape, List.all_eq_true, Bool.and_eq_true, decide_eq_true_eq]
      intro k hkm
      obtain ⟨h1, h2⟩ := hk k hkm
      exact ⟨h1, by rw [hcells, isNode_append _ _ hwf.headers h1]; exact h2⟩
    · simp only [listOK, hget]
      cases c <;> simp only [soloShape] at hso ⊢ <;> first | rfl | (simp at hso)
    · simp only [headerOK, hget]
      cases c <;> simp only [soloShape] at hso ⊢ <;> first | rfl | (simp at hso)
  · rw [hf.2.2.2.2.1, hcells]; exact headOK_append hwf _ hwf.reg
  · rw [hf.2.2.2.1, hcells]; exact headOK_append hwf _ hwf.val
  · rw [hf.2.2.2.2.2, hcells]; exact headOK_append hwf _ hwf.frm

/-- changing a head to a node keeps `WF` -/
theorem WF.withHeads {s : Store} (hwf : WF s) (r v f : Option Nat) (hr : headOK s.cells r = true)
    (hv : headOK s.cells v = true) (hf : headOK s.cells f = true) :
    WF { s with currentRegister := r, currentValue := v, currentFrame := f } :=
  ⟨hwf.retLe, hwf.nodes, hwf.lists, hwf.headers, hwf.extent, hr, hv, hf, hwf.syms⟩

theorem head_lt {cells : Array Cell} {a : Nat} (h : headOK cells (some a) = true) : a < cells.size := by
  simp only [headOK, isNode, Option.isSome_iff_exists] at h
  obtain ⟨sh, hsh⟩ := h
  exact shape_lt hsh

/-- `push_register` keeps `WF` -/
theorem pushRegister_wf {s s' : Store} {v : Nat} (hwf : WF s) (hv : isNode s.cells v = true)
    (h : Store.pushRegister s v = .ok s') : WF s' := by
  have hvlt : v < s.cells.size := head_lt (cells := s.cells) (a := v) hv
  simp only [Store.pushRegister, bind_eq_ok, pure_eq_ok] at h
  obtain ⟨⟨s1, i⟩, hp, hs'⟩ := h
  subst hs'
  cases hreg : s.currentRegister with
  | none =>
    rw [hreg] at hp
    obtain ⟨hw, _, hn⟩ := push_solo_wf (sh := ⟨.registerRoot 0, [], [v]⟩) hwf rfl
      (by intro k hk; simp at hk; subst hk; exact ⟨hvlt, hv⟩) hp
    exact hw.withHeads _ _ _ hn hw.val hw.frm
  | some p =>
    rw [hreg] at hp
    have hpn := hwf.reg
    rw [hreg] at hpn
    obtain ⟨hw, _, hn⟩ := push_solo_wf (sh := ⟨.register 0 0, [], [p, v]⟩) hwf rfl
      (by intro k hk
          simp at hk
          rcases hk with rfl | rfl
          · exact ⟨head_lt hpn, hpn⟩
          · exact ⟨hvlt, hv⟩) hp
    exact hw.withHeads _ _ _ hn hw.val hw.frm

/-- `push_value_stack` keeps `WF` -/
theorem pushValue_wf {s s' : Store} {v : Nat} (hwf : WF s) (hv : isNode s.cells v = true)
    (h : Store.pushValue s v = .ok s') : WF s' := by
  have hvlt : v < s.cells.size := head_lt (cells := s.cells) (a := v) hv
  simp only [Store.pushValue, bind_eq_ok, pure_eq_ok] at h
  obtain ⟨⟨s1, i⟩, hp, hs'⟩ := h
  subst hs'
  cases hcur : s.currentValue with
  | none =>
    rw [hcur] at hp
    obtain ⟨hw, _, hn⟩ := push_solo_wf (sh := ⟨.valueRoot 0, [], [v]⟩) hwf rfl
      (by intro k hk; simp at hk; subst hk; exact ⟨hvlt, hv⟩) hp
    exact hw.withHeads _ _ _ hw.reg hn hw.frm
  | some p =>
    rw [hcur] at hp
    have hpn := hwf.val
    rw [hcur] at hpn
    obtain ⟨hw, _, hn⟩ := push_solo_wf (sh := ⟨.value 0 0, [], [p, v]⟩) hwf rfl
      (by intro k hk
          simp at hk
          rcases hk with rfl | rfl
          · exact ⟨head_lt hpn, hpn⟩
          · exact ⟨hvlt, hv⟩) hp
    exact hw.withHeads _ _ _ hw.reg hn hw.frm

/-- `retain_all_current_data` keeps `WF` -/
theorem retainAll_wf {s : Store} (hwf : WF s) : WF s.retainAll := by
  refine ⟨Nat.le_refl _, hwf.nodes, hwf.lists, hwf.headers, ?_, hwf.reg, hwf.val, hwf.frm, hwf.syms⟩
  intro i _
  simp [extentOK, Store.retainAll, Store.cursor]

theorem kid_node {s : Store} (hwf : WF s) {i : Nat} {sh : Shape} (hsh : shape s.cells i = some sh) {k : Nat}
    (hk : k ∈ sh.kids) : isNode s.cells k = true := by
  have := hwf.nodes i (shape_lt hsh)
  simp only [nodeOK, hsh, List.all_eq_true, Bool.and_eq_true, decide_eq_true_eq] at this
  exact (this k hk).2

/-- `pop_register` keeps `WF` -/
theorem popRegister_wf {s s' : Store} {r : Option Nat} (hwf : WF s) (h : Store.popRegister s = .ok (s', r)) :
    WF s' ∧ (∀ v, r = some v → isNode s'.cells v = true) := by
  unfold Store.popRegister at h
  cases hreg : s.currentRegister with
  | none =>
    simp only [hreg, Outcome.ok.injEq, Prod.mk.injEq] at h
    obtain ⟨h1, h2⟩ := h
    subst h1; subst h2
    exact ⟨hwf, fun v hv => by cases hv⟩
  | some i =>
    simp only [hreg, bind_eq_ok] at h
    obtain ⟨c, hg, h2⟩ := h
    have hc := get_ok hg
    cases c <;> simp only [pure_eq_ok, Prod.mk.injEq] at h2 <;> try (simp at h2; done)
    · rename_i p v
      obtain ⟨h1, h2⟩ := h2
      subst h1; subst h2
      have hsh : shape s.cells i = some ⟨.register 0 0, [], [p, v]⟩ := shape_of_solo hc rfl
      exact ⟨hwf.withHeads _ _ _ (kid_node hwf hsh (by simp)) hwf.val hwf.frm,
        fun v' hv' => by cases hv'; exact kid_node hwf hsh (by simp)⟩
    · rename_i v
      obtain ⟨h1, h2⟩ := h2
      subst h1; subst h2
      have hsh : shape s.cells i = some ⟨.registerRoot 0, [], [v]⟩ := shape_of_solo hc rfl
      exact ⟨hwf.withHeads _ _ _ rfl hwf.val hwf.frm, fun v' hv' => by cases hv'; exact kid_node hwf hsh (by simp)⟩

/-- `pop_value_stack` keeps `WF` -/
theorem popValue_wf {s : Store} (hwf : WF s) :
    WF (Store.popValue s).1 ∧ (∀ v, (Store.popValue s).2 = some v → isNode s.cells v = true) := by
  unfold Store.popValue
  cases hcur : s.currentValue with
  | none => exact ⟨hwf, fun v hv => by cases hv⟩
  | some i =>
    simp only
    cases hc : s.cells[i]? with
    | none => exact ⟨hwf, fun v hv => by cases hv⟩
    | some c =>
      cases c <;> simp only [] <;> try exact ⟨hwf, fun v hv => by cases hv⟩
      · rename_i p v
        have hsh : shape s.cells i = some ⟨.value 0 0, [], [p, v]⟩ := shape_of_solo hc rfl
        exact ⟨hwf.withHeads _ _ _ hwf.reg (kid_node hwf hsh (by simp)) hwf.frm,
          fun v' hv' => by cases hv'; exact kid_node hwf hsh (by simp)⟩
      · rename_i v
        have hsh : shape s.cells i = some ⟨.valueRoot 0, [], [v]⟩ := shape_of_solo hc rfl
        exact ⟨hwf.withHeads _ _ _ hwf.reg rfl hwf.frm, fun v' hv' => by cases hv'; exact kid_node hwf hsh (by simp)⟩

theorem pushAll_spec : ∀ (cs : List Cell) (s s' : Store), Store.pushAll s cs = .ok s' →
    s'.cells = s.cells ++ cs.toArray ∧ SameFrame s s'
  | [], s, s', h => by
    simp only [Store.pushAll, Outcome.ok.injEq] at h
    subst h; exact ⟨by simp, SameFrame.rfl' _⟩
  | c :: cs, s, s', h => by
    simp only [Store.pushAll, bind_eq_ok] at h
    obtain ⟨⟨s1, i⟩, hp, hrest⟩ := h
    obtain ⟨_, hc, hf⟩ := push_ok hp
    obtain ⟨h1, h2⟩ := pushAll_spec cs s1 s' hrest
    refine ⟨?_, hf.trans h2⟩
    rw [h1, hc]
    apply Array.ext'
    simp

/-- `add_string` / `parse_add_char_list` / `add_byte_slice`: a text or byte header followed by its items -/
theorem addInline_wf {s s' : Store} {hdr : Cell} {items : List Cell} {a : Nat} (hwf : WF s)
    (hkind : (hdr = .charList items.length ∧ ∀ c ∈ items, isChar c = true) ∨
             (hdr = .byteList items.length ∧ ∀ c ∈ items, isByte c = true))
    (h : Store.addInline s hdr items = .ok (s', a)) : WF s' ∧ a = s.cells.size ∧ isNode s'.cells a = true := by
  simp only [Store.addInline, bind_eq_ok, pure_eq_ok, Prod.mk.injEq] at h
  obtain ⟨⟨s1, i⟩, hp, s2, hall, hs2, hia⟩ := h
  subst hs2; subst hia
  obtain ⟨hi, hc1, hf1⟩ := push_ok hp
  obtain ⟨hc2, hf2⟩ := pushAll_spec _ _ _ hall
  have hf := hf1.trans hf2
  have hcells : s2.cells = s.cells ++ (#[hdr] ++ items.toArray) := by
    rw [hc2, hc1]; apply Array.ext'; simp
  have hlist : s2.cells.toList = (s.cells.toList ++ [hdr]) ++ items ++ [] := by rw [hcells]; simp
  have hhdr : s2.cells[s.cells.size]? = some hdr := by
    rw [← Array.getElem?_toList, hlist]; simp
  have hsize : s2.cells.size = s.cells.size + 1 + items.length := by rw [hcells]; simp; omega
  -- the header reads back as a node without links
  have hshape : shape s2.cells s.cells.size = some ⟨hdr, items, []⟩ := by
    rcases hkind with ⟨rfl, hall'⟩ | ⟨rfl, hall'⟩
    · have hread := inlineCells_suffix (p := isChar) items _ [] s2.cells hall' hlist
      simp only [List.length_append, List.length_singleton, Array.length_toList] at hread
      unfold shape; rw [hhdr]; simp only [hread, Option.map_some]
    · have hread := inlineCells_suffix (p := isByte) items _ [] s2.cells hall' hlist
      simp only [List.length_append, List.length_singleton, Array.length_toList] at hread
      unfold shape; rw [hhdr]; simp only [hread, Option.map_some]
  have hnode : isNode s2.cells s.cells.size = true := by simp [isNode, hshape]
  refine ⟨append_wf _ hwf hcells hf.1 hf.2.2.1 ?_ ?_ ?_ ?_, hi, by rw [hi]; exact hnode⟩
  · intro j hj1 hj2
    by_cases hj : j = s.cells.size
    · subst hj
      refine ⟨by simp [nodeOK, hshape], ?_, ?_⟩
      · simp only [listOK, hhdr]
        rcases hkind with ⟨rfl, _⟩ | ⟨rfl, _⟩ <;> rfl
      · simp only [headerOK, hhdr]
        rcases hkind with ⟨rfl, _⟩ | ⟨rfl, _⟩ <;> exact hnode
    · -- an item cell: a char or a byte, a leaf
      obtain ⟨t, rfl⟩ : ∃ t, j = s.cells.size + 1 + t := ⟨j - (s.cells.size + 1), by omega⟩
      have ht : t < items.length := by omega
      obtain ⟨c, hct⟩ : ∃ c, items[t]? = some c := ⟨items[t], by simp [ht]⟩
      have hget : s2.cells[s.cells.size + 1 + t]? = some c := by
        rw [← Array.getElem?_toList, hlist, List.append_nil]
        have e : s.cells.size + 1 + t = (s.cells.toList ++ [hdr]).length + t := by simp
        rw [e, List.getElem?_append_right (Nat.le_add_right _ _)]
        simpa using hct
      have hmem : c ∈ items := List.mem_of_getElem? hct
      have hleaf : ∃ x, c = .char x ∨ c = .byte x := by
        rcases hkind with ⟨_, hall'⟩ | ⟨_, hall'⟩
        · have := hall' _ hmem
          cases c <;> simp [isChar] at this
          exact ⟨_, Or.inl rfl⟩
        · have := hall' _ hmem
          cases c <;> simp [isByte] at this
          exact ⟨_, Or.inr rfl⟩
      obtain ⟨x, hx⟩ := hleaf
      rcases hx with hx | hx <;> rw [hx] at hget
      · have hsh : shape s2.cells (s.cells.size + 1 + t) = some ⟨.char x, [], []⟩ := shape_of_solo hget rfl
        exact ⟨by simp [nodeOK, hsh], by simp [listOK, hget], by simp [headerOK, hget]⟩
      · have hsh : shape s2.cells (s.cells.size + 1 + t) = some ⟨.byte x, [], []⟩ := shape_of_solo hget rfl
        exact ⟨by simp [nodeOK, hsh], by simp [listOK, hget], by simp [headerOK, hget]⟩
  · rw [hf.2.2.2.2.1, hcells]; exact headOK_append hwf _ hwf.reg
  · rw [hf.2.2.2.1, hcells]; exact headOK_append hwf _ hwf.val
  · rw [hf.2.2.2.2.2, hcells]; exact headOK_append hwf _ hwf.frm

/-- the shape of a frame cell pushed right behind its return point -/
theorem frame_shape_push (A : Array Cell) (p : Nat) (c : Cell) (sh : Shape)
    (hc : (∃ f r, c = .frame f r ∧ sh = ⟨.frame 0 0, [.jumpPoint p], [f, r]⟩) ∨
          (∃ f, c = .frameIndex f ∧ sh = ⟨.frameIndex 0, [.jumpPoint p], [f]⟩) ∨
          (∃ r, c = .frameRegister r ∧ sh = ⟨.frameRegister 0, [.jumpPoint p], [r]⟩) ∨
          (c = .frameRoot ∧ sh = ⟨.frameRoot, [.jumpPoint p], []⟩)) :
    shape ((A.push (.jumpPoint p)).push c) (A.size + 1) = some sh := by
  rcases hc with ⟨f, r, rfl, rfl⟩ | ⟨f, rfl, rfl⟩ | ⟨r, rfl, rfl⟩ | ⟨rfl, rfl⟩
  all_goals unfold shape
  all_goals rw [get_push2]
  all_goals simp [framePoint_push2]

/-- `push_frame` keeps `WF` -/
theorem pushFrame_wf {s s' : Store} {ret : Nat} (hwf : WF s) (h : Store.pushFrame s ret = .ok s') : WF s' := by
  simp only [Store.pushFrame, bind_eq_ok, pure_eq_ok] at h
  obtain ⟨⟨s1, i0⟩, hp1, ⟨s2, i⟩, hp2, hs'⟩ := h
  subst hs'
  obtain ⟨_, hc1, hf1⟩ := push_ok hp1
  obtain ⟨hi2, hc2, hf2⟩ := push_ok hp2
  have hf := hf1.trans hf2
  have hsz1 : s1.cells.size = s.cells.size + 1 := by rw [hc1]; simp
  -- the frame cell and its shape, by the four combinations of heads
  have key : ∃ c sh, s2.cells = (s.cells.push (.jumpPoint ret)).push c ∧
      shape ((s.cells.push (.jumpPoint ret)).push c) (s.cells.size + 1) = some sh ∧
      (∀ k ∈ sh.kids, k < s.cells.size ∧ isNode s.cells k = true) ∧
      (∀ (cells : Array Cell) (j : Nat), cells[j]? = some c → listOK cells j = true ∧ headerOK cells j = true) := by
    have hfr := hwf.frm
    have hrg := hwf.reg
    rw [hf1.2.2.2.2.2, hf1.2.2.2.2.1] at hc2
    cases hcf : s.currentFrame with
    | none =>
      cases hcr : s.currentRegister with
      | none =>
        rw [hcf, hcr] at hc2
        exact ⟨_, _, by rw [hc2, hc1], frame_shape_push _ _ _ _ (Or.inr (Or.inr (Or.inr ⟨rfl, rfl⟩))),
          by intro k hk; simp at hk, by intro cells j h; simp [listOK, headerOK, h]⟩
      | some r =>
        rw [hcf, hcr] at hc2
        rw [hcr] at hrg
        exact ⟨_, _, by rw [hc2, hc1], frame_shape_push _ _ _ _ (Or.inr (Or.inr (Or.inl ⟨r, rfl, rfl⟩))),
          by intro k hk; simp at hk; subst hk; exact ⟨head_lt hrg, hrg⟩,
          by intro cells j h; simp [listOK, headerOK, h]⟩
    | some f =>
      rw [hcf] at hfr
      cases hcr : s.currentRegister with
      | none =>
        rw [hcf, hcr] at hc2
        exact ⟨_, _, by rw [hc2, hc1], frame_shape_push _ _ _ _ (Or.inr (Or.inl ⟨f, rfl, rfl⟩)),
          by intro k hk; simp at hk; subst hk; exact ⟨head_lt hfr, hfr⟩,
          by intro cells j h; simp [listOK, headerOK, h]⟩
      | some r =>
        rw [hcf, hcr] at hc2
        rw [hcr] at hrg
        exact ⟨_, _, by rw [hc2, hc1], frame_shape_push _ _ _ _ (Or.inl ⟨f, r, rfl, rfl⟩),
          by intro k hk
             simp at hk
             rcases hk with rfl | rfl
             · exact ⟨head_lt hfr, hfr⟩
             · exact ⟨head_lt hrg, hrg⟩,
          by intro cells j h; simp [listOK, headerOK, h]⟩
  obtain ⟨c, sh, hcells2, hshape, hkids, hplain⟩ := key
  have hcells : s2.cells = s.cells ++ #[.jumpPoint ret, c] := by rw [hcells2]; apply Array.ext'; simp
  have hi : i = s.cells.size + 1 := by rw [hi2, hsz1]
  have hnodeNew : isNode s2.cells (s.cells.size + 1) = true := by rw [hcells2]; simp [isNode, hshape]
  have hwf2 : WF s2 := by
    refine append_wf _ hwf hcells hf.1 hf.2.2.1 ?_ ?_ ?_ ?_
    · intro j hj1 hj2
      have hsz : s2.cells.size = s.cells.size + 2 := by rw [hcells]; simp
      by_cases hj : j = s.cells.size
      · subst hj
        have hget : s2.cells[s.cells.size]? = some (.jumpPoint ret) := by
          rw [hcells2, Array.getElem?_push]; simp
        have hsh : shape s2.cells s.cells.size = some ⟨.jumpPoint ret, [], []⟩ := shape_of_solo hget rfl
        exact ⟨by simp [nodeOK, hsh], by simp [listOK, hget], by simp [headerOK, hget]⟩
      · have hj' : j = s.cells.size + 1 := by omega
        subst hj'
        have hget : s2.cells[s.cells.size + 1]? = some c := by rw [hcells2]; exact get_push2 _ _ _
        refine ⟨?_, ?_, ?_⟩
        · rw [hcells2]
          simp only [nodeOK, hshape, List.all_eq_true, Bool.and_eq_true, decide_eq_true_eq]
          intro k hk
          obtain ⟨h1, h2⟩ := hkids k hk
          refine ⟨by omega, ?_⟩
          rw [← hcells2, hcells, isNode_append _ _ hwf.headers h1]; exact h2
        · exact (hplain _ _ hget).1
        · exact (hplain _ _ hget).2
    · rw [hf.2.2.2.2.1, hcells]; exact headOK_append hwf _ hwf.reg
    · rw [hf.2.2.2.1, hcells]; exact headOK_append hwf _ hwf.val
    · rw [hf.2.2.2.2.2, hcells]; exact headOK_append hwf _ hwf.frm
  exact hwf2.withHeads _ _ _ hwf2.reg hwf2.val (by rw [hi]; exact hnodeNew)

end Garnish.BasicOpt
