/-
C18, wrapping an operand: two invariants of the reference parser`s run that turn the run-based hypotheses `openB` / `acc` of
`WrapOK` (Lemmas/RefWrap2) into conditions on the tokens:
  * after an operator / opener / separator (last item not a complete operand) the bottom of the right spine is an open
    operand position (`openBottom`);
  * that position is the Property position of `.` only if the last token that is not trivia / separator is a `.`
    (`prevAccess`).
-/
import Garnish.Lemmas.RefWrap2

namespace Garnish.Spec
open Garnish Garnish.Gen Garnish.Model.Parser

/-! ### trees -/

theorem absorb_isNil (tbl : Table) (q : Nat) (rtl : Bool) (d : Definition) (k : Nat) (t t' : RTree)
    (h : absorb tbl q rtl d k t = some t') : t'.isNil = false := by
  cases t with
  | nil => cases h
  | group _ _ _ => cases h
  | node l a ka r =>
    simp only [absorb] at h
    split at h
    · cases h; rfl
    · split at h
      · split at h
        · cases h; rfl
        · cases h
      · cases h

theorem openBottom_absorb (tbl : Table) (q : Nat) (rtl : Bool) (d : Definition) (k : Nat) :
    ∀ (t t' : RTree), absorb tbl q rtl d k t = some t' → openBottom t' = true ∧ accessBottom t' = (d == .access)
  | .nil, _, h => by cases h
  | .group _ _ _, _, h => by cases h
  | .node l a ka r, t', h => by
    simp only [absorb] at h
    cases h1 : absorb tbl q rtl d k r with
    | some r' =>
      rw [h1] at h; cases h
      have ih := openBottom_absorb tbl q rtl d k r r' h1
      have hn : r'.isNil = false := absorb_isNil tbl q rtl d k r r' h1
      simp only [openBottom, accessBottom, hn, Bool.false_eq_true, if_false]
      exact ih
    | none =>
      rw [h1] at h
      cases hp : tbl.prio a with
      | none => rw [hp] at h; cases h
      | some pa =>
        rw [hp] at h
        simp only at h
        split at h
        · cases h
          simp [openBottom, accessBottom, RTree.isNil]
        · cases h

theorem attach_bottom (tbl : Table) (q : Nat) (rtl : Bool) (d : Definition) (k : Nat) (t : RTree) :
    openBottom (attach tbl q rtl d k t) = true ∧ accessBottom (attach tbl q rtl d k t) = (d == .access) := by
  unfold attach
  cases h : absorb tbl q rtl d k t with
  | some t' => exact openBottom_absorb tbl q rtl d k t t' h
  | none => simp [openBottom, accessBottom, RTree.isNil]

theorem plug_open_leaf (d : Definition) (k : Nat) : ∀ R : RTree, openBottom R = true →
    openBottom (plug R (.node .nil d k .nil)) = true
  | .nil, _ => by simp [plug, openBottom, RTree.isNil]
  | .group _ _ _, h => by simp [openBottom] at h
  | .node l a ka r, h => by
    simp only [plug]
    split
    · simp only [openBottom]
      have : ∀ x, (asProperty (.node .nil d k .nil) = x) → x.isNil = false ∧ openBottom x = true := by
        intro x hx
        unfold asProperty at hx
        split at hx <;> (subst hx; simp [RTree.isNil, openBottom])
      split
      · obtain ⟨h1, h2⟩ := this _ rfl
        simp [h1, h2]
      · simp [RTree.isNil, openBottom]
    · rename_i hn
      simp only [openBottom, hn, if_false] at h
      have ih := plug_open_leaf d k r h
      have hn' : (plug r (.node .nil d k .nil)).isNil = false := by
        cases r with
        | nil => simp [RTree.isNil] at hn
        | node _ _ _ _ => simp only [plug]; split <;> rfl
        | group _ _ _ => rfl
      simp only [openBottom, hn', Bool.false_eq_true, if_false]
      exact ih

theorem plug_access : ∀ (R X : RTree), X.isNil = false → accessBottom (plug R X) = true →
    accessBottom X = true ∨ accessBottom (asProperty X) = true
  | .nil, X, _, h => Or.inl h
  | .group _ _ _, _, _, h => by simp [plug, accessBottom] at h
  | .node l a ka r, X, hX, h => by
    simp only [plug] at h
    split at h
    · split at h
      · have hn : (asProperty X).isNil = false := by
          unfold asProperty; split
          · rfl
          · exact hX
        simp only [accessBottom, hn, Bool.false_eq_true, if_false] at h
        exact Or.inr h
      · simp only [accessBottom, hX, Bool.false_eq_true, if_false] at h
        exact Or.inl h
    · rename_i hn
      have hn' : (plug r X).isNil = false := by
        cases r with
        | nil => simp [RTree.isNil] at hn
        | node _ _ _ _ => simp only [plug]; split <;> rfl
        | group _ _ _ => rfl
      simp only [accessBottom, hn', Bool.false_eq_true, if_false] at h
      exact plug_access r X hX h

/-! ### the run -/

def isSkipSec (s : SecDef) : Bool := s == .annotation || s == .whitespace || s == .subexpression

/-- the last token that is not trivia / separator is a `.` -/
def accState (b : Bool) (t : PToken) : Bool :=
  if isSkipSec (getDefinition t.type).2 then b else (getDefinition t.type).1 == .access

def prevAccess (pre : List PToken) : Bool := pre.foldl accState false

structure RInv (b : Bool) (f : Frame) : Prop where
  opn : f.last = .operand ∨ f.last = .suffix ∨ openBottom f.cur = true
  acc : accessBottom f.cur = true → b = true

theorem sep_not_access (tt : TokenType) (h : (getDefinition tt).2 = .subexpression) :
    ((getDefinition tt).1 == Definition.access) = false := by
  cases tt <;> simp [getDefinition] at h ⊢

theorem beforeOperand_rinv {b : Bool} {f g : Frame} {pos : Nat} (hf : RInv b f)
    (h : beforeOperand Table.gen f pos = .ok g) : openBottom g.cur = true ∧ (accessBottom g.cur = true → b = true) := by
  unfold beforeOperand at h
  cases hl : f.last <;> rw [hl] at h <;> simp only at h
  · cases h
    rcases hf.opn with h1 | h1 | h1
    · rw [hl] at h1; cases h1
    · rw [hl] at h1; cases h1
    · exact ⟨h1, hf.acc⟩
  · split at h
    · cases hq : Table.gen.prio .list with
      | none => rw [hq] at h; cases h
      | some q =>
        rw [hq] at h; cases h
        have := attach_bottom Table.gen q false .list (pos - 1) f.cur
        exact ⟨this.1, fun ha => by rw [this.2] at ha; cases ha⟩
    · cases h
  · cases h
  all_goals
    cases h
    rcases hf.opn with h1 | h1 | h1
    · rw [hl] at h1; cases h1
    · rw [hl] at h1; cases h1
    · exact ⟨h1, hf.acc⟩

theorem refStep_rinv {b : Bool} {f f' : Frame} {stack stack' : List Frame} {pos : Nat} {t : PToken} {rest : List PToken}
    (hf : RInv b f) (h : refStep Table.gen f stack pos t rest = .ok (f', stack')) : RInv (accState b t) f' := by
  unfold accState
  unfold refStep at h
  have hd : Table.gen.define t.type = getDefinition t.type := rfl
  rw [hd] at h
  have hsep := sep_not_access t.type
  generalize getDefinition t.type = ds at h hsep
  obtain ⟨d, s⟩ := ds
  simp only at hsep ⊢
  have leafacc : ∀ (R : RTree) (k : Nat), accessBottom (plug R (.node .nil d k .nil)) = true → (d == .access) = true := by
    intro R k ha
    rcases plug_access R _ rfl ha with e | e
    · simpa [accessBottom, RTree.isNil] using e
    · unfold asProperty at e
      split at e
      · simp [accessBottom, RTree.isNil] at e
      · simpa [accessBottom, RTree.isNil] using e
  cases s with
  | none => cases h
  | startSideEffect => cases h
  | endSideEffect => cases h
  | annotation => simp only at h; cases h; exact ⟨hf.opn, hf.acc⟩
  | whitespace => simp only at h; cases h; exact ⟨hf.opn, hf.acc⟩
  | value | identifier =>
    simp only at h
    split at h
    · cases h
    · cases hb : beforeOperand Table.gen f pos with
      | ok g =>
        rw [hb] at h; simp only [Outcome.bind] at h; cases h
        exact ⟨Or.inl rfl, fun ha => by simpa [isSkipSec] using leafacc _ _ ha⟩
      | err _ => rw [hb] at h; cases h
      | panic _ => rw [hb] at h; cases h
      | fuelOut => rw [hb] at h; cases h
  | unaryPrefix =>
    simp only at h
    cases hb : beforeOperand Table.gen f pos with
    | ok g =>
      rw [hb] at h; simp only [Outcome.bind] at h; cases h
      have hg := beforeOperand_rinv hf hb
      exact ⟨Or.inr (Or.inr (plug_open_leaf d pos g.cur hg.1)), fun ha => by simpa [isSkipSec] using leafacc _ _ ha⟩
    | err _ => rw [hb] at h; cases h
    | panic _ => rw [hb] at h; cases h
    | fuelOut => rw [hb] at h; cases h
  | startGrouping =>
    simp only at h
    cases hb : beforeOperand Table.gen f pos with
    | ok g =>
      rw [hb] at h; simp only [Outcome.bind] at h; cases h
      exact ⟨Or.inr (Or.inr rfl), fun ha => by simp [accessBottom] at ha⟩
    | err _ => rw [hb] at h; cases h
    | panic _ => rw [hb] at h; cases h
    | fuelOut => rw [hb] at h; cases h
  | binaryLeftToRight | binaryRightToLeft | optionalBinaryLeftToRight | unarySuffix =>
    simp only at h
    cases hq : Table.gen.prio d with
    | none => rw [hq] at h; cases h
    | some q =>
      rw [hq] at h; simp only at h
      split at h
      · cases h
      · cases h
        have hab := fun rtl => attach_bottom Table.gen q rtl d pos f.cur
        exact ⟨Or.inr (Or.inr (hab _).1), fun ha => by rw [(hab _).2] at ha; simpa [isSkipSec] using ha⟩
  | endGrouping =>
    simp only at h
    cases hctx : f.ctx with
    | none => rw [hctx] at h; cases h
    | some gp =>
      obtain ⟨gd, gpos⟩ := gp
      rw [hctx] at h
      cases stack with
      | nil => cases h
      | cons parent st =>
        simp only at h
        split at h
        · cases h
        · split at h
          · cases h
          · cases h
            refine ⟨Or.inl rfl, fun ha => ?_⟩
            rcases plug_access parent.cur _ rfl ha with e | e <;> simp [accessBottom, asProperty] at e
  | subexpression =>
    simp only at h
    split at h
    · cases h; exact ⟨hf.opn, by simpa [isSkipSec] using hf.acc⟩
    · split at h
      · cases h; exact ⟨hf.opn, by simpa [isSkipSec] using hf.acc⟩
      · split at h
        · cases h
        · cases hq : Table.gen.prio d with
          | none => rw [hq] at h; cases h
          | some q =>
            rw [hq] at h; cases h
            have := attach_bottom Table.gen q false d pos f.cur
            refine ⟨Or.inr (Or.inr this.1), fun ha => ?_⟩
            rw [this.2, hsep rfl] at ha; cases ha

theorem refRun_rinv : ∀ (ts : List PToken) (b : Bool) (f : Frame) (stack : List Frame) (pos : Nat) (rest : List PToken)
    (f' : Frame) (stack' : List Frame), RInv b f → refRun Table.gen f stack pos ts rest = .ok (f', stack') →
    RInv (ts.foldl accState b) f'
  | [], _, _, _, _, _, _, _, hf, h => by simp only [refRun] at h; cases h; exact hf
  | t :: ts, b, f, stack, pos, rest, f', stack', hf, h => by
    simp only [refRun] at h
    cases hs : refStep Table.gen f stack pos t (ts ++ rest) with
    | ok fs =>
      obtain ⟨f1, s1⟩ := fs
      rw [hs] at h
      simp only [Outcome.bind] at h
      exact refRun_rinv ts _ f1 s1 (pos + 1) rest f' stack' (refStep_rinv hf hs) h
    | err _ => rw [hs] at h; cases h
    | panic _ => rw [hs] at h; cases h
    | fuelOut => rw [hs] at h; cases h

theorem rinv_top : RInv false Frame.top := ⟨Or.inr (Or.inr rfl), fun h => by simp [Frame.top, accessBottom] at h⟩

end Garnish.Spec
