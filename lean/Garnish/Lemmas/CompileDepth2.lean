/-
C06 static half on compiled code, part 2: vocabulary for "the ghost depths are a consistent assignment".
`EdgeOK sF pc`: in the final layout state `sF` the instruction at `pc`, entered at its ghost depth, finds its
operands, and each of its edges leads to an instruction whose ghost depth is the one the edge carries.
Plus: what the edges of each kind of instruction are, and the depth at which a pushed instruction is entered.
-/
import Garnish.Lemmas.CompileDepth
import Garnish.Lemmas.CompileDepthInfer
namespace Garnish.Abs
open Garnish Gen Garnish.Spec Garnish.Props.C06

variable {F : Type}

def EdgeOK (sF : LState F) (pc : Nat) : Prop :=
  ∃ k es, sF.depths[pc]? = some k ∧ edges sF.toProg pc k = some es ∧
    ∀ e ∈ es, sF.instrs.size ≤ e.1 ∨ sF.depths[e.1]? = some e.2

/-- the pending root `r` starts at depth `dr` -/
def RootD (sF : LState F) (r : Root F) (dr : Nat) : Prop :=
  ∀ tb, sF.jumps[r.patch]? = some tb → sF.instrs.size ≤ tb ∨ sF.depths[tb]? = some dr

/-- depths aligned with instructions -/
def Al (s : LState F) : Prop := s.depths.size = s.instrs.size

theorem depth_at {t sM sF : LState F} {i : Instruction} {d : Option Nat} (hal : Al t)
    (h1 : AppD (t.push i d) sM) (h2 : AppD sM sF) : sF.depths[t.instrs.size]? = some t.dep := by
  have hal' : t.depths.size = t.instrs.size := hal
  have k : t.instrs.size < (t.push i d).depths.size := by simp; omega
  have := h1.dsize
  rw [h2.depths _ (by omega), h1.depths _ k]
  simp [LState.push, ← hal']

theorem depth_at_const {t sM sF : LState F} {i : Instruction} {v : Val F} (hal : Al t)
    (h1 : AppD (t.pushConst i v) sM) (h2 : AppD sM sF) : sF.depths[t.instrs.size]? = some t.dep := by
  have hal' : t.depths.size = t.instrs.size := hal
  have k : t.instrs.size < (t.pushConst i v).depths.size := by simp; omega
  have := h1.dsize
  rw [h2.depths _ (by omega), h1.depths _ k]
  simp [LState.pushConst, ← hal']

/-! ### the edges of each kind of instruction -/
section edges
variable {P : Prog F} {pc k : Nat} {o : Option Nat}

theorem edges_push1 {i : Instruction} (hi : P.instrs[pc]? = some (i, o)) (h : i = .put ∨ i = .putValue ∨ i = .resolve) :
    edges P pc k = some [(pc + 1, k + 1)] := by
  rcases h with rfl | rfl | rfl <;> simp [edges, hi]

theorem edges_un {op : Instruction} (hi : P.instrs[pc]? = some (op, o)) (hu : unOK op = true) :
    edges P pc (k + 1) = some [(pc + 1, k + 1)] := by
  cases op <;> simp [unOK] at hu <;> simp [edges, hi, isUnaryOp]

theorem edges_bin {op : Instruction} (hi : P.instrs[pc]? = some (op, o)) (hb : binOK op = true) :
    edges P pc (k + 2) = some [(pc + 1, k + 1)] ∨ edges P pc (k + 2) = some [] := by
  cases op <;> simp [binOK] at hb <;> simp [edges, hi, isUnaryOp, isBinaryOp]

theorem edges_makePair (hi : P.instrs[pc]? = some (.makePair, o)) : edges P pc (k + 2) = some [(pc + 1, k + 1)] := by
  simp [edges, hi]

theorem edges_apply (hi : P.instrs[pc]? = some (.apply, o)) : edges P pc (k + 2) = some [(pc + 1, k + 1)] := by
  simp [edges, hi]

theorem edges_pop1 {i : Instruction} (hi : P.instrs[pc]? = some (i, o))
    (h : i = .updateValue ∨ i = .endSideEffect ∨ i = .pushValue) : edges P pc (k + 1) = some [(pc + 1, k)] := by
  rcases h with rfl | rfl | rfl <;> simp [edges, hi]

theorem edges_startSE (hi : P.instrs[pc]? = some (.startSideEffect, o)) : edges P pc k = some [(pc + 1, k)] := by
  simp [edges, hi]

theorem edges_makeList {n : Nat} (hi : P.instrs[pc]? = some (.makeList, some n)) :
    edges P pc (k + n) = some [(pc + 1, k + 1)] := by
  simp [edges, hi]

theorem edges_jumpTo {j t : Nat} (hi : P.instrs[pc]? = some (.jumpTo, some j)) (hj : P.jumps[j]? = some t) :
    edges P pc k = some [(t, k)] := by
  simp [edges, hi, hj]

theorem edges_jumpIf {b : Bool} {j t : Nat} (hi : P.instrs[pc]? = some (jumpIf b, some j)) (hj : P.jumps[j]? = some t) :
    edges P pc (k + 1) = some [(t, k), (pc + 1, k)] := by
  cases b <;> simp [jumpIf] at hi <;> simp [edges, hi, hj]

theorem edges_logical {i : Instruction} {j t : Nat} (hi : P.instrs[pc]? = some (i, some j)) (h : i = .and ∨ i = .or)
    (hj : P.jumps[j]? = some t) : edges P pc (k + 1) = some [(t, k), (pc + 1, k + 1)] := by
  rcases h with rfl | rfl <;> simp [edges, hi, hj]

theorem edges_end (hi : P.instrs[pc]? = some (.endExpression, o)) : edges P pc 1 = some [] := by
  simp [edges, hi]

end edges

/-- both halves of "only appended": the layout facts (`Pre`) and the ghost depths (`AppD`) -/
structure Pre2 (s s' : LState F) : Prop where
  pre : Pre s s'
  app : AppD s s'

theorem Pre2.refl (s : LState F) : Pre2 s s := ⟨.refl s, .refl s⟩
theorem Pre2.trans {a b c : LState F} (h1 : Pre2 a b) (h2 : Pre2 b c) : Pre2 a c := ⟨h1.pre.trans h2.pre, h1.app.trans h2.app⟩
theorem Pre2.push (s : LState F) (i : Instruction) (d : Option Nat) : Pre2 s (s.push i d) := ⟨.push s i d, .push s i d⟩
theorem Pre2.pushConst (s : LState F) (i : Instruction) (v : Val F) : Pre2 s (s.pushConst i v) :=
  ⟨.pushConst s i v, .pushConst s i v⟩
theorem Pre2.pushJump (s : LState F) (t : Nat) : Pre2 s (s.pushJump t) := ⟨.pushJump s t, .pushJump s t⟩

/-- `sM` comes after the end `t'` of an emission (see `Within`), ghost depths included -/
structure W2 (lo : Nat) (t' sM : LState F) : Prop where
  w : Within lo t' sM []
  app : AppD t' sM

theorem W2.pre {lo : Nat} {a b sM : LState F} (h : W2 lo b sM) (p : Pre2 a b) : W2 lo a sM :=
  ⟨h.w.pre p.pre, p.app.trans h.app⟩

theorem W2.mono {lo lo' : Nat} {a sM : LState F} (h : W2 lo a sM) (hl : lo ≤ lo') : W2 lo' a sM := ⟨h.w.mono hl, h.app⟩

theorem emit_pre2 (root cur : Nat) (e : Expr F) (s : LState F) (hc : cur < s.jumps.size) (hw : wfE e = true) :
    Pre2 s (emit root cur e s) := ⟨(emit_pre root cur e s hc).1, (emit_dep root cur e s hw).1.app⟩

theorem Al.emit {root cur : Nat} {e : Expr F} {s : LState F} (hal : Al s) (hc : cur < s.jumps.size) (hw : wfE e = true) :
    Al (emit root cur e s) := by
  have h1 := (emit_pre root cur e s hc).2
  have h2 := (emit_dep root cur e s hw).1.dsize
  simp only [Al] at hal ⊢
  omega

theorem Al.push {s : LState F} (hal : Al s) (i : Instruction) (d : Option Nat) : Al (s.push i d) := by
  simp only [Al] at hal ⊢; simp [hal]

theorem Al.pushConst {s : LState F} (hal : Al s) (i : Instruction) (v : Val F) : Al (s.pushConst i v) := by
  simp only [Al] at hal ⊢; simp [hal]

theorem Al.pushJump {s : LState F} (hal : Al s) (t : Nat) : Al (s.pushJump t) := hal

end Garnish.Abs
