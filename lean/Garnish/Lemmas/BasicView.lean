/-
The getters of `basicView` one at a time, their monotonicity (every answer survives when the cells that are not
input-value cells are kept: appending cells, overwriting an input-value cell), and the stack readers under appended
cells.
-/
import Garnish.Model.Runtime.BasicStore
import Garnish.Lemmas.RuntimeMono
import Garnish.Lemmas.MutWF
set_option linter.unusedSimpArgs false
namespace Garnish.Lemmas.Runtime.Basic
open Garnish Gen Garnish.Model.Equality Garnish.Model.Runtime Garnish.Model.Runtime.Basic Garnish.BasicOpt
open Garnish.Lemmas.Runtime

variable {F : Type} (numOf : Nat → Number F)

theorem bv_typeOf (cells : Array Cell) (a : Nat) : (basicView numOf cells).typeOf a = (cells[a]?).bind cellTy := rfl
theorem bv_number (cells : Array Cell) (a : Nat) :
    (basicView numOf cells).number a = match cells[a]? with | some (.number n) => some (numOf n) | _ => none := rfl
theorem bv_char (cells : Array Cell) (a : Nat) :
    (basicView numOf cells).char a = match cells[a]? with | some (.char c) => some c | _ => none := rfl
theorem bv_byte (cells : Array Cell) (a : Nat) :
    (basicView numOf cells).byte a = match cells[a]? with | some (.byte b) => some b | _ => none := rfl
theorem bv_symbol (cells : Array Cell) (a : Nat) :
    (basicView numOf cells).symbol a = match cells[a]? with | some (.symbol s) => some s | _ => none := rfl
theorem bv_expression (cells : Array Cell) (a : Nat) :
    (basicView numOf cells).expression a = match cells[a]? with | some (.expression e) => some e | _ => none := rfl
theorem bv_external (cells : Array Cell) (a : Nat) :
    (basicView numOf cells).external a = match cells[a]? with | some (.external e) => some e | _ => none := rfl
theorem bv_type_ (cells : Array Cell) (a : Nat) :
    (basicView numOf cells).type_ a = match cells[a]? with | some (.type t) => some t | _ => none := rfl
theorem bv_pair (cells : Array Cell) (a : Nat) :
    (basicView numOf cells).pair a = match cells[a]? with | some (.pair l r) => some (l, r) | _ => none := rfl
theorem bv_range (cells : Array Cell) (a : Nat) :
    (basicView numOf cells).range a = match cells[a]? with | some (.range l r) => some (l, r) | _ => none := rfl
theorem bv_concatenation (cells : Array Cell) (a : Nat) :
    (basicView numOf cells).concatenation a = match cells[a]? with | some (.concatenation l r) => some (l, r) | _ => none := rfl
theorem bv_slice (cells : Array Cell) (a : Nat) :
    (basicView numOf cells).slice a = match cells[a]? with | some (.slice l r) => some (l, r) | _ => none := rfl
theorem bv_partial_ (cells : Array Cell) (a : Nat) :
    (basicView numOf cells).partial_ a = match cells[a]? with | some (.partial_ l r) => some (l, r) | _ => none := rfl
theorem bv_listItems (cells : Array Cell) (a : Nat) :
    (basicView numOf cells).listItems a = match cells[a]? with | some (.list n _) => listItems cells (a + 1) n | _ => none := rfl
theorem bv_concatItems (cells : Array Cell) (a : Nat) :
    (basicView numOf cells).concatItems a =
      match cells[a]? with
      | some (.concatenation l r) =>
        if l < a ∧ r < a then
          match flatB cells a l, flatB cells a r with
          | some x, some y => some (x ++ y)
          | _, _ => none
        else none
      | _ => none := rfl
theorem bv_chars (cells : Array Cell) (a : Nat) :
    (basicView numOf cells).chars a = match cells[a]? with
      | some (.charList n) => (inlineCells cells isChar (a + 1) n).map (·.map charCode) | _ => none := rfl
theorem bv_bytes (cells : Array Cell) (a : Nat) :
    (basicView numOf cells).bytes a = match cells[a]? with
      | some (.byteList n) => (inlineCells cells isByte (a + 1) n).map (·.map charCode) | _ => none := rfl
theorem bv_symList (cells : Array Cell) (a : Nat) :
    (basicView numOf cells).symList a = match cells[a]? with
      | some (.symbolList n) => (inlineCells cells isSymPart (a + 1) n).map (·.map (symPartOf numOf)) | _ => none := rfl

theorem cellTy_nsv {c : Cell} {t : Ty} (h : cellTy c = some t) : isSV c = false := by
  cases c <;> simp [cellTy] at h <;> rfl

/-- `flatB` answers the same when the cells that are not input-value cells are kept -/
theorem flatB_agree {cells cells' : Array Cell} (hag : AgreeNS cells cells') :
    ∀ (fuel a : Nat) (x : List Nat), flatB cells fuel a = some x → flatB cells' fuel a = some x
  | 0, _, _, h => by simp [flatB] at h
  | fuel + 1, a, x, h => by
    simp only [flatB] at h ⊢
    cases hc : cells[a]? with
    | none => simp [hc] at h
    | some c =>
      rw [hc] at h
      by_cases hsv : isSV c = true
      · cases c <;> simp [isSV] at hsv <;> simp [cellTy] at h
      · have hc' : cells'[a]? = some c := hag a c hc (by simpa using hsv)
        rw [hc']
        cases c <;> simp only [] at h ⊢ <;> try exact h
        · exact listItems_agreeS hag _ _ _ h
        · rename_i l r
          split at h
          · rename_i hlt
            rw [if_pos hlt]
            cases h1 : flatB cells fuel l with
            | none => simp [h1] at h
            | some x1 =>
              cases h2 : flatB cells fuel r with
              | none => simp [h1, h2] at h
              | some x2 =>
                rw [flatB_agree hag fuel l x1 h1, flatB_agree hag fuel r x2 h2]
                simpa [h1, h2] using h
          · cases h

/-- **every answer of every getter is kept** when the cells that are not input-value cells are kept -/
theorem basicView_le {cells cells' : Array Cell} (hag : AgreeNS cells cells') :
    ViewLe (basicView numOf cells) (basicView numOf cells') := by
  have key : ∀ a c, cells[a]? = some c → isSV c = false → cells'[a]? = some c := hag
  constructor
  all_goals intro a x h
  all_goals (
    cases hc : cells[a]? with
    | none => simp [bv_typeOf, bv_number, bv_char, bv_byte, bv_symbol, bv_expression, bv_external, bv_type_, bv_pair,
        bv_range, bv_concatenation, bv_slice, bv_partial_, bv_listItems, bv_concatItems, bv_chars, bv_bytes,
        bv_symList, hc] at h
    | some c =>
      by_cases hsv : isSV c = true
      · cases c <;> simp [isSV] at hsv <;>
          simp [bv_typeOf, bv_number, bv_char, bv_byte, bv_symbol, bv_expression, bv_external, bv_type_, bv_pair,
            bv_range, bv_concatenation, bv_slice, bv_partial_, bv_listItems, bv_concatItems, bv_chars, bv_bytes,
            bv_symList, hc, cellTy] at h
      · have hc' := key a c hc (by simpa using hsv)
        simp only [bv_typeOf, bv_number, bv_char, bv_byte, bv_symbol, bv_expression, bv_external, bv_type_, bv_pair,
          bv_range, bv_concatenation, bv_slice, bv_partial_, bv_listItems, bv_concatItems, bv_chars, bv_bytes,
          bv_symList, hc, hc'] at h ⊢
        first
          | exact h
          | (cases c <;> simp only [] at h ⊢ <;> first
              | exact h
              | exact listItems_agreeS hag _ _ _ h
              | (simp only [Option.map_eq_some_iff] at h ⊢
                 obtain ⟨l, hl, rfl⟩ := h
                 exact ⟨l, inlineCells_agreeS hag _ (by intro c hc; cases c <;> simp [isChar, isByte, isSymPart] at hc <;> rfl) _ _ _ hl, rfl⟩)
              | (rename_i l r
                 split at h
                 · rename_i hlt
                   rw [if_pos hlt]
                   cases h1 : flatB cells a l with
                   | none => simp [h1] at h
                   | some x1 =>
                     cases h2 : flatB cells a r with
                     | none => simp [h1, h2] at h
                     | some x2 =>
                       rw [flatB_agree hag a l x1 h1, flatB_agree hag a r x2 h2]
                       simpa [h1, h2] using h
                 · cases h)))

/-- keeping every cell (appending) -/
def Sub (cells cells' : Array Cell) : Prop := ∀ (i : Nat) (c : Cell), cells[i]? = some c → cells'[i]? = some c

theorem Sub.agreeNS {cells cells' : Array Cell} (h : Sub cells cells') : AgreeNS cells cells' :=
  fun i c hc _ => h i c hc

theorem sub_append (A B : Array Cell) : Sub A (A ++ B) := by
  intro i c hc
  have hi : i < A.size := by
    rcases Nat.lt_or_ge i A.size with h | h
    · exact h
    · rw [Array.getElem?_eq_none h] at hc; cases hc
  rw [getElem?_append_old A B hi]; exact hc

theorem Sub.get {cells cells' : Array Cell} (h : Sub cells cells') {a : Nat} (ha : a < cells.size) :
    cells'[a]? = cells[a]? := by
  obtain ⟨c, hc⟩ : ∃ c, cells[a]? = some c := ⟨cells[a], by simp [ha]⟩
  rw [hc]; exact h a c hc

theorem regChain_sub {cells cells' : Array Cell} (h : Sub cells cells') :
    ∀ (fuel a : Nat), a < cells.size → regChain cells' fuel a = regChain cells fuel a
  | 0, _, _ => rfl
  | fuel + 1, a, ha => by
    simp only [regChain, h.get ha]
    cases cells[a]? with
    | none => rfl
    | some c =>
      cases c <;> try rfl
      rename_i p v
      simp only
      by_cases hp : p < a
      · simp only [hp, if_true]; rw [regChain_sub h fuel p (by omega)]
      · simp [hp]

theorem valChain_sub {cells cells' : Array Cell} (h : Sub cells cells') :
    ∀ (fuel a : Nat), a < cells.size → valChain cells' fuel a = valChain cells fuel a
  | 0, _, _ => rfl
  | fuel + 1, a, ha => by
    simp only [valChain, h.get ha]
    cases cells[a]? with
    | none => rfl
    | some c =>
      cases c <;> try rfl
      rename_i p v
      simp only
      by_cases hp : p < a
      · simp only [hp, if_true]; rw [valChain_sub h fuel p (by omega)]
      · simp [hp]

theorem head_lt_of_headOK {cells : Array Cell} {a : Nat} (h : headOK cells (some a) = true) : a < cells.size :=
  node_lt h

theorem regsOf_sub {cells cells' : Array Cell} (h : Sub cells cells') {o : Option Nat}
    (ho : ∀ a, o = some a → a < cells.size) : regsOf cells' o = regsOf cells o := by
  cases o with
  | none => rfl
  | some a => exact regChain_sub h _ a (ho a rfl)

theorem valsOf_sub {cells cells' : Array Cell} (h : Sub cells cells') {o : Option Nat}
    (ho : ∀ a, o = some a → a < cells.size) : valsOf cells' o = valsOf cells o := by
  cases o with
  | none => rfl
  | some a => exact valChain_sub h _ a (ho a rfl)

theorem retOf_sub {cells cells' : Array Cell} (h : Sub cells cells') {a : Nat} (ha : a < cells.size) :
    retOf cells' a = retOf cells a := by
  cases a with
  | zero => rfl
  | succ i => simp only [retOf, h.get (by omega : i < cells.size)]

end Garnish.Lemmas.Runtime.Basic
