/-
C04, builder half — the order of the out-of-line parts, part 18: `handle_parse_node` and the two loops.
-/
import Garnish.Lemmas.BuildLifo17
namespace Garnish.Lemmas.BuildSeq
open Garnish Garnish.Gen Garnish.Model.Parser Garnish.Model.Literals Garnish.Model.Build Garnish.Lemmas.Build
open Garnish.Lemmas.BuildTotal
open Garnish.Lemmas.BuildOrder (Above Attr toList_nil_of_back_none pushEndInstructions_meta_none)
open Garnish.Lemmas.BuildAttr (getNode_sat_eq setNodeIdx_sat_eq AddMeta addUnit_meta addFalse_meta addTrue_meta
  parseAddSymbolText_meta noOperand_meta parseAddNumber_meta parseAddCharList_meta parseAddByteList_meta
  parseAddSymbolLiteral_meta rootJump_meta)

variable {F : Type} {root : Nat} {tree : Array ParseNode} {G : Nat → Prop} {m0 : Nat}

section
variable (parseFloat : List Char → Option F)

theorem handleParseNode_lifo {ph : Nat → Phase} {ctx : Ctx F} {ni : Nat} {pn : ParseNode}
    (p : PreL root tree G m0 ph ctx ni pn) (crj : Nat) :
    Sat (PostL root tree G m0 ph) (handleParseNode parseFloat ctx crj ni pn) := by
  unfold handleParseNode
  split
  · rename_i heq; exact handleValuePrimitive_lifo p (by rw [heq]; decide) (by rw [heq]; rfl) (by rw [heq]; rfl) (by rw [heq]; decide) (by rw [heq]; decide) (addUnit_meta pn)
  · rename_i heq; exact handleValuePrimitive_lifo p (by rw [heq]; decide) (by rw [heq]; rfl) (by rw [heq]; rfl) (by rw [heq]; decide) (by rw [heq]; decide) (addFalse_meta pn)
  · rename_i heq; exact handleValuePrimitive_lifo p (by rw [heq]; decide) (by rw [heq]; rfl) (by rw [heq]; rfl) (by rw [heq]; decide) (by rw [heq]; decide) (addTrue_meta pn)
  · rename_i heq; exact handleValuePrimitive_lifo p (by rw [heq]; decide) (by rw [heq]; rfl) (by rw [heq]; rfl) (by rw [heq]; decide) (by rw [heq]; decide) (parseAddNumber_meta parseFloat pn)
  · rename_i heq; exact handleValuePrimitive_lifo p (by rw [heq]; decide) (by rw [heq]; rfl) (by rw [heq]; rfl) (by rw [heq]; decide) (by rw [heq]; decide) (parseAddCharList_meta parseFloat pn)
  · rename_i heq; exact handleValuePrimitive_lifo p (by rw [heq]; decide) (by rw [heq]; rfl) (by rw [heq]; rfl) (by rw [heq]; decide) (by rw [heq]; decide) (parseAddByteList_meta parseFloat pn)
  · rename_i heq; exact handleValuePrimitive_lifo p (by rw [heq]; decide) (by rw [heq]; rfl) (by rw [heq]; rfl) (by rw [heq]; decide) (by rw [heq]; decide) (parseAddSymbolLiteral_meta pn)
  · rename_i heq; exact handleValueLike_lifo p (by rw [heq]; decide) (by rw [heq]; rfl) (by rw [heq]; rfl) (by rw [heq]; decide) (by rw [heq]; decide) (noOperand_meta pn) _
  · rename_i heq; exact handleValueLike_lifo p (by rw [heq]; decide) (by rw [heq]; rfl) (by rw [heq]; rfl) (by rw [heq]; decide) (by rw [heq]; decide) (parseAddSymbolText_meta pn) _
  · rename_i heq; exact handleValueLike_lifo p (by rw [heq]; decide) (by rw [heq]; rfl) (by rw [heq]; rfl) (by rw [heq]; decide) (by rw [heq]; decide) (parseAddSymbolText_meta pn) _
  · rename_i heq; exact handleValueLike_lifo p (by rw [heq]; decide) (by rw [heq]; rfl) (by rw [heq]; rfl) (by rw [heq]; decide) (by rw [heq]; decide) (noOperand_meta pn) _
  · rename_i heq; exact handleUnaryPrefix_lifo p (by rw [heq]; decide) (by rw [heq]; rfl) (by rw [heq]; rfl) (by rw [heq]; decide) (by rw [heq]; decide) _
  · rename_i heq; exact handleUnaryPrefix_lifo p (by rw [heq]; decide) (by rw [heq]; rfl) (by rw [heq]; rfl) (by rw [heq]; decide) (by rw [heq]; decide) _
  · rename_i heq; exact handleUnaryPrefix_lifo p (by rw [heq]; decide) (by rw [heq]; rfl) (by rw [heq]; rfl) (by rw [heq]; decide) (by rw [heq]; decide) _
  · rename_i heq; exact handleUnaryPrefix_lifo p (by rw [heq]; decide) (by rw [heq]; rfl) (by rw [heq]; rfl) (by rw [heq]; decide) (by rw [heq]; decide) _
  · rename_i heq; exact handleUnaryPrefix_lifo p (by rw [heq]; decide) (by rw [heq]; rfl) (by rw [heq]; rfl) (by rw [heq]; decide) (by rw [heq]; decide) _
  · rename_i heq; exact handleUnaryPrefix_lifo p (by rw [heq]; decide) (by rw [heq]; rfl) (by rw [heq]; rfl) (by rw [heq]; decide) (by rw [heq]; decide) _
  · rename_i heq; exact handleUnaryPrefix_lifo p (by rw [heq]; decide) (by rw [heq]; rfl) (by rw [heq]; rfl) (by rw [heq]; decide) (by rw [heq]; decide) _
  · rename_i heq; exact handleUnarySuffix_lifo p (by rw [heq]; decide) (by rw [heq]; rfl) (by rw [heq]; rfl) (by rw [heq]; decide) (by rw [heq]; decide) _
  · rename_i heq; exact handleUnarySuffix_lifo p (by rw [heq]; decide) (by rw [heq]; rfl) (by rw [heq]; rfl) (by rw [heq]; decide) (by rw [heq]; decide) _
  · rename_i heq; exact handleUnarySuffix_lifo p (by rw [heq]; decide) (by rw [heq]; rfl) (by rw [heq]; rfl) (by rw [heq]; decide) (by rw [heq]; decide) _
  · rename_i heq; exact handleBinaryOperationWithPush_lifo p (by rw [heq]; decide) (by rw [heq]; rfl) _ false (by rw [heq]; rfl) (by rw [heq]; decide) (by rw [heq]; decide)
  · rename_i heq; exact handleBinaryOperationWithPush_lifo p (by rw [heq]; decide) (by rw [heq]; rfl) _ false (by rw [heq]; rfl) (by rw [heq]; decide) (by rw [heq]; decide)
  · rename_i heq; exact handleBinaryOperationWithPush_lifo p (by rw [heq]; decide) (by rw [heq]; rfl) _ false (by rw [heq]; rfl) (by rw [heq]; decide) (by rw [heq]; decide)
  · rename_i heq; exact handleBinaryOperationWithPush_lifo p (by rw [heq]; decide) (by rw [heq]; rfl) _ false (by rw [heq]; rfl) (by rw [heq]; decide) (by rw [heq]; decide)
  · rename_i heq; exact handleBinaryOperationWithPush_lifo p (by rw [heq]; decide) (by rw [heq]; rfl) _ false (by rw [heq]; rfl) (by rw [heq]; decide) (by rw [heq]; decide)
  · rename_i heq; exact handleBinaryOperationWithPush_lifo p (by rw [heq]; decide) (by rw [heq]; rfl) _ false (by rw [heq]; rfl) (by rw [heq]; decide) (by rw [heq]; decide)
  · rename_i heq; exact handleBinaryOperationWithPush_lifo p (by rw [heq]; decide) (by rw [heq]; rfl) _ false (by rw [heq]; rfl) (by rw [heq]; decide) (by rw [heq]; decide)
  · rename_i heq; exact handleBinaryOperationWithPush_lifo p (by rw [heq]; decide) (by rw [heq]; rfl) _ false (by rw [heq]; rfl) (by rw [heq]; decide) (by rw [heq]; decide)
  · rename_i heq; exact handleBinaryOperationWithPush_lifo p (by rw [heq]; decide) (by rw [heq]; rfl) _ false (by rw [heq]; rfl) (by rw [heq]; decide) (by rw [heq]; decide)
  · rename_i heq; exact handleBinaryOperationWithPush_lifo p (by rw [heq]; decide) (by rw [heq]; rfl) _ false (by rw [heq]; rfl) (by rw [heq]; decide) (by rw [heq]; decide)
  · rename_i heq; exact handleBinaryOperationWithPush_lifo p (by rw [heq]; decide) (by rw [heq]; rfl) _ false (by rw [heq]; rfl) (by rw [heq]; decide) (by rw [heq]; decide)
  · rename_i heq; exact handleBinaryOperationWithPush_lifo p (by rw [heq]; decide) (by rw [heq]; rfl) _ false (by rw [heq]; rfl) (by rw [heq]; decide) (by rw [heq]; decide)
  · rename_i heq; exact handleBinaryOperationWithPush_lifo p (by rw [heq]; decide) (by rw [heq]; rfl) _ false (by rw [heq]; rfl) (by rw [heq]; decide) (by rw [heq]; decide)
  · rename_i heq; exact handleBinaryOperationWithPush_lifo p (by rw [heq]; decide) (by rw [heq]; rfl) _ false (by rw [heq]; rfl) (by rw [heq]; decide) (by rw [heq]; decide)
  · rename_i heq; exact handleBinaryOperationWithPush_lifo p (by rw [heq]; decide) (by rw [heq]; rfl) _ false (by rw [heq]; rfl) (by rw [heq]; decide) (by rw [heq]; decide)
  · rename_i heq; exact handleBinaryOperationWithPush_lifo p (by rw [heq]; decide) (by rw [heq]; rfl) _ false (by rw [heq]; rfl) (by rw [heq]; decide) (by rw [heq]; decide)
  · rename_i heq; exact handleBinaryOperationWithPush_lifo p (by rw [heq]; decide) (by rw [heq]; rfl) _ false (by rw [heq]; rfl) (by rw [heq]; decide) (by rw [heq]; decide)
  · rename_i heq; exact handleBinaryOperationWithPush_lifo p (by rw [heq]; decide) (by rw [heq]; rfl) _ false (by rw [heq]; rfl) (by rw [heq]; decide) (by rw [heq]; decide)
  · rename_i heq; exact handleBinaryOperationWithPush_lifo p (by rw [heq]; decide) (by rw [heq]; rfl) _ false (by rw [heq]; rfl) (by rw [heq]; decide) (by rw [heq]; decide)
  · rename_i heq; exact handleBinaryOperationWithPush_lifo p (by rw [heq]; decide) (by rw [heq]; rfl) _ false (by rw [heq]; rfl) (by rw [heq]; decide) (by rw [heq]; decide)
  · rename_i heq; exact handleBinaryOperationWithPush_lifo p (by rw [heq]; decide) (by rw [heq]; rfl) _ false (by rw [heq]; rfl) (by rw [heq]; decide) (by rw [heq]; decide)
  · rename_i heq; exact handleBinaryOperationWithPush_lifo p (by rw [heq]; decide) (by rw [heq]; rfl) _ false (by rw [heq]; rfl) (by rw [heq]; decide) (by rw [heq]; decide)
  · rename_i heq; exact handleBinaryOperationWithPush_lifo p (by rw [heq]; decide) (by rw [heq]; rfl) _ false (by rw [heq]; rfl) (by rw [heq]; decide) (by rw [heq]; decide)
  · rename_i heq; exact handleBinaryOperationWithPush_lifo p (by rw [heq]; decide) (by rw [heq]; rfl) _ false (by rw [heq]; rfl) (by rw [heq]; decide) (by rw [heq]; decide)
  · rename_i heq; exact handleBinaryOperationWithPush_lifo p (by rw [heq]; decide) (by rw [heq]; rfl) _ false (by rw [heq]; rfl) (by rw [heq]; decide) (by rw [heq]; decide)
  · rename_i heq; exact handleBinaryOperationWithPush_lifo p (by rw [heq]; decide) (by rw [heq]; rfl) _ false (by rw [heq]; rfl) (by rw [heq]; decide) (by rw [heq]; decide)
  · rename_i heq; exact handleBinaryOperationWithPush_lifo p (by rw [heq]; decide) (by rw [heq]; rfl) _ false (by rw [heq]; rfl) (by rw [heq]; decide) (by rw [heq]; decide)
  · rename_i heq; exact handleBinaryOperationWithPush_lifo p (by rw [heq]; decide) (by rw [heq]; rfl) _ false (by rw [heq]; rfl) (by rw [heq]; decide) (by rw [heq]; decide)
  · rename_i heq; exact handleBinaryOperationWithPush_lifo p (by rw [heq]; decide) (by rw [heq]; rfl) _ false (by rw [heq]; rfl) (by rw [heq]; decide) (by rw [heq]; decide)
  · rename_i heq; exact handleBinaryOperationWithPush_lifo p (by rw [heq]; decide) (by rw [heq]; rfl) _ true (by rw [heq]; rfl) (by rw [heq]; decide) (by rw [heq]; decide)
  · rename_i heq; exact handleBinaryOperationWithPush_lifo p (by rw [heq]; decide) (by rw [heq]; rfl) _ true (by rw [heq]; rfl) (by rw [heq]; decide) (by rw [heq]; decide)
  · rename_i heq; exact handleList_lifo p (by rw [heq]; decide) (by rw [heq]; rfl) (by rw [heq]; rfl) (by rw [heq]; decide) (by rw [heq]; decide)
  · rename_i heq; exact handleList_lifo p (by rw [heq]; decide) (by rw [heq]; rfl) (by rw [heq]; rfl) (by rw [heq]; decide) (by rw [heq]; decide)
  · rename_i heq; exact handleLogicalBinary_lifo p (by rw [heq]; rfl) (by rw [heq]; decide) (by rw [heq]; rfl) (by rw [heq]; rfl) _
  · rename_i heq; exact handleLogicalBinary_lifo p (by rw [heq]; rfl) (by rw [heq]; decide) (by rw [heq]; rfl) (by rw [heq]; rfl) _
  · rename_i heq; exact handleGroup_lifo p heq
  · rename_i heq; exact handleSideEffect_lifo p (by rw [heq]; decide) (by rw [heq]; rfl) heq
  · rename_i heq; exact handleNestedExpression_lifo p heq crj
  · rename_i heq; exact handleJumpIf_lifo p (by rw [heq]; rfl) (by rw [heq]; decide) (by rw [heq]; rfl) (by rw [heq]; rfl) _
  · rename_i heq; exact handleJumpIf_lifo p (by rw [heq]; rfl) (by rw [heq]; decide) (by rw [heq]; rfl) (by rw [heq]; rfl) _
  · rename_i heq; exact handleElseJump_lifo p (by rw [heq]; decide) (by rw [heq]; rfl) (by rw [heq]; rfl) (by rw [heq]; decide) heq
  · rename_i heq; exact handleReapply_lifo p (by rw [heq]; decide) (by rw [heq]; rfl) (by rw [heq]; rfl) (by rw [heq]; decide) (by rw [heq]; decide)
  · rename_i heq; exact handleSubexpression_lifo p (by rw [heq]; decide) (by rw [heq]; rfl) (by rw [heq]; rfl) (by rw [heq]; decide) (by rw [heq]; decide)
  · rename_i heq; exact handleSubexpression_lifo p (by rw [heq]; decide) (by rw [heq]; rfl) (by rw [heq]; rfl) (by rw [heq]; decide) (by rw [heq]; decide)
  · rename_i heq; exact handleUnaryFixApply_lifo p (by rw [heq]; decide) (by rw [heq]; rfl) (by rw [heq]; decide) (by rw [heq]; decide) (Or.inl ⟨rfl, by rw [heq]; rfl⟩)
  · rename_i heq; exact handleUnaryFixApply_lifo p (by rw [heq]; decide) (by rw [heq]; rfl) (by rw [heq]; decide) (by rw [heq]; decide) (Or.inr ⟨rfl, by rw [heq]; rfl⟩)
  · rename_i heq; exact handleInfixApply_lifo p (by rw [heq]; decide) (by rw [heq]; rfl) (by rw [heq]; rfl) (by rw [heq]; decide) (by rw [heq]; decide)
  · exact sat_buildErr

/-! ### the loops -/

theorem afterHandle_lifo {ph : Nat → Phase} {ctx : Ctx F} {S R : List Nat} {M : Array (Option Nat)}
    (h : Inv root tree G ph ctx) (ho : FInv root tree G m0 ph S ctx.nodes M) (hl : LInv root tree G m0 ph ctx.nodes R M)
    (ni : Nat) :
    Sat (fun nodes => Inv root tree G ph ({ ctx with nodes := nodes } : Ctx F) ∧ FInv root tree G m0 ph S nodes M ∧
        LInv root tree G m0 ph nodes R M) (afterHandle ctx.nodes ni) := by
  unfold afterHandle
  split
  · rename_i node hnode
    split
    · split
      · have h1 : Inv root tree G ph ({ ctx with nodes := putNode ctx.nodes ni { node with contributesToList := false } } : Ctx F) :=
          inv_putNode_same (bn' := { node with contributesToList := false }) h hnode rfl rfl rfl rfl rfl rfl
        have o1 : FInv root tree G m0 ph S (putNode ctx.nodes ni { node with contributesToList := false }) M :=
          finv_putNode_same (bn' := { node with contributesToList := false }) ho hnode rfl
        have l1 : LInv root tree G m0 ph (putNode ctx.nodes ni { node with contributesToList := false }) R M :=
          linv_putNode_same (bn' := { node with contributesToList := false }) hl hnode rfl rfl
        refine sat_bind (getNode_sat_eq _ _) (fun parentNode hp => ?_)
        exact ⟨inv_putNode_same (bn' := { parentNode with childCount := parentNode.childCount + 1 }) h1 hp rfl rfl rfl rfl rfl rfl,
          finv_putNode_same (bn' := { parentNode with childCount := parentNode.childCount + 1 }) o1 hp rfl,
          linv_putNode_same (bn' := { parentNode with childCount := parentNode.childCount + 1 }) l1 hp rfl rfl⟩
      · exact ⟨inv_congr h rfl rfl rfl, ho, hl⟩
    · exact ⟨inv_congr h rfl rfl rfl, ho, hl⟩
  · exact ⟨inv_congr h rfl rfl rfl, ho, hl⟩

theorem innerLoop_lifo (V : Validated root tree G) (crj : Nat) :
    ∀ (fuel : Nat) (ph : Nat → Phase) (ctx : Ctx F), Inv root tree G ph ctx →
      FInv root tree G m0 ph ctx.stack.toList ctx.nodes ctx.data.metadata →
      LInv root tree G m0 ph ctx.nodes ctx.rootStack.toList ctx.data.metadata →
      Sat (fun r => ∃ ph', Inv root tree G ph' r.1 ∧ FInv root tree G m0 ph' [] r.1.nodes r.1.data.metadata ∧
          LInv root tree G m0 ph' r.1.nodes r.1.rootStack.toList r.1.data.metadata)
        (innerLoop parseFloat tree crj fuel ctx) := by
  intro fuel
  induction fuel with
  | zero => intro ph ctx _ _ _; exact sat_fuelOut
  | succ k ih =>
    intro ph ctx h ho hl
    unfold innerLoop
    split
    · rename_i hnone
      rw [toList_nil_of_back_none hnone] at ho
      exact ⟨ph, h, ho, hl⟩
    · rename_i ni hback
      obtain ⟨hpop, hns, hG, hph⟩ := inv_pop_stack h hback
      split
      · exact sat_buildErr
      · rename_i pn hpn
        have p : PreL root tree G m0 ph ({ ctx with stack := ctx.stack.pop } : Ctx F) ni pn :=
          ⟨⟨V, hpop, hG, hph, hns, hpn⟩, by rw [toList_of_back hback] at ho; exact ho, hl⟩
        refine sat_bind (handleParseNode_lifo parseFloat p crj) (fun ctx1 h1 => ?_)
        obtain ⟨ph1, hinv1, _, ho1, hl1⟩ := h1
        refine sat_bind (afterHandle_lifo hinv1 ho1 hl1 ni) (fun nodes hnodes => ?_)
        exact ih ph1 _ hnodes.1 hnodes.2.1 hnodes.2.2

theorem rootLoop_lifo (V : Validated root tree G) :
    ∀ (rootFuel stepFuel : Nat) (ph : Nat → Phase) (ctx : Ctx F), Inv root tree G ph ctx →
      FInv root tree G m0 ph [] ctx.nodes ctx.data.metadata →
      LInv root tree G m0 ph ctx.nodes ctx.rootStack.toList ctx.data.metadata →
      Sat (fun c => ∃ ph', Inv root tree G ph' c ∧ FInv root tree G m0 ph' [] c.nodes c.data.metadata ∧
          LInv root tree G m0 ph' c.nodes c.rootStack.toList c.data.metadata)
        (Garnish.Model.Build.rootLoop parseFloat tree rootFuel stepFuel ctx) := by
  intro rootFuel
  induction rootFuel with
  | zero => intro _ ph ctx _ _ _; exact sat_fuelOut
  | succ k ih =>
    intro stepFuel ph ctx h ho hl
    unfold Garnish.Model.Build.rootLoop
    split
    · exact ⟨ph, h, ho, hl⟩
    · rename_i r hback
      dsimp only
      refine sat_bind (rootJump_meta _ _ _) (fun res hres => ?_)
      obtain ⟨data, crj⟩ := res
      dsimp only at hres ⊢
      have hinv1 := (inv_pop_root_exp (ctx' := (⟨data, ctx.nodes, ctx.rootStack.pop, #[r]⟩ : Ctx F)) V h hback rfl rfl rfl).1
      have hrp : ph r = .pr := (h.rootOk r (by rw [toList_of_back hback]; simp)).2
      have ho1 : FInv root tree G m0 (popPhase ph r) [r] ctx.nodes data.metadata := by
        rw [hres]; exact ⟨pop_sinv V h hback ho.1, pop_binv hrp ho.2.1, ho.2.2⟩
      have hl1 : LInv root tree G m0 (popPhase ph r) ctx.nodes ctx.rootStack.pop.toList data.metadata := by
        rw [hres]; exact pop_linv V h hback ho.1 hl
      refine sat_bind (innerLoop_lifo parseFloat V crj stepFuel _ _ hinv1 ho1 hl1) (fun res2 h2 => ?_)
      obtain ⟨ctx2, fuel2⟩ := res2
      obtain ⟨ph2, hinv2, ho2, hl2⟩ := h2
      dsimp only at hinv2 ho2 hl2 ⊢
      obtain ⟨l, hl1', hl2'⟩ := pushEndInstructions_meta_none
        (if (ctx2.data.instrs.size == 0) = true then none else ctx2.data.instrs[ctx2.data.instrs.size - 1]?)
        (getInstructionLen data)
        (match ctx2.nodes[r]? with
          | some (some node) =>
            match node.rootEndInstruction with
            | some endInstruction => endInstruction
            | none => [(Instruction.endExpression, none)]
          | _ => [(Instruction.endExpression, none)]) ctx2.data
      exact ih fuel2 ph2 _ (inv_congr hinv2 rfl rfl rfl) (finv_meta_none ho2 l hl1' hl2') (linv_meta_none hl2 l hl1' hl2')

end

end Garnish.Lemmas.BuildSeq
