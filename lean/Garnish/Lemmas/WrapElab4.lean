/-
Parentheses and the elaboration (4): `TextEq` in flat form.  Two trees that are equal up to positions and `( )` nodes
(`TreeEqGroups`, what `C18_refParse_wrapOperand` gives for a licensed wrap) satisfy `TextEq`, parentheses removed, as soon as the
SEQUENCE of token texts along the in-order walk and the sequence of body names agree.
-/
import Garnish.Lemmas.WrapElab3
import Garnish.Lemmas.RefSim
namespace Garnish.Abs.Source
open Garnish Garnish.Gen Garnish.Spec Garnish.Abs Garnish.Abs.Tree Garnish.Model.Parser Garnish.Model.Literals

/-- the token texts of the value / operator nodes, in in-order -/
def texts (toks : List PToken) : RTree → List (List Char)
  | .nil => []
  | .node l _ k r => texts toks l ++ textAt toks k :: texts toks r
  | .group _ _ i => texts toks i

/-- the names of the bracket nodes, in source order -/
def names (κ : Nat → Nat) : RTree → List Nat
  | .nil => []
  | .node l _ _ r => names κ l ++ names κ r
  | .group _ k i => κ k :: names κ i

variable {toks toks' : List PToken} {κ κ' : Nat → Nat}

theorem texts_length : ∀ (t t' : RTree), t.eraseTok = t'.eraseTok → (texts toks t).length = (texts toks' t').length ∧
    (names κ t).length = (names κ' t').length
  | .nil, .nil, _ => ⟨rfl, rfl⟩
  | .node l d k r, .node l' d' k' r', h => by
    simp only [RTree.eraseTok, RTree.node.injEq] at h
    obtain ⟨h1, _, _, h2⟩ := h
    have a := texts_length l l' h1
    have b := texts_length r r' h2
    simp only [texts, names, List.length_append, List.length_cons]
    omega
  | .group d k i, .group d' k' i', h => by
    simp only [RTree.eraseTok, RTree.group.injEq] at h
    have a := texts_length i i' h.2.2
    simp only [texts, names, List.length_cons]
    omega
  | .nil, .node _ _ _ _, h => by simp [RTree.eraseTok] at h
  | .nil, .group _ _ _, h => by simp [RTree.eraseTok] at h
  | .node _ _ _ _, .nil, h => by simp [RTree.eraseTok] at h
  | .node _ _ _ _, .group _ _ _, h => by simp [RTree.eraseTok] at h
  | .group _ _ _, .nil, h => by simp [RTree.eraseTok] at h
  | .group _ _ _, .node _ _ _ _, h => by simp [RTree.eraseTok] at h

theorem textEq_of_flat : ∀ (t t' : RTree), t.eraseTok = t'.eraseTok → texts toks t = texts toks' t' →
    names κ t = names κ' t' → TextEq toks toks' κ κ' t t'
  | .nil, .nil, _, _, _ => .nil
  | .node l d k r, .node l' d' k' r', h, ht, hn => by
    simp only [RTree.eraseTok, RTree.node.injEq] at h
    obtain ⟨h1, hd, _, h2⟩ := h
    subst hd
    have a := texts_length (toks := toks) (toks' := toks') (κ := κ) (κ' := κ') l l' h1
    simp only [texts, names] at ht hn
    obtain ⟨t1, t2⟩ := List.append_inj ht a.1
    obtain ⟨n1, n2⟩ := List.append_inj hn a.2
    simp only [List.cons.injEq] at t2
    exact .node (textEq_of_flat l l' h1 t1 n1) (textEq_of_flat r r' h2 t2.2 n2) t2.1
  | .group d k i, .group d' k' i', h, ht, hn => by
    simp only [RTree.eraseTok, RTree.group.injEq] at h
    obtain ⟨hd, _, h2⟩ := h
    subst hd
    simp only [texts, names, List.cons.injEq] at ht hn
    exact .group (textEq_of_flat i i' h2 ht hn.2) hn.1
  | .nil, .node _ _ _ _, h, _, _ => by simp [RTree.eraseTok] at h
  | .nil, .group _ _ _, h, _, _ => by simp [RTree.eraseTok] at h
  | .node _ _ _ _, .nil, h, _, _ => by simp [RTree.eraseTok] at h
  | .node _ _ _ _, .group _ _ _, h, _, _ => by simp [RTree.eraseTok] at h
  | .group _ _ _, .nil, h, _, _ => by simp [RTree.eraseTok] at h
  | .group _ _ _, .node _ _ _ _, h, _, _ => by simp [RTree.eraseTok] at h

/-- removing the `( )` nodes and then the positions is `stripGroups` -/
theorem eraseTok_ungroup : ∀ t : RTree, (ungroup t).eraseTok = t.stripGroups
  | .nil => rfl
  | .node l d k r => by simp only [ungroup, RTree.eraseTok, RTree.stripGroups, eraseTok_ungroup l, eraseTok_ungroup r]
  | .group d k i => by
    simp only [ungroup, RTree.stripGroups]
    split
    · exact eraseTok_ungroup i
    · simp only [RTree.eraseTok, eraseTok_ungroup i]

end Garnish.Abs.Source
