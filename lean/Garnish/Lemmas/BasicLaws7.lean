/-
`StoreLawsOn` for `BasicGarnishData`, continued: `*get_current_value_mut() = r` — the top input-value cell is
overwritten in place; registers, frames and every `Decodes` fact are untouched.
-/
import Garnish.Lemmas.BasicLaws6
import Garnish.Lemmas.MutSet
set_option linter.unusedSimpArgs false
set_option linter.unusedVariables false
set_option maxHeartbeats 2000000
namespace Garnish.Lemmas.Runtime.Basic
open Garnish Gen Garnish.Model.Equality Garnish.Model.Runtime Garnish.Model.Runtime.Basic Garnish.BasicOpt
open Garnish.Lemmas.Runtime Garnish.Lemmas.EqualityRefine

variable {F : Type}

/-- `cells'` is `cells` with the input-value cell at `i` replaced by an input-value cell -/
structure UpdSV (cells cells' : Array Cell) (i : Nat) : Prop where
  other : ∀ j, j ≠ i → cells'[j]? = cells[j]?
  old : svAt cells i = true
  new : svAt cells' i = true

theorem UpdSV.agreeNS {cells cells' : Array Cell} {i : Nat} (h : UpdSV cells cells' i) : AgreeNS cells cells' := by
  intro j c hc hns
  by_cases hj : j = i
  · subst hj
    have := h.old
    simp [svAt, hc, hns] at this
  · rw [h.other j hj]; exact hc

theorem sv_not {cells : Array Cell} {i : Nat} (h : svAt cells i = true) :
    ∃ c, cells[i]? = some c ∧ isSV c = true := by
  unfold svAt at h
  cases hc : cells[i]? with
  | none => simp [hc] at h
  | some c => exact ⟨c, rfl, by simpa [hc] using h⟩

theorem UpdSV.isRegCell {cells cells' : Array Cell} {i : Nat} (h : UpdSV cells cells' i) (a : Nat) :
    isRegCell cells' a = isRegCell cells a := by
  unfold Basic.isRegCell
  by_cases ha : a = i
  · subst ha
    obtain ⟨c, hc, hs⟩ := sv_not h.old
    obtain ⟨c', hc', hs'⟩ := sv_not h.new
    rw [hc, hc']
    cases c <;> simp [isSV] at hs <;> cases c' <;> simp [isSV] at hs' <;> rfl
  · rw [h.other a ha]

theorem UpdSV.isFrameCell {cells cells' : Array Cell} {i : Nat} (h : UpdSV cells cells' i) (a : Nat) :
    isFrameCell cells' a = isFrameCell cells a := by
  unfold Basic.isFrameCell
  by_cases ha : a = i
  · subst ha
    obtain ⟨c, hc, hs⟩ := sv_not h.old
    obtain ⟨c', hc', hs'⟩ := sv_not h.new
    rw [hc, hc']
    cases c <;> simp [isSV] at hs <;> cases c' <;> simp [isSV] at hs' <;> rfl
  · rw [h.other a ha]

theorem UpdSV.regChain {cells cells' : Array Cell} {i : Nat} (h : UpdSV cells cells' i) :
    ∀ (f a : Nat), regChain cells' f a = regChain cells f a
  | 0, _ => rfl
  | f + 1, a => by
    simp only [Basic.regChain]
    by_cases ha : a = i
    · subst ha
      obtain ⟨c, hc, hs⟩ := sv_not h.old
      obtain ⟨c', hc', hs'⟩ := sv_not h.new
      rw [hc, hc']
      cases c <;> simp [isSV] at hs <;> cases c' <;> simp [isSV] at hs' <;> rfl
    · rw [h.other a ha]
      cases cells[a]? with
      | none => rfl
      | some c =>
        cases c <;> try rfl
        rename_i p v
        simp only [UpdSV.regChain h f p]

theorem UpdSV.regsOf {cells cells' : Array Cell} {i : Nat} (h : UpdSV cells cells' i) (o : Option Nat) :
    regsOf cells' o = regsOf cells o := by
  cases o with
  | none => rfl
  | some a => exact h.regChain _ a

theorem UpdSV.retOf {cells cells' : Array Cell} {i : Nat} (h : UpdSV cells cells' i) (a : Nat) :
    retOf cells' a = retOf cells a := by
  cases a with
  | zero => rfl
  | succ k =>
    simp only [Basic.retOf]
    by_cases hk : k = i
    · subst hk
      obtain ⟨c, hc, hs⟩ := sv_not h.old
      obtain ⟨c', hc', hs'⟩ := sv_not h.new
      rw [hc, hc']
      cases c <;> simp [isSV] at hs <;> cases c' <;> simp [isSV] at hs' <;> rfl
    · rw [h.other k hk]

theorem UpdSV.frameChain {cells cells' : Array Cell} {i : Nat} (h : UpdSV cells cells' i) :
    ∀ (f a : Nat), frameChain cells' f a = frameChain cells f a
  | 0, _ => rfl
  | f + 1, a => by
    simp only [Basic.frameChain, h.retOf, h.regsOf]
    by_cases ha : a = i
    · subst ha
      obtain ⟨c, hc, hs⟩ := sv_not h.old
      obtain ⟨c', hc', hs'⟩ := sv_not h.new
      rw [hc, hc']
      cases c <;> simp [isSV] at hs <;> cases c' <;> simp [isSV] at hs' <;> rfl
    · rw [h.other a ha]
      cases cells[a]? with
      | none => rfl
      | some c =>
        cases c <;> try rfl
        · rename_i p r
          simp only [UpdSV.frameChain h f p]
        · rename_i p
          simp only [UpdSV.frameChain h f p]

theorem UpdSV.framesOf {cells cells' : Array Cell} {i : Nat} (h : UpdSV cells cells' i) (o : Option Nat) :
    framesOf cells' o = framesOf cells o := by
  cases o with
  | none => rfl
  | some a => exact h.frameChain _ a

/-- the input-value chain strictly below the updated cell is untouched -/
theorem UpdSV.valChain_below {cells cells' : Array Cell} {i : Nat} (h : UpdSV cells cells' i) :
    ∀ (f a : Nat), a < i → valChain cells' f a = valChain cells f a
  | 0, _, _ => rfl
  | f + 1, a, ha => by
    simp only [Basic.valChain, h.other a (by omega)]
    cases cells[a]? with
    | none => rfl
    | some c =>
      cases c <;> try rfl
      rename_i p v
      simp only
      by_cases hp : p < a
      · simp only [hp, if_true]; rw [UpdSV.valChain_below h f p (by omega)]
      · simp [hp]

/-- **`set_current_value`** -/
theorem setCurrent_law (nc : NumCode F) {st : BState} (hinv : BInv st) (r : Nat) :
    ((basicRStore nc).vals st = [] → ∃ st', (basicRStore nc).setCurrentValue r st = .ok (false, st') ∧
      Eff (basicRStore nc) st st' ((basicRStore nc).regs st) [] ∧ BInv st') ∧
    (∀ a rest, isNode st.store.cells r = true → (basicRStore nc).vals st = a :: rest →
      ∃ st', (basicRStore nc).setCurrentValue r st = .ok (true, st') ∧
        Eff (basicRStore nc) st st' ((basicRStore nc).regs st) (r :: rest) ∧ BInv st') := by
  cases hcur : st.store.currentValue with
  | none =>
    have hv : (basicRStore nc).vals st = [] := by show valsOf _ st.store.currentValue = []; rw [hcur]; rfl
    have hop : st.store.setCurrentValue r = .err .state := by simp [Store.setCurrentValue, hcur]
    constructor
    · intro _
      refine ⟨st, ?_, ?_, hinv⟩
      · show (match st.store.setCurrentValue r with | .ok s' => _ | .err _ => _ | .panic m => _ | .fuelOut => _) = _
        rw [hop]
      · have := Eff.refl (basicRStore nc) st
        rw [hv] at this; exact this
    · intro a rest _ h; rw [hv] at h; cases h
  | some i =>
    have his := hinv.wfq.val
    rw [hcur] at his
    have hilt : i < st.store.cells.size := svAt_lt his
    have main : ∀ (c' : Cell) (p : Option Nat) (v : Nat),
        (match p with | some p => st.store.cells[i]? = some (Cell.value p v) ∧ c' = Cell.value p r ∧ p < i
                      | none => st.store.cells[i]? = some (Cell.valueRoot v) ∧ c' = Cell.valueRoot r) →
        st.store.setCurrentValue r = Store.setCell st.store i c' →
        ((basicRStore nc).vals st = [] → ∃ st', (basicRStore nc).setCurrentValue r st = .ok (false, st') ∧
          Eff (basicRStore nc) st st' ((basicRStore nc).regs st) [] ∧ BInv st') ∧
        (∀ a rest, isNode st.store.cells r = true → (basicRStore nc).vals st = a :: rest →
          ∃ st', (basicRStore nc).setCurrentValue r st = .ok (true, st') ∧
            Eff (basicRStore nc) st st' ((basicRStore nc).regs st) (r :: rest) ∧ BInv st') := by
      intro c' p v hkind hop
      have hvals : (basicRStore nc).vals st = v :: (match p with | some p => valsOf st.store.cells (some p) | none => []) := by
        show valsOf _ st.store.currentValue = _
        rw [hcur]
        cases p with
        | some p => exact valsOf_value hkind.1 hkind.2.2
        | none => exact valsOf_root hkind.1
      constructor
      · intro hnil; rw [hvals] at hnil; cases hnil
      · intro a rest hr hv
        rw [hvals] at hv
        simp only [List.cons.injEq] at hv
        obtain ⟨rfl, hrest⟩ := hv
        let s' : Store := { st.store with cells := st.store.cells.setIfInBounds i c' }
        have hset : Store.setCell st.store i c' = .ok s' := by simp [Store.setCell, hilt, s']
        have hopr : st.store.setCurrentValue r = .ok s' := by rw [hop, hset]
        have hw := setCurrentValue_wfq hinv.wfq hr hopr
        have hget : ∀ j, s'.cells[j]? = if j = i then some c' else st.store.cells[j]? := by
          intro j
          show (st.store.cells.setIfInBounds i c')[j]? = _
          rw [Array.getElem?_setIfInBounds]
          by_cases hj : j = i
          · subst hj; simp [hilt]
          · simp [hj, Ne.symm hj]
        have hc'sv : isSV c' = true := by
          cases p with
          | some p => rw [hkind.2.1]; rfl
          | none => rw [hkind.2]; rfl
        have hu : UpdSV st.store.cells s'.cells i :=
          ⟨fun j hj => by rw [hget, if_neg hj], his, by simp [svAt, hget, hc'sv]⟩
        have hvals' : valsOf s'.cells (some i) = r :: rest := by
          cases p with
          | some p =>
            obtain ⟨_, hce, hpi⟩ := hkind
            have hci : s'.cells[i]? = some (Cell.value p r) := by rw [hget, if_pos rfl, hce]
            rw [valsOf_value hci hpi, ← hrest]
            congr 1
            exact hu.valChain_below _ p hpi
          | none =>
            obtain ⟨_, hce⟩ := hkind
            have hci : s'.cells[i]? = some (Cell.valueRoot r) := by rw [hget, if_pos rfl, hce]
            rw [valsOf_root hci, ← hrest]
        refine ⟨{ st with store := s' }, ?_, ⟨⟨fun a v h => decodes_mono (basicView_le _ hu.agreeNS) h, rfl, rfl, rfl, rfl⟩,
          hu.regsOf _, ?_, rfl, hu.framesOf _⟩, ?_⟩
        · show (match st.store.setCurrentValue r with | .ok s' => _ | .err _ => _ | .panic m => _ | .fuelOut => _) = _
          rw [hopr]
        · show valsOf s'.cells st.store.currentValue = _
          rw [hcur]; exact hvals'
        · have hsame : ∀ (j : Nat) (c : Cell), s'.cells[j]? = some c → isSV c = false → st.store.cells[j]? = some c := by
            intro j c hc hns
            rw [hget] at hc
            by_cases hj : j = i
            · rw [if_pos hj] at hc
              cases hc
              rw [hns] at hc'sv; cases hc'sv
            · rw [if_neg hj] at hc; exact hc
          have hsz : s'.cells.size = st.store.cells.size := by simp [s']
          refine ⟨hw, hinv.fits.imp (by simp [s']) id, ?_, ?_, ?_, ⟨?_, ?_, ?_⟩⟩
          · intro a ha; rw [hu.isRegCell]; exact hinv.regHead a ha
          · intro j p' v' hc
            rw [hu.isRegCell]; exact hinv.regPrev j p' v' (hsame j _ hc rfl)
          · intro j p' r' hc
            rw [hsz]
            rcases hc with hc | hc
            · exact hinv.frameSaved j p' r' (Or.inl (hsame j _ hc rfl))
            · exact hinv.frameSaved j p' r' (Or.inr (hsame j _ hc rfl))
          · intro a ha; rw [hu.isFrameCell]; exact hinv.ftyped.head a ha
          · intro j p' hc
            rw [hu.isFrameCell]
            rcases hc with ⟨r', hc⟩ | hc
            · exact hinv.ftyped.prev j p' (Or.inl ⟨r', hsame j _ hc rfl⟩)
            · exact hinv.ftyped.prev j p' (Or.inr (hsame j _ hc rfl))
          · intro j r' hc
            rw [hu.isRegCell]
            rcases hc with ⟨p', hc⟩ | hc
            · exact hinv.ftyped.reg j r' (Or.inl ⟨p', hsame j _ hc rfl⟩)
            · exact hinv.ftyped.reg j r' (Or.inr (hsame j _ hc rfl))
    rcases sv_cell his with ⟨p, v, hc⟩ | ⟨v, hc⟩
    · exact main (.value p r) (some p) v ⟨hc, rfl, (hinv.wfq.chain i p v hc).1⟩
        (by simp [Store.setCurrentValue, hcur, hc])
    · exact main (.valueRoot r) none v ⟨hc, rfl⟩ (by simp [Store.setCurrentValue, hcur, hc])

end Garnish.Lemmas.Runtime.Basic
