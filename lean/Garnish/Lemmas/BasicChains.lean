/-
The stack readers of Model/Runtime/BasicStore.lean: independence of the fuel, appended cells, and what a `WFq` store
gives them (every `previous` link of a register or frame cell leads downwards).
-/
import Garnish.Lemmas.BasicView
namespace Garnish.Lemmas.Runtime.Basic
open Garnish Gen Garnish.Model.Equality Garnish.Model.Runtime Garnish.Model.Runtime.Basic Garnish.BasicOpt

theorem regChain_fuel (cells : Array Cell) : ∀ (f a : Nat), a < f → regChain cells f a = regChain cells (a + 1) a := by
  intro f
  induction f using Nat.strongRecOn with
  | _ f ih =>
    intro a ha
    cases f with
    | zero => omega
    | succ f =>
      simp only [regChain]
      cases cells[a]? with
      | none => rfl
      | some c =>
        cases c <;> try rfl
        rename_i p v
        simp only
        by_cases hp : p < a
        · simp only [hp, if_true]
          rw [ih f (by omega) p (by omega), ih a (by omega) p hp]
        · simp [hp]

theorem valChain_fuel (cells : Array Cell) : ∀ (f a : Nat), a < f → valChain cells f a = valChain cells (a + 1) a := by
  intro f
  induction f using Nat.strongRecOn with
  | _ f ih =>
    intro a ha
    cases f with
    | zero => omega
    | succ f =>
      simp only [valChain]
      cases cells[a]? with
      | none => rfl
      | some c =>
        cases c <;> try rfl
        rename_i p v
        simp only
        by_cases hp : p < a
        · simp only [hp, if_true]
          rw [ih f (by omega) p (by omega), ih a (by omega) p hp]
        · simp [hp]

theorem frameChain_fuel (cells : Array Cell) : ∀ (f a : Nat), a < f → frameChain cells f a = frameChain cells (a + 1) a := by
  intro f
  induction f using Nat.strongRecOn with
  | _ f ih =>
    intro a ha
    cases f with
    | zero => omega
    | succ f =>
      simp only [frameChain]
      cases cells[a]? with
      | none => rfl
      | some c =>
        cases c <;> try rfl
        · rename_i p r
          simp only
          by_cases hp : p < a
          · simp only [hp, if_true]
            rw [ih f (by omega) p (by omega), ih a (by omega) p hp]
          · simp [hp]
        · rename_i p
          simp only
          by_cases hp : p < a
          · simp only [hp, if_true]
            rw [ih f (by omega) p (by omega), ih a (by omega) p hp]
          · simp [hp]

/-- the registers below a `Register(p, v)` head -/
theorem regsOf_register {cells : Array Cell} {a p v : Nat} (hc : cells[a]? = some (.register p v)) (hp : p < a) :
    regsOf cells (some a) = v :: regsOf cells (some p) := by
  have h1 : regChain cells (a + 1) a = v :: (if p < a then regChain cells a p else []) := by
    simp only [regChain, hc]
  show regChain cells (a + 1) a = v :: regChain cells (p + 1) p
  rw [h1, if_pos hp, regChain_fuel cells a p hp]

theorem regsOf_root {cells : Array Cell} {a v : Nat} (hc : cells[a]? = some (.registerRoot v)) :
    regsOf cells (some a) = [v] := by
  simp only [regsOf, regChain, hc]

theorem valsOf_value {cells : Array Cell} {a p v : Nat} (hc : cells[a]? = some (.value p v)) (hp : p < a) :
    valsOf cells (some a) = v :: valsOf cells (some p) := by
  have h1 : valChain cells (a + 1) a = v :: (if p < a then valChain cells a p else []) := by
    simp only [valChain, hc]
  show valChain cells (a + 1) a = v :: valChain cells (p + 1) p
  rw [h1, if_pos hp, valChain_fuel cells a p hp]

theorem valsOf_root {cells : Array Cell} {a v : Nat} (hc : cells[a]? = some (.valueRoot v)) :
    valsOf cells (some a) = [v] := by
  simp only [valsOf, valChain, hc]

/-- appended cells do not change the frame chain when the saved registers of every frame cell exist -/
theorem frameChain_sub {cells cells' : Array Cell} (h : Sub cells cells')
    (hk : ∀ (i p r : Nat), (cells[i]? = some (Cell.frame p r) ∨ cells[i]? = some (Cell.frameRegister r)) → r < cells.size) :
    ∀ (fuel a : Nat), a < cells.size → frameChain cells' fuel a = frameChain cells fuel a
  | 0, _, _ => rfl
  | fuel + 1, a, ha => by
    simp only [frameChain, h.get ha, retOf_sub h ha]
    cases hc : cells[a]? with
    | none => rfl
    | some c =>
      cases c <;> try rfl
      · rename_i p r
        simp only
        rw [regsOf_sub h (o := some r) (fun x hx => by cases hx; exact hk a p r (Or.inl hc))]
        by_cases hp : p < a
        · simp only [hp, if_true]; rw [frameChain_sub h hk fuel p (by omega)]
        · simp [hp]
      · rename_i p
        simp only
        by_cases hp : p < a
        · simp only [hp, if_true]; rw [frameChain_sub h hk fuel p (by omega)]
        · simp [hp]
      · rename_i r
        simp only
        rw [regsOf_sub h (o := some r) (fun x hx => by cases hx; exact hk a 0 r (Or.inr hc))]

theorem framesOf_sub {cells cells' : Array Cell} (h : Sub cells cells')
    (hk : ∀ (i p r : Nat), (cells[i]? = some (Cell.frame p r) ∨ cells[i]? = some (Cell.frameRegister r)) → r < cells.size)
    {o : Option Nat} (ho : ∀ a, o = some a → a < cells.size) : framesOf cells' o = framesOf cells o := by
  cases o with
  | none => rfl
  | some a => exact frameChain_sub h hk _ a (ho a rfl)

end Garnish.Lemmas.Runtime.Basic
