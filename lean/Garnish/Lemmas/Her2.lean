/-
Lemmas/NoCustom2.lean parametrised: `her q` is kept by the look-ups of Abs/Ops.
-/
import Garnish.Lemmas.Her1
set_option linter.unusedSimpArgs false
set_option linter.unusedVariables false
set_option linter.unusedSectionVars false
namespace Garnish.Lemmas.Her
open Garnish Gen Garnish.Abs

variable {F : Type} {q : Val F → Bool} [hq : LeafOK q] (fo : FloatOps F)

theorem her_accessInt {idx : Number F} {v x : Val F} (hv : her q v = true) (h : accessInt fo idx v = .some x) :
    her q x = true := by
  unfold accessInt at h
  split at h
  · split at h
    · cases h; exact hv
    · cases h
  · cases h
  · rename_i items
    simp [her] at hv
    split at h
    · cases h
    · split at h
      · split at h
        · rename_i y hy; cases h; exact herL_get hv hy
        · cases h
      · cases h
  · split at h
    · cases h
    · split at h
      · split at h
        · cases h; fresh
        · cases h
      · cases h
  · split at h
    · cases h
    · split at h
      · split at h
        · cases h; fresh
        · cases h
      · cases h
  · split at h
    · cases h
    · split at h
      · split at h
        · cases h; fresh
        · cases h; fresh
        · cases h
      · cases h
  · split at h
    · cases h
    · split at h
      · split at h
        · cases h; fresh
        · cases h
      · cases h
  · cases h
  · rename_i l r
    simp [her] at hv
    split at h
    · split at h
      · cases h
      · split at h
        · rename_i y hy
          cases h
          refine herL_get ?_ hy
          rw [herL_append, her_flatItems l hv.1, her_flatItems r hv.2]; fresh
        · cases h
    · cases h
  · cases h
  · cases h

theorem her_accessSym {s : Nat} {v x : Val F} (hv : her q v = true) (h : accessSym s v = .some x) : her q x = true := by
  unfold accessSym at h
  split at h
  · split at h
    · cases h; simp [her] at hv; exact hv.2
    · cases h
  · cases h
  · rename_i items
    simp [her] at hv
    split at h
    · rename_i y hy; cases h; exact her_lookupSym s items hv _ hy
    · cases h
  · rename_i l r
    simp [her] at hv
    split at h
    · rename_i y hy
      cases h
      cases hr : lookupRev s r with
      | some z => rw [hr] at hy; simp [Option.orElse] at hy; subst hy; exact her_lookupRev s r hv.2 z hr
      | none => rw [hr] at hy; simp [Option.orElse] at hy; exact her_lookupRev s l hv.1 _ hy
    · cases h
  · cases h
  · cases h

theorem her_getAccess {key v x : Val F} (hv : her q v = true) (h : getAccess fo key v = .some x) : her q x = true := by
  unfold getAccess at h
  split at h
  · exact her_accessInt fo hv h
  · exact her_accessSym hv h
  · cases h

theorem her_accessPath : ∀ (ps : List (SymPart F)) (cur x : Val F), her q cur = true → accessPath fo ps cur = .some x →
    her q x = true
  | [], cur, x, hc, h => by simp [accessPath] at h; subst h; exact hc
  | p :: ps, cur, x, hc, h => by
    simp only [accessPath] at h
    cases p with
    | sym s =>
      simp only at h
      cases hr : accessSym s cur with
      | some v => rw [hr] at h; exact her_accessPath ps v x (her_accessSym hc hr) h
      | none => rw [hr] at h; simp at h; subst h; fresh
      | unsupported => rw [hr] at h; simp at h; subst h; fresh
      | err e => rw [hr] at h; cases h
    | num n =>
      simp only at h
      cases hr : accessInt fo n cur with
      | some v => rw [hr] at h; exact her_accessPath ps v x (her_accessInt fo hc hr) h
      | none => rw [hr] at h; simp at h; subst h; fresh
      | unsupported => rw [hr] at h; simp at h; subst h; fresh
      | err e => rw [hr] at h; cases h

end Garnish.Lemmas.Her
