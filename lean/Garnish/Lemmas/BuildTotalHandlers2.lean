/-
Totality of the emitting traversal of `build` — part 5: the remaining handlers and `handle_parse_node`.
-/
import Garnish.Lemmas.BuildTotalHandlers
namespace Garnish.Lemmas.BuildTotal
open Garnish Garnish.Gen Garnish.Model.Parser Garnish.Model.Literals Garnish.Model.Build Garnish.Lemmas.Build

variable {F : Type} {root : Nat} {tree : Array ParseNode} {G : Nat → Prop}

/-! ### literal parsers return -/

section literals
variable (parseFloat : List Char → Option F)

@[simp] theorem good_dataErr {α : Type} {P : α → Prop} : Good P (dataErr : Outcome α) := trivial

theorem parseNumberInternal_good (input : List Char) (radix : Nat) :
    Good (fun _ => True) (parseNumberInternal parseFloat input radix) := by
  unfold parseNumberInternal
  dsimp only
  refine good_bind (Q := fun _ => True) ?_ (fun r _ => ?_)
  · repeat' (first | exact good_dataErr | exact trivial | split)
  · obtain ⟨radix, input⟩ := r
    dsimp only
    repeat' (first | exact good_dataErr | exact trivial | split)

theorem charListStep_good (q : Nat) (st : CharListState) (c : Char) : Good (fun _ => True) (charListStep parseFloat q st c) := by
  unfold charListStep
  repeat' (first
    | exact good_dataErr
    | exact trivial
    | (refine good_bind (parseNumberInternal_good parseFloat _ _) (fun _ _ => ?_))
    | split)

theorem charListLoop_good (q : Nat) : ∀ (l : List Char) (st : CharListState), Good (fun _ => True) (charListLoop parseFloat q st l) := by
  intro l
  induction l with
  | nil => intro st; exact trivial
  | cons c rest ih =>
    intro st
    simp only [charListLoop]
    exact good_bind (charListStep_good parseFloat q st c) (fun st' _ => ih st')

theorem parseCharList_good (input : List Char) : Good (fun _ => True) (parseCharList parseFloat input) := by
  unfold parseCharList
  repeat' (first
    | exact trivial
    | (refine good_bind (charListLoop_good parseFloat _ _ _) (fun _ _ => ?_))
    | split
    | dsimp only)

/-- what the builder needs of the literal text of one node: the two slicing operations of the literal layer succeed
(`&text[1..]` of a Symbol, and `parse_byte_list` — whose only failure mode besides `Err` is its byte-offset slice) -/
structure LitSafe (pn : ParseNode) : Prop where
  symbol : pn.definition = .symbol → dropFirstByte pn.lexToken.text ≠ none
  byteList : pn.definition = .byteList → Good (fun _ => True) (parseByteList parseFloat pn.lexToken.text)

end literals

section pre
variable {ph : Nat → Phase} {ctx : Ctx F} {ni : Nat} {pn : ParseNode}

/-- a single visit that finishes the node and schedules its right child on `stack` (Group) -/
theorem Pre.stackVisit (p : Pre root tree G ph ctx ni pn) {ctx' : Ctx F} {r : Nat} (hr : pn.right = some r)
    (hp1 : ph ni = .p1) (hnl : isLate pn.definition = false) (b : BuildNode) (hb : b.parseNodeIndex = r)
    (hbi : b.conditionalItems = #[])
    (hS : ctx'.stack = ctx.stack.push r) (hR : ctx'.rootStack = ctx.rootStack) (hN : ctx'.nodes = putNode ctx.nodes r b) :
    Post root tree G ph ctx' := by
  refine step_inv p.V p.inv p.hG p.hph p.hns p.hpn .p3 (Or.inr rfl) (fun h => by cases h) [r] [] [r] [] [(r, b)]
    (by rw [hS]; simp) (by rw [hR]; simp) (by rw [hN]; rfl) (fun x hx => Or.inr hx) (fun _ h => h)
    (fun x hx => by cases hx) (fun _ => List.nodup_nil) (by simp) (fun c hc => ?_) (fun q hq => ?_) (fun q hq => ?_)
    (fun h => by cases h)
  · have : c = r := by simpa using hc
    subst this
    exact ⟨p.childR hr, fun hl => absurd hl (p.notLate hnl _), fun h2 => by rw [hp1] at h2; cases h2⟩
  · have : q = (r, b) := by simpa using hq
    subst this; exact hb
  · have : q = (r, b) := by simpa using hq
    subst this; exact Or.inr ⟨by simp, hbi⟩

theorem handleGroup_total (p : Pre root tree G ph ctx ni pn) (hdef : pn.definition = .group) :
    Good (Post root tree G ph) (handleGroup ctx ni pn) := by
  unfold handleGroup
  have hp1 : ph ni = .p1 := by
    rcases p.hph with h | h
    · exact h
    · exact absurd hdef (p.inv.p2two ni pn p.hpn h).1
  cases hr : pn.right with
  | none =>
    dsimp only
    exact p.lastVisit [] rfl rfl rfl (fun q hq => by cases hq) (fun q hq => by cases hq)
  | some r =>
    dsimp only
    refine good_bind (getNode_good ctx.nodes ni) (fun node hnode => ?_)
    have hrlt := p.child_lt (p.childR hr)
    simp only [setNodeIdx_eq, hrlt, bind_ok, good_ok]
    exact p.stackVisit hr hp1 (by rw [hdef]; rfl) _ rfl rfl rfl rfl rfl

theorem handleNestedExpression_total (p : Pre root tree G ph ctx ni pn) (hdef : pn.definition = .nestedExpression) (crj : Nat) :
    Good (Post root tree G ph) (handleNestedExpression ctx crj ni pn) := by
  unfold handleNestedExpression
  cases hr : pn.right with
  | none =>
    dsimp only
    exact p.lastVisit [] rfl rfl rfl (fun q hq => by cases hq) (fun q hq => by cases hq)
  | some r =>
    dsimp only
    have hrlt := p.child_lt (p.childR hr)
    simp only [setNodeIdx_eq, hrlt, bind_ok, good_ok]
    exact p.rootVisit hr (fun h2 => absurd hdef (p.inv.p2two ni pn p.hpn h2).2) _ rfl rfl rfl rfl rfl

theorem handleLogicalBinary_total (p : Pre root tree G ph ctx ni pn) (hlate : isLate pn.definition = true)
    (hd : pn.definition ≠ .group ∧ pn.definition ≠ .nestedExpression) (ins : Instruction) :
    Good (Post root tree G ph) (handleLogicalBinary ins ctx ni pn) := by
  unfold handleLogicalBinary
  refine good_bind (getNode_good ctx.nodes ni) (fun node hnode => ?_)
  have hpni := p.pni hnode
  cases hst : node.state with
  | uninitialized =>
    dsimp only
    cases hl : pn.left with
    | none => exact good_buildErr
    | some l =>
      dsimp only
      have hllt := p.child_lt (p.childL hl)
      simp only [setNodeIdx_eq, size_putNode, hllt, bind_ok, good_ok, hpni]
      exact p.firstVisit hnode hst hd [l] [ni, l] [(ni, _), (l, _)] (by simp) rfl rfl (by list_tac) (by list_tac) (by simp)
        (fun c hc => by
          have : c = l := by simpa using hc
          subst this; exact ⟨p.childL hl, p.left_notLate hl⟩) (by asgp_tac) (by asg_tac) ⟨_, List.mem_cons_self⟩
  | initialized =>
    dsimp only
    cases hr : pn.right with
    | none => exact good_buildErr
    | some r =>
      dsimp only
      have hrlt := p.child_lt (p.childR hr)
      simp only [setNodeIdx_eq, hrlt, bind_ok, good_ok]
      exact p.rootVisit hr (fun _ => hlate) _ rfl rfl rfl rfl rfl

theorem handleJumpIf_total (p : Pre root tree G ph ctx ni pn) (hlate : isLate pn.definition = true)
    (hd : pn.definition ≠ .group ∧ pn.definition ≠ .nestedExpression) (ins : Instruction) :
    Good (Post root tree G ph) (handleJumpIf ins ctx ni pn) := by
  unfold handleJumpIf
  refine good_bind (getNode_good ctx.nodes ni) (fun node hnode => ?_)
  have hpni := p.pni hnode
  cases hst : node.state with
  | uninitialized =>
    dsimp only
    cases hl : pn.left with
    | none => exact good_buildErr
    | some l =>
      dsimp only
      have hllt := p.child_lt (p.childL hl)
      simp only [setNodeIdx_eq, size_putNode, hllt, bind_ok, good_ok, hpni]
      exact p.firstVisit hnode hst hd [l] [ni, l] [(ni, _), (l, _)] (by simp) rfl rfl (by list_tac) (by list_tac) (by simp)
        (fun c hc => by
          have : c = l := by simpa using hc
          subst this; exact ⟨p.childL hl, p.left_notLate hl⟩) (by asgp_tac) (by asg_tac) ⟨_, List.mem_cons_self⟩
  | initialized =>
    dsimp only
    cases hr : pn.right with
    | none => exact good_buildErr
    | some r =>
      dsimp only
      cases hcp : node.conditionalParent with
      | some cp =>
        dsimp only
        cases hpar : ctx.nodes[cp]? with
        | none =>
          dsimp only
          exact p.lastVisit [] rfl rfl rfl (fun q hq => by cases hq) (fun q hq => by cases hq)
        | some o =>
          cases o with
          | none =>
            dsimp only
            exact p.lastVisit [] rfl rfl rfl (fun q hq => by cases hq) (fun q hq => by cases hq)
          | some parent =>
            dsimp only
            exact cond_inv p.V p.inv p.hG p.hph p.hns p.hpn hr hlate hpar _ rfl rfl rfl rfl
      | none =>
        dsimp only
        have hrlt := p.child_lt (p.childR hr)
        simp only [setNodeIdx_eq, hrlt, bind_ok, good_ok]
        exact p.rootVisit hr (fun _ => hlate) _ rfl rfl rfl rfl rfl


theorem handleElseJump_total (p : Pre root tree G ph ctx ni pn)
    (hd : pn.definition ≠ .group ∧ pn.definition ≠ .nestedExpression) (hnl : isLate pn.definition = false) :
    Good (Post root tree G ph) (handleElseJump ctx ni pn) := by
  unfold handleElseJump
  refine good_bind (getNode_good ctx.nodes ni) (fun node hnode => ?_)
  have hpni := p.pni hnode
  cases hst : node.state with
  | uninitialized =>
    dsimp only
    cases hr : pn.right with
    | none => exact good_buildErr
    | some r =>
      cases hl : pn.left with
      | none => exact good_buildErr
      | some l =>
        dsimp only
        have hrlt := p.child_lt (p.childR hr)
        have hllt := p.child_lt (p.childL hl)
        have hne := p.lr_ne hl hr
        simp only [setNodeIdx_eq, size_putNode, hrlt, hllt, bind_ok, good_ok, hpni]
        exact p.firstVisit hnode hst hd [r, l] [ni, r, l] [(ni, _), (r, _), (l, _)] (by simp) rfl rfl (by list_tac) (by list_tac)
          (by list_tac) (by child_tac p, hnl) (by asgp_tac) (by asg_tac) ⟨_, List.mem_cons_self⟩
  | initialized =>
    dsimp only
    cases hcp : node.conditionalParent with
    | some cp =>
      dsimp only
      exact p.lastVisit [] rfl rfl rfl (fun q hq => by cases hq) (fun q hq => by cases hq)
    | none =>
      dsimp only
      split
      · generalize heq : elseJumpItems node.containingExpressionJump (getJumpTableLen ctx.data)
          node.conditionalItems.toList ctx.rootStack #[] = res
        obtain ⟨rootStack, newItems⟩ := res
        dsimp only
        have hspec := elseJumpItems_spec node.containingExpressionJump (getJumpTableLen ctx.data)
          node.conditionalItems.toList ctx.rootStack #[]
        rw [heq] at hspec
        obtain ⟨hs1, hs2⟩ := hspec
        dsimp only at hs1 hs2
        simp only [List.nil_append, show (#[] : Array (Nat × BuildNode)).toList = [] from rfl] at hs2
        have hni3 : ph ni ≠ .p3 := by rcases p.hph with h1 | h1 <;> rw [h1] <;> intro h <;> cases h
        have hlt : ∀ q, q ∈ newItems.toList → q.1 < ctx.nodes.size := by
          intro q hq
          rw [hs2] at hq
          obtain ⟨it, hit, he⟩ := List.mem_map.1 hq
          subst he
          rw [p.inv.size]
          exact G_lt p.V (p.inv.items ni node hnode hni3 it hit).1
        rw [assignNewItems_eq _ _ hlt]
        simp only [bind_ok, good_ok]
        exact else_inv p.V p.inv p.hG p.hph p.hns hnode node.containingExpressionJump (getJumpTableLen ctx.data) rfl hs1
          (by show assign ctx.nodes newItems.toList = _; rw [hs2])
      · exact p.lastVisit [] rfl rfl rfl (fun q hq => by cases hq) (fun q hq => by cases hq)

theorem handleValueLike_total (p : Pre root tree G ph ctx ni pn)
    (hd : pn.definition ≠ .group ∧ pn.definition ≠ .nestedExpression) (hnl : isLate pn.definition = false)
    {addFn : AddFn F} (hadd : ∀ d, Good (fun _ => True) (addFn d pn)) (ins : Instruction) :
    Good (Post root tree G ph) (handleValueLike addFn ins ctx ni pn) := by
  unfold handleValueLike
  refine good_bind (getNode_good ctx.nodes ni) (fun node hnode => ?_)
  have hpni := p.pni hnode
  cases hst : node.state with
  | uninitialized =>
    dsimp only
    cases hr : pn.right with
    | none =>
      cases hl : pn.left with
      | none =>
        simp only [bind_ok, good_ok, hpni]
        exact p.firstVisit hnode hst hd [] [ni] [(ni, _)] (by simp) rfl rfl (by list_tac) (by list_tac) (by simp)
          (fun c hc => by cases hc) (by asgp_tac) (by asg_tac) ⟨_, List.mem_cons_self⟩
      | some l =>
        have hllt := p.child_lt (p.childL hl)
        simp only [setNodeIdx_eq, size_putNode, hllt, bind_ok, good_ok, hpni]
        exact p.firstVisit hnode hst hd [l] [ni, l] [(ni, _), (l, _)] (by simp) rfl rfl (by list_tac) (by list_tac) (by simp)
          (by child_tac p, hnl) (by asgp_tac) (by asg_tac) ⟨_, List.mem_cons_self⟩
    | some r =>
      have hrlt := p.child_lt (p.childR hr)
      cases hl : pn.left with
      | none =>
        simp only [setNodeIdx_eq, size_putNode, hrlt, bind_ok, good_ok, hpni]
        exact p.firstVisit hnode hst hd [r] [r, ni] [(ni, _), (r, _)] (by simp) rfl rfl (by list_tac) (by list_tac) (by simp)
          (by child_tac p, hnl) (by asgp_tac) (by asg_tac) ⟨_, List.mem_cons_self⟩
      | some l =>
        have hllt := p.child_lt (p.childL hl)
        have hne := p.lr_ne hl hr
        simp only [setNodeIdx_eq, size_putNode, hrlt, hllt, bind_ok, good_ok, hpni]
        exact p.firstVisit hnode hst hd [r, l] [r, ni, l] [(ni, _), (r, _), (l, _)] (by simp) rfl rfl (by list_tac) (by list_tac)
          (by list_tac) (by child_tac p, hnl) (by asgp_tac) (by asg_tac) ⟨_, List.mem_cons_self⟩
  | initialized =>
    dsimp only
    refine good_bind (hadd ctx.data) (fun res _ => ?_)
    exact p.lastVisit [] rfl rfl rfl (fun q hq => by cases hq) (fun q hq => by cases hq)

theorem handleValuePrimitive_total (p : Pre root tree G ph ctx ni pn)
    (hd : pn.definition ≠ .group ∧ pn.definition ≠ .nestedExpression) (hnl : isLate pn.definition = false)
    {addFn : BState F → ParseNode → Outcome (BState F × Nat)} (hadd : ∀ d, Good (fun _ => True) (addFn d pn)) :
    Good (Post root tree G ph) (handleValuePrimitive addFn ctx ni pn) := by
  unfold handleValuePrimitive
  refine handleValueLike_total p hd hnl (fun d => ?_) _
  refine good_bind (hadd d) (fun r _ => ?_)
  exact trivial

theorem handleList_total (p : Pre root tree G ph ctx ni pn)
    (hd : pn.definition ≠ .group ∧ pn.definition ≠ .nestedExpression) (hnl : isLate pn.definition = false) :
    Good (Post root tree G ph) (handleList ctx ni pn) := by
  unfold handleList
  refine good_bind (getNode_good ctx.nodes ni) (fun node hnode => ?_)
  have hpni := p.pni hnode
  cases hst : node.state with
  | uninitialized =>
    dsimp only
    cases hlp : node.listParent with
    | none =>
      dsimp only
      cases hr : pn.right with
      | none =>
        cases hl : pn.left with
        | none =>
          simp only [bind_ok, good_ok, hpni]
          exact p.firstVisit hnode hst hd [] [ni] [(ni, _)] (by simp) rfl rfl (by list_tac) (by list_tac) (by simp)
            (fun c hc => by cases hc) (by asgp_tac) (by asg_tac) ⟨_, List.mem_cons_self⟩
        | some l =>
          have hllt := p.child_lt (p.childL hl)
          simp only [setNodeIdx_eq, size_putNode, hllt, bind_ok, good_ok, hpni]
          exact p.firstVisit hnode hst hd [l] [ni, l] [(ni, _), (l, _)] (by simp) rfl rfl (by list_tac) (by list_tac) (by simp)
            (by child_tac p, hnl) (by asgp_tac) (by asg_tac) ⟨_, List.mem_cons_self⟩
      | some r =>
        have hrlt := p.child_lt (p.childR hr)
        cases hl : pn.left with
        | none =>
          simp only [setNodeIdx_eq, size_putNode, hrlt, bind_ok, good_ok, hpni]
          exact p.firstVisit hnode hst hd [r] [ni, r] [(ni, _), (r, _)] (by simp) rfl rfl (by list_tac) (by list_tac) (by simp)
            (by child_tac p, hnl) (by asgp_tac) (by asg_tac) ⟨_, List.mem_cons_self⟩
        | some l =>
          have hllt := p.child_lt (p.childL hl)
          have hne := p.lr_ne hl hr
          simp only [setNodeIdx_eq, size_putNode, hrlt, hllt, bind_ok, good_ok, hpni]
          exact p.firstVisit hnode hst hd [r, l] [ni, r, l] [(ni, _), (r, _), (l, _)] (by simp) rfl rfl (by list_tac) (by list_tac)
            (by list_tac) (by child_tac p, hnl) (by asgp_tac) (by asg_tac) ⟨_, List.mem_cons_self⟩
    | some pd =>
      obtain ⟨par, d⟩ := pd
      dsimp only
      rcases Classical.em ((d == pn.definition) = true) with hb | hb
      · rw [if_pos hb]
        dsimp only
        cases hr : pn.right with
        | none =>
          cases hl : pn.left with
          | none =>
            simp only [bind_ok, good_ok, hpni]
            exact p.firstVisit hnode hst hd [] [ni] [(ni, _)] (by simp) rfl rfl (by list_tac) (by list_tac) (by simp)
              (fun c hc => by cases hc) (by asgp_tac) (by asg_tac) ⟨_, List.mem_cons_self⟩
          | some l =>
            have hllt := p.child_lt (p.childL hl)
            simp only [setNodeIdx_eq, size_putNode, hllt, bind_ok, good_ok, hpni]
            exact p.firstVisit hnode hst hd [l] [ni, l] [(ni, _), (l, _)] (by simp) rfl rfl (by list_tac) (by list_tac) (by simp)
              (by child_tac p, hnl) (by asgp_tac) (by asg_tac) ⟨_, List.mem_cons_self⟩
        | some r =>
          have hrlt := p.child_lt (p.childR hr)
          cases hl : pn.left with
          | none =>
            simp only [setNodeIdx_eq, size_putNode, hrlt, bind_ok, good_ok, hpni]
            exact p.firstVisit hnode hst hd [r] [ni, r] [(ni, _), (r, _)] (by simp) rfl rfl (by list_tac) (by list_tac) (by simp)
              (by child_tac p, hnl) (by asgp_tac) (by asg_tac) ⟨_, List.mem_cons_self⟩
          | some l =>
            have hllt := p.child_lt (p.childL hl)
            have hne := p.lr_ne hl hr
            simp only [setNodeIdx_eq, size_putNode, hrlt, hllt, bind_ok, good_ok, hpni]
            exact p.firstVisit hnode hst hd [r, l] [ni, r, l] [(ni, _), (r, _), (l, _)] (by simp) rfl rfl (by list_tac) (by list_tac)
              (by list_tac) (by child_tac p, hnl) (by asgp_tac) (by asg_tac) ⟨_, List.mem_cons_self⟩
      · rw [if_neg hb]
        dsimp only
        cases hr : pn.right with
        | none =>
          cases hl : pn.left with
          | none =>
            simp only [bind_ok, good_ok, hpni]
            exact p.firstVisit hnode hst hd [] [ni] [(ni, _)] (by simp) rfl rfl (by list_tac) (by list_tac) (by simp)
              (fun c hc => by cases hc) (by asgp_tac) (by asg_tac) ⟨_, List.mem_cons_self⟩
          | some l =>
            have hllt := p.child_lt (p.childL hl)
            simp only [setNodeIdx_eq, size_putNode, hllt, bind_ok, good_ok, hpni]
            exact p.firstVisit hnode hst hd [l] [ni, l] [(ni, _), (l, _)] (by simp) rfl rfl (by list_tac) (by list_tac) (by simp)
              (by child_tac p, hnl) (by asgp_tac) (by asg_tac) ⟨_, List.mem_cons_self⟩
        | some r =>
          have hrlt := p.child_lt (p.childR hr)
          cases hl : pn.left with
          | none =>
            simp only [setNodeIdx_eq, size_putNode, hrlt, bind_ok, good_ok, hpni]
            exact p.firstVisit hnode hst hd [r] [ni, r] [(ni, _), (r, _)] (by simp) rfl rfl (by list_tac) (by list_tac) (by simp)
              (by child_tac p, hnl) (by asgp_tac) (by asg_tac) ⟨_, List.mem_cons_self⟩
          | some l =>
            have hllt := p.child_lt (p.childL hl)
            have hne := p.lr_ne hl hr
            simp only [setNodeIdx_eq, size_putNode, hrlt, hllt, bind_ok, good_ok, hpni]
            exact p.firstVisit hnode hst hd [r, l] [ni, r, l] [(ni, _), (r, _), (l, _)] (by simp) rfl rfl (by list_tac) (by list_tac)
              (by list_tac) (by child_tac p, hnl) (by asgp_tac) (by asg_tac) ⟨_, List.mem_cons_self⟩
  | initialized =>
    dsimp only
    have key0 : Good (Post root tree G ph) (Outcome.ok ctx) :=
      p.lastVisit [] rfl rfl rfl (fun q hq => by cases hq) (fun q hq => by cases hq)
    have key : Good (Post root tree G ph) (Outcome.bind (getNode ctx.nodes ni) fun node =>
        Outcome.ok { ctx with
          nodes := putNode ctx.nodes ni { node with childCount := node.childCount + 1 },
          data := pushInstr ctx.data .makeList (some node.childCount) (some node.parseNodeIndex) }) := by
      refine good_bind (getNode_good ctx.nodes ni) (fun node2 hnode2 => ?_)
      have hp2 := p.pni hnode2
      refine p.lastVisit [(ni, _)] rfl rfl rfl (fun q hq => ?_) (fun q hq => ?_)
      · simp only [List.mem_cons, List.mem_nil_iff, or_false] at hq
        subst hq; exact hp2
      · simp only [List.mem_cons, List.mem_nil_iff, or_false] at hq
        subst hq; exact ⟨rfl, node2, hnode2, rfl⟩
    repeat' (first | exact key0 | exact key | split)

end pre

end Garnish.Lemmas.BuildTotal
