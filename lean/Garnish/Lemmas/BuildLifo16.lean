/-
C04, builder half — the order of the out-of-line parts, part 16: lists keep `LInv`.
-/
import Garnish.Lemmas.BuildLifo15
namespace Garnish.Lemmas.BuildSeq
open Garnish Garnish.Gen Garnish.Model.Parser Garnish.Model.Literals Garnish.Model.Build Garnish.Lemmas.Build
open Garnish.Lemmas.BuildTotal
open Garnish.Lemmas.BuildAttr (getNode_sat_eq setNodeIdx_sat_eq AddMeta)

variable {F : Type} {root : Nat} {tree : Array ParseNode} {G : Nat → Prop} {m0 : Nat}

section pre
variable {ph : Nat → Phase} {ctx : Ctx F} {ni : Nat} {pn : ParseNode}

theorem handleList_lifo (p : PreL root tree G m0 ph ctx ni pn)
    (hd : pn.definition ≠ .group ∧ pn.definition ≠ .nestedExpression) (hnl : isLate pn.definition = false)
    (hk : layout pn.definition = .lrn) (hnse : pn.definition ≠ .sideEffect) (hne : pn.definition ≠ .elseJump) :
    Sat (PostL root tree G m0 ph) (handleList ctx ni pn) := by
  unfold handleList
  have hnool := oolR_false hnl hd.2
  have hnlog := not_logical hnl
  refine sat_bind (getNode_sat_eq ctx.nodes ni) (fun node hnode => ?_)
  have hpni := p.pre.pni hnode
  cases hst : node.state with
  | uninitialized =>
    dsimp only
    cases hlp : node.listParent with
    | none =>
      dsimp only
      cases hr : pn.right with
      | none =>
        cases hl : pn.left with
        | none =>
          simp only [bind_ok, sat_ok, hpni]
          exact p.firstVisit hnode hst hd [] [ni] [(ni, _)] [] (by simp) (fun m hm => by cases hm) (by simp) rfl rfl
            (by list_tac) (by list_tac) (by simp) (by simp) (fun c hc => by cases hc)
            (fun c hc => by cases hc) (by asgp_tac) (by asg_tac) ⟨_, List.mem_cons_self⟩ (by asgu_tac) (fun c hc => by cases hc)
            (conf_layout p.pre.hpn (none) (none) hl hr .lrn hk .p2 (fun _ => rfl) [] [ni] rfl (fun c => by simp [csOf]))
            (by simp) (fun h => absurd h hnse)
            (all_layout p.pre.hpn (none) (none) hl hr .lrn hk [] (fun c => by simp [csOf])) (by cp_tac trivial, trivial, rfl)
        | some l =>
          have hllt := p.pre.child_lt (p.pre.childL hl)
          have hcL : NCP tree G root l := p.ncp (Or.inl hl) hne (fun ⟨h, _⟩ => by rw [hnlog] at h; cases h)
          simp only [setNodeIdx_eq, size_putNode, hllt, bind_ok, sat_ok, hpni]
          exact p.firstVisit hnode hst hd [l] [ni, l] [(ni, _), (l, _)] [] (by simp) (fun m hm => by cases hm) (by simp) rfl rfl
            (by list_tac) (by list_tac) (by simp) (by simp) (by list_tac)
            (by child_tac p.pre, hnl) (by asgp_tac) (by asg_tac) ⟨_, List.mem_cons_self⟩ (by asgu_tac) (by asgall_tac)
            (conf_layout p.pre.hpn (some l) (none) hl hr .lrn hk .p2 (fun _ => rfl) [l] [ni, l] rfl (fun c => by simp [csOf]))
            (by simp) (fun h => absurd h hnse)
            (all_layout p.pre.hpn (some l) (none) hl hr .lrn hk [l] (fun c => by simp [csOf])) (by cp_tac hcL, hcL, rfl)
      | some r =>
        have hrlt := p.pre.child_lt (p.pre.childR hr)
        have hcR : NCP tree G root r := p.ncp (Or.inr hr) hne (fun ⟨h, _⟩ => by rw [hnlog] at h; cases h)
        cases hl : pn.left with
        | none =>
          simp only [setNodeIdx_eq, size_putNode, hrlt, bind_ok, sat_ok, hpni]
          exact p.firstVisit hnode hst hd [r] [ni, r] [(ni, _), (r, _)] [] (by simp) (fun m hm => by cases hm) (by simp) rfl rfl
            (by list_tac) (by list_tac) (by simp) (by simp) (by list_tac)
            (by child_tac p.pre, hnl) (by asgp_tac) (by asg_tac) ⟨_, List.mem_cons_self⟩ (by asgu_tac) (by asgall_tac)
            (conf_layout p.pre.hpn (none) (some r) hl hr .lrn hk .p2 (fun _ => rfl) [r] [ni, r] rfl (fun c => by simp [csOf]))
            (by simp) (fun h => absurd h hnse)
            (all_layout p.pre.hpn (none) (some r) hl hr .lrn hk [r] (fun c => by simp [csOf])) (by cp_tac hcR, hcR, rfl)
        | some l =>
          have hllt := p.pre.child_lt (p.pre.childL hl)
          have hne' := p.pre.lr_ne hl hr
          have hcL : NCP tree G root l := p.ncp (Or.inl hl) hne (fun ⟨h, _⟩ => by rw [hnlog] at h; cases h)
          simp only [setNodeIdx_eq, size_putNode, hrlt, hllt, bind_ok, sat_ok, hpni]
          exact p.firstVisit hnode hst hd [r, l] [ni, r, l] [(ni, _), (r, _), (l, _)] [] (by simp) (fun m hm => by cases hm) (by simp) rfl rfl
            (by list_tac) (by list_tac) (by list_tac) (by simp) (by list_tac)
            (by child_tac p.pre, hnl) (by asgp_tac) (by asg_tac) ⟨_, List.mem_cons_self⟩ (by asgu_tac) (by asgall_tac)
            (conf_layout p.pre.hpn (some l) (some r) hl hr .lrn hk .p2 (fun _ => rfl) [r, l] [ni, r, l] rfl (fun c => by simp [csOf]))
            (by simp) (fun h => absurd h hnse)
            (all_layout p.pre.hpn (some l) (some r) hl hr .lrn hk [r, l] (fun c => by simp [csOf])) (by cp_tac hcR, hcL, rfl)
    | some pd =>
      obtain ⟨par, d⟩ := pd
      dsimp only
      rcases Classical.em ((d == pn.definition) = true) with hb | hb
      · rw [if_pos hb]
        dsimp only
        cases hr : pn.right with
        | none =>
          cases hl : pn.left with
          | none =>
            simp only [bind_ok, sat_ok, hpni]
            exact p.firstVisit hnode hst hd [] [ni] [(ni, _)] [] (by simp) (fun m hm => by cases hm) (by simp) rfl rfl
              (by list_tac) (by list_tac) (by simp) (by simp) (fun c hc => by cases hc)
              (fun c hc => by cases hc) (by asgp_tac) (by asg_tac) ⟨_, List.mem_cons_self⟩ (by asgu_tac) (fun c hc => by cases hc)
              (conf_layout p.pre.hpn (none) (none) hl hr .lrn hk .p2 (fun _ => rfl) [] [ni] rfl (fun c => by simp [csOf]))
              (by simp) (fun h => absurd h hnse)
              (all_layout p.pre.hpn (none) (none) hl hr .lrn hk [] (fun c => by simp [csOf])) (by cp_tac trivial, trivial, rfl)
          | some l =>
            have hllt := p.pre.child_lt (p.pre.childL hl)
            have hcL : NCP tree G root l := p.ncp (Or.inl hl) hne (fun ⟨h, _⟩ => by rw [hnlog] at h; cases h)
            simp only [setNodeIdx_eq, size_putNode, hllt, bind_ok, sat_ok, hpni]
            exact p.firstVisit hnode hst hd [l] [ni, l] [(ni, _), (l, _)] [] (by simp) (fun m hm => by cases hm) (by simp) rfl rfl
              (by list_tac) (by list_tac) (by simp) (by simp) (by list_tac)
              (by child_tac p.pre, hnl) (by asgp_tac) (by asg_tac) ⟨_, List.mem_cons_self⟩ (by asgu_tac) (by asgall_tac)
              (conf_layout p.pre.hpn (some l) (none) hl hr .lrn hk .p2 (fun _ => rfl) [l] [ni, l] rfl (fun c => by simp [csOf]))
              (by simp) (fun h => absurd h hnse)
              (all_layout p.pre.hpn (some l) (none) hl hr .lrn hk [l] (fun c => by simp [csOf])) (by cp_tac hcL, hcL, rfl)
        | some r =>
          have hrlt := p.pre.child_lt (p.pre.childR hr)
          have hcR : NCP tree G root r := p.ncp (Or.inr hr) hne (fun ⟨h, _⟩ => by rw [hnlog] at h; cases h)
          cases hl : pn.left with
          | none =>
            simp only [setNodeIdx_eq, size_putNode, hrlt, bind_ok, sat_ok, hpni]
            exact p.firstVisit hnode hst hd [r] [ni, r] [(ni, _), (r, _)] [] (by simp) (fun m hm => by cases hm) (by simp) rfl rfl
              (by list_tac) (by list_tac) (by simp) (by simp) (by list_tac)
              (by child_tac p.pre, hnl) (by asgp_tac) (by asg_tac) ⟨_, List.mem_cons_self⟩ (by asgu_tac) (by asgall_tac)
              (conf_layout p.pre.hpn (none) (some r) hl hr .lrn hk .p2 (fun _ => rfl) [r] [ni, r] rfl (fun c => by simp [csOf]))
              (by simp) (fun h => absurd h hnse)
              (all_layout p.pre.hpn (none) (some r) hl hr .lrn hk [r] (fun c => by simp [csOf])) (by cp_tac hcR, hcR, rfl)
          | some l =>
            have hllt := p.pre.child_lt (p.pre.childL hl)
            have hne' := p.pre.lr_ne hl hr
            have hcL : NCP tree G root l := p.ncp (Or.inl hl) hne (fun ⟨h, _⟩ => by rw [hnlog] at h; cases h)
            simp only [setNodeIdx_eq, size_putNode, hrlt, hllt, bind_ok, sat_ok, hpni]
            exact p.firstVisit hnode hst hd [r, l] [ni, r, l] [(ni, _), (r, _), (l, _)] [] (by simp) (fun m hm => by cases hm) (by simp) rfl rfl
              (by list_tac) (by list_tac) (by list_tac) (by simp) (by list_tac)
              (by child_tac p.pre, hnl) (by asgp_tac) (by asg_tac) ⟨_, List.mem_cons_self⟩ (by asgu_tac) (by asgall_tac)
              (conf_layout p.pre.hpn (some l) (some r) hl hr .lrn hk .p2 (fun _ => rfl) [r, l] [ni, r, l] rfl (fun c => by simp [csOf]))
              (by simp) (fun h => absurd h hnse)
              (all_layout p.pre.hpn (some l) (some r) hl hr .lrn hk [r, l] (fun c => by simp [csOf])) (by cp_tac hcR, hcL, rfl)
      · rw [if_neg hb]
        dsimp only
        cases hr : pn.right with
        | none =>
          cases hl : pn.left with
          | none =>
            simp only [bind_ok, sat_ok, hpni]
            exact p.firstVisit hnode hst hd [] [ni] [(ni, _)] [] (by simp) (fun m hm => by cases hm) (by simp) rfl rfl
              (by list_tac) (by list_tac) (by simp) (by simp) (fun c hc => by cases hc)
              (fun c hc => by cases hc) (by asgp_tac) (by asg_tac) ⟨_, List.mem_cons_self⟩ (by asgu_tac) (fun c hc => by cases hc)
              (conf_layout p.pre.hpn (none) (none) hl hr .lrn hk .p2 (fun _ => rfl) [] [ni] rfl (fun c => by simp [csOf]))
              (by simp) (fun h => absurd h hnse)
              (all_layout p.pre.hpn (none) (none) hl hr .lrn hk [] (fun c => by simp [csOf])) (by cp_tac trivial, trivial, rfl)
          | some l =>
            have hllt := p.pre.child_lt (p.pre.childL hl)
            have hcL : NCP tree G root l := p.ncp (Or.inl hl) hne (fun ⟨h, _⟩ => by rw [hnlog] at h; cases h)
            simp only [setNodeIdx_eq, size_putNode, hllt, bind_ok, sat_ok, hpni]
            exact p.firstVisit hnode hst hd [l] [ni, l] [(ni, _), (l, _)] [] (by simp) (fun m hm => by cases hm) (by simp) rfl rfl
              (by list_tac) (by list_tac) (by simp) (by simp) (by list_tac)
              (by child_tac p.pre, hnl) (by asgp_tac) (by asg_tac) ⟨_, List.mem_cons_self⟩ (by asgu_tac) (by asgall_tac)
              (conf_layout p.pre.hpn (some l) (none) hl hr .lrn hk .p2 (fun _ => rfl) [l] [ni, l] rfl (fun c => by simp [csOf]))
              (by simp) (fun h => absurd h hnse)
              (all_layout p.pre.hpn (some l) (none) hl hr .lrn hk [l] (fun c => by simp [csOf])) (by cp_tac hcL, hcL, rfl)
        | some r =>
          have hrlt := p.pre.child_lt (p.pre.childR hr)
          have hcR : NCP tree G root r := p.ncp (Or.inr hr) hne (fun ⟨h, _⟩ => by rw [hnlog] at h; cases h)
          cases hl : pn.left with
          | none =>
            simp only [setNodeIdx_eq, size_putNode, hrlt, bind_ok, sat_ok, hpni]
            exact p.firstVisit hnode hst hd [r] [ni, r] [(ni, _), (r, _)] [] (by simp) (fun m hm => by cases hm) (by simp) rfl rfl
              (by list_tac) (by list_tac) (by simp) (by simp) (by list_tac)
              (by child_tac p.pre, hnl) (by asgp_tac) (by asg_tac) ⟨_, List.mem_cons_self⟩ (by asgu_tac) (by asgall_tac)
              (conf_layout p.pre.hpn (none) (some r) hl hr .lrn hk .p2 (fun _ => rfl) [r] [ni, r] rfl (fun c => by simp [csOf]))
              (by simp) (fun h => absurd h hnse)
              (all_layout p.pre.hpn (none) (some r) hl hr .lrn hk [r] (fun c => by simp [csOf])) (by cp_tac hcR, hcR, rfl)
          | some l =>
            have hllt := p.pre.child_lt (p.pre.childL hl)
            have hne' := p.pre.lr_ne hl hr
            have hcL : NCP tree G root l := p.ncp (Or.inl hl) hne (fun ⟨h, _⟩ => by rw [hnlog] at h; cases h)
            simp only [setNodeIdx_eq, size_putNode, hrlt, hllt, bind_ok, sat_ok, hpni]
            exact p.firstVisit hnode hst hd [r, l] [ni, r, l] [(ni, _), (r, _), (l, _)] [] (by simp) (fun m hm => by cases hm) (by simp) rfl rfl
              (by list_tac) (by list_tac) (by list_tac) (by simp) (by list_tac)
              (by child_tac p.pre, hnl) (by asgp_tac) (by asg_tac) ⟨_, List.mem_cons_self⟩ (by asgu_tac) (by asgall_tac)
              (conf_layout p.pre.hpn (some l) (some r) hl hr .lrn hk .p2 (fun _ => rfl) [r, l] [ni, r, l] rfl (fun c => by simp [csOf]))
              (by simp) (fun h => absurd h hnse)
              (all_layout p.pre.hpn (some l) (some r) hl hr .lrn hk [r, l] (fun c => by simp [csOf])) (by cp_tac hcR, hcL, rfl)
  | initialized =>
    dsimp only
    have key0 : Sat (PostL root tree G m0 ph) (Outcome.ok ctx) :=
      p.lastVisit [] [] (by simp) (fun m hm => by cases hm) rfl rfl rfl (fun q hq => by cases hq) (fun q hq => by cases hq)
        (fun h => absurd h hnse) (fun h => absurd h (p.notP1 hnode hst)) (nool_last hnool rfl) (fun h => absurd h hne)
        (fun h => absurd h hd.1)
    have key : Sat (PostL root tree G m0 ph) (Outcome.bind (getNode ctx.nodes ni) fun node =>
        Outcome.ok { ctx with
          nodes := putNode ctx.nodes ni { node with childCount := node.childCount + 1 },
          data := pushInstr ctx.data .makeList (some node.childCount) (some node.parseNodeIndex) }) := by
      refine sat_bind (getNode_sat_eq ctx.nodes ni) (fun node2 hnode2 => ?_)
      have hp2 := p.pre.pni hnode2
      refine p.lastVisit [(ni, _)] [some ni] (by simp [pushInstr, hp2]) (by hl_tac) rfl rfl rfl (fun q hq => ?_) (fun q hq => ?_)
        (fun h => absurd h hnse) (fun h => absurd h (p.notP1 hnode hst)) (nool_last hnool rfl) (fun h => absurd h hne)
        (fun h => absurd h hd.1)
      · simp only [List.mem_cons, List.mem_nil_iff, or_false] at hq
        subst hq; exact hp2
      · simp only [List.mem_cons, List.mem_nil_iff, or_false] at hq
        subst hq; exact ⟨rfl, node2, hnode2, rfl, rfl⟩
    repeat' (first | exact key0 | exact key | split)

end pre

end Garnish.Lemmas.BuildSeq
