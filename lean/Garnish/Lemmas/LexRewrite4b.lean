/-
Text-level rewrites, lexer side, part 4b (C18): inside a whitespace token `can_float` and the two quote counters are dead —
the Spaces / Subexpression arms do not read them, and the end of the token overwrites them before anything reads them
(`finishChar_aux`). Hence the tokens the lexer produces from there do not depend on them (`lexLoop_aux`).
-/
import Garnish.Lemmas.LexRewrite4
set_option linter.unusedSimpArgs false
set_option linter.unusedVariables false
namespace Garnish.Model.Lexer
open Garnish.Model Garnish.Model.Parser Garnish.Spec

/-- the lexer with other values of `can_float`, `start_quote_count`, `end_quote_count` -/
def setAux (σ : Lexer) (f : Bool) (a b : Nat) : Lexer :=
  { σ with canFloat := f, startQuoteCount := a, endQuoteCount := b }

/-- inside a whitespace token -/
def WsT (σ : Lexer) : Prop :=
  (σ.state = .spaces ∨ σ.state = .subexpression) ∧
  (σ.currentTokenType = some .whitespace ∨ σ.currentTokenType = some .subexpression)

theorem armSpaces_aux (σ : Lexer) (c : Char) (f : Bool) (a b : Nat) :
    armSpaces (setAux σ f a b) c = (setAux (armSpaces σ c).1 f a b, (armSpaces σ c).2) := by
  unfold armSpaces setAux
  cases h : σ.couldBeSubExpression <;> simp only [h] <;> repeat' split
  all_goals first | rfl | simp [h]

theorem armSubexpression_aux (σ : Lexer) (c : Char) (f : Bool) (a b : Nat) :
    armSubexpression (setAux σ f a b) c = (setAux (armSubexpression σ c).1 f a b, (armSubexpression σ c).2) := by
  unfold armSubexpression setAux
  repeat' split
  all_goals rfl

theorem bumpColumn_aux (σ : Lexer) (c : Char) (f : Bool) (a b : Nat) :
    bumpColumn (setAux σ f a b) c = setAux (bumpColumn σ c) f a b := by
  unfold bumpColumn setAux; split <;> rfl

theorem pushNewToken_sq (x : Lexer) (a b : Nat) (ty : Gen.TokenType) (hty : x.currentTokenType = some ty) :
    ∃ s t, pushNewToken x none = .cont s t true ∧
      pushNewToken { x with startQuoteCount := a, endQuoteCount := b } none =
        .cont { s with startQuoteCount := a, endQuoteCount := b } t true := by
  unfold pushNewToken
  simp only []
  by_cases hs : (x.state != .noToken) = true
  · rw [if_pos hs, if_pos hs]
    have hc : canCreateValidToken { x with startQuoteCount := a, endQuoteCount := b } = canCreateValidToken x := rfl
    rw [hc]
    by_cases hk : (canCreateValidToken x).isOk = true
    · rw [if_pos hk, if_pos hk]
      simp only [hty]
      exact ⟨_, _, rfl, rfl⟩
    · rw [if_neg hk, if_neg hk]
      exact ⟨_, _, rfl, rfl⟩
  · rw [if_neg hs, if_neg hs]
    exact ⟨_, _, rfl, rfl⟩

/-- the end of a token overwrites the three fields before anything reads them -/
theorem finishChar_aux (cc : CharClass) (e : Lexer) (c : Char) (f : Bool) (a b : Nat) (ty : Gen.TokenType)
    (hty : e.currentTokenType = some ty) :
    finishChar cc (setAux e f a b) c none true = finishChar cc e c none true := by
  obtain ⟨s, t, h1, h2⟩ := pushNewToken_sq { e with canFloat := !blocksFloat e.currentTokenType } a b ty hty
  unfold finishChar
  simp only [↓reduceIte]
  have e1 : ({ setAux e f a b with canFloat := !blocksFloat (setAux e f a b).currentTokenType } : Lexer) =
      { ({ e with canFloat := !blocksFloat e.currentTokenType } : Lexer) with startQuoteCount := a, endQuoteCount := b } := rfl
  rw [e1, h1, h2]

/-- one character from inside a whitespace token, with other values of the three fields: the same result, or the lexer
stays inside the token and differs in those fields only -/
theorem processChar_aux (cc : CharClass) (σ : Lexer) (c : Char) (f : Bool) (a b : Nat) (h : WsT σ) :
    ∃ σ1 ot, processChar cc σ c = .ok (σ1, ot) ∧
      (processChar cc (setAux σ f a b) c = .ok (σ1, ot) ∨
       (ot = none ∧ WsT σ1 ∧ processChar cc (setAux σ f a b) c = .ok (setAux σ1 f a b, none))) := by
  obtain ⟨hs, hty⟩ := h
  -- the arm, on both lexers
  have key : ∃ e fl, stateStep cc { σ with charactersLexed := σ.charactersLexed + 1 } c = .ok (.cont e none fl) ∧
      stateStep cc (setAux { σ with charactersLexed := σ.charactersLexed + 1 } f a b) c = .ok (.cont (setAux e f a b) none fl) ∧
      WsT e := by
    rcases hs with hs | hs
    · have hw := armSpaces_ws { σ with charactersLexed := σ.charactersLexed + 1 } _ c (PosEq.refl _) hs hty
      refine ⟨(armSpaces { σ with charactersLexed := σ.charactersLexed + 1 } c).1,
        (armSpaces { σ with charactersLexed := σ.charactersLexed + 1 } c).2, ?_, ?_, hw.ws, hw.type⟩
      · unfold stateStep
        rw [show ({ σ with charactersLexed := σ.charactersLexed + 1 } : Lexer).state = .spaces from hs]
        rfl
      · unfold stateStep
        rw [show (setAux { σ with charactersLexed := σ.charactersLexed + 1 } f a b).state = .spaces from hs]
        simp only [Step.ofPair, armSpaces_aux]
    · have hw := armSubexpression_ws { σ with charactersLexed := σ.charactersLexed + 1 } _ c (PosEq.refl _) hs
      refine ⟨(armSubexpression { σ with charactersLexed := σ.charactersLexed + 1 } c).1,
        (armSubexpression { σ with charactersLexed := σ.charactersLexed + 1 } c).2, ?_, ?_, hw.ws, hw.type⟩
      · unfold stateStep
        rw [show ({ σ with charactersLexed := σ.charactersLexed + 1 } : Lexer).state = .subexpression from hs]
        rfl
      · unfold stateStep
        rw [show (setAux { σ with charactersLexed := σ.charactersLexed + 1 } f a b).state = .subexpression from hs]
        simp only [Step.ofPair, armSubexpression_aux]
  obtain ⟨e, fl, h1, h2, hwe⟩ := key
  have hp1 : processChar cc σ c = .ok (finishChar cc e c none fl) := by
    unfold processChar; simp only []; rw [h1]
  have hp2 : processChar cc (setAux σ f a b) c = .ok (finishChar cc (setAux e f a b) c none fl) := by
    have e0 : ({ setAux σ f a b with charactersLexed := (setAux σ f a b).charactersLexed + 1 } : Lexer) =
        setAux { σ with charactersLexed := σ.charactersLexed + 1 } f a b := rfl
    unfold processChar; simp only []
    rw [e0, h2]
  refine ⟨(finishChar cc e c none fl).1, (finishChar cc e c none fl).2, by rw [hp1], ?_⟩
  cases fl with
  | true =>
    left
    obtain ⟨ty, hty'⟩ : ∃ ty, e.currentTokenType = some ty := by
      rcases hwe.2 with h | h <;> exact ⟨_, h⟩
    rw [hp2, finishChar_aux cc e c f a b ty hty']
  | false =>
    right
    have ef : ∀ x : Lexer, finishChar cc x c none false = (bumpColumn x c, none) := fun x => by simp [finishChar]
    rw [ef]
    refine ⟨rfl, ?_, ?_⟩
    · simp only [WsT, bumpColumn_state, bumpColumn_type]
      exact hwe
    · rw [hp2, ef, bumpColumn_aux]

/-- the two outcomes carry the same token list -/
def FstEq : Outcome (List LexerToken × Lexer) → Outcome (List LexerToken × Lexer) → Prop
  | .ok p, .ok q => p.1 = q.1
  | .err _, .err _ => True
  | .fuelOut, .fuelOut => True
  | .panic _, .panic _ => True
  | _, _ => False

theorem FstEq.refl (r : Outcome (List LexerToken × Lexer)) : FstEq r r := by
  cases r <;> simp [FstEq]

theorem lexFinish_fstEq (x y : Lexer) (t : List LexerToken) (h : x.result = y.result) :
    FstEq (lexFinish x t) (lexFinish y t) := by
  unfold lexFinish
  rw [h]
  cases y.result <;> simp [FstEq]

theorem wsT_atEnd {σ : Lexer} (h : WsT σ) (b : Bool) : WsT { σ with atEnd := b } := h

theorem lexEnd_aux (cc : CharClass) (f : Bool) (a b : Nat) : ∀ (fuel : Nat) (σ : Lexer) (toks : List LexerToken), WsT σ →
    FstEq (lexEnd cc fuel (setAux σ f a b) toks) (lexEnd cc fuel σ toks)
  | 0, _, _, _ => by simp [lexEnd, FstEq]
  | fuel + 1, σ, toks, h => by
    obtain ⟨σ1, ot, hp, hcase⟩ := processChar_aux cc { σ with atEnd := true } '\x00' f a b (wsT_atEnd h true)
    have e0 : processChar cc { setAux σ f a b with atEnd := true } '\x00' =
        processChar cc (setAux { σ with atEnd := true } f a b) '\x00' := rfl
    simp only [lexEnd]
    simp only [] at e0
    by_cases hE : σ.result.isErr = true
    · rw [if_pos (show (setAux σ f a b).result.isErr = true from hE), if_pos hE]
      exact lexFinish_fstEq _ _ _ rfl
    · rw [if_neg (show ¬ (setAux σ f a b).result.isErr = true from hE), if_neg hE]
      rw [e0, hp]
      rcases hcase with hc | ⟨hnone, _, hc⟩
      · rw [hc]; exact FstEq.refl _
      · rw [hc]
        subst hnone
        simp only []
        have e1 : (setAux σ1 f a b).currentCharacters = σ1.currentCharacters := rfl
        have e2 : (setAux σ1 f a b).result = σ1.result := rfl
        rw [e1, e2]
        split
        · exact lexFinish_fstEq _ _ _ rfl
        · exact lexFinish_fstEq _ _ _ rfl

/-- **from inside a whitespace token the tokens do not depend on `can_float` and the quote counters** -/
theorem lexLoop_aux (cc : CharClass) (f : Bool) (a b : Nat) : ∀ (input : List Char) (σ : Lexer) (toks : List LexerToken),
    WsT σ → FstEq (lexLoop cc input (setAux σ f a b) toks) (lexLoop cc input σ toks)
  | [], σ, toks, h => by
    simp only [lexLoop]
    exact lexEnd_aux cc f a b endFuel σ toks h
  | c :: rest, σ, toks, h => by
    simp only [lexLoop]
    by_cases hE : σ.result.isErr = true
    · rw [if_pos (show (setAux σ f a b).result.isErr = true from hE), if_pos hE]
      exact lexFinish_fstEq _ _ _ rfl
    · rw [if_neg (show ¬ (setAux σ f a b).result.isErr = true from hE), if_neg hE]
      obtain ⟨σ1, ot, hp, hcase⟩ := processChar_aux cc σ c f a b h
      rw [hp]
      rcases hcase with hc | ⟨hnone, hw1, hc⟩
      · rw [hc]; exact FstEq.refl _
      · rw [hc]
        subst hnone
        exact lexLoop_aux cc f a b rest σ1 toks hw1

end Garnish.Model.Lexer
