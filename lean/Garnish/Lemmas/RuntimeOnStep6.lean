/-
Lemmas/RuntimeStep6.lean over `StoreLawsOn`: the context half of `resolve` under `HostRefinesI`, `Resolve k`.
-/
import Garnish.Lemmas.RuntimeOnResolve
set_option linter.unusedSimpArgs false
set_option linter.unusedVariables false
namespace Garnish.Lemmas.Runtime.On
open Garnish Gen Garnish.Abs Garnish.Model.Equality Garnish.Model.Runtime Garnish.Lemmas.Runtime
open Garnish.Props.RuntimeRefine

variable {F σ : Type} {S : RStore F σ} {Inv : σ → Prop} {Rd : σ → Nat → Prop} {P : Prog F} {host : Host F}
  (fo : FloatOps F)

/-- what Abs/Machine `resolveStep` pushes when the key is not found in the input value -/
def contextValue (host : Host F) (key : Val F) : Val F :=
  match key with
  | .sym sy => (host.resolve sy).getD .unit
  | _ => .unit

/-- the context half of `resolve` under `HostRefines` -/
theorem handlerSim_resolveContext (HR : HostRefinesI S Inv host) {s : σ} {m : MState F} (hsim : Sim S P s m)
    {res : Outcome (Option Nat × σ)} {key : Val F} (h : ResolveContextI S Inv s res none key) :
    ∃ s1, res = .ok (none, s1) ∧ S.cursor s1 = S.cursor s ∧
      SimD S P s1 (contextValue host key :: m.regs) m.vals m.frames ∧ DecKept S s s1 ∧ Inv s1 := by
  obtain ⟨s0, e0, hk⟩ := h
  have hd0 : SimD S P s0 m.regs m.vals m.frames :=
    SimD.ofEff hsim.2 e0.toEff (Sim.tail e0 hsim.2.regs) (Sim.tail e0 hsim.2.vals)
  have unitCase : PushedI S Inv s0 res none (S.regs s0) .unit →
      ∃ s1, res = .ok (none, s1) ∧ S.cursor s1 = S.cursor s ∧ SimD S P s1 (.unit :: m.regs) m.vals m.frames ∧
        DecKept S s s1 ∧ Inv s1 := by
    intro ⟨u, s1, h1, d1, e1⟩
    exact ⟨s1, h1, e1.keeps.cur.trans e0.keeps.cur,
      SimD.ofEff hd0 e1.toEff (.cons d1 (Sim.tail e1 hd0.regs)) (Sim.tail e1 hd0.vals), (e0.keeps.trans e1.keeps).dec, e1.inv⟩
  cases key
  case sym sy =>
    simp only [] at hk
    unfold ResolveProtocolI at hk
    have ha := HR.resolve sy s0 e0.inv
    unfold HostAnswerI at ha
    simp only [contextValue]
    cases hh : host.resolve sy with
    | some v =>
      rw [hh] at ha
      obtain ⟨a, s1, h1, d1, he⟩ := ha
      rw [h1] at hk
      simp only [] at hk
      exact ⟨s1, hk, he.keeps.cur.trans e0.keeps.cur,
        SimD.ofHEff hd0 he.toHEff (.cons d1 (decodesList_keeps he.keeps hd0.regs)), (e0.keeps.trans he.keeps).dec, he.inv⟩
    | none =>
      rw [hh] at ha
      obtain ⟨s1, h1, he⟩ := ha
      rw [h1] at hk
      simp only [] at hk
      have hd1 : SimD S P s1 m.regs m.vals m.frames := SimD.ofHEff hd0 he.toHEff (decodesList_keeps he.keeps hd0.regs)
      obtain ⟨u, s2, h2, d2, e2⟩ := hk he.inv
      exact ⟨s2, h2, e2.keeps.cur.trans (he.keeps.cur.trans e0.keeps.cur),
        SimD.ofEff hd1 e2.toEff (.cons d2 (Sim.tail e2 hd1.regs)) (Sim.tail e2 hd1.vals),
        (e0.keeps.trans (he.keeps.trans e2.keeps)).dec, e2.inv⟩
  all_goals exact unitCase hk

/-- the machine state `resolveStep` produces, as far as the simulation relation looks at it -/
def ResolvedTo (m : MState F) (x : Except ErrClass (MState F)) (v : Val F) : Prop :=
  ∃ md, x = .ok md ∧ md.regs = v :: m.regs ∧ md.vals = m.vals ∧ md.frames = m.frames

theorem resolveStep_context (m : MState F) (key : Val F)
    (hin : (match m.vals with
      | [] => True
      | cur :: _ => getAccess fo key cur = .none ∨ getAccess fo key cur = .unsupported)) :
    ResolvedTo m (resolveStep fo host m key) (contextValue host key) := by
  obtain ⟨pc, regs, vals, frames, trace⟩ := m
  have fin : ∀ (X : Except ErrClass (MState F)),
      X = (match key with
        | .sym sy =>
          match host.resolve sy with
          | some v => .ok ⟨pc, v :: regs, vals, frames, Abs.HostCall.resolve sy :: trace⟩
          | none => .ok ⟨pc, .unit :: regs, vals, frames, Abs.HostCall.resolve sy :: trace⟩
        | _ => .ok ⟨pc, .unit :: regs, vals, frames, trace⟩) →
      ResolvedTo ⟨pc, regs, vals, frames, trace⟩ X (contextValue host key) := by
    intro X hX
    subst hX
    cases key
    case sym sy =>
      simp only [contextValue]
      cases hh : host.resolve sy <;> exact ⟨_, rfl, rfl, rfl, rfl⟩
    all_goals exact ⟨_, rfl, rfl, rfl, rfl⟩
  apply fin
  unfold resolveStep
  cases vals with
  | nil => cases key <;> rfl
  | cons cur vs =>
    simp only [] at hin
    rcases hin with h | h <;> simp only [h] <;> cases key <;> rfl

theorem resolveStep_found (m : MState F) (key cur v : Val F) (vs : List (Val F)) (hv : m.vals = cur :: vs)
    (hin : getAccess fo key cur = .some v) : ResolvedTo m (resolveStep fo host m key) v := by
  unfold resolveStep
  simp only [hv, hin]
  exact ⟨_, rfl, rfl, hv.symm ▸ rfl, rfl⟩

/-- `Resolve k` -/
theorem stepSim_resolve (L : StoreLawsOn S Inv Rd) (HR : HostRefinesI S Inv host) (fuel : Nat) (H : OtherHandlers σ)
    {s : σ} {m : MState F} (hsim : Sim S P s m) {k : Nat} {key : Val F}
    (hfetch : P.instrs[m.pc]? = some (.resolve, some k)) (hc : P.consts[k]? = some key)
    (hdk : Decodes (S.view s) k key)
    (hdom : ∀ cur vs, m.vals = cur :: vs → AccessDomain cur ∧ accessFuel cur ≤ fuel ∧
      ∀ n, key = .num n → (∃ i, n = .int i) ∧ RangeOrdered fo n cur)
    (hx : ∀ cur vs, m.vals = cur :: vs → ncConcat cur ∧
      ((∀ y, key = .sym y → ∀ vs, cur ≠ .list vs) ∨ ListSymOn S Inv) ∧ ∀ v, getAccess fo key cur = .some v → v ≠ .custom)
    (hinv : Inv s) (hm : MDeepN m 0) :
    StepSimOn fo host S Inv P fuel H s m := by
  have hdp : Deep S s (S.regs s) := deep_of_sim hsim.2 hsim.2.regs (fun fr frs hf => by have := hm fr frs hf; omega)
  have hstep : Abs.step fo host P m = finish P (seqR m (resolveStep fo host m key)) := by
    unfold Abs.step; rw [hfetch]; simp only [hc, seqNext_eq]
  refine stepSim_of fo L fuel H hsim hfetch hstep ?_
  show HandlerSimOn S Inv P s (Model.Runtime.resolve fo S fuel k s) _
  -- from a `ResolvedTo` and a related final state to the handler simulation
  have close : ∀ (v : Val F) (s1 : σ), ResolvedTo m (resolveStep fo host m key) v →
      Model.Runtime.resolve fo S fuel k s = .ok (none, s1) → S.cursor s1 = S.cursor s →
      SimD S P s1 (v :: m.regs) m.vals m.frames → DecKept S s s1 → Inv s1 →
      HandlerSimOn S Inv P s (Model.Runtime.resolve fo S fuel k s) (seqR m (resolveStep fo host m key)) := by
    intro v s1 ⟨md, hmd, hr, hv, hf⟩ h1 hc1 hd1 hk1 hi1
    rw [hmd]
    exact ⟨none, s1, h1, by simp [hsim.1], hc1, by rw [hr, hv, hf]; exact hd1, hk1, hi1⟩
  have hvals := hsim.2.vals
  cases hmv : m.vals with
  | nil =>
    rw [hmv] at hvals
    have hsv : S.vals s = [] := by
      generalize S.vals s = sv at hvals
      cases hvals; rfl
    obtain ⟨s1, h1, hc1, hd1, hk1, hi1⟩ := handlerSim_resolveContext HR hsim (C17_refine_resolve_no_input fo L fuel hsv hdk)
    exact close _ s1 (resolveStep_context fo m key (by rw [hmv]; trivial)) h1 hc1 hd1 hk1 hi1
  | cons cur vs =>
    rw [hmv] at hvals
    obtain ⟨c, cs, hsv, dc, _⟩ := decodesList_cons_inv hvals
    obtain ⟨hd1, hfu, hkey⟩ := hdom cur vs hmv
    obtain ⟨hnc, hls, hres⟩ := hx cur vs hmv
    have h := C17_refine_resolve fo L fuel hsv hdk dc hd1 hkey hfu hnc hls hres
    cases hga : getAccess fo key cur with
    | some v =>
      rw [hga] at h
      obtain ⟨a, s1, h1, d1, e1⟩ := h
      exact close v s1 (resolveStep_found fo m key cur v vs hmv hga) h1 e1.keeps.cur
        (SimD.ofEff hsim.2 e1.toEff (.cons d1 (Sim.tail e1 hsim.2.regs)) (Sim.tail e1 hsim.2.vals)) e1.keeps.dec e1.inv
    | none =>
      rw [hga] at h
      obtain ⟨s1, h1, hc1, hd1', hk1, hi1⟩ := handlerSim_resolveContext HR hsim h
      exact close _ s1 (resolveStep_context fo m key (by rw [hmv]; exact Or.inl hga)) h1 hc1 hd1' hk1 hi1
    | unsupported =>
      rw [hga] at h
      obtain ⟨s1, h1, hc1, hd1', hk1, hi1⟩ := handlerSim_resolveContext HR hsim h
      exact close _ s1 (resolveStep_context fo m key (by rw [hmv]; exact Or.inr hga)) h1 hc1 hd1' hk1 hi1
    | err e =>
      -- the machine errs (inside the domain never with the "not modelled" marker): nothing to show
      have hne := getAccess_ne_unsupportedErr fo (key := key) hd1
      rw [hga] at hne
      have : resolveStep fo host m key = .error e := by
        unfold resolveStep
        simp only [hmv, hga]
        cases e <;> first | rfl | exact absurd rfl hne
      rw [this]; trivial


end Garnish.Lemmas.Runtime.On
