/-
Refinement lemmas for casting.rs, part 3: `list_from_char_list` / `list_from_byte_list` and the list-slice loop on
integer extents that lie inside the sequence (outside it the two data implementations differ and the trait promises
nothing: `Indexes`, Model/Runtime/Store.lean).
-/
import Garnish.Lemmas.RuntimeCast2
set_option linter.unusedSimpArgs false
set_option linter.unusedVariables false
namespace Garnish.Lemmas.Runtime
open Garnish Gen Garnish.Abs Garnish.Model.Equality Garnish.Model.Runtime

variable {F σ : Type} {S : RStore F σ} (fo : FloatOps F)

theorem mnumLt_int (a b : Int) : Model.Runtime.numLt fo (.int a) (.int b) = decide (a < b) := numLt_int fo a b
theorem mnumLe_int (a b : Int) : Model.Runtime.numLe fo (.int a) (.int b) = decide (a ≤ b) := numLe_int fo a b

theorem drop_take_succ {α : Type} (xs : List α) (i k : Nat) (h : i < xs.length) :
    (xs.drop i).take (k + 1) = xs[i] :: (xs.drop (i + 1)).take k := by
  rw [List.drop_eq_getElem_cons h, List.take_succ_cons]

/-- the enumeration of Abs/Casts over indices inside the sequence is the corresponding segment -/
theorem intsFrom_map_segment {α β : Type} (xs : List α) (g : α → β) (d : α) :
    ∀ (k i : Nat), i + k ≤ xs.length →
      (intsFrom (i : Int) k).map (fun j => g (xs[j.toNat]?.getD d)) = ((xs.drop i).take k).map g
  | 0, i, _ => by simp [intsFrom]
  | k + 1, i, h => by
    have hi : i < xs.length := by omega
    have ih := intsFrom_map_segment xs g d k (i + 1) (by omega)
    rw [drop_take_succ xs i k hi]
    simp only [intsFrom, List.map_cons, Int.toNat_natCast, List.getElem?_eq_getElem hi, Option.getD_some]
    congr 1

/-- the `while count < end` loop over indices `i … e-1` inside the sequence `xs` stored at `addr` -/
theorem listFromLoop_spec (L : StoreLaws S) {item : σ → Nat → Number F → Outcome (Option Nat)}
    {add : Nat → RM σ Nat} {mk : Nat → Val F} (hadd : ItemAdder S add mk) (addr : Nat) (vseq : Val F)
    (xs : List Nat) (hmax : xs.length ≤ 2147483647)
    (hitem : ∀ s, Decodes (S.view s) addr vseq → ∀ i, i < xs.length → item s addr (.int i) = .ok xs[i]?)
    (e : Int) (he : e ≤ xs.length) :
    ∀ (k fuel i t : Nat) (items : List Nat) (s : σ), k = (e - i).toNat → k + 1 ≤ fuel →
      Decodes (S.view s) addr vseq → S.building s = some (t, items) →
      Built S s (listFromLoop fo S item add addr (.int e) fuel (.int i) t s) items (((xs.drop i).take k).map mk) := by
  intro k
  induction k with
  | zero =>
    intro fuel i t items s hk hf hd hb
    obtain ⟨fuel, rfl⟩ : ∃ k, fuel = k + 1 := ⟨fuel - 1, by omega⟩
    have hnot : ¬ (i : Int) < e := by omega
    have hc : Model.Runtime.numLt fo (.int (i : Int)) (.int e) = false := by rw [mnumLt_int]; simp [hnot]
    simp only [listFromLoop, hc, Bool.false_eq_true, if_false]
    exact ⟨t, s, [], rfl, Eff.refl S s, by simpa using hb, by simpa using DecodesList.nil⟩
  | succ k ih =>
    intro fuel i t items s hk hf hd hb
    obtain ⟨fuel, rfl⟩ : ∃ k, fuel = k + 1 := ⟨fuel - 1, by omega⟩
    have hlt : (i : Int) < e := by omega
    have hi : i < xs.length := by omega
    have hget : RM.readR (fun st => item st addr (.int (i : Int))) s = .ok (some xs[i], s) := by
      apply readR_ok; rw [hitem s hd i hi, List.getElem?_eq_getElem hi]
    obtain ⟨a, t1, s1, s2, h1, h2, e2, b2, d2⟩ := addItem_step L (hadd.adds xs[i] s) (hadd.keeps xs[i] s) hb
    have hinc : Number.increment fo (.int (i : Int)) = some (.int (((i + 1 : Nat)) : Int)) := by
      rw [cast_increment_int fo (i : Int) (by omega) (by omega)]; congr 2
    have ih0 := ih fuel (i + 1) t1 (items ++ [a]) s2 (by omega) (by omega) (e2.dec hd) b2
    rw [drop_take_succ xs i k hi, List.map_cons]
    have hc : Model.Runtime.numLt fo (.int (i : Int)) (.int e) = true := by rw [mnumLt_int]; simp [hlt]
    simp only [listFromLoop, hc, if_true]
    rw [bind_ok hget]
    simp only []
    rw [bind_ok h1, bind_ok h2, hinc, bind_ok (orNumErr_some _ s2)]
    exact built_cons e2 d2 ih0

/-- the `while i <= end` loop of the list-slice arm over indices `i … e` inside the list -/
theorem sliceListLoop_spec (L : StoreLaws S) (value : Nat) (vs : List (Val F)) (hmax : vs.length ≤ 2147483647)
    (e : Int) (he : e < vs.length) :
    ∀ (k fuel i t : Nat) (items : List Nat) (s : σ), k = (e + 1 - i).toNat → k + 1 ≤ fuel →
      Decodes (S.view s) value (.list vs) → S.building s = some (t, items) →
      Built S s (sliceListLoop fo S value (.int e) fuel (.int i) t s) items ((vs.drop i).take k) := by
  intro k
  induction k with
  | zero =>
    intro fuel i t items s hk hf hd hb
    obtain ⟨fuel, rfl⟩ : ∃ k, fuel = k + 1 := ⟨fuel - 1, by omega⟩
    have hnot : ¬ (i : Int) ≤ e := by omega
    have hc : Model.Runtime.numLe fo (.int (i : Int)) (.int e) = false := by rw [mnumLe_int]; simp [hnot]
    simp only [sliceListLoop, hc, Bool.false_eq_true, if_false]
    exact ⟨t, s, [], rfl, Eff.refl S s, by simpa using hb, by simpa using DecodesList.nil⟩
  | succ k ih =>
    intro fuel i t items s hk hf hd hb
    obtain ⟨fuel, rfl⟩ : ∃ k, fuel = k + 1 := ⟨fuel - 1, by omega⟩
    have hle : (i : Int) ≤ e := by omega
    have hi : i < vs.length := by omega
    obtain ⟨addrs, hli, hdl⟩ := listItems_of hd
    have hal := EqualityRefine.decodesList_length hdl
    have hia : i < addrs.length := by omega
    obtain ⟨_, hget0⟩ := L.listIdx s value addrs hli
    obtain ⟨_, dx⟩ := decodesList_getElem hdl i hia
    have hget : RM.readR (fun st => S.listItem st value (.int (i : Int))) s = .ok (some addrs[i], s) := by
      apply readR_ok; rw [hget0 i hia, List.getElem?_eq_getElem hia]
    obtain ⟨t1, s2, h2, e2, b2⟩ := L.addToList t items addrs[i] s hb
    have hinc : Number.increment fo (.int (i : Int)) = some (.int (((i + 1 : Nat)) : Int)) := by
      rw [cast_increment_int fo (i : Int) (by omega) (by omega)]; congr 2
    have ih0 := ih fuel (i + 1) t1 (items ++ [addrs[i]]) s2 (by omega) (by omega) (e2.dec hd) b2
    rw [drop_take_succ vs i k hi]
    have hc : Model.Runtime.numLe fo (.int (i : Int)) (.int e) = true := by rw [mnumLe_int]; simp [hle]
    simp only [sliceListLoop, hc, if_true]
    rw [bind_ok hget]
    simp only []
    rw [bind_ok (pure_apply _ s), bind_ok h2, hinc, bind_ok (orNumErr_some _ s2)]
    exact built_cons e2 (e2.dec dx) ih0

/-- `start_list`, a building loop, `end_list`, `push_register`, `Ok(None)` -/
theorem buildTail (L : StoreLaws S) {s s0 : σ} {rest : List Nat} {n : Nat} {vs : List (Val F)}
    {loop : Nat → RM σ Nat} (e0 : Eff S s s0 rest (S.vals s))
    (hloop : ∀ t s1, Eff S s0 s1 (S.regs s0) (S.vals s0) → S.building s1 = some (t, []) →
      Built S s1 (loop t s1) [] vs) :
    Pushed S s (((do
      let listIndex ← S.startList n
      let listIndex ← loop listIndex
      let r ← S.endList listIndex
      S.pushRegister r : RM σ Unit) >>= fun _ => pure (none : Option Nat)) s0) none rest (.list vs) := by
  obtain ⟨t0, s1, h1, e1, b1⟩ := L.startList n s0
  obtain ⟨t2, s2, new, h2, e2, b2, d2⟩ := hloop t0 s1 e1 b1
  rw [e1.regs, e1.vals] at e2
  obtain ⟨a, s3, h3, d3, e3⟩ := L.endList t2 new vs s2 (by simpa using b2) d2
  rw [e2.regs, e2.vals] at e3
  obtain ⟨s4, h4, e4⟩ := L.pushRegister a s3
  rw [e3.regs, e3.vals, e0.regs, e0.vals] at e4
  refine ⟨a, s4, ?_, e4.dec d3, ((e0.trans (e1.trans e2)).trans e3).trans e4⟩
  rw [bind_ok2 h1, bind_ok2 h2, bind_ok2 h3, bind_ok h4]; rfl

end Garnish.Lemmas.Runtime
