/-
Occurrences: `Sub x e` — `x` occurs in `e` (in its main line or in one of its out-of-line roots; not inside a nested
`{ }` body, which is a body of its own). An occurrence of a located expression is located (`Located_sub`), with the
side conditions that the simulation needs.
-/
import Garnish.Lemmas.CompileRun4
namespace Garnish.Abs
open Garnish Gen Garnish.Spec

variable {F : Type}

inductive Sub : Expr F → Expr F → Prop where
  | refl (e : Expr F) : Sub e e
  | unary {x a : Expr F} (op : Instruction) : Sub x a → Sub x (.unary op a)
  | binaryL {x l : Expr F} (op : Instruction) (r : Expr F) : Sub x l → Sub x (.binary op l r)
  | binaryR {x r : Expr F} (op : Instruction) (l : Expr F) : Sub x r → Sub x (.binary op l r)
  | pairL {x l : Expr F} (r : Expr F) : Sub x l → Sub x (.pair l r)
  | pairR {x r : Expr F} (l : Expr F) : Sub x r → Sub x (.pair l r)
  | applyToX {x a : Expr F} (f : Expr F) : Sub x a → Sub x (.applyTo a f)
  | applyToF {x f : Expr F} (a : Expr F) : Sub x f → Sub x (.applyTo a f)
  | list {x a : Expr F} {items : List (Expr F)} : a ∈ items → Sub x a → Sub x (.list items)
  | condC {x c : Expr F} (b : Bool) (t : Expr F) : Sub x c → Sub x (.cond b c t)
  | condT {x t : Expr F} (b : Bool) (c : Expr F) : Sub x t → Sub x (.cond b c t)
  | chainC {x c t : Expr F} {b : Bool} {arms : List (Bool × Expr F × Expr F)} (final : Option (Expr F)) :
      (b, c, t) ∈ arms → Sub x c → Sub x (.chain arms final)
  | chainT {x c t : Expr F} {b : Bool} {arms : List (Bool × Expr F × Expr F)} (final : Option (Expr F)) :
      (b, c, t) ∈ arms → Sub x t → Sub x (.chain arms final)
  | chainF {x fe : Expr F} (arms : List (Bool × Expr F × Expr F)) : Sub x fe → Sub x (.chain arms (some fe))
  | andL {x l : Expr F} (r : Expr F) : Sub x l → Sub x (.and l r)
  | andR {x r : Expr F} (l : Expr F) : Sub x r → Sub x (.and l r)
  | orL {x l : Expr F} (r : Expr F) : Sub x l → Sub x (.or l r)
  | orR {x r : Expr F} (l : Expr F) : Sub x r → Sub x (.or l r)
  | seqL {x a : Expr F} (b : Expr F) : Sub x a → Sub x (.seq a b)
  | seqR {x b : Expr F} (a : Expr F) : Sub x b → Sub x (.seq a b)
  | sideL {x a : Expr F} (b : Expr F) : Sub x a → Sub x (.sideAfter a b)
  | sideR {x b : Expr F} (a : Expr F) : Sub x b → Sub x (.sideAfter a b)
  | reapply {x a : Expr F} : Sub x a → Sub x (.reapply a)
  | prefixApply {x a : Expr F} (sym : Nat) : Sub x a → Sub x (.prefixApply sym a)
  | suffixApply {x a : Expr F} (sym : Nat) : Sub x a → Sub x (.suffixApply a sym)
  | infixL {x a : Expr F} (sym : Nat) (b : Expr F) : Sub x a → Sub x (.infixApply a sym b)
  | infixR {x b : Expr F} (sym : Nat) (a : Expr F) : Sub x b → Sub x (.infixApply a sym b)

/-- a located occurrence with what the simulation needs to know about it -/
def Occ (P : Prog F) (cur : Nat) (x : Expr F) : Prop :=
  ∃ root pc, Located P root cur pc x ∧ wfC x = true ∧ pc + len x < P.instrs.size

theorem locList_mem {P : Prog F} {root cur : Nat} {a : Expr F} : ∀ (items : List (Expr F)) (pc : Nat),
    LocatedList P root cur pc items → a ∈ items → ∃ pc', Located P root cur pc' a ∧ pc' + len a ≤ pc + lenList items
  | [], _, _, h => by cases h
  | x :: xs, pc, hl, h => by
    simp only [LocatedList] at hl
    rcases List.mem_cons.1 h with rfl | h
    · exact ⟨pc, hl.1, by simp only [lenList]; omega⟩
    · obtain ⟨pc', h1, h2⟩ := locList_mem xs (pc + len x) hl.2 h
      exact ⟨pc', h1, by simp only [lenList]; omega⟩

theorem wfCList_mem {a : Expr F} : ∀ (items : List (Expr F)), wfCList items = true → a ∈ items → wfC a = true
  | [], _, h => by cases h
  | x :: xs, hw, h => by
    simp only [wfCList, Bool.and_eq_true] at hw
    rcases List.mem_cons.1 h with rfl | h
    · exact hw.1
    · exact wfCList_mem xs hw.2 h

theorem enFreeList_mem {a : Expr F} : ∀ (items : List (Expr F)), enFreeList items = true → a ∈ items → enFree a = true
  | [], _, h => by cases h
  | x :: xs, hw, h => by
    simp only [enFreeList, Bool.and_eq_true] at hw
    rcases List.mem_cons.1 h with rfl | h
    · exact hw.1
    · exact enFreeList_mem xs hw.2 h

theorem locArms_mem {P : Prog F} {root cur join : Nat} {b : Bool} {c t : Expr F} :
    ∀ (arms : List (Bool × Expr F × Expr F)) (pc : Nat), LocatedArms P root cur join pc arms → (b, c, t) ∈ arms →
    (∃ pc', Located P root cur pc' c ∧ pc' + len c < P.instrs.size) ∧
    (∃ j tb, Located P j cur tb t ∧ tb + len t < P.instrs.size)
  | [], _, _, h => by cases h
  | (b', c', t') :: rest, pc, hl, h => by
    simp only [LocatedArms] at hl
    obtain ⟨hlc, ⟨j, tb, hi, _, hlt, hterm⟩, hr⟩ := hl
    rcases List.mem_cons.1 h with heq | h
    · simp only [Prod.mk.injEq] at heq
      obtain ⟨rfl, rfl, rfl⟩ := heq
      rw [termsAfter_jump] at hterm
      simp only [InstrsAt, and_true] at hterm
      exact ⟨⟨pc, hlc, lt_size_of_get hi⟩, ⟨j, tb, hlt, lt_size_of_get hterm⟩⟩
    · exact locArms_mem rest _ hr h

theorem wfCArms_mem {b : Bool} {c t : Expr F} : ∀ (arms : List (Bool × Expr F × Expr F)), wfCArms arms = true →
    (b, c, t) ∈ arms → wfC c = true ∧ wfC t = true
  | [], _, h => by cases h
  | (b', c', t') :: rest, hw, h => by
    simp only [wfCArms, Bool.and_eq_true] at hw
    rcases List.mem_cons.1 h with heq | h
    · simp only [Prod.mk.injEq] at heq
      obtain ⟨rfl, rfl, rfl⟩ := heq
      exact ⟨hw.1.1, hw.1.2⟩
    · exact wfCArms_mem rest hw.2 h

theorem enFreeArms_mem {b : Bool} {c t : Expr F} : ∀ (arms : List (Bool × Expr F × Expr F)), enFreeArms arms = true →
    (b, c, t) ∈ arms → enFree c = true
  | [], _, h => by cases h
  | (b', c', t') :: rest, hw, h => by
    simp only [enFreeArms, Bool.and_eq_true] at hw
    rcases List.mem_cons.1 h with heq | h
    · simp only [Prod.mk.injEq] at heq
      obtain ⟨rfl, rfl, rfl⟩ := heq
      exact hw.1.1
    · exact enFreeArms_mem rest hw.2 h

/-- **an occurrence of a located expression is located** -/
theorem Located_sub {P : Prog F} {cur : Nat} {x e : Expr F} (h : Sub x e) : Occ P cur e → Occ P cur x := by
  induction h with
  | refl => exact id
  | unary op _ ih =>
    rintro ⟨root, pc, hl, hw, hlt⟩
    simp only [Located] at hl
    simp only [wfC, Bool.and_eq_true] at hw
    exact ih ⟨root, pc, hl.1, hw.2, lt_size_of_get hl.2⟩
  | binaryL op r _ ih =>
    rintro ⟨root, pc, hl, hw, hlt⟩
    simp only [Located] at hl
    simp only [wfC, Bool.and_eq_true] at hw
    have := lt_size_of_get hl.2.2
    have := len_pos r
    exact ih ⟨root, pc, hl.1, hw.1.2, by omega⟩
  | binaryR op l _ ih =>
    rintro ⟨root, pc, hl, hw, hlt⟩
    simp only [Located] at hl
    simp only [wfC, Bool.and_eq_true] at hw
    exact ih ⟨root, _, hl.2.1, hw.2,
      lt_size_of_get hl.2.2⟩
  | pairL r _ ih =>
    rintro ⟨root, pc, hl, hw, hlt⟩
    simp only [Located] at hl
    simp only [wfC, Bool.and_eq_true] at hw
    exact ih ⟨root, _, hl.2.1, hw.1,
      lt_size_of_get hl.2.2⟩
  | pairR l _ ih =>
    rintro ⟨root, pc, hl, hw, hlt⟩
    simp only [Located] at hl
    simp only [wfC, Bool.and_eq_true] at hw
    have := lt_size_of_get hl.2.2
    have := len_pos l
    exact ih ⟨root, pc, hl.1, hw.2, by omega⟩
  | applyToX f _ ih =>
    rintro ⟨root, pc, hl, hw, hlt⟩
    simp only [Located] at hl
    simp only [wfC, Bool.and_eq_true] at hw
    exact ih ⟨root, _, hl.2.1, hw.1,
      lt_size_of_get hl.2.2⟩
  | @applyToF f a _ ih =>
    rintro ⟨root, pc, hl, hw, hlt⟩
    simp only [Located] at hl
    simp only [wfC, Bool.and_eq_true] at hw
    have := lt_size_of_get hl.2.2
    have := len_pos a
    exact ih ⟨root, pc, hl.1, hw.2, by omega⟩
  | @list a items hmem _ ih =>
    rintro ⟨root, pc, hl, hw, hlt⟩
    simp only [Located] at hl
    simp only [wfC] at hw
    obtain ⟨pc', h1, h2⟩ := locList_mem items pc hl.1 hmem
    have := lt_size_of_get hl.2
    exact ih ⟨root, pc', h1, wfCList_mem items hw hmem, by omega⟩
  | condC b t _ ih =>
    rintro ⟨root, pc, hl, hw, hlt⟩
    simp only [Located] at hl
    simp only [wfC, Bool.and_eq_true] at hw
    obtain ⟨hlc, j, join, tb, hi, _⟩ := hl
    exact ih ⟨root, pc, hlc, hw.1,
      lt_size_of_get hi⟩
  | @condT t b c _ ih =>
    rintro ⟨root, pc, hl, hw, hlt⟩
    simp only [Located] at hl
    simp only [wfC, Bool.and_eq_true] at hw
    obtain ⟨_, j, join, tb, _, _, _, _, _, hlt', hterm⟩ := hl
    rw [termsAfter_jump] at hterm
    simp only [InstrsAt, and_true] at hterm
    exact ih ⟨j, tb, hlt', hw.2, lt_size_of_get hterm⟩
  | @chainC c t b arms final hmem _ ih =>
    rintro ⟨root, pc, hl, hw, hlt⟩
    rw [Located_chain] at hl
    rw [wfC_chain] at hw
    simp only [Bool.and_eq_true] at hw
    obtain ⟨join, hla, _, _⟩ := hl
    obtain ⟨⟨pc', h1, h2⟩, _⟩ := locArms_mem arms pc hla hmem
    exact ih ⟨root, pc', h1, (wfCArms_mem arms hw.1 hmem).1, h2⟩
  | @chainT c t b arms final hmem _ ih =>
    rintro ⟨root, pc, hl, hw, hlt⟩
    rw [Located_chain] at hl
    rw [wfC_chain] at hw
    simp only [Bool.and_eq_true] at hw
    obtain ⟨join, hla, _, _⟩ := hl
    obtain ⟨_, ⟨j, tb, h1, h2⟩⟩ := locArms_mem arms pc hla hmem
    obtain ⟨_, w2⟩ := wfCArms_mem arms hw.1 hmem
    exact ih ⟨j, tb, h1, w2, h2⟩
  | @chainF fe arms _ ih =>
    rintro ⟨root, pc, hl, hw, hlt⟩
    rw [Located_chain] at hl
    rw [wfC_chain] at hw
    simp only [Bool.and_eq_true] at hw
    obtain ⟨join, _, hlf, _⟩ := hl
    have hend : pc + len (.chain arms (some fe)) = pc + lenArms arms + len fe := by rw [len_chain]; simp only; omega
    exact ih ⟨root, _, hlf, hw.2,
      by omega⟩
  | andL r _ ih =>
    rintro ⟨root, pc, hl, hw, hlt⟩
    simp only [Located] at hl
    simp only [wfC, Bool.and_eq_true] at hw
    obtain ⟨hll, j, join, tb, hi, _⟩ := hl
    exact ih ⟨root, pc, hll, hw.1,
      lt_size_of_get hi⟩
  | @andR r l _ ih =>
    rintro ⟨root, pc, hl, hw, hlt⟩
    simp only [Located] at hl
    simp only [wfC, Bool.and_eq_true] at hw
    obtain ⟨_, j, join, tb, _, _, _, _, hlr, hterm⟩ := hl
    rw [termsAfter_tis] at hterm
    simp only [InstrsAt, and_true] at hterm
    exact ih ⟨j, tb, hlr, hw.2, lt_size_of_get hterm.1⟩
  | orL r _ ih =>
    rintro ⟨root, pc, hl, hw, hlt⟩
    simp only [Located] at hl
    simp only [wfC, Bool.and_eq_true] at hw
    obtain ⟨hll, j, join, tb, hi, _⟩ := hl
    exact ih ⟨root, pc, hll, hw.1,
      lt_size_of_get hi⟩
  | @orR r l _ ih =>
    rintro ⟨root, pc, hl, hw, hlt⟩
    simp only [Located] at hl
    simp only [wfC, Bool.and_eq_true] at hw
    obtain ⟨_, j, join, tb, _, _, _, _, hlr, hterm⟩ := hl
    rw [termsAfter_tis] at hterm
    simp only [InstrsAt, and_true] at hterm
    exact ih ⟨j, tb, hlr, hw.2, lt_size_of_get hterm.1⟩
  | seqL b _ ih =>
    rintro ⟨root, pc, hl, hw, hlt⟩
    simp only [Located] at hl
    simp only [wfC, Bool.and_eq_true] at hw
    exact ih ⟨root, pc, hl.1, hw.1,
      lt_size_of_get hl.2.1⟩
  | @seqR b a _ ih =>
    rintro ⟨root, pc, hl, hw, hlt⟩
    simp only [Located] at hl
    simp only [wfC, Bool.and_eq_true] at hw
    have hend : pc + len (.seq a b) = pc + len a + 1 + len b := by simp only [len]; omega
    exact ih ⟨root, _, hl.2.2, hw.2, by omega⟩
  | sideL b _ ih =>
    rintro ⟨root, pc, hl, hw, hlt⟩
    simp only [Located] at hl
    simp only [wfC, Bool.and_eq_true] at hw
    exact ih ⟨root, pc, hl.1, hw.1.1,
      lt_size_of_get hl.2.1⟩
  | sideR a _ ih =>
    rintro ⟨root, pc, hl, hw, hlt⟩
    simp only [Located] at hl
    simp only [wfC, Bool.and_eq_true] at hw
    exact ih ⟨root, _, hl.2.2.1, hw.1.2,
      lt_size_of_get hl.2.2.2⟩
  | reapply _ ih =>
    rintro ⟨root, pc, hl, hw, hlt⟩
    simp only [Located] at hl
    simp only [wfC] at hw
    exact ih ⟨root, pc, hl.1, hw, lt_size_of_get hl.2.1⟩
  | prefixApply sym _ ih =>
    rintro ⟨root, pc, hl, hw, hlt⟩
    simp only [Located] at hl
    simp only [wfC] at hw
    exact ih ⟨root, _, hl.2.1, hw, lt_size_of_get hl.2.2⟩
  | suffixApply sym _ ih =>
    rintro ⟨root, pc, hl, hw, hlt⟩
    simp only [Located] at hl
    simp only [wfC] at hw
    exact ih ⟨root, _, hl.2.1, hw, lt_size_of_get hl.2.2⟩
  | @infixL a sym b _ ih =>
    rintro ⟨root, pc, hl, hw, hlt⟩
    simp only [Located] at hl
    simp only [wfC, Bool.and_eq_true] at hw
    have := lt_size_of_get hl.2.2.2.1
    have := len_pos b
    exact ih ⟨root, _, hl.2.1, hw.1, by omega⟩
  | infixR sym a _ ih =>
    rintro ⟨root, pc, hl, hw, hlt⟩
    simp only [Located] at hl
    simp only [wfC, Bool.and_eq_true] at hw
    exact ih ⟨root, _, hl.2.2.1, hw.2,
      lt_size_of_get hl.2.2.2.1⟩

/-- a body of the table is an occurrence (of itself), located at its jump entry -/
theorem Occ.ofEnv {P : Prog F} {bodies : List (Nat × Expr F)} (env : Env P bodies) {id : Nat} {b : Expr F}
    (hb : lookupBody bodies id = some b) : Occ P id b := by
  obtain ⟨t, _, hloc, hwf, hend⟩ := env.body id b hb
  exact ⟨id, t, hloc, hwf, lt_size_of_get hend⟩

end Garnish.Abs
