/-
Compile correctness, part (iii), first half: `emit` and the layout loop only append instructions, constants
and jump entries, and a jump entry is overwritten only when it is the placeholder of a root that is still
pending (monotonicity). `Pre` is the relation between the states before and after emitting main-line code,
`Ev` the weaker relation that also holds across the laying out of roots.
-/
import Garnish.Lemmas.CompileBase
namespace Garnish.Abs
open Garnish Gen Garnish.Spec

variable {F : Type}

/-- a root that stands for a nested `{}` body is terminated by `EndExpression` and is its own containing
expression -/
def RefOK (r : Root F) : Prop := ∀ id, r.kind = .ref id → r.containing = r.patch ∧ r.term = [(.endExpression, none)]

/-- `s'` comes after `s` by emitting main-line code: everything present stays, new pending roots have new
jump entries -/
structure Pre (s s' : LState F) : Prop where
  instrs : ∀ i, i < s.instrs.size → s'.instrs[i]? = s.instrs[i]?
  isize : s.instrs.size ≤ s'.instrs.size
  consts : ∀ i, i < s.consts.size → s'.consts[i]? = s.consts[i]?
  csize : s.consts.size ≤ s'.consts.size
  jumps : ∀ i, i < s.jumps.size → s'.jumps[i]? = s.jumps[i]?
  jsize : s.jumps.size ≤ s'.jumps.size
  pend : ∀ r ∈ s'.pending, r ∈ s.pending ∨
    (s.jumps.size ≤ r.patch ∧ r.patch < s'.jumps.size ∧ r.containing < s'.jumps.size ∧ RefOK r)
  keep : ∀ r ∈ s.pending, r ∈ s'.pending
  done : s'.done = s.done

theorem Pre.refl (s : LState F) : Pre s s :=
  ⟨fun _ _ => rfl, Nat.le_refl _, fun _ _ => rfl, Nat.le_refl _, fun _ _ => rfl, Nat.le_refl _,
   fun _ h => .inl h, fun _ h => h, rfl⟩

theorem Pre.trans {a b c : LState F} (h1 : Pre a b) (h2 : Pre b c) : Pre a c where
  instrs i hi := by rw [h2.instrs i (by have := h1.isize; omega), h1.instrs i hi]
  isize := Nat.le_trans h1.isize h2.isize
  consts i hi := by rw [h2.consts i (by have := h1.csize; omega), h1.consts i hi]
  csize := Nat.le_trans h1.csize h2.csize
  jumps i hi := by rw [h2.jumps i (by have := h1.jsize; omega), h1.jumps i hi]
  jsize := Nat.le_trans h1.jsize h2.jsize
  pend r hr := by
    have j1 := h1.jsize
    have j2 := h2.jsize
    rcases h2.pend r hr with h | ⟨ha, hb, hc, hd⟩
    · rcases h1.pend r h with h' | ⟨ha, hb, hc, hd⟩
      · exact .inl h'
      · exact .inr ⟨ha, by omega, by omega, hd⟩
    · exact .inr ⟨by omega, hb, hc, hd⟩
  keep r hr := h2.keep r (h1.keep r hr)
  done := by rw [h2.done, h1.done]

theorem Pre.push (s : LState F) (i : Instruction) (d : Option Nat) : Pre s (s.push i d) where
  instrs k hk := by simp [LState.push, Array.getElem?_push, Nat.ne_of_lt hk]
  isize := by simp [LState.push]
  consts _ _ := rfl
  csize := Nat.le_refl _
  jumps _ _ := rfl
  jsize := Nat.le_refl _
  pend _ h := .inl h
  keep _ h := h
  done := rfl

theorem Pre.pushConst (s : LState F) (i : Instruction) (v : Val F) : Pre s (s.pushConst i v) where
  instrs k hk := by simp [LState.pushConst, Array.getElem?_push, Nat.ne_of_lt hk]
  isize := by simp [LState.pushConst]
  consts k hk := by simp [LState.pushConst, Array.getElem?_push, Nat.ne_of_lt hk]
  csize := by simp [LState.pushConst]
  jumps _ _ := rfl
  jsize := Nat.le_refl _
  pend _ h := .inl h
  keep _ h := h
  done := rfl

theorem Pre.pushJump (s : LState F) (t : Nat) : Pre s (s.pushJump t) where
  instrs _ _ := rfl
  isize := Nat.le_refl _
  consts _ _ := rfl
  csize := Nat.le_refl _
  jumps k hk := by simp [LState.pushJump, Array.getElem?_push, Nat.ne_of_lt hk]
  jsize := by simp [LState.pushJump]
  pend _ h := .inl h
  keep _ h := h
  done := rfl

/-- pushing a root whose placeholder is the most recent jump entry or an earlier new one -/
theorem Pre.pushRootAfter {s0 s : LState F} (h : Pre s0 s) (r : Root F) (hp : s0.jumps.size ≤ r.patch)
    (hp2 : r.patch < s.jumps.size) (hc : r.containing < s.jumps.size) (hr : RefOK r) : Pre s0 (s.pushRoot r) where
  instrs := h.instrs
  isize := h.isize
  consts := h.consts
  csize := h.csize
  jumps := h.jumps
  jsize := h.jsize
  pend r' hr' := by
    simp only [LState.pushRoot, List.mem_cons] at hr'
    rcases hr' with rfl | hr'
    · exact .inr ⟨hp, hp2, hc, hr⟩
    · exact h.pend r' hr'
  keep r' hr' := by simp only [LState.pushRoot, List.mem_cons]; exact .inr (h.keep r' hr')
  done := h.done

/-- append-only part of `Pre` (no claim about which roots are new) -/
structure App (s s' : LState F) : Prop where
  instrs : ∀ i, i < s.instrs.size → s'.instrs[i]? = s.instrs[i]?
  isize : s.instrs.size ≤ s'.instrs.size
  consts : ∀ i, i < s.consts.size → s'.consts[i]? = s.consts[i]?
  csize : s.consts.size ≤ s'.consts.size
  jumps : ∀ i, i < s.jumps.size → s'.jumps[i]? = s.jumps[i]?
  jsize : s.jumps.size ≤ s'.jumps.size
  keep : ∀ r ∈ s.pending, r ∈ s'.pending

theorem Pre.toApp {s s' : LState F} (h : Pre s s') : App s s' :=
  ⟨h.instrs, h.isize, h.consts, h.csize, h.jumps, h.jsize, h.keep⟩

theorem App.refl (s : LState F) : App s s := (Pre.refl s).toApp

theorem App.trans {a b c : LState F} (h1 : App a b) (h2 : App b c) : App a c where
  instrs i hi := by rw [h2.instrs i (by have := h1.isize; omega), h1.instrs i hi]
  isize := Nat.le_trans h1.isize h2.isize
  consts i hi := by rw [h2.consts i (by have := h1.csize; omega), h1.consts i hi]
  csize := Nat.le_trans h1.csize h2.csize
  jumps i hi := by rw [h2.jumps i (by have := h1.jsize; omega), h1.jumps i hi]
  jsize := Nat.le_trans h1.jsize h2.jsize
  keep r hr := h2.keep r (h1.keep r hr)

theorem App.push (s : LState F) (i : Instruction) (d : Option Nat) : App s (s.push i d) := (Pre.push s i d).toApp
theorem App.pushConst (s : LState F) (i : Instruction) (v : Val F) : App s (s.pushConst i v) := (Pre.pushConst s i v).toApp
theorem App.pushJump (s : LState F) (t : Nat) : App s (s.pushJump t) := (Pre.pushJump s t).toApp
theorem App.pushRoot (s : LState F) (r : Root F) : App s (s.pushRoot r) :=
  ⟨fun _ _ => rfl, Nat.le_refl _, fun _ _ => rfl, Nat.le_refl _, fun _ _ => rfl, Nat.le_refl _,
   fun r' hr' => by simp only [LState.pushRoot, List.mem_cons]; exact .inr hr'⟩

/-! ### sizes -/

@[simp] theorem push_isize (s : LState F) (i : Instruction) (d : Option Nat) :
    (s.push i d).instrs.size = s.instrs.size + 1 := by simp [LState.push]
@[simp] theorem push_jumps (s : LState F) (i : Instruction) (d : Option Nat) : (s.push i d).jumps = s.jumps := rfl
@[simp] theorem push_consts (s : LState F) (i : Instruction) (d : Option Nat) : (s.push i d).consts = s.consts := rfl
@[simp] theorem push_pending (s : LState F) (i : Instruction) (d : Option Nat) : (s.push i d).pending = s.pending := rfl
@[simp] theorem pushConst_isize (s : LState F) (i : Instruction) (v : Val F) :
    (s.pushConst i v).instrs.size = s.instrs.size + 1 := by simp [LState.pushConst]
@[simp] theorem pushConst_jumps (s : LState F) (i : Instruction) (v : Val F) : (s.pushConst i v).jumps = s.jumps := rfl
@[simp] theorem pushConst_pending (s : LState F) (i : Instruction) (v : Val F) : (s.pushConst i v).pending = s.pending := rfl
@[simp] theorem pushJump_instrs (s : LState F) (t : Nat) : (s.pushJump t).instrs = s.instrs := rfl
@[simp] theorem pushJump_jsize (s : LState F) (t : Nat) : (s.pushJump t).jumps.size = s.jumps.size + 1 := by
  simp [LState.pushJump]
@[simp] theorem pushJump_pending (s : LState F) (t : Nat) : (s.pushJump t).pending = s.pending := rfl
@[simp] theorem pushRoot_instrs (s : LState F) (r : Root F) : (s.pushRoot r).instrs = s.instrs := rfl
@[simp] theorem pushRoot_jumps (s : LState F) (r : Root F) : (s.pushRoot r).jumps = s.jumps := rfl
@[simp] theorem pushRoot_pending (s : LState F) (r : Root F) : (s.pushRoot r).pending = r :: s.pending := rfl

/-- the arm bodies collected by `emitArms`: their placeholders are new jump entries -/
def ItemsOK (lo hi : Nat) (items : List (Expr F × Nat)) : Prop := ∀ it ∈ items, lo ≤ it.2 ∧ it.2 < hi

theorem condTail_pre {cur : Nat} {onTrue : Bool} {t : Expr F} {s1 : LState F} (hc : cur < s1.jumps.size) :
    Pre s1 (condTail cur onTrue t s1) ∧ (condTail cur onTrue t s1).instrs.size = s1.instrs.size + 2 := by
  simp only [condTail]
  refine ⟨?_, by simp⟩
  exact Pre.trans (Pre.pushRootAfter ((Pre.pushJump _ 0).trans ((Pre.push _ _ _).trans (.push _ _ _))) _
    (Nat.le_refl _) (by simp) (by simp; omega) (fun _ h => by simp at h)) (.pushJump _ _)

theorem logicalTail_pre {cur : Nat} {instr : Instruction} {r : Expr F} {s1 : LState F} (hc : cur < s1.jumps.size) :
    Pre s1 (logicalTail cur instr r s1) ∧ (logicalTail cur instr r s1).instrs.size = s1.instrs.size + 1 := by
  simp only [logicalTail]
  refine ⟨?_, by simp⟩
  exact Pre.trans (Pre.pushRootAfter ((Pre.pushJump _ 0).trans (.push _ _ _)) _
    (Nat.le_refl _) (by simp) (by simp; omega) (fun _ h => by simp at h)) (.pushJump _ _)

theorem finishChain_pre {s s2 : LState F} {items : List (Expr F × Nat)} {cur : Nat} (p : Pre s s2)
    (ok : ItemsOK s.jumps.size s2.jumps.size items) (hc : cur < s2.jumps.size) :
    Pre s (finishChain cur s2 items) ∧ (finishChain cur s2 items).instrs.size = s2.instrs.size := by
  cases items with
  | nil => exact ⟨p, rfl⟩
  | cons it its =>
    simp only [finishChain]
    refine ⟨?_, by simp⟩
    have pj : Pre s (s2.pushJump s2.instrs.size) := p.trans (.pushJump _ _)
    refine ⟨pj.instrs, pj.isize, pj.consts, pj.csize, pj.jumps, pj.jsize, ?_, ?_, pj.done⟩
    · intro r hr
      simp only [List.mem_append] at hr
      rcases hr with hr | hr
      · simp only [armRoots, List.mem_reverse, List.mem_map] at hr
        obtain ⟨it', hin, rfl⟩ := hr
        have := ok it' hin
        exact .inr ⟨this.1, by simp; omega, by simp; omega, fun _ h => by simp at h⟩
      · exact pj.pend r hr
    · intro r hr
      simp only [List.mem_append]
      exact .inr (pj.keep r hr)

mutual
theorem emit_pre (root cur : Nat) : ∀ (e : Expr F) (s : LState F), cur < s.jumps.size →
    Pre s (emit root cur e s) ∧ (emit root cur e s).instrs.size = s.instrs.size + len e
  | .lit v, s, _ => by simp only [emit, len]; exact ⟨.pushConst s _ _, by simp⟩
  | .input, s, _ => by simp only [emit, len]; exact ⟨.push s _ _, by simp⟩
  | .ident sym, s, _ => by simp only [emit, len]; exact ⟨.pushConst s _ _, by simp⟩
  | .emptyNested, s, _ => by simp only [emit, len]; exact ⟨.pushConst s _ _, by simp⟩
  | .nested id, s, hc => by
    simp only [emit, len]
    refine ⟨?_, by simp⟩
    exact Pre.pushRootAfter ((Pre.pushJump s 0).trans (.pushConst _ _ _)) _ (Nat.le_refl _) (by simp) (by simp)
      (fun _ _ => ⟨rfl, rfl⟩)
  | .unary op x, s, hc => by
    obtain ⟨p1, z1⟩ := emit_pre root cur x s hc
    simp only [emit, len]
    exact ⟨p1.trans (.push _ _ _), by simp [z1]; omega⟩
  | .binary op l r, s, hc => by
    obtain ⟨p1, z1⟩ := emit_pre root cur l s hc
    obtain ⟨p2, z2⟩ := emit_pre root cur r (emit root cur l s) (by have := p1.jsize; omega)
    simp only [emit, len]
    exact ⟨(p1.trans p2).trans (.push _ _ _), by simp [z1, z2]; omega⟩
  | .pair l r, s, hc => by
    obtain ⟨p1, z1⟩ := emit_pre root cur r s hc
    obtain ⟨p2, z2⟩ := emit_pre root cur l (emit root cur r s) (by have := p1.jsize; omega)
    simp only [emit, len]
    exact ⟨(p1.trans p2).trans (.push _ _ _), by simp [z1, z2]; omega⟩
  | .applyTo x f, s, hc => by
    obtain ⟨p1, z1⟩ := emit_pre root cur f s hc
    obtain ⟨p2, z2⟩ := emit_pre root cur x (emit root cur f s) (by have := p1.jsize; omega)
    simp only [emit, len]
    exact ⟨(p1.trans p2).trans (.push _ _ _), by simp [z1, z2]; omega⟩
  | .list items, s, hc => by
    obtain ⟨p1, z1⟩ := emitList_pre root cur items s hc
    simp only [emit, len]
    exact ⟨p1.trans (.push _ _ _), by simp [z1]; omega⟩
  | .cond onTrue c t, s, hc => by
    obtain ⟨p1, z1⟩ := emit_pre root cur c s hc
    obtain ⟨p2, z2⟩ := condTail_pre (cur := cur) (onTrue := onTrue) (t := t) (s1 := emit root cur c s)
      (by have := p1.jsize; omega)
    simp only [emit, len]
    exact ⟨p1.trans p2, by rw [z2, z1]; omega⟩
  | .and l r, s, hc => by
    obtain ⟨p1, z1⟩ := emit_pre root cur l s hc
    obtain ⟨p2, z2⟩ := logicalTail_pre (cur := cur) (instr := .and) (r := r) (s1 := emit root cur l s)
      (by have := p1.jsize; omega)
    simp only [emit, len]
    exact ⟨p1.trans p2, by rw [z2, z1]; omega⟩
  | .or l r, s, hc => by
    obtain ⟨p1, z1⟩ := emit_pre root cur l s hc
    obtain ⟨p2, z2⟩ := logicalTail_pre (cur := cur) (instr := .or) (r := r) (s1 := emit root cur l s)
      (by have := p1.jsize; omega)
    simp only [emit, len]
    exact ⟨p1.trans p2, by rw [z2, z1]; omega⟩
  | .seq a b, s, hc => by
    obtain ⟨p1, z1⟩ := emit_pre root cur a s hc
    obtain ⟨p2, z2⟩ := emit_pre root cur b ((emit root cur a s).push .updateValue none) (by have := p1.jsize; simp; omega)
    simp only [emit, len]
    exact ⟨(p1.trans (.push _ _ _)).trans p2, by simp [z1, z2]; omega⟩
  | .sideAfter x b, s, hc => by
    obtain ⟨p1, z1⟩ := emit_pre root cur x s hc
    obtain ⟨p2, z2⟩ := emit_pre root cur b ((emit root cur x s).push .startSideEffect none)
      (by have := p1.jsize; simp; omega)
    simp only [emit, len]
    exact ⟨((p1.trans (.push _ _ _)).trans p2).trans (.push _ _ _), by simp [z1, z2]; omega⟩
  | .reapply x, s, hc => by
    obtain ⟨p1, z1⟩ := emit_pre root cur x s hc
    simp only [emit, len]
    exact ⟨(p1.trans (.push _ _ _)).trans (.push _ _ _), by simp [z1]; omega⟩
  | .prefixApply sym x, s, hc => by
    obtain ⟨p1, z1⟩ := emit_pre root cur x (s.pushConst .resolve (.sym sym)) (by simpa using hc)
    simp only [emit, len]
    exact ⟨((Pre.pushConst s _ _).trans p1).trans (.push _ _ _), by simp [z1]; omega⟩
  | .suffixApply x sym, s, hc => by
    obtain ⟨p1, z1⟩ := emit_pre root cur x (s.pushConst .resolve (.sym sym)) (by simpa using hc)
    simp only [emit, len]
    exact ⟨((Pre.pushConst s _ _).trans p1).trans (.push _ _ _), by simp [z1]; omega⟩
  | .infixApply a sym b, s, hc => by
    obtain ⟨p1, z1⟩ := emit_pre root cur a (s.pushConst .resolve (.sym sym)) (by simpa using hc)
    obtain ⟨p2, z2⟩ := emit_pre root cur b (emit root cur a (s.pushConst .resolve (.sym sym)))
      (by have := p1.jsize; simp at this; omega)
    simp only [emit, len]
    exact ⟨((((Pre.pushConst s _ _).trans p1).trans p2).trans (.push _ _ _)).trans (.push _ _ _),
      by simp [z1, z2]; omega⟩
  | .chain [] none, s, hc => by
    simp only [emit, emitArms, chainNoFinal, finishChain]
    exact ⟨.push _ _ _, by rw [len_chain]; simp [lenArms]⟩
  | .chain (arm :: rest) none, s, hc => by
    obtain ⟨p1, z1, ok1⟩ := emitArms_pre root cur (arm :: rest) s hc
    have j1 := p1.jsize
    simp only [emit, chainNoFinal]
    rw [len_chain]
    obtain ⟨p3, z3⟩ := finishChain_pre p1 ok1 (cur := cur) (by omega)
    exact ⟨p3, by rw [z3, z1]; simp⟩
  | .chain arms (some e), s, hc => by
    obtain ⟨p1, z1, ok1⟩ := emitArms_pre root cur arms s hc
    have j1 := p1.jsize
    obtain ⟨p2, z2⟩ := emit_pre root cur e (emitArms root cur arms s).1 (by omega)
    simp only [emit]
    rw [len_chain]
    obtain ⟨p3, z3⟩ := finishChain_pre (p1.trans p2) (fun it hit => by
      have := ok1 it hit; have := p2.jsize; omega) (cur := cur) (by have := p2.jsize; omega)
    exact ⟨p3, by rw [z3, z2, z1]; simp only; omega⟩

theorem emitList_pre (root cur : Nat) : ∀ (items : List (Expr F)) (s : LState F), cur < s.jumps.size →
    Pre s (emitList root cur items s) ∧ (emitList root cur items s).instrs.size = s.instrs.size + lenList items
  | [], s, _ => by simp only [emitList, lenList]; exact ⟨.refl s, rfl⟩
  | x :: xs, s, hc => by
    obtain ⟨p1, z1⟩ := emit_pre root cur x s hc
    obtain ⟨p2, z2⟩ := emitList_pre root cur xs (emit root cur x s) (by have := p1.jsize; omega)
    simp only [emitList, lenList]
    exact ⟨p1.trans p2, by rw [z2, z1]; omega⟩

theorem emitArms_pre (root cur : Nat) : ∀ (arms : List (Bool × Expr F × Expr F)) (s : LState F), cur < s.jumps.size →
    Pre s (emitArms root cur arms s).1 ∧
    (emitArms root cur arms s).1.instrs.size = s.instrs.size + lenArms arms ∧
    ItemsOK s.jumps.size (emitArms root cur arms s).1.jumps.size (emitArms root cur arms s).2
  | [], s, _ => by
    simp only [emitArms, lenArms]
    exact ⟨.refl s, rfl, fun _ h => by simp at h⟩
  | (onTrue, c, t) :: rest, s, hc => by
    obtain ⟨p1, z1⟩ := emit_pre root cur c s hc
    have j1 := p1.jsize
    obtain ⟨p2, z2, ok2⟩ := emitArms_pre root cur rest
      (((emit root cur c s).pushJump 0).push (jumpIf onTrue) (some (emit root cur c s).jumps.size)) (by simp; omega)
    have j2 := p2.jsize
    simp only [emitArms, lenArms]
    refine ⟨(p1.trans ((Pre.pushJump _ 0).trans (.push _ _ _))).trans p2, by rw [z2]; simp [z1]; omega, ?_⟩
    intro it hit
    simp only [List.mem_cons] at hit
    rcases hit with rfl | hit
    · simp at j2 ⊢
      omega
    · have := ok2 it hit
      simp at this
      omega
end

end Garnish.Abs
