/-
Brackets, part 4: the walk that starts at a closed bracket.  After `)` / `}` the parser's `last_left` is the bracket node
`cb`, which sits at the bottom of the right spine of the frame's tree *as far as the walk is concerned*: the content of the
bracket hangs below it but is never visited.  `rspineUpC`, `absorbC`, `insertC` are `rspineUp`, `absorbS`, `insertS` that
stop descending at `cb` (and never stop the operator at `cb`: every operator binds looser than a bracket);
`walk_insertC` is the array-level insertion lemma for this walk (copy of `walk_insertS` with one more case).
-/
import Garnish.Lemmas.ParserB3

namespace Garnish.Spec
open Garnish Garnish.Gen Garnish.Model.Parser

/-- `cb` lies on the right spine -/
def OnSpine (cb : Nat) : Tree → Prop
  | .nil => False
  | .node _ i _ r => i = cb ∨ OnSpine cb r

/-- the right spine from `cb` upwards -/
def rspineUpC (cb : Nat) : Tree → List Nat
  | .nil => []
  | .node _ i _ r => if i = cb then [i] else rspineUpC cb r ++ [i]

/-- `absorbS` for a walk that starts at `cb` (and passes it) -/
def absorbC (cb : Nat) (pr : Nat → Nat) (q : Nat) (rtl : Bool) (n ko : Nat) (sub : Tree) : Tree → Option Tree
  | .nil => none
  | .node l i k r =>
    if i = cb then none
    else
      match absorbC cb pr q rtl n ko sub r with
      | some r' => some (.node l i k r')
      | none => if stops q rtl (pr i) then some (.node l i k (newOpS r n ko sub)) else none

def insertC (cb : Nat) (pr : Nat → Nat) (q : Nat) (rtl : Bool) (n ko : Nat) (sub : Tree) (t : Tree) : Tree :=
  match absorbC cb pr q rtl n ko sub t with
  | some t' => t'
  | none => newOpS t n ko sub

theorem absorbC_inorder (cb : Nat) (pr : Nat → Nat) (q : Nat) (rtl : Bool) (n ko : Nat) (sub : Tree) :
    ∀ t t', absorbC cb pr q rtl n ko sub t = some t' → t'.inorder = t.inorder ++ n :: sub.inorder := by
  intro t
  induction t with
  | nil => intro t' h; simp [absorbC] at h
  | node l i k r _ ihr =>
    intro t' h
    simp only [absorbC] at h
    split at h
    · cases h
    · cases hr : absorbC cb pr q rtl n ko sub r with
      | some r' =>
        simp only [hr, Option.some.injEq] at h; subst h
        simp [Tree.inorder, ihr r' hr]
      | none =>
        simp only [hr] at h
        split at h
        · simp only [Option.some.injEq] at h; subst h
          simp [Tree.inorder, newOpS]
        · cases h

theorem insertC_inorder (cb : Nat) (pr : Nat → Nat) (q : Nat) (rtl : Bool) (n ko : Nat) (sub t : Tree) :
    (insertC cb pr q rtl n ko sub t).inorder = t.inorder ++ n :: sub.inorder := by
  unfold insertC
  cases h : absorbC cb pr q rtl n ko sub t with
  | some t' => exact absorbC_inorder cb pr q rtl n ko sub t t' h
  | none => simp [newOpS, Tree.inorder]

/-- when `cb` does not occur, the functions coincide with the plain ones -/
theorem absorbC_eq_absorbS (cb : Nat) (pr : Nat → Nat) (q : Nat) (rtl : Bool) (n ko : Nat) (sub : Tree) :
    ∀ t : Tree, cb ∉ t.inorder → absorbC cb pr q rtl n ko sub t = absorbS pr q rtl n ko sub t
  | .nil, _ => rfl
  | .node l i k r, h => by
    have hi : i ≠ cb := fun e => h (by simp [Tree.inorder, e])
    simp only [absorbC, absorbS, if_neg hi,
      absorbC_eq_absorbS cb pr q rtl n ko sub r (fun hm => h (by simp [Tree.inorder, hm]))]
    cases absorbS pr q rtl n ko sub r <;> rfl

theorem insertC_eq_insertS (cb : Nat) (pr : Nat → Nat) (q : Nat) (rtl : Bool) (n ko : Nat) (sub t : Tree)
    (h : cb ∉ t.inorder) : insertC cb pr q rtl n ko sub t = insertS pr q rtl n ko sub t := by
  unfold insertC insertS
  rw [absorbC_eq_absorbS cb pr q rtl n ko sub t h]
  cases absorbS pr q rtl n ko sub t <;> rfl

theorem rspineUpC_head (cb : Nat) : ∀ t : Tree, OnSpine cb t → (rspineUpC cb t).head? = some cb
  | .nil, h => by cases h
  | .node l i k r, h => by
    simp only [rspineUpC]
    split
    · rename_i hi; simp [hi]
    · rename_i hi
      have hr : OnSpine cb r := by rcases h with h | h; exact absurd h hi; exact h
      have := rspineUpC_head cb r hr
      rw [List.head?_append, this]; rfl

theorem rspineUpC_length (cb : Nat) (t : Tree) : (rspineUpC cb t).length ≤ t.inorder.length := by
  induction t with
  | nil => simp [rspineUpC, Tree.inorder]
  | node l i k r _ ihr =>
    simp only [rspineUpC, Tree.inorder, List.length_append, List.length_cons]
    split
    · simp only [List.length_cons, List.length_nil]; omega
    · simp only [List.length_append, List.length_cons, List.length_nil]; omega

theorem onSpine_mem (cb : Nat) : ∀ t : Tree, OnSpine cb t → cb ∈ t.inorder
  | .nil, h => by cases h
  | .node l i k r, h => by
    rcases h with h | h
    · simp [Tree.inorder, h]
    · simp [Tree.inorder, onSpine_mem cb r h]

theorem chain_of_treeC {nodes : Array ParseNode} (hp : AllPrio nodes) (cb : Nat) {p link : Option Nat} {t : Tree}
    (h : IsTreeAt nodes p link t) :
    ∀ above : List Nat, Chain nodes above → p = above.head? → Chain nodes (rspineUpC cb t ++ above) := by
  induction h with
  | nil p => intro above hc _; simpa [rspineUpC] using hc
  | node p i nd l r hn hpar _ hr _ ihr =>
    intro above hc hpa
    obtain ⟨q, hq⟩ := hp i nd hn
    have hi : Chain nodes (i :: above) := ⟨⟨nd, q, hn, hq, by rw [hpar, hpa]⟩, hc⟩
    simp only [rspineUpC]
    split
    · exact hi
    · simp only [List.append_assoc, List.singleton_append]
      exact ihr (i :: above) hi rfl

theorem chainTo_of_treeC {nodes : Array ParseNode} (hp : AllPrio nodes) (g cb : Nat) {p link : Option Nat} {t : Tree}
    (h : IsTreeAt nodes p link t) (hg : g ∉ t.inorder) :
    ∀ above : List Nat, ChainTo nodes g above → p = some (above.head?.getD g) →
      ChainTo nodes g (rspineUpC cb t ++ above) := by
  induction h with
  | nil p => intro above hc _; simpa [rspineUpC] using hc
  | node p i nd l r hn hpar _ hr _ ihr =>
    intro above hc hpa
    obtain ⟨q, hq⟩ := hp i nd hn
    have hi : ChainTo nodes g (i :: above) :=
      ⟨⟨nd, q, hn, hq, by rw [hpar, hpa]⟩, fun e => hg (by simp [Tree.inorder, e]), hc⟩
    simp only [rspineUpC]
    split
    · exact hi
    · simp only [List.append_assoc, List.singleton_append]
      exact ihr (fun hm => hg (by simp [Tree.inorder, hm])) (i :: above) hi rfl

/-- **the walk from the closed bracket `cb` and the insertion** -/
theorem walk_insertC (nodes : Array ParseNode) (q : Nat) (rtl : Bool) (n ko : Nat) (sub : Tree) (rlink : Option Nat)
    (cb : Nat) (hns : stops q rtl (prioAt nodes cb) = false) :
    ∀ {p link : Option Nat} {t : Tree}, IsTreeAt nodes p link t → ∀ i, link = some i → t.inorder.Nodup →
      OnSpine cb t → ∀ tl0 : Option Nat,
      (∀ tl x, walkSpec nodes q rtl tl0 (rspineUpC cb t) = (tl, some x) →
        ∃ tlv t' nx, tl = some tlv ∧ tlv ∈ t.inorder ∧ x ∈ t.inorder ∧ tlv ≠ x ∧ nodes[x]? = some nx ∧
          nx.right = some tlv ∧ absorbC cb (prioAt nodes) q rtl n ko sub t = some t' ∧
          ∀ arr : Array ParseNode, (∀ j ∈ t.inorder, j ≠ tlv → j ≠ x → arr[j]? = nodes[j]?) →
            arr[tlv]? = (nodes[tlv]?).map (setParent (some n)) → arr[x]? = (nodes[x]?).map (setRight (some n)) →
            NewOpS arr n ko sub (some x) (some tlv) rlink → IsTreeAt arr p link t') ∧
      (∀ tl, walkSpec nodes q rtl tl0 (rspineUpC cb t) = (tl, none) →
        tl = some i ∧ absorbC cb (prioAt nodes) q rtl n ko sub t = none ∧
          ∀ arr : Array ParseNode, (∀ j ∈ t.inorder, j ≠ i → arr[j]? = nodes[j]?) →
            arr[i]? = (nodes[i]?).map (setParent (some n)) → IsTreeAt arr (some n) link t) := by
  intro p link t h
  induction h with
  | nil p => intro i hi; cases hi
  | node p i nd l r hn hpar hl hr _ ihr =>
    intro i' hi' hnd hon tl0
    injection hi' with hi'; subst hi'
    simp only [Tree.inorder] at hnd
    rw [List.nodup_append] at hnd
    obtain ⟨ndl, ndir, hdisj⟩ := hnd
    rw [List.nodup_cons] at ndir
    obtain ⟨hir, ndr⟩ := ndir
    have hil : i ∉ l.inorder := fun hm => hdisj i hm i (List.mem_cons_self ..) rfl
    -- the reparented version of the whole subtree (used in both `none` conclusions)
    have reparent : ∀ arr : Array ParseNode,
        (∀ j ∈ (Tree.node l i (tokPos nd) r).inorder, j ≠ i → arr[j]? = nodes[j]?) →
        arr[i]? = (nodes[i]?).map (setParent (some n)) →
        IsTreeAt arr (some n) (some i) (.node l i (tokPos nd) r) := by
      intro arr hfr hi
      rw [hn] at hi
      refine isTreeAt_node (setParent (some n) nd) hi rfl ?_ ?_ rfl
      · exact hl.frame (fun j hj => hfr j (by simp [Tree.inorder, hj]) (fun e => hil (e ▸ hj)))
      · exact hr.frame (fun j hj => hfr j (by simp [Tree.inorder, hj]) (fun e => hir (e ▸ hj)))
    by_cases hic : i = cb
    · -- the walk starts here and passes
      have hstop : (decide (q < prioAt nodes i) || (q == prioAt nodes i && rtl)) = false := by rw [hic]; exact hns
      simp only [rspineUpC, if_pos hic, walkSpec, hstop, Bool.false_eq_true, if_false]
      constructor
      · intro tl x hw; injection hw with _ h2; cases h2
      · intro tl hw
        injection hw with h1 _
        refine ⟨h1.symm, ?_, reparent⟩
        simp [absorbC, hic]
    · have honr : OnSpine cb r := by rcases hon with h | h; exact absurd h hic; exact h
      cases hrl : nd.right with
      | none =>
        rw [hrl] at hr
        cases hr
        cases honr
      | some ri =>
        have hr' := hr
        rw [hrl] at hr'
        obtain ⟨ihS, ihN⟩ := ihr ri hrl ndr honr tl0
        simp only [rspineUpC, if_neg hic, walkSpec_append]
        cases hw : walkSpec nodes q rtl tl0 (rspineUpC cb r) with
        | mk tlr parr =>
          cases parr with
          | some x =>
            obtain ⟨tlv, r', nx, e1, m1, m2, ne, hx, hxr, habs, harr⟩ := ihS tlr x hw
            constructor
            · intro tl x' hw'
              simp only at hw'
              injection hw' with h1 h2
              injection h2 with h2
              subst h1; subst h2
              refine ⟨tlv, .node l i (tokPos nd) r', nx, e1, by simp [Tree.inorder, m1], by simp [Tree.inorder, m2], ne, hx,
                hxr, by simp [absorbC, hic, habs], ?_⟩
              intro arr hfr htl hxx hnew
              have hitl : i ≠ tlv := fun e => hir (e ▸ m1)
              have hix : i ≠ x := fun e => hir (e ▸ m2)
              refine isTreeAt_node nd (by rw [hfr i (by simp [Tree.inorder]) hitl hix]; exact hn) hpar ?_ ?_ rfl
              · exact hl.frame (fun j hj => hfr j (by simp [Tree.inorder, hj])
                  (fun e => hdisj j hj tlv (List.mem_cons_of_mem _ m1) e)
                  (fun e => hdisj j hj x (List.mem_cons_of_mem _ m2) e))
              · exact harr arr (fun j hj => hfr j (by simp [Tree.inorder, hj])) htl hxx hnew
            · intro tl hw'; simp only at hw'; injection hw' with _ h2; cases h2
          | none =>
            obtain ⟨etl, habs, harr⟩ := ihN tlr hw
            subst etl
            simp only [walkSpec]
            by_cases hs : (decide (q < prioAt nodes i) || (q == prioAt nodes i && rtl)) = true
            · simp only [hs, if_true]
              constructor
              · intro tl x' hw'
                injection hw' with h1 h2
                injection h2 with h2
                subst h1; subst h2
                have hri : ri ∈ r.inorder := hr'.root_mem
                have hne : ri ≠ i := fun e => hir (e ▸ hri)
                refine ⟨ri, .node l i (tokPos nd) (newOpS r n ko sub), nd, rfl, by simp [Tree.inorder, hri],
                  by simp [Tree.inorder], hne, hn, hrl, ?_, ?_⟩
                · have : stops q rtl (prioAt nodes i) = true := hs
                  simp [absorbC, hic, habs, this]
                · intro arr hfr htl hxx hnew
                  rw [hn] at hxx
                  refine isTreeAt_node (setRight (some n) nd) hxx hpar ?_ ?_ rfl
                  · exact hl.frame (fun j hj => hfr j (by simp [Tree.inorder, hj])
                      (fun e => hdisj j hj ri (List.mem_cons_of_mem _ hri) e) (fun e => hil (e ▸ hj)))
                  · show IsTreeAt arr (some i) (some n) (newOpS r n ko sub)
                    refine newOpS_isTreeAt hnew ?_
                    have := harr arr (fun j hj hjr => hfr j (by simp [Tree.inorder, hj]) hjr (fun e => hir (e ▸ hj))) htl
                    rw [hrl] at this
                    exact this
              · intro tl hw'; injection hw' with _ h2; cases h2
            · have hs' : (decide (q < prioAt nodes i) || (q == prioAt nodes i && rtl)) = false := by
                simpa using hs
              simp only [hs', Bool.false_eq_true, if_false]
              constructor
              · intro tl x' hw'; injection hw' with _ h2; cases h2
              · intro tl hw'
                injection hw' with h1 _
                have : stops q rtl (prioAt nodes i) = false := hs'
                exact ⟨h1.symm, by simp [absorbC, hic, habs, this], reparent⟩

end Garnish.Spec
