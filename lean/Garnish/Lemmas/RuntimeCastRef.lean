/-
`StoreLawsC` is satisfiable: the list-backed reference store (Model/Runtime/RefStore.lean) with conversions that answer
as Abs/Casts says for either data implementation. `Decodes` is functional (`decodes_unique`), so "the value at an
address" is well defined; the text / symbol conversions take it by choice (they are specification-level objects: the
point is that the hypotheses of `C08_refine_type_cast` can all hold at once), the number / byte-list conversions are
computable.
-/
import Garnish.Lemmas.RuntimeCast6
import Garnish.Lemmas.RuntimeRefStore
set_option linter.unusedSimpArgs false
set_option linter.unusedVariables false
namespace Garnish.Lemmas.Runtime
open Garnish Gen Garnish.Abs Garnish.Model.Equality Garnish.Model.Runtime
open Garnish.Lemmas.EqualityRefine (decodes_typeOf)

variable {F : Type}

local macro "rv" : tactic => `(tactic| simp only [rv_typeOf, rv_number, rv_char, rv_byte, rv_symbol, rv_expression, rv_external, rv_type_, rv_pair, rv_range, rv_concatenation, rv_slice, rv_partial_, rv_listItems, rv_concatItems, rv_chars, rv_bytes, rv_symList, List.getElem?_concat_length, RCell.ty])

/-! ### an address denotes at most one value -/

mutual
theorem decodes_unique {view : StoreView F} : ∀ {a : Nat} {v v' : Val F},
    Decodes view a v → Decodes view a v' → v = v'
  | _, _, _, .unit h, h' => by
    have ht := Option.some.inj ((decodes_typeOf (.unit h)).symm.trans (decodes_typeOf h'))
    cases h' <;> simp [Val.typeOf] at ht <;> rfl
  | _, _, _, .tru h, h' => by
    have ht := Option.some.inj ((decodes_typeOf (.tru h)).symm.trans (decodes_typeOf h'))
    cases h' <;> simp [Val.typeOf] at ht <;> rfl
  | _, _, _, .fls h, h' => by
    have ht := Option.some.inj ((decodes_typeOf (.fls h)).symm.trans (decodes_typeOf h'))
    cases h' <;> simp [Val.typeOf] at ht <;> rfl
  | _, _, _, .custom h, h' => by
    have ht := Option.some.inj ((decodes_typeOf (.custom h)).symm.trans (decodes_typeOf h'))
    cases h' <;> simp [Val.typeOf] at ht <;> rfl
  | _, _, _, .num h g, h' => by
    have ht := Option.some.inj ((decodes_typeOf (.num h g)).symm.trans (decodes_typeOf h'))
    cases h' with
    | num h2 g2 => rw [g] at g2; cases g2; rfl
    | _ => simp [Val.typeOf] at ht
  | _, _, _, .char h g, h' => by
    have ht := Option.some.inj ((decodes_typeOf (.char h g)).symm.trans (decodes_typeOf h'))
    cases h' with
    | char h2 g2 => rw [g] at g2; cases g2; rfl
    | _ => simp [Val.typeOf] at ht
  | _, _, _, .byte h g, h' => by
    have ht := Option.some.inj ((decodes_typeOf (.byte h g)).symm.trans (decodes_typeOf h'))
    cases h' with
    | byte h2 g2 => rw [g] at g2; cases g2; rfl
    | _ => simp [Val.typeOf] at ht
  | _, _, _, .sym h g, h' => by
    have ht := Option.some.inj ((decodes_typeOf (.sym h g)).symm.trans (decodes_typeOf h'))
    cases h' with
    | sym h2 g2 => rw [g] at g2; cases g2; rfl
    | _ => simp [Val.typeOf] at ht
  | _, _, _, .expr h g, h' => by
    have ht := Option.some.inj ((decodes_typeOf (.expr h g)).symm.trans (decodes_typeOf h'))
    cases h' with
    | expr h2 g2 => rw [g] at g2; cases g2; rfl
    | _ => simp [Val.typeOf] at ht
  | _, _, _, .ext h g, h' => by
    have ht := Option.some.inj ((decodes_typeOf (.ext h g)).symm.trans (decodes_typeOf h'))
    cases h' with
    | ext h2 g2 => rw [g] at g2; cases g2; rfl
    | _ => simp [Val.typeOf] at ht
  | _, _, _, .type h g, h' => by
    have ht := Option.some.inj ((decodes_typeOf (.type h g)).symm.trans (decodes_typeOf h'))
    cases h' with
    | type h2 g2 => rw [g] at g2; cases g2; rfl
    | _ => simp [Val.typeOf] at ht
  | _, _, _, .chars h g, h' => by
    have ht := Option.some.inj ((decodes_typeOf (.chars h g)).symm.trans (decodes_typeOf h'))
    cases h' with
    | chars h2 g2 => rw [g] at g2; cases g2; rfl
    | _ => simp [Val.typeOf] at ht
  | _, _, _, .bytes h g, h' => by
    have ht := Option.some.inj ((decodes_typeOf (.bytes h g)).symm.trans (decodes_typeOf h'))
    cases h' with
    | bytes h2 g2 => rw [g] at g2; cases g2; rfl
    | _ => simp [Val.typeOf] at ht
  | _, _, _, .symList h g, h' => by
    have ht := Option.some.inj ((decodes_typeOf (.symList h g)).symm.trans (decodes_typeOf h'))
    cases h' with
    | symList h2 g2 => rw [g] at g2; cases g2; rfl
    | _ => simp [Val.typeOf] at ht
  | _, _, _, .pair h g dl dr, h' => by
    have ht := Option.some.inj ((decodes_typeOf (.pair h g dl dr)).symm.trans (decodes_typeOf h'))
    cases h' with
    | pair h2 g2 dl2 dr2 => rw [g] at g2; cases g2; rw [decodes_unique dl dl2, decodes_unique dr dr2]
    | _ => simp [Val.typeOf] at ht
  | _, _, _, .range h g dl dr, h' => by
    have ht := Option.some.inj ((decodes_typeOf (.range h g dl dr)).symm.trans (decodes_typeOf h'))
    cases h' with
    | range h2 g2 dl2 dr2 => rw [g] at g2; cases g2; rw [decodes_unique dl dl2, decodes_unique dr dr2]
    | _ => simp [Val.typeOf] at ht
  | _, _, _, .slice h g dl dr, h' => by
    have ht := Option.some.inj ((decodes_typeOf (.slice h g dl dr)).symm.trans (decodes_typeOf h'))
    cases h' with
    | slice h2 g2 dl2 dr2 => rw [g] at g2; cases g2; rw [decodes_unique dl dl2, decodes_unique dr dr2]
    | _ => simp [Val.typeOf] at ht
  | _, _, _, .part h g dl dr, h' => by
    have ht := Option.some.inj ((decodes_typeOf (.part h g dl dr)).symm.trans (decodes_typeOf h'))
    cases h' with
    | part h2 g2 dl2 dr2 => rw [g] at g2; cases g2; rw [decodes_unique dl dl2, decodes_unique dr dr2]
    | _ => simp [Val.typeOf] at ht
  | _, _, _, .concat h g dl dr fl fr ci, h' => by
    have ht := Option.some.inj ((decodes_typeOf (.concat h g dl dr fl fr ci)).symm.trans (decodes_typeOf h'))
    cases h' with
    | concat h2 g2 dl2 dr2 _ _ _ => rw [g] at g2; cases g2; rw [decodes_unique dl dl2, decodes_unique dr dr2]
    | _ => simp [Val.typeOf] at ht
  | _, _, _, .list h g dl, h' => by
    have ht := Option.some.inj ((decodes_typeOf (.list h g dl)).symm.trans (decodes_typeOf h'))
    cases h' with
    | list h2 g2 dl2 => rw [g] at g2; cases g2; rw [decodesList_unique dl dl2]
    | _ => simp [Val.typeOf] at ht
theorem decodesList_unique {view : StoreView F} : ∀ {as : List Nat} {vs vs' : List (Val F)},
    DecodesList view as vs → DecodesList view as vs' → vs = vs'
  | _, _, _, .nil, h' => by cases h'; rfl
  | _, _, _, .cons h t, h' => by
    cases h' with
    | cons h2 t2 => rw [decodes_unique h h2, decodesList_unique t t2]
end

/-! ### the conversions of the reference store -/

/-- the value at an address, if it denotes one -/
noncomputable def refValAt (cells : List (RCell F)) (a : Nat) : Option (Val F) :=
  open Classical in if h : ∃ v, Decodes (refView cells) a v then some (Classical.choose h) else none

theorem refValAt_of {cells : List (RCell F)} {a : Nat} {v : Val F} (h : Decodes (refView cells) a v) :
    refValAt cells a = some v := by
  have hex : ∃ v, Decodes (refView cells) a v := ⟨v, h⟩
  simp only [refValAt, hex, dite_true]
  rw [decodes_unique (Classical.choose_spec hex) h]

def numCell (cs : List Nat) : RCell F :=
  match parseI32 cs with
  | some v => .num (.int v)
  | none => .unit

/-- conversions that answer as Abs/Casts does for the data implementation `env.store` -/
noncomputable def refCastOps (env : CastEnv F) : CastOps (RefState F) where
  addNumberFrom a := fun st =>
    match st.cells[a]? with
    | some (.chars cs) => RefState.add (numCell cs) st
    | _ => RefState.add .unit st
  addCharListFrom a := fun st =>
    match refValAt st.cells a with
    | some v => (match textOf env v with
      | .ok t => RefState.add (.chars t) st
      | .error e => .err e)
    | none => .err .data
  addByteListFrom a := fun st =>
    match env.store with
    | .basic => .ok (a, st)
    | .simple => (match st.cells[a]? with
      | some .unit => RefState.add (.bytes []) st
      | _ => .err .data)
  addSymbolFrom a := fun st =>
    match refValAt st.cells a with
    | some v => (match textOf env v with
      | .ok t => RefState.add (.sym (match env.store with
          | .simple => symbolOfText t
          | .basic => symbolOfText (trimColons t))) st
      | .error e => .err e)
    | none => .err .data

variable (host : RefHost F)

theorem cell_of_decodes_chars {cells : List (RCell F)} {a : Nat} {cs : List Nat}
    (h : Decodes (refView cells) a (.chars cs)) : cells[a]? = some (.chars cs) := by
  cases h with
  | chars ht hc =>
    rw [rv_chars] at hc
    generalize cells[a]? = oc at hc
    cases oc with
    | none => cases hc
    | some c => cases c <;> simp at hc; rw [hc]

theorem add_keeps_building (c : RCell F) (st : RefState F) (a : Nat) (st' : RefState F)
    (h : RefState.add c st = .ok (a, st')) : st'.building = st.building := by
  simp only [RefState.add, Outcome.ok.injEq, Prod.mk.injEq] at h
  obtain ⟨_, rfl⟩ := h; rfl

theorem refStore_lawsC (env : CastEnv F) : StoreLawsC (refStore host) (refCastOps env) env where
  toStoreLaws := refStore_laws host
  addNumberFrom st a cs hd := by
    have hc := cell_of_decodes_chars hd
    show Adds (refStore host) (fun st => match st.cells[a]? with
      | some (.chars cs) => RefState.add (numCell cs) st
      | _ => RefState.add .unit st) st (numberOut cs)
    have : (fun st : RefState F => match st.cells[a]? with
      | some (.chars cs) => RefState.add (numCell cs) st
      | _ => RefState.add .unit st) st = RefState.add (numCell cs) st := by simp only [hc]
    unfold Adds
    rw [this]
    unfold numCell numberOut
    cases parseI32 cs with
    | none => exact adds_add host st .unit .unit (.unit (by rv))
    | some v => exact adds_add host st (.num (.int v)) (.num (.int v)) (.num (by rv) (by rv))
  addCharListFrom st a v hd := by
    have hv := refValAt_of hd
    unfold textOut
    cases ht : textOf env v with
    | ok t =>
      show Adds (refStore host) ((refCastOps env).addCharListFrom a) st (.chars t)
      have : (refCastOps env).addCharListFrom a st = RefState.add (.chars t) st := by
        show (match refValAt st.cells a with
          | some v => (match textOf env v with
            | .ok t => RefState.add (.chars t) st
            | .error e => .err e)
          | none => .err .data) = _
        rw [hv]; simp only [ht]
      unfold Adds
      rw [this]
      exact adds_add host st (.chars t) (.chars t) (.chars (by rv) (by rv))
    | error e =>
      show (refCastOps env).addCharListFrom a st = .err e
      show (match refValAt st.cells a with
          | some v => (match textOf env v with
            | .ok t => RefState.add (.chars t) st
            | .error e => .err e)
          | none => .err .data) = _
      rw [hv]; simp only [ht]
  addByteListFrom st a v hd := by
    unfold byteListFrom
    cases hs : env.store with
    | basic =>
      show Adds (refStore host) ((refCastOps env).addByteListFrom a) st v
      refine ⟨a, st, ?_, hd, Eff.refl _ st⟩
      show (match env.store with
        | .basic => Outcome.ok (a, st)
        | .simple => (match st.cells[a]? with
          | some .unit => RefState.add (.bytes []) st
          | _ => .err .data)) = _
      rw [hs]
    | simple =>
      have hop : (refCastOps env).addByteListFrom a st = (match st.cells[a]? with
          | some .unit => RefState.add (.bytes []) st
          | _ => .err .data) := by
        show (match env.store with
          | .basic => Outcome.ok (a, st)
          | .simple => (match st.cells[a]? with
            | some .unit => RefState.add (.bytes []) st
            | _ => .err .data)) = _
        rw [hs]
      have hty := decodes_typeOf hd
      change (refView st.cells).typeOf a = _ at hty
      rw [rv_typeOf] at hty
      generalize hcell : st.cells[a]? = oc at hty hop
      cases oc with
      | none => cases hty
      | some c =>
        simp only [Option.some.injEq] at hty
        cases v <;> cases c <;> simp [RCell.ty, Val.typeOf] at hty
        case unit.unit =>
          show Adds (refStore host) ((refCastOps env).addByteListFrom a) st (.bytes [])
          unfold Adds
          rw [hop]
          exact adds_add host st (.bytes []) (.bytes []) (.bytes (by rv) (by rv))
        all_goals (show (refCastOps env).addByteListFrom a st = .err .data; rw [hop])
  addSymbolFrom st a v hd := by
    have hv := refValAt_of hd
    have hop : (refCastOps env).addSymbolFrom a st = (match textOf env v with
        | .ok t => RefState.add (.sym (match env.store with
            | .simple => symbolOfText t
            | .basic => symbolOfText (trimColons t))) st
        | .error e => .err e) := by
      show (match refValAt st.cells a with
        | some v => (match textOf env v with
          | .ok t => RefState.add (.sym (match env.store with
              | .simple => symbolOfText t
              | .basic => symbolOfText (trimColons t))) st
          | .error e => .err e)
        | none => .err .data) = _
      rw [hv]
    unfold symbolFrom
    cases ht : textOf env v with
    | error e => show (refCastOps env).addSymbolFrom a st = .err e; rw [hop, ht]
    | ok t =>
      rw [ht] at hop
      simp only [] at hop ⊢
      cases hs : env.store with
      | simple =>
        show Adds (refStore host) ((refCastOps env).addSymbolFrom a) st (.sym (symbolOfText t))
        unfold Adds
        rw [hop, hs]
        exact adds_add host st (.sym _) (.sym _) (.sym (by rv) (by rv))
      | basic =>
        show Adds (refStore host) ((refCastOps env).addSymbolFrom a) st (.sym (symbolOfText (trimColons t)))
        unfold Adds
        rw [hop, hs]
        exact adds_add host st (.sym _) (.sym _) (.sym (by rv) (by rv))
  buildAddUnit st a st' h := add_keeps_building _ st a st' h
  buildAddNumber n st a st' h := add_keeps_building _ st a st' h
  buildAddChar c st a st' h := add_keeps_building _ st a st' h
  buildAddByte b st a st' h := add_keeps_building _ st a st' h
  buildAddSymbol y st a st' h := add_keeps_building _ st a st' h
  buildPushRegister x st u st' h := by
    change (Outcome.ok ((), { st with regs := x :: st.regs }) : Outcome (Unit × RefState F)) = .ok (u, st') at h
    simp only [Outcome.ok.injEq, Prod.mk.injEq] at h
    obtain ⟨_, rfl⟩ := h; rfl

end Garnish.Lemmas.Runtime
