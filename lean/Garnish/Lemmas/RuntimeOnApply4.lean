/-
Lemmas/RuntimeApply4.lean over `StoreLawsOn`: the path arm (`PathOn`).
-/
import Garnish.Lemmas.RuntimeOnApply3
set_option linter.unusedSimpArgs false
set_option linter.unusedVariables false
namespace Garnish.Lemmas.Runtime.On
open Garnish Gen Garnish.Abs Garnish.Model.Equality Garnish.Model.Runtime Garnish.Lemmas.Runtime

variable {F σ : Type} {S : RStore F σ} {Inv : σ → Prop} {Rd : σ → Nat → Prop} (fo : FloatOps F)

/-! ### the `(List, SymbolList)` path -/

theorem accessPath_cons (p : SymPart F) (ps : List (SymPart F)) (cur : Val F) :
    accessPath fo (p :: ps) cur = match pathLookup fo p cur with
      | .some v => accessPath fo ps v
      | .none => .some .unit
      | .unsupported => .some .unit
      | .err e => .err e := by
  cases p <;> rfl

/-- along the path: no `custom` node in a concatenation that is looked into; a symbol step into a list needs the
store's `get_list_item_with_symbol` clause -/
def PathOn (S : RStore F σ) (Inv : σ → Prop) : List (SymPart F) → Val F → Prop
  | [], _ => True
  | p :: ps, cur => ncConcat cur ∧ ((∀ y, p = .sym y → ∀ vs, cur ≠ .list vs) ∨ ListSymOn S Inv) ∧
      ∀ v, pathLookup fo p cur = .some v → PathOn S Inv ps v

/-- one step of the path in the handler -/
theorem applyPathStep_spec (L : StoreLawsOn S Inv Rd) (fuel : Nat) {s : σ} {a : Nat} {cur : Val F} (p : SymPart F)
    (h : Decodes (S.view s) a cur) (hd : AccessDomain cur) (hfu : accessFuel cur ≤ fuel)
    (hk : ∀ n, p = .num n → (∃ i, n = .int i) ∧ RangeOrdered fo n cur)
    (hnc : ncConcat cur) (hls : (∀ y, p = .sym y → ∀ vs, cur ≠ .list vs) ∨ ListSymOn S Inv)
    (hinv : Inv s := by inv_tac) (hdp : Deep S s (S.regs s) := by deep_tac) :
    match pathLookup fo p cur with
    | .some v => ∃ x s', applyPathStep fo S fuel p a s = .ok (some x, s') ∧ Decodes (S.view s') x v ∧
        EffI S Inv s s' (S.regs s) (S.vals s)
    | .none => ∃ s', applyPathStep fo S fuel p a s = .ok (none, s') ∧ EffI S Inv s s' (S.regs s) (S.vals s)
    | .unsupported => applyPathStep fo S fuel p a s = .ok (none, s)
    | .err e => applyPathStep fo S fuel p a s = .err e := by
  have hacc : AccOutI S Inv s (pathAccess fo S fuel p a s) (pathLookup fo p cur) := by
    cases p with
    | sym y => exact accessWithSymbol_spec fo L fuel y h hd hfu hnc (hls.imp (fun f => f y rfl) id)
    | num n =>
      obtain ⟨⟨i, rfl⟩, hro⟩ := hk n rfl
      exact accessWithInteger_spec fo L fuel i h hd hro hfu hnc
  have hne : pathLookup fo p cur ≠ .err .unsupported := by
    cases p with
    | sym y => exact getAccess_ne_unsupportedErr fo (key := .sym y) hd
    | num n => exact getAccess_ne_unsupportedErr fo (key := .num n) hd
  unfold applyPathStep
  cases hx : pathLookup fo p cur with
  | some v =>
    rw [hx] at hacc
    obtain ⟨x, s1, h1, d1, e1⟩ := hacc
    exact ⟨x, s1, by simp only [h1], d1, e1⟩
  | none =>
    rw [hx] at hacc
    obtain ⟨s1, h1, e1⟩ := hacc
    exact ⟨s1, by simp only [h1], e1⟩
  | unsupported =>
    rw [hx] at hacc
    simp only [AccOutI] at hacc
    simp only [hacc, beq_self_eq_true, if_true]
  | err e =>
    rw [hx] at hacc hne
    simp only [AccOutI] at hacc
    have : (e == ErrClass.unsupported) = false := by
      cases e <;> first | rfl | exact absurd rfl hne
    simp only [hacc, this, Bool.false_eq_true, if_false]

/-- the path loop refines Abs/Ops `accessPath` -/
theorem applyPathLoop_spec (L : StoreLawsOn S Inv Rd) (fuel : Nat) : ∀ (ps : List (SymPart F)) (cur : Val F) (s : σ) (a : Nat),
    Inv s → Deep S s (S.regs s) → PathOn fo S Inv ps cur → Decodes (S.view s) a cur → PathDomain fo fuel ps cur →
    match accessPath fo ps cur with
    | .some v => ∃ x s', applyPathLoop fo S fuel ps a s = .ok (x, s') ∧ Decodes (S.view s') x v ∧
        EffI S Inv s s' (S.regs s) (S.vals s)
    | .err e => applyPathLoop fo S fuel ps a s = .err e
    | _ => True
  | [], cur, s, a, hinv, _, _, h, _ => ⟨a, s, rfl, h, EffI.refl s hinv⟩
  | p :: ps, cur, s, a, hinv, hdp, hpo, h, hd => by
    obtain ⟨hdom, hfu, hk, hnext⟩ := hd
    obtain ⟨hnc, hls, hponext⟩ := hpo
    have hstep := applyPathStep_spec fo L fuel p h hdom hfu hk hnc hls
    rw [accessPath_cons, applyPathLoop]
    cases hx : pathLookup fo p cur with
    | some v =>
      rw [hx] at hstep
      obtain ⟨x, s1, h1, d1, e1⟩ := hstep
      have ih := applyPathLoop_spec L fuel ps v s1 x e1.inv (deep_regs_of e1 hdp) (hponext v hx) d1 (hnext v hx)
      simp only []
      rw [bind_ok h1]
      simp only []
      cases hy : accessPath fo ps v with
      | some w =>
        rw [hy] at ih
        obtain ⟨y, s2, h2, d2, e2⟩ := ih
        rw [e1.regs, e1.vals] at e2
        exact ⟨y, s2, h2, d2, e1.trans e2⟩
      | err e => rw [hy] at ih; exact ih
      | none => trivial
      | unsupported => trivial
    | none =>
      rw [hx] at hstep
      obtain ⟨s1, h1, e1⟩ := hstep
      obtain ⟨u, s2, h2, d2, e2⟩ := adds_i (L.addUnit s1 (by inv_tac))
      rw [e1.regs, e1.vals] at e2
      simp only []
      exact ⟨u, s2, by rw [bind_ok h1]; exact h2, d2, e1.trans e2⟩
    | unsupported =>
      rw [hx] at hstep
      obtain ⟨u, s2, h2, d2, e2⟩ := adds_i (L.addUnit s (by inv_tac))
      simp only []
      exact ⟨u, s2, by rw [bind_ok hstep]; exact h2, d2, e2⟩
    | err e =>
      rw [hx] at hstep
      simp only []
      exact bind_err hstep

theorem symList_fetch {s : σ} {a : Nat} {ps : List (SymPart F)} (h : Decodes (S.view s) a (.symList ps)) :
    getSymbolListIter S a s = .ok (ps, s) := by
  cases h with
  | symList _ hp => simp [getSymbolListIter, RM.lift, hp, fetch, Outcome.ofOption, Outcome.bind]

/-- the `(List, SymbolList)` arm: follow the path -/
theorem apply_path_spec (L : StoreLawsOn S Inv Rd) (fuel : Nat) (instr : Instruction) (ur : Bool)
    {s : σ} {r l : Nat} {items : List (Val F)} {ps : List (SymPart F)} {rest : List Nat}
    (hregs : S.regs s = r :: l :: rest) (hl : Decodes (S.view s) l (.list items))
    (hr : Decodes (S.view s) r (.symList ps)) (hd : PathDomain fo fuel ps (.list items))
    (hpo : PathOn fo S Inv ps (.list items)) (hres : ∀ v, accessPath fo ps (.list items) = .some v → v ≠ .custom)
    (hinv : Inv s := by inv_tac) (hdp : Deep S s rest := by deep_tac) :
    applyKind fo instr ur (.list items) (.symList ps) = .out (accOut (accessPath fo ps (.list items))) ∧
    RefinesOutI S Inv s (applyInternal fo S fuel instr ur s) (some (S.cursor s + 1)) rest l r
      (accOut (accessPath fo ps (.list items))) := by
  obtain ⟨s0, e0, hl0, hr0, hp⟩ := applyInternal_prefix fo L fuel instr ur hregs hl hr
  have hpath := applyPathLoop_spec fo L fuel ps (.list items) s0 l e0.inv (deep_regs_of e0 hdp) hpo hl0 hd
  refine ⟨by simp only [applyKind]; cases accessPath fo ps (.list items) <;> rfl, ?_⟩
  rw [hp]
  simp only [Val.typeOf, applyMatch]
  rw [bind_ok2 (symList_fetch hr0)]
  cases hx : accessPath fo ps (.list items) with
  | some v =>
    rw [hx] at hpath
    obtain ⟨x, s1, h1, d1, e1⟩ := hpath
    obtain ⟨s2, h2, e2⟩ := pushReg L d1 (hres v hx)
    rw [e1.regs, e1.vals, e0.regs, e0.vals] at e2
    exact ⟨x, s2, by rw [bind_ok2 h1, bind_ok2 h2]; rfl, e2.dec d1, (e0.trans e1).trans e2⟩
  | err e =>
    rw [hx] at hpath
    show _ = Outcome.err e
    rw [bind_apply, bind_err hpath]
  | none =>
    exfalso
    have : ∀ (qs : List (SymPart F)) (c : Val F), accessPath fo qs c ≠ .none := by
      intro qs
      induction qs with
      | nil => intro c h; cases h
      | cons q qs ih =>
        intro c h
        rw [accessPath_cons] at h
        cases hq : pathLookup fo q c <;> rw [hq] at h <;> first | exact ih _ h | cases h
    exact this _ _ hx
  | unsupported =>
    exfalso
    have : ∀ (qs : List (SymPart F)) (c : Val F), accessPath fo qs c ≠ .unsupported := by
      intro qs
      induction qs with
      | nil => intro c h; cases h
      | cons q qs ih =>
        intro c h
        rw [accessPath_cons] at h
        cases hq : pathLookup fo q c <;> rw [hq] at h <;> first | exact ih _ h | cases h
    exact this _ _ hx

end Garnish.Lemmas.Runtime.On
