/-
More vocabulary over `StoreLawsOn`: `deep_tac` extended, law wrappers as invariant-carrying effects (`pushVal`, `pushFrm`, `popValNil`,
`popValCons`), `AccOutI`, `ResolveProtocolI`, `ResolveContextI`, `ApplyProtocolI`, `EnteredI`.
-/
import Garnish.Lemmas.RuntimeOnG2
import Garnish.Model.Runtime.RefinesApply
set_option linter.unusedSimpArgs false
set_option linter.unusedVariables false
namespace Garnish.Lemmas.Runtime.On
open Garnish Gen Garnish.Abs Garnish.Model.Equality Garnish.Model.Runtime Garnish.Lemmas.Runtime

variable {F σ : Type}

theorem deep_app {S : RStore F σ} {s : σ} {base : List Nat} (hd : Deep S s base) (xs : List Nat) :
    Deep S s (xs ++ base) :=
  fun ret saved fs h => by have := hd ret saved fs h; simp; omega

theorem deep_regs_of {S : RStore F σ} {Inv : σ → Prop} {s s' : σ} {R V : List Nat} (e : EffI S Inv s s' R V)
    (hd : Deep S s R) : Deep S s' (S.regs s') := by rw [e.regs]; exact e.deep hd

/-- more ways to find `Deep` -/
macro_rules
  | `(tactic| deep_tac) => `(tactic| first
    | assumption
    | (apply deep_cons; assumption)
    | (apply EffI.deep <;> assumption)
    | (apply deep_regs_of <;> assumption))

section laws
variable {S : RStore F σ} {Inv : σ → Prop} {Rd : σ → Nat → Prop} (L : StoreLawsOn S Inv Rd)
include L

/-- `push_value_stack` of an address at hand -/
theorem pushVal {s : σ} {a : Nat} {v : Val F} (hd : Decodes (S.view s) a v) (hv : v ≠ .custom)
    (hinv : Inv s := by inv_tac) :
    ∃ s', S.pushValueStack a s = .ok ((), s') ∧ EffI S Inv s s' (S.regs s) (a :: S.vals s) := by
  obtain ⟨s', h1, e, i⟩ := L.pushValueStack a s hinv (L.readable s a v hinv hd hv)
  exact ⟨s', h1, e, i⟩

theorem pushFrm (j : Nat) (s : σ) (hinv : Inv s := by inv_tac) :
    ∃ s', S.pushFrame j s = .ok ((), s') ∧
      FEffI S Inv s s' (S.regs s) (S.vals s) ((j, S.regs s) :: S.frames s) := by
  obtain ⟨s', h1, e, i⟩ := L.pushFrame j s hinv
  exact ⟨s', h1, e, i⟩

theorem popValNil {s : σ} (hv : S.vals s = []) (hinv : Inv s := by inv_tac) :
    ∃ s', S.popValueStack s = .ok (none, s') ∧ EffI S Inv s s' (S.regs s) [] := by
  obtain ⟨s', h1, e, i⟩ := L.popValueStackNil s hinv hv
  exact ⟨s', h1, e, i⟩

theorem popValCons {s : σ} {a : Nat} {rest : List Nat} (hv : S.vals s = a :: rest) (hinv : Inv s := by inv_tac) :
    ∃ s', S.popValueStack s = .ok (some a, s') ∧ EffI S Inv s s' (S.regs s) rest := by
  obtain ⟨s', h1, e, i⟩ := L.popValueStackCons s a rest hinv hv
  exact ⟨s', h1, e, i⟩

end laws

def AccOutI (S : RStore F σ) (Inv : σ → Prop) (s : σ) (res : Outcome (Option Nat × σ)) (a : Acc F) : Prop :=
  match a with
  | .some v => ∃ x s', res = .ok (some x, s') ∧ Decodes (S.view s') x v ∧ EffI S Inv s s' (S.regs s) (S.vals s)
  | .none => ∃ s', res = .ok (none, s') ∧ EffI S Inv s s' (S.regs s) (S.vals s)
  | .unsupported => res = .err .unsupported
  | .err e => res = .err e

def ResolveProtocolI {α : Type} (S : RStore F σ) (Inv : σ → Prop) (s0 : σ) (res : Outcome (α × σ)) (next : α)
    (sym : Nat) : Prop :=
  match S.resolve sym s0 with
  | .ok (true, s1) => res = .ok (next, s1)
  | .ok (false, s1) => Inv s1 → PushedI S Inv s1 res next (S.regs s1) .unit
  | .err e => res = .err e
  | .panic p => res = .panic p
  | .fuelOut => res = .fuelOut

def ResolveContextI {α : Type} (S : RStore F σ) (Inv : σ → Prop) (s : σ) (res : Outcome (α × σ)) (next : α)
    (key : Val F) : Prop :=
  ∃ s0, EffI S Inv s s0 (S.regs s) (S.vals s) ∧
    match key with
    | .sym sy => ResolveProtocolI S Inv s0 res next sy
    | _ => PushedI S Inv s0 res next (S.regs s0) .unit

def ApplyProtocolI {α : Type} (S : RStore F σ) (Inv : σ → Prop) (s0 : σ) (res : Outcome (α × σ)) (next : α)
    (ext arg : Nat) : Prop :=
  match S.apply ext arg s0 with
  | .ok (true, s1) => res = .ok (next, s1)
  | .ok (false, s1) => Inv s1 → PushedI S Inv s1 res next (S.regs s1) .unit
  | .err e => res = .err e
  | .panic p => res = .panic p
  | .fuelOut => res = .fuelOut

def EnteredI (S : RStore F σ) (Inv : σ → Prop) (s : σ) (res : Outcome (Option Nat × σ)) (rest : List Nat) (j : Nat)
    (input : Val F) : Prop :=
  match S.jumpTable s j with
  | none => res = .err .state
  | some t => ∃ ia s', res = .ok (some t, s') ∧ Decodes (S.view s') ia input ∧
      FEffI S Inv s s' rest (ia :: S.vals s) ((S.cursor s + 1, rest) :: S.frames s)

end Garnish.Lemmas.Runtime.On
