/-
`refParseB` on `e op [ body ] v` and `e op [ body ]`: `refParseB_op_block_value`, `refParseB_op_block`.
-/
import Garnish.Lemmas.ParseBlocksC2

namespace Garnish.Spec
open Garnish Garnish.Gen Garnish.Model.Parser Garnish.Abs.Source

theorem stealDef_attach (q : Nat) (rtl : Bool) (d : Definition) (k : Nat) (t : RTree) (dv : Definition) :
    stealDef (attach Table.gen q rtl d k t) dv = underDef d dv := by
  unfold stealDef underDef
  rw [bottomIsAccess_eq, (attach_bottom Table.gen q rtl d k t).2]
  cases dv <;> simp

theorem asProperty_left {l r : RTree} {d : Definition} {k : Nat} (h : l.isNil = false) :
    asProperty (.node l d k r) = .node l d k r := by
  unfold asProperty
  split
  · rename_i kk heq
    injection heq with e1 _ _ _
    rw [e1] at h; cases h
  · rfl

/-- **the value of `refParseB` on `e op [ body ] v`** -/
theorem refParseB_op_block_value {F : Fl} (e body : Ex) (op o c v : PToken) (ws1 ws2 wsA wsB ws3 : List PToken)
    (he : e.ok F false = true) (hbody : body.ok F false = true) (hop : isBin3Tok op = true)
    (ho : o.type = .startSideEffect) (hc : c.type = .endSideEffect) (hv : isAtom10 v = true)
    (hw1 : ∀ w ∈ ws1, isTriviaTok w = true) (hw2 : ∀ w ∈ ws2, isTriviaTok w = true)
    (hwA : ∀ w ∈ wsA, isTriviaTok w = true) (hwB : ∀ w ∈ wsB, isTriviaTok w = true)
    (hw3 : ∀ w ∈ ws3, isTriviaTok w = true)
    (hnum : NumberedFrom 0
      (e.toks ++ (ws1 ++ (op :: (ws2 ++ (o :: (wsA ++ (body.toks ++ (wsB ++ (c :: (ws3 ++ [v])))))))))))
    (te tb : RTree) (hte : refParse Table.gen e.toks = .ok te) (htb : refParse Table.gen body.toks = .ok tb)
    (q : Nat) (hq : priority (getDefinition op.type).1 = some q) :
    refParseB Table.gen (e.toks ++ (ws1 ++ (op :: (ws2 ++ (o :: (wsA ++ (body.toks ++ (wsB ++ (c :: (ws3 ++ [v])))))))))) =
      .ok (plug (attach Table.gen q ((getDefinition op.type).2 == .binaryRightToLeft) (getDefinition op.type).1
            (e.toks.length + ws1.length) te)
          (.node
            (.node .nil .sideEffect (e.toks.length + ws1.length + 1 + ws2.length)
              (tb.shift (e.toks.length + ws1.length + 1 + ws2.length + 1 + wsA.length)))
            (underDef (getDefinition op.type).1 (getDefinition v.type).1)
            (e.toks.length + ws1.length + 1 + ws2.length + 1 + wsA.length + body.toks.length + wsB.length + 1 + ws3.length)
            .nil)) := by
  obtain ⟨hvt, _⟩ := atom_valueTok hv
  -- trimming
  have hne : e.toks ++ (ws1 ++ (op :: (ws2 ++ (o :: (wsA ++ (body.toks ++ (wsB ++ (c :: (ws3 ++ [v]))))))))) ≠ [] := by
    have := e.toks_ne; simp [this]
  obtain ⟨th, trest, hth, hthn⟩ := ex_head e false he
  have hhead : isTrimmable
      ((e.toks ++ (ws1 ++ (op :: (ws2 ++ (o :: (wsA ++ (body.toks ++ (wsB ++ (c :: (ws3 ++ [v])))))))))).head hne) = false := by
    have : (e.toks ++ (ws1 ++ (op :: (ws2 ++ (o :: (wsA ++ (body.toks ++ (wsB ++ (c :: (ws3 ++ [v])))))))))).head hne = th := by
      simp [hth]
    rw [this]; exact hthn
  have hlast : isTrimmable
      ((e.toks ++ (ws1 ++ (op :: (ws2 ++ (o :: (wsA ++ (body.toks ++ (wsB ++ (c :: (ws3 ++ [v])))))))))).getLast hne) =
      false := by
    have e1 : e.toks ++ (ws1 ++ (op :: (ws2 ++ (o :: (wsA ++ (body.toks ++ (wsB ++ (c :: (ws3 ++ [v]))))))))) =
        (e.toks ++ (ws1 ++ (op :: (ws2 ++ (o :: (wsA ++ (body.toks ++ (wsB ++ (c :: ws3))))))))) ++ [v] := by simp
    rw [getLast_of_eq_append hne e1]; exact atom10_not_trimmable hv
  obtain ⟨_, hts, htr⟩ := trim_id _ hne hhead hlast
  -- positions
  have hnumE := numbered_prefix e.toks _ 0 hnum
  have hn1 := numbered_append e.toks _ 0 hnum
  have hn2 := numbered_append ws1 _ _ hn1
  have hn3 := numbered_append ws2 _ _ hn2.2
  have hn4 := numbered_append wsA _ _ hn3.2
  have hnumB := numbered_prefix body.toks _ _ hn4
  rw [Nat.zero_add] at hnumB
  unfold refParseB
  simp only [hts, htr]
  have hlen : ¬ (0 ≥ (e.toks ++ (ws1 ++ (op :: (ws2 ++ (o :: (wsA ++ (body.toks ++ (wsB ++ (c :: (ws3 ++ [v])))))))))).length) := by
    have := List.length_pos_iff.mpr hne; omega
  simp only [List.drop_zero, Nat.sub_zero, List.take_length, hlen, if_false]
  -- up to `]`
  obtain ⟨sB, hB, hstack, _, hpend, hcur⟩ := refLoopB_op_block e body op o c ws1 ws2 wsA wsB (ws3 ++ [v]) he hbody hop ho hc
    hw1 hw2 hwA hwB hnumE hnumB te tb hte htb q hq
  rw [hB]
  -- trivia, the value, the end
  obtain ⟨b, hb⟩ := refLoopB_pend_trivia ws3 hw3 sB _ [v] (by rw [hpend]; rfl)
  rw [hb]
  have hstep := refStepB_pend_value hvt { sB with f := { sB.f with ws := b } } _ _ hpend rfl
    (e.toks.length + ws1.length + 1 + ws2.length + 1 + wsA.length + body.toks.length + wsB.length + 1 + ws3.length) []
  rw [stage_tok _ _ _ v [] hstep]
  simp only [refLoopB, hstack, List.isEmpty_nil, Bool.not_true, Bool.false_eq_true, if_false, stolenFrame,
    Option.isNone_none, Bool.true_and]
  have hlo : (Last.operand == Last.op || Last.operand == Last.sep) = false := rfl
  simp only [hlo, Bool.false_eq_true, if_false, Outcome.ok.injEq]
  -- the tree
  have hnbE : ∀ x ∈ e.toks, noBlockTok x = true := by
    intro x hx
    have hl := hte
    rw [refParse_ex e he] at hl
    exact refLoop_ok_noblock _ _ _ _ _ hl x hx
  have hnbB : ∀ x ∈ body.toks, noBlockTok x = true := by
    intro x hx
    have hl := htb
    rw [refParse_ex body hbody] at hl
    exact refLoop_ok_noblock _ _ _ _ _ hl x hx
  have hA := noBG_attach Table.gen q ((getDefinition op.type).2 == .binaryRightToLeft) (getDefinition op.type).1
    (e.toks.length + ws1.length) te (refParse_noBG hte hnbE)
  have hutb : unB tb = tb := unB_of_noBG tb (refParse_noBG htb hnbB)
  rw [unB_plug _ _ hA (asProperty_left rfl) (by simp only [unB]; exact asProperty_left rfl)]
  simp only [unB, beq_self_eq_true, if_true, unB_shift, hutb, stealDef_attach]

end Garnish.Spec
