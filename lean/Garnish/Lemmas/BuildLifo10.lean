/-
C04, builder half — the order of the out-of-line parts, part 10: the concrete phase updates of Lemmas/BuildTotal* as `StepL`.
-/
import Garnish.Lemmas.BuildLifo9
import Garnish.Lemmas.BuildAttr
namespace Garnish.Lemmas.BuildSeq
open Garnish Garnish.Gen Garnish.Model.Parser Garnish.Model.Literals Garnish.Model.Build Garnish.Lemmas.Build
open Garnish.Lemmas.BuildTotal
open Garnish.Lemmas.BuildOrder (Above Attr Moving)
open Garnish.Lemmas.BuildAttr (assign_some)

variable {F : Type} {root : Nat} {tree : Array ParseNode} {G : Nat → Prop} {m0 : Nat}

theorem assign_mem : ∀ (asg : List (Nat × BuildNode)) (nodes : Nodes) (c : Nat) (b : BuildNode), (c, b) ∈ asg → c < nodes.size →
    ∃ b', (assign nodes asg)[c]? = some (some b') := by
  intro asg
  induction asg with
  | nil => intro nodes c b h; cases h
  | cons p rest ih =>
    intro nodes c b h hlt
    obtain ⟨i, b0⟩ := p
    simp only [assign, List.foldl_cons] at ih ⊢
    rcases List.mem_cons.1 h with e | e
    · cases e
      exact assign_some rest (putNode nodes c b) c b (by rw [getElem?_putNode, if_pos rfl, if_pos hlt])
    · exact ih (putNode nodes i b0) c b e (by rw [size_putNode]; exact hlt)

theorem all_layout {ni : Nat} {pn : ParseNode} (hpn : tree[ni]? = some pn) (ol or_ : Option Nat) (hl : pn.left = ol)
    (hr : pn.right = or_) (k : Lay) (hk : layout pn.definition = k) (cs : List Nat) (hcs : ∀ c, c ∈ cs ↔ c ∈ csOf k ol or_) :
    ∀ c, ILink tree ni c → c ∈ cs := by
  intro c ⟨pn', h1, h2⟩
  rw [hpn] at h1; cases h1
  rw [hk, hl, hr] at h2
  refine (hcs c).2 ?_
  cases k <;> cases ol <;> cases or_ <;> simp [inlL, inlR] at h2 <;> simp [csOf, h2]
  all_goals (rcases h2 with h | h <;> simp [h])

/-- the phase update of `step_inv` with what it does to `root_stack` and the build nodes -/
theorem mkStepL {ph : Nat → Phase} {ctx ctx' : Ctx F} {ni : Nat} {pn : ParseNode} {vni : Phase} {cs rs suf : List Nat}
    {l : List (Option Nat)} {M M' : Array (Option Nat)}
    (st : Step root tree G ph (stepPhase ph ni vni cs rs) ctx ctx' ni pn vni cs rs suf l M M')
    (asg : List (Nat × BuildNode)) (hN : ctx'.nodes = assign ctx.nodes asg)
    (hR : ctx'.rootStack.toList = ctx.rootStack.toList ++ rs)
    (hdisj : ∀ c, c ∈ cs → c ∉ rs) (hrs3 : rs ≠ [] → vni = .p3)
    (hall : ph ni = .p1 → ∀ c, ILink tree ni c → c ∈ cs)
    (hrs0 : ∀ c, c ∈ rs → ph c = .p0 ∧ pn.right = some c)
    (hdirect : rs ≠ [] → ∀ (bn : BuildNode), ctx.nodes[ni]? = some (some bn) →
      isDirect pn.definition = true ∨ (isJumpIf pn.definition = true ∧ bn.conditionalParent = none))
    (hlast : vni = .p3 → ∀ (r : Nat) (bn : BuildNode), pn.right = some r → ctx.nodes[ni]? = some (some bn) →
      ((isDirect pn.definition = true ∨ (isJumpIf pn.definition = true ∧ bn.conditionalParent = none)) → r ∈ rs) ∧
      (isJumpIf pn.definition = true → ∀ (cp : Nat) (parent : BuildNode), bn.conditionalParent = some cp →
        ctx.nodes[cp]? = some (some parent) → False))
    (helse : vni = .p3 → pn.definition = .elseJump → ∀ (bn : BuildNode), ctx.nodes[ni]? = some (some bn) →
      bn.conditionalParent = none → rs = itemsOf bn)
    (hnoNode : ∀ c, c ∈ cs ++ rs → ∀ (bn : BuildNode), ctx.nodes[c]? ≠ some (some bn))
    (hlt : ∀ c, c ∈ cs ++ rs → c < ctx.nodes.size)
    (hasgkeys : ∀ q, q ∈ asg → q.1 = ni ∨ q.1 ∈ cs ++ rs)
    (hasgall : ∀ c, c ∈ cs ++ rs → ∃ b, (c, b) ∈ asg)
    (hasgni : ∀ q, q ∈ asg → q.1 = ni → ∃ bn : BuildNode, ctx.nodes[ni]? = some (some bn) ∧
      q.2.conditionalParent = bn.conditionalParent ∧ q.2.conditionalItems = bn.conditionalItems)
    (hasgnew : ∀ q, q ∈ asg → q.1 ≠ ni → q.2.conditionalItems = #[] ∧ CPdyn tree G root q.1 q.2.conditionalParent)
    (hgroup : pn.definition = .group → some ni ∉ l) :
    StepL root tree G ph (stepPhase ph ni vni cs rs) ctx ctx' ni pn vni cs rs suf rs l M M' := by
  have hrspr : ∀ c, c ∈ rs → stepPhase ph ni vni cs rs c = .pr := by
    intro c hc
    have h1 : c ≠ ni := (st.hfreshrs c hc).2
    have h2 : c ∉ cs := fun h => hdisj c h hc
    simp [stepPhase, h1, h2, hc]
  refine ⟨st, hR, fun c => ⟨fun h => ⟨h, hrspr c h⟩, fun h => h.1⟩, fun c hc => Or.inl (hrspr c hc), hrs3, hall,
    fun c hc => Or.inl (hrs0 c hc), fun c hc _ _ bn hn => hdirect (List.ne_nil_of_mem hc) bn hn, ?_, ?_, helse, ?_, ?_, ?_, ?_, hgroup⟩
  · intro c cp hc hp
    rw [hrspr c hc] at hp; cases hp
  · intro hv3 r bn hr hn
    obtain ⟨h1, h2⟩ := hlast hv3 r bn hr hn
    exact ⟨fun h => ⟨h1 h, hrspr r (h1 h)⟩, fun hj cp parent hcp hpar => absurd (h2 hj cp parent hcp hpar) id⟩
  · intro x bn' hb' ⟨bn0, hb0⟩
    rw [hN] at hb'
    rcases assign_get asg ctx.nodes x _ hb' with ⟨b, hb, hvb⟩ | ⟨hold, _⟩
    · cases hvb
      rcases hasgkeys _ hb with h | h
      · obtain ⟨bn, g1, g2, g3⟩ := hasgni _ hb h
        have hx : x = ni := h
        subst hx
        have g3' : bn'.conditionalItems = bn.conditionalItems := g3
        exact ⟨bn, g1, g2, Or.inl (by simp [itemsOf, g3'])⟩
      · exact absurd hb0 (hnoNode x h bn0)
    · exact ⟨bn', hold, rfl, Or.inl rfl⟩
  · intro x bn' hb' hno
    rw [hN] at hb'
    rcases assign_get asg ctx.nodes x _ hb' with ⟨b, hb, hvb⟩ | ⟨hold, _⟩
    · cases hvb
      have hxn : x ≠ ni := by
        intro e
        obtain ⟨bn, g1, _⟩ := hasgni _ hb e
        exact hno bn (e ▸ g1)
      have hmem : x ∈ cs ++ rs := by
        rcases hasgkeys _ hb with h | h
        · exact absurd h hxn
        · exact h
      obtain ⟨g1, g2⟩ := hasgnew _ hb hxn
      have g1' : bn'.conditionalItems = #[] := g1
      refine ⟨?_, by simp [itemsOf, g1'], g2⟩
      rcases List.mem_append.1 hmem with h | h
      · exact Or.inl h
      · exact Or.inr ⟨h, hrspr x h⟩
    · exact absurd hold (hno bn')
  · intro x bn hb
    rw [hN]; exact assign_some asg ctx.nodes x bn hb
  · intro c hc
    have hmem : c ∈ cs ++ rs := by
      rcases hc with h | ⟨h, _⟩
      · exact List.mem_append_left _ h
      · exact List.mem_append_right _ h
    obtain ⟨b, hb⟩ := hasgall c hmem
    rw [hN]; exact assign_mem asg ctx.nodes c b hb (hlt c hmem)

end Garnish.Lemmas.BuildSeq
