import Garnish.Spec.Num
set_option linter.unusedSimpArgs false
namespace Garnish.Lemmas
open Garnish Garnish.Number

theorem wrap_of_inRange {x : Int} (h : InRange x) : wrap x = x := by
  unfold InRange at h; unfold wrap; omega

theorem ovf_eq (x : Int) : ovf x = if InRange x then (x, false) else (wrap x, true) := by
  unfold ovf
  by_cases h : InRange x
  · simp [h, wrap_of_inRange h]
  · simp [h]

variable {F : Type} (fo : FloatOps F)

theorem doOp_int (iop : Int → Int → Int × Bool) (fop : F → F → F) (a b : Int) :
    doOp fo iop fop (.int a) (.int b) = if (iop a b).2 then none else some (.int (iop a b).1) := by
  simp [doOp]

theorem exact_map (x : Int) :
    (Spec.exact x).map (Number.int (F := F)) = if InRange x then some (.int x) else none := by
  unfold Spec.exact; split <;> simp

theorem plus_int (a b : Int) (_ha : InRange a) (_hb : InRange b) :
    plus fo (.int a) (.int b) = (Spec.add a b).map .int := by
  simp only [plus, doOp_int, overflowingAdd, ovf_eq, Spec.add, exact_map]
  split <;> simp_all

theorem subtract_int (a b : Int) (_ha : InRange a) (_hb : InRange b) :
    subtract fo (.int a) (.int b) = (Spec.sub a b).map .int := by
  simp only [subtract, doOp_int, overflowingSub, ovf_eq, Spec.sub, exact_map]
  split <;> simp_all

theorem multiply_int (a b : Int) (_ha : InRange a) (_hb : InRange b) :
    multiply fo (.int a) (.int b) = (Spec.mul a b).map .int := by
  simp only [multiply, doOp_int, overflowingMul, ovf_eq, Spec.mul, exact_map]
  split <;> simp_all

theorem divide_int (a b : Int) (_ha : InRange a) (_hb : InRange b) :
    divide fo (.int a) (.int b) = (Spec.div a b).map .int := by
  simp only [divide, isZeroNum, doOp_int, overflowingDiv, ovf_eq, Spec.div]
  by_cases hb0 : b = 0
  · simp [hb0]
  · simp only [hb0, beq_iff_eq, if_false, exact_map]
    split <;> simp_all

theorem integerDivide_int (a b : Int) (_ha : InRange a) (_hb : InRange b) :
    integerDivide fo (.int a) (.int b) = (Spec.div a b).map .int := by
  simp only [integerDivide, isZeroNum, overflowingDiv, ovf_eq, Spec.div]
  by_cases hb0 : b = 0
  · simp [hb0]
  · simp only [hb0, beq_iff_eq, if_false, exact_map]
    split <;> simp_all

theorem tdiv_inRange_iff (a b : Int) (ha : InRange a) (hb : InRange b) (hb0 : b ≠ 0) :
    InRange (Int.tdiv a b) ↔ ¬ (a = -2147483648 ∧ b = -1) := by
  constructor
  · rintro h ⟨rfl, rfl⟩
    revert h; decide
  · intro h
    unfold InRange at *
    have hab : (Int.tdiv a b).natAbs ≤ a.natAbs := by
      rw [Int.natAbs_tdiv]; exact Nat.div_le_self _ _
    by_cases hb1 : b = -1
    · subst hb1
      have : a ≠ -2147483648 := fun h' => h ⟨h', rfl⟩
      have : Int.tdiv a (-1) = -a := by simp [Int.tdiv_neg]
      omega
    · by_cases hb2 : b = 1
      · subst hb2; simp; omega
      · -- |b| ≥ 2 so |a / b| ≤ |a| / 2
        have h2 : (Int.tdiv a b).natAbs ≤ a.natAbs / 2 := by
          rw [Int.natAbs_tdiv]
          have : 2 ≤ b.natAbs := by omega
          exact Nat.div_le_div_left this (by omega)
        omega

theorem remainder_int (a b : Int) (ha : InRange a) (hb : InRange b) :
    remainder fo (.int a) (.int b) = (Spec.rem a b).map .int := by
  simp only [remainder, isZeroNum, doOp_int, overflowingRem, Spec.rem]
  by_cases hb0 : b = 0
  · simp [hb0]
  · simp only [hb0, beq_iff_eq, if_false]
    have := tdiv_inRange_iff a b ha hb hb0
    by_cases hc : a = -2147483648 ∧ b = -1
    · have h' : ¬ InRange (Int.tdiv a b) := by rw [this]; simpa using hc
      simp only [if_pos hc, if_neg h']; rfl
    · have h' : InRange (Int.tdiv a b) := by rw [this]; exact hc
      simp only [if_neg hc, if_pos h']; rfl

theorem pow_natAbs_ge (a : Int) (n : Nat) (ha : 2 ≤ a.natAbs) : 2 ^ n ≤ (a ^ n).natAbs := by
  rw [Int.natAbs_pow]
  exact Nat.pow_le_pow_left ha n

theorem powExact_eq (a : Int) (n : Nat) :
    powExact a n = if InRange (a ^ n) then some (a ^ n) else none := by
  unfold powExact
  by_cases h0 : a = 0
  · subst h0
    cases n with
    | zero => simp; decide
    | succ n => simp [Int.zero_pow]; decide
  by_cases h1 : a = 1
  · subst h1
    have : InRange 1 := by decide
    simp [Int.one_pow, this]
  by_cases hm1 : a = -1
  · subst hm1
    simp only [h0, h1, if_false, if_true]
    have hsq : ∀ k : Nat, (-1 : Int) ^ (2 * k) = 1 := by
      intro k; rw [Int.pow_mul]; simp [Int.one_pow]
    have hr1 : InRange 1 := by decide
    have hrm1 : InRange (-1) := by decide
    rcases Nat.mod_two_eq_zero_or_one n with he | ho
    · have hn : n = 2 * (n / 2) := by omega
      have : (-1 : Int) ^ n = 1 := by rw [hn]; exact hsq _
      simp [he, this, hr1]
    · have hn : n = 2 * (n / 2) + 1 := by omega
      have : (-1 : Int) ^ n = -1 := by rw [hn, Int.pow_succ, hsq]; simp
      simp [ho, this, hrm1]
  simp only [h0, h1, hm1, if_false]
  by_cases hn : 32 ≤ n
  · simp only [hn, if_true]
    have h2 : 2 ≤ a.natAbs := by omega
    have := pow_natAbs_ge a n h2
    have h32 : 2 ^ 32 ≤ 2 ^ n := Nat.pow_le_pow_right (by omega) hn
    have : ¬ InRange (a ^ n) := by
      unfold InRange; omega
    simp [this]
  · simp [hn]

theorem power_int (a b : Int) (_ha : InRange a) (_hb : InRange b) :
    power fo (.int a) (.int b) = (Spec.pow a b).map .int := by
  simp only [power, Spec.pow]
  by_cases hb0 : b < 0
  · simp [hb0]
  · simp only [hb0, if_false, powExact_eq, exact_map]
    split <;> simp

theorem opposite_int (a : Int) (_ha : InRange a) :
    opposite fo (.int a) = (Spec.neg a).map .int := by
  simp only [opposite, overflowingNeg, ovf_eq, Spec.neg, exact_map]
  split <;> simp_all

theorem absoluteValue_int (a : Int) (_ha : InRange a) :
    absoluteValue fo (.int a) = (Spec.abs a).map .int := by
  have : (if a < 0 then -a else a) = (a.natAbs : Int) := by omega
  simp only [absoluteValue, overflowingAbs, ovf_eq, Spec.abs, exact_map, this]
  split <;> simp_all

theorem increment_int (a : Int) (_ha : InRange a) :
    increment fo (.int a) = (Spec.inc a).map .int := by
  simp only [increment, overflowingAdd, ovf_eq, Spec.inc, exact_map]
  split <;> simp_all

theorem decrement_int (a : Int) (_ha : InRange a) :
    decrement fo (.int a) = (Spec.dec a).map .int := by
  simp only [decrement, overflowingSub, ovf_eq, Spec.dec, exact_map]
  split <;> simp_all

theorem shl_int (a b : Int) (_ha : InRange a) (_hb : InRange b) :
    bitwiseShiftLeft (F := F) (.int a) (.int b) = (Spec.shl a b).map .int := by
  simp only [bitwiseShiftLeft, Spec.shl]
  by_cases h : b < 0 ∨ 31 < b
  · have : ¬ (0 ≤ b ∧ b ≤ 31) := by omega
    simp [h, this]
  · have : (0 ≤ b ∧ b ≤ 31) := by omega
    simp [h, this]

theorem shr_int (a b : Int) (_ha : InRange a) (_hb : InRange b) :
    bitwiseShiftRight (F := F) (.int a) (.int b) = (Spec.shr a b).map .int := by
  simp only [bitwiseShiftRight, Spec.shr]
  by_cases h : b < 0 ∨ 31 < b
  · have : ¬ (0 ≤ b ∧ b ≤ 31) := by omega
    simp [h, this]
  · have : (0 ≤ b ∧ b ≤ 31) := by omega
    simp only [h, this, if_false, if_true, Option.map_some, Int.shiftRight_eq_div_pow]
    congr 2
    rw [Int.fdiv_eq_ediv_of_nonneg]
    · simp
    · exact Int.pow_nonneg (show (0:Int) ≤ 2 by decide)

theorem bv_toInt_inRange (v : BitVec 32) : InRange v.toInt := by
  have h1 := BitVec.le_toInt v
  have h2 := BitVec.toInt_lt (x := v)
  unfold InRange
  simp at h1 h2
  omega

theorem and_int (a b : Int) :
    ∃ r, bitwiseAnd (F := F) (.int a) (.int b) = some (.int r) ∧ InRange r ∧
      ∀ i, Spec.bit r i = (Spec.bit a i && Spec.bit b i) :=
  ⟨_, rfl, bv_toInt_inRange _, fun i => by simp only [Spec.bit, BitVec.ofInt_toInt, BitVec.getLsbD_and, BitVec.getLsbD_or, BitVec.getLsbD_xor]⟩

theorem or_int (a b : Int) :
    ∃ r, bitwiseOr (F := F) (.int a) (.int b) = some (.int r) ∧ InRange r ∧
      ∀ i, Spec.bit r i = (Spec.bit a i || Spec.bit b i) :=
  ⟨_, rfl, bv_toInt_inRange _, fun i => by simp only [Spec.bit, BitVec.ofInt_toInt, BitVec.getLsbD_and, BitVec.getLsbD_or, BitVec.getLsbD_xor]⟩

theorem xor_int (a b : Int) :
    ∃ r, bitwiseXor (F := F) (.int a) (.int b) = some (.int r) ∧ InRange r ∧
      ∀ i, Spec.bit r i = (Spec.bit a i ^^ Spec.bit b i) :=
  ⟨_, rfl, bv_toInt_inRange _, fun i => by simp only [Spec.bit, BitVec.ofInt_toInt, BitVec.getLsbD_and, BitVec.getLsbD_or, BitVec.getLsbD_xor]⟩

theorem not_int (a : Int) :
    ∃ r, bitwiseNot (F := F) (.int a) = some (.int r) ∧ InRange r ∧
      ∀ i, i < 32 → Spec.bit r i = !Spec.bit a i :=
  ⟨_, rfl, bv_toInt_inRange _, fun i hi => by simp only [Spec.bit, BitVec.ofInt_toInt, BitVec.getLsbD_not]; simp [hi]⟩


theorem ediv_pow2_inRange (a : Int) (k : Nat) (ha : InRange a) : InRange (a / ((2 ^ k : Nat) : Int)) := by
  have hp : 0 < 2 ^ k := Nat.pow_pos (by decide)
  have hpz : (0:Int) < ((2 ^ k : Nat) : Int) := by omega
  have hna := Int.natAbs_ediv a ((2 ^ k : Nat) : Int)
  have hnb : (((2 ^ k : Nat) : Int)).natAbs = 2 ^ k := by simp
  rw [hnb] at hna
  by_cases h0 : 0 ≤ a
  · have h1 := Int.ediv_nonneg h0 (Int.le_of_lt hpz)
    have h2 := Int.ediv_le_self ((2 ^ k : Nat) : Int) h0
    unfold InRange at *; omega
  · have hq : a / ((2 ^ k : Nat) : Int) < 0 := Int.ediv_neg_of_neg_of_pos (by omega) hpz
    have hle : a.natAbs / 2 ^ k ≤ a.natAbs := Nat.div_le_self _ _
    by_cases hk : k = 0
    · subst hk; simp; exact ha
    · have h2 : 2 ≤ 2 ^ k := by
        have : 2 ^ 1 ≤ 2 ^ k := Nat.pow_le_pow_right (by decide) (by omega)
        simpa using this
      have h3 : a.natAbs / 2 ^ k ≤ a.natAbs / 2 := Nat.div_le_div_left h2 (by decide)
      have h4 : (a / ((2 ^ k : Nat) : Int)).natAbs ≤ a.natAbs / 2 + 1 := by
        rw [hna]; split <;> omega
      unfold InRange at *; omega

theorem some_int_inj {a b : Int} (h : some (Number.int (F := F) a) = some (.int b)) : a = b := by
  injection h with h; injection h

theorem exact_map_some {x r : Int} (h : (Spec.exact x).map (Number.int (F := F)) = some (.int r)) : InRange r := by
  rw [exact_map] at h
  split at h
  · rename_i hx; have := some_int_inj h; subst this; exact hx
  · cases h

theorem results_in_range (op : NumOp) (a b r : Int) (ha : InRange a) (hb : InRange b)
    (h : Number.apply fo op (.int a) (.int b) = some (.int r)) : InRange r := by
  cases op <;> simp only [Number.apply] at h
  · rw [plus_int fo a b ha hb] at h; exact exact_map_some h
  · rw [subtract_int fo a b ha hb] at h; exact exact_map_some h
  · rw [multiply_int fo a b ha hb] at h; exact exact_map_some h
  · rw [divide_int fo a b ha hb, Spec.div] at h
    split at h
    · cases h
    · exact exact_map_some h
  · rw [integerDivide_int fo a b ha hb, Spec.div] at h
    split at h
    · cases h
    · exact exact_map_some h
  · rw [power_int fo a b ha hb, Spec.pow] at h
    split at h
    · cases h
    · exact exact_map_some h
  · rw [remainder_int fo a b ha hb, Spec.rem] at h
    split at h
    · cases h
    · rename_i hb0
      split at h
      · have := some_int_inj h; subst this
        -- |a tmod b| < |b|
        have h1 : (Int.tmod a b).natAbs < b.natAbs := by
          rw [Int.natAbs_tmod]; exact Nat.mod_lt _ (by omega)
        unfold InRange at *; omega
      · cases h
  · rw [absoluteValue_int fo a ha] at h; exact exact_map_some h
  · rw [opposite_int fo a ha] at h; exact exact_map_some h
  · rw [increment_int fo a ha] at h; exact exact_map_some h
  · rw [decrement_int fo a ha] at h; exact exact_map_some h
  · simp only [bitwiseNot] at h; have := some_int_inj h; subst this; exact bv_toInt_inRange _
  · simp only [bitwiseAnd] at h; have := some_int_inj h; subst this; exact bv_toInt_inRange _
  · simp only [bitwiseOr] at h; have := some_int_inj h; subst this; exact bv_toInt_inRange _
  · simp only [bitwiseXor] at h; have := some_int_inj h; subst this; exact bv_toInt_inRange _
  · simp only [bitwiseShiftLeft] at h
    split at h
    · cases h
    · have := some_int_inj h; subst this
      unfold wrap InRange; omega
  · simp only [bitwiseShiftRight] at h
    split at h
    · cases h
    · rename_i hk
      have := some_int_inj h; subst this
      rw [Int.shiftRight_eq_div_pow]
      exact ediv_pow2_inRange a b.toNat ha

theorem int_closed (op : NumOp) (a b : Int) (f : F) :
    Number.apply fo op (.int a) (.int b) ≠ some (.float f) := by
  cases op <;> simp only [Number.apply, plus, subtract, multiply, divide, remainder, integerDivide, power,
    doOp_int, isZeroNum, absoluteValue, opposite, increment, decrement, bitwiseNot, bitwiseAnd, bitwiseOr,
    bitwiseXor, bitwiseShiftLeft, bitwiseShiftRight] <;>
  (repeat' split) <;> simp_all

theorem float_logic (l r : Number F) (hmixed : ¬ (∃ a b, l = .int a ∧ r = .int b)) :
    let lf := match l with | .int a => fo.ofInt a | .float x => x
    let rf := match r with | .int b => fo.ofInt b | .float y => y
    let fin := fun (f : F) => if fo.isFinite f then some (Number.float f) else none
    plus fo l r = fin (fo.add lf rf) ∧ subtract fo l r = fin (fo.sub lf rf) ∧
    multiply fo l r = fin (fo.mul lf rf) ∧
    divide fo l r = (if isZeroNum fo r then none else fin (fo.div lf rf)) ∧
    remainder fo l r = (if isZeroNum fo r then none else fin (fo.rem lf rf)) := by
  cases l <;> cases r
  · exact absurd ⟨_, _, rfl, rfl⟩ hmixed
  all_goals
    simp only [plus, subtract, multiply, divide, remainder, doOp]
    refine ⟨?_, ?_, ?_, ?_, ?_⟩ <;> (repeat' split) <;> simp_all

theorem float_results_finite (op : NumOp) (l r : Number F) (f : F)
    (hop : op = .plus ∨ op = .subtract ∨ op = .multiply ∨ op = .divide ∨ op = .remainder ∨ op = .power)
    (h : Number.apply fo op l r = some (.float f)) : fo.isFinite f = true := by
  rcases hop with rfl | rfl | rfl | rfl | rfl | rfl <;>
  cases l <;> cases r <;>
  simp only [Number.apply, plus, subtract, multiply, divide, remainder, power, doOp] at h <;>
  (repeat' split at h) <;> simp_all

theorem bitwise_float_none (op : NumOp) (l r : Number F)
    (hop : op = .bitwiseAnd ∨ op = .bitwiseOr ∨ op = .bitwiseXor ∨ op = .bitwiseShiftLeft ∨ op = .bitwiseShiftRight)
    (hf : (∃ x, l = .float x) ∨ (∃ y, r = .float y)) : Number.apply fo op l r = none := by
  rcases hop with rfl | rfl | rfl | rfl | rfl <;>
  rcases hf with ⟨x, rfl⟩ | ⟨y, rfl⟩ <;> (try cases l) <;> (try cases r) <;>
  simp [Number.apply, bitwiseAnd, bitwiseOr, bitwiseXor, bitwiseShiftLeft, bitwiseShiftRight]

theorem power_neg (l : Number F) (b : Int) (hb : b < 0) : power fo l (.int b) = none := by
  cases l <;> simp [power, hb]

theorem integerDivide_float (l r : Number F) (hmixed : ¬ (∃ a b, l = .int a ∧ r = .int b))
    (hsat : ∀ q v, fo.toI32? q = some v → fo.toI32Sat q = v) :
    let lf := match l with | .int a => fo.ofInt a | .float x => x
    let rf := match r with | .int b => fo.ofInt b | .float y => y
    (isZeroNum fo r = true → integerDivide fo l r = none) ∧
    (isZeroNum fo r = false → ∀ v, fo.toI32? (fo.div lf rf) = some v → integerDivide fo l r = some (.int v)) := by
  cases l <;> cases r
  · exact absurd ⟨_, _, rfl, rfl⟩ hmixed
  all_goals
    simp only [integerDivide]
    refine ⟨fun hz => by simp [hz], fun hz v hv => ?_⟩
    simp [hz, hsat _ _ hv]

end Garnish.Lemmas
