/-
C18, reference-grammar level: inserting trivia tokens.
* an annotation token changes nothing (`refLoop_annotation`);
* a whitespace token only sets the `ws` flag of the current frame; the flag is read only when an operand starts directly
  after a complete operand (`beforeOperand`), so it is irrelevant after an operator / opener (`refLoop_ws_irrelevant`),
  before an operator / closer (`refStep_ws_next`) and next to another whitespace token;
* `refLoop_prefix`: a local equivalence of two continuations extends to any common prefix;
* the reference parser reads token types only (`refLoop_types`).
-/
import Garnish.Lemmas.RefSim

namespace Garnish.Spec
open Garnish Garnish.Gen Garnish.Model.Parser

/-! ### `closerFollows` and the `rest` argument of `refStep` -/

theorem closerFollows_append_congr {A B : List PToken} (h : closerFollows A = closerFollows B) :
    ∀ x : List PToken, closerFollows (x ++ A) = closerFollows (x ++ B)
  | [] => h
  | t :: x => by
    simp only [List.cons_append, closerFollows]
    split
    · exact closerFollows_append_congr h x
    · rfl

theorem refStep_rest_congr (tbl : Table) (f : Frame) (stack : List Frame) (pos : Nat) (t : PToken) {r r' : List PToken}
    (h : closerFollows r = closerFollows r') : refStep tbl f stack pos t r = refStep tbl f stack pos t r' := by
  unfold refStep
  rw [h]

/-- **a local equivalence extends to any common prefix** -/
theorem refLoop_prefix {R : RTree → RTree → Prop} (hR : ∀ a, R a a) (tbl : Table) {A B : List PToken}
    (hc : closerFollows A = closerFollows B)
    (h : ∀ f stack pos, ORel R (refLoop tbl f stack pos A) (refLoop tbl f stack pos B)) :
    ∀ (pre : List PToken) f stack pos, ORel R (refLoop tbl f stack pos (pre ++ A)) (refLoop tbl f stack pos (pre ++ B))
  | [], f, stack, pos => h f stack pos
  | t :: pre, f, stack, pos => by
    simp only [List.cons_append, refLoop]
    rw [refStep_rest_congr tbl f stack pos t (closerFollows_append_congr hc pre)]
    cases refStep tbl f stack pos t (pre ++ B) with
    | ok fs => obtain ⟨f', stack'⟩ := fs; exact refLoop_prefix hR tbl hc h pre f' stack' (pos + 1)
    | err e => exact rfl
    | panic s => exact rfl
    | fuelOut => exact True.intro

theorem ORel.rfl' {R : RTree → RTree → Prop} (hR : ∀ a, R a a) : ∀ o : Outcome RTree, ORel R o o
  | .ok a => hR a
  | .err _ => rfl
  | .panic _ => rfl
  | .fuelOut => True.intro

/-! ### token types only -/

def SameTypes (a b : List PToken) : Prop := a.map (·.type) = b.map (·.type)

theorem closerFollows_types : ∀ {a b : List PToken}, SameTypes a b → closerFollows a = closerFollows b
  | [], [], _ => rfl
  | [], _ :: _, h => by simp [SameTypes] at h
  | _ :: _, [], h => by simp [SameTypes] at h
  | t :: a, t' :: b, h => by
    simp only [SameTypes, List.map_cons, List.cons.injEq] at h
    simp only [closerFollows, h.1]
    rw [closerFollows_types (a := a) (b := b) h.2]

theorem refStep_types (tbl : Table) (f : Frame) (stack : List Frame) (pos : Nat) {t t' : PToken} {r r' : List PToken}
    (ht : t.type = t'.type) (hr : SameTypes r r') : refStep tbl f stack pos t r = refStep tbl f stack pos t' r' := by
  unfold refStep
  rw [ht, closerFollows_types hr]

/-- the reference parser reads the token types only (not the texts, not the positions stored in the tokens) -/
theorem refLoop_types (tbl : Table) : ∀ {a b : List PToken}, SameTypes a b → ∀ f stack pos,
    refLoop tbl f stack pos a = refLoop tbl f stack pos b
  | [], [], _, _, _, _ => rfl
  | [], _ :: _, h, _, _, _ => by simp [SameTypes] at h
  | _ :: _, [], h, _, _, _ => by simp [SameTypes] at h
  | t :: a, t' :: b, h, f, stack, pos => by
    simp only [SameTypes, List.map_cons, List.cons.injEq] at h
    simp only [refLoop]
    rw [refStep_types tbl f stack pos h.1 h.2]
    cases refStep tbl f stack pos t' b with
    | ok fs => obtain ⟨f', stack'⟩ := fs; exact refLoop_types tbl h.2 f' stack' (pos + 1)
    | err e => rfl
    | panic s => rfl
    | fuelOut => rfl

theorem SameTypes.append {a a' b b' : List PToken} (h1 : SameTypes a a') (h2 : SameTypes b b') :
    SameTypes (a ++ b) (a' ++ b') := by
  unfold SameTypes at *; simp [h1, h2]

theorem SameTypes.rfl' (a : List PToken) : SameTypes a a := rfl

/-! ### annotations -/

def isAnnTok (t : PToken) : Bool := t.type == .annotation || t.type == .lineAnnotation
def isWsTok (t : PToken) : Bool := t.type == .whitespace

theorem annTok_def {t : PToken} (h : isAnnTok t = true) : (Table.gen.define t.type).2 = .annotation := by
  unfold isAnnTok at h
  simp only [Bool.or_eq_true, beq_iff_eq] at h
  rcases h with h | h <;> rw [h] <;> rfl

theorem wsTok_def {t : PToken} (h : isWsTok t = true) : (Table.gen.define t.type).2 = .whitespace := by
  unfold isWsTok at h
  simp only [beq_iff_eq] at h
  rw [h]; rfl

theorem refStep_annotation {w : PToken} (hw : isAnnTok w = true) (f : Frame) (stack : List Frame) (pos : Nat)
    (rest : List PToken) : refStep Table.gen f stack pos w rest = .ok (f, stack) := by
  have := annTok_def hw
  unfold refStep
  generalize Table.gen.define w.type = ds at this
  obtain ⟨d, s⟩ := ds
  simp only at this
  subst this
  rfl

theorem refStep_whitespace {w : PToken} (hw : isWsTok w = true) (f : Frame) (stack : List Frame) (pos : Nat)
    (rest : List PToken) : refStep Table.gen f stack pos w rest = .ok ({ f with ws := true }, stack) := by
  have := wsTok_def hw
  unfold refStep
  generalize Table.gen.define w.type = ds at this
  obtain ⟨d, s⟩ := ds
  simp only at this
  subst this
  rfl

theorem closerFollows_filler {w : PToken} (hw : isFiller w.type = true) (rest : List PToken) :
    closerFollows (w :: rest) = closerFollows rest := by
  simp [closerFollows, hw]

theorem annTok_filler {w : PToken} (hw : isAnnTok w = true) : isFiller w.type = true := by
  unfold isAnnTok at hw; unfold isFiller
  simp only [Bool.or_eq_true] at hw ⊢
  rcases hw with h | h
  · exact Or.inl (Or.inr h)
  · exact Or.inr h

theorem wsTok_filler {w : PToken} (hw : isWsTok w = true) : isFiller w.type = true := by
  unfold isWsTok at hw; unfold isFiller
  simp [hw]

/-- an annotation token anywhere: same tree up to positions -/
theorem refLoop_annotation {w : PToken} (hw : isAnnTok w = true) (pre post : List PToken) (f : Frame) (stack : List Frame)
    (pos : Nat) :
    ORel (Sim EErase) (refLoop Table.gen f stack pos (pre ++ post)) (refLoop Table.gen f stack pos (pre ++ w :: post)) := by
  apply refLoop_prefix (Sim.rfl' eok_erase) Table.gen (closerFollows_filler (annTok_filler hw) post).symm
  intro f stack pos
  simp only [refLoop, refStep_annotation hw, Outcome.bind]
  exact refLoop_sim eok_erase Table.gen post pos (pos + 1) (FSim.rfl' eok_erase f) (LSim.rfl' eok_erase stack)

/-! ### whitespace -/

theorem beforeOperand_open (tbl : Table) (f : Frame) (pos : Nat) (h1 : f.last ≠ .operand) (h2 : f.last ≠ .suffix) :
    beforeOperand tbl f pos = .ok f := by
  unfold beforeOperand
  cases hl : f.last <;> simp_all

theorem beforeOperand_suffix (tbl : Table) (f : Frame) (pos : Nat) (h : f.last = .suffix) :
    beforeOperand tbl f pos = .err .unsupported := by
  unfold beforeOperand
  rw [h]

theorem operand_ws (tbl : Table) (f : Frame) (stack : List Frame) (pos : Nat) (d : Definition) (l : Last)
    (hl : f.last ≠ .operand) :
    (Outcome.bind (beforeOperand tbl { f with ws := true } pos) fun f =>
        (.ok ({ f with cur := plug f.cur (.node .nil d pos .nil), last := l, ws := false, prevSep := false }, stack) :
          Outcome (Frame × List Frame))) =
      Outcome.bind (beforeOperand tbl f pos) fun f =>
        .ok ({ f with cur := plug f.cur (.node .nil d pos .nil), last := l, ws := false, prevSep := false }, stack) := by
  by_cases hs : f.last = .suffix
  · rw [beforeOperand_suffix tbl f pos hs, beforeOperand_suffix tbl _ pos (show ({ f with ws := true } : Frame).last = _ from hs)]
  · rw [beforeOperand_open tbl f pos hl hs, beforeOperand_open tbl { f with ws := true } pos hl hs]
    rfl

/-- one step from a frame whose last item is not a complete operand: the `ws` flag is not read -/
theorem refStep_ws (tbl : Table) (f : Frame) (stack : List Frame) (pos : Nat) (t : PToken) (rest : List PToken)
    (hl : f.last ≠ .operand) :
    refStep tbl { f with ws := true } stack pos t rest = refStep tbl f stack pos t rest ∨
      ∃ f1, f1.last ≠ .operand ∧ refStep tbl f stack pos t rest = .ok (f1, stack) ∧
        refStep tbl { f with ws := true } stack pos t rest = .ok ({ f1 with ws := true }, stack) := by
  unfold refStep
  generalize tbl.define t.type = ds
  obtain ⟨d, s⟩ := ds
  cases s with
  | none => exact Or.inl rfl
  | annotation => exact Or.inr ⟨f, hl, rfl, rfl⟩
  | whitespace => exact Or.inl rfl
  | startSideEffect => exact Or.inl rfl
  | endSideEffect => exact Or.inl rfl
  | value =>
    left
    simp only
    split
    · rfl
    · exact operand_ws tbl f stack pos d .operand hl
  | identifier =>
    left
    simp only
    split
    · rfl
    · exact operand_ws tbl f stack pos d .operand hl
  | unaryPrefix => exact Or.inl (operand_ws tbl f stack pos d .op hl)
  | binaryLeftToRight => exact Or.inl rfl
  | binaryRightToLeft => exact Or.inl rfl
  | optionalBinaryLeftToRight => exact Or.inl rfl
  | unarySuffix => exact Or.inl rfl
  | startGrouping =>
    left
    simp only
    by_cases hs : f.last = .suffix
    · rw [beforeOperand_suffix tbl f pos hs,
        beforeOperand_suffix tbl _ pos (show ({ f with ws := true } : Frame).last = _ from hs)]
    · rw [beforeOperand_open tbl f pos hl hs, beforeOperand_open tbl { f with ws := true } pos hl hs]
      rfl
  | endGrouping => exact Or.inl rfl
  | subexpression =>
    simp only
    have hig : ({ f with ws := true } : Frame).inGroup = f.inGroup := rfl
    rw [hig]
    split
    · exact Or.inl rfl
    · split
      · exact Or.inr ⟨{ f with prevSep := true }, hl, rfl, rfl⟩
      · exact Or.inl rfl

/-- **after an operator / opener the `ws` flag is irrelevant** -/
theorem refLoop_ws_irrelevant (tbl : Table) : ∀ (toks : List PToken) (f : Frame) (stack : List Frame) (pos : Nat),
    f.last ≠ .operand → refLoop tbl { f with ws := true } stack pos toks = refLoop tbl f stack pos toks
  | [], f, stack, pos, _ => rfl
  | t :: rest, f, stack, pos, hl => by
    simp only [refLoop]
    rcases refStep_ws tbl f stack pos t rest hl with h | ⟨f1, hl1, h1, h2⟩
    · rw [h]
    · rw [h1, h2]
      simp only [Outcome.bind]
      exact refLoop_ws_irrelevant tbl rest f1 stack (pos + 1) hl1

/-- tokens after which the last item of the frame is not a complete operand -/
def opLikeBefore (p : PToken) : Bool :=
  let s := (getDefinition p.type).2
  s == .binaryLeftToRight || s == .binaryRightToLeft || s == .unaryPrefix || s == .optionalBinaryLeftToRight ||
    s == .startGrouping || s == .unarySuffix

/-- tokens that do not read the `ws` flag and reset it -/
def opLikeAfter (n : PToken) : Bool :=
  let s := (getDefinition n.type).2
  s == .binaryLeftToRight || s == .binaryRightToLeft || s == .unarySuffix || s == .optionalBinaryLeftToRight ||
    s == .endGrouping

theorem refStep_last_open {p : PToken} (hp : opLikeBefore p = true) (f : Frame) (stack : List Frame) (pos : Nat)
    (rest : List PToken) {f1 : Frame} {stack1 : List Frame} (h : refStep Table.gen f stack pos p rest = .ok (f1, stack1)) :
    f1.last ≠ .operand := by
  unfold opLikeBefore at hp
  unfold refStep at h
  have hd : Table.gen.define p.type = getDefinition p.type := rfl
  rw [hd] at h
  generalize getDefinition p.type = ds at hp h
  obtain ⟨d, s⟩ := ds
  simp only at hp
  cases s with
  | unaryPrefix | startGrouping =>
    simp only at h
    cases hb : beforeOperand Table.gen f pos with
    | ok g => rw [hb] at h; simp only [Outcome.bind] at h; injection h with h; injection h with h _; rw [← h]; simp
    | err _ => rw [hb] at h; cases h
    | panic _ => rw [hb] at h; cases h
    | fuelOut => rw [hb] at h; cases h
  | binaryLeftToRight | binaryRightToLeft | optionalBinaryLeftToRight | unarySuffix =>
    simp only at h
    cases hq : Table.gen.prio d with
    | none => rw [hq] at h; cases h
    | some q =>
      rw [hq] at h; simp only at h
      split at h
      · cases h
      · injection h with h; injection h with h _; rw [← h]; simp
  | _ => simp at hp

/-- an operator / closer resets the `ws` flag without reading it -/
theorem refStep_ws_next {n : PToken} (hn : opLikeAfter n = true) (f : Frame) (stack : List Frame) (pos : Nat)
    (rest : List PToken) :
    refStep Table.gen { f with ws := true } stack pos n rest = refStep Table.gen f stack pos n rest := by
  unfold opLikeAfter at hn
  unfold refStep
  have hd : Table.gen.define n.type = getDefinition n.type := rfl
  rw [hd]
  generalize getDefinition n.type = ds at hn
  obtain ⟨d, s⟩ := ds
  simp only at hn
  cases s <;> simp at hn <;> rfl

end Garnish.Spec
