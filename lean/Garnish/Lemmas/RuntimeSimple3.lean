/-
`SimpleGarnishData` as a store: pair / range / slice / partial / concatenation adders. A concatenation operand that is
a slice is outside `addConcatenation_law`: Simple's iterator expands it, `FlatOf` (the contract) does not.
-/
import Garnish.Lemmas.RuntimeSimple2
namespace Garnish.Lemmas.Runtime.Simple
open Garnish Gen Garnish.Model.Equality Garnish.Model.Runtime Garnish.Lemmas.Runtime
variable {F : Type} {hit : List (SimCell F) → SimCell F → Option Nat} {h : SimHost F}

theorem typeOf_inv {cells : List (SimCell F)} {a : Nat} {t : Ty} (ht : (simView cells).typeOf a = some t) :
    ∃ c, cells[a]? = some c ∧ c.ty = t := by
  simp only [simView] at ht
  cases hc : cells[a]? with
  | none => rw [hc] at ht; cases ht
  | some c => rw [hc] at ht; cases ht; exact ⟨c, rfl, rfl⟩

theorem dec_lt {cells : List (SimCell F)} {a : Nat} {v : Val F} (hd : Decodes (simView cells) a v) :
    a < cells.length := by
  have : ∃ t, (simView cells).typeOf a = some t := by cases hd <;> exact ⟨_, by assumption⟩
  obtain ⟨t, ht⟩ := this
  obtain ⟨c, hc, _⟩ := typeOf_inv ht
  rcases Nat.lt_or_ge a cells.length with h1 | h1
  · exact h1
  · rw [List.getElem?_eq_none_iff.mpr h1] at hc; cases hc

theorem flatSim_other {cells : List (SimCell F)} {a : Nat} {c : SimCell F} (hc : cells[a]? = some c)
    (h1 : c.ty ≠ .list) (h2 : c.ty ≠ .concatenation) (h3 : c.ty ≠ .slice) : flatSim cells a = some [a] := by
  rw [flatSim, hc]
  cases c <;> first | rfl | (exfalso; first | exact h1 rfl | exact h2 rfl | exact h3 rfl)

/-- an operand that is not a slice: the modelled iterator yields its `FlatOf` -/
theorem flat_of_dec {cells : List (SimCell F)} {a : Nat} {v : Val F} (hd : Decodes (simView cells) a v)
    (hns : ∀ x y, v ≠ .slice x y) : ∃ il, FlatOf (simView cells) a il ∧ flatSim cells a = some il := by
  have other : ∀ t, (simView cells).typeOf a = some t → t ≠ .list → t ≠ .concatenation → t ≠ .slice →
      ∃ il, FlatOf (simView cells) a il ∧ flatSim cells a = some il := by
    intro t ht h1 h2 h3
    obtain ⟨c, hc, hty⟩ := typeOf_inv ht
    exact ⟨[a], .other ht h1 h2, flatSim_other hc (hty ▸ h1) (hty ▸ h2) (hty ▸ h3)⟩
  cases hd with
  | list ht hi _ =>
    refine ⟨_, .list ht hi, ?_⟩
    simp only [simView] at hi
    cases hc : cells[a]? with
    | none => rw [hc] at hi; cases hi
    | some c =>
      rw [hc] at hi
      cases c <;> try (cases hi; done)
      cases hi; rw [flatSim, hc]
  | concat ht hc _ _ fl fr hci =>
    refine ⟨_, .concat ht hc fl fr, ?_⟩
    simp only [simView] at hci
    cases hcell : cells[a]? with
    | none => rw [hcell] at hci; cases hci
    | some c =>
      rw [hcell] at hci
      cases c <;> try (cases hci; done)
      exact hci
  | slice => exact absurd rfl (hns _ _)
  | unit ht => exact other _ ht (by decide) (by decide) (by decide)
  | tru ht => exact other _ ht (by decide) (by decide) (by decide)
  | fls ht => exact other _ ht (by decide) (by decide) (by decide)
  | num ht => exact other _ ht (by decide) (by decide) (by decide)
  | char ht => exact other _ ht (by decide) (by decide) (by decide)
  | byte ht => exact other _ ht (by decide) (by decide) (by decide)
  | sym ht => exact other _ ht (by decide) (by decide) (by decide)
  | expr ht => exact other _ ht (by decide) (by decide) (by decide)
  | ext ht => exact other _ ht (by decide) (by decide) (by decide)
  | type ht => exact other _ ht (by decide) (by decide) (by decide)
  | chars ht => exact other _ ht (by decide) (by decide) (by decide)
  | bytes ht => exact other _ ht (by decide) (by decide) (by decide)
  | symList ht => exact other _ ht (by decide) (by decide) (by decide)
  | pair ht => exact other _ ht (by decide) (by decide) (by decide)
  | range ht => exact other _ ht (by decide) (by decide) (by decide)
  | part ht => exact other _ ht (by decide) (by decide) (by decide)
  | custom ht => exact other _ ht (by decide) (by decide) (by decide)

variable {st : SimState F} (hinv : SInv st) {l r : Nat} {vl vr : Val F}
  (hl : Decodes (simView st.cells) l vl) (hr : Decodes (simView st.cells) r vr)
include hinv hl hr

omit hinv hl hr in
theorem up' {cells : List (SimCell F)} {a : Nat} {v : Val F} (c : SimCell F) (hd : Decodes (simView cells) a v) :
    Decodes (simView (cells ++ [c])) a v := decodes_mono (viewLe_ext (ext_append _ _)) hd

theorem addPair_law : AddsI hit h ((simpleRStore hit h).addPair (l, r)) st (.pair vl vr) :=
  push_adds hinv _ (.pair (by simp only [simView, new_cell, SimCell.ty]) (by simp only [simView, new_cell])
    (up' _ hl) (up' _ hr))
theorem addRange_law : AddsI hit h ((simpleRStore hit h).addRange l r) st (.range vl vr) :=
  push_adds hinv _ (.range (by simp only [simView, new_cell, SimCell.ty]) (by simp only [simView, new_cell])
    (up' _ hl) (up' _ hr))
theorem addSlice_law : AddsI hit h ((simpleRStore hit h).addSlice l r) st (.slice vl vr) :=
  push_adds hinv _ (.slice (by simp only [simView, new_cell, SimCell.ty]) (by simp only [simView, new_cell])
    (up' _ hl) (up' _ hr))
theorem addPartial_law : AddsI hit h ((simpleRStore hit h).addPartial l r) st (.part vl vr) :=
  push_adds hinv _ (.part (by simp only [simView, new_cell, SimCell.ty]) (by simp only [simView, new_cell])
    (up' _ hl) (up' _ hr))

/-- `add_concatenation`, operands that are not slices (a slice operand is EXPANDED by Simple's iterator, which the
contract's `FlatOf` does not do) -/
theorem addConcatenation_law (nl : ∀ x y, vl ≠ .slice x y) (nr : ∀ x y, vr ≠ .slice x y) :
    AddsI hit h ((simpleRStore hit h).addConcatenation l r) st (.concat vl vr) := by
  obtain ⟨il, fl, sl⟩ := flat_of_dec (up' (.concat l r) hl) nl
  obtain ⟨ir, fr, sr⟩ := flat_of_dec (up' (.concat l r) hr) nr
  refine push_adds hinv _ (.concat (by simp only [simView, new_cell, SimCell.ty]) (by simp only [simView, new_cell])
    (up' _ hl) (up' _ hr) fl fr ?_)
  simp only [simView, new_cell]
  rw [flatSim, new_cell]
  simp only
  rw [dif_pos ⟨dec_lt hl, dec_lt hr⟩, sl, sr]; rfl

end Garnish.Lemmas.Runtime.Simple
