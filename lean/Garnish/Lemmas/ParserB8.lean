/-
Brackets, part 8 (reference side): the reference tree of an index tree with brackets (`toRG`), `attach` versus `insertC`
(`insertC_toRG`), the steps of the reference parser with an arbitrary bracket stack, and what a complete operand does
to the frame's tree (`PlugFn`).
-/
import Garnish.Lemmas.ParserB7

namespace Garnish.Spec
open Garnish Garnish.Gen Garnish.Model.Parser

/-- reference tree of an index tree; a node whose definition is a bracket becomes a `group` node -/
def toRG (df : Nat → Definition) : Tree → RTree
  | .nil => .nil
  | .node l i k r =>
    if isBracketDef (df i) then .group (df i) k (toRG df r) else .node (toRG df l) (df i) k (toRG df r)

theorem toRG_congr (df df' : Nat → Definition) : ∀ t : Tree, (∀ i ∈ t.inorder, df i = df' i) → toRG df t = toRG df' t
  | .nil, _ => rfl
  | .node l i k r, h => by
    simp only [toRG]
    rw [toRG_congr df df' l (fun j hj => h j (by simp [Tree.inorder, hj])),
      toRG_congr df df' r (fun j hj => h j (by simp [Tree.inorder, hj])), h i (by simp [Tree.inorder])]

theorem toRG_eq_toRd (df : Nat → Definition) : ∀ t : Tree, (∀ i ∈ t.inorder, isBracketDef (df i) = false) →
    toRG df t = toRd df t
  | .nil, _ => rfl
  | .node l i k r, h => by
    simp only [toRG, toRd, h i (by simp [Tree.inorder]), Bool.false_eq_true, if_false]
    rw [toRG_eq_toRd df l (fun j hj => h j (by simp [Tree.inorder, hj])),
      toRG_eq_toRd df r (fun j hj => h j (by simp [Tree.inorder, hj]))]

theorem toRG_isNil (df : Nat → Definition) (t : Tree) (h : t ≠ .nil) : (toRG df t).isNil = false := by
  cases t with
  | nil => exact absurd rfl h
  | node l i k r => simp only [toRG]; split <;> rfl

/-- what a complete operand does to the frame's tree `cur` -/
structure PlugFn (df : Nat → Definition) (dm : Definition) (sub : Tree) (P : RTree → RTree) : Prop where
  node : ∀ (l : RTree) (a : Definition) (k : Nat) (R : RTree), R.isNil = false → P (.node l a k R) = .node l a k (P R)
  fresh : ∀ (l : RTree) (k : Nat), P (.node l dm k .nil) = .node l dm k (toRG df sub)
  nil : dm ≠ .access → P .nil = toRG df sub

/-- `attach` then the operand = `insertC` with the operand subtree -/
theorem absorb_toRG (df : Nat → Definition) (pr : Nat → Nat) (q : Nat) (rtl : Bool) (n ko : Nat) (sub : Tree) (cb : Nat)
    (P : RTree → RTree) (hP : PlugFn df (df n) sub P) (hdn : isBracketDef (df n) = false) :
    ∀ t : Tree, (∀ i ∈ t.inorder, Table.gen.prio (df i) = some (pr i)) → SpineG df cb t →
      match absorb Table.gen q rtl (df n) ko (toRG df t), absorbC cb pr q rtl n ko sub t with
      | some R', some t' => P R' = toRG df t' ∧ R'.isNil = false
      | none, none => True
      | _, _ => False := by
  intro t
  induction t with
  | nil => intro _ _; simp [toRG, absorb, absorbC]
  | node l i k r _ ihr =>
    intro hp hs
    have hpr : ∀ j ∈ r.inorder, Table.gen.prio (df j) = some (pr j) :=
      fun j hj => hp j (by simp [Tree.inorder, hj])
    have hpi : Table.gen.prio (df i) = some (pr i) := hp i (by simp [Tree.inorder])
    simp only [SpineG] at hs
    by_cases hic : i = cb
    · rw [if_pos hic] at hs
      subst hic
      simp [toRG, hs, absorb, absorbC]
    · rw [if_neg hic] at hs
      have ih := ihr hpr hs.2
      simp only [toRG, hs.1, Bool.false_eq_true, if_false, absorb, absorbC, if_neg hic]
      cases hR : absorb Table.gen q rtl (df n) ko (toRG df r) with
      | some R' =>
        cases hI : absorbC cb pr q rtl n ko sub r with
        | some r' =>
          simp only [hR, hI] at ih ⊢
          obtain ⟨h1, h2⟩ := ih
          refine ⟨?_, rfl⟩
          rw [hP.node _ _ _ R' h2, h1]
          simp [toRG, hs.1]
        | none => simp [hR, hI] at ih
      | none =>
        cases hI : absorbC cb pr q rtl n ko sub r with
        | some r' => simp [hR, hI] at ih
        | none =>
          simp only [hpi]
          by_cases hst : stops q rtl (pr i) = true
          · simp only [hst, if_true]
            refine ⟨?_, rfl⟩
            rw [hP.node _ _ _ _ (by rfl), hP.fresh]
            simp [toRG, hs.1, hdn, newOpS]
          · simp [hst]

theorem insertC_toRG (df : Nat → Definition) (pr : Nat → Nat) (q : Nat) (rtl : Bool) (n ko : Nat) (sub : Tree) (cb : Nat)
    (P : RTree → RTree) (hP : PlugFn df (df n) sub P) (hdn : isBracketDef (df n) = false)
    (t : Tree) (hp : ∀ i ∈ t.inorder, Table.gen.prio (df i) = some (pr i)) (hs : SpineG df cb t) :
    P (attach Table.gen q rtl (df n) ko (toRG df t)) = toRG df (insertC cb pr q rtl n ko sub t) := by
  have h := absorb_toRG df pr q rtl n ko sub cb P hP hdn t hp hs
  unfold attach insertC
  cases hR : absorb Table.gen q rtl (df n) ko (toRG df t) with
  | some R' =>
    cases hI : absorbC cb pr q rtl n ko sub t with
    | some t' => simp only [hR, hI] at h; exact h.1
    | none => simp [hR, hI] at h
  | none =>
    cases hI : absorbC cb pr q rtl n ko sub t with
    | some t' => simp [hR, hI] at h
    | none =>
      simp only [hP.fresh]
      simp [toRG, hdn, newOpS]

/-- a suffix operator: `attach` alone -/
theorem insertC_toRG_nil (df : Nat → Definition) (pr : Nat → Nat) (q : Nat) (rtl : Bool) (n ko : Nat) (cb : Nat)
    (hdn : isBracketDef (df n) = false) (t : Tree) (hp : ∀ i ∈ t.inorder, Table.gen.prio (df i) = some (pr i))
    (hs : SpineG df cb t) :
    attach Table.gen q rtl (df n) ko (toRG df t) = toRG df (insertC cb pr q rtl n ko .nil t) :=
  insertC_toRG df pr q rtl n ko .nil cb id ⟨fun _ _ _ _ _ => rfl, fun _ _ => rfl, fun _ => rfl⟩ hdn t hp hs

/-! ### steps of the reference parser, with an arbitrary stack -/

theorem ref_skipK : ∀ (ws : List PToken) (f : Frame) (stack : List Frame) (pos : Nat) (rest : List PToken),
    (∀ w ∈ ws, isTriviaTok w = true) →
    ∃ b, refLoop Table.gen f stack pos (ws ++ rest) = refLoop Table.gen { f with ws := b } stack (pos + ws.length) rest := by
  intro ws
  induction ws with
  | nil => intro f stack pos rest _; exact ⟨f.ws, rfl⟩
  | cons w ws ih =>
    intro f stack pos rest hws
    have hw := hws w (List.mem_cons_self ..)
    have hstep : ∃ b, refStep Table.gen f stack pos w (ws ++ rest) = .ok ({ f with ws := b }, stack) := by
      unfold refStep
      have hgen : Table.gen.define = getDefinition := rfl
      rw [hgen]
      unfold isTriviaTok at hw
      simp only [Bool.or_eq_true, beq_iff_eq] at hw
      rcases hw with (h | h) | h <;> rw [h] <;> simp only [getDefinition]
      · exact ⟨true, rfl⟩
      · exact ⟨f.ws, rfl⟩
      · exact ⟨f.ws, rfl⟩
    obtain ⟨b, hb⟩ := hstep
    obtain ⟨b', hb'⟩ := ih { f with ws := b } stack (pos + 1) rest (fun x hx => hws x (List.mem_cons_of_mem _ hx))
    refine ⟨b', ?_⟩
    simp only [List.cons_append, List.length_cons]
    conv => lhs; unfold refLoop
    rw [hb]
    simp only [Outcome.bind]
    rw [hb']
    have : pos + 1 + ws.length = pos + (ws.length + 1) := by omega
    rw [this]

/-- what the reference parser remembers after a binary operator: `optOp` for `,` and infix identifiers -/
def lastAfter (s : SecDef) : Last := if s == .optionalBinaryLeftToRight then .optOp else .op

/-- the reference parser expects an operand -/
def OpenLast (l : Last) : Prop := l = .op ∨ l = .start ∨ l = .optOp ∨ l = .sep

theorem lastAfter_open (s : SecDef) : OpenLast (lastAfter s) := by
  unfold lastAfter; split
  · exact Or.inr (Or.inr (Or.inl rfl))
  · exact Or.inl rfl

theorem ref_op_stepK (f : Frame) (stack : List Frame) (pos q : Nat) (o : PToken) (rest : List PToken)
    (ho : isBin3Tok o = true) (hq : priority (getDefinition o.type).1 = some q)
    (hl : f.last = .operand ∨ f.last = .suffix) :
    refStep Table.gen f stack pos o rest =
      .ok ({ f with cur := attach Table.gen q ((getDefinition o.type).2 == .binaryRightToLeft) (getDefinition o.type).1 pos f.cur,
                    last := lastAfter (getDefinition o.type).2, ws := false, prevSep := false }, stack) := by
  have hso := bin3_secdef ho
  have hgen : Table.gen.define = getDefinition := rfl
  have hpr : Table.gen.prio = priority := rfl
  unfold refStep
  rw [hgen]
  generalize getDefinition o.type = ds at hso hq ⊢
  obtain ⟨d, s⟩ := ds
  simp only at hso hq ⊢
  rcases hso with rfl | rfl | rfl <;> rcases hl with hl | hl <;> simp [hpr, hq, hl, lastAfter]

theorem ref_suffix_stepK (f : Frame) (stack : List Frame) (pos q : Nat) (s : PToken) (rest : List PToken)
    (hs : isSuffixTok s = true) (hq : priority (getDefinition s.type).1 = some q)
    (hl : f.last = .operand ∨ f.last = .suffix) :
    refStep Table.gen f stack pos s rest =
      .ok ({ f with cur := attach Table.gen q false (getDefinition s.type).1 pos f.cur, last := .suffix, ws := false,
                    prevSep := false }, stack) := by
  have hsd : (getDefinition s.type).2 = .unarySuffix := by unfold isSuffixTok at hs; simpa using hs
  have hgen : Table.gen.define = getDefinition := rfl
  have hpr : Table.gen.prio = priority := rfl
  unfold refStep
  rw [hgen]
  generalize getDefinition s.type = ds at hsd hq ⊢
  obtain ⟨d, sd⟩ := ds
  simp only at hsd hq ⊢
  subst hsd
  rcases hl with hl | hl <;> simp [hpr, hq, hl] <;> rfl

theorem ref_prefix_stepK (g : Frame) (stack : List Frame) (pos : Nat) (p : PToken) (rest : List PToken)
    (hp : isPrefixTok p = true) (hg : OpenLast g.last) :
    refStep Table.gen g stack pos p rest =
      .ok ({ g with cur := plug g.cur (.node .nil (getDefinition p.type).1 pos .nil), last := .op, ws := false,
                    prevSep := false }, stack) := by
  have hs : (getDefinition p.type).2 = .unaryPrefix := by unfold isPrefixTok at hp; simpa using hp
  have hgen : Table.gen.define = getDefinition := rfl
  unfold refStep
  rw [hgen]
  generalize getDefinition p.type = ds at hs ⊢
  obtain ⟨d, s⟩ := ds
  simp only at hs ⊢
  subst hs
  rcases hg with hg | hg | hg | hg <;> simp [beforeOperand, hg, Outcome.bind]

theorem ref_prefix_runK : ∀ (ps : List PToken) (g : Frame) (stack : List Frame) (pos : Nat) (rest : List PToken),
    (∀ p ∈ ps, isPrefixTok p = true) → OpenLast g.last →
    ∃ b b2 l, OpenLast l ∧ refLoop Table.gen g stack pos (ps ++ rest) =
      refLoop Table.gen { g with cur := plugLeaves g.cur (leavesP ps pos), last := l, ws := b, prevSep := b2 } stack
        (pos + ps.length) rest := by
  intro ps
  induction ps with
  | nil => intro g stack pos rest _ hg; exact ⟨g.ws, g.prevSep, g.last, hg, rfl⟩
  | cons p ps ih =>
    intro g stack pos rest hps hg
    have hp := hps p (List.mem_cons_self ..)
    let g' : Frame :=
      { g with cur := plug g.cur (.node .nil (getDefinition p.type).1 pos .nil), last := .op, ws := false, prevSep := false }
    obtain ⟨b, b2, l, hl, h⟩ := ih g' stack (pos + 1) rest (fun x hx => hps x (List.mem_cons_of_mem _ hx)) (Or.inl rfl)
    refine ⟨b, b2, l, hl, ?_⟩
    simp only [List.cons_append, List.length_cons, leavesP, plugLeaves]
    conv => lhs; unfold refLoop
    rw [ref_prefix_stepK g stack pos p _ hp hg]
    simp only [Outcome.bind]
    rw [h]
    have : pos + 1 + ps.length = pos + (ps.length + 1) := by omega
    rw [this]

theorem ref_atom_stepK (g : Frame) (stack : List Frame) (pos : Nat) (a : PToken) (rest : List PToken)
    (ha : isAtom10 a = true) (hg : OpenLast g.last) :
    refStep Table.gen g stack pos a rest =
      .ok ({ g with cur := plug g.cur (.node .nil (getDefinition a.type).1 pos .nil), last := .operand, ws := false,
                    prevSep := false }, stack) := by
  obtain ⟨hsa, hqa⟩ := atom10_facts ha
  have hns := prio10_not_special hqa
  have hgen : Table.gen.define = getDefinition := rfl
  unfold refStep
  rw [hgen]
  generalize getDefinition a.type = ds at hsa hns ⊢
  obtain ⟨d, s⟩ := ds
  simp only at hsa hns ⊢
  rcases hg with hg | hg | hg | hg <;> rcases hsa with rfl | rfl <;> simp [hns, beforeOperand, hg, Outcome.bind]

theorem ref_open_stepK (g : Frame) (stack : List Frame) (pos : Nat) (o : PToken) (rest : List PToken)
    (ho : isOpenTok o = true) (hg : OpenLast g.last) :
    refStep Table.gen g stack pos o rest =
      .ok ({ ctx := some ((getDefinition o.type).1, pos), cur := .nil, last := .start, ws := false,
             prevSep := (getDefinition o.type).1 == .nestedExpression }, { g with ws := false } :: stack) := by
  obtain ⟨hs, _⟩ := open_def_facts ho
  have hgen : Table.gen.define = getDefinition := rfl
  unfold refStep
  rw [hgen]
  generalize getDefinition o.type = ds at hs ⊢
  obtain ⟨d, s⟩ := ds
  simp only at hs ⊢
  subst hs
  rcases hg with hg | hg | hg | hg <;> simp [beforeOperand, hg, Outcome.bind]

def isCloseFor (d : Definition) (c : PToken) : Prop :=
  (d = .group ∧ c.type = .endGroup) ∨ (d = .nestedExpression ∧ c.type = .endExpression)

theorem ref_close_stepK (f parent : Frame) (stack : List Frame) (pos : Nat) (c : PToken) (rest : List PToken)
    (gd : Definition) (gpos : Nat) (hctx : f.ctx = some (gd, gpos)) (hc : isCloseFor gd c)
    (hl : f.last = .operand ∨ f.last = .suffix) :
    refStep Table.gen f (parent :: stack) pos c rest =
      .ok ({ parent with cur := plug parent.cur (.group gd gpos f.cur), last := .operand, ws := false,
                         prevSep := false }, stack) := by
  have hgen : Table.gen.define = getDefinition := rfl
  unfold refStep
  rw [hgen]
  rcases hc with ⟨h1, h2⟩ | ⟨h1, h2⟩ <;> subst h1 <;> rw [h2] <;> rcases hl with hl | hl <;>
    simp [getDefinition, hctx, closerFor, hl]

/-! ### plugging -/

theorem plugLeaves_isNil_false : ∀ (xs : List (Definition × Nat)) (R : RTree), R.isNil = false →
    (plugLeaves R xs).isNil = false
  | [], _, h => h
  | (_, _) :: xs, R, h => plugLeaves_isNil_false xs _ (plug_isNil_false R _ h)

/-- prefix nodes around a primary -/
def wrapR : List (Definition × Nat) → RTree → RTree
  | [], Y => Y
  | (d, k) :: ps, Y => .node .nil d k (wrapR ps Y)

/-- plugging prefix leaves and then a closed bracket into a fresh node -/
theorem plug_wrap_group (gd : Definition) (gk : Nat) (inner : RTree) :
    ∀ (ps : List (Definition × Nat)) (l : RTree) (dA : Definition) (k : Nat),
      (∀ p ∈ ps, p.1 ≠ Definition.identifier ∧ p.1 ≠ Definition.access) →
      plug (plugLeaves (.node l dA k .nil) ps) (.group gd gk inner) = .node l dA k (wrapR ps (.group gd gk inner))
  | [], l, dA, k, _ => by
    simp only [plugLeaves, plug, RTree.isNil, if_true, wrapR]
    congr 1
    split <;> rfl
  | (d, kd) :: ps, l, dA, k, h => by
    have hd := h (d, kd) (List.mem_cons_self ..)
    have hud : underDef dA d = d := by unfold underDef; cases d <;> first | rfl | exact absurd rfl hd.1
    simp only [plugLeaves, plug_fresh, hud]
    rw [plugLeaves_node _ _ _ _ _ (by rfl)]
    have hnn : (plugLeaves (.node .nil d kd .nil) ps).isNil = false := plugLeaves_isNil_false ps _ (by rfl)
    have : plug (.node l dA k (plugLeaves (.node .nil d kd .nil) ps)) (.group gd gk inner) =
        .node l dA k (plug (plugLeaves (.node .nil d kd .nil) ps) (.group gd gk inner)) := by
      simp [plug, hnn]
    rw [this, plug_wrap_group gd gk inner ps .nil d kd (fun p hp => h p (List.mem_cons_of_mem _ hp))]
    rfl

/-- the prefix chain over a primary, as a reference tree -/
theorem toRG_chainR (df : Nat → Definition) : ∀ (ps : List (Definition × Nat)) (m : Nat) (X : Tree),
    (∀ (i : Nat) (h : i < ps.length), df (m + i) = (ps[i]'h).1) → (∀ p ∈ ps, isBracketDef p.1 = false) →
    toRG df (chainR m (ps.map (·.2)) X) = wrapR ps (toRG df X)
  | [], _, _, _, _ => rfl
  | (d, kd) :: ps, m, X, hdf, hnb => by
    have h0 := hdf 0 (by simp)
    simp only [Nat.add_zero, List.getElem_cons_zero] at h0
    have hb := hnb (d, kd) (List.mem_cons_self ..)
    simp only [List.map_cons, chainR, toRG, h0, hb, Bool.false_eq_true, if_false, wrapR]
    rw [toRG_chainR df ps (m + 1) X
      (by intro i h
          have := hdf (i + 1) (by simp; omega)
          simp only [List.getElem_cons_succ] at this
          rw [← this]; congr 1; omega)
      (fun p hp => hnb p (List.mem_cons_of_mem _ hp))]

end Garnish.Spec
