/-
Text-level rewrites, elaboration side, part 5 (C18): **the elaboration does not depend on the token positions stored in the
reference tree, only on the texts found there** — `go_relabel`: relabelling the positions of a tree by `f` (the
synthesized `List` nodes, whose position is never read, get position 0: `relabelL`) and reading from another token list
gives the same result, when the texts at the text-reading nodes and the names of the nested expressions correspond.
-/
import Garnish.Lemmas.LexRewriteElab
set_option linter.unusedSimpArgs false
set_option linter.unusedVariables false
namespace Garnish.Abs.Source
open Garnish Garnish.Gen Garnish.Spec Garnish.Model.Parser

/-- the position given to a node of definition `d` at position `k`: `List` nodes are synthesized, their position is not
read -/
def lp (f : Nat → Nat) (d : Definition) (k : Nat) : Nat := if d == .list then 0 else f k

theorem lp_reads (f : Nat → Nat) (d : Definition) (k : Nat) (h : readsText d = true) : lp f d k = f k := by
  unfold lp
  have : (d == .list) = false := by cases d <;> first | rfl | (exfalso; simp [readsText] at h; done)
  simp [this]

/-- the tree with every position `k` replaced by `f k` (0 at `List` nodes) -/
def relabelL (f : Nat → Nat) : RTree → RTree
  | .nil => .nil
  | .node l d k r => .node (relabelL f l) d (lp f d k) (relabelL f r)
  | .group d k inner => .group d (f k) (relabelL f inner)

variable {F : Type} (pf : List Char → Option F)

/-- what the relabelled tree and the other token list must provide at a node -/
def NodeOK (κ κ' : Nat → Nat) (toks toks' : List PToken) (f : Nat → Nat) (d : Definition) (k : Nat) : Prop :=
  (readsText d = true → textAt toks' (f k) = textAt toks k) ∧ (d = .nestedExpression → κ' (f k) = κ k)

theorem go_relabel (κ κ' : Nat → Nat) (toks toks' : List PToken) (f : Nat → Nat) (t : RTree)
    (h : ∀ d k, (d, k) ∈ nodeDefs t → NodeOK κ κ' toks toks' f d k) :
    go pf κ' toks' (relabelL f t) = go pf κ toks t := by
  match t, h with
  | .nil, _ => rfl
  | .group d k .nil, h =>
    simp only [relabelL]
    unfold go
    rfl
  | .group d k (.node i1 i2 i3 i4), h =>
    have hi := go_relabel κ κ' toks toks' f (.node i1 i2 i3 i4) (fun d' k' hm => h d' k' (nodeDefs_inner _ _ _ hm))
    simp only [relabelL] at hi
    simp only [relabelL]
    unfold go
    rw [hi]
    by_cases h2 : d = .nestedExpression
    · rw [(h d k (by simp [nodeDefs])).2 h2]
    · have : (d == Definition.nestedExpression) = false := by simpa using h2
      simp [this]
  | .group d k (.group i1 i2 i3), h =>
    have hi := go_relabel κ κ' toks toks' f (.group i1 i2 i3) (fun d' k' hm => h d' k' (nodeDefs_inner _ _ _ hm))
    simp only [relabelL] at hi
    simp only [relabelL]
    unfold go
    rw [hi]
    by_cases h2 : d = .nestedExpression
    · rw [(h d k (by simp [nodeDefs])).2 h2]
    · have : (d == Definition.nestedExpression) = false := by simpa using h2
      simp [this]
  | .node .nil d k .nil, h =>
    have ht : readsText d = true → textAt toks' (lp f d k) = textAt toks k := fun hd => by
      rw [lp_reads f d k hd]; exact (h d k (nodeDefs_self _ _ _ _)).1 hd
    simp only [relabelL]
    unfold go
    (try simp only [rootIs, rootDef, rootCond, isJumpIf])
    rw [leafE_congr pf d _ _ ht]
  | .node .nil d k (.node .nil d2 k2 body), h =>
    have ht : readsText d = true → textAt toks' (lp f d k) = textAt toks k := fun hd => by
      rw [lp_reads f d k hd]; exact (h d k (nodeDefs_self _ _ _ _)).1 hd
    have hb := go_relabel κ κ' toks toks' f body (fun d' k' hm => h d' k' (nodeDefs_right _ _ _ _ (nodeDefs_right _ _ _ _ hm)))
    (try simp only [relabelL] at hb)
    have hr' := go_relabel κ κ' toks toks' f (.node .nil d2 k2 body) (fun d' k' hm => h d' k' (nodeDefs_right _ _ _ _ hm))
    (try simp only [relabelL] at hr')
    simp only [relabelL]
    unfold go
    (try simp only [rootIs, rootDef, rootCond, isJumpIf])
    rw [leafE_congr pf d _ _ ht, hb, hr']
    split
    · rfl
    · split
      · exact preE_congr d _ _ _ ht
      · rfl
  | .node .nil d k (.node (.node a1 a2 a3 a4) d2 k2 body), h =>
    have ht : readsText d = true → textAt toks' (lp f d k) = textAt toks k := fun hd => by
      rw [lp_reads f d k hd]; exact (h d k (nodeDefs_self _ _ _ _)).1 hd
    have hr' := go_relabel κ κ' toks toks' f (.node (.node a1 a2 a3 a4) d2 k2 body) (fun d' k' hm => h d' k' (nodeDefs_right _ _ _ _ hm))
    (try simp only [relabelL] at hr')
    simp only [relabelL]
    unfold go
    (try simp only [rootIs, rootDef, rootCond, isJumpIf])
    rw [hr']
    split
    · exact preE_congr d _ _ _ ht
    · rfl
  | .node .nil d k (.node (.group a1 a2 a3) d2 k2 body), h =>
    have ht : readsText d = true → textAt toks' (lp f d k) = textAt toks k := fun hd => by
      rw [lp_reads f d k hd]; exact (h d k (nodeDefs_self _ _ _ _)).1 hd
    have hr' := go_relabel κ κ' toks toks' f (.node (.group a1 a2 a3) d2 k2 body) (fun d' k' hm => h d' k' (nodeDefs_right _ _ _ _ hm))
    (try simp only [relabelL] at hr')
    simp only [relabelL]
    unfold go
    (try simp only [rootIs, rootDef, rootCond, isJumpIf])
    rw [hr']
    split
    · exact preE_congr d _ _ _ ht
    · rfl
  | .node .nil d k (.group a1 a2 a3), h =>
    have ht : readsText d = true → textAt toks' (lp f d k) = textAt toks k := fun hd => by
      rw [lp_reads f d k hd]; exact (h d k (nodeDefs_self _ _ _ _)).1 hd
    have hr' := go_relabel κ κ' toks toks' f (.group a1 a2 a3) (fun d' k' hm => h d' k' (nodeDefs_right _ _ _ _ hm))
    (try simp only [relabelL] at hr')
    simp only [relabelL]
    unfold go
    (try simp only [rootIs, rootDef, rootCond, isJumpIf])
    rw [hr']
    split
    · exact preE_congr d _ _ _ ht
    · rfl
  | .node (.node b1 b2 b3 b4) d k .nil, h =>
    have ht : readsText d = true → textAt toks' (lp f d k) = textAt toks k := fun hd => by
      rw [lp_reads f d k hd]; exact (h d k (nodeDefs_self _ _ _ _)).1 hd
    have hl := go_relabel κ κ' toks toks' f (.node b1 b2 b3 b4) (fun d' k' hm => h d' k' (nodeDefs_left _ _ _ _ hm))
    (try simp only [relabelL] at hl)
    simp only [relabelL]
    unfold go
    (try simp only [rootIs, rootDef, rootCond, isJumpIf])
    rw [hl]
    split
    · exact sufE_congr d _ _ _ ht
    · rfl
  | .node (.node b1 b2 b3 b4) d k (.node c1 c2 c3 c4), h =>
    have ht : readsText d = true → textAt toks' (lp f d k) = textAt toks k := fun hd => by
      rw [lp_reads f d k hd]; exact (h d k (nodeDefs_self _ _ _ _)).1 hd
    have hl := go_relabel κ κ' toks toks' f (.node b1 b2 b3 b4) (fun d' k' hm => h d' k' (nodeDefs_left _ _ _ _ hm))
    (try simp only [relabelL] at hl)
    have hr' := go_relabel κ κ' toks toks' f (.node c1 c2 c3 c4) (fun d' k' hm => h d' k' (nodeDefs_right _ _ _ _ hm))
    (try simp only [relabelL] at hr')
    simp only [relabelL]
    unfold go
    (try simp only [rootIs, rootDef, rootCond, isJumpIf])
    rw [hl, hr']
    split
    · exact binE_congr d _ _ _ _ _ _ _ _ _ ht
    · rfl
  | .node (.node b1 b2 b3 b4) d k (.group c1 c2 c3), h =>
    have ht : readsText d = true → textAt toks' (lp f d k) = textAt toks k := fun hd => by
      rw [lp_reads f d k hd]; exact (h d k (nodeDefs_self _ _ _ _)).1 hd
    have hl := go_relabel κ κ' toks toks' f (.node b1 b2 b3 b4) (fun d' k' hm => h d' k' (nodeDefs_left _ _ _ _ hm))
    (try simp only [relabelL] at hl)
    have hr' := go_relabel κ κ' toks toks' f (.group c1 c2 c3) (fun d' k' hm => h d' k' (nodeDefs_right _ _ _ _ hm))
    (try simp only [relabelL] at hr')
    simp only [relabelL]
    unfold go
    (try simp only [rootIs, rootDef, rootCond, isJumpIf])
    rw [hl, hr']
    split
    · exact binE_congr d _ _ _ _ _ _ _ _ _ ht
    · rfl
  | .node (.group b1 b2 b3) d k .nil, h =>
    have ht : readsText d = true → textAt toks' (lp f d k) = textAt toks k := fun hd => by
      rw [lp_reads f d k hd]; exact (h d k (nodeDefs_self _ _ _ _)).1 hd
    have hl := go_relabel κ κ' toks toks' f (.group b1 b2 b3) (fun d' k' hm => h d' k' (nodeDefs_left _ _ _ _ hm))
    (try simp only [relabelL] at hl)
    simp only [relabelL]
    unfold go
    (try simp only [rootIs, rootDef, rootCond, isJumpIf])
    rw [hl]
    split
    · exact sufE_congr d _ _ _ ht
    · rfl
  | .node (.group b1 b2 b3) d k (.node c1 c2 c3 c4), h =>
    have ht : readsText d = true → textAt toks' (lp f d k) = textAt toks k := fun hd => by
      rw [lp_reads f d k hd]; exact (h d k (nodeDefs_self _ _ _ _)).1 hd
    have hl := go_relabel κ κ' toks toks' f (.group b1 b2 b3) (fun d' k' hm => h d' k' (nodeDefs_left _ _ _ _ hm))
    (try simp only [relabelL] at hl)
    have hr' := go_relabel κ κ' toks toks' f (.node c1 c2 c3 c4) (fun d' k' hm => h d' k' (nodeDefs_right _ _ _ _ hm))
    (try simp only [relabelL] at hr')
    simp only [relabelL]
    unfold go
    (try simp only [rootIs, rootDef, rootCond, isJumpIf])
    rw [hl, hr']
    split
    · exact binE_congr d _ _ _ _ _ _ _ _ _ ht
    · rfl
  | .node (.group b1 b2 b3) d k (.group c1 c2 c3), h =>
    have ht : readsText d = true → textAt toks' (lp f d k) = textAt toks k := fun hd => by
      rw [lp_reads f d k hd]; exact (h d k (nodeDefs_self _ _ _ _)).1 hd
    have hl := go_relabel κ κ' toks toks' f (.group b1 b2 b3) (fun d' k' hm => h d' k' (nodeDefs_left _ _ _ _ hm))
    (try simp only [relabelL] at hl)
    have hr' := go_relabel κ κ' toks toks' f (.group c1 c2 c3) (fun d' k' hm => h d' k' (nodeDefs_right _ _ _ _ hm))
    (try simp only [relabelL] at hr')
    simp only [relabelL]
    unfold go
    (try simp only [rootIs, rootDef, rootCond, isJumpIf])
    rw [hl, hr']
    split
    · exact binE_congr d _ _ _ _ _ _ _ _ _ ht
    · rfl
termination_by sizeOf t

end Garnish.Abs.Source
