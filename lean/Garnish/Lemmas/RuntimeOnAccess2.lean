/-
Lemmas/RuntimeAccess2.lean over `StoreLawsOn`: `access_with_integer`, `access_with_symbol` (a symbol look-up into a LIST needs
`ListSymOn` or is excluded: `hls`), `get_access_addr`.
-/
import Garnish.Lemmas.RuntimeOnConcat2
set_option linter.unusedSimpArgs false
set_option linter.unusedVariables false
namespace Garnish.Lemmas.Runtime.On
open Garnish Gen Garnish.Abs Garnish.Model.Equality Garnish.Model.Runtime Garnish.Lemmas.Runtime

variable {F σ : Type} {S : RStore F σ} {Inv : σ → Prop} {Rd : σ → Nat → Prop} (fo : FloatOps F)

theorem getPair_of {s : σ} {a x y : Nat} (h : (S.view s).pair a = some (x, y)) :
    getPair S a s = .ok ((x, y), s) := by
  simp [getPair, RM.lift, h, fetch, Outcome.ofOption, Outcome.bind]

theorem getSymbol_of {s : σ} {a y : Nat} (h : Decodes (S.view s) a (.sym y)) : getSymbol S a s = .ok (y, s) := by
  cases h with
  | sym _ hn => simp [getSymbol, RM.lift, hn, fetch, Outcome.ofOption, Outcome.bind]

/-- the operands of a concatenation that is looked into have no `custom` node -/
def ncConcat : Val F → Prop
  | .concat l r => ncNodes l ∧ ncNodes r
  | _ => True

/-- `access_with_integer` at an integer index refines Abs/Ops `accessInt` -/
theorem accessWithInteger_spec (L : StoreLawsOn S Inv Rd) (fuel : Nat) {s : σ} {a : Nat} {v : Val F} (i : Int)
    (h : Decodes (S.view s) a v) (hd : AccessDomain v) (hro : RangeOrdered fo (.int i) v)
    (hf : accessFuel v ≤ fuel) (hnc : ncConcat v)
    (hinv : Inv s := by inv_tac) (hdp : Deep S s (S.regs s) := by deep_tac) :
    AccOutI S Inv s (accessWithInteger fo S fuel (.int i) a s) (accessInt fo (.int i) v) := by
  have ht := getDataType_of h
  cases v
  case slice => exact absurd hd id
  case concat vl vr =>
    rw [accessWithInteger, bind_ok ht]
    exact indexConcatenationFor_spec fo L fuel i h hf hd hnc
  case list vs => rw [accessWithInteger, bind_ok ht]; exact indexList_spec fo L i h hd
  case chars cs => rw [accessWithInteger, bind_ok ht]; exact indexCharList_spec fo L i h hd
  case bytes cs => rw [accessWithInteger, bind_ok ht]; exact indexByteList_spec fo L i h hd
  case symList ps => rw [accessWithInteger, bind_ok ht]; exact indexSymbolList_spec fo L i h hd
  case pair vl vr =>
    rw [accessWithInteger, bind_ok ht]
    simp only [Val.typeOf]
    cases h with
    | pair _ hp dl dr =>
      by_cases h0 : Number.numEq fo (.int i) (.int 0) = true
      · simp only [h0, if_true]
        rw [bind_ok (getPair_of hp)]
        simp only []
        rw [bind_ok (getDataType_of dl)]
        cases vl
        case sym k => simp only [accessInt, h0, if_true]; exact ⟨a, s, rfl, .pair ‹_› hp dl dr, EffI.refl s (by inv_tac)⟩
        all_goals exact ⟨s, rfl, EffI.refl s (by inv_tac)⟩
      · have h0' : Number.numEq fo (.int i) (.int 0) = false := by simpa using h0
        simp only [h0', Bool.false_eq_true, if_false]
        cases vl
        case sym k => simp only [accessInt, h0', Bool.false_eq_true, if_false]; exact ⟨s, rfl, EffI.refl s (by inv_tac)⟩
        all_goals exact ⟨s, rfl, EffI.refl s (by inv_tac)⟩
  case range vs ve =>
    rw [accessWithInteger, bind_ok ht]
    simp only [Val.typeOf]
    cases h with
    | range _ hrg ds de =>
      rw [bind_ok (getRangeRaw_of hrg)]
      simp only []
      rw [bind_ok (getDataType_of ds), bind_ok (getDataType_of de)]
      by_cases hn : vs.typeOf = .number ∧ ve.typeOf = .number
      · obtain ⟨x, rfl⟩ := typeOf_number hn.1
        obtain ⟨y, rfl⟩ := typeOf_number hn.2
        simp only [Val.typeOf, accessInt]
        rw [bind_ok (getNumber_of ds), bind_ok (getNumber_of de), bind_apply, rangeLen_rm]
        cases hl : Abs.rangeLen fo x y with
        | none => rfl
        | some len =>
          simp only []
          have hcmp := hro x y len rfl hl
          cases hc : Number.partialCmp fo (.int i) len with
          | none => rw [hc] at hcmp; cases hcmp
          | some o =>
            cases o
            case lt =>
              have : numGe fo (.int i) len = false := by simp [numGe, hc]
              simp only [this, Bool.false_eq_true, if_false]
              cases hp : Number.plus fo x (.int i) with
              | none => simp only []; exact bind_err (orNumErr_none s)
              | some r =>
                simp only []
                rw [bind_ok (orNumErr_some r s)]
                exact accOut_adds (adds_i (L.addNumber r s (by inv_tac)))
            all_goals
              have : numGe fo (.int i) len = true := by simp [numGe, hc]
              simp only [this, if_true]
              exact ⟨s, rfl, EffI.refl s (by inv_tac)⟩
      · have e1 : accessInt fo (.int i) (.range vs ve) = .none := by
          cases vs <;> cases ve <;> first | rfl | (exfalso; exact hn ⟨rfl, rfl⟩)
        rw [e1]
        generalize vs.typeOf = t1 at hn ⊢
        generalize ve.typeOf = t2 at hn ⊢
        cases t1
        case number =>
          cases t2
          case number => exact absurd ⟨rfl, rfl⟩ hn
          all_goals exact ⟨s, rfl, EffI.refl s (by inv_tac)⟩
        all_goals exact ⟨s, rfl, EffI.refl s (by inv_tac)⟩
  all_goals (rw [accessWithInteger, bind_ok ht]; rfl)

/-- `access_with_symbol` refines Abs/Ops `accessSym` -/
theorem accessWithSymbol_spec (L : StoreLawsOn S Inv Rd) (fuel : Nat) {s : σ} {a : Nat} {v : Val F} (sym : Nat)
    (h : Decodes (S.view s) a v) (hd : AccessDomain v) (hf : accessFuel v ≤ fuel) (hnc : ncConcat v)
    (hls : (∀ vs, v ≠ .list vs) ∨ ListSymOn S Inv)
    (hinv : Inv s := by inv_tac) (hdp : Deep S s (S.regs s) := by deep_tac) :
    AccOutI S Inv s (accessWithSymbol fo S fuel sym a s) (accessSym sym v) := by
  have ht := getDataType_of h
  cases v
  case slice => exact absurd hd id
  case concat vl vr => exact accessWithSymbol_concat_spec fo L fuel sym h hf hd hnc
  case list vs =>
    rw [accessWithSymbol, bind_ok ht]
    simp only [Val.typeOf, accessSym]
    obtain ⟨items, hi, hdl⟩ := listItems_of h
    have LS : ListSymOn S Inv := by
      rcases hls with hls | hls
      · exact absurd rfl (hls vs)
      · exact hls
    have hl := LS s a items vs sym hinv hi hdl
    cases hk : Abs.lookupSym sym vs with
    | none =>
      rw [hk] at hl
      exact ⟨s, readR_ok (g := fun st => S.listItemWithSymbol st a sym) hl, EffI.refl s (by inv_tac)⟩
    | some x =>
      rw [hk] at hl
      obtain ⟨r, h1, d⟩ := hl
      exact ⟨r, s, readR_ok (g := fun st => S.listItemWithSymbol st a sym) h1, d, EffI.refl s (by inv_tac)⟩
  case pair vl vr =>
    rw [accessWithSymbol, bind_ok ht]
    simp only [Val.typeOf]
    cases h with
    | pair _ hp dl dr =>
      rw [bind_ok (getPair_of hp)]
      simp only []
      rw [bind_ok (getDataType_of dl)]
      cases vl
      case sym k =>
        simp only [Val.typeOf, accessSym]
        rw [bind_ok (getSymbol_of dl)]
        by_cases hk : k = sym
        · subst hk; simp only [beq_self_eq_true, if_true]; exact ⟨_, s, rfl, dr, EffI.refl s (by inv_tac)⟩
        · have : (k == sym) = false := by simpa using hk
          simp only [this, Bool.false_eq_true, if_false]; exact ⟨s, rfl, EffI.refl s (by inv_tac)⟩
      all_goals exact ⟨s, rfl, EffI.refl s (by inv_tac)⟩
  all_goals (rw [accessWithSymbol, bind_ok ht]; rfl)

/-- `get_access_addr` with an integer or symbol key refines Abs/Ops `getAccess`; any other key is the
`UnsupportedOpTypes` error, before anything is touched -/
theorem getAccessAddr_spec (L : StoreLawsOn S Inv Rd) (fuel : Nat) {s : σ} {ka a : Nat} {key v : Val F}
    (hk : Decodes (S.view s) ka key) (h : Decodes (S.view s) a v) (hd : AccessDomain v)
    (hkey : ∀ n, key = .num n → (∃ i, n = .int i) ∧ RangeOrdered fo n v) (hf : accessFuel v ≤ fuel)
    (hnc : ncConcat v) (hls : (∀ y, key = .sym y → ∀ vs, v ≠ .list vs) ∨ ListSymOn S Inv)
    (hinv : Inv s := by inv_tac) (hdp : Deep S s (S.regs s) := by deep_tac) :
    AccOutI S Inv s (getAccessAddr fo S fuel ka a s) (getAccess fo key v) := by
  have ht := getDataType_of hk
  cases key
  case num n =>
    obtain ⟨⟨i, rfl⟩, hro⟩ := hkey n rfl
    rw [getAccessAddr, bind_ok ht]
    simp only [Val.typeOf]
    rw [bind_ok (getNumber_of hk)]
    exact accessWithInteger_spec fo L fuel i h hd hro hf hnc
  case sym y =>
    rw [getAccessAddr, bind_ok ht]
    simp only [Val.typeOf]
    rw [bind_ok (getSymbol_of hk)]
    exact accessWithSymbol_spec fo L fuel y h hd hf hnc (hls.imp (fun f => f y rfl) id)
  all_goals (rw [getAccessAddr, bind_ok ht]; rfl)

end Garnish.Lemmas.Runtime.On
