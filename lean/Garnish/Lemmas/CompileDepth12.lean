/-
C06 static half on compiled code, part 12: the `Expression` constants. Every expression constant that `emit`
allocates names either the body being compiled (`{ }`) or a nested body it pushes as a pending root — so the entry
of every expression constant is an instruction entered at depth 0.
-/
import Garnish.Lemmas.CompileDepth11
namespace Garnish.Abs
open Garnish Gen Garnish.Spec Garnish.Props.C06

variable {F : Type}

/-- the expression constant `j` is accounted for in state `s'` -/
def ConstAcc (cur : Nat) (s' : LState F) (j : Nat) : Prop :=
  j = cur ∨ ∃ p ∈ s'.pending.zip s'.pendDep, p.1.patch = j ∧ ∃ id, p.1.kind = .ref id

theorem ConstAcc.keep {cur j : Nat} {a b : LState F} (h : ConstAcc cur a j) (k : AppD a b) : ConstAcc cur b j := by
  rcases h with h | ⟨p, hp, h1, h2⟩
  · exact .inl h
  · exact .inr ⟨p, k.keepZ p hp, h1, h2⟩

/-- the new expression constants of one emission are accounted for -/
def ConstsOK (cur : Nat) (s s' : LState F) : Prop :=
  ∀ k j, s.consts.size ≤ k → s'.consts[k]? = some (.expr j) → ConstAcc cur s' j

theorem ConstsOK.trans {cur : Nat} {a b c : LState F} (h1 : ConstsOK cur a b) (h2 : ConstsOK cur b c)
    (p : ∀ k, k < b.consts.size → c.consts[k]? = b.consts[k]?) (d : AppD b c) : ConstsOK cur a c := by
  intro k j hk hj
  by_cases hlt : k < b.consts.size
  · rw [p k hlt] at hj
    exact (h1 k j hk hj).keep d
  · exact h2 k j (by omega) hj

theorem ConstsOK.same {cur : Nat} {a b : LState F} (h : b.consts = a.consts) : ConstsOK cur a b := by
  intro k j hk hj
  rw [h] at hj
  rw [Array.getElem?_eq_none hk] at hj
  cases hj

theorem ConstsOK.push {cur : Nat} (s : LState F) (i : Instruction) (d : Option Nat) : ConstsOK cur s (s.push i d) := .same rfl
theorem ConstsOK.pushJump {cur : Nat} (s : LState F) (t : Nat) : ConstsOK cur s (s.pushJump t) := .same rfl

theorem ConstsOK.pushConst {cur : Nat} (s : LState F) (i : Instruction) (v : Val F) (hv : ∀ j, v = .expr j → j = cur) :
    ConstsOK cur s (s.pushConst i v) := by
  intro k j hk hj
  simp only [LState.pushConst, Array.getElem?_push] at hj
  split at hj
  · simp only [Option.some.injEq] at hj
    exact .inl (hv j hj)
  · rw [Array.getElem?_eq_none hk] at hj; cases hj

theorem ConstsOK.thenPush {cur : Nat} {a b : LState F} (h : ConstsOK cur a b) (i : Instruction) (d : Option Nat) :
    ConstsOK cur a (b.push i d) := h.trans (.push _ _ _) (Pre.push b i d).consts (.push _ _ _)

theorem ConstsOK.thenPushJump {cur : Nat} {a b : LState F} (h : ConstsOK cur a b) (t : Nat) :
    ConstsOK cur a (b.pushJump t) := h.trans (.pushJump _ _) (Pre.pushJump b t).consts (.pushJump _ _)

theorem condTail_consts {cur : Nat} {b : Bool} {t : Expr F} (s1 : LState F) : ConstsOK cur s1 (condTail cur b t s1) := .same rfl
theorem logicalTail_consts {cur : Nat} {i : Instruction} {r : Expr F} (s1 : LState F) :
    ConstsOK cur s1 (logicalTail cur i r s1) := .same rfl
theorem finishChain_consts {cur : Nat} {items : List (Expr F × Nat)} (s2 : LState F) :
    ConstsOK cur s2 (finishChain cur s2 items) := by
  cases items <;> exact .same rfl

/-- both monotonicity relations of one emission -/
theorem emit_both (root cur : Nat) (e : Expr F) (s : LState F) (hc : cur < s.jumps.size) :
    Pre s (emit root cur e s) ∧ AppD s (emit root cur e s) :=
  ⟨(emit_pre root cur e s hc).1, (emit_dstep root cur e s).app⟩

mutual
theorem emit_consts (root cur : Nat) : ∀ (e : Expr F) (s : LState F), cur < s.jumps.size → wfE e = true →
    ConstsOK cur s (emit root cur e s)
  | .lit v, s, _, hw => by
    simp only [emit]
    refine .pushConst s _ _ (fun j hj => ?_)
    subst hj; simp [wfE] at hw
  | .input, s, _, _ => by simp only [emit]; exact .push s _ _
  | .ident sym, s, _, _ => by
    simp only [emit]; exact .pushConst s _ _ (fun j hj => by cases hj)
  | .emptyNested, s, _, _ => by
    simp only [emit]
    refine .pushConst s _ _ (fun j hj => ?_)
    simp only [Val.expr.injEq] at hj
    exact hj.symm
  | .nested id, s, _, _ => by
    simp only [emit]
    intro k j hk hj
    simp only [LState.pushRoot, LState.pushConst, LState.pushJump, Array.getElem?_push] at hj
    split at hj
    · simp only [Option.some.injEq, Val.expr.injEq] at hj
      refine .inr ⟨(⟨.ref id, s.jumps.size, [(.endExpression, none)], s.jumps.size⟩, 0), ?_, hj, id, rfl⟩
      simp [LState.pushRoot, LState.pushConst, LState.pushJump]
    · rw [Array.getElem?_eq_none hk] at hj; cases hj
  | .unary op x, s, hc, hw => by
    simp only [wfE, Bool.and_eq_true] at hw
    simp only [emit]
    obtain ⟨p1, d1⟩ := emit_both root cur x s hc
    exact (emit_consts root cur x s hc hw.2).thenPush _ _
  | .binary op l r, s, hc, hw => by
    simp only [wfE, Bool.and_eq_true] at hw
    simp only [emit]
    obtain ⟨p1, d1⟩ := emit_both root cur l s hc
    have c1 : cur < (emit root cur l s).jumps.size := by have := p1.jsize; omega
    obtain ⟨p2, d2⟩ := emit_both root cur r _ c1
    exact ((emit_consts root cur l s hc hw.1.2).trans
      (emit_consts root cur r _ c1 hw.2) p2.consts d2).thenPush _ _
  | .pair l r, s, hc, hw => by
    simp only [wfE, Bool.and_eq_true] at hw
    simp only [emit]
    obtain ⟨p1, d1⟩ := emit_both root cur r s hc
    have c1 : cur < (emit root cur r s).jumps.size := by have := p1.jsize; omega
    obtain ⟨p2, d2⟩ := emit_both root cur l _ c1
    exact ((emit_consts root cur r s hc hw.2).trans
      (emit_consts root cur l _ c1 hw.1) p2.consts d2).thenPush _ _
  | .applyTo x f, s, hc, hw => by
    simp only [wfE, Bool.and_eq_true] at hw
    simp only [emit]
    obtain ⟨p1, d1⟩ := emit_both root cur f s hc
    have c1 : cur < (emit root cur f s).jumps.size := by have := p1.jsize; omega
    obtain ⟨p2, d2⟩ := emit_both root cur x _ c1
    exact ((emit_consts root cur f s hc hw.2).trans
      (emit_consts root cur x _ c1 hw.1) p2.consts d2).thenPush _ _
  | .list items, s, hc, hw => by
    simp only [wfE] at hw
    simp only [emit]
    exact (emitList_consts root cur items s hc hw).thenPush _ _
  | .cond onTrue c t, s, hc, hw => by
    simp only [wfE, Bool.and_eq_true] at hw
    simp only [emit]
    obtain ⟨p1, d1⟩ := emit_both root cur c s hc
    have c1 : cur < (emit root cur c s).jumps.size := by have := p1.jsize; omega
    exact (emit_consts root cur c s hc hw.1).trans (condTail_consts _) (condTail_pre c1).1.consts
      (emit_dstep root cur (.cond onTrue c t) s |> fun _ => by
        have := (condTail_dep (cur := cur) (onTrue := onTrue) (t := t) (k := (emit root cur c s).dep - 1 + 0)
          (s1 := emit root cur c s))
        exact ((((AppD.pushJump _ _).trans (.push _ _ _)).trans (.push _ _ _)).trans (.pushRoot _ _)).trans (.pushJump _ _))
  | .and l r, s, hc, hw => by
    simp only [wfE, Bool.and_eq_true] at hw
    simp only [emit]
    obtain ⟨p1, d1⟩ := emit_both root cur l s hc
    have c1 : cur < (emit root cur l s).jumps.size := by have := p1.jsize; omega
    exact (emit_consts root cur l s hc hw.1).trans (logicalTail_consts _) (logicalTail_pre c1).1.consts
      (logicalTail_dep (.inl rfl)).1.app
  | .or l r, s, hc, hw => by
    simp only [wfE, Bool.and_eq_true] at hw
    simp only [emit]
    obtain ⟨p1, d1⟩ := emit_both root cur l s hc
    have c1 : cur < (emit root cur l s).jumps.size := by have := p1.jsize; omega
    exact (emit_consts root cur l s hc hw.1).trans (logicalTail_consts _) (logicalTail_pre c1).1.consts
      (logicalTail_dep (.inr rfl)).1.app
  | .seq a b, s, hc, hw => by
    simp only [wfE, Bool.and_eq_true] at hw
    simp only [emit]
    obtain ⟨p1, d1⟩ := emit_both root cur a s hc
    have c1 : cur < ((emit root cur a s).push .updateValue none).jumps.size := by have := p1.jsize; simp; omega
    obtain ⟨p2, d2⟩ := emit_both root cur b _ c1
    exact ((emit_consts root cur a s hc hw.1).thenPush _ _).trans
      (emit_consts root cur b _ c1 hw.2) p2.consts d2
  | .sideAfter x b, s, hc, hw => by
    simp only [wfE, Bool.and_eq_true] at hw
    simp only [emit]
    obtain ⟨p1, d1⟩ := emit_both root cur x s hc
    have c1 : cur < ((emit root cur x s).push .startSideEffect none).jumps.size := by have := p1.jsize; simp; omega
    obtain ⟨p2, d2⟩ := emit_both root cur b _ c1
    exact (((emit_consts root cur x s hc hw.1.1).thenPush _ _).trans
      (emit_consts root cur b _ c1 hw.1.2) p2.consts d2).thenPush _ _
  | .reapply x, s, hc, hw => by
    simp only [wfE] at hw
    simp only [emit]
    exact ((emit_consts root cur x s hc hw).thenPush _ _).thenPush _ _
  | .prefixApply sym x, s, hc, hw => by
    simp only [wfE] at hw
    simp only [emit]
    have c0 : cur < (s.pushConst .resolve (.sym sym)).jumps.size := by simpa using hc
    obtain ⟨p1, d1⟩ := emit_both root cur x _ c0
    exact ((ConstsOK.pushConst s _ _ (fun j hj => by cases hj)).trans
      (emit_consts root cur x _ c0 hw) p1.consts d1).thenPush _ _
  | .suffixApply x sym, s, hc, hw => by
    simp only [wfE] at hw
    simp only [emit]
    have c0 : cur < (s.pushConst .resolve (.sym sym)).jumps.size := by simpa using hc
    obtain ⟨p1, d1⟩ := emit_both root cur x _ c0
    exact ((ConstsOK.pushConst s _ _ (fun j hj => by cases hj)).trans
      (emit_consts root cur x _ c0 hw) p1.consts d1).thenPush _ _
  | .infixApply a sym b, s, hc, hw => by
    simp only [wfE, Bool.and_eq_true] at hw
    simp only [emit]
    have c0 : cur < (s.pushConst .resolve (.sym sym)).jumps.size := by simpa using hc
    obtain ⟨p1, d1⟩ := emit_both root cur a _ c0
    have c1 : cur < (emit root cur a (s.pushConst .resolve (.sym sym))).jumps.size := by have := p1.jsize; omega
    obtain ⟨p2, d2⟩ := emit_both root cur b _ c1
    exact (((((ConstsOK.pushConst s _ _ (fun j hj => by cases hj)).trans
      (emit_consts root cur a _ c0 hw.1) p1.consts d1).trans
      (emit_consts root cur b _ c1 hw.2) p2.consts d2).thenPush _ _).thenPush _ _)
  | .chain arms none, s, _, hw => by simp [wfE_chain] at hw
  | .chain arms (some e), s, hc, hw => by
    simp only [wfE_chain, Bool.and_eq_true] at hw
    simp only [emit]
    obtain ⟨p1, _, ok1⟩ := emitArms_pre root cur arms s hc
    have c1 : cur < (emitArms root cur arms s).1.jumps.size := by have := p1.jsize; omega
    obtain ⟨p2, d2⟩ := emit_both root cur e _ c1
    exact ((emitArms_consts root cur arms s hc hw.1).trans
      (emit_consts root cur e _ c1 hw.2) p2.consts d2).trans (finishChain_consts _)
      (fun k _ => by cases (emitArms root cur arms s).2 <;> rfl) finishChain_dep.1.app

theorem emitList_consts (root cur : Nat) : ∀ (items : List (Expr F)) (s : LState F), cur < s.jumps.size →
    wfEList items = true → ConstsOK cur s (emitList root cur items s)
  | [], s, _, _ => by simp only [emitList]; exact .same rfl
  | x :: xs, s, hc, hw => by
    simp only [wfEList, Bool.and_eq_true] at hw
    simp only [emitList]
    obtain ⟨p1, d1⟩ := emit_both root cur x s hc
    have c1 : cur < (emit root cur x s).jumps.size := by have := p1.jsize; omega
    exact (emit_consts root cur x s hc hw.1).trans
      (emitList_consts root cur xs _ c1 hw.2) (emitList_pre root cur xs _ c1).1.consts
      (emitList_dstep root cur xs _).app

theorem emitArms_consts (root cur : Nat) : ∀ (arms : List (Bool × Expr F × Expr F)) (s : LState F), cur < s.jumps.size →
    wfEArms arms = true → ConstsOK cur s (emitArms root cur arms s).1
  | [], s, _, _ => by simp only [emitArms]; exact .same rfl
  | (b, c, t) :: rest, s, hc, hw => by
    simp only [wfEArms, Bool.and_eq_true] at hw
    simp only [emitArms]
    obtain ⟨p1, d1⟩ := emit_both root cur c s hc
    have ca : cur < (((emit root cur c s).pushJump 0).push (jumpIf b) (some (emit root cur c s).jumps.size)).jumps.size := by
      have := p1.jsize; simp; omega
    exact (((emit_consts root cur c s hc hw.1.1).thenPushJump _).thenPush _ _).trans
      (emitArms_consts root cur rest _ ca hw.2) (emitArms_pre root cur rest _ ca).1.consts
      (emitArms_dstep root cur rest _).app
end

end Garnish.Abs
