/-
The parser's node array represents the elaborated program (2): one node — what `leafE` / `preE` / `sufE` / `binE` accept
is what the constructors of `Rep` ask for.
-/
import Garnish.Lemmas.SourceRep2
namespace Garnish.Abs.Source
open Garnish Garnish.Gen Garnish.Spec Garnish.Abs Garnish.Abs.Tree Garnish.Model.Parser Garnish.Model.Literals

variable {F : Type} (pf : List Char → Option F) (nodes : Array ParseNode) (B : List (Nat × Expr F))

/-- what the induction carries for a subtree: it represents the expression; a list node represents its items, a conditional
its arm, a `|>` over conditionals its arms -/
structure Out (lo hi i : Nat) (t' : RTree) (x : Res F) : Prop where
  rep : Rep pf nodes B lo hi i x.e
  items : x.items ≠ [] → ∀ d, rootDef t' = some d → RepItems pf nodes B d lo hi i x.items
  arm : ∀ c, x.arms = [c] → isJumpIf t' = true → RepArm pf nodes B lo hi i c.1 c.2.1 c.2.2
  arms : x.arms ≠ [] → RepArms pf nodes B lo hi i x.arms

variable {pf nodes B}

theorem Out.plain {lo hi i : Nat} {t' : RTree} {e : Expr F} {bs : List (Nat × Expr F)} (h : Rep pf nodes B lo hi i e) :
    Out pf nodes B lo hi i t' (plain e bs) :=
  ⟨h, fun h => absurd rfl h, fun c h => by simp [Source.plain] at h, fun h => absurd rfl h⟩

theorem leaf_rep {i : Nat} {n : ParseNode} {e : Expr F} (hn : nodes[i]? = some n) (hl : n.left = none) (hr : n.right = none)
    (he : leafE pf n.definition n.lexToken.text = some e) : Rep pf nodes B i (i + 1) i e := by
  unfold leafE at he
  split at he
  · cases he; exact Rep.lit hn hl hr (.unit (by assumption))
  · cases he; exact Rep.lit hn hl hr (.tru (by assumption))
  · cases he; exact Rep.lit hn hl hr (.fls (by assumption))
  · split at he
    · cases he; exact Rep.lit hn hl hr (.num (by assumption) (by assumption))
    · cases he
  · split at he
    · cases he; exact Rep.lit hn hl hr (.chars (by assumption) (by assumption))
    · cases he
  · split at he
    · cases he; exact Rep.lit hn hl hr (.bytes (by assumption) (by assumption))
    · cases he
  · split at he
    · cases he; exact Rep.lit hn hl hr (.sym (by assumption) (by assumption))
    · cases he
  · cases he; exact Rep.lit hn hl hr (.prop (by assumption))
  · cases he; exact Rep.input hn (by assumption) hl hr
  · cases he; exact Rep.ident hn (by assumption) hl hr
  · cases he

theorem leaf_leafRep {n : ParseNode} {e : Expr F} (he : leafE pf n.definition n.lexToken.text = some e) : LeafRep pf n e := by
  unfold leafE at he
  split at he
  · cases he; exact .lit (.unit (by assumption))
  · cases he; exact .lit (.tru (by assumption))
  · cases he; exact .lit (.fls (by assumption))
  · split at he
    · cases he; exact .lit (.num (by assumption) (by assumption))
    · cases he
  · split at he
    · cases he; exact .lit (.chars (by assumption) (by assumption))
    · cases he
  · split at he
    · cases he; exact .lit (.bytes (by assumption) (by assumption))
    · cases he
  · split at he
    · cases he; exact .lit (.sym (by assumption) (by assumption))
    · cases he
  · cases he; exact .lit (.prop (by assumption))
  · cases he; exact .input (by assumption)
  · cases he; exact .ident (by assumption)
  · cases he

theorem pre_out {hi i ri : Nat} {n : ParseNode} {t' : RTree} {x y : Res F} (hn : nodes[i]? = some n)
    (hr : n.right = some ri) (hx : Rep pf nodes B (i + 1) hi ri x.e)
    (he : preE n.definition n.lexToken.text x = some y) : Out pf nodes B i hi i t' y := by
  unfold preE at he
  split at he
  · cases he; exact Out.plain (Rep.unaryPre hn (by assumption) hr hx)
  · split at he
    · cases he; exact Out.plain (Rep.reapply hn (by simpa using ‹(n.definition == Definition.reapply) = true›) hr hx)
    · split at he
      · cases he
        exact Out.plain (Rep.prefixApply hn (by simpa using ‹(n.definition == Definition.prefixApply) = true›) hr hx)
      · cases he

theorem suf_out {lo i li : Nat} {n : ParseNode} {t' : RTree} {x y : Res F} (hn : nodes[i]? = some n)
    (hl : n.left = some li) (hx : Rep pf nodes B lo i li x.e)
    (he : sufE n.definition n.lexToken.text x = some y) : Out pf nodes B lo (i + 1) i t' y := by
  unfold sufE at he
  split at he
  · cases he; exact Out.plain (Rep.unarySuf hn (by assumption) hl hx)
  · split at he
    · cases he
      exact Out.plain (Rep.suffixApply hn (by simpa using ‹(n.definition == Definition.suffixApply) = true›) hl hx)
    · cases he

end Garnish.Abs.Source
